#!/bin/bash
# Builds the framework from files on disk only (offline): Lean model + theorems + driver, Go harness.
set -e
cd "$(dirname "$0")"
export GOFLAGS=-mod=mod GOPROXY=off GOSUMDB=off GOTOOLCHAIN=local
mkdir -p out evidence go/bin
(cd go && go build -o bin/factgen ./cmd/factgen && rm -rf ../lean/Pogreb/Generated && mkdir -p ../lean/Pogreb/Generated && ./bin/factgen -repo /repo -out ../lean/Pogreb/Generated)
(cd lean && lake build Pogreb driver 2>&1 | tail -3)
(cd go && go build -tags verif -o bin/harness ./cmd/harness)
echo setup done
