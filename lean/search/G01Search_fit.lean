/-
  Search for a concrete argument on which a TRANSLATED function of the code (Generated/Funcs.lean)
  differs from the model's definition. Run by `check` when a G01 obligation no longer checks:
  `lake env lean --run search/G01Search_<group>.lean`, group ∈ rec | idx | roll | fit (one file per group, so
  that an untranslatable function of one group does not silence the others). Prints one line
  `DIFF <function> <arguments> code=<..> model=<..>` per disagreement found on a grid of boundary
  values (a search, not a proof: the theorems of Props/G01*.lean are the proof).
-/
import Pogreb.Generated.Funcs
import Pogreb.Index
open Pogreb Pogreb.Generated

def grid32 : List Nat :=
  [0, 1, 2, 5, 6, 7, 30, 31, 32, 33, 255, 256, 511, 512, 513, 65535, 65536, 2^31 - 1, 2^31, 2^31 + 1,
   2^31 + 77, 2^32 - 513, 2^32 - 512, 2^32 - 11, 2^32 - 10, 2^32 - 2, 2^32 - 1]
def grid64 : List Nat :=
  [0, 1, 511, 512, 513, 1000, 1024, 4096, 2^31 - 1, 2^31, 2^32 - 600, 2^32 - 100, 2^32 - 1, 2^32, 2^32 + 5, 2^33, 2^40]
def gridLen : List Nat := [0, 1, 10, 11, 100, 512, 600, 2^16 + 10, 2^29 + 2^16 + 10]

/-- key sizes (a `uint16` widened to `uint32` in the code) and value sizes; the pairs with
`ks + vs + 10 ≥ 2³²` are skipped (hypothesis of `G01_recordFitsGuard`). 27·9·27·17 ≈ 111k evaluations. -/
def gridKs : List Nat := [0, 1, 2, 255, 256, 502, 512, 65534, 65535]
def gridVs : List Nat := grid32

def report (fn args : String) (code model : String) : IO Unit :=
  IO.println s!"DIFF {fn} {args} code={code} model={model}"

def searchFit : IO Unit := do
  for off in grid32 do
    for ks in gridKs do
      for vs in gridVs do
        if ks + vs + 10 < 2^32 then
          for fsize in grid64 do
            let c := Funcs.recordFitsGuard (f_f_size := BitVec.ofNat 64 fsize) (f_offset := BitVec.ofNat 32 off)
              (v_keySize := BitVec.ofNat 32 ks) (v_valueSize := BitVec.ofNat 32 vs)
            let m := decide (fsize < off + (ks + vs + 10))
            if c ≠ m then
              report "segmentIterator.next:recordFits" s!"offset={off} keySize={ks} valueSize={vs} fileSize={fsize}" (toString c) (toString m)


def main : IO Unit := searchFit
