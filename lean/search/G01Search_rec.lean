/-
  Search for a concrete argument on which a TRANSLATED function of the code (Generated/Funcs.lean)
  differs from the model's definition. Run by `check` when a G01 obligation no longer checks:
  `lake env lean --run search/G01Search_<group>.lean`, group ∈ rec | idx | roll | fit (one file per group, so
  that an untranslatable function of one group does not silence the others). Prints one line
  `DIFF <function> <arguments> code=<..> model=<..>` per disagreement found on a grid of boundary
  values (a search, not a proof: the theorems of Props/G01*.lean are the proof).
-/
import Pogreb.Generated.Funcs
import Pogreb.Index
open Pogreb Pogreb.Generated

def grid32 : List Nat :=
  [0, 1, 2, 5, 6, 7, 30, 31, 32, 33, 255, 256, 511, 512, 513, 65535, 65536, 2^31 - 1, 2^31, 2^31 + 1,
   2^31 + 77, 2^32 - 513, 2^32 - 512, 2^32 - 11, 2^32 - 10, 2^32 - 2, 2^32 - 1]
def grid64 : List Nat :=
  [0, 1, 511, 512, 513, 1000, 1024, 4096, 2^31 - 1, 2^31, 2^32 - 600, 2^32 - 100, 2^32 - 1, 2^32, 2^32 + 5, 2^33, 2^40]
def gridLen : List Nat := [0, 1, 10, 11, 100, 512, 600, 2^16 + 10, 2^29 + 2^16 + 10]

def report (fn args : String) (code model : String) : IO Unit :=
  IO.println s!"DIFF {fn} {args} code={code} model={model}"

def searchRec : IO Unit := do
  for kv in grid32 do
    if kv + 10 < 2^32 then
      let c := (Funcs.encodedRecordSize (BitVec.ofNat 32 kv)).toNat
      if c ≠ kv + 10 then report "encodedRecordSize" s!"kvSize={kv}" (toString c) (toString (kv + 10))
  for ks in [0, 1, 255, 256, 65535] do
    for vs in grid32 do
      if vs < 2^31 then
        let c := (Funcs.kvSize (f_keySize := BitVec.ofNat 16 ks) (f_valueSize := BitVec.ofNat 32 vs)).toNat
        if c ≠ ks + vs then report "slot.kvSize" s!"keySize={ks} valueSize={vs}" (toString c) (toString (ks + vs))
  for vs in grid32 do
    let c := Funcs.deleteBitGuard (v_valueSize := BitVec.ofNat 32 vs)
    let m := decide (2^31 ≤ vs)
    if c ≠ m then report "deleteBit" s!"valueSizeWord={vs}" (toString c) (toString m)


def main : IO Unit := searchRec
