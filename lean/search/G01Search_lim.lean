/-
  Search for a length on which a size guard of `DB.Put` (translated from /repo's current source,
  Generated/Funcs.lean) differs from the documented limit. Run by `check` when a G01Lim obligation no
  longer checks. Prints `DIFF <function> <arguments> code=<..> model=<..>` lines (a search, not a proof).
-/
import Pogreb.Generated.Funcs
open Pogreb Pogreb.Generated

def gridLen : List Nat :=
  [0, 1, 255, 256, 65534, 65535, 65536, 65537, 2^20, 2^29 - 1, 2^29, 2^29 + 1, 2^30, 2^31 - 1, 2^31, 2^32 - 1, 2^32, 2^32 + 1, 2^40]

def main : IO Unit := do
  for n in gridLen do
    let c := Funcs.keyTooLargeGuard (len_p0 := BitVec.ofNat 64 n)
    if c ≠ decide (65535 < n) then
      IO.println s!"DIFF DB.Put:keyTooLarge len(key)={n} code={c} model={decide (65535 < n)}"
    let c := Funcs.valueTooLargeGuard (len_p1 := BitVec.ofNat 64 n)
    if c ≠ decide (2^29 < n) then
      IO.println s!"DIFF DB.Put:valueTooLarge len(value)={n} code={c} model={decide (2^29 < n)}"
