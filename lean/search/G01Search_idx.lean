/-
  Search for a concrete argument on which a TRANSLATED function of the code (Generated/Funcs.lean)
  differs from the model's definition. Run by `check` when a G01 obligation no longer checks:
  `lake env lean --run search/G01Search_<group>.lean`, group ∈ rec | idx | roll | fit (one file per group, so
  that an untranslatable function of one group does not silence the others). Prints one line
  `DIFF <function> <arguments> code=<..> model=<..>` per disagreement found on a grid of boundary
  values (a search, not a proof: the theorems of Props/G01*.lean are the proof).
-/
import Pogreb.Generated.Funcs
import Pogreb.Index
open Pogreb Pogreb.Generated

def grid32 : List Nat :=
  [0, 1, 2, 5, 6, 7, 30, 31, 32, 33, 255, 256, 511, 512, 513, 65535, 65536, 2^31 - 1, 2^31, 2^31 + 1,
   2^31 + 77, 2^32 - 513, 2^32 - 512, 2^32 - 11, 2^32 - 10, 2^32 - 2, 2^32 - 1]
def grid64 : List Nat :=
  [0, 1, 511, 512, 513, 1000, 1024, 4096, 2^31 - 1, 2^31, 2^32 - 600, 2^32 - 100, 2^32 - 1, 2^32, 2^32 + 5, 2^33, 2^40]
def gridLen : List Nat := [0, 1, 10, 11, 100, 512, 600, 2^16 + 10, 2^29 + 2^16 + 10]

def report (fn args : String) (code model : String) : IO Unit :=
  IO.println s!"DIFF {fn} {args} code={code} model={model}"

def searchIdx : IO Unit := do
  for i in grid32 do
    let c := (Funcs.bucketOffset (BitVec.ofNat 32 i)).toNat
    if c ≠ 512 * (i + 1) then report "bucketOffset" s!"idx={i}" (toString c) (toString (512 * (i + 1)))
  for n in grid32 do
    let c := Funcs.indexFullGuard (f_numKeys := BitVec.ofNat 32 n)
    let m := decide (n = 4294967295)
    if c ≠ m then report "index.put:MaxKeys" s!"numKeys={n}" (toString c) (toString m)
  for level in List.range 35 do
    for split in [0, 1, 2, 3, 5, 2^level / 2, 2^level - 1, 2^level] do
      for h in grid32 ++ [3, 4, 8, 9, 12, 77, 1023, 1025, 0xdeadbeef, 0x55555555, 0xaaaaaaaa] do
        if split < 2^32 then
          let c := (Funcs.bucketIndex (BitVec.ofNat 32 h) (f_level := BitVec.ofNat 8 level)
            (f_splitBucketIdx := BitVec.ofNat 32 split)).toNat
          let m := bucketIdx level split h
          if c ≠ m then report "index.bucketIndex" s!"level={level} splitBucketIdx={split} hash={h}" (toString c) (toString m)


def main : IO Unit := searchIdx
