/-
  Search for concrete field values on which the mapping size `osMMapFile.mremap` requests (translated
  from /repo's current source, Generated/Funcs.lean) differs from the model's `MMapFile.mremap`, or on
  which the mapping it asks for does not cover the file. Run by `check` when a G01Mmap obligation no longer
  checks. Prints `DIFF <function> <arguments> code=<..> model=<..>` lines (a search, not a proof).
-/
import Pogreb.Generated.Funcs
import Pogreb.Props.C17
open Pogreb Pogreb.Generated

def gridSz : List Nat :=
  [0, 1, 511, 512, 4096, 2^20, 2^29, 2^29 + 2^16 + 10, 2^30 - 1, 2^30, 2^30 + 1, 2^30 + 512, 3 * 2^29, 2^31 - 1, 2^31, 2^31 + 1,
   3 * 2^30, 2^32 - 1, 2^32, 2^32 + 512, 2^33, 2^33 + 1, 2^40, 2^61]
def gridMs : List Nat := [0, 2^30, 2^30 + 512, 2^31, 2^32, 2^33, 2^40, 2^61]

def main : IO Unit := do
  for ms in gridMs do
    for sz in gridSz do
      let c := (Funcs.mremapRequest (f_mmapSize := BitVec.ofNat 64 ms) (f_size := BitVec.ofNat 64 sz)).map BitVec.toNat
      let m : Option Nat := if ms ≥ sz then none else some (MMapFile.mremap ⟨sz, ms⟩).mmapSize
      if c ≠ m then
        IO.println s!"DIFF osMMapFile.mremap:request mmapSize={ms} size={sz} code={c} model={m}"
      -- one growth step of at most 1 GiB from a covered state must stay covered
      if ms ≥ 2^30 ∨ ms = 0 then
        if sz ≤ ms + 2^30 then
          let after := c.getD ms
          if after < sz then
            IO.println s!"DIFF osMMapFile.mremap:covers mmapSize={ms} size={sz} code={after} model=at-least-{sz}"
