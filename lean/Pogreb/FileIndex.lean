/-
  File-level model of the index (index.go, bucket.go): the main bucket array, the overflow bucket
  array addressed through `next` pointers, the free-overflow-bucket list, and the slot writer that
  allocates overflow buckets. `FIndex.parse` follows the pointers and yields the chain-level
  `Index` the refinement theorems of `IndexThms` are about.

  A `next` pointer is `0` (none) or `j + 1` for the overflow bucket with array index `j`
  (file offset `512 * (j + 1)`: the overflow file starts with a 512-byte header).
-/
import Pogreb.Index
namespace Pogreb

structure FBucket where
  slots : List Slot      -- packed prefix of used slots (at most 31)
  next  : Nat            -- 0 or (overflow index + 1)
  deriving Repr, DecidableEq, Inhabited

def FBucket.empty : FBucket := ⟨[], 0⟩

/-- Reference to a bucket: in the main file or in the overflow file. -/
inductive Ref where
  | main (i : Nat)
  | ovf (j : Nat)        -- array index (pointer value minus one)
  deriving Repr, DecidableEq, Inhabited

structure FIndex where
  level   : Nat
  split   : Nat
  numKeys : Nat
  main    : List FBucket
  ovf     : List FBucket
  free    : List Nat     -- pointer values (index + 1) of freed overflow buckets, oldest first
  deriving Repr

namespace FIndex

def empty : FIndex := ⟨0, 0, 0, [FBucket.empty], [], []⟩

def numBuckets (fi : FIndex) : Nat := fi.main.length

def read (fi : FIndex) : Ref → FBucket
  | .main i => fi.main.getD i FBucket.empty
  | .ovf j => fi.ovf.getD j FBucket.empty

def write (fi : FIndex) (r : Ref) (b : FBucket) : FIndex :=
  match r with
  | .main i => { fi with main := fi.main.set i b }
  | .ovf j => { fi with ovf := fi.ovf.set j b }

/-- `bucketIterator`: the buckets of chain `i`, following `next` (fuel bounds the walk). -/
def chainFrom (fi : FIndex) : Nat → Ref → List (Ref × FBucket)
  | 0, _ => []
  | fuel + 1, r =>
    let b := fi.read r
    (r, b) :: (if b.next = 0 then [] else chainFrom fi fuel (.ovf (b.next - 1)))

def chainRefs (fi : FIndex) (i : Nat) : List (Ref × FBucket) := fi.chainFrom (fi.ovf.length + 1) (.main i)

/-- The chain-level view. -/
def parse (fi : FIndex) : Index :=
  ⟨fi.level, fi.split, (List.range fi.main.length).map (fun i => (fi.chainRefs i).map (·.2.slots)), fi.numKeys⟩

/-- `createOverflowBucket`: reuse the oldest freed bucket, else extend the overflow file. Returns the
pointer value. The bucket's previous content is irrelevant: the handle starts empty and is written. -/
def createOverflow (fi : FIndex) : FIndex × Nat :=
  match fi.free with
  | n :: rest => ({ fi with free := rest }, n)
  | [] => ({ fi with ovf := fi.ovf ++ [FBucket.empty] }, fi.ovf.length + 1)

/-- `slotWriter`: bucket being filled (held in memory), where it will be written, and the full
buckets before it. -/
structure SW where
  ref   : Ref
  cur   : FBucket
  prevs : List (Ref × FBucket)
  deriving Repr

/-- `slotWriter.insert` at the end of the current bucket (`slotIdx = cur.slots.length`). -/
def swInsert (fi : FIndex) (w : SW) (s : Slot) : FIndex × SW :=
  if w.cur.slots.length = slotsPerBucket then
    let (fi', n) := fi.createOverflow
    (fi', ⟨.ovf (n - 1), ⟨[s], 0⟩, w.prevs ++ [(w.ref, { w.cur with next := n })]⟩)
  else (fi, { w with cur := { w.cur with slots := w.cur.slots ++ [s] } })

/-- `slotWriter.write`. -/
def swWrite (fi : FIndex) (w : SW) : FIndex :=
  (w.prevs.foldl (fun f (p : Ref × FBucket) => f.write p.1 p.2) fi).write w.ref w.cur

/-- Position of the first slot matching `(h, m)` in a chain: bucket reference, bucket, slot index. -/
def findMatch (h : Nat) (m : Slot → Bool) : List (Ref × FBucket) → Option (Ref × FBucket × Nat)
  | [] => none
  | (r, b) :: rest =>
    match b.slots.findIdx? (fun s => decide (s.hash = h) && m s) with
    | some i => some (r, b, i)
    | none => findMatch h m rest

/-- First bucket of the chain with an empty slot. -/
def firstFree : List (Ref × FBucket) → Option (Ref × FBucket)
  | [] => none
  | (r, b) :: rest => if b.slots.length < slotsPerBucket then some (r, b) else firstFree rest

/-- `index.get`. -/
def get (fi : FIndex) (h : Nat) (m : Slot → Bool) : Option Slot :=
  let c := fi.chainRefs (bucketIdx fi.level fi.split h)
  match findMatch h m c with
  | some (_, b, i) => b.slots[i]?
  | none => none

/-- `index.split`. -/
def doSplit (fi : FIndex) : FIndex :=
  let s := fi.split
  let old := fi.chainRefs s
  let oldOvf := old.filterMap fun (p : Ref × FBucket) => if p.2.next = 0 then none else some p.2.next
  let (split', level') := if s + 1 = 2 ^ fi.level then (0, fi.level + 1) else (s + 1, fi.level)
  -- main.extend: the new bucket exists (zeroed) before the slots are redistributed
  let fi1 : FIndex := { fi with main := fi.main ++ [FBucket.empty], level := level', split := split' }
  let newIdx := fi.main.length
  let slots := old.flatMap (·.2.slots)
  let step := fun (acc : FIndex × SW × SW) (sl : Slot) =>
    let (f, upd, nw) := acc
    if bucketIdx level' split' sl.hash = s then
      let (f', upd') := swInsert f upd sl
      (f', upd', nw)
    else
      let (f', nw') := swInsert f nw sl
      (f', upd, nw')
  let (fi2, upd, nw) := slots.foldl step (fi1, ⟨.main s, FBucket.empty, []⟩, ⟨.main newIdx, FBucket.empty, []⟩)
  let fi3 : FIndex := { fi2 with free := fi2.free ++ oldOvf }
  swWrite (swWrite fi3 nw) upd

/-- `index.put`. -/
def put (policy : Nat → Nat → Bool) (fi : FIndex) (ns : Slot) (m : Slot → Bool) : FIndex :=
  let c := fi.chainRefs (bucketIdx fi.level fi.split ns.hash)
  match findMatch ns.hash m c with
  | some (r, b, i) => fi.write r { b with slots := b.slots.set i ns }
  | none =>
    let fi1 :=
      match firstFree c with
      | some (r, b) => fi.write r { b with slots := b.slots ++ [ns] }
      | none =>
        match c.getLast? with
        | some (r, b) =>
          let (f, w) := swInsert fi ⟨r, b, []⟩ ns
          swWrite f w
        | none => fi
    let fi2 := { fi1 with numKeys := fi1.numKeys + 1 }
    if policy fi2.numKeys fi2.numBuckets then fi2.doSplit else fi2

/-- `index.delete`. -/
def delete (fi : FIndex) (h : Nat) (m : Slot → Bool) : FIndex :=
  let c := fi.chainRefs (bucketIdx fi.level fi.split h)
  match findMatch h m c with
  | some (r, b, i) => { (fi.write r { b with slots := b.slots.eraseIdx i }) with numKeys := fi.numKeys - 1 }
  | none => fi

/-- Overflow pointers reachable from the main buckets, chain by chain. -/
def linked (fi : FIndex) : List Nat :=
  (List.range fi.main.length).flatMap fun i =>
    (fi.chainRefs i).filterMap fun (p : Ref × FBucket) => if p.2.next = 0 then none else some p.2.next

/-- Allocator invariant: pointers in range, no overflow bucket linked twice (so chains are acyclic and
disjoint), free list duplicate-free, in range and disjoint from the linked buckets, buckets ≤ 31 slots. -/
def AllocInv (fi : FIndex) : Prop :=
  (∀ n ∈ fi.linked, 1 ≤ n ∧ n ≤ fi.ovf.length) ∧ fi.linked.Nodup ∧
  (∀ n ∈ fi.free, 1 ≤ n ∧ n ≤ fi.ovf.length) ∧ fi.free.Nodup ∧ (∀ n ∈ fi.free, n ∉ fi.linked) ∧
  (∀ b ∈ fi.main, b.slots.length ≤ slotsPerBucket) ∧
  (∀ n ∈ fi.linked, (fi.ovf.getD (n - 1) FBucket.empty).slots.length ≤ slotsPerBucket) ∧
  fi.main ≠ []

end FIndex
end Pogreb
