/-
  The segment files of a database directory as recovery sees them, and the file-system effects
  that Put/Delete/Compact/recovery have on them. Process-crash images are prefixes of effect
  lists with the in-flight append cut anywhere (a superset of the 512-aligned cuts of the model).
-/
import Pogreb.RecordThms
import Pogreb.Log
namespace Pogreb

abbrev E := Ent Bytes Bytes

def Rec.toEnt (r : Rec) : E := ⟨r.key, if r.del then none else some r.val⟩

/-- A segment file: sequence id and the bytes after the 512-byte header. -/
structure SegFile where
  seq   : Nat
  bytes : Bytes
  deriving Repr

/-- Segment files in sequence-id order (the order recovery replays them in). -/
abbrev SegFS := List SegFile

/-- What recovery reads from one segment: the valid record prefix. -/
def SegFile.ents (f : SegFile) : List E := (scan f.bytes).1.map Rec.toEnt

/-- The log recovery replays. -/
def recoverLog (fs : SegFS) : List E := fs.flatMap SegFile.ents

/-- The contents a recovering Open ends up with. -/
def recovered (fs : SegFS) : KV Bytes Bytes := contents (recoverLog fs)

/-- A file that consists of whole valid records only (true of every file after a recovery
truncated it, and kept true by appends of whole records). -/
def SegFile.Clean (f : SegFile) : Prop := ∃ rs : List Rec, (∀ r ∈ rs, r.Fits) ∧ f.bytes = encodeAll rs

/-- What recovery does to one file: truncate to the valid prefix. -/
def SegFile.truncated (f : SegFile) : SegFile := { f with bytes := f.bytes.take (scan f.bytes).2 }

/-- The write operation a record stands for. -/
def Rec.op (r : Rec) : WOp Bytes Bytes := if r.del then .del r.key else .put r.key r.val

end Pogreb
