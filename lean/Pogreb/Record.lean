/-
  WAL record codec: `encodeRecord` (segment.go) and the validating reader of the documented
  format (`segmentIterator.next`, with the size guard against the file length).
-/
import Pogreb.Crc32
namespace Pogreb

structure Rec where
  del : Bool
  key : Bytes
  val : Bytes
  deriving DecidableEq, Repr, Inhabited

/-- Header + key + value (the part the checksum covers). -/
def Rec.body (r : Rec) : Bytes :=
  le16 r.key.length ++ le32 (r.val.length + (if r.del then 2 ^ 31 else 0)) ++ r.key ++ r.val

/-- `encodeRecord`: 2-byte key size, 4-byte value size with the delete flag in bit 31,
key, value, CRC-32 of everything before it. -/
def Rec.encode (r : Rec) : Bytes := r.body ++ le32 (crc32 r.body)

/-- Sizes for which the size fields do not truncate (`MaxKeyLength`, and any value below 2^31;
`MaxValueLength` = 2^29 is below that). -/
def Rec.Fits (r : Rec) : Prop := r.key.length < 2 ^ 16 ∧ r.val.length < 2 ^ 31

instance (r : Rec) : Decidable r.Fits := by unfold Rec.Fits; infer_instance

@[simp] theorem Rec.body_length (r : Rec) : r.body.length = 6 + r.key.length + r.val.length := by
  simp [Rec.body]; omega

@[simp] theorem Rec.encode_length (r : Rec) : r.encode.length = 10 + r.key.length + r.val.length := by
  simp [Rec.encode]; omega

inductive Dec where
  | done                     -- clean end of data (io.EOF at a record boundary)
  | short                    -- header or body incomplete (io.ErrUnexpectedEOF / io.EOF inside)
  | corrupt                  -- checksum mismatch (errCorrupted)
  | ok (r : Rec) (size : Nat)
  deriving DecidableEq, Repr

/-- Size the reader computes from the 6 header bytes; this is also what it allocates. -/
def claimedSize (bs : Bytes) : Nat :=
  10 + rdLE (bs.take 2) + rdLE ((bs.drop 2).take 4) % 2 ^ 31

/-- The reader at the current position, `bs` being the rest of the file. -/
def decode (bs : Bytes) : Dec :=
  if bs.length = 0 then .done
  else if bs.length < 6 then .short
  else
    let ksz := rdLE (bs.take 2)
    let vraw := rdLE ((bs.drop 2).take 4)
    let vsz := vraw % 2 ^ 31
    let size := 10 + ksz + vsz
    if bs.length < size then .short
    else
      let body := bs.take (size - 4)
      let sum := rdLE ((bs.drop (size - 4)).take 4)
      if sum ≠ crc32 body then .corrupt
      else .ok ⟨decide (2 ^ 31 ≤ vraw), (bs.drop 6).take ksz, (bs.drop (6 + ksz)).take vsz⟩ size

/-- Memory the reader requests at this position (0 when it stops before allocating). -/
def decodeAlloc (bs : Bytes) : Nat :=
  if bs.length < 6 then 0
  else if bs.length < claimedSize bs then 0 else claimedSize bs

theorem decodeAlloc_le (bs : Bytes) : decodeAlloc bs ≤ bs.length := by
  unfold decodeAlloc; split
  · omega
  · split <;> omega

/-- Records accepted from the start of `bs`, and the number of bytes they occupy. -/
def scan (bs : Bytes) : List Rec × Nat :=
  match h : decode bs with
  | .ok r size =>
    if hs : size = 0 then ([], 0) else
    let (rs, n) := scan (bs.drop size)
    (r :: rs, size + n)
  | _ => ([], 0)
termination_by bs.length
decreasing_by
  have : size ≤ bs.length := by
    unfold decode at h
    split at h <;> try contradiction
    split at h <;> try contradiction
    simp only at h
    split at h <;> try contradiction
    split at h <;> try contradiction
    injection h with _ h2
    omega
  simp; omega

/-! ### Round trip -/

theorem take_append_len {α} (a b : List α) (n : Nat) (h : n = a.length) : (a ++ b).take n = a := by
  subst h; simp

theorem drop_append_len {α} (a b : List α) (n : Nat) (h : n = a.length) : (a ++ b).drop n = b := by
  subst h; simp

theorem decode_encode (r : Rec) (rest : Bytes) (hf : r.Fits) :
    decode (r.encode ++ rest) = .ok r r.encode.length := by
  obtain ⟨hk, hv⟩ := hf
  have hlen : (r.encode ++ rest).length = 10 + r.key.length + r.val.length + rest.length := by
    simp
  have e1 : (r.encode ++ rest).take 2 = le16 r.key.length := by
    simp [Rec.encode, Rec.body, List.append_assoc]
  have e2 : ((r.encode ++ rest).drop 2).take 4
      = le32 (r.val.length + (if r.del then 2 ^ 31 else 0)) := by
    simp only [Rec.encode, Rec.body, List.append_assoc]
    rw [drop_append_len _ _ 2 (by simp)]
    rw [take_append_len _ _ 4 (by simp)]
  have k1 : rdLE (le16 r.key.length) = r.key.length := rdLE_leN_of_lt (by simpa using hk)
  have v1 : rdLE (le32 (r.val.length + (if r.del then 2 ^ 31 else 0)))
      = r.val.length + (if r.del then 2 ^ 31 else 0) := by
    apply rdLE_leN_of_lt; split <;> omega
  have v2 : (r.val.length + (if r.del then 2 ^ 31 else 0)) % 2 ^ 31 = r.val.length := by
    split <;> omega
  have v3 : decide (2 ^ 31 ≤ r.val.length + (if r.del then 2 ^ 31 else 0)) = r.del := by
    cases hd : r.del <;> simp <;> omega
  unfold decode
  rw [if_neg (by omega), if_neg (by omega)]
  simp only [e1, e2, k1, v1, v2, v3]
  rw [if_neg (by omega)]
  have hb : (r.encode ++ rest).take (10 + r.key.length + r.val.length - 4) = r.body := by
    simp only [Rec.encode, List.append_assoc]
    rw [take_append_len]; simp; omega
  have hs : ((r.encode ++ rest).drop (10 + r.key.length + r.val.length - 4)).take 4
      = le32 (crc32 r.body) := by
    simp only [Rec.encode, List.append_assoc]
    rw [drop_append_len _ _ _ (by simp; omega), take_append_len _ _ 4 (by simp)]
  have hc : rdLE (le32 (crc32 r.body)) = crc32 r.body := rdLE_leN_of_lt (crc32_lt _)
  rw [hb, hs, hc, if_neg (by simp)]
  have hk' : ((r.encode ++ rest).drop 6).take r.key.length = r.key := by
    simp only [Rec.encode, Rec.body, List.append_assoc]
    rw [← List.append_assoc (le16 _) (le32 _), drop_append_len _ _ 6 (by simp)]
    rw [take_append_len _ _ _ rfl]
  have hv' : ((r.encode ++ rest).drop (6 + r.key.length)).take r.val.length = r.val := by
    simp only [Rec.encode, Rec.body, List.append_assoc]
    rw [← List.append_assoc (le16 _) (le32 _), ← List.append_assoc _ r.key,
      drop_append_len _ _ _ (by simp; omega), take_append_len _ _ _ rfl]
  rw [hk', hv']
  simp

end Pogreb
