/-
  MurmurHash3_x86_32 with seed (internal/hash/murmurhash32.go), executable only: the theorems
  quantify over an arbitrary hash function and never look inside this one.
-/
import Pogreb.Bytes
namespace Pogreb

def rotl32 (x : UInt32) (r : UInt32) : UInt32 := (x <<< r) ||| (x >>> (32 - r))

def murmurK (k : UInt32) : UInt32 := (rotl32 (k * 0xcc9e2d51) 15) * 0x1b873593

partial def murmurBody (data : Bytes) (h : UInt32) : UInt32 × Bytes :=
  match data with
  | a :: b :: c :: d :: rest =>
    let k : UInt32 := a.toUInt32 ||| (b.toUInt32 <<< 8) ||| (c.toUInt32 <<< 16) ||| (d.toUInt32 <<< 24)
    let h := h ^^^ murmurK k
    let h := rotl32 h 13
    murmurBody rest (h * 5 + 0xe6546b64)
  | tail => (h, tail)

def murmur32 (data : Bytes) (seed : UInt32) : UInt32 :=
  let (h, tail) := murmurBody data seed
  let k : UInt32 := match tail with
    | [a] => a.toUInt32
    | [a, b] => a.toUInt32 ^^^ (b.toUInt32 <<< 8)
    | [a, b, c] => a.toUInt32 ^^^ (b.toUInt32 <<< 8) ^^^ (c.toUInt32 <<< 16)
    | _ => 0
  let h := if tail.isEmpty then h else h ^^^ murmurK k
  let h := h ^^^ (UInt32.ofNat data.length)
  let h := h ^^^ (h >>> 16)
  let h := h * 0x85ebca6b
  let h := h ^^^ (h >>> 13)
  let h := h * 0xc2b2ae35
  h ^^^ (h >>> 16)

end Pogreb
