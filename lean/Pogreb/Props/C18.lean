/-
  C18 — the on-disk format stays the documented format version 2.
  (a) The layout tables regenerated from the source on every run equal the documented layout
      (a consistent edit of encoder AND decoder still changes a table and fails here).
  (b) Codec theorems of the model's reader/writer, which the correspondence check runs on the real
      bytes of every segment file and index bucket.
-/
import Pogreb.Generated.Consts
import Pogreb.Generated.Layout
import Pogreb.BucketCodec
import Pogreb.Lemmas.Bucket
import Pogreb.RecordThms
import Pogreb.Model
namespace Pogreb

theorem C18_constants_are_v2 :
    Generated.bucketSize = some 512 ∧ Generated.slotsPerBucket = some 31 ∧ Generated.headerSize = some 512 ∧
    Generated.formatVersion = some 2 ∧ Generated.signature = some [112, 111, 103, 114, 101, 98, 14, 253] ∧
    Generated.segmentNameFormat = some "%05d-%d%s" ∧ Generated.segmentExt = some ".psg" ∧
    Generated.metaExt = some ".pmt" ∧ Generated.indexMainName = some "main.pix" ∧
    Generated.indexOverflowName = some "overflow.pix" ∧ Generated.indexMetaName = some "index.pmt" ∧
    Generated.dbMetaName = some "db.pmt" ∧ Generated.lockName = some "lock" ∧
    Generated.maxSegments = some 32767 ∧ Generated.loadFactor = some (7, 10) ∧
    Generated.murmurC1 = some 0xcc9e2d51 ∧ Generated.murmurC2 = some 0x1b873593 := by
  decide

/-- The constants the Lean model uses are the ones in the source. -/
theorem C18_model_constants_agree :
    Generated.slotsPerBucket = some slotsPerBucket ∧ Generated.headerSize = some headerSize ∧
    Generated.maxKeyLength = some maxKeyLength ∧ Generated.maxValueLength = some maxValueLength := by
  decide

theorem C18_slot_and_bucket_layout :
    Generated.bucketMarshal =
      [("put", 32, "-", "4", ".hash"), ("put", 16, "4", "6", ".segmentID"), ("put", 16, "6", "8", ".keySize"),
       ("put", 32, "8", "12", ".valueSize"), ("put", 32, "12", "16", ".offset"), ("put", 64, "-", "8", ".next")] ∧
    Generated.bucketUnmarshal =
      [("get", 32, "-", "4", ""), ("get", 16, "4", "6", ""), ("get", 16, "6", "8", ""),
       ("get", 32, "8", "12", ""), ("get", 32, "12", "16", ""), ("get", 64, "-", "8", "")] ∧
    Generated.bucketMarshalStride = some 16 ∧ Generated.bucketUnmarshalStride = some 16 := by
  decide

theorem C18_header_layout :
    Generated.headerMarshal = [("copy", 0, "-", "8", ".signature[:]"), ("put", 32, "8", "12", ".formatVersion")] ∧
    Generated.headerUnmarshal = [("copy", 0, "-", "-", "data[:8]"), ("get", 32, "8", "12", "")] := by
  decide

/-- (The size of an encoded record — `encodedRecordSize` — is no longer compared as source text here: it is
translated and proved equal to the model's record length for every argument, `G01_encodedRecordSize`.) -/
theorem C18_record_layout :
    Generated.recordEncode =
      [("put", 16, "-", "2", "len(key)"), ("put", 32, "2", "-", "valLen"), ("copy", 0, "6", "-", "key"),
       ("copy", 0, "6 + len(key)", "-", "value"), ("crc", 32, "-", "6 + len(key) + len(value)", ""),
       ("put", 32, "size - 4", "size", "checksum")] ∧
    Generated.recordDecode =
      [("get", 16, "-", "2", ""), ("get", 32, "2", "-", ""), ("copy", 0, "-", "-", "kvSizeBuf"),
       ("get", 32, "len(data) - 4", "-", ""), ("crc", 32, "-", "len(data) - 4", "")] ∧
    Generated.deleteBitExprs = ["valLen |= 2147483648", "valueSize & 2147483648", "valueSize &^= 2147483648"] := by
  decide

/-- 31 slots of 16 bytes and the 8-byte next pointer fit a 512-byte bucket. -/
theorem C18_bucket_fits : 31 * 16 + 8 ≤ 512 := by decide

-- THEOREMS TO PROVE (statements fixed) ------------------------------------------------------

/-- Every segment the writer produces is accepted record for record by the independent reader of
the documented format. -/
theorem C18_writer_accepted_by_reader (rs : List Rec) (hf : ∀ r ∈ rs, r.Fits) :
    scan (encodeAll rs) = (rs, (encodeAll rs).length) := by
  have hnil : scan ([] : Bytes) = ([], 0) := scan_stop (decode_zeros 0)
  have := scan_encodeAll rs [] hf
  simpa [hnil] using this

/-- The bucket codec round-trips (used slots, next pointer), for every bucket of at most 31 in-range slots. -/
theorem C18_bucket_roundtrip (slots : List Slot) (next : Nat) (hl : slots.length ≤ 31)
    (hr : ∀ s ∈ slots, s.InRange) (hn : next < 2 ^ 64) :
    (encodeBucket slots next).length = 512 ∧ parseBucket (encodeBucket slots next) = (slots, next, true) := by
  refine ⟨?_, parseBucket_encodeBucket slots next hl hr hn⟩
  simp only [encodeBucket, List.length_append, flatMap_encode_length, zeros_length, le64_length]
  omega

end Pogreb
