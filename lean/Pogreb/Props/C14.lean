/-
  C14 — returned byte slices belong to the caller (the provenance part).
  A pure model cannot exhibit aliasing, so what is decided here are provenance facts regenerated
  from the source on every run: every slice handed to a caller is produced by a copy, and records
  are built in a fresh buffer. The deciding evidence for C14 is the dynamic re-observation of
  retained slices in the `alias` stream. Claimed at level `other`.
-/
import Pogreb.Generated.Flow
namespace Pogreb

theorem C14_returned_slices_are_copies :
    Generated.flowGet = ["copy"] ∧ Generated.flowGetAppend = ["copy"] ∧
    Generated.flowFetchItems = ["key=copy", "value=copy"] ∧
    Generated.flowNextReturns = ["nil,nil", "item.key,item.value", "nil,nil"] := by
  decide

/-- Records are built in a fresh buffer: the database keeps no reference to the caller's slices. -/
theorem C14_inputs_not_retained :
    Generated.flowEncodeRecord = ["data:=make([]byte, size)", "return data"] := by
  decide

end Pogreb
