/-
  G01 (records): `encodedRecordSize`, `slot.kvSize` and the delete-bit test compute what the model computes.
  (generated definitions: `Generated/Funcs.lean`, regenerated from /repo by factgen on every run;
  Go fixed-width arithmetic as `BitVec` arithmetic).
-/
import Pogreb.Generated.Funcs
import Pogreb.Record
import Pogreb.Lemmas.BitVecNat
namespace Pogreb
open Generated
set_option linter.unusedSimpArgs false

/-- Every function/guard of this file was translated (none had an unsupported shape). -/
theorem G01_rec_translated :
    (Funcs.encodedRecordSize_translated && Funcs.kvSize_translated && Funcs.deleteBitGuard_translated) = true := by decide

/-- `encodedRecordSize` does not wrap for sizes a record can have, and is the model's record length. -/
theorem G01_encodedRecordSize (kv : BitVec 32) (h : kv.toNat + 10 < 2 ^ 32) :
    (Funcs.encodedRecordSize kv).toNat = kv.toNat + 10 := by
  unfold Funcs.encodedRecordSize
  bv_omega

theorem G01_encodedRecordSize_model (r : Rec) (hf : r.Fits) :
    (Funcs.encodedRecordSize (BitVec.ofNat 32 (r.key.length + r.val.length))).toNat = r.encode.length := by
  obtain ⟨hk, hv⟩ := hf
  rw [G01_encodedRecordSize]
  · simp only [BitVec.toNat_ofNat, Rec.encode_length]; omega
  · simp only [BitVec.toNat_ofNat]; omega

/-- `slot.kvSize` does not wrap for sizes within the limits. -/
theorem G01_kvSize (ks : BitVec 16) (vs : BitVec 32) (h : vs.toNat < 2 ^ 31) :
    (Funcs.kvSize (f_keySize := ks) (f_valueSize := vs)).toNat = ks.toNat + vs.toNat := by
  unfold Funcs.kvSize
  bv_omega

/-- Bit 31 of the value-size word is the delete flag. -/
theorem G01_deleteBitGuard (vs : BitVec 32) : Funcs.deleteBitGuard (v_valueSize := vs) = decide (2 ^ 31 ≤ vs.toNat) := by
  unfold Funcs.deleteBitGuard
  have h1 := and_bit31_toNat vs
  have h2 : (2147483648#32 &&& vs) = (vs &&& 2147483648#32) := BitVec.and_comm _ _
  simp only [h2, ne_eq, ← BitVec.toNat_inj, BitVec.toNat_ofNat, h1]
  by_cases h : 2 ^ 31 ≤ vs.toNat <;> simp [h]

/-- The value-size word the model writes (`Rec.body`) carries the record's delete flag in the bit the
code tests. -/
theorem G01_deleteBit_model (r : Rec) (hf : r.Fits) :
    Funcs.deleteBitGuard (v_valueSize := BitVec.ofNat 32 (r.val.length + (if r.del then 2 ^ 31 else 0))) = r.del := by
  obtain ⟨_, hv⟩ := hf
  rw [G01_deleteBitGuard, BitVec.toNat_ofNat]
  cases hd : r.del
  · simp only [Bool.false_eq_true, if_false, Nat.add_zero, decide_eq_false_iff_not]; omega
  · simp only [if_true, decide_eq_true_eq]; omega

end Pogreb
