/-
  M07 — consequences for the executable model:
  (1) linearizability of any concurrent history whose critical sections are the model's steps
      (instance of the general theorem of C07, generalised to refinements that hold under an invariant);
  (2) a copy of the segment files taken at any reachable instant (what Backup produces, C12) recovers
      to exactly the contents at that instant.
-/
import Pogreb.Props.M06
import Pogreb.Props.C07
namespace Pogreb
open MState

section LinInv
variable {σ A Op Out : Type}

/-- Like `HState.run`, but also records whether every executed section satisfied the precondition
`ok` in the state it ran in. -/
def HState.runPre [DecidableEq Out] (impl : σ → Op → σ × Out) (ok : σ → Op → Prop) [∀ s o, Decidable (ok s o)]
    (h : HState σ Op Out) (pre : Bool) : List (HEv σ Op Out) → HState σ Op Out × Bool
  | [] => (h, pre)
  | e :: es =>
    let pre' := match e with
      | .sec t => match h.pend t with
        | .invoked op => pre && decide (ok h.st op)
        | _ => pre
      | _ => pre
    HState.runPre impl ok (h.step impl e) pre' es

/-- Relational form of `specAgrees`: the specification is a transition function `next` and an output
RELATION `outOK`; every recorded output is allowed by `outOK` in the abstract state at its
linearization point. -/
def specAgreesRel (outOK : A → Op → Out → Prop) (next : A → Op → A) : A → List (Nat × Op × Out) → Prop
  | _, [] => True
  | a, (_, op, out) :: rest => outOK a op out ∧ specAgreesRel outOK next (next a op) rest

def specFinalRel (next : A → Op → A) : A → List (Nat × Op × Out) → A
  | a, [] => a
  | a, (_, op, _) :: rest => specFinalRel next (next a op) rest

-- helper ----------------------------------------------------------------------------------

theorem specAgreesRel_append (outOK : A → Op → Out → Prop) (next : A → Op → A) (a : A)
    (l : List (Nat × Op × Out)) (x : Nat × Op × Out) :
    specAgreesRel outOK next a (l ++ [x]) ↔
      (specAgreesRel outOK next a l ∧ outOK (specFinalRel next a l) x.2.1 x.2.2) := by
  induction l generalizing a with
  | nil => obtain ⟨t, op, out⟩ := x; simp [specAgreesRel, specFinalRel]
  | cons y l ih =>
    obtain ⟨t, op, out⟩ := y
    simp [specAgreesRel, specFinalRel, ih, and_assoc]

theorem specFinalRel_append (next : A → Op → A) (a : A)
    (l : List (Nat × Op × Out)) (x : Nat × Op × Out) :
    specFinalRel next a (l ++ [x]) = next (specFinalRel next a l) x.2.1 := by
  induction l generalizing a with
  | nil => obtain ⟨t, op, out⟩ := x; simp [specFinalRel]
  | cons y l ih =>
    obtain ⟨t, op, out⟩ := y
    simp [specFinalRel, ih]

/-- The functional specification is the relational one with `outOK a op out := (spec a op).2 = out`. -/
theorem specAgreesRel_fun [DecidableEq Out] (spec : A → Op → A × Out) (a : A) (l : List (Nat × Op × Out)) :
    specAgreesRel (fun a op out => (spec a op).2 = out) (fun a op => (spec a op).1) a l ↔
      specAgrees spec a l := by
  induction l generalizing a with
  | nil => simp [specAgreesRel, specAgrees]
  | cons y l ih => obtain ⟨t, op, out⟩ := y; simp [specAgreesRel, specAgrees, ih]

theorem specFinalRel_fun (spec : A → Op → A × Out) (a : A) (l : List (Nat × Op × Out)) :
    specFinalRel (fun a op => (spec a op).1) a l = specFinal spec a l := by
  induction l generalizing a with
  | nil => rfl
  | cons y l ih => obtain ⟨t, op, out⟩ := y; simp [specFinalRel, specFinal, ih]

theorem M07_runPre_inv [DecidableEq Out]
    (impl : σ → Op → σ × Out) (outOK : A → Op → Out → Prop) (next : A → Op → A) (abs : σ → A)
    (Inv : σ → Prop) (ok : σ → Op → Prop) [∀ s o, Decidable (ok s o)]
    (href : ∀ s op, Inv s → ok s op →
       outOK (abs s) op (impl s op).2 ∧ abs (impl s op).1 = next (abs s) op ∧ Inv (impl s op).1)
    (a0 : A) (evs : List (HEv σ Op Out))
    (hint : ∀ e ∈ evs, ∀ f, e = HEv.internal f → ∀ s, Inv s → abs (f s) = abs s ∧ Inv (f s))
    (h : HState σ Op Out) (pre : Bool)
    (hinv : pre = true → specAgreesRel outOK next a0 h.lin ∧ abs h.st = specFinalRel next a0 h.lin ∧ Inv h.st) :
    (HState.runPre impl ok h pre evs).2 = true →
      specAgreesRel outOK next a0 (HState.runPre impl ok h pre evs).1.lin ∧
      abs (HState.runPre impl ok h pre evs).1.st = specFinalRel next a0 (HState.runPre impl ok h pre evs).1.lin ∧
      Inv (HState.runPre impl ok h pre evs).1.st := by
  induction evs generalizing h pre with
  | nil => exact hinv
  | cons e evs ih =>
    simp only [HState.runPre]
    apply ih (fun e' he' => hint e' (List.mem_cons_of_mem _ he'))
    have hi := hint e List.mem_cons_self
    cases e with
    | inv t op => simp only [HState.step]; split <;> exact hinv
    | res t out => simp only [HState.step]; split <;> exact hinv
    | internal f =>
      simp only [HState.step]
      intro hp
      obtain ⟨h1, h2, h3⟩ := hinv hp
      obtain ⟨h4, h5⟩ := hi f rfl h.st h3
      exact ⟨h1, h4.trans h2, h5⟩
    | sec t =>
      simp only [HState.step]
      cases hpt : h.pend t with
      | invoked op =>
        dsimp only
        intro hp
        simp only [Bool.and_eq_true, decide_eq_true_eq] at hp
        obtain ⟨h1, h2, h3⟩ := hinv hp.1
        obtain ⟨r1, r2, r3⟩ := href h.st op h3 hp.2
        simp only [specAgreesRel_append, specFinalRel_append]
        rw [← h2]
        exact ⟨⟨h1, r1⟩, r2, r3⟩
      | idle => exact hinv
      | done op out => exact hinv

-- THEOREMS ----------------------------------------------------------------------------------

/-- **Linearizability of atomic sections, relational specification, under an invariant.** The
specification is a transition function `next` with an output relation `outOK`. If every section run
in a state satisfying `Inv` and its precondition `ok` produces an allowed output, follows `next`
through `abs` and keeps `Inv`, and internal steps keep `abs` and `Inv`, then in every history all of
whose sections met their precondition (`r.2 = true`) the order of the sections explains every
recorded output, the final abstract state is the specification's, and `Inv` holds at the end. -/
theorem C07_sections_linearizable_rel [DecidableEq Out]
    (impl : σ → Op → σ × Out) (outOK : A → Op → Out → Prop) (next : A → Op → A) (abs : σ → A)
    (Inv : σ → Prop) (ok : σ → Op → Prop) [∀ s o, Decidable (ok s o)]
    (href : ∀ s op, Inv s → ok s op →
       outOK (abs s) op (impl s op).2 ∧ abs (impl s op).1 = next (abs s) op ∧ Inv (impl s op).1)
    (evs : List (HEv σ Op Out))
    (hint : ∀ e ∈ evs, ∀ f, e = HEv.internal f → ∀ s, Inv s → abs (f s) = abs s ∧ Inv (f s))
    (s0 : σ) (h0 : Inv s0) :
    let r := HState.runPre impl ok ⟨s0, fun _ => .idle, [], true⟩ true evs
    r.2 = true → specAgreesRel outOK next (abs s0) r.1.lin ∧
      abs r.1.st = specFinalRel next (abs s0) r.1.lin ∧ Inv r.1.st := by
  intro r
  exact M07_runPre_inv impl outOK next abs Inv ok href (abs s0) evs hint _ true
    (fun _ => ⟨trivial, rfl, h0⟩)

/-- The functional-output form (statement as given). -/
theorem C07_sections_linearizable_inv [DecidableEq Out]
    (impl : σ → Op → σ × Out) (spec : A → Op → A × Out) (abs : σ → A) (Inv : σ → Prop)
    (ok : σ → Op → Prop) [∀ s o, Decidable (ok s o)]
    (href : ∀ s op, Inv s → ok s op →
       (impl s op).2 = (spec (abs s) op).2 ∧ abs (impl s op).1 = (spec (abs s) op).1 ∧ Inv (impl s op).1)
    (evs : List (HEv σ Op Out))
    (hint : ∀ e ∈ evs, ∀ f, e = HEv.internal f → ∀ s, Inv s → abs (f s) = abs s ∧ Inv (f s))
    (s0 : σ) (h0 : Inv s0) :
    let r := HState.runPre impl ok ⟨s0, fun _ => .idle, [], true⟩ true evs
    r.2 = true → specAgrees spec (abs s0) r.1.lin ∧ abs r.1.st = specFinal spec (abs s0) r.1.lin ∧ Inv r.1.st := by
  intro r hr
  have := C07_sections_linearizable_rel impl (fun a op out => (spec a op).2 = out)
    (fun a op => (spec a op).1) abs Inv ok
    (fun s op hi ho => ⟨((href s op hi ho).1).symm, (href s op hi ho).2⟩) evs hint s0 h0 hr
  rw [specAgreesRel_fun, specFinalRel_fun] at this
  exact this
end LinInv

-- helper ------------------------------------------------------------------------------------

instance XState.OpOK.decidable (x : XState) (op : XOp) : Decidable (x.OpOK op) := by
  cases op with
  | user o =>
    cases o <;> (simp only [XState.OpOK, MOpOK]; infer_instance)
  | cbegin id => simp only [XState.OpOK, MState.CompactOK]; infer_instance
  | crecord => exact instDecidableTrue
  | cend => exact instDecidableTrue

-- THEOREMS about the model -----------------------------------------------------------------

/-- **The executable model is linearizable**, for ALL operations (Put/Delete/Get/Has/Count and the
compaction steps `cbegin`/`crecord`/`cend` as sections of their own), with outputs compared through
the relation `XSpecOut` (Count is explained by any duplicate-free listing of the contents). For every
history over `XState.step` from a state satisfying `XInv`, all of whose sections were admissible
(`XState.OpOK`, checked by `runPre`): the order of the sections explains every recorded output by
the specification `xSpecStep`/`XSpecOut`, the final contents are the specification's, and `XInv`
(hence `LogCoupled`: crash-recoverability) holds at the end. Internal events are allowed as long as
they keep the contents and `XInv` (none are needed: compaction steps are operations here). -/
theorem M07_model_linearizable (evs : List (HEv XState XOp MOut))
    (hint : ∀ e ∈ evs, ∀ f, e = HEv.internal f → ∀ x : XState, x.XInv → (f x).st.abs = x.st.abs ∧ (f x).XInv)
    (x0 : XState) (h0 : x0.XInv) :
    let r := HState.runPre (fun x op => x.step op) XState.OpOK ⟨x0, fun _ => .idle, [], true⟩ true evs
    r.2 = true → specAgreesRel XSpecOut xSpecStep x0.st.abs r.1.lin ∧
      r.1.st.st.abs = specFinalRel xSpecStep x0.st.abs r.1.lin ∧ r.1.st.XInv :=
  C07_sections_linearizable_rel (fun x op => x.step op) XSpecOut xSpecStep (fun x => x.st.abs)
    XState.XInv XState.OpOK (fun x op hi ho => let h := M06_step x hi op ho; ⟨h.1, h.2.2, h.2.1⟩) evs hint x0 h0

/-- **A backup is a snapshot.** A directory holding copies of the segment files as of one reachable
instant (any state satisfying `XInv`, also in the middle of a compaction) recovers, when opened, to
exactly the contents at that instant. -/
theorem M07_backup_is_snapshot (x : XState) (h : x.XInv) (y : MState)
    (hids : (y.segs.map (·.id)).Nodup) (hfiles : y.files = x.st.files) (seed : UInt32) :
    (y.reopenRecover seed).abs = x.st.abs := by
  rw [(M02_recover_refines y hids seed).2, hfiles]
  exact h.logCoupled

end Pogreb
