/-
  C17 — behaviour does not depend on the FileSystem implementation (the bookkeeping part).
  C14 — returned byte slices belong to the caller (the provenance part).

  C17: the memory-mapped file keeps `size`, `mmapSize` and remaps by doubling ONCE per call; Slice
  hands out `data[start:end]` whenever `end ≤ size`. That is only safe if the mapping always covers
  `size`, which needs every single growth step to be at most the initial mapping size.
  C14: provenance facts regenerated from the source: every slice handed to a caller is produced by a
  copy. (A pure model cannot exhibit aliasing; the deciding evidence for C14 is the dynamic
  re-observation in the `alias` stream. Claimed at level `other`.)
-/
import Pogreb.Generated.Consts
import Pogreb.Model
namespace Pogreb

structure MMapFile where
  size     : Nat
  mmapSize : Nat
  deriving Repr, DecidableEq

def initialMmap : Nat := 2 ^ 30

/-- `osMMapFile.mremap`. -/
def MMapFile.mremap (f : MMapFile) : MMapFile :=
  if f.mmapSize ≥ f.size then f
  else if f.mmapSize = 0 then { f with mmapSize := max initialMmap f.size }
  else { f with mmapSize := 2 * f.mmapSize }

/-- `WriteAt(p, off)` with `len p = n`. -/
def MMapFile.writeAt (f : MMapFile) (off n : Nat) : MMapFile := ({ f with size := max f.size (off + n) } : MMapFile).mremap
/-- `Truncate(n)`. -/
def MMapFile.truncate (f : MMapFile) (n : Nat) : MMapFile := ({ f with size := n } : MMapFile).mremap
/-- `OpenFile` of a file of length `n`. -/
def MMapFile.open_ (n : Nat) : MMapFile := (⟨n, 0⟩ : MMapFile).mremap

/-- The mapping covers the logical size (so `data[start:end]` with `end ≤ size` cannot fault), and
once mapped it is at least the initial size. -/
def MMapFile.Covered (f : MMapFile) : Prop := f.size ≤ f.mmapSize ∧ (f.mmapSize = 0 ∨ initialMmap ≤ f.mmapSize)

/-- Largest record the database writes in one call. -/
def maxRecordSize : Nat := 10 + maxKeyLength + maxValueLength

theorem C17_initial_mmap_as_modelled : Generated.initialMmapSize = some initialMmap := by decide

/-- One record never outgrows one doubling of the smallest mapping. -/
theorem C17_record_fits_growth : maxRecordSize ≤ initialMmap := by decide



/-- The size guards of Put run before any lock or I/O (also used by C16). -/

-- THEOREMS TO PROVE (statements fixed) ------------------------------------------------------

theorem C17_open_covered (n : Nat) : (MMapFile.open_ n).Covered := by
  unfold MMapFile.open_ MMapFile.mremap MMapFile.Covered initialMmap
  dsimp only
  split
  · constructor <;> (try dsimp only at *) <;> omega
  · simp only [if_true]
    constructor
    · exact Nat.le_max_right _ _
    · right; exact Nat.le_max_left _ _

/-- Appending or overwriting at most `initialMmap` bytes beyond the current size keeps the mapping
covering the file (the database writes at offsets ≤ size, at most one record or one bucket). -/
theorem C17_write_covered (f : MMapFile) (h : f.Covered) (off n : Nat) (hg : off + n ≤ f.size + initialMmap) :
    (f.writeAt off n).Covered := by
  unfold MMapFile.Covered initialMmap at *
  unfold MMapFile.writeAt MMapFile.mremap
  dsimp only
  split
  · constructor <;> (try dsimp only at *) <;> omega
  · split
    · dsimp only
      constructor
      · exact Nat.le_max_right _ _
      · right; exact Nat.le_max_left _ _
    · dsimp only
      constructor <;> (try dsimp only at *) <;> omega

theorem C17_truncate_covered (f : MMapFile) (h : f.Covered) (n : Nat) (hg : n ≤ f.size + initialMmap) :
    (f.truncate n).Covered := by
  unfold MMapFile.Covered initialMmap at *
  unfold MMapFile.truncate MMapFile.mremap
  dsimp only
  split
  · constructor <;> (try dsimp only at *) <;> omega
  · split
    · dsimp only
      constructor
      · exact Nat.le_max_right _ _
      · right; exact Nat.le_max_left _ _
    · dsimp only
      constructor <;> (try dsimp only at *) <;> omega

/-- The bound is necessary: a growth of more than twice the mapping leaves the file uncovered
(what happens when the initial mapping is smaller than a record). -/
theorem C17_large_growth_uncovered :
    ∃ (f : MMapFile) (off n : Nat), f.size ≤ f.mmapSize ∧ f.mmapSize ≠ 0 ∧ ¬ (f.writeAt off n).size ≤ (f.writeAt off n).mmapSize := by
  refine ⟨⟨1, 1⟩, 0, 3, ?_, ?_, ?_⟩ <;> decide

/-- The model reads a file only inside its logical size (the usage precondition of `Slice` that all
three implementations agree on). -/
theorem C17_model_reads_within_size (st : MState) (seg off len : Nat) (b : Bytes) (h : st.readAt seg off len = some b) :
    ∃ s ∈ st.segs, s.id = seg ∧ off + len ≤ s.size ∧ b.length = len := by
  unfold MState.readAt at h
  split at h
  · cases h
  · rename_i s hs
    have hmem := List.mem_of_find?_eq_some hs
    have hid := List.find?_some hs
    simp only [beq_iff_eq] at hid
    split at h
    · cases h
    · split at h
      · rename_i h1 h2
        cases h
        refine ⟨s, hmem, hid, ?_, ?_⟩
        · unfold MSeg.size; omega
        · simp only [List.length_take, List.length_drop]; omega
      · cases h

end Pogreb
