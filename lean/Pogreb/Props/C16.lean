/-
  C16 (generated-fact part): the size guards of `Put` run before any lock or I/O.
  The codec theorems of C16 are in Props/C08.lean; what the two guards COMPUTE is proved in
  Props/G01Lim.lean on their translation (`G01_keyTooLargeGuard`, `G01_valueTooLargeGuard`).
-/
import Pogreb.Generated.Flow
namespace Pogreb

/-- The statements of `DB.Put` in front of its first lock, by kind (regenerated from the source):
everything up to and including the two size guards is a guard or a pure definition - nothing that
could touch the database runs before an over-long key or value is refused - and the key is judged
first (the error for a pair that is too long in both is `errKeyTooLarge`). -/
theorem C16_guards_first :
    let front := Generated.putPrologueKinds.takeWhile (fun k => k == "define" || k.startsWith "guard:")
    front.filter (fun k => k.startsWith "guard:") = ["guard:errKeyTooLarge", "guard:errValueTooLarge"] ∧
    Generated.putPrologueKinds.getLast? = some "lock" := by
  decide +kernel

end Pogreb
