/-
  C16 (generated-fact part): the size guards of `Put` run before any lock or I/O.
  The codec theorems of C16 are in Props/C08.lean.
-/
import Pogreb.Generated.Flow
namespace Pogreb

theorem C16_guards_first :
    Generated.putPrologue.take 2 =
      ["if len(key) > MaxKeyLength { return errKeyTooLarge }", "if len(value) > MaxValueLength { return errValueTooLarge }"] := by
  decide

end Pogreb
