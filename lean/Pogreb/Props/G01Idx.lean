/-
  G01 (index addressing): `index.bucketIndex`, `bucketOffset` and the MaxKeys guard compute what the model computes.
  (generated definitions: `Generated/Funcs.lean`, regenerated from /repo by factgen on every run;
  Go fixed-width arithmetic as `BitVec` arithmetic).
-/
import Pogreb.Generated.Funcs
import Pogreb.Index
import Pogreb.Lemmas.BitVecNat
namespace Pogreb
open Generated
set_option linter.unusedSimpArgs false

/-- Every function/guard of this file was translated (none had an unsupported shape). -/
theorem G01_idx_translated :
    (Funcs.bucketIndex_translated && Funcs.bucketOffset_translated && Funcs.indexFullGuard_translated) = true := by decide

/-- `bucketOffset i` = header + 512·i: bucket `i` of the main file, overflow bucket `i` (pointer value
`i + 1` in the file-level model) of the overflow file. No wrap for any `uint32` index. -/
theorem G01_bucketOffset (i : BitVec 32) : (Funcs.bucketOffset i).toNat = 512 * (i.toNat + 1) := by
  unfold Funcs.bucketOffset
  bv_omega

/-- **`index.bucketIndex` is the model's `bucketIdx`** — for every level below 255 (the code's level is a
`uint8`; 32 levels already exceed the 2³² buckets the format can address), split pointer and hash. -/
theorem G01_bucketIndex (level : BitVec 8) (split hash : BitVec 32) (hl : level.toNat < 255) :
    (Funcs.bucketIndex hash (f_level := level) (f_splitBucketIdx := split)).toNat = bucketIdx level.toNat split.toNat hash.toNat := by
  unfold Funcs.bucketIndex bucketIdx
  have hl1 : (level + 1#8).toNat = level.toNat + 1 := by bv_omega
  have hl1' : (1#8 + level).toNat = level.toNat + 1 := by bv_omega
  simp only [BitVec.lt_def, gt_iff_lt, and_mask_toNat, mask_and_toNat, hl1, hl1', apply_ite BitVec.toNat]

/-- `index.put` refuses exactly at `MaxKeys`. -/
theorem G01_indexFullGuard (n : BitVec 32) : Funcs.indexFullGuard (f_numKeys := n) = decide (n.toNat = 4294967295) := by
  unfold Funcs.indexFullGuard
  rw [decide_eq_decide]
  bv_omega

end Pogreb
