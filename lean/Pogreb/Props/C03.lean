/-
  C03 — process crash at any instant: acknowledged writes survive, the in-flight write is atomic.
  C04 — recovery is idempotent, its own effects are crash-safe, later sessions stay safe.

  File-level statements over `SegFS` (the segment files, which are all a recovering Open reads:
  index and metadata files are discarded by recovery). The current segment is the last file.
-/
import Pogreb.SegFS
import Pogreb.Lemmas.SegFS
namespace Pogreb

/-- State of the directory after the append of `r` was cut after `n` bytes (n = whole length:
the append completed). `pre` are the older segments, `cur` the current one. -/
def afterAppend (pre : SegFS) (cur : SegFile) (r : Rec) (n : Nat) : SegFS :=
  pre ++ [{ cur with bytes := cur.bytes ++ r.encode.take n }]

-- THEOREMS TO PROVE (statements fixed) ------------------------------------------------------

/-- Recovery of clean files returns exactly the records written, in order. -/
theorem C03_recoverLog_clean (f : SegFile) (rs : List Rec) (hf : ∀ r ∈ rs, r.Fits) (hb : f.bytes = encodeAll rs) :
    f.ents = rs.map Rec.toEnt := by
  cases f with
  | mk seq bytes =>
    simp only at hb
    subst hb
    exact ents_of_clean seq rs hf

/-- **Torn append**: if the process dies while a record is being appended to a clean current
segment, cut at ANY byte (in particular at any 512-aligned offset), recovery sees the state
before the operation. -/
theorem C03_torn_append (pre : SegFS) (cur : SegFile) (hc : cur.Clean) (r : Rec) (hr : r.Fits)
    (n : Nat) (hn : n < r.encode.length) :
    recovered (afterAppend pre cur r n) = recovered (pre ++ [cur]) := by
  obtain ⟨rs, hf, hb⟩ := hc
  cases cur with
  | mk seq bytes =>
    simp only at hb
    subst hb
    simp only [afterAppend, recovered, recoverLog_append, recoverLog_single,
      ents_torn seq rs hf r hr n hn, ents_of_clean seq rs hf]

/-- **Completed append**: once the append has completed, recovery sees the operation applied:
a put record is `put`, a delete record is `del`. -/
theorem C03_full_append (pre : SegFS) (cur : SegFile) (hc : cur.Clean) (r : Rec) (hr : r.Fits) :
    recovered (afterAppend pre cur r r.encode.length) = (r.op).apply (recovered (pre ++ [cur])) ∧
    (SegFile.mk cur.seq (cur.bytes ++ r.encode)).Clean := by
  obtain ⟨rs, hf, hb⟩ := hc
  cases cur with
  | mk seq bytes =>
    simp only at hb
    subst hb
    have hf' : ∀ x ∈ rs ++ [r], x.Fits := by
      intro x hx
      rcases List.mem_append.mp hx with hx | hx
      · exact hf x hx
      · simp only [List.mem_singleton] at hx; subst hx; exact hr
    have hb' : encodeAll rs ++ r.encode = encodeAll (rs ++ [r]) := by
      simp [encodeAll_append]
    refine ⟨?_, rs ++ [r], hf', hb'⟩
    simp only [afterAppend, recovered, recoverLog_append, recoverLog_single, List.take_length]
    rw [hb', ents_of_clean seq _ hf', ents_of_clean seq rs hf, List.map_append, List.map_singleton,
      ← List.append_assoc, toEnt_op]

/-- **Atomicity of Put/Delete under a crash**: every crash image of an append is either the state
before or the state after. -/
theorem C03_append_atomic (pre : SegFS) (cur : SegFile) (hc : cur.Clean) (r : Rec) (hr : r.Fits)
    (n : Nat) (hn : n ≤ r.encode.length) :
    recovered (afterAppend pre cur r n) = recovered (pre ++ [cur]) ∨
    recovered (afterAppend pre cur r n) = (r.op).apply (recovered (pre ++ [cur])) := by
  by_cases h : n < r.encode.length
  · exact Or.inl (C03_torn_append pre cur hc r hr n h)
  · have : n = r.encode.length := by omega
    subst this
    exact Or.inr (C03_full_append pre cur hc r hr).1

/-- Rollover: creating a new, still empty segment file (its 512-byte header write is a single
sector) changes nothing, and the new file is clean, so the next append is covered by the theorems
above. A zero-length file left by a crash between create and header write is the same to recovery. -/
theorem C03_create_segment (fs : SegFS) (seq : Nat) :
    recovered (fs ++ [⟨seq, []⟩]) = recovered fs ∧ (SegFile.mk seq []).Clean := by
  refine ⟨?_, [], by simp, by simp⟩
  simp [recovered, recoverLog_append, recoverLog_single, SegFile.ents, scan_nil]

/-- `Delete` of an absent key has no effect on the files and that is `del` on the contents. -/
theorem C03_delete_absent (fs : SegFS) (k : Bytes) (h : recovered fs k = none) :
    recovered fs = (recovered fs).del k := by
  exact contents_del_absent _ k h

/-! ### C04: recovery's own effects -/

/-- Truncating a file to its valid prefix does not change what recovery reads from it, and makes
it clean. Truncation is a metadata operation: a crash leaves it done or not done. -/
theorem C04_truncate_preserves (f : SegFile) : f.truncated.ents = f.ents ∧ f.truncated.Clean := by
  exact ⟨truncated_ents f, truncated_clean f⟩

/-- Any subset of the truncations of a recovery having happened (a crash anywhere inside the
recovering Open) leaves the recovered contents unchanged. `done i` says whether file `i` has been
truncated already. -/
theorem C04_recovery_crash_safe (fs : SegFS) (done : Nat → Bool) :
    recovered ((fs.zipIdx).map fun (f, i) => if done i then f.truncated else f) = recovered fs := by
  unfold recovered
  congr 1
  simp only [recoverLog]
  generalize 0 = s
  induction fs generalizing s with
  | nil => simp
  | cons f fs ih =>
    simp only [List.zipIdx_cons, List.map_cons, List.flatMap_cons]
    rw [ih]
    congr 1
    split
    · exact truncated_ents f
    · rfl

/-- Recovering twice gives the same contents, and after a completed recovery every file is clean
(so every later append is atomic again: sessions after a recovery are crash-safe). -/
theorem C04_recover_idempotent (fs : SegFS) :
    recovered (fs.map SegFile.truncated) = recovered fs ∧ ∀ f ∈ fs.map SegFile.truncated, f.Clean := by
  refine ⟨?_, ?_⟩
  · unfold recovered
    rw [recoverLog_map_congr fs _ truncated_ents]
  · intro f hf
    obtain ⟨g, _, rfl⟩ := List.mem_map.mp hf
    exact truncated_clean g

/-- **Epochs**: starting from any directory, run any number of epochs, each = a recovery
(all truncations) followed by a sequence of acknowledged appends to the current (last) segment with
rollovers at arbitrary points; the recovered contents at the end are the recovered contents at the
start with all acknowledged operations applied in order — nothing acknowledged in any epoch is lost. -/
inductive EpochStep where
  | recover                      -- a recovering Open ran to completion
  | append (r : Rec)             -- an acknowledged Put/Delete record
  | rollover (seq : Nat)         -- a new current segment

def applyStep (fs : SegFS) : EpochStep → SegFS
  | .recover => fs.map SegFile.truncated
  | .append r => match fs.getLast? with
    | some cur => fs.dropLast ++ [{ cur with bytes := cur.bytes ++ r.encode }]
    | none => fs
  | .rollover seq => fs ++ [⟨seq, []⟩]

/-- Appends only happen to a clean, existing current segment (i.e. after a recovery or a rollover). -/
def StepsOK : SegFS → List EpochStep → Prop
  | _, [] => True
  | fs, .recover :: rest => StepsOK (applyStep fs .recover) rest
  | fs, .append r :: rest =>
    r.Fits ∧ (∃ cur, fs.getLast? = some cur ∧ cur.Clean) ∧ StepsOK (applyStep fs (.append r)) rest
  | fs, .rollover seq :: rest => StepsOK (applyStep fs (.rollover seq)) rest

def stepOps : List EpochStep → List (WOp Bytes Bytes)
  | [] => []
  | .append r :: rest => r.op :: stepOps rest
  | _ :: rest => stepOps rest

theorem C04_epochs (steps : List EpochStep) (fs : SegFS) (h : StepsOK fs steps) :
    recovered (steps.foldl applyStep fs) = WOp.run (recovered fs) (stepOps steps) := by
  induction steps generalizing fs with
  | nil => rfl
  | cons st rest ih =>
    cases st with
    | recover =>
      simp only [StepsOK] at h
      simp only [List.foldl_cons, stepOps]
      rw [ih _ h]
      simp only [applyStep]
      rw [(C04_recover_idempotent fs).1]
    | rollover seq =>
      simp only [StepsOK] at h
      simp only [List.foldl_cons, stepOps]
      rw [ih _ h]
      simp only [applyStep]
      rw [(C03_create_segment fs seq).1]
    | append r =>
      simp only [StepsOK] at h
      obtain ⟨hr, ⟨cur, hcur, hclean⟩, hrest⟩ := h
      simp only [List.foldl_cons, stepOps, WOp.run_cons]
      rw [ih _ hrest]
      congr 1
      have hfs : fs = fs.dropLast ++ [cur] := by
        have hne : fs ≠ [] := by intro h0; subst h0; simp at hcur
        have hl : fs.getLast hne = cur := by
          rw [List.getLast?_eq_some_getLast hne] at hcur
          exact Option.some.inj hcur
        rw [← hl]
        exact (List.dropLast_concat_getLast hne).symm
      simp only [applyStep, hcur]
      have := (C03_full_append fs.dropLast cur hclean r hr).1
      simp only [afterAppend, List.take_length] at this
      rw [this, ← hfs]

end Pogreb

/-! ### Non-vacuity: a concrete instance of the hypotheses of `C03_append_atomic` -/
namespace Pogreb
namespace C03Example

def r0 : Rec := ⟨false, [1], [7, 8]⟩
def r1 : Rec := ⟨true, [1], []⟩
/-- an older segment with a torn tail -/
def pre : SegFS := [⟨2, encodeAll [⟨false, [2], [9]⟩] ++ [0, 0, 0]⟩]
def cur : SegFile := ⟨3, encodeAll [r0]⟩

theorem cur_clean : cur.Clean := ⟨[r0], by decide, rfl⟩
theorem r1_fits : r1.Fits := by decide
theorem r1_len : r1.encode.length = 11 := by simp [r1]

/-- Every cut `n ≤ 11` of the append of the delete record `r1` is covered. -/
example (n : Nat) (hn : n ≤ 11) :
    recovered (afterAppend pre cur r1 n) = recovered (pre ++ [cur]) ∨
    recovered (afterAppend pre cur r1 n) = (recovered (pre ++ [cur])).del [1] :=
  C03_append_atomic pre cur cur_clean r1 r1_fits n (by rw [r1_len]; exact hn)

/-- The two alternatives differ here (the statement is not trivially a no-op): before the delete
key `[1]` is present, after it it is absent. -/
example : recovered (pre ++ [cur]) [1] = some [7, 8] ∧
    recovered (afterAppend pre cur r1 11) [1] = none := by
  have hcur : cur.ents = [r0].map Rec.toEnt := C03_recoverLog_clean cur [r0] (by decide) rfl
  have h0 : recovered (pre ++ [cur]) [1] = some [7, 8] := by
    simp only [recovered, recoverLog_append, recoverLog_single, hcur]
    rw [contents_append]
    simp [lastRec, lastOf, Rec.toEnt, r0]
  refine ⟨h0, ?_⟩
  have := (C03_full_append pre cur cur_clean r1 r1_fits).1
  rw [r1_len] at this
  rw [this]
  simp [Rec.op, r1, WOp.apply]

end C03Example
end Pogreb
