/-
  G01 (mapping size): the size `osMMapFile.mremap` asks `mmap` for (generated definitions: `Generated/Funcs.lean`, regenerated from /repo by
  factgen on every run; Go fixed-width arithmetic as `BitVec` arithmetic).
  The streams cannot reach the doubling branch of `mremap` (it needs a file beyond 1 GiB): this tie is
  what connects the `C17_*_covered` theorems to that part of the source.
-/
import Pogreb.Generated.Funcs
import Pogreb.Props.C17
import Pogreb.Lemmas.BitVecNat
namespace Pogreb
open Generated
set_option linter.unusedSimpArgs false

theorem G01_mmap_translated :
    (Funcs.mremapRequest_translated) = true := by decide

theorem sle_toNat (a b : BitVec 64) (ha : a.toNat < 2 ^ 63) (hb : b.toNat < 2 ^ 63) :
    BitVec.sle a b = decide (a.toNat ≤ b.toNat) := by
  have ea : a.toInt = a.toNat := by rw [BitVec.toInt_eq_toNat_cond, if_pos (by omega)]
  have eb : b.toInt = b.toNat := by rw [BitVec.toInt_eq_toNat_cond, if_pos (by omega)]
  unfold BitVec.sle
  rw [decide_eq_decide, ea, eb]
  omega

/-- **`mremap` asks for the mapping size the model computes** — nothing when the mapping covers the
file already, else `max 1GiB size` for the first mapping and twice the old mapping afterwards; the
`int64` arithmetic cannot wrap for sizes below 2⁶². -/
theorem G01_mremapRequest (ms sz : BitVec 64) (hm : ms.toNat < 2 ^ 62) (hs : sz.toNat < 2 ^ 62) :
    (Funcs.mremapRequest (f_mmapSize := ms) (f_size := sz)).map BitVec.toNat =
      if ms.toNat ≥ sz.toNat then none
      else some (MMapFile.mremap ⟨sz.toNat, ms.toNat⟩).mmapSize := by
  -- written against the MEANING of the generated term, not its shape: every `if` of both sides is
  -- split, signed comparisons become comparisons of values, and linear arithmetic closes each case
  -- (so a rewrite of the source that swaps branches, operands or comparison directions still checks)
  unfold Funcs.mremapRequest MMapFile.mremap initialMmap
  simp only [BitVec.slt, BitVec.sle, BitVec.toInt_eq_toNat_cond, decide_eq_true_eq, ge_iff_le]
  repeat' split
  all_goals
    simp only [Option.map_some, Option.map_none, Option.some.injEq, reduceCtorEq, ne_eq] at *
  all_goals first
    | rfl
    | bv_omega

/-- What the model's mapping size is after `mremap`, read off the request: the old mapping when
nothing was requested. -/
theorem G01_mremap_model (ms sz : BitVec 64) (hm : ms.toNat < 2 ^ 62) (hs : sz.toNat < 2 ^ 62) :
    (MMapFile.mremap ⟨sz.toNat, ms.toNat⟩).mmapSize =
      ((Funcs.mremapRequest (f_mmapSize := ms) (f_size := sz)).map BitVec.toNat).getD ms.toNat := by
  rw [G01_mremapRequest ms sz hm hs]
  by_cases h0 : ms.toNat ≥ sz.toNat
  · simp only [h0, if_true, Option.getD_none]
    unfold MMapFile.mremap
    simp only [h0, if_true]
  · simp only [h0, if_false, Option.getD_some]

end Pogreb
