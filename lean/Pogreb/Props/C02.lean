/-
  C02 — clean restart preserves exactly the closed contents.
  C15 — compaction reclaims space, nothing leaks, the database stays usable.
  Statements about the executable model `MState` (which the correspondence check runs in lockstep
  with the implementation across Close/Open and Compact, comparing contents, segment bytes, current
  segment, directory listing and handle counts).
-/
import Pogreb.Model
import Pogreb.Lemmas.Reopen
import Pogreb.Generated.Sections
namespace Pogreb
open MState

-- THEOREMS TO PROVE (statements fixed) ------------------------------------------------------

/-- A clean reopen does not touch the index or the bytes of any existing segment. -/
theorem C02_reopen_preserves_data (st : MState) :
    st.reopenClean.idx = st.idx ∧ st.reopenClean.seed = st.seed ∧
    ∀ s ∈ st.segs, ∃ s' ∈ st.reopenClean.segs, s'.id = s.id ∧ s'.seq = s.seq ∧ s'.data = s.data := by
  refine ⟨by rw [reopenClean_eq, swap_idx]; rfl, by rw [reopenClean_eq, swap_seed]; rfl, ?_⟩
  intro s hs
  refine ⟨s, ?_, rfl, rfl, rfl⟩
  rw [reopenClean_eq]
  exact swap_mem _ _ hs

/- ORIGINAL STATEMENT (FALSE as written):

  theorem C02_reopen_preserves_reads (st : MState) (hids : (st.segs.map (·.id)).Nodup) (k : Bytes) :
      st.reopenClean.get k = st.get k ∧ st.reopenClean.has k = st.has k ∧ st.reopenClean.count = st.count ∧
      st.reopenClean.items = st.items

  Counterexample (evaluated with `#eval`): a state whose index holds a DANGLING slot, i.e. one that
  points at a segment id that does not exist:
      st := ⟨⟨4096⟩, 0, [], none, 0, ⟨0, 0, [[[⟨(murmur32 [] 0).toNat, 0, 0, 0, 506⟩]]], 1⟩⟩
  (no segments, one slot for the empty key pointing at segment 0, offset 506). `hids` holds trivially.
  Before the reopen `readAt 0 512 0 = none` (segment 0 is missing), so `items = []`, `get [] = none`,
  `has [] = false`. `reopenClean` finds no writable segment and creates the empty segment with the
  free id 0; now `readAt 0 512 0 = some []`, so `items = [([], [])]`, `get [] = some []`, `has [] = true`.
  The statement needs the coupling invariant "every index slot points at an existing segment"
  (`MState.NoDangling`), which every reachable state satisfies. With it the statement holds; the
  `Nodup` hypothesis is then not needed (kept for reference), because `freeId` is proved fresh. -/

/-- Reads after a clean reopen return what they returned before (contents and Count), provided no
index slot points at a missing segment. -/
theorem C02_reopen_preserves_reads_partial (st : MState) (_hids : (st.segs.map (·.id)).Nodup)
    (hidx : ∀ sl ∈ st.idx.slots, (st.seg? sl.seg).isSome) (k : Bytes) :
    st.reopenClean.get k = st.get k ∧ st.reopenClean.has k = st.has k ∧ st.reopenClean.count = st.count ∧
    st.reopenClean.items = st.items := by
  exact reopenClean_reads st hidx k

/-- Open followed by Close with no writes changes nothing more: reopening twice is reopening once
whenever some segment is not full (the usual case: the active segment). -/
theorem C02_reopen_idempotent (st : MState) (h : ∃ s ∈ st.segs, s.full = false ∧ s.data ≠ []) :
    st.reopenClean.reopenClean = st.reopenClean := by
  obtain ⟨s, hs, hf, _⟩ := h
  exact reopenClean_idem st ⟨s, hs, hf⟩

/-- Since fix F13 (an empty segment keeps `Full` across a clean restart) the hypothesis of
`C02_reopen_idempotent` is not needed: the reopen leaves every segment as it is, and when none is
writable the fresh segment it appends is found again by the second reopen. -/
theorem C02_reopen_idempotent' (st : MState) : st.reopenClean.reopenClean = st.reopenClean :=
  reopenClean_idem' st

/-- Since fix F13 every existing segment survives a clean reopen unchanged, flag included. -/
theorem C02_reopen_preserves_segs (st : MState) : ∀ s ∈ st.segs, s ∈ st.reopenClean.segs := by
  intro s hs
  rw [reopenClean_eq]
  exact swap_mem _ _ hs

/-! ### C15 -/

/-- After `writeRecord` the current segment exists: the database is usable for writes from every
state, including the one where compaction removed every segment. -/
theorem C15_write_always_has_segment (st : MState) (data : Bytes) :
    ∃ id, (st.writeRecord data).1.cur = some id ∧ ∃ s ∈ (st.writeRecord data).1.segs, s.id = id := by
  exact writeRecord_live st data

/-- A removed segment is gone from the segment table and no longer current. -/
theorem C15_removed_segment_gone (st : MState) (id : Nat) :
    (∀ s ∈ (st.removeSeg id).segs, s.id ≠ id) ∧ (st.removeSeg id).cur ≠ some id := by
  constructor
  · intro s hs
    simp only [removeSeg, List.mem_filter, bne_iff_ne] at hs
    exact hs.2
  · simp only [removeSeg]
    split
    · simp
    · rename_i hc; simpa using hc

/-- Removing a segment does not touch the others. -/
theorem C15_remove_keeps_others (st : MState) (id : Nat) (s : MSeg) (hs : s ∈ st.segs) (hne : s.id ≠ id) :
    s ∈ (st.removeSeg id).segs := by
  simp only [removeSeg, List.mem_filter, bne_iff_ne]
  exact ⟨hs, hne⟩

/-- **What `DB.Close` does to the file system is what the model of a clean shutdown accounts for.**
The facts are regenerated from the source on every run (calls of methods of files, the file system and
the lock reached from `DB.Close`, the package's own functions inlined; compared as a set, so that a loop
or a helper in place of repeated code changes nothing): metadata and side files are created and
written, files are synced and closed, the lock is released. In particular `Close` truncates, renames and removes nothing but the lock: `reopenClean`
reads back exactly the bytes the session wrote (`C02_reopen_preserves_segs`). -/
theorem C02_close_calls_as_modelled :
    Generated.closeFsCallSet =
      ["fs.Close", "fs.OpenFile", "fs.Seek", "fs.Stat", "fs.Sync", "fs.Unlock", "fs.WriteAt"] ∧
    Generated.closeFsCalls.all (fun c => c != "fs.Truncate" && c != "fs.Remove" && c != "fs.Rename") = true := by
  decide

end Pogreb
