/-
  C06 — synced writes survive power loss through rollover, compaction and recovery.
  C09 — a cleanly closed database is a durable checkpoint.

  Power-loss model of the property: directory operations are durable and ordered; a file keeps its
  content as of its last Sync plus an in-order prefix of what was appended since (cut anywhere).
  `PFile.synced` is the length that is durable. The current segment is the last file.
-/
import Pogreb.SegFS
import Pogreb.Generated.Sections
import Pogreb.Lemmas.SegFS
import Pogreb.Lemmas.Compaction
namespace Pogreb

structure PFile where
  seq    : Nat
  bytes  : Bytes
  synced : Nat         -- bytes[0, synced) are durable
  deriving Repr

def PFile.toSeg (f : PFile) : SegFile := ⟨f.seq, f.bytes⟩

/-- An admissible image of one file after a power failure. -/
def PFile.ImageOf (f : PFile) (g : SegFile) : Prop :=
  g.seq = f.seq ∧ ∃ n, f.synced ≤ n ∧ n ≤ f.bytes.length ∧ g.bytes = f.bytes.take n

/-- An admissible image of the directory: the same files (directory operations are durable), each
with an admissible content. -/
def ImageOf : List PFile → SegFS → Prop
  | [], [] => True
  | f :: fs, g :: gs => f.ImageOf g ∧ ImageOf fs gs
  | _, _ => False

/-- The invariant the repaired code maintains: every segment but the current one is completely
durable (a full segment is synced before the log moves on; compaction syncs before it unlinks). -/
def OnlyCurrentPending (pre : List PFile) : Prop := ∀ f ∈ pre, f.synced = f.bytes.length

-- helper -------------------------------------------------------------------------------------

theorem ImageOf_all_synced (fs : List PFile) (h : ∀ f ∈ fs, f.synced = f.bytes.length) (img : SegFS)
    (himg : ImageOf fs img) : img = fs.map PFile.toSeg := by
  induction fs generalizing img with
  | nil =>
    cases img with
    | nil => rfl
    | cons g gs => exact absurd himg (by simp [ImageOf])
  | cons f fs ih =>
    cases img with
    | nil => exact absurd himg (by simp [ImageOf])
    | cons g gs =>
      obtain ⟨⟨hseq, n, h1, h2, h3⟩, hrest⟩ := himg
      have hf := h f (by simp)
      have hn : n = f.bytes.length := by omega
      subst hn
      rw [List.take_length] at h3
      rw [ih (fun f' hf' => h f' (by simp [hf'])) gs hrest]
      cases g
      simp only [PFile.toSeg, List.map_cons] at *
      rw [hseq, h3]

theorem ImageOf_append (a b : List PFile) (img : SegFS) (h : ImageOf (a ++ b) img) :
    ∃ ia ib, img = ia ++ ib ∧ ImageOf a ia ∧ ImageOf b ib := by
  induction a generalizing img with
  | nil => exact ⟨[], img, rfl, trivial, h⟩
  | cons f fs ih =>
    cases img with
    | nil => exact absurd h (by simp [ImageOf])
    | cons g gs =>
      obtain ⟨hf, hrest⟩ := h
      obtain ⟨ia, ib, e, h1, h2⟩ := ih gs hrest
      exact ⟨g :: ia, ib, by rw [e]; rfl, ⟨hf, h1⟩, h2⟩

/-- Cutting a file of whole records anywhere at or after the first `k` records leaves a valid
prefix of `j ≥ k` records. -/
theorem scan_cut (rs : List Rec) (hf : ∀ r ∈ rs, r.Fits) (n k : Nat) (hk : k ≤ rs.length)
    (h1 : (encodeAll (rs.take k)).length ≤ n) (h2 : n ≤ (encodeAll rs).length) :
    ∃ j, k ≤ j ∧ j ≤ rs.length ∧ (scan ((encodeAll rs).take n)).1 = rs.take j := by
  induction rs generalizing n k with
  | nil =>
    refine ⟨0, ?_, Nat.le_refl _, ?_⟩
    · simpa using hk
    · simp [scan_nil]
  | cons r rs ih =>
    have hr : r.Fits := hf r (by simp)
    have hf' : ∀ r' ∈ rs, r'.Fits := fun r' h' => hf r' (by simp [h'])
    by_cases hn : n < r.encode.length
    · have hk0 : k = 0 := by
        cases k with
        | zero => rfl
        | succ k' =>
          simp only [List.take_succ_cons, encodeAll_cons, List.length_append] at h1
          omega
      subst hk0
      refine ⟨0, Nat.le_refl _, Nat.zero_le _, ?_⟩
      rw [encodeAll_cons, List.take_append_of_le_length (by omega),
        scan_stop (decode_strict_prefix r hr n hn)]
      simp
    · have hn' : r.encode.length ≤ n := by omega
      have e : (encodeAll (r :: rs)).take n
          = encodeAll [r] ++ (encodeAll rs).take (n - r.encode.length) := by
        rw [encodeAll_cons, List.take_append]
        simp [List.take_of_length_le hn']
      have hlen : n - r.encode.length ≤ (encodeAll rs).length := by
        simp only [encodeAll_cons, List.length_append] at h2
        omega
      have hs : (scan ((encodeAll (r :: rs)).take n)).1
          = r :: (scan ((encodeAll rs).take (n - r.encode.length))).1 := by
        rw [e, scan_encodeAll [r] _ (by intro r' h'; simp at h'; subst h'; exact hr)]
        simp
      cases k with
      | zero =>
        obtain ⟨j, _, hj2, hj3⟩ := ih hf' (n - r.encode.length) 0 (Nat.zero_le _) (by simp) hlen
        exact ⟨j + 1, Nat.zero_le _, by simpa using hj2, by rw [hs, hj3]; rfl⟩
      | succ k' =>
        simp only [List.take_succ_cons, encodeAll_cons, List.length_append] at h1
        obtain ⟨j, hj1, hj2, hj3⟩ := ih hf' (n - r.encode.length) k'
          (by simpa using hk) (by omega) hlen
        exact ⟨j + 1, by omega, by simpa using hj2, by rw [hs, hj3]; rfl⟩

-- THEOREMS TO PROVE (statements fixed) ------------------------------------------------------

/-- **Power-loss images are log prefixes.** With only the current segment pending, written as whole
records `rs` of which the first `k` are synced, every admissible image recovers to the log cut
after `j ≥ k` records of the current segment: a consistent prefix of the acknowledged history that
contains everything synced. -/
theorem C06_image_is_synced_prefix (pre : List PFile) (cur : PFile) (rs : List Rec) (k : Nat)
    (hpre : OnlyCurrentPending pre) (hf : ∀ r ∈ rs, r.Fits) (hcur : cur.bytes = encodeAll rs)
    (hk : k ≤ rs.length) (hs : cur.synced = (encodeAll (rs.take k)).length)
    (img : SegFS) (himg : ImageOf (pre ++ [cur]) img) :
    ∃ j, k ≤ j ∧ j ≤ rs.length ∧
      recoverLog img = recoverLog (pre.map PFile.toSeg) ++ (rs.take j).map Rec.toEnt := by
  obtain ⟨ia, ib, e, ha, hb⟩ := ImageOf_append pre [cur] img himg
  have ea := ImageOf_all_synced pre hpre ia ha
  cases ib with
  | nil => exact absurd hb (by simp [ImageOf])
  | cons g gs =>
    cases gs with
    | cons g' gs' => exact absurd hb.2 (by simp [ImageOf])
    | nil =>
      obtain ⟨⟨_, n, h1, h2, h3⟩, _⟩ := hb
      rw [hcur] at h2 h3
      rw [hs] at h1
      obtain ⟨j, hj1, hj2, hj3⟩ := scan_cut rs hf n k hk h1 h2
      refine ⟨j, hj1, hj2, ?_⟩
      rw [e, ea, recoverLog_append, recoverLog_single]
      simp only [SegFile.ents]
      rw [h3, hj3]

/-- Non-vacuity of `C06_image_is_synced_prefix`: one fully synced older segment, a current segment of
two records of which the first is synced, and an image whose current segment is cut in the middle
of the second record satisfy all hypotheses. -/
example :
    let r1 : Rec := ⟨false, [1], [1]⟩
    let r2 : Rec := ⟨false, [2], [2]⟩
    let r3 : Rec := ⟨true, [1], []⟩
    let pre : List PFile := [⟨1, encodeAll [r1], (encodeAll [r1]).length⟩]
    let rs : List Rec := [r2, r3]
    let cur : PFile := ⟨2, encodeAll rs, (encodeAll (rs.take 1)).length⟩
    let img : SegFS := [⟨1, encodeAll [r1]⟩, ⟨2, (encodeAll rs).take 17⟩]
    OnlyCurrentPending pre ∧ (∀ r ∈ rs, r.Fits) ∧ cur.bytes = encodeAll rs ∧ 1 ≤ rs.length ∧
      cur.synced = (encodeAll (rs.take 1)).length ∧ ImageOf (pre ++ [cur]) img := by
  intro r1 r2 r3 pre rs cur img
  refine ⟨?_, by decide, rfl, by decide, rfl, ?_⟩
  · intro f hf
    simp [pre] at hf
    subst hf; rfl
  · refine ⟨⟨rfl, _, Nat.le_refl _, Nat.le_refl _, List.take_length.symm⟩, ⟨rfl, 17, ?_, ?_, rfl⟩, trivial⟩
    · simp [cur, rs, r2]
    · simp [cur, rs, r2, r3]

/-- **Per key**: after a power failure every key holds its value as of the last completed Sync or a
value written (or a deletion made) after it. `logS` is the log at the last Sync, `later` the
records acknowledged since; the image recovers to `logS ++ later.take j`. -/
theorem C06_key_admissible (logS later : List E) (j : Nat) (k : Bytes) :
    contents (logS ++ later.take j) k = contents logS k ∨
    ∃ e ∈ later, e.key = k ∧ contents (logS ++ later.take j) k = e.val := by
  rw [contents_append]
  cases h : lastRec (later.take j) k with
  | none => exact Or.inl rfl
  | some e =>
    right
    obtain ⟨hm, hp⟩ := lastOf_some_mem h
    exact ⟨e, List.mem_of_mem_take hm, by simpa using hp, rfl⟩

/-- Sync makes everything durable: afterwards the only admissible image of the current segment is
the segment itself. -/
theorem C06_sync_establishes (f : PFile) (g : SegFile) (h : ({ f with synced := f.bytes.length } : PFile).ImageOf g) :
    g = f.toSeg := by
  obtain ⟨hseq, n, h1, h2, h3⟩ := h
  simp only at hseq h1 h2 h3
  have hn : n = f.bytes.length := by omega
  subst hn
  rw [List.take_length] at h3
  cases g
  simp only [PFile.toSeg] at *
  rw [hseq, h3]

/-- Rollover keeps the invariant because the full segment is synced first (datalog.go). -/
theorem C06_rollover_preserves (pre : List PFile) (cur : PFile) (hpre : OnlyCurrentPending pre) (seq : Nat) :
    OnlyCurrentPending (pre ++ [{ cur with synced := cur.bytes.length }]) ∧
    (⟨seq, [], 0⟩ : PFile).synced = (⟨seq, [], 0⟩ : PFile).bytes.length := by
  refine ⟨?_, rfl⟩
  intro f hf
  rw [List.mem_append] at hf
  rcases hf with hf | hf
  · exact hpre f hf
  · simp at hf; subst hf; rfl

/-- The sync before rollover is necessary: without it there is an admissible image that keeps a
later record and loses an earlier one (not a prefix of the history) - the defect repaired in
datalog.go. -/
theorem C06_unsynced_rollover_loses :
    ∃ (a b : PFile) (img : SegFS), ImageOf [a, b] img ∧ a.synced < a.bytes.length ∧
      recovered img ≠ recovered [] ∧ recovered img ≠ recovered [a.toSeg] ∧ recovered img ≠ recovered [a.toSeg, b.toSeg] := by
  have f1 : ∀ r ∈ [Rec.mk false [1] [1]], r.Fits := by decide
  have f2 : ∀ r ∈ [Rec.mk false [2] [2]], r.Fits := by decide
  have e0 : ∀ seq, (SegFile.mk seq []).ents = [] := fun seq => ents_of_clean seq [] (by simp)
  have e1 := fun seq => ents_of_clean seq _ f1
  have e2 := fun seq => ents_of_clean seq _ f2
  refine ⟨⟨1, encodeAll [⟨false, [1], [1]⟩], 0⟩, ⟨2, encodeAll [⟨false, [2], [2]⟩], 0⟩,
    [⟨1, []⟩, ⟨2, encodeAll [⟨false, [2], [2]⟩]⟩], ?_, ?_, ?_, ?_, ?_⟩
  · refine ⟨⟨rfl, 0, Nat.le_refl _, Nat.zero_le _, rfl⟩, ⟨rfl, _, Nat.zero_le _, Nat.le_refl _, List.take_length.symm⟩, trivial⟩
  · simp
  · intro h
    have := congrFun h [2]
    simp only [recovered, recoverLog, PFile.toSeg, List.flatMap_cons, List.flatMap_nil, e0, e1, e2] at this
    simp [Rec.toEnt, contents, lastRec, lastOf, KV.empty] at this
  · intro h
    have := congrFun h [2]
    simp only [recovered, recoverLog, PFile.toSeg, List.flatMap_cons, List.flatMap_nil, e0, e1, e2] at this
    simp [Rec.toEnt, contents, lastRec, lastOf] at this
  · intro h
    have := congrFun h [1]
    simp only [recovered, recoverLog, PFile.toSeg, List.flatMap_cons, List.flatMap_nil, e0, e1, e2] at this
    simp [Rec.toEnt, contents, lastRec, lastOf] at this

/-- Compaction: when the source segment is unlinked everything is durable (compaction.go syncs the
current segment first), so the image after the unlink is exactly the remaining files. -/
theorem C06_remove_after_sync (fs : List PFile) (h : ∀ f ∈ fs, f.synced = f.bytes.length) (img : SegFS)
    (himg : ImageOf fs img) : img = fs.map PFile.toSeg := by
  exact ImageOf_all_synced fs h img himg

/-! ### C09 -/

/-- Steps of `Close` on the files recovery does not rebuild (index, metadata) and on the lock:
the lock file - whose absence tells the next Open to trust those files - is removed last. -/
inductive CloseEff where
  | write (file : Nat)      -- index / metadata / side file content written
  | sync (file : Nat)
  | removeLock
  deriving DecidableEq, Repr

structure CState where
  pending : List Nat    -- files written and not yet synced
  lock    : Bool
  deriving Repr

def CState.apply (s : CState) : CloseEff → CState
  | .write f => { s with pending := f :: s.pending.filter (· != f) }
  | .sync f => { s with pending := s.pending.filter (· != f) }
  | .removeLock => { s with lock := false }

/-- The order `DB.Close` issues its effects in: every file is written and synced, then the lock goes. -/
def closeEffects (files : List Nat) : List CloseEff :=
  files.flatMap (fun f => [.write f, .sync f]) ++ [.removeLock]

-- helper (C09) -------------------------------------------------------------------------------

theorem foldl_lock_unchanged (l : List CloseEff) (s : CState) (h : ∀ e ∈ l, e ≠ .removeLock) :
    (l.foldl CState.apply s).lock = s.lock := by
  induction l generalizing s with
  | nil => rfl
  | cons e l ih =>
    rw [List.foldl_cons, ih _ (fun e' h' => h e' (by simp [h']))]
    cases e with
    | write f => rfl
    | sync f => rfl
    | removeLock => exact absurd rfl (h _ (by simp))

theorem foldl_writes_synced (files : List Nat) (s : CState) (h : s.pending = []) :
    ((files.flatMap (fun f => [CloseEff.write f, CloseEff.sync f])).foldl CState.apply s).pending = [] := by
  induction files generalizing s with
  | nil => exact h
  | cons f fs ih =>
    rw [List.flatMap_cons, List.foldl_append]
    apply ih
    simp [CState.apply, h]

theorem C09_aux (files : List Nat) (n : Nat) :
    (((closeEffects files).take n).foldl CState.apply ⟨[], true⟩).lock = false →
    (((closeEffects files).take n).foldl CState.apply ⟨[], true⟩).pending = [] := by
  unfold closeEffects
  by_cases hn : n ≤ (files.flatMap (fun f => [CloseEff.write f, CloseEff.sync f])).length
  · rw [List.take_append_of_le_length hn]
    intro hl
    rw [foldl_lock_unchanged] at hl
    · cases hl
    · intro e he
      have he' := List.mem_of_mem_take he
      rw [List.mem_flatMap] at he'
      obtain ⟨f, _, hf⟩ := he'
      simp at hf
      rcases hf with rfl | rfl <;> simp
  · intro _
    rw [List.take_of_length_le (by rw [List.length_append, List.length_singleton]; omega), List.foldl_append]
    simp only [List.foldl_cons, List.foldl_nil, CState.apply]
    exact foldl_writes_synced files _ rfl

/-- **Checkpoint**: at every instant of `Close` (every prefix of its effects), if the lock is already
gone then nothing is pending: a power failure cannot hide or lose anything of a database whose lock
file is absent; and while the lock is present the next Open rebuilds from the (durable) segments. -/
theorem C09_lock_absent_implies_durable (files : List Nat) (n : Nat) :
    let s := ((closeEffects files).take n).foldl CState.apply ⟨[], true⟩
    s.lock = false → s.pending = [] := by
  exact C09_aux files n

/-- After Close all segment files are durable too, so the only image of the directory is itself. -/
theorem C09_closed_image_unique (fs : List PFile) (h : ∀ f ∈ fs, f.synced = f.bytes.length)
    (img : SegFS) (himg : ImageOf fs img) : recovered img = recovered (fs.map PFile.toSeg) := by
  rw [ImageOf_all_synced fs h img himg]

/-- Removing the lock before syncing is what the pinned tree did: then the lock can be absent with
files still pending. -/
theorem C09_pinned_close_not_durable :
    ∃ effs : List CloseEff, (effs.foldl CState.apply ⟨[], true⟩).lock = false ∧
      (effs.foldl CState.apply ⟨[], true⟩).pending ≠ [] := by
  exact ⟨[.write 0, .removeLock], by decide, by decide⟩

/-- The order the abstract Close above assumes, read off the source (regenerated on every run): the
lock is released exactly once, as the LAST file-system call `DB.Close` reaches (every sync comes
before it). -/
theorem C09_unlock_is_the_last_call :
    Generated.closeFsCalls.getLast? = some "fs.Unlock" ∧
    (Generated.closeFsCalls.filter (· == "fs.Unlock")).length = 1 ∧
    Generated.closeFsCalls.contains "fs.Sync" = true := by
  decide

end Pogreb
