/-
  M09 — sessions: runs of the interleaved model (M06: user operations interleaved with the steps of a
  compaction, record by record) separated by clean restarts and by crashes, where a crash may hit
  INSIDE the append of a record: any number `n` of the record's bytes reached the file, and neither the
  index/metadata update nor the acknowledgement happened. Recovery then runs with a new hash seed.
  "An in-flight write is either fully applied or not at all": the contents after such a crash are the
  specification's with the record applied iff ALL its bytes were written. The invariant `XInv` of M06
  holds after every step of every session, for every segment size. Supports C03/C04/C08 (torn
  appends), C05/C07 (crash in the middle of a compaction).
-/
import Pogreb.Lemmas.Sessions
namespace Pogreb
open MState

inductive SOp where
  | x (op : XOp)                       -- one step of the interleaved model (M06)
  | restart                            -- clean Close + Open: only admissible when no compaction is in progress
  | crash (seed : UInt32)              -- the process dies between two steps; recovery with a new hash seed
  | crashTorn (seed : UInt32) (r : Rec) (n : Nat)
      -- the process dies INSIDE the append of record `r` to the current segment, after `n` bytes of
      -- `r.encode` reached the file (`n = r.encode.length`: the record is complete, but the index
      -- update and the acknowledgement did not happen); then recovery

/-- The empty database, no compaction in progress. -/
def XState.init (maxSeg : Nat) (seed : UInt32) : XState := ⟨MState.init maxSeg seed, none⟩

/-- One step of a session. The in-flight append is `MState.writePartial` (Lemmas/Sessions.lean): the
rollover exactly as `writeRecord` does it, then only the first `n` bytes. A restart or a crash forgets
the compaction in progress (the cursor lives in memory only). -/
def XState.sstep (x : XState) : SOp → XState × MOut
  | .x op => x.step op
  | .restart => (⟨x.st.reopenClean, none⟩, .unit)
  | .crash seed => (⟨x.st.reopenRecover seed, none⟩, .unit)
  | .crashTorn seed r n => (⟨(x.st.writePartial r.encode n).reopenRecover seed, none⟩, .unit)

/-- Specification: restarts and crashes keep the contents; an in-flight write is applied iff all its
bytes were written. -/
def sSpecStep (m : KV Bytes Bytes) : SOp → KV Bytes Bytes
  | .x op => xSpecStep m op
  | .restart => m
  | .crash _ => m
  | .crashTorn _ r n =>
    if n = r.encode.length then (if r.del then m.del r.key else m.put r.key r.val) else m

def SSpecOut (m : KV Bytes Bytes) : SOp → MOut → Prop
  | .x op, out => XSpecOut m op out
  | _, out => out = .unit

/-- Admissibility of a step in a state. -/
def XState.SOpOK (x : XState) : SOp → Prop
  | .x op => x.OpOK op
  | .restart => x.comp = none
  | .crash _ => True
  | .crashTorn _ r n => r.Fits ∧ n ≤ r.encode.length

/-- Admissible sessions from a state (`SOpOK` threaded through the run). -/
def XState.SOpsOK : XState → List SOp → Prop
  | _, [] => True
  | x, op :: ops => x.SOpOK op ∧ XState.SOpsOK (x.sstep op).1 ops

/-- Every output of the session is the specification's. -/
def XState.SRunOK : XState → KV Bytes Bytes → List SOp → Prop
  | _, _, [] => True
  | x, m, op :: ops => SSpecOut m op (x.sstep op).2 ∧ XState.SRunOK (x.sstep op).1 (sSpecStep m op) ops

def XState.srunOps (x : XState) (ops : List SOp) : XState := ops.foldl (fun s op => (s.sstep op).1) x

-- helper ------------------------------------------------------------------------------------

/-- `writePartial` with all bytes written is `writeRecord` (same segment table, same current segment;
the caller has not updated the index yet). -/
theorem M09_writePartial_full (st : MState) (data : Bytes) :
    (st.writePartial data data.length).segs = (st.writeRecord data).1.segs ∧
    (st.writePartial data data.length).cur = (st.writeRecord data).1.cur := by
  rw [MState.writePartial_full]; exact ⟨rfl, rfl⟩

-- THEOREMS ------------------------------------------------------------------------------------------

theorem M09_init (maxSeg : Nat) (seed : UInt32) : (XState.init maxSeg seed).XInv :=
  M06_init maxSeg seed

/-- One step of a session (a step of the interleaved model, a clean restart, a crash between two
steps, a crash inside an append): the output is the specification's, the invariant is kept, and the
contents follow the specification. -/
theorem M09_step (x : XState) (h : x.XInv) (op : SOp) (hop : x.SOpOK op) :
    SSpecOut x.st.abs op (x.sstep op).2 ∧ (x.sstep op).1.XInv ∧
    (x.sstep op).1.st.abs = sSpecStep x.st.abs op := by
  cases op with
  | x o => exact M06_step x h o hop
  | restart =>
    obtain ⟨_, hw, habs⟩ := M05_step_partial x.st h.wf3 .reopen trivial trivial
    exact ⟨rfl, ⟨hw.x, fun _ hc => by cases hc⟩, habs⟩
  | crash seed =>
    obtain ⟨_, hw, habs⟩ := M05_step_partial x.st h.wf3 (.recover seed) trivial trivial
    exact ⟨rfl, ⟨hw.x, fun _ hc => by cases hc⟩, habs⟩
  | crashTorn seed r n =>
    obtain ⟨hw, habs⟩ := MState.crashTorn_wf3 h.wf3 seed r hop.1 n hop.2
    exact ⟨rfl, ⟨hw.x, fun _ hc => by cases hc⟩, habs⟩

/-- **Every admissible session**: every output is the specification's, the invariant holds at the end
(and, by `M09_step`, after every step), and the contents are the specification's. -/
theorem M09_run (ops : List SOp) (x : XState) (h : x.XInv) (hops : x.SOpsOK ops) :
    x.SRunOK x.st.abs ops ∧ (x.srunOps ops).XInv ∧
    (x.srunOps ops).st.abs = ops.foldl sSpecStep x.st.abs := by
  induction ops generalizing x with
  | nil => exact ⟨trivial, h, rfl⟩
  | cons op rest ih =>
    obtain ⟨hop, hrest⟩ := hops
    obtain ⟨hout, hinv, habs⟩ := M09_step x h op hop
    obtain ⟨h1, h2, h3⟩ := ih (x.sstep op).1 hinv hrest
    rw [habs] at h1 h3
    exact ⟨⟨hout, h1⟩, h2, h3⟩

/-- From the empty database, for EVERY segment size: every output of every session is the
specification's. -/
theorem M09_from_init (maxSeg : Nat) (seed : UInt32) (ops : List SOp)
    (hops : (XState.init maxSeg seed).SOpsOK ops) :
    (XState.init maxSeg seed).SRunOK KV.empty ops ∧
    ((XState.init maxSeg seed).srunOps ops).XInv ∧
    ((XState.init maxSeg seed).srunOps ops).st.abs = ops.foldl sSpecStep KV.empty := by
  obtain ⟨h1, h2, h3⟩ := M09_run ops _ (M09_init maxSeg seed) hops
  have he : (XState.init maxSeg seed).st.abs = KV.empty := (M01_init_wf maxSeg seed).2
  rw [he] at h1 h3
  exact ⟨h1, h2, h3⟩

/-- Corollaries of `M09_step` in words. A crash inside an append that did not complete loses exactly
the in-flight record; one that completed keeps it, although it was never acknowledged. -/
theorem M09_torn_not_applied (x : XState) (h : x.XInv) (seed : UInt32) (r : Rec) (hf : r.Fits) (n : Nat)
    (hn : n < r.encode.length) : (x.sstep (.crashTorn seed r n)).1.st.abs = x.st.abs := by
  have := (M09_step x h (.crashTorn seed r n) ⟨hf, Nat.le_of_lt hn⟩).2.2
  rw [this]
  show (if n = r.encode.length then _ else _) = _
  rw [if_neg (Nat.ne_of_lt hn)]

theorem M09_complete_applied (x : XState) (h : x.XInv) (seed : UInt32) (r : Rec) (hf : r.Fits) :
    (x.sstep (.crashTorn seed r r.encode.length)).1.st.abs =
      if r.del then x.st.abs.del r.key else x.st.abs.put r.key r.val := by
  have := (M09_step x h (.crashTorn seed r r.encode.length) ⟨hf, Nat.le_refl _⟩).2.2
  rw [this]
  show (if r.encode.length = r.encode.length then _ else _) = _
  rw [if_pos rfl]

/-! ### Non-vacuity: a concrete session

Put; begin the compaction of segment 0; the process dies INSIDE the append of a record for key `[2]`
in the middle of the compaction (7 of its 12 bytes written); recovery; Put; clean restart; three Gets.
The second session dies with all 12 bytes of the record written. -/

instance : (op : MOp) → Decidable (MOpOK op)
  | .del k => inferInstanceAs (Decidable (k.length ≤ maxKeyLength))
  | .put _ _ | .get _ | .has _ | .count | .reopen | .recover _ | .compact _ => isTrue trivial

instance (st : MState) : (op : MOp) → Decidable (st.CompactOK op)
  | .compact id => inferInstanceAs (Decidable (∀ s ∈ st.segs, s.id = id →
      (MState.hasDelete s = false ∨ ∀ o ∈ st.segs, s.seq ≤ o.seq)))
  | .put _ _ | .del _ | .get _ | .has _ | .count | .reopen | .recover _ => isTrue trivial

instance (x : XState) : (op : XOp) → Decidable (x.OpOK op)
  | .user op => inferInstanceAs (Decidable (MOpOK op))
  | .cbegin id => inferInstanceAs (Decidable (x.st.CompactOK (.compact id)))
  | .crecord | .cend => isTrue trivial

instance (x : XState) : (op : SOp) → Decidable (x.SOpOK op)
  | .x op => inferInstanceAs (Decidable (x.OpOK op))
  | .restart => inferInstanceAs (Decidable (x.comp = none))
  | .crash _ => isTrue trivial
  | .crashTorn _ r n => inferInstanceAs (Decidable (r.Fits ∧ n ≤ r.encode.length))

instance : (ops : List SOp) → (x : XState) → Decidable (x.SOpsOK ops)
  | [], _ => isTrue trivial
  | op :: ops, x =>
    have := instDecidableSOpsOK ops (x.sstep op).1
    inferInstanceAs (Decidable (x.SOpOK op ∧ XState.SOpsOK (x.sstep op).1 ops))

/-- The `get` outputs of a session. -/
def M09_gets (x : XState) : List SOp → List (Option Bytes)
  | [] => []
  | op :: ops => (match (x.sstep op).2 with | .val v => [v] | _ => []) ++ M09_gets (x.sstep op).1 ops

def M09_session (n : Nat) : List SOp :=
  [.x (.user (.put [1] [10])), .x (.cbegin 0), .crashTorn 5 ⟨false, [2], [20]⟩ n,
   .x (.user (.put [3] [30])), .restart,
   .x (.user (.get [1])), .x (.user (.get [2])), .x (.user (.get [3]))]

-- admissible; the record has 12 bytes
#eval (decide ((XState.init 4096 0).SOpsOK (M09_session 7)),
       decide ((XState.init 4096 0).SOpsOK (M09_session 12)), (Rec.encode ⟨false, [2], [20]⟩).length)
-- (true, true, 12)

-- the compaction is in progress when the crash hits; the torn tail is on disk before recovery
#eval (((XState.init 4096 0).srunOps ((M09_session 7).take 2)).comp.isSome,
       (((XState.init 4096 0).srunOps ((M09_session 7).take 2)).st.writePartial
          (Rec.encode ⟨false, [2], [20]⟩) 7).segs.map fun s => (s.id, s.seq, s.data.length, s.full))
-- (true, [(0, 1, 12, true), (1, 2, 7, false)])

#eval M09_gets (XState.init 4096 0) (M09_session 7)      -- [some [10], none, some [30]]       not applied
#eval M09_gets (XState.init 4096 0) (M09_session 12)     -- [some [10], some [20], some [30]]  applied

/-- Both sessions are admissible (checked by the kernel), so by `M09_from_init` every output of theirs
is the specification's: `M09_from_init` is not vacuous. -/
example : (XState.init 4096 0).SRunOK KV.empty (M09_session 7) :=
  (M09_from_init _ _ _ (by decide +kernel)).1

example : (XState.init 4096 0).SRunOK KV.empty (M09_session 12) :=
  (M09_from_init _ _ _ (by decide +kernel)).1

/-- ... and the specification's contents at the Gets are the values printed above. -/
example : (fun m : KV Bytes Bytes => (m [1], m [2], m [3])) ((M09_session 7).foldl sSpecStep KV.empty)
    = (some [10], none, some [30]) := by
  simp [M09_session, sSpecStep, xSpecStep, isUserOp, mSpecStep, KV.put, KV.empty, maxKeyLength,
    maxValueLength]

example : (fun m : KV Bytes Bytes => (m [1], m [2], m [3])) ((M09_session 12).foldl sSpecStep KV.empty)
    = (some [10], some [20], some [30]) := by
  simp [M09_session, sSpecStep, xSpecStep, isUserOp, mSpecStep, KV.put, maxKeyLength, maxValueLength]

end Pogreb
