/-
  C12 — backup is a consistent point-in-time copy.
  At the snapshot section (one shared critical section) Backup records the segment list and the
  size of every non-full segment; afterwards, with compaction excluded (maintenanceMu), writers only
  append to non-full segments and create new ones. Backup then copies: a full segment whole, a
  non-full one up to the recorded size; new segments are not in the list.
-/
import Pogreb.SegFS
import Pogreb.Lemmas.SegFS
namespace Pogreb

structure BSeg where
  seq   : Nat
  bytes : Bytes
  full  : Bool
  deriving Repr

/-- How the directory may evolve while Backup holds maintenanceMu: full segments are immutable,
others only grow, nothing is removed, new segments may appear (at the end). -/
def Evolves : List BSeg → List BSeg → Prop
  | [], _ => True
  | s :: ss, t :: ts => t.seq = s.seq ∧ (if s.full then t.bytes = s.bytes else ∃ more, t.bytes = s.bytes ++ more) ∧ Evolves ss ts
  | _ :: _, [] => False

/-- What Backup copies given the snapshot and the directory at copy time. -/
def backupCopy : List BSeg → List BSeg → SegFS
  | [], _ => []
  | s :: ss, t :: ts => ⟨s.seq, if s.full then t.bytes else t.bytes.take s.bytes.length⟩ :: backupCopy ss ts
  | _ :: _, [] => []

-- THEOREMS TO PROVE (statements fixed) ------------------------------------------------------

/-- **Point in time**: whatever writers did after the snapshot section, the copied files are exactly
the segment files as of the snapshot; so the backup opens (by recovery, C03) to the contents at that
instant: every write acknowledged before it is included, none issued after it is, none is torn. -/
theorem C12_backup_is_snapshot (snap later : List BSeg) (h : Evolves snap later) :
    backupCopy snap later = snap.map fun s => ⟨s.seq, s.bytes⟩ := by
  induction snap generalizing later with
  | nil => simp [backupCopy]
  | cons s ss ih =>
    cases later with
    | nil => exact absurd h (by simp [Evolves])
    | cons t ts =>
      obtain ⟨_, hb, hrest⟩ := h
      simp only [backupCopy, List.map_cons, ih ts hrest]
      congr 2
      cases hf : s.full
      · rw [hf] at hb
        obtain ⟨more, hm⟩ := hb
        simp [hm]
      · rw [hf] at hb
        simpa using hb

/-- Non-vacuity of `C12_backup_is_snapshot`: a snapshot with one full and one non-full segment; later
the non-full one grew and a new segment appeared. The hypothesis holds and the copy is the snapshot. -/
example :
    let snap : List BSeg := [⟨1, [1, 2, 3], true⟩, ⟨2, [4, 5], false⟩]
    let later : List BSeg := [⟨1, [1, 2, 3], true⟩, ⟨2, [4, 5, 6, 7], false⟩, ⟨3, [8], false⟩]
    Evolves snap later ∧ backupCopy snap later = [⟨1, [1, 2, 3]⟩, ⟨2, [4, 5]⟩] ∧ later.length ≠ snap.length := by
  refine ⟨⟨rfl, rfl, rfl, ⟨[6, 7], rfl⟩, trivial⟩, ?_, by decide⟩
  exact C12_backup_is_snapshot _ _ ⟨rfl, rfl, rfl, ⟨[6, 7], rfl⟩, trivial⟩

theorem C12_backup_contents (snap later : List BSeg) (h : Evolves snap later) :
    recovered (backupCopy snap later) = recovered (snap.map fun s => ⟨s.seq, s.bytes⟩) := by
  rw [C12_backup_is_snapshot snap later h]

/-- The snapshot must be a private copy of the table: copying "whatever is in the table now" for a
segment that did not exist at the snapshot includes later writes without earlier ones. -/
theorem C12_needs_private_list :
    ∃ (snap later : List BSeg), Evolves snap later ∧
      recovered (later.map fun s => ⟨s.seq, s.bytes⟩) ≠ recovered (backupCopy snap later) := by
  have hf : ∀ r ∈ [(⟨false, [1], [2]⟩ : Rec)], r.Fits := by
    intro r hr
    simp only [List.mem_singleton] at hr
    subst hr
    exact ⟨by decide, by decide⟩
  refine ⟨[], [⟨1, encodeAll [⟨false, [1], [2]⟩], false⟩], trivial, ?_⟩
  intro heq
  have h1 := congrFun heq [1]
  simp only [List.map_cons, List.map_nil, backupCopy, recovered, recoverLog, List.flatMap_cons,
    List.flatMap_nil, List.append_nil, ents_of_clean 1 _ hf] at h1
  simp [contents, lastRec, lastOf, Rec.toEnt] at h1

end Pogreb
