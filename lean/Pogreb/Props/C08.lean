/-
  C08 — recovery replays exactly the valid record prefix of each segment.
  C19 — recovery cost is bounded by the data on disk, not by damaged length fields.
  C16 — size limits; every admissible size round-trips.
  Corollaries of the record codec theorems (`RecordThms`), stated at the level of what the
  recovering Open does with a segment file: `scan` of the bytes after the header.
-/
import Pogreb.SegFS
import Pogreb.Lemmas.SegFS
import Pogreb.Model
namespace Pogreb

/-- Total memory the reader requests while scanning `bs` (each accepted record's buffer plus the
buffer, if any, of the rejected one). -/
def scanAlloc (bs : Bytes) : Nat :=
  match h : decode bs with
  | .ok _ size =>
    if hs : size = 0 then 0 else size + scanAlloc (bs.drop size)
  | _ => decodeAlloc bs
termination_by bs.length
decreasing_by
  have := (decode_ok_size_le h).2
  have := (decode_ok_size_le h).1
  simp; omega

/-- The reader of the pinned tree allocated the claimed size before looking at the file length. -/
def pinnedDecodeAlloc (bs : Bytes) : Nat := if bs.length < 6 then 0 else claimedSize bs

-- helper -------------------------------------------------------------------------------------

theorem scanAlloc_ok {bs : Bytes} {r : Rec} {size : Nat} (h : decode bs = .ok r size) (hs : size ≠ 0) :
    scanAlloc bs = size + scanAlloc (bs.drop size) := by
  rw [scanAlloc]
  split
  · rename_i r' size' h'
    rw [h] at h'
    injection h' with h1 h2
    subst h1 h2
    rw [dif_neg hs]
  · rename_i hne
    exact absurd h (hne r size)

theorem scanAlloc_stop {bs : Bytes} (h : ∀ r s, decode bs ≠ .ok r s) : scanAlloc bs = decodeAlloc bs := by
  rw [scanAlloc]
  split
  · rename_i r' size' h'
    exact absurd h' (h r' size')
  · rfl

-- THEOREMS TO PROVE (statements fixed) ------------------------------------------------------

/-- Valid records followed by ANY tail: exactly the valid records are replayed first. -/
theorem C08_valid_prefix_replayed (rs : List Rec) (tail : Bytes) (hf : ∀ r ∈ rs, r.Fits) :
    ∃ more, (scan (encodeAll rs ++ tail)).1 = rs ++ more ∧ (scan tail).1 = more := by
  exact ⟨(scan tail).1, by rw [scan_encodeAll rs tail hf], rfl⟩

/-- Zeroes after the last record are discarded. -/
theorem C08_zero_tail (rs : List Rec) (n : Nat) (hf : ∀ r ∈ rs, r.Fits) :
    scan (encodeAll rs ++ zeros n) = (rs, (encodeAll rs).length) := by
  exact scan_zeros rs n hf

/-- A truncated record (any strict prefix of a record) is discarded. -/
theorem C08_truncated_tail (rs : List Rec) (r : Rec) (n : Nat) (hf : ∀ r ∈ rs, r.Fits) (hr : r.Fits)
    (hn : n < r.encode.length) :
    scan (encodeAll rs ++ r.encode.take n) = (rs, (encodeAll rs).length) := by
  exact scan_torn rs r n hf hr hn

/-- A record with one damaged byte (in particular one flipped bit) in its key, value or checksum is
rejected together with everything after it in that segment, even well-formed records. -/
theorem C08_damaged_record (rs : List Rec) (r : Rec) (hf : ∀ r ∈ rs, r.Fits) (hr : r.Fits)
    (p s : Bytes) (x y : UInt8) (rest : Bytes)
    (he : r.encode = p ++ x :: s) (hp : 6 ≤ p.length) (hxy : x ≠ y) :
    scan (encodeAll rs ++ (p ++ y :: s ++ rest)) = (rs, (encodeAll rs).length) := by
  rw [scan_encodeAll rs _ hf, scan_stop]
  · simp
  · intro r' s' h
    rw [decode_flip r hr p s x y rest he hp hxy] at h
    cases h

/-- Nothing is surfaced that is not in the file: the accepted records re-encode to the accepted
prefix of the file, byte for byte, and each fits the size limits of the format. -/
theorem C08_never_surfaces_unwritten (bs : Bytes) :
    encodeAll (scan bs).1 = bs.take (scan bs).2 ∧ (scan bs).2 ≤ bs.length ∧ ∀ r ∈ (scan bs).1, r.Fits := by
  exact ⟨scan_prefix bs, scan_len_le bs, scan_fits bs⟩

/-- Damage in one segment does not affect what is replayed from the others. -/
theorem C08_other_segments_unaffected (a b : SegFS) (f g : SegFile) :
    recoverLog (a ++ [f] ++ b) = recoverLog a ++ f.ents ++ recoverLog b ∧
    (f.ents = g.ents → recovered (a ++ [f] ++ b) = recovered (a ++ [g] ++ b)) := by
  have key : ∀ x : SegFile, recoverLog (a ++ [x] ++ b) = recoverLog a ++ x.ents ++ recoverLog b := by
    intro x
    rw [recoverLog_append, recoverLog_append, recoverLog_single]
  constructor
  · exact key f
  · intro h
    unfold recovered
    rw [key f, key g, h]

/-- The offset recovery truncates at is the end of the valid prefix; the truncated file is clean. -/
theorem C08_truncation_point (f : SegFile) :
    f.truncated.bytes = f.bytes.take (scan f.bytes).2 ∧ f.truncated.ents = f.ents ∧ f.truncated.Clean := by
  exact ⟨rfl, truncated_ents f, truncated_clean f⟩

/-! ### C19 -/

/-- The memory requested while scanning a segment never exceeds the segment's length, whatever the
length fields in damaged headers claim. -/
theorem C19_alloc_bounded_by_file (bs : Bytes) : scanAlloc bs ≤ bs.length := by
  generalize hn : bs.length = n
  induction n using Nat.strongRecOn generalizing bs with
  | _ n ih =>
    rcases decode_cases bs with ⟨r, s, h⟩ | h
    · obtain ⟨h10, hle⟩ := decode_ok_size_le h
      rw [scanAlloc_ok h (by omega)]
      have := ih (bs.drop s).length (by simp; omega) (bs.drop s) rfl
      simp at this
      omega
    · rw [scanAlloc_stop h]
      have := decodeAlloc_le bs
      omega

/-- One step: the buffer requested at any position is at most the rest of the file. -/
theorem C19_step_alloc_bounded (bs : Bytes) : decodeAlloc bs ≤ bs.length := by
  exact decodeAlloc_le bs

/-- The guard is necessary: without it a 6-byte header makes the reader request any size below
2^31 + 10 (the defect repaired in segment.go). -/
theorem C19_pinned_unbounded (n : Nat) (hn : n < 2 ^ 31) :
    pinnedDecodeAlloc (le16 0 ++ le32 n) = 10 + n := by
  have h1 : (le16 0 ++ le32 n).take 2 = le16 0 := take_append_len _ _ 2 (by simp)
  have h2 : ((le16 0 ++ le32 n).drop 2).take 4 = le32 n := by
    rw [drop_append_len _ _ 2 (by simp)]
    exact List.take_of_length_le (by simp)
  have h3 : rdLE (le32 n) = n := rdLE_leN_of_lt (by omega)
  have h4 : rdLE (le16 0) = 0 := rdLE_leN_of_lt (by omega)
  unfold pinnedDecodeAlloc claimedSize
  rw [if_neg (by simp), h1, h2, h3, h4, Nat.mod_eq_of_lt hn]

/-- The guard does not change what is accepted: a record is accepted iff it fits in the file. -/
theorem C19_guard_transparent (bs : Bytes) (r : Rec) (size : Nat) (h : decode bs = .ok r size) :
    decodeAlloc bs = size := by
  obtain ⟨h6, hsz, hle, _, _⟩ := decode_ok_elim h
  unfold decodeAlloc
  rw [if_neg (by omega), if_neg (by omega), hsz]

/-! ### C16 -/

/-- Every key of 0..65535 bytes with every value of 0..512 MiB round-trips byte-exactly through the
record format, whatever follows it in the file. -/
theorem C16_roundtrip (k v : Bytes) (hk : k.length ≤ maxKeyLength) (hv : v.length ≤ maxValueLength) (rest : Bytes) :
    decode ((Rec.mk false k v).encode ++ rest) = .ok ⟨false, k, v⟩ (10 + k.length + v.length) := by
  have hf : (Rec.mk false k v).Fits := by
    unfold maxKeyLength at hk; unfold maxValueLength at hv
    constructor <;> simp <;> omega
  have := decode_encode _ rest hf
  rw [this]; simp

/-- The slot fields do not truncate admissible sizes. -/
theorem C16_slot_fields_exact (k v : Bytes) (hk : k.length ≤ maxKeyLength) (hv : v.length ≤ maxValueLength) :
    k.length % 65536 = k.length ∧ v.length % 4294967296 = v.length := by
  unfold maxKeyLength at hk; unfold maxValueLength at hv
  constructor <;> apply Nat.mod_eq_of_lt <;> omega

/-- An over-long key or value is rejected before anything is touched: the state is unchanged. -/
theorem C16_put_rejects_atomically (st : MState) (k v : Bytes)
    (h : maxKeyLength < k.length ∨ maxValueLength < v.length) :
    (st.put k v).1 = st ∧ (st.put k v).2 ≠ .ok := by
  unfold MState.put
  by_cases hk : k.length > maxKeyLength
  · rw [if_pos hk]; simp
  · have hv : v.length > maxValueLength := by
      rcases h with h | h
      · exact absurd h hk
      · exact h
    rw [if_neg hk, if_pos hv]; simp

/-- An over-long key never matches a slot whose stored key is admissible (`ksz` is its true length):
Get/Has/Delete behave as for an absent key. -/
theorem C16_overlong_never_matches (st : MState) (k : Bytes) (sl : Slot) (hk : maxKeyLength < k.length)
    (hsl : sl.ksz ≤ maxKeyLength) : st.matchKey k sl = false := by
  unfold MState.matchKey
  have : (st.readKey sl == some k) = false := by
    apply beq_false_of_ne
    intro heq
    unfold MState.readKey MState.readAt at heq
    split at heq
    · cases heq
    · split at heq
      · cases heq
      · split at heq
        · injection heq with heq
          have := congrArg List.length heq
          simp at this
          omega
        · cases heq
  rw [this, Bool.and_false]

/-- An empty value is distinguishable from a missing key at the format level. -/
theorem C16_empty_value_is_a_value (k : Bytes) (hk : k.length ≤ maxKeyLength) :
    (scan (Rec.mk false k []).encode).1 = [⟨false, k, []⟩] := by
  have hf : (Rec.mk false k []).Fits := by
    unfold maxKeyLength at hk
    constructor <;> simp <;> omega
  have := scan_encodeAll' [⟨false, k, []⟩] (by intro r hr; simp at hr; subst hr; exact hf)
  simp at this
  rw [this]

end Pogreb
