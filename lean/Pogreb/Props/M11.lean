/-
  M11 — power failures ACROSS sessions on the executable model (C06 "… or an earlier recovery", C09).
  M08 models a power failure within ONE session. Here the machine is powered on again, `Open` runs
  recovery on the image, the session continues (writes, Sync, rollover, compaction) and the power fails
  AGAIN - any number of times. Recovery truncates the torn tail of a segment file, and that truncation
  is itself volatile until the file is synced: at the next failure the file may come back
    (a) with the OLD torn tail still there (nothing issued on the file since Open reached the disk), or
    (b) truncated and followed by an in-order prefix of the new appends.
  `QState` adds to M08's `PState` the ghost `stale`: the bytes a segment file has on disk while the
  truncation by recovery is still unsynced. The step function encodes the sync discipline of the
  repaired code (Sync, a write in sync-every-write mode, the sync before an unlink, the sync of the
  segment a rollover leaves, Close); the invariant `QInv` says that a stale file scans to exactly the
  records of the durable prefix, so recovering it gives the state as of the last Open.
-/
import Pogreb.Props.M08
import Pogreb.Props.M09
import Pogreb.Lemmas.PowerSessions
namespace Pogreb
open MState

structure QState where
  p     : PState
  stale : Nat → Option Bytes   -- segment id ↦ the bytes of the file on disk while a truncation by
                               -- recovery is still unsynced (the image bytes it had at Open)

inductive QOp where
  | p (op : POp)                            -- a step of M08: model step or DB.Sync
  | powerloss (img : SegFS) (seed : UInt32) -- the power fails, the disk holds `img`; Open recovers
  | restart                                 -- clean Close + Open

/-- Does the step fsync the current segment? `Sync`; a Put/Delete in sync-every-write mode; the unlink
step of a compaction (`cend`, fix F8). Exactly the cases in which `PState.step` makes everything
durable. (Inherited from `PState.step`: in sync-every-write mode a Put/Delete counts as syncing even when
it is rejected or finds no key and writes nothing. In that corner no acknowledged write is pending
either; a stale file then still recovers the contents as of Open, which are the current contents up to
copies made by a compaction.) -/
def syncsCur (syncMode : Bool) : POp → Bool
  | .sync => true
  | .x o => (syncMode && isWriteOp o) || isCendOp o

/-- `stale` after a step that does not fsync the current segment: kept for a segment that was and
still is the current one; a rollover syncs the segment it leaves (as `syn` in M08), so every other
segment has no pending truncation. -/
def staleKeep (cur cur' : Option Nat) (stale : Nat → Option Bytes) : Nat → Option Bytes := fun id =>
  if cur' = some id ∧ cur = some id then stale id else none

/-- `stale` right after recovery from the files of `st0`: a file longer than its validated prefix is
truncated by recovery, and keeps its bytes on disk until it is synced. -/
def staleAfter (st0 : MState) : Nat → Option Bytes := fun id =>
  match st0.seg? id with
  | some s => if (scan s.data).2 < s.data.length then some s.data else none
  | none => none

/-- A state right after Open: everything the model state holds is durable (as far as lengths go),
the contents are the synced contents, nothing written since. -/
def PState.durable (st : MState) : PState := ⟨⟨st, none⟩, fun id => segLen st id, st.abs, []⟩

/-- One step.
* `.p op`: the step of M08; `stale` is cleared when the step fsyncs the current segment, otherwise
  kept on the segment that stays current only.
* `.powerloss img seed`: the model state whose files are the image's (`withFiles`: directory operations
  are durable, so the image has exactly the files of the state) is recovered (`reopenRecover`: every
  file truncated to its validated prefix, replay with a new hash seed); durable lengths := the lengths
  of the validated prefixes; `stale` := the image bytes of every file that recovery had to truncate;
  the compaction in progress is forgotten.
* `.restart`: Close syncs everything, Open reopens cleanly: every file durable, no stale file. -/
def QState.step (syncMode : Bool) (q : QState) : QOp → QState
  | .p op =>
    ⟨q.p.step syncMode op,
     if syncsCur syncMode op then fun _ => none
     else staleKeep q.p.x.st.cur (q.p.step syncMode op).x.st.cur q.stale⟩
  | .powerloss img seed =>
    ⟨PState.durable ((q.p.x.st.withFiles img).reopenRecover seed), staleAfter (q.p.x.st.withFiles img)⟩
  | .restart => ⟨PState.durable q.p.x.st.reopenClean, fun _ => none⟩

/-- What a power failure may leave of the file of segment `s`: EITHER the stale bytes (if a truncation
by recovery is pending: nothing issued on the file since Open reached the disk) OR the truncated file
with an in-order prefix of the appends since, cut anywhere at or after its durable length (as in M08). -/
def QState.FileOK (q : QState) (s : MSeg) (bytes : Bytes) : Prop :=
  q.stale s.id = some bytes ∨
  ∃ cut, q.p.syn s.id ≤ cut ∧ cut ≤ s.data.length ∧ bytes = s.data.take cut

/-- An admissible power-loss image: the same files (directory operations are durable), each with an
admissible content. -/
def QState.ImageOf (q : QState) (img : SegFS) : Prop :=
  ∃ f : Nat → Bytes, (∀ s ∈ q.p.x.st.segs, q.FileOK s (f s.id)) ∧
    img = (MState.sortBySeq q.p.x.st.segs).map fun s => ⟨s.seq, f s.id⟩

/-- **The invariant.** M08's `PInv`; a truncation can be pending on the current segment only; and a
stale file scans to exactly the records of the current durable prefix `data.take (syn id)` of its
segment - so that recovering the stale file gives the state as of the last Open. -/
structure QState.QInv (q : QState) : Prop where
  pinv     : q.p.PInv
  staleCur : ∀ id b, q.stale id = some b → q.p.x.st.cur = some id
  staleOK  : ∀ s ∈ q.p.x.st.segs, ∀ b, q.stale s.id = some b →
               (scan b).1 = (scan (s.data.take (q.p.syn s.id))).1

def QState.init (maxSeg : Nat) (seed : UInt32) : QState := ⟨PState.init maxSeg seed, fun _ => none⟩

/-- Admissibility of a step: M08's for model steps; a power failure leaves an admissible image; a
clean restart as in M09 (no compaction in progress; the proof does not use it). -/
def QState.OpOK (q : QState) : QOp → Prop
  | .p op => q.p.OpOK op
  | .powerloss img _ => q.ImageOf img
  | .restart => q.p.x.comp = none

def QState.OpsOK (syncMode : Bool) : QState → List QOp → Prop
  | _, [] => True
  | q, op :: ops => q.OpOK op ∧ QState.OpsOK syncMode (q.step syncMode op) ops

def QState.runOps (syncMode : Bool) (q : QState) (ops : List QOp) : QState :=
  ops.foldl (fun q op => q.step syncMode op) q

-- helper ------------------------------------------------------------------------------------

/-- Right after Open (recovering or clean) the power-loss invariant of M08 holds. -/
theorem PState.durable_pinv (st : MState) (hx : (XState.mk st none).XInv) (ht : st.CurTop) :
    (PState.durable st).PInv :=
  PInv_of_durable ⟨st, none⟩ hx ht _ (fun _ hs => segLen_mem hx.wf2.1.ids hs) _ _ (fun _ => Or.inl rfl)

/-- A state without stale files satisfies the two clauses about them. -/
theorem QState.qinv_of_noStale (p : PState) (h : p.PInv) : (QState.mk p fun _ => none).QInv :=
  ⟨h, fun _ _ hb => (by cases hb), fun _ _ _ hb => (by cases hb)⟩

/-- In a non-current segment the image has the file itself. -/
theorem QState.fileOK_notCur (q : QState) (h : q.QInv) {s : MSeg} (hs : s ∈ q.p.x.st.segs)
    (hc : q.p.x.st.cur ≠ some s.id) {b : Bytes} (hb : q.FileOK s b) : b = s.data := by
  rcases hb with hb | ⟨cut, h1, h2, rfl⟩
  · exact absurd (h.staleCur _ _ hb) hc
  · have := h.pinv.onlyCur s hs hc
    have hcut : cut = s.data.length := by omega
    rw [hcut, List.take_length]

/-- **Stale images are minimal cuts.** Every admissible image (with stale files) replays exactly like
an image admissible in M08 (every file cut between its durable length and its length): a stale file
has the records of the durable prefix. -/
theorem QState.image_reduce (q : QState) (h : q.QInv) (img : SegFS) (himg : q.ImageOf img) :
    ∃ img', q.p.ImageOf img' ∧ recoverLog img' = recoverLog img := by
  obtain ⟨f, hf, rfl⟩ := himg
  have hids := h.pinv.xinv.wf2.1.ids
  obtain ⟨cut, hcut⟩ := exists_fun_of_forall_mem
    (fun s c => (q.p.syn s.id ≤ c ∧ c ≤ s.data.length) ∧ (scan (f s.id)).1 = (scan (s.data.take c)).1)
    q.p.x.st.segs hids (by
      intro s hs
      rcases hf s hs with hb | ⟨c, h1, h2, h3⟩
      · exact ⟨q.p.syn s.id, ⟨Nat.le_refl _, h.pinv.le_len s hs⟩, h.staleOK s hs _ hb⟩
      · exact ⟨c, ⟨h1, h2⟩, by rw [h3]⟩)
  refine ⟨_, ⟨cut, fun s hs => (hcut s hs).1, rfl⟩, ?_⟩
  rw [recoverLog_map, recoverLog_map]
  apply flatMap_congr'
  intro s hs
  have hs' := (sortBySeq_perm q.p.x.st.segs).mem_iff.1 hs
  show (scan (s.data.take (cut s.id))).1.map Rec.toEnt = (scan (f s.id)).1.map Rec.toEnt
  rw [(hcut s hs').2]

/-- With nothing stale and every file durable, the only admissible image is the files themselves. -/
theorem QState.imageOf_durable (q : QState) (hstale : ∀ id, q.stale id = none)
    (hsyn : ∀ s ∈ q.p.x.st.segs, q.p.syn s.id = s.data.length) (img : SegFS) (himg : q.ImageOf img) :
    img = q.p.x.st.files := by
  obtain ⟨f, hf, rfl⟩ := himg
  show _ = (sortBySeq q.p.x.st.segs).map fun s => (⟨s.seq, s.data⟩ : SegFile)
  apply List.map_congr_left
  intro s hs
  have hs' := (sortBySeq_perm q.p.x.st.segs).mem_iff.1 hs
  rcases hf s hs' with hb | ⟨c, h1, h2, h3⟩
  · rw [hstale] at hb; cases hb
  · have := hsyn s hs'
    have hc : c = s.data.length := by omega
    rw [h3, hc, List.take_length]

theorem QState.step_p (syncMode : Bool) (q : QState) (op : POp) :
    q.step syncMode (.p op) =
      ⟨q.p.step syncMode op,
       if syncsCur syncMode op then fun _ => none
       else staleKeep q.p.x.st.cur (q.p.step syncMode op).x.st.cur q.stale⟩ := rfl

theorem QState.step_powerloss (syncMode : Bool) (q : QState) (img : SegFS) (seed : UInt32) :
    q.step syncMode (.powerloss img seed) =
      ⟨PState.durable ((q.p.x.st.withFiles img).reopenRecover seed),
       staleAfter (q.p.x.st.withFiles img)⟩ := rfl

theorem staleAfter_some {st0 : MState} {id : Nat} {b : Bytes} (h : staleAfter st0 id = some b) :
    ∃ s ∈ st0.segs, s.id = id ∧ (scan s.data).2 < s.data.length ∧ b = s.data := by
  unfold staleAfter at h
  cases hseg : st0.seg? id with
  | none => rw [hseg] at h; cases h
  | some s =>
    rw [hseg] at h
    dsimp only at h
    obtain ⟨hs, hid⟩ := seg?_some hseg
    by_cases ht : (scan s.data).2 < s.data.length
    · rw [if_pos ht] at h
      exact ⟨s, hs, hid, ht, (Option.some.inj h).symm⟩
    · rw [if_neg ht] at h; cases h

/-- The invariant after a power failure and the recovery from an admissible image. -/
theorem QState.powerloss_qinv (syncMode : Bool) (q : QState) (h : q.QInv) (img : SegFS)
    (himg : q.ImageOf img) (seed : UInt32) : (q.step syncMode (.powerloss img seed)).QInv := by
  rw [QState.step_powerloss]
  obtain ⟨f, hf, rfl⟩ := himg
  have hids := h.pinv.xinv.wf2.1.ids
  have hseqs := h.pinv.xinv.curOrd.seqs
  have hsegs0 := withFiles_segs q.p.x.st hseqs f
  generalize q.p.x.st.withFiles ((sortBySeq q.p.x.st.segs).map fun s => ⟨s.seq, f s.id⟩) = st0 at hsegs0
  have hids0 : (st0.segs.map (·.id)).Nodup := by rw [hsegs0, map_setData_ids]; exact hids
  have hseqs0 : (st0.segs.map (·.seq)).Nodup := by rw [hsegs0, map_setData_seqs]; exact hseqs
  obtain ⟨hw, _⟩ := recover_any st0 hids0 hseqs0 seed
  have hx : (XState.mk (st0.reopenRecover seed) none).XInv := ⟨hw.x, fun _ hc => by cases hc⟩
  have ht := recover_curTop st0 hids0 seed
  have hidsR := hx.wf2.1.ids
  refine ⟨PState.durable_pinv _ hx ht, ?_, ?_⟩
  · -- only the file of the old current segment can be torn, and it is the newest: the new current one
    intro id b hb
    show (st0.reopenRecover seed).cur = some id
    obtain ⟨s0, hs0, hid0, htorn, _⟩ := staleAfter_some hb
    have hs0' := hs0
    rw [hsegs0] at hs0'
    obtain ⟨s, hs, rfl⟩ := List.mem_map.1 hs0'
    have hcur : q.p.x.st.cur = some s.id := by
      apply Classical.byContradiction
      intro hc
      have hd : f s.id = s.data := q.fileOK_notCur h hs hc (hf s hs)
      have hclean : (scan s.data).2 = s.data.length := h.pinv.xinv.wf2.2.2 s hs
      have htorn' : (scan (f s.id)).2 < (f s.id).length := htorn
      rw [hd] at htorn'
      omega
    have hnew := h.pinv.top.cur_newest s hs hcur
    obtain ⟨L, hL, hLmax, _, hLcur⟩ := recover_shape st0 hids0 seed (List.ne_nil_of_mem hs0)
    have hL' := hL
    rw [hsegs0] at hL'
    obtain ⟨L0, hL0, rfl⟩ := List.mem_map.1 hL'
    have h1 : (setData f s).seq ≤ (setData f L0).seq := hLmax _ hs0
    have h2 : L0.seq ≤ s.seq := hnew L0 hL0
    have hseq : (setData f L0).seq = (setData f s).seq := by
      simp only [setData_seq] at h1 ⊢; omega
    have hLs : setData f L0 = setData f s := nodup_map_inj hseqs0 hL hs0 hseq
    rw [hLcur, hLs, hid0]
  · -- the truncated file is its own durable prefix, and scans like the untruncated one
    intro s' hs' b hb
    show (scan b).1 = (scan (s'.data.take (segLen (st0.reopenRecover seed) s'.id))).1
    have hs'' : s' ∈ (st0.reopenRecover seed).segs := hs'
    obtain ⟨s0, hs0, hid0, _, rfl⟩ := staleAfter_some hb
    obtain ⟨L, _, _, hshape, _⟩ := recover_shape st0 hids0 seed (List.ne_nil_of_mem hs0)
    rw [segLen_mem hidsR hs'', List.take_length]
    rw [hshape] at hs''
    obtain ⟨a, ha, rfl⟩ := List.mem_map.1 hs''
    have hid : a.id = s0.id := by
      simp only [sealSeg_id, truncSeg_id] at hid0
      exact hid0.symm
    rw [eq_of_id hids0 ha hs0 hid]
    show _ = (scan (sealSeg (some L.id) (truncSeg (clearSeg s0))).data).1
    rw [sealSeg_data]
    exact (scan_trunc s0.data).symm

/-- The invariant after a clean restart. -/
theorem QState.restart_qinv (syncMode : Bool) (q : QState) (h : q.QInv) (hop : q.p.x.comp = none) :
    (q.step syncMode .restart).QInv := by
  apply QState.qinv_of_noStale
  apply PState.durable_pinv
  · exact (M09_step q.p.x h.pinv.xinv .restart hop).2.1
  · exact reopenClean_curTop h.pinv.top

/-- The invariant after a step of M08. -/
theorem QState.p_qinv (syncMode : Bool) (q : QState) (h : q.QInv) (op : POp) (hop : q.p.OpOK op) :
    (q.step syncMode (.p op)).QInv := by
  have hp' := M08_step syncMode q.p h.pinv op hop
  rw [QState.step_p]
  by_cases hsync : syncsCur syncMode op = true
  · rw [if_pos hsync]
    exact QState.qinv_of_noStale _ hp'
  · rw [if_neg hsync]
    refine ⟨hp', ?_, ?_⟩
    · intro id b hb
      show (q.p.step syncMode op).x.st.cur = some id
      unfold staleKeep at hb
      dsimp only at hb
      split at hb
      · rename_i hc; exact hc.1
      · cases hb
    · cases op with
      | sync => exact absurd rfl hsync
      | x o =>
        have hop1 : q.p.x.OpOK o := hop
        have hm : ¬ ((syncMode && isWriteOp o) || isCendOp o) = true := hsync
        obtain ⟨_, hx', _⟩ := M06_step q.p.x h.pinv.xinv o hop1
        have hids := h.pinv.xinv.wf2.1.ids
        have hids' := hx'.wf2.1.ids
        have hstep : q.p.step syncMode (.x o) =
            { x := (q.p.x.step o).1, syn := synOf q.p (q.p.x.step o).1, synAbs := q.p.synAbs,
              since := sinceOf q.p o } := by
          rw [PState.step_x_eq, if_neg hm]
        rw [hstep]
        -- the durable prefix of a segment that stays current does not change
        have key : ∀ s ∈ q.p.x.st.segs, ∀ s' ∈ (q.p.x.step o).1.st.segs, s'.id = s.id →
            q.p.x.st.cur = some s.id → (q.p.x.step o).1.st.cur = some s.id →
            (∃ t, s'.data = s.data ++ t) →
            s'.data.take (synOf q.p (q.p.x.step o).1 s'.id) = s.data.take (q.p.syn s.id) := by
          intro s hs s' hs' hid hc hc' ⟨t, ht⟩
          have hl : segLen (q.p.x.step o).1.st s'.id = s'.data.length := segLen_mem hids' hs'
          have hle := h.pinv.le_len s hs
          show s'.data.take (if (q.p.x.step o).1.st.cur = some s'.id then
              (if q.p.x.st.cur = some s'.id then min (q.p.syn s'.id) (segLen (q.p.x.step o).1.st s'.id)
               else 0) else segLen (q.p.x.step o).1.st s'.id) = _
          rw [hl, hid, if_pos hc', if_pos hc, ht, List.length_append,
            Nat.min_eq_left (by omega), List.take_append_of_le_length hle]
        intro s' hs' b hb
        have hs'' : s' ∈ (q.p.x.step o).1.st.segs := hs'
        show (scan b).1 = (scan (s'.data.take (synOf q.p (q.p.x.step o).1 s'.id))).1
        have hb' : (if (q.p.x.step o).1.st.cur = some s'.id ∧ q.p.x.st.cur = some s'.id
            then q.stale s'.id else none) = some b := hb
        by_cases hcc : (q.p.x.step o).1.st.cur = some s'.id ∧ q.p.x.st.cur = some s'.id
        · rw [if_pos hcc] at hb'
          obtain ⟨hc', hc⟩ := hcc
          rcases q.p.x.step_kind h.pinv.xinv o hop1 with hk | hk | ⟨he, _⟩
          · obtain ⟨g, hsegs, hid, _, hdata, _, _⟩ := hk
            rw [hsegs] at hs''
            obtain ⟨s, hs, rfl⟩ := List.mem_map.1 hs''
            rw [hid] at hb' hc hc'
            rw [key s hs (g s) hs' (hid s) hc hc' ⟨[], by rw [hdata, List.append_nil]⟩]
            exact h.staleOK s hs b hb'
          · obtain ⟨r, hf, hsegs, hcur⟩ := hk
            obtain ⟨_, _, _, W, hW, hWc, _, hcase⟩ :=
              write_target h.pinv.xinv.wf2 h.pinv.xinv.curOrd h.pinv.top r hf
            have hW' : W ∈ (q.p.x.step o).1.st.segs := by rw [hsegs]; exact hW
            have hsW : s' = W := by
              apply eq_of_id hids' hs'' hW'
              rw [hcur, hWc] at hc'
              exact (Option.some.inj hc').symm
            rw [hsW] at hb' hc hc' ⊢
            rcases hcase with ⟨_, S, hS, hSid, hWd⟩ | ⟨hne, _⟩
            · rw [← hSid] at hb' hc hc'
              rw [key S hS W hW' hSid.symm hc hc' ⟨r.encode, hWd⟩]
              exact h.staleOK S hS b hb'
            · exact absurd hc hne
          · exfalso
            apply hm
            rw [he]
            show (_ || true) = true
            exact Bool.or_true _
        · rw [if_neg hcc] at hb'; cases hb'

-- THEOREMS ------------------------------------------------------------------------------------------

theorem M11_init (maxSeg : Nat) (seed : UInt32) : (QState.init maxSeg seed).QInv :=
  QState.qinv_of_noStale _ (M08_init maxSeg seed)

/-- **One step keeps the invariant**: a step of M08 (user operation, compaction step, Sync), a power
failure with ANY admissible image followed by recovery, a clean restart. -/
theorem M11_step (syncMode : Bool) (q : QState) (h : q.QInv) (op : QOp) (hop : q.OpOK op) :
    (q.step syncMode op).QInv := by
  cases op with
  | p o => exact QState.p_qinv syncMode q h o hop
  | powerloss img seed => exact QState.powerloss_qinv syncMode q h img hop seed
  | restart => exact QState.restart_qinv syncMode q h hop

/-- **The invariant holds along every admissible run**: sessions of M08 steps separated by any number
of power failures (each with any admissible image, possibly a stale one) and clean restarts. -/
theorem M11_run (syncMode : Bool) (ops : List QOp) (q : QState) (h : q.QInv)
    (hops : q.OpsOK syncMode ops) : (q.runOps syncMode ops).QInv := by
  induction ops generalizing q with
  | nil => exact h
  | cons op rest ih => exact ih _ (M11_step syncMode q h op hops.1) hops.2

/-- From the empty database, for every segment size. -/
theorem M11_from_init (syncMode : Bool) (maxSeg : Nat) (seed : UInt32) (ops : List QOp)
    (hops : (QState.init maxSeg seed).OpsOK syncMode ops) :
    ((QState.init maxSeg seed).runOps syncMode ops).QInv :=
  M11_run syncMode ops _ (M11_init maxSeg seed) hops

/-- **Power loss at any instant, after ANY number of earlier power failures and recoveries**: for every
admissible image - including the one in which the truncation made by the last recovery never reached
the disk - every key holds its value as of the last completed Sync (or the last Open) or a value
written (or a deletion made) after it. -/
theorem M11_powerloss (q : QState) (h : q.QInv) (img : SegFS) (himg : q.ImageOf img) (k : Bytes) :
    AdmV q.p.synAbs q.p.since k (recovered img k) := by
  obtain ⟨img', himg', heq⟩ := q.image_reduce h img himg
  have := M08_powerloss q.p h.pinv img' himg' k
  unfold recovered at this ⊢
  rw [heq] at this
  exact this

/-- Right after a Sync, in sync-every-write mode, after Close, right after Open: nothing acknowledged
can be lost. -/
theorem M11_synced_exact (q : QState) (h : q.QInv) (hs : q.p.since = []) (img : SegFS)
    (himg : q.ImageOf img) : ∀ k, recovered img k = q.p.x.st.abs k := by
  intro k
  obtain ⟨img', himg', heq⟩ := q.image_reduce h img himg
  have := M08_synced_exact q.p h.pinv hs img' himg'
  rw [← this]
  unfold recovered
  rw [heq]

/-- The state after a power failure holds exactly what recovery reads from the image (ties the step
to M02 and to `recovered`, the function of the crash theorems). -/
theorem M11_powerloss_contents (syncMode : Bool) (q : QState) (h : q.QInv) (img : SegFS)
    (himg : q.ImageOf img) (seed : UInt32) :
    ∀ k, (q.step syncMode (.powerloss img seed)).p.x.st.abs k = recovered img k := by
  intro k
  obtain ⟨f, _, rfl⟩ := himg
  show ((q.p.x.st.withFiles _).reopenRecover seed).abs k = _
  have hids := h.pinv.xinv.wf2.1.ids
  have hseqs := h.pinv.xinv.curOrd.seqs
  have hsegs0 := withFiles_segs q.p.x.st hseqs f
  have hids0 : ((q.p.x.st.withFiles ((sortBySeq q.p.x.st.segs).map fun s => ⟨s.seq, f s.id⟩)).segs.map
      (·.id)).Nodup := by rw [hsegs0, map_setData_ids]; exact hids
  rw [(M02_recover_refines _ hids0 seed).2, files_eq, hsegs0, filesOf_setData]

/-- The ghosts after a power failure: the recovered contents are the synced contents, nothing has been
written since. -/
theorem M11_powerloss_ghosts (syncMode : Bool) (q : QState) (img : SegFS) (seed : UInt32) :
    (q.step syncMode (.powerloss img seed)).p.synAbs = (q.step syncMode (.powerloss img seed)).p.x.st.abs ∧
    (q.step syncMode (.powerloss img seed)).p.since = [] ∧
    (q.step syncMode (.powerloss img seed)).p.x.comp = none := ⟨rfl, rfl, rfl⟩

/-- Both together: the contents the next session starts with are admissible for the session that was
interrupted; they are the baseline (`synAbs`) of the next session. -/
theorem M11_powerloss_step (syncMode : Bool) (q : QState) (h : q.QInv) (img : SegFS)
    (himg : q.ImageOf img) (seed : UInt32) (k : Bytes) :
    AdmV q.p.synAbs q.p.since k ((q.step syncMode (.powerloss img seed)).p.synAbs k) := by
  rw [(M11_powerloss_ghosts syncMode q img seed).1, M11_powerloss_contents syncMode q h img himg seed k]
  exact M11_powerloss q h img himg k

/-- **Refill after a torn tail.** A power failure leaves a torn tail; recovery truncates it; the session
continues with any admissible steps (in particular: new records of total length EXACTLY the length of
the torn tail are appended, so that the file is as long as the stale one); Sync. Sync always fsyncs,
so afterwards no truncation is pending, every file is durable, the ONLY admissible image is the files
themselves, and a second power failure loses nothing. -/
theorem M11_refill_after_torn (syncMode : Bool) (q : QState) (h : q.QInv) (img : SegFS)
    (himg : q.ImageOf img) (seed : UInt32) (ops : List QOp)
    (hops : (q.step syncMode (.powerloss img seed)).OpsOK syncMode ops) :
    let q' := ((q.step syncMode (.powerloss img seed)).runOps syncMode ops).step syncMode (.p .sync)
    (∀ id, q'.stale id = none) ∧
    (∀ s ∈ q'.p.x.st.segs, q'.p.syn s.id = s.data.length) ∧
    ∀ img', q'.ImageOf img' → img' = q'.p.x.st.files ∧ ∀ k, recovered img' k = q'.p.x.st.abs k := by
  intro q'
  have h1 := M11_step syncMode q h (.powerloss img seed) himg
  have h2 := M11_run syncMode ops _ h1 hops
  have h3 : q'.QInv := M11_step syncMode _ h2 (.p .sync) trivial
  have hstale : ∀ id, q'.stale id = none := fun _ => rfl
  have hsyn : ∀ s ∈ q'.p.x.st.segs, q'.p.syn s.id = s.data.length :=
    fun s hs => segLen_mem h2.pinv.xinv.wf2.1.ids hs
  refine ⟨hstale, hsyn, ?_⟩
  intro img' himg'
  exact ⟨q'.imageOf_durable hstale hsyn img' himg', M11_synced_exact q' h3 rfl img' himg'⟩

/-! ### Non-vacuity: scripted runs

A power-loss image depends on the state it is taken in, so runs are written as scripts: a power
failure is given by a cut per segment id and the choice, per segment id, to keep the stale file (if
there is one). `QState.script` turns a script into the list of `QOp`s; `script_opsOK` shows that the
decidable `CmdsOK` implies `OpsOK`, so `M11_from_init` applies to every script below. -/

/-- The bytes of the file of segment `id` in the image given by `cut` and `old`. -/
def QState.pick (q : QState) (cut : Nat → Nat) (old : Nat → Bool) (id : Nat) : Bytes :=
  match old id, q.stale id with
  | true, some b => b
  | _, _ =>
    match q.p.x.st.seg? id with
    | some s => s.data.take (cut id)
    | none => []

def QState.mkImage (q : QState) (cut : Nat → Nat) (old : Nat → Bool) : SegFS :=
  (MState.sortBySeq q.p.x.st.segs).map fun s => ⟨s.seq, q.pick cut old s.id⟩

theorem QState.mkImage_imageOf (q : QState) (hids : (q.p.x.st.segs.map (·.id)).Nodup)
    (cut : Nat → Nat) (old : Nat → Bool)
    (hcut : ∀ s ∈ q.p.x.st.segs, q.p.syn s.id ≤ cut s.id ∧ cut s.id ≤ s.data.length) :
    q.ImageOf (q.mkImage cut old) := by
  refine ⟨q.pick cut old, ?_, rfl⟩
  intro s hs
  have hcutR : q.FileOK s (s.data.take (cut s.id)) := Or.inr ⟨cut s.id, (hcut s hs).1, (hcut s hs).2, rfl⟩
  unfold QState.pick
  rw [seg?_of_mem hids hs]
  cases old s.id with
  | false => exact hcutR
  | true =>
    cases hst : q.stale s.id with
    | none => exact hcutR
    | some b => exact Or.inl hst

inductive QCmd where
  | p (op : POp)
  | loss (cut : Nat → Nat) (old : Nat → Bool) (seed : UInt32)
  | restart

def QState.toOp (q : QState) : QCmd → QOp
  | .p op => .p op
  | .loss cut old seed => .powerloss (q.mkImage cut old) seed
  | .restart => .restart

def QState.script (syncMode : Bool) : QState → List QCmd → List QOp
  | _, [] => []
  | q, c :: cs => q.toOp c :: QState.script syncMode (q.step syncMode (q.toOp c)) cs

def QState.runScript (syncMode : Bool) (q : QState) (cs : List QCmd) : QState :=
  q.runOps syncMode (q.script syncMode cs)

def QState.CmdOK (q : QState) : QCmd → Prop
  | .p op => q.p.OpOK op
  | .loss cut _ _ => ∀ s ∈ q.p.x.st.segs, q.p.syn s.id ≤ cut s.id ∧ cut s.id ≤ s.data.length
  | .restart => q.p.x.comp = none

def QState.CmdsOK (syncMode : Bool) : QState → List QCmd → Prop
  | _, [] => True
  | q, c :: cs => q.CmdOK c ∧ QState.CmdsOK syncMode (q.step syncMode (q.toOp c)) cs

theorem QState.cmd_opOK (q : QState) (h : q.QInv) (c : QCmd) (hc : q.CmdOK c) : q.OpOK (q.toOp c) := by
  cases c with
  | p op => exact hc
  | loss cut old seed => exact q.mkImage_imageOf h.pinv.xinv.wf2.1.ids cut old hc
  | restart => exact hc

theorem QState.script_opsOK (syncMode : Bool) (cs : List QCmd) (q : QState) (h : q.QInv)
    (hcs : q.CmdsOK syncMode cs) : q.OpsOK syncMode (q.script syncMode cs) := by
  induction cs generalizing q with
  | nil => trivial
  | cons c cs ih =>
    have hop := q.cmd_opOK h c hcs.1
    exact ⟨hop, ih _ (M11_step syncMode q h _ hop) hcs.2⟩

instance (p : PState) : (op : POp) → Decidable (p.OpOK op)
  | .sync => isTrue trivial
  | .x op => inferInstanceAs (Decidable (p.x.OpOK op))

instance (q : QState) : (c : QCmd) → Decidable (q.CmdOK c)
  | .p op => inferInstanceAs (Decidable (q.p.OpOK op))
  | .loss cut _ _ => inferInstanceAs (Decidable (∀ s ∈ q.p.x.st.segs,
      q.p.syn s.id ≤ cut s.id ∧ cut s.id ≤ s.data.length))
  | .restart => inferInstanceAs (Decidable (q.p.x.comp = none))

instance (syncMode : Bool) : (cs : List QCmd) → (q : QState) → Decidable (q.CmdsOK syncMode cs)
  | [], _ => isTrue trivial
  | c :: cs, q =>
    have := instDecidableCmdsOK syncMode cs (q.step syncMode (q.toOp c))
    inferInstanceAs (Decidable (q.CmdOK c ∧ QState.CmdsOK syncMode (q.step syncMode (q.toOp c)) cs))

/-- (id, seq, data length, durable length, length of the stale file) of every segment. -/
def QState.view (q : QState) : List (Nat × Nat × Nat × Nat × Option Nat) :=
  q.p.x.st.segs.map fun s => (s.id, s.seq, s.data.length, q.p.syn s.id, (q.stale s.id).map (·.length))

def QState.gets (q : QState) (ks : List Bytes) : List (Option Bytes) := ks.map q.p.x.st.get

/-- Put [1]; Sync; Put [2] (13 bytes, unsynced); POWER LOSS with segment 0 cut at 24 of its 25 bytes
(a torn tail of 12 bytes); recovery truncates to 12 bytes; Put [3] (12 bytes: the file is again 24
bytes long); POWER LOSS AGAIN. `old`: does the second failure bring back the STALE file (the
truncation never reached the disk) or the new one? -/
def M11_script (old : Bool) : List QCmd :=
  [.p (.x (.user (.put [1] [10]))), .p .sync, .p (.x (.user (.put [2] [20, 21]))),
   .loss (fun _ => 24) (fun _ => false) 7,
   .p (.x (.user (.put [3] [30]))),
   .loss (fun _ => if old then 12 else 24) (fun _ => old) 9]

-- before the first failure: 25 bytes, 12 durable
#eval ((QState.init 4096 0).runScript false ((M11_script true).take 3)).view
-- [(0, 1, 25, 12, none)]

-- after the first failure and recovery: truncated to 12 bytes, the 24 stale bytes are still on disk
#eval (((QState.init 4096 0).runScript false ((M11_script true).take 4)).view,
       ((QState.init 4096 0).runScript false ((M11_script true).take 4)).gets [[1], [2], [3]])
-- ([(0, 1, 12, 12, some 24)], [some [10], none, none])

-- after Put [3]: the file is 24 bytes long again, 12 durable, the stale file is a DIFFERENT 24 bytes
#eval (((QState.init 4096 0).runScript false ((M11_script true).take 5)).view,
       ((QState.init 4096 0).runScript false ((M11_script true).take 5)).gets [[1], [2], [3]],
       ((QState.init 4096 0).runScript false ((M11_script true).take 5)).stale 0 ==
         (((QState.init 4096 0).runScript false ((M11_script true).take 5)).p.x.st.segs.map (·.data)).head?)
-- ([(0, 1, 24, 12, some 24)], [some [10], none, some [30]], false)

-- second failure with the STALE image: back to the state as of the last Open; still stale
#eval (((QState.init 4096 0).runScript false (M11_script true)).view,
       ((QState.init 4096 0).runScript false (M11_script true)).gets [[1], [2], [3]])
-- ([(0, 1, 12, 12, some 24)], [some [10], none, none])

-- second failure with the truncation and the new append on disk: nothing stale any more
#eval (((QState.init 4096 0).runScript false (M11_script false)).view,
       ((QState.init 4096 0).runScript false (M11_script false)).gets [[1], [2], [3]])
-- ([(0, 1, 24, 24, none)], [some [10], none, some [30]])

-- both scripts are admissible
#eval (decide ((QState.init 4096 0).CmdsOK false (M11_script true)),
       decide ((QState.init 4096 0).CmdsOK false (M11_script false)))
-- (true, true)

/-- Both runs are admissible (checked by the kernel), so `M11_from_init` applies to them: the theorems
above are not vacuous, and their hypotheses hold in states WITH a stale file. -/
example (old : Bool) : ((QState.init 4096 0).runScript false (M11_script old)).QInv :=
  M11_from_init _ _ _ _ (QState.script_opsOK _ _ _ (M11_init _ _)
    (by cases old <;> decide +kernel))

/-- In the state after Put [3] a truncation is pending (`stale 0` is present). -/
example : (((QState.init 4096 0).runScript false ((M11_script true).take 5)).stale 0).isSome = true := by
  decide +kernel

/-! ### The refill scenario (the one the seeded mutations exploit)

As above, but a Sync follows the refill. The file (24 bytes) is exactly as long as the stale file (24
bytes). `QState.step` clears `stale` at Sync - the real Sync always fsyncs, it does not skip a file
whose length equals the length it had at the last sync - so the stale file is NOT an admissible image
any more (`M11_refill_after_torn`): -/

def M11_refill : List QCmd :=
  [.p (.x (.user (.put [1] [10]))), .p .sync, .p (.x (.user (.put [2] [20, 21]))),
   .loss (fun _ => 24) (fun _ => false) 7,
   .p (.x (.user (.put [3] [30]))), .p .sync]

#eval (((QState.init 4096 0).runScript false M11_refill).view,
       ((QState.init 4096 0).runScript false M11_refill).gets [[1], [2], [3]])
-- ([(0, 1, 24, 24, none)], [some [10], none, some [30]])

/-- What a Sync that did NOT fsync (because the length is "unchanged") would allow: the stale file of the
state before the Sync as the image. It recovers WITHOUT key [3], which was written before a completed
Sync. This is why `.p .sync` must clear `stale` (and why the real Sync must fsync unconditionally). -/
def M11_refill_staleImage : SegFS :=
  ((QState.init 4096 0).runScript false (M11_refill.take 5)).mkImage (fun _ => 12) (fun _ => true)

#eval (M11_refill_staleImage.map fun f => (f.seq, f.bytes.length),
       recovered M11_refill_staleImage [3],
       ((QState.init 4096 0).runScript false M11_refill).p.synAbs [3])
-- ([(1, 24)], none, some [30])

/-- ... the loss, checked by the kernel. -/
example : recovered M11_refill_staleImage [3] = none := by decide +kernel

/-- The refill run, concretely: after the Sync every admissible image is the files themselves and
loses nothing. -/
example (img : SegFS) (himg : ((QState.init 4096 0).runScript false M11_refill).ImageOf img) :
    img = ((QState.init 4096 0).runScript false M11_refill).p.x.st.files ∧
    ∀ k, recovered img k = ((QState.init 4096 0).runScript false M11_refill).p.x.st.abs k := by
  have hq : ((QState.init 4096 0).runScript false M11_refill).QInv :=
    M11_from_init _ _ _ _ (QState.script_opsOK _ _ _ (M11_init _ _) (by decide +kernel))
  have hstale : ∀ id, ((QState.init 4096 0).runScript false M11_refill).stale id = none := fun _ => rfl
  have hsyn : ∀ s ∈ ((QState.init 4096 0).runScript false M11_refill).p.x.st.segs,
      ((QState.init 4096 0).runScript false M11_refill).p.syn s.id = s.data.length := by decide +kernel
  exact ⟨QState.imageOf_durable _ hstale hsyn img himg, M11_synced_exact _ hq rfl img himg⟩

/-! ### A longer run: rollover, compaction and a clean restart between power failures

Segments of 28 data bytes (two 12-byte records). Put [1]; Sync; Put [2]; POWER LOSS (segment 0 cut at 20
of 24 bytes); Put [3]; Put [4] rolls over: segment 0 is synced when the log leaves it, so its pending
truncation is gone; POWER LOSS (segment 1 cut at 5 of 12 bytes); compaction of segment 0 into the
current segment 1 (`cend` syncs it before the unlink: nothing stale); clean restart; Put [5]; POWER LOSS
with the unsynced Put cut in the middle. -/

def M11_script2 : List QCmd :=
  [.p (.x (.user (.put [1] [10]))), .p .sync, .p (.x (.user (.put [2] [20]))),
   .loss (fun _ => 20) (fun _ => false) 7,
   .p (.x (.user (.put [3] [30]))), .p (.x (.user (.put [4] [40]))),
   .loss (fun id => if id = 0 then 24 else 5) (fun _ => true) 8,
   .p (.x (.cbegin 0)), .p (.x .crecord), .p (.x .crecord), .p (.x .cend),
   .restart,
   .p (.x (.user (.put [5] [50]))),
   .loss (fun id => if id = 0 then 5 else 24) (fun _ => true) 9]

#eval (List.range 15).map fun n => ((QState.init 540 0).runScript false (M11_script2.take n)).view
/- [[(0, 1, 0, 0, none)], [(0, 1, 12, 0, none)], [(0, 1, 12, 12, none)], [(0, 1, 24, 12, none)],
    [(0, 1, 12, 12, some 20)],                               -- first failure: torn tail truncated, pending
    [(0, 1, 24, 12, some 20)],
    [(0, 1, 24, 24, none), (1, 2, 12, 0, none)],             -- rollover: segment 0 synced
    [(0, 1, 24, 24, none), (1, 2, 0, 0, some 5)],            -- second failure: segment 1 torn
    [(0, 1, 24, 24, none), (1, 2, 0, 0, some 5)], [(0, 1, 24, 24, none), (1, 2, 12, 0, some 5)],
    [(0, 1, 24, 24, none), (1, 2, 24, 0, some 5)],
    [(1, 2, 24, 24, none)],                                  -- `cend`: synced, segment 0 unlinked
    [(1, 2, 24, 24, none)],                                  -- clean restart
    [(0, 3, 12, 0, none), (1, 2, 24, 24, none)],             -- Put [5] rolls over into a new segment (id 0 reused)
    [(0, 3, 0, 0, some 5), (1, 2, 24, 24, none)]] -/         -- third failure

#eval (decide ((QState.init 540 0).CmdsOK false M11_script2),
       ((QState.init 540 0).runScript false M11_script2).gets [[1], [2], [3], [4], [5]])
-- (true, [some [10], none, some [30], none, none])

/-- The run up to the unlink step of the compaction is admissible, checked by the kernel (the whole
script is checked by the `#eval` above only: evaluating the compaction inside the kernel takes tens of
minutes), so `M11_from_init` applies: two power failures with a rollover between them. -/
example : ((QState.init 540 0).runScript false (M11_script2.take 11)).QInv :=
  M11_from_init _ _ _ _ (QState.script_opsOK _ _ _ (M11_init _ _) (by decide +kernel))

end Pogreb
