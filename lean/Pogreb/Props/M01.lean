/-
  M01 — the EXECUTABLE model (`MState`, the one the driver runs in lockstep with the
  implementation) refines the specification map: closes the gap between the abstract index
  theory (`IState`, Props/C01) and the concrete model with byte-string segments, rollover and
  key comparison through the log. Supports C01/C02/C16 (not a property of its own).
-/
import Pogreb.Model
import Pogreb.IndexThms
import Pogreb.RecordThms
import Pogreb.Lemmas.Reopen
import Pogreb.Lemmas.ModelRefine
import Pogreb.Spec
namespace Pogreb
open MState

/-- The key a slot denotes in state `st` (empty if it points nowhere: excluded by `WF`). -/
def MState.kof (st : MState) (sl : Slot) : Bytes := (st.readKey sl).getD []

/-- Well-formedness of a model state. -/
structure MState.WF (st : MState) : Prop where
  ids    : (st.segs.map (·.id)).Nodup
  inv    : st.idx.Inv st.kof (fun k => (murmur32 k st.seed).toNat)
  /-- every slot points at a whole put record inside an existing segment, with exact sizes -/
  points : ∀ sl ∈ st.idx.slots, ∃ s ∈ st.segs, s.id = sl.seg ∧ headerSize ≤ sl.off ∧
             sl.off + 10 + sl.ksz + sl.vsz ≤ s.size ∧ sl.ksz < 65536 ∧
             ∃ k v, st.readKey sl = some k ∧ st.readVal sl = some v ∧ k.length = sl.ksz ∧ v.length = sl.vsz
  /-- distinct slots point at distinct locations -/
  locs   : ∀ a ∈ st.idx.slots, ∀ b ∈ st.idx.slots, a.seg = b.seg → a.off = b.off → a = b
  /-- VACUOUS (`… ∨ True`), not a hypothesis: placeholder of the former model precondition RecFits
  ("a record always fits an empty segment"), which no theorem needs since fix F13 (see `MState.RecFits`
  in M05); kept so that the constructor arity of `WF` is unchanged. -/
  room   : headerSize + 10 + maxKeyLength + maxValueLength ≤ st.cfg.maxSeg ∨ True

/-- Contents of a model state as a map. -/
def MState.abs (st : MState) : KV Bytes Bytes := fun k => st.get k

-- helper ------------------------------------------------------------------------------------
namespace MState

theorem hH : headerSize = 512 := rfl

/-- `points` for one slot, in terms of the segment content `d`. -/
def PtD (st : MState) (sl : Slot) (d : Bytes) : Prop :=
  st.segData sl.seg = some d ∧ headerSize ≤ sl.off ∧
    sl.off + 10 + sl.ksz + sl.vsz ≤ headerSize + d.length ∧ sl.ksz < 65536

def PtS (st : MState) (sl : Slot) : Prop := ∃ d, st.PtD sl d

theorem reads_of_ptd {st : MState} {sl : Slot} {d : Bytes} (h : st.PtD sl d) :
    st.readKey sl = some ((d.drop (sl.off + 6 - headerSize)).take sl.ksz) ∧
    st.readVal sl = some ((d.drop (sl.off + 6 + sl.ksz - headerSize)).take sl.vsz) := by
  obtain ⟨hd, h1, h2, _⟩ := h
  have := hH
  constructor
  · unfold readKey
    rw [readAt_eq, hd, Option.bind_some, if_neg (by omega), if_pos (by omega)]
  · unfold readVal
    rw [readAt_eq, hd, Option.bind_some, if_neg (by omega), if_pos (by omega)]

theorem points_of_pts {st : MState} {sl : Slot} (h : st.PtS sl) :
    ∃ s ∈ st.segs, s.id = sl.seg ∧ headerSize ≤ sl.off ∧
      sl.off + 10 + sl.ksz + sl.vsz ≤ s.size ∧ sl.ksz < 65536 ∧
      ∃ k v, st.readKey sl = some k ∧ st.readVal sl = some v ∧ k.length = sl.ksz ∧ v.length = sl.vsz := by
  obtain ⟨d, hd⟩ := h
  obtain ⟨hk, hv⟩ := reads_of_ptd hd
  obtain ⟨hs, h1, h2, h3⟩ := hd
  have := hH
  unfold segData at hs
  cases hseg : st.seg? sl.seg with
  | none => rw [hseg] at hs; cases hs
  | some s =>
    rw [hseg] at hs
    have hsd : s.data = d := Option.some.inj hs
    obtain ⟨hmem, hid⟩ := seg?_some hseg
    refine ⟨s, hmem, hid, h1, ?_, h3, _, _, hk, hv, ?_, ?_⟩
    · unfold MSeg.size; rw [hsd]; exact h2
    · rw [List.length_take, List.length_drop]; omega
    · rw [List.length_take, List.length_drop]; omega

theorem WF.pts {st : MState} (hwf : st.WF) {sl : Slot} (hsl : sl ∈ st.idx.slots) : st.PtS sl := by
  obtain ⟨s, hmem, hid, h1, h2, h3, _⟩ := hwf.points sl hsl
  refine ⟨s.data, ?_, h1, h2, h3⟩
  unfold segData
  rw [← hid, seg?_of_mem hwf.ids hmem]; rfl

/-- every old segment keeps its content as a prefix -/
def Grows (st st' : MState) : Prop :=
  ∀ id d, st.segData id = some d → ∃ x, st'.segData id = some (d ++ x)

theorem grows_ptd {st st' : MState} (hg : Grows st st') {sl : Slot} {d : Bytes} (h : st.PtD sl d) :
    ∃ x, st'.PtD sl (d ++ x) ∧ st'.readKey sl = st.readKey sl ∧ st'.readVal sl = st.readVal sl := by
  obtain ⟨x, hx⟩ := hg _ _ h.1
  have h' : st'.PtD sl (d ++ x) := by
    obtain ⟨_, h1, h2, h3⟩ := h
    refine ⟨hx, h1, ?_, h3⟩
    rw [List.length_append]; omega
  refine ⟨x, h', ?_, ?_⟩
  · rw [(reads_of_ptd h').1, (reads_of_ptd h).1]
    obtain ⟨_, h1, h2, h3⟩ := h
    have := hH
    rw [take_drop_append_left]; omega
  · rw [(reads_of_ptd h').2, (reads_of_ptd h).2]
    obtain ⟨_, h1, h2, h3⟩ := h
    have := hH
    rw [take_drop_append_left]; omega

theorem writeRecord_grows (st : MState) (data : Bytes) (hids : (st.segs.map (·.id)).Nodup) :
    Grows st (st.writeRecord data).1 := by
  obtain ⟨old, _, _, _, _, hnew, hold, hoth⟩ := writeRecord_spec st data hids
  intro id d hd
  by_cases hid : id = (st.writeRecord data).2.1
  · subst hid
    rcases hold with h | ⟨h, _⟩
    · rw [hd] at h
      cases h
      exact ⟨data, hnew⟩
    · rw [hd] at h; cases h
  · rcases hoth id hid with h | ⟨h, _⟩
    · exact ⟨[], by rw [h, hd, List.append_nil]⟩
    · rw [hd] at h; cases h

theorem inv_congr {idx : Index} {kof kof' : Slot → Bytes} {hf : Bytes → Nat}
    (h : ∀ sl ∈ idx.slots, kof' sl = kof sl) (hinv : idx.Inv kof hf) : idx.Inv kof' hf where
  placed := hinv.placed
  hashed := by intro sl hsl; rw [h sl hsl]; exact hinv.hashed sl hsl
  nodup := by rw [List.map_congr_left h]; exact hinv.nodup
  count := hinv.count
  shape := hinv.shape
  small := hinv.small

theorem abs_congr {idx : Index} {kof kof' : Slot → Bytes}
    (h : ∀ sl ∈ idx.slots, kof' sl = kof sl) (k : Bytes) : idx.abs kof' k = idx.abs kof k := by
  unfold Index.abs
  apply find?_congr'
  intro sl hsl
  rw [h sl hsl]

theorem matchKey_spec {st : MState} (hwf : st.WF) (k : Bytes) :
    ∀ sl ∈ st.idx.slots, st.matchKey k sl = decide (st.kof sl = k) := by
  intro sl hsl
  obtain ⟨s, _, _, _, _, h3, k0, v0, hk0, _, hl, _⟩ := hwf.points sl hsl
  unfold matchKey kof
  rw [hk0]
  by_cases he : k0 = k
  · subst he
    rw [hl, Nat.mod_eq_of_lt h3]
    simp
  · simp [he]

theorem get_eq {st : MState} (hwf : st.WF) (k : Bytes) :
    st.get k = (st.idx.abs st.kof k).bind st.readVal := by
  unfold get
  have := Index.get_correct hwf.inv k (st.matchKey k) (matchKey_spec hwf k)
  unfold hashOf
  rw [this]
  cases st.idx.abs st.kof k <;> rfl

/-- The log append alone: well-formedness and all reads are preserved. -/
theorem writeRecord_wf {st : MState} (hwf : st.WF) (data : Bytes) :
    (st.writeRecord data).1.WF ∧ (st.writeRecord data).1.idx = st.idx ∧
    (st.writeRecord data).1.seed = st.seed ∧
    (∀ sl ∈ st.idx.slots, (st.writeRecord data).1.readKey sl = st.readKey sl ∧
        (st.writeRecord data).1.readVal sl = st.readVal sl) ∧
    ∀ k, (st.writeRecord data).1.get k = st.get k := by
  obtain ⟨old, hids', hidx, hseed, _⟩ := writeRecord_spec st data hwf.ids
  have hg := writeRecord_grows st data hwf.ids
  have hreads : ∀ sl ∈ st.idx.slots, (st.writeRecord data).1.readKey sl = st.readKey sl ∧
        (st.writeRecord data).1.readVal sl = st.readVal sl := by
    intro sl hsl
    obtain ⟨d, hd⟩ := hwf.pts hsl
    obtain ⟨x, _, h1, h2⟩ := grows_ptd hg hd
    exact ⟨h1, h2⟩
  have hkof : ∀ sl ∈ st.idx.slots, (st.writeRecord data).1.kof sl = st.kof sl := by
    intro sl hsl; unfold kof; rw [(hreads sl hsl).1]
  have hwf' : (st.writeRecord data).1.WF := by
    refine ⟨hids', ?_, ?_, ?_, Or.inr trivial⟩
    · rw [hidx, hseed]; exact inv_congr hkof hwf.inv
    · intro sl hsl
      rw [hidx] at hsl
      obtain ⟨d, hd⟩ := hwf.pts hsl
      obtain ⟨x, hx, _⟩ := grows_ptd hg hd
      exact points_of_pts ⟨_, hx⟩
    · rw [hidx]; exact hwf.locs
  refine ⟨hwf', hidx, hseed, hreads, ?_⟩
  intro k
  rw [get_eq hwf', get_eq hwf, hidx, abs_congr hkof]
  cases ha : st.idx.abs st.kof k with
  | none => rfl
  | some sl =>
    have hsl := ((Index.abs_some_iff hwf.inv k sl).1 ha).1
    exact (hreads sl hsl).2

theorem put_idx_wf {st1 : MState} (hwf : st1.WF) (k : Bytes) (ns : Slot)
    (hns : st1.PtS ns) (hfresh : ∀ a ∈ st1.idx.slots, a.seg = ns.seg → a.off ≠ ns.off)
    (hkey : st1.readKey ns = some k) (hh : ns.hash = st1.hashOf k) :
    let st2 : MState := { st1 with idx := st1.idx.put loadPolicy ns (st1.matchKey k) }
    st2.WF ∧ ∀ k', st2.get k' = if k' = k then st1.readVal ns else st1.get k' := by
  intro st2
  have hkof : st1.kof ns = k := by unfold kof; rw [hkey]; rfl
  obtain ⟨hinv2, habs2, _⟩ := Index.put_correct loadPolicy hwf.inv k ns st1.kof (fun _ _ => rfl) hkof hh
    (st1.matchKey k) (matchKey_spec hwf k)
  have hsub : ∀ sl ∈ st2.idx.slots, sl ∈ st1.idx.slots ∨ sl = ns := by
    intro sl hsl
    have h := (Index.abs_some_iff hinv2 (st1.kof sl) sl).2 ⟨hsl, rfl⟩
    rw [habs2] at h
    split at h
    · right; exact (Option.some.inj h).symm
    · left; exact ((Index.abs_some_iff hwf.inv _ sl).1 h).1
  have hwf2 : st2.WF := by
    refine ⟨hwf.ids, hinv2, ?_, ?_, Or.inr trivial⟩
    · intro sl hsl
      rcases hsub sl hsl with h | h
      · exact hwf.points sl h
      · subst h; exact points_of_pts (st := st1) hns
    · intro a ha b hb hseg hoff
      rcases hsub a ha with h1 | h1 <;> rcases hsub b hb with h2 | h2
      · exact hwf.locs a h1 b h2 hseg hoff
      · subst h2; exact absurd hoff (hfresh a h1 hseg)
      · subst h1; exact absurd hoff.symm (hfresh b h2 hseg.symm)
      · rw [h1, h2]
  refine ⟨hwf2, ?_⟩
  intro k'
  rw [get_eq hwf2]
  show ((st1.idx.put loadPolicy ns (st1.matchKey k)).abs st1.kof k').bind st1.readVal = _
  rw [habs2 k']
  split
  · rfl
  · exact (get_eq hwf k').symm

theorem delete_idx_wf {st1 : MState} (hwf : st1.WF) (k : Bytes) :
    let st3 : MState := { st1 with idx := st1.idx.delete (st1.hashOf k) (st1.matchKey k) }
    st3.WF ∧ ∀ k', st3.get k' = if k' = k then none else st1.get k' := by
  intro st3
  obtain ⟨hinv3, habs3, _⟩ := Index.delete_correct hwf.inv k (st1.matchKey k) (matchKey_spec hwf k)
  have hsub : ∀ sl ∈ st3.idx.slots, sl ∈ st1.idx.slots := by
    intro sl hsl
    have h := (Index.abs_some_iff hinv3 (st1.kof sl) sl).2 ⟨hsl, rfl⟩
    rw [habs3] at h
    split at h
    · cases h
    · exact ((Index.abs_some_iff hwf.inv _ sl).1 h).1
  have hwf3 : st3.WF := by
    refine ⟨hwf.ids, hinv3, ?_, ?_, Or.inr trivial⟩
    · intro sl hsl
      exact hwf.points sl (hsub sl hsl)
    · intro a ha b hb hseg hoff
      exact hwf.locs a (hsub a ha) b (hsub b hb) hseg hoff
  refine ⟨hwf3, ?_⟩
  intro k'
  rw [get_eq hwf3]
  show ((st1.idx.delete (st1.hashOf k) (st1.matchKey k)).abs st1.kof k').bind st1.readVal = _
  have h3 := habs3 k'
  unfold hashOf
  rw [h3]
  split
  · rfl
  · exact (get_eq hwf k').symm

theorem read_back (old : Bytes) (r : Rec) :
    ((old ++ r.encode).drop (old.length + 6)).take r.key.length = r.key ∧
    ((old ++ r.encode).drop (old.length + 6 + r.key.length)).take r.val.length = r.val := by
  have e1 : old ++ r.encode =
      (old ++ le16 r.key.length ++ le32 (r.val.length + (if r.del then 2 ^ 31 else 0))) ++
        (r.key ++ (r.val ++ le32 (crc32 r.body))) := by
    simp [Rec.encode, Rec.body]
  have e2 : old ++ r.encode =
      (old ++ le16 r.key.length ++ le32 (r.val.length + (if r.del then 2 ^ 31 else 0)) ++ r.key) ++
        (r.val ++ le32 (crc32 r.body)) := by
    simp [Rec.encode, Rec.body]
  constructor
  · rw [e1, List.drop_left' (by simp), List.take_left' rfl]
  · rw [e2, List.drop_left' (by simp; omega), List.take_left' rfl]

end MState
----------------------------------------------------------------------------------------------

-- THEOREMS TO PROVE (statements fixed; if one is false as written, follow the _partial protocol) --

theorem M01_init_wf (maxSeg : Nat) (seed : UInt32) :
    (MState.init maxSeg seed).WF ∧ (MState.init maxSeg seed).abs = KV.empty := by
  have hidx : (MState.init maxSeg seed).idx = Index.empty := by unfold MState.init; rw [swap_idx]
  have hslots : (MState.init maxSeg seed).idx.slots = [] := by rw [hidx]; rfl
  have hwf : (MState.init maxSeg seed).WF := by
    refine ⟨?_, ?_, ?_, ?_, Or.inr trivial⟩
    · unfold MState.init; exact swap_ids _ (by simp)
    · rw [hidx]; exact Index.inv_empty _ _
    · intro sl hsl; rw [hslots] at hsl; cases hsl
    · intro a ha; rw [hslots] at ha; cases ha
  refine ⟨hwf, ?_⟩
  funext k
  unfold MState.abs
  rw [get_eq hwf, hidx]; rfl

/-- Appending to the log does not change what existing slots read. -/
theorem M01_writeRecord_preserves_reads (st : MState) (hwf : st.WF) (data : Bytes) (sl : Slot) (hsl : sl ∈ st.idx.slots) :
    (st.writeRecord data).1.readKey sl = st.readKey sl ∧ (st.writeRecord data).1.readVal sl = st.readVal sl :=
  (writeRecord_wf hwf data).2.2.2.1 sl hsl

/-- `Put` on the executable model is `put` on the map, and keeps the state well-formed. -/
theorem M01_put_refines (st : MState) (hwf : st.WF) (k v : Bytes)
    (hk : k.length ≤ maxKeyLength) (hv : v.length ≤ maxValueLength) :
    (st.put k v).2 = .ok ∧ (st.put k v).1.WF ∧ (st.put k v).1.abs = st.abs.put k v := by
  have hk' : ¬ k.length > maxKeyLength := by omega
  have hv' : ¬ v.length > maxValueLength := by omega
  have hkl : k.length % 65536 = k.length := by
    apply Nat.mod_eq_of_lt; unfold maxKeyLength at hk; omega
  have hvl : v.length % 4294967296 = v.length := by
    apply Nat.mod_eq_of_lt; unfold maxValueLength at hv; omega
  obtain ⟨hwf1, hidx, hseed, hreads, hget⟩ := writeRecord_wf hwf (Rec.encode ⟨false, k, v⟩)
  obtain ⟨old, _, _, _, hoff, hnew, hold, _⟩ := writeRecord_spec st (Rec.encode ⟨false, k, v⟩) hwf.ids
  have hput : st.put k v =
      ({ (st.writeRecord (Rec.encode ⟨false, k, v⟩)).1 with
          idx := (st.writeRecord (Rec.encode ⟨false, k, v⟩)).1.idx.put loadPolicy
            ⟨st.hashOf k, (st.writeRecord (Rec.encode ⟨false, k, v⟩)).2.1, k.length, v.length,
              (st.writeRecord (Rec.encode ⟨false, k, v⟩)).2.2⟩
            ((st.writeRecord (Rec.encode ⟨false, k, v⟩)).1.matchKey k) }, .ok) := by
    unfold MState.put
    rw [if_neg hk', if_neg hv', hkl, hvl]
  rw [hput]
  generalize st.writeRecord (Rec.encode ⟨false, k, v⟩) = r at *
  obtain ⟨st1, seg, off⟩ := r
  dsimp only at *
  have hH := MState.hH
  have hptd : st1.PtD ⟨st.hashOf k, seg, k.length, v.length, off⟩ (old ++ Rec.encode ⟨false, k, v⟩) := by
    refine ⟨hnew, ?_, ?_, ?_⟩
    · dsimp only; omega
    · dsimp only; rw [List.length_append, Rec.encode_length]; dsimp only; omega
    · dsimp only; unfold maxKeyLength at hk; omega
  have hrb := read_back old ⟨false, k, v⟩
  dsimp only at hrb
  have hrk : st1.readKey ⟨st.hashOf k, seg, k.length, v.length, off⟩ = some k := by
    rw [(reads_of_ptd hptd).1]
    dsimp only
    have : off + 6 - headerSize = old.length + 6 := by omega
    rw [this, hrb.1]
  have hrv : st1.readVal ⟨st.hashOf k, seg, k.length, v.length, off⟩ = some v := by
    rw [(reads_of_ptd hptd).2]
    dsimp only
    have : off + 6 + k.length - headerSize = old.length + 6 + k.length := by omega
    rw [this, hrb.2]
  have hfresh : ∀ a ∈ st1.idx.slots, a.seg = seg → a.off ≠ off := by
    intro a ha hseg
    rw [hidx] at ha
    obtain ⟨d, hd, h1, h2, _⟩ := hwf.pts ha
    rw [hseg] at hd
    rcases hold with h | ⟨h, _⟩
    · rw [hd] at h
      cases h
      omega
    · rw [hd] at h; cases h
  have hh : st.hashOf k = st1.hashOf k := by unfold hashOf; rw [hseed]
  obtain ⟨hwf2, hget2⟩ := put_idx_wf hwf1 k ⟨st.hashOf k, seg, k.length, v.length, off⟩ ⟨_, hptd⟩
    hfresh hrk hh
  refine ⟨rfl, hwf2, ?_⟩
  funext k'
  unfold MState.abs KV.put
  dsimp only
  rw [hget2 k', hrv, hget k']

theorem MState.delete_eq (st : MState) (k : Bytes) :
    st.delete k = match st.idx.get (st.hashOf k) (st.matchKey k) with
      | none => st
      | some _ =>
        { (st.writeRecord (Rec.encode ⟨true, k, []⟩)).1 with
          idx := (st.writeRecord (Rec.encode ⟨true, k, []⟩)).1.idx.delete (st.hashOf k)
            ((st.writeRecord (Rec.encode ⟨true, k, []⟩)).1.matchKey k) } := by
  unfold MState.delete
  cases st.idx.get (st.hashOf k) (st.matchKey k) <;> rfl

/-- `Delete` on the executable model is `del` on the map, and keeps the state well-formed. -/
theorem M01_delete_refines (st : MState) (hwf : st.WF) (k : Bytes) :
    (st.delete k).WF ∧ (st.delete k).abs = st.abs.del k := by
  rw [MState.delete_eq]
  cases hg : st.idx.get (st.hashOf k) (st.matchKey k) with
  | none =>
    dsimp only
    refine ⟨hwf, ?_⟩
    funext k'
    unfold KV.del MState.abs
    split
    · rename_i h; subst h; unfold MState.get; rw [hg]
    · rfl
  | some sl =>
    dsimp only
    obtain ⟨hwf1, hidx, hseed, hreads, hget⟩ := writeRecord_wf hwf (Rec.encode ⟨true, k, []⟩)
    have hh : st.hashOf k = (st.writeRecord (Rec.encode ⟨true, k, []⟩)).1.hashOf k := by
      unfold hashOf; rw [hseed]
    rw [hh]
    obtain ⟨hwf3, hget3⟩ := delete_idx_wf hwf1 k
    refine ⟨hwf3, ?_⟩
    funext k'
    unfold MState.abs KV.del
    rw [hget3 k', hget k']

/-- `Has` and `Count` agree with the map. -/
theorem M01_has_count (st : MState) (hwf : st.WF) (k : Bytes) :
    st.has k = (st.abs k).isSome ∧ st.count = st.items.length ∧
    (st.items.map (·.1)).Nodup ∧ ∀ k' v', (k', v') ∈ st.items ↔ st.abs k' = some v' := by
  have hitems : st.items = st.idx.slots.map (fun sl => (st.kof sl, (st.readVal sl).getD [])) := by
    unfold MState.items
    rw [← List.filterMap_eq_map]
    apply filterMap_congr'
    intro sl hsl
    obtain ⟨s, _, _, _, _, _, k0, v0, hk0, hv0, _, _⟩ := hwf.points sl hsl
    simp only [Function.comp, MState.kof, hk0, hv0]
    rfl
  have hval : ∀ sl ∈ st.idx.slots, st.readVal sl = some ((st.readVal sl).getD []) := by
    intro sl hsl
    obtain ⟨s, _, _, _, _, _, k0, v0, _, hv0, _, _⟩ := hwf.points sl hsl
    rw [hv0]; rfl
  refine ⟨?_, ?_, ?_, ?_⟩
  · unfold MState.has MState.abs
    rw [get_eq hwf]
    have := Index.get_correct hwf.inv k (st.matchKey k) (matchKey_spec hwf k)
    unfold hashOf
    rw [this]
    cases ha : st.idx.abs st.kof k with
    | none => rfl
    | some sl =>
      have hsl := ((Index.abs_some_iff hwf.inv k sl).1 ha).1
      rw [Option.bind_some, hval sl hsl]; rfl
  · unfold MState.count
    rw [hitems, List.length_map]
    exact hwf.inv.count
  · rw [hitems, List.map_map]
    exact hwf.inv.nodup
  · intro k' v'
    unfold MState.abs
    rw [get_eq hwf, hitems, List.mem_map]
    constructor
    · rintro ⟨sl, hsl, he⟩
      have h1 : st.kof sl = k' := congrArg Prod.fst he
      have h2 : (st.readVal sl).getD [] = v' := congrArg Prod.snd he
      rw [(Index.abs_some_iff hwf.inv k' sl).2 ⟨hsl, h1⟩, Option.bind_some, hval sl hsl, h2]
    · intro h
      cases ha : st.idx.abs st.kof k' with
      | none => rw [ha] at h; cases h
      | some sl =>
        rw [ha, Option.bind_some] at h
        obtain ⟨hsl, hk⟩ := (Index.abs_some_iff hwf.inv k' sl).1 ha
        refine ⟨sl, hsl, ?_⟩
        rw [hk, h]; rfl

/-- Non-vacuity: `WF` is inhabited (`M01_init_wf`) and survives puts; after two puts from the
initial state the state is well-formed and `get` returns the second value. -/
theorem M01_two_puts (maxSeg : Nat) (seed : UInt32) (k1 v1 k2 v2 : Bytes)
    (hk1 : k1.length ≤ maxKeyLength) (hv1 : v1.length ≤ maxValueLength)
    (hk2 : k2.length ≤ maxKeyLength) (hv2 : v2.length ≤ maxValueLength) :
    ((((MState.init maxSeg seed).put k1 v1).1.put k2 v2).1).WF ∧
    ((((MState.init maxSeg seed).put k1 v1).1.put k2 v2).1).get k2 = some v2 := by
  obtain ⟨_, hwfa, _⟩ := M01_put_refines _ (M01_init_wf maxSeg seed).1 k1 v1 hk1 hv1
  obtain ⟨_, hwfb, habs⟩ := M01_put_refines _ hwfa k2 v2 hk2 hv2
  refine ⟨hwfb, ?_⟩
  have := congrFun habs k2
  simpa [MState.abs] using this

example : ((((MState.init 1024 7).put [1] [2]).1.put [1] [3]).1).WF ∧
    ((((MState.init 1024 7).put [1] [2]).1.put [1] [3]).1).get [1] = some [3] :=
  M01_two_puts 1024 7 [1] [2] [1] [3] (by simp [maxKeyLength]) (by simp [maxValueLength])
    (by simp [maxKeyLength]) (by simp [maxValueLength])

end Pogreb
