/-
  M05 — the executable model refines the specification map for every operation sequence:
  Put, Delete, Get, Has, Count, clean restart, crash recovery and compaction of any segment,
  in any order and number. This is the model the driver runs in lockstep with the implementation,
  so together with the correspondence check it carries C01/C02/C03/C05 for the modelled code.
-/
import Pogreb.Props.M04
import Pogreb.Props.C02
import Pogreb.Lemmas.ModelRun
namespace Pogreb
open MState

inductive MOp where
  | put (k v : Bytes)
  | del (k : Bytes)
  | get (k : Bytes)
  | has (k : Bytes)
  | count
  | reopen                      -- Close + Open, cleanly
  | recover (seed : UInt32)     -- unclean shutdown + recovering Open
  | compact (id : Nat)          -- seal segment `id` and compact it completely (no-op if absent)

inductive MOut where
  | unit
  | putRes (r : MState.PutRes)
  | val (v : Option Bytes)
  | bool (b : Bool)
  | nat (n : Nat)
  deriving DecidableEq

/-- Compaction of one segment: seal, copy loop to the end, remove. -/
def MState.compactSegment (st : MState) (id : Nat) : MState :=
  match st.seg? id with
  | none => st
  | some _ =>
    let st1 := (st.compactBegin [id]).1
    match st1.seg? id with
    | none => st1
    | some src =>
      let c : MState.CompState := ⟨[], some id, MState.recsWithOffsets src.data, true, false⟩
      ((st1.compactAll c ((MState.recsWithOffsets src.data).length + 1)).1).removeSeg id

def MState.stepOp (st : MState) : MOp → MState × MOut
  | .put k v => let r := st.put k v; (r.1, .putRes r.2)
  | .del k => (st.delete k, .unit)
  | .get k => (st, .val (st.get k))
  | .has k => (st, .bool (st.has k))
  | .count => (st, .nat st.count)
  | .reopen => (st.reopenClean, .unit)
  | .recover seed => (st.reopenRecover seed, .unit)
  | .compact id => (st.compactSegment id, .unit)

/-- Specification of the outputs on a map `m` (Count: the number of keys of any duplicate-free
listing of `m`). -/
def MSpecOut (m : KV Bytes Bytes) : MOp → MOut → Prop
  | .put k v, .putRes r =>
    (r = .ok ↔ (k.length ≤ maxKeyLength ∧ v.length ≤ maxValueLength))
  | .del _, .unit => True
  | .get k, .val v => v = m k
  | .has k, .bool b => b = (m k).isSome
  | .count, .nat n => ∃ l : List (Bytes × Bytes), (l.map (·.1)).Nodup ∧ (∀ k v, (k, v) ∈ l ↔ m k = some v) ∧ n = l.length
  | .reopen, .unit => True
  | .recover _, .unit => True
  | .compact _, .unit => True
  | _, _ => False

def mSpecStep (m : KV Bytes Bytes) : MOp → KV Bytes Bytes
  | .put k v => if k.length ≤ maxKeyLength ∧ v.length ≤ maxValueLength then m.put k v else m
  | .del k => m.del k
  | _ => m

/-- Deletes of over-long keys are outside the API contract of the model's `delete` proof (the key can
never be present); everything else is unrestricted. -/
def MOpOK : MOp → Prop
  | .del k => k.length ≤ maxKeyLength
  | _ => True

def MState.RunOK : MState → KV Bytes Bytes → List MOp → Prop
  | _, _, [] => True
  | st, m, op :: ops => MSpecOut m op (st.stepOp op).2 ∧ MState.RunOK (st.stepOp op).1 (mSpecStep m op) ops

def MState.runOps (st : MState) (ops : List MOp) : MState := ops.foldl (fun s op => (s.stepOp op).1) st


/-! ## Additional definitions (M05): the invariant `WF3` under which the run theorem holds

`WF2` alone does not make `M05_step` true for `.recover` (see the counterexamples below the
theorem section): the contents must be coupled to the log, and replay order must agree with write
order. -/

/-- **Index/log coupling**: the contents are exactly the replay of the state's own segment files. -/
def MState.LogCoupled (st : MState) : Prop := recovered st.files = st.abs

/-- **RecFits** (formerly a model precondition, DESIGN §"Model preconditions"): every encodable record
fits an empty segment. (The production value `maxSegmentSize = 2^32 - 1` satisfies it.)
Since fix F13 (`reopenClean` keeps the `Full` flag of an empty segment) NO theorem needs it any more:
an oversized record still seals the EMPTY current segment, but a clean reopen no longer makes that
segment writable again below newer ones. The definition is kept for reference only. -/
def MState.RecFits (st : MState) : Prop := headerSize + 10 + 2 ^ 16 + 2 ^ 31 ≤ st.cfg.maxSeg

/-- The segment table keeps replay order = write order: sequence ids are distinct and bounded by
`maxSeq`, and every writable (non-full) segment is the newest one. (The former fourth clause
`empty_open`, "only writable segments are empty", was needed for the old clean reopen only, and needed
`RecFits` to be kept by Put/Delete; it is gone.) -/
structure SegsNewest (segs : List MSeg) (maxSeq : Nat) : Prop where
  seqs        : (segs.map (·.seq)).Nodup
  le_max      : ∀ s ∈ segs, s.seq ≤ maxSeq
  open_newest : ∀ s ∈ segs, s.full = false → ∀ y ∈ segs, y.seq ≤ s.seq

/-- **CurNewest**: `writeRecord` always appends to the segment with the largest sequence id. -/
def MState.CurNewest (st : MState) : Prop := SegsNewest st.segs st.maxSeq

/-- No segment newer than segment `sid` holds a record of `key`. -/
def NoNewer (segs : List MSeg) (sid : Nat) (key : Bytes) : Prop :=
  ∀ s ∈ segs, s.id = sid → ∀ y ∈ segs, s.seq < y.seq → ∀ e ∈ MState.segEnts y, e.key ≠ key

/-- **SegLast**: the slot of a key points into the newest segment that holds a record of the key
(so a record that is not pointed at is shadowed or dead, and may be dropped by compaction). -/
def MState.SegLast (st : MState) : Prop := ∀ sl ∈ st.idx.slots, NoNewer st.segs sl.seg (st.kof sl)

/-- The invariant of the run theorem. -/
def MState.WF3 (st : MState) : Prop :=
  st.WF2 ∧ st.LogCoupled ∧ st.CurNewest ∧ st.SegLast

/-- State-dependent precondition of `.compact id` (the `PickOK` precondition of C05, for a single
picked segment): the compacted segment holds no delete record, or it is the oldest one. Every other
operation is unrestricted. -/
def MState.CompactOK (st : MState) : MOp → Prop
  | .compact id => ∀ s ∈ st.segs, s.id = id →
      (MState.hasDelete s = false ∨ ∀ o ∈ st.segs, s.seq ≤ o.seq)
  | _ => True

/-- Admissible operation sequences from a state. -/
def MState.OpsOK : MState → List MOp → Prop
  | _, [] => True
  | st, op :: ops => MOpOK op ∧ st.CompactOK op ∧ MState.OpsOK (st.stepOp op).1 ops

-- helper ------------------------------------------------------------------------------------
namespace MState

/-- The part of `WF3` that does not mention `SegLast` (helper). -/
def WF3c (st : MState) : Prop := st.WF2 ∧ st.LogCoupled ∧ st.CurNewest

/-! ### `SegsNewest` under the primitive edits of the segment table -/

theorem SegsNewest.map {segs : List MSeg} {m : Nat} (h : SegsNewest segs m) (g : MSeg → MSeg)
    (hseq : ∀ x ∈ segs, (g x).seq = x.seq)
    (hflag : ∀ x ∈ segs, (g x).full = false → x.full = false) : SegsNewest (segs.map g) m := by
  refine ⟨?_, ?_, ?_⟩
  · rw [List.map_map]
    have : segs.map ((fun x : MSeg => x.seq) ∘ g) = segs.map fun x => x.seq :=
      List.map_congr_left (fun x hx => hseq x hx)
    rw [this]; exact h.seqs
  · intro s hs
    obtain ⟨x, hx, rfl⟩ := List.mem_map.1 hs
    rw [hseq x hx]; exact h.le_max x hx
  · intro s hs hf y hy
    obtain ⟨x, hx, rfl⟩ := List.mem_map.1 hs
    obtain ⟨z, hz, rfl⟩ := List.mem_map.1 hy
    rw [hseq x hx, hseq z hz]; exact h.open_newest x hx (hflag x hx hf) z hz

theorem SegsNewest.insert {segs : List MSeg} {m : Nat} (h : SegsNewest segs m)
    (hfull : ∀ x ∈ segs, x.full = true) (id : Nat) :
    SegsNewest (insertSeg segs ⟨id, m + 1, [], false⟩) (m + 1) := by
  have hmem : ∀ x, x ∈ insertSeg segs ⟨id, m + 1, [], false⟩ ↔ x = ⟨id, m + 1, [], false⟩ ∨ x ∈ segs := by
    intro x; rw [(insertSeg_perm segs _).mem_iff, List.mem_cons]
  refine ⟨?_, ?_, ?_⟩
  · rw [((insertSeg_perm segs _).map _).nodup_iff, List.map_cons, List.nodup_cons]
    refine ⟨?_, h.seqs⟩
    intro hm
    obtain ⟨x, hx, he⟩ := List.mem_map.1 hm
    have := h.le_max x hx
    dsimp only at he
    omega
  · intro s hs
    rcases (hmem s).1 hs with e | hs'
    · rw [e]; exact Nat.le_refl _
    · have := h.le_max s hs'; omega
  · intro s hs hf y hy
    rcases (hmem s).1 hs with e | hs'
    · rw [e]
      rcases (hmem y).1 hy with e' | hy'
      · rw [e']; exact Nat.le_refl _
      · have := h.le_max y hy'; dsimp only; omega
    · rw [hfull s hs'] at hf; cases hf

theorem SegsNewest.filter {segs : List MSeg} {m : Nat} (h : SegsNewest segs m) (p : MSeg → Bool) :
    SegsNewest (segs.filter p) m := by
  refine ⟨?_, ?_, ?_⟩
  · exact h.seqs.sublist ((List.filter_sublist (l := segs) (p := p)).map _)
  · intro s hs; exact h.le_max s (List.mem_filter.1 hs).1
  · intro s hs hf y hy
    exact h.open_newest s (List.mem_filter.1 hs).1 hf y (List.mem_filter.1 hy).1

theorem SegsNewest.mono {segs : List MSeg} {m m' : Nat} (h : SegsNewest segs m)
    (hm : ∀ s ∈ segs, s.seq ≤ m') : SegsNewest segs m' :=
  ⟨h.seqs, hm, h.open_newest⟩


/-! ### `swapSegment`, `writeRecord` -/

theorem swap_newest {st : MState} (h : st.CurNewest) :
    st.swapSegment.CurNewest ∧ slog st.swapSegment.segs = slog st.segs := by
  unfold swapSegment
  split
  · exact ⟨h, rfl⟩
  · rename_i hf
    have hfull : ∀ x ∈ st.segs, x.full = true := by
      intro x hx; have := List.find?_eq_none.1 hf x hx; simpa using this
    refine ⟨SegsNewest.insert h hfull _, slog_insert h.seqs _ ?_ rfl⟩
    intro x hx; have := h.le_max x hx; show x.seq < st.maxSeq + 1; omega

theorem swap_clean {st : MState} (hc : st.SegsClean) : st.swapSegment.SegsClean := by
  unfold swapSegment
  split
  · exact hc
  · intro s hs
    rcases List.mem_cons.1 ((insertSeg_perm _ _).mem_iff.1 hs) with e | hs'
    · rw [e]; exact cleanD_nil
    · exact hc s hs'

theorem setSeg_full_segs {st : MState} (hids : (st.segs.map (·.id)).Nodup) {s : MSeg} (hs : s ∈ st.segs) :
    (st.setSeg { s with full := true }).segs =
      st.segs.map (fun x => { x with full := x.full || x.id == s.id }) := by
  unfold setSeg; dsimp only
  apply List.map_congr_left
  intro x hx
  by_cases he : x.id = s.id
  · have := eq_of_id hids hx hs he; subst this; simp
  · have hb : (x.id == s.id) = false := by simpa using he
    rw [if_neg (by simpa using he), hb, Bool.or_false]

theorem wrPre_newest {st : MState} (hids : (st.segs.map (·.id)).Nodup) (hN : st.CurNewest)
    (hc : st.SegsClean) (data : Bytes) :
    (st.wrPre data).CurNewest ∧ slog (st.wrPre data).segs = slog st.segs ∧ (st.wrPre data).SegsClean ∧
    (st.wrPre data).cfg = st.cfg ∧
    ∃ s, (st.wrPre data).cur.bind (st.wrPre data).seg? = some s ∧ s ∈ (st.wrPre data).segs ∧
      s.full = false := by
  unfold wrPre
  dsimp only
  cases hcur : st.cur.bind st.seg? with
  | none =>
    simp only [if_true]
    obtain ⟨h1, h2⟩ := swap_newest hN
    obtain ⟨c, s0, hc0, hs0, hf0⟩ := swap_sealed hids
    exact ⟨h1, h2, swap_clean hc, swap_cfg st, s0, by rw [hc0]; exact hs0, (seg?_some hs0).1, hf0⟩
  | some s =>
    dsimp only
    have hs : st.seg? s.id = some s := by
      cases hc' : st.cur with
      | none => simp [hc'] at hcur
      | some c =>
        rw [hc'] at hcur
        have hcs : st.seg? c = some s := hcur
        rw [(seg?_some hcs).2]; exact hcs
    have hsm : s ∈ st.segs := (seg?_some hs).1
    by_cases hn : (s.full || decide (s.size + data.length > st.cfg.maxSeg)) = true
    · rw [if_pos hn]
      have hsegs := setSeg_full_segs hids hsm
      have hN1 : (st.setSeg { s with full := true }).CurNewest := by
        show SegsNewest (st.setSeg { s with full := true }).segs st.maxSeq
        rw [hsegs]
        refine SegsNewest.map hN _ (fun _ _ => rfl) ?_
        intro x _ hf
        dsimp only at hf
        cases hx : x.full
        · rfl
        · rw [hx] at hf; simp at hf
      have hlog1 : slog (st.setSeg { s with full := true }).segs = slog st.segs := by
        rw [hsegs]
        exact slog_map (fun x => { x with full := x.full || x.id == s.id }) (fun _ => rfl) (fun _ => rfl) _
      have hc1 : (st.setSeg { s with full := true }).SegsClean := by
        intro x hx
        rw [hsegs] at hx
        obtain ⟨y, hy, rfl⟩ := List.mem_map.1 hx
        exact hc y hy
      have hids1 : ((st.setSeg { s with full := true }).segs.map (·.id)).Nodup := by
        rw [setSeg_ids]; exact hids
      obtain ⟨h1, h2⟩ := swap_newest hN1
      obtain ⟨c, s0, hc0, hs0, hf0⟩ := swap_sealed hids1
      exact ⟨h1, h2.trans hlog1, swap_clean hc1, by rw [swap_cfg]; rfl, s0, by rw [hc0]; exact hs0,
        (seg?_some hs0).1, hf0⟩
    · rw [if_neg hn]
      refine ⟨hN, rfl, hc, rfl, s, hcur, hsm, ?_⟩
      cases hx : s.full
      · rfl
      · rw [hx] at hn; simp at hn

theorem writeRecord_newest {st : MState} (hids : (st.segs.map (·.id)).Nodup) (hN : st.CurNewest)
    (hc : st.SegsClean) (r : Rec) (hf : r.Fits) :
    (st.writeRecord r.encode).1.CurNewest ∧
    slog (st.writeRecord r.encode).1.segs = slog st.segs ++ [r.toEnt] ∧
    (st.writeRecord r.encode).1.cfg = st.cfg := by
  obtain ⟨hN0, hlog0, hc0, hcfg0, s, htgt, hsm, hsf⟩ := wrPre_newest hids hN hc r.encode
  have hids0 := (wrPre_spec st r.encode hids).1
  rw [writeRecord_eq, htgt]
  dsimp only
  refine ⟨?_, ?_, hcfg0⟩
  · show SegsNewest ((st.wrPre r.encode).segs.map _) (st.wrPre r.encode).maxSeq
    refine SegsNewest.map hN0 _ ?_ ?_
    · intro x hx
      by_cases he : x.id = s.id
      · have := eq_of_id hids0 hx hsm he; subst this; simp
      · simp [he]
    · intro x hx hfl
      by_cases he : x.id = s.id
      · have := eq_of_id hids0 hx hsm he; subst this; exact hsf
      · simpa [he] using hfl
  · rw [← hlog0]
    exact slog_setSeg_newest hids0 hN0.seqs hsm (hN0.open_newest s hsm hsf)
      { s with data := s.data ++ r.encode } rfl rfl r.toEnt (by
      unfold segEnts
      rw [scan_append_rec (hc0 s hsm) hf, List.map_append]; rfl)

/-! ### how the segment table evolves: `Ext`, and "no newer record of the key" (`NoNewer`) -/

/-- `segs'` arises from `segs` by flag changes, fresh segments holding nothing or `es`, and appending
the entries `es` to segments. -/
def Ext (es : List E) (segs segs' : List MSeg) : Prop :=
  ∀ y' ∈ segs',
    (∃ y ∈ segs, y.id = y'.id ∧ y.seq = y'.seq ∧ (segEnts y' = segEnts y ∨ segEnts y' = segEnts y ++ es)) ∨
    ((segEnts y' = [] ∨ segEnts y' = es) ∧ ∀ x ∈ segs, x.id ≠ y'.id)

def Cover (segs segs' : List MSeg) : Prop := ∀ x ∈ segs, ∃ x' ∈ segs', x'.id = x.id

theorem noNewer_ext {es : List E} {segs segs' : List MSeg} {sid : Nat} {key : Bytes}
    (hx : Ext es segs segs') (hex : ∃ s ∈ segs, s.id = sid) (h : NoNewer segs sid key)
    (hes : ∀ e ∈ es, e.key ≠ key) : NoNewer segs' sid key := by
  intro s' hs' hid y' hy' hlt e he
  obtain ⟨s0, hs0, hs0id⟩ := hex
  rcases hx s' hs' with ⟨s, hs, hsid, hsseq, _⟩ | ⟨_, hfresh⟩
  · rcases hx y' hy' with ⟨y, hy, _, hyseq, hents⟩ | ⟨hents, _⟩
    · have hlt' : s.seq < y.seq := by omega
      rcases hents with hents | hents
      · rw [hents] at he; exact h s hs (hsid.trans hid) y hy hlt' e he
      · rw [hents] at he
        rcases List.mem_append.1 he with he | he
        · exact h s hs (hsid.trans hid) y hy hlt' e he
        · exact hes e he
    · rcases hents with hents | hents
      · rw [hents] at he; cases he
      · rw [hents] at he; exact hes e he
  · exact absurd (hs0id.trans hid.symm) (hfresh s0 hs0)

theorem ext_refl (segs : List MSeg) : Ext [] segs segs ∧ Cover segs segs :=
  ⟨fun y hy => Or.inl ⟨y, hy, rfl, rfl, Or.inl rfl⟩, fun x hx => ⟨x, hx, rfl⟩⟩

theorem ext_map (segs : List MSeg) (g : MSeg → MSeg) (hid : ∀ x, (g x).id = x.id)
    (hseq : ∀ x, (g x).seq = x.seq) (hents : ∀ x, segEnts (g x) = segEnts x) :
    Ext [] segs (segs.map g) ∧ Cover segs (segs.map g) := by
  constructor
  · intro y' hy'
    obtain ⟨y, hy, rfl⟩ := List.mem_map.1 hy'
    exact Or.inl ⟨y, hy, (hid y).symm, (hseq y).symm, Or.inl (hents y)⟩
  · intro x hx
    exact ⟨g x, List.mem_map_of_mem hx, hid x⟩

theorem ext_nil_trans {es : List E} {a b c : List MSeg} (h1 : Ext [] a b) (hc : Cover a b)
    (h2 : Ext es b c) : Ext es a c := by
  intro y'' hy''
  rcases h2 y'' hy'' with ⟨y', hy', hid', hseq', hents'⟩ | ⟨hents', hfresh'⟩
  · rcases h1 y' hy' with ⟨y, hy, hid, hseq, hents⟩ | ⟨hents, hfresh⟩
    · have he : segEnts y' = segEnts y := by
        rcases hents with h | h
        · exact h
        · rw [h, List.append_nil]
      left
      refine ⟨y, hy, hid.trans hid', hseq.trans hseq', ?_⟩
      rw [← he]; exact hents'
    · have he : segEnts y' = [] := by
        rcases hents with h | h <;> exact h
      right
      refine ⟨?_, fun x hx => by rw [← hid']; exact hfresh x hx⟩
      rw [he] at hents'
      simpa using hents'
  · right
    refine ⟨hents', ?_⟩
    intro x hx e
    obtain ⟨x', hx', hxid⟩ := hc x hx
    exact hfresh' x' hx' (hxid.trans e)

theorem cover_trans {a b c : List MSeg} (h1 : Cover a b) (h2 : Cover b c) : Cover a c := by
  intro x hx
  obtain ⟨x', hx', e'⟩ := h1 x hx
  obtain ⟨x'', hx'', e''⟩ := h2 x' hx'
  exact ⟨x'', hx'', e''.trans e'⟩

theorem swap_ext (st : MState) : Ext [] st.segs st.swapSegment.segs ∧ Cover st.segs st.swapSegment.segs := by
  refine ⟨?_, fun x hx => ⟨x, swap_mem st x hx, rfl⟩⟩
  unfold swapSegment
  split
  · exact (ext_refl _).1
  · intro y' hy'
    rcases List.mem_cons.1 ((insertSeg_perm _ _).mem_iff.1 hy') with e | hy
    · right
      rw [e]
      exact ⟨Or.inl (segEnts_nil _ rfl), fun x hx => freeId_fresh' st.segs x hx⟩
    · exact Or.inl ⟨y', hy, rfl, rfl, Or.inl rfl⟩

theorem wrPre_ext {st : MState} (hids : (st.segs.map (·.id)).Nodup) (data : Bytes) :
    Ext [] st.segs (st.wrPre data).segs ∧ Cover st.segs (st.wrPre data).segs := by
  unfold wrPre
  dsimp only
  cases hcur : st.cur.bind st.seg? with
  | none => simp only [if_true]; exact swap_ext st
  | some s =>
    dsimp only
    have hsm : s ∈ st.segs := by
      cases hc' : st.cur with
      | none => simp [hc'] at hcur
      | some c =>
        rw [hc'] at hcur
        exact (seg?_some (show st.seg? c = some s from hcur)).1
    split
    · have h1 := setSeg_full_segs hids hsm
      have e1 : Ext [] st.segs (st.setSeg { s with full := true }).segs ∧
          Cover st.segs (st.setSeg { s with full := true }).segs := by
        rw [h1]
        exact ext_map _ (fun x => { x with full := x.full || x.id == s.id }) (fun _ => rfl) (fun _ => rfl)
          (fun _ => rfl)
      have e2 := swap_ext (st.setSeg { s with full := true })
      exact ⟨ext_nil_trans e1.1 e1.2 e2.1, cover_trans e1.2 e2.2⟩
    · exact ext_refl _

/-- `writeRecord` of a whole record: the table evolves by `Ext [entry]`, and the segment written to
is the newest one. -/
theorem writeRecord_ext {st : MState} (hids : (st.segs.map (·.id)).Nodup) (hN : st.CurNewest)
    (hc : st.SegsClean) (r : Rec) (hf : r.Fits) :
    Ext [r.toEnt] st.segs (st.writeRecord r.encode).1.segs ∧
    Cover st.segs (st.writeRecord r.encode).1.segs ∧
    ∃ w ∈ (st.writeRecord r.encode).1.segs, w.id = (st.writeRecord r.encode).2.1 ∧
      ∀ y ∈ (st.writeRecord r.encode).1.segs, y.seq ≤ w.seq := by
  obtain ⟨hN0, _, hc0, _, s, htgt, hsm, hsf⟩ := wrPre_newest hids hN hc r.encode
  obtain ⟨hx0, hcov0⟩ := wrPre_ext hids r.encode
  have hids0 := (wrPre_spec st r.encode hids).1
  rw [writeRecord_eq, htgt]
  dsimp only
  have hents : segEnts ({ s with data := s.data ++ r.encode } : MSeg) = segEnts s ++ [r.toEnt] := by
    unfold segEnts
    rw [scan_append_rec (hc0 s hsm) hf, List.map_append]; rfl
  have hmem : ∀ y', y' ∈ ((st.wrPre r.encode).setSeg { s with data := s.data ++ r.encode }).segs →
      ∃ y ∈ (st.wrPre r.encode).segs, (y = s ∧ y' = { s with data := s.data ++ r.encode }) ∨
        (y.id ≠ s.id ∧ y' = y) := by
    intro y' hy'
    obtain ⟨y, hy, rfl⟩ := List.mem_map.1 (show y' ∈ (st.wrPre r.encode).segs.map _ from hy')
    refine ⟨y, hy, ?_⟩
    by_cases he : y.id = s.id
    · left; exact ⟨eq_of_id hids0 hy hsm he, by simp [he]⟩
    · right; exact ⟨he, by simp [he]⟩
  have hx1 : Ext [r.toEnt] (st.wrPre r.encode).segs
      ((st.wrPre r.encode).setSeg { s with data := s.data ++ r.encode }).segs := by
    intro y' hy'
    obtain ⟨y, hy, h | h⟩ := hmem y' hy'
    · obtain ⟨rfl, rfl⟩ := h
      exact Or.inl ⟨y, hy, rfl, rfl, Or.inr hents⟩
    · obtain ⟨_, rfl⟩ := h
      exact Or.inl ⟨y', hy, rfl, rfl, Or.inl rfl⟩
  have hcov1 : Cover (st.wrPre r.encode).segs
      ((st.wrPre r.encode).setSeg { s with data := s.data ++ r.encode }).segs := by
    intro x hx
    refine ⟨_, List.mem_map_of_mem (f := fun x => if x.id == s.id then { s with data := s.data ++ r.encode } else x) hx, ?_⟩
    split
    · rename_i he
      have he' : x.id = s.id := by simpa using he
      exact he'.symm
    · rfl
  refine ⟨ext_nil_trans hx0 hcov0 hx1, cover_trans hcov0 hcov1, { s with data := s.data ++ r.encode }, ?_, rfl, ?_⟩
  · show _ ∈ List.map _ _
    refine List.mem_map.2 ⟨s, hsm, by simp⟩
  · intro y' hy'
    obtain ⟨y, hy, h | h⟩ := hmem y' hy'
    · rw [h.2]; exact Nat.le_refl _
    · rw [h.2]; exact hN0.open_newest s hsm hsf y hy

/-! ### which slots remain after an index put / delete -/

theorem put_idx_slots' {st1 : MState} (hwf : st1.WF) (k : Bytes) (ns : Slot)
    (hkey : st1.readKey ns = some k) (hh : ns.hash = st1.hashOf k) :
    ∀ sl ∈ (st1.idx.put loadPolicy ns (st1.matchKey k)).slots,
      sl = ns ∨ (sl ∈ st1.idx.slots ∧ st1.kof sl ≠ k) := by
  have hkof : st1.kof ns = k := by unfold kof; rw [hkey]; rfl
  obtain ⟨hinv2, habs2, _⟩ := Index.put_correct loadPolicy hwf.inv k ns st1.kof (fun _ _ => rfl) hkof hh
    (st1.matchKey k) (matchKey_spec hwf k)
  intro sl hsl
  have h := (Index.abs_some_iff hinv2 (st1.kof sl) sl).2 ⟨hsl, rfl⟩
  rw [habs2] at h
  split at h
  · left; exact (Option.some.inj h).symm
  · rename_i hne
    right; exact ⟨((Index.abs_some_iff hwf.inv _ sl).1 h).1, hne⟩

theorem delete_idx_slots' {st1 : MState} (hwf : st1.WF) (k : Bytes) :
    ∀ sl ∈ (st1.idx.delete (st1.hashOf k) (st1.matchKey k)).slots,
      sl ∈ st1.idx.slots ∧ st1.kof sl ≠ k := by
  obtain ⟨hinv3, habs3, _⟩ := Index.delete_correct hwf.inv k (st1.matchKey k) (matchKey_spec hwf k)
  intro sl hsl
  have h := (Index.abs_some_iff hinv3 (st1.kof sl) sl).2 ⟨hsl, rfl⟩
  rw [habs3] at h
  split at h
  · cases h
  · rename_i hne
    exact ⟨((Index.abs_some_iff hwf.inv _ sl).1 h).1, hne⟩

/-! ### Put, Delete -/

theorem logCoupled_iff (st : MState) : st.LogCoupled ↔ contents (slog st.segs) = st.abs := by
  unfold LogCoupled; rw [recovered_files]

theorem put_wf3c {st : MState} (h : st.WF3c) (k v : Bytes)
    (hk : k.length ≤ maxKeyLength) (hv : v.length ≤ maxValueLength) : (st.put k v).1.WF3c := by
  obtain ⟨h2, hlc, hN⟩ := h
  obtain ⟨_, _, habs⟩ := M01_put_refines st h2.1 k v hk hv
  have hk' : ¬ k.length > maxKeyLength := by omega
  have hv' : ¬ v.length > maxValueLength := by omega
  have hf : (⟨false, k, v⟩ : Rec).Fits := by
    unfold maxKeyLength at hk; unfold maxValueLength at hv
    constructor <;> dsimp only <;> omega
  obtain ⟨hN1, hlog1, _⟩ := writeRecord_newest h2.1.ids hN h2.2.2 ⟨false, k, v⟩ hf
  have hsegs : (st.put k v).1.segs = (st.writeRecord (Rec.encode ⟨false, k, v⟩)).1.segs := by
    unfold MState.put; rw [if_neg hk', if_neg hv']
  have hmax : (st.put k v).1.maxSeq = (st.writeRecord (Rec.encode ⟨false, k, v⟩)).1.maxSeq := by
    unfold MState.put; rw [if_neg hk', if_neg hv']
  refine ⟨M04_put st h2 k v hk hv, ?_, ?_⟩
  · rw [logCoupled_iff, hsegs, hlog1, habs, ← (logCoupled_iff st).1 hlc]
    exact contents_put _ k v
  · show SegsNewest _ _
    rw [hsegs, hmax]; exact hN1

theorem delete_wf3c {st : MState} (h : st.WF3c) (k : Bytes) (hk : k.length ≤ maxKeyLength) :
    (st.delete k).WF3c := by
  obtain ⟨h2, hlc, hN⟩ := h
  have habs := (M01_delete_refines st h2.1 k).2
  have hwf2 := M04_delete st h2 k hk
  have hf : (⟨true, k, []⟩ : Rec).Fits := by
    unfold maxKeyLength at hk
    constructor <;> dsimp only [List.length_nil] <;> omega
  obtain ⟨hN1, hlog1, _⟩ := writeRecord_newest h2.1.ids hN h2.2.2 ⟨true, k, []⟩ hf
  rw [MState.delete_eq] at habs hwf2 ⊢
  cases hg : st.idx.get (st.hashOf k) (st.matchKey k) with
  | none => exact ⟨h2, hlc, hN⟩
  | some sl =>
    rw [hg] at habs hwf2
    dsimp only at habs hwf2 ⊢
    refine ⟨hwf2, ?_, hN1⟩
    rw [logCoupled_iff, habs]
    show contents (slog (st.writeRecord (Rec.encode ⟨true, k, []⟩)).1.segs) = _
    rw [hlog1, ← (logCoupled_iff st).1 hlc]
    exact contents_del _ k

/-! ### `SegLast` under the operations -/

theorem kof_congr {st st' : MState} {sl : Slot} (h : st'.segData sl.seg = st.segData sl.seg) :
    st'.kof sl = st.kof sl := by
  unfold kof; rw [(reads_congr h).1]

theorem segLast_congr {st st' : MState} (hidx : st'.idx = st.idx)
    (hd : ∀ sl ∈ st.idx.slots, st'.segData sl.seg = st.segData sl.seg)
    (hnn : ∀ sl ∈ st.idx.slots, NoNewer st.segs sl.seg (st.kof sl) → NoNewer st'.segs sl.seg (st.kof sl))
    (h : st.SegLast) : st'.SegLast := by
  intro sl hsl
  rw [hidx] at hsl
  rw [kof_congr (hd sl hsl)]
  exact hnn sl hsl (h sl hsl)

/-- `writeRecord` followed by an index update whose slots are either new (pointing into the segment
just written) or old ones with a different key. -/
theorem write_segLast {st : MState} (h2 : st.WF2) (hN : st.CurNewest)
    (hSL : st.SegLast) (r : Rec) (hf : r.Fits) (idx' : Index)
    (hslots : ∀ sl ∈ idx'.slots, sl.seg = (st.writeRecord r.encode).2.1 ∨
      (sl ∈ st.idx.slots ∧ st.kof sl ≠ r.key)) :
    ({ (st.writeRecord r.encode).1 with idx := idx' } : MState).SegLast := by
  obtain ⟨hwf1, _, _, hreads, _⟩ := writeRecord_wf h2.1 r.encode
  obtain ⟨hext, _, w, hw, hwid, hwmax⟩ := writeRecord_ext h2.1.ids hN h2.2.2 r hf
  intro sl hsl
  show NoNewer (st.writeRecord r.encode).1.segs sl.seg ((st.writeRecord r.encode).1.kof sl)
  rcases hslots sl hsl with hseg | ⟨hold, hne⟩
  · intro s' hs' hid y' hy' hlt
    have := eq_of_id hwf1.ids hs' hw (hid.trans (hseg.trans hwid.symm))
    rw [this] at hlt
    have := hwmax y' hy'
    omega
  · have hk : (st.writeRecord r.encode).1.kof sl = st.kof sl := by
      unfold kof; rw [(hreads sl hold).1]
    rw [hk]
    obtain ⟨s0, hs0, hs0id, _⟩ := h2.1.points sl hold
    refine noNewer_ext hext ⟨s0, hs0, hs0id⟩ (hSL sl hold) ?_
    intro e he
    rw [List.mem_singleton.1 he]
    exact fun e' => hne e'.symm

theorem put_segLast {st : MState} (h2 : st.WF2) (hN : st.CurNewest)
    (hSL : st.SegLast) (k v : Bytes) (hk : k.length ≤ maxKeyLength) (hv : v.length ≤ maxValueLength) :
    (st.put k v).1.SegLast := by
  have hk' : ¬ k.length > maxKeyLength := by omega
  have hv' : ¬ v.length > maxValueLength := by omega
  have hkl : k.length % 65536 = k.length := by
    apply Nat.mod_eq_of_lt; unfold maxKeyLength at hk; omega
  have hvl : v.length % 4294967296 = v.length := by
    apply Nat.mod_eq_of_lt; unfold maxValueLength at hv; omega
  have hf : (⟨false, k, v⟩ : Rec).Fits := by
    unfold maxKeyLength at hk; unfold maxValueLength at hv
    constructor <;> dsimp only <;> omega
  have hput : (st.put k v).1 =
      { (st.writeRecord (Rec.encode ⟨false, k, v⟩)).1 with
          idx := (st.writeRecord (Rec.encode ⟨false, k, v⟩)).1.idx.put loadPolicy
            ⟨st.hashOf k, (st.writeRecord (Rec.encode ⟨false, k, v⟩)).2.1, k.length, v.length,
              (st.writeRecord (Rec.encode ⟨false, k, v⟩)).2.2⟩
            ((st.writeRecord (Rec.encode ⟨false, k, v⟩)).1.matchKey k) } := by
    unfold MState.put
    rw [if_neg hk', if_neg hv', hkl, hvl]
  rw [hput]
  obtain ⟨hwf1, hidx, hseed, hreads, _⟩ := writeRecord_wf h2.1 (Rec.encode ⟨false, k, v⟩)
  obtain ⟨old, _, _, _, hoff, hnew, _, _⟩ := writeRecord_spec st (Rec.encode ⟨false, k, v⟩) h2.1.ids
  have hnew' : (st.writeRecord (Rec.encode ⟨false, k, v⟩)).1.segData
      (st.writeRecord (Rec.encode ⟨false, k, v⟩)).2.1 = some (old ++ (Rec.encode ⟨false, k, v⟩) ++ []) := by
    rw [List.append_nil]; exact hnew
  have hkey := (reads_at_record (st := (st.writeRecord (Rec.encode ⟨false, k, v⟩)).1)
    (sl := ⟨st.hashOf k, (st.writeRecord (Rec.encode ⟨false, k, v⟩)).2.1, k.length, v.length,
      (st.writeRecord (Rec.encode ⟨false, k, v⟩)).2.2⟩) (r := ⟨false, k, v⟩) hnew' hoff rfl).1
  have hh : (⟨st.hashOf k, (st.writeRecord (Rec.encode ⟨false, k, v⟩)).2.1, k.length, v.length,
      (st.writeRecord (Rec.encode ⟨false, k, v⟩)).2.2⟩ : Slot).hash =
      (st.writeRecord (Rec.encode ⟨false, k, v⟩)).1.hashOf k := by
    unfold hashOf; rw [hseed]
  apply write_segLast h2 hN hSL ⟨false, k, v⟩ hf
  intro sl hsl
  rcases put_idx_slots' hwf1 k _ hkey hh sl hsl with e | ⟨hold, hne⟩
  · left; rw [e]
  · right
    rw [hidx] at hold
    refine ⟨hold, ?_⟩
    have hkf : (st.writeRecord (Rec.encode ⟨false, k, v⟩)).1.kof sl = st.kof sl := by
      unfold kof; rw [(hreads sl hold).1]
    rw [← hkf]; exact hne

theorem delete_segLast {st : MState} (h2 : st.WF2) (hN : st.CurNewest)
    (hSL : st.SegLast) (k : Bytes) (hk : k.length ≤ maxKeyLength) : (st.delete k).SegLast := by
  have hf : (⟨true, k, []⟩ : Rec).Fits := by
    unfold maxKeyLength at hk
    constructor <;> dsimp only [List.length_nil] <;> omega
  rw [MState.delete_eq]
  cases hg : st.idx.get (st.hashOf k) (st.matchKey k) with
  | none => exact hSL
  | some sl0 =>
    dsimp only
    obtain ⟨hwf1, hidx, hseed, hreads, _⟩ := writeRecord_wf h2.1 (Rec.encode ⟨true, k, []⟩)
    have hh : st.hashOf k = (st.writeRecord (Rec.encode ⟨true, k, []⟩)).1.hashOf k := by
      unfold hashOf; rw [hseed]
    rw [hh]
    apply write_segLast h2 hN hSL ⟨true, k, []⟩ hf
    intro sl hsl
    obtain ⟨hold, hne⟩ := delete_idx_slots' hwf1 k sl hsl
    right
    rw [hidx] at hold
    refine ⟨hold, ?_⟩
    have hkf : (st.writeRecord (Rec.encode ⟨true, k, []⟩)).1.kof sl = st.kof sl := by
      unfold kof; rw [(hreads sl hold).1]
    rw [← hkf]; exact hne

theorem reopen_segData {st : MState} (hwf : st.WF) :
    ∀ sl ∈ st.idx.slots, st.reopenClean.segData sl.seg = st.segData sl.seg := by
  intro sl hsl
  obtain ⟨d, hd, _⟩ := hwf.pts hsl
  have hsome : (st.seg? sl.seg).isSome := by
    unfold segData at hd
    cases hx : st.seg? sl.seg with
    | none => rw [hx] at hd; cases hd
    | some _ => rfl
  unfold segData
  rw [reopenClean_seg?_old st _ hsome]

theorem reopen_segLast {st : MState} (h2 : st.WF2) (hSL : st.SegLast) : st.reopenClean.SegLast := by
  have hext : Ext [] st.segs st.reopenClean.segs := by
    rw [reopenClean_eq]
    exact (swap_ext st.reopenPre).1
  refine segLast_congr (C02_reopen_preserves_data st).1 (reopen_segData h2.1) ?_ hSL
  intro sl hsl hnn
  obtain ⟨s0, hs0, hs0id, _⟩ := h2.1.points sl hsl
  exact noNewer_ext hext ⟨s0, hs0, hs0id⟩ hnn (fun _ h => by cases h)

theorem compactBegin_segLast {st : MState} (h2 : st.WF2) (hSL : st.SegLast) (picked : List Nat) :
    (st.compactBegin picked).1.SegLast := by
  have hf : ∀ s : MSeg, ((fun s : MSeg => if picked.contains s.id then { s with full := true } else s) s).id = s.id ∧
      ((fun s : MSeg => if picked.contains s.id then { s with full := true } else s) s).data = s.data := by
    intro s; dsimp only; split <;> exact ⟨rfl, rfl⟩
  have hext : Ext [] st.segs (st.compactBegin picked).1.segs :=
    (ext_map st.segs _ (fun x => (hf x).1) (fun x => by split <;> rfl)
      (fun x => by split <;> rfl)).1
  refine segLast_congr (st := st) rfl (fun sl _ => segData_mapKeep st _ hf sl.seg) ?_ hSL
  intro sl hsl hnn
  obtain ⟨s0, hs0, hs0id, _⟩ := h2.1.points sl hsl
  exact noNewer_ext hext ⟨s0, hs0, hs0id⟩ hnn (fun _ h => by cases h)

theorem removeSeg_segLast {st : MState} (hSL : st.SegLast) (id : Nat)
    (hno : ∀ sl ∈ st.idx.slots, sl.seg ≠ id) : (st.removeSeg id).SegLast := by
  refine segLast_congr (st := st) rfl (fun sl hsl => segData_removeSeg st id sl.seg (hno sl hsl)) ?_ hSL
  intro sl _ hnn s hs hid y hy hlt e he
  exact hnn s (List.mem_filter.1 hs).1 hid y (List.mem_filter.1 hy).1 hlt e he

/-! ### clean reopen -/

theorem reopen_wf2 (st : MState) (h : st.WF2) : st.reopenClean.WF2 ∧ st.reopenClean.abs = st.abs := by
  obtain ⟨hidx, hseed, _⟩ := C02_reopen_preserves_data st
  have hids' : (st.reopenClean.segs.map (·.id)).Nodup := by
    rw [reopenClean_eq]
    apply swap_ids
    exact h.1.ids
  have hd : ∀ sl ∈ st.idx.slots, st.reopenClean.segData sl.seg = st.segData sl.seg := by
    intro sl hsl
    obtain ⟨d, hd, _⟩ := h.1.pts hsl
    have hsome : (st.seg? sl.seg).isSome := by
      unfold segData at hd
      cases hx : st.seg? sl.seg with
      | none => rw [hx] at hd; cases hd
      | some _ => rfl
    unfold segData
    rw [reopenClean_seg?_old st _ hsome]
  obtain ⟨hwf', hget⟩ := wf_congr h.1 hids' hidx hseed hd
  refine ⟨⟨hwf', exact_of_allOK ?_, ?_⟩, funext hget⟩
  · intro sl hsl
    rw [hidx] at hsl
    exact slotOK_congr (hd sl hsl) (h.ok sl hsl)
  · rw [reopenClean_eq]
    apply swap_clean
    exact h.2.2

theorem foldl_max_ge : ∀ (l : List MSeg) (m : Nat),
    m ≤ l.foldl (fun m s => max m s.seq) m ∧ ∀ s ∈ l, s.seq ≤ l.foldl (fun m s => max m s.seq) m := by
  intro l
  induction l with
  | nil => intro m; exact ⟨Nat.le_refl _, fun _ h => by cases h⟩
  | cons x xs ih =>
    intro m
    rw [List.foldl_cons]
    obtain ⟨h1, h2⟩ := ih (max m x.seq)
    refine ⟨by omega, ?_⟩
    intro s hs
    rcases List.mem_cons.1 hs with e | hs'
    · rw [e]; omega
    · exact h2 s hs'

theorem reopen_wf3c {st : MState} (h : st.WF3c) : st.reopenClean.WF3c := by
  obtain ⟨h2, hlc, hN⟩ := h
  obtain ⟨hwf2', habs'⟩ := reopen_wf2 st h2
  have hN0 : st.reopenPre.CurNewest := by
    show SegsNewest st.segs _
    exact SegsNewest.mono hN (foldl_max_ge _ 0).2
  have hlog0 : slog st.reopenPre.segs = slog st.segs := rfl
  obtain ⟨hN1, hlog1⟩ := swap_newest hN0
  rw [← reopenClean_eq] at hN1 hlog1
  refine ⟨hwf2', ?_, hN1⟩
  rw [logCoupled_iff, hlog1, hlog0, habs']; exact (logCoupled_iff st).1 hlc

/-! ### recovery -/

theorem nodup_map_inj {α β} {f : α → β} : ∀ {l : List α}, (l.map f).Nodup →
    ∀ {x y}, x ∈ l → y ∈ l → f x = f y → x = y := by
  intro l
  induction l with
  | nil => intro _ x y hx; cases hx
  | cons a t ih =>
    intro hn x y hx hy hf
    rw [List.map_cons, List.nodup_cons] at hn
    rcases List.mem_cons.1 hx with ex | hx' <;> rcases List.mem_cons.1 hy with ey | hy'
    · rw [ex, ey]
    · exact absurd (List.mem_map.2 ⟨y, hy', by rw [← hf, ex]⟩) hn.1
    · exact absurd (List.mem_map.2 ⟨x, hx', by rw [hf, ey]⟩) hn.1
    · exact ih hn.2 hx' hy' hf

theorem foldl_meta {α} (f : MState → α → MState)
    (hf : ∀ s a, (f s a).cfg = s.cfg ∧ (f s a).maxSeq = s.maxSeq) :
    ∀ (l : List α) (st : MState), (l.foldl f st).cfg = st.cfg ∧ (l.foldl f st).maxSeq = st.maxSeq := by
  intro l
  induction l with
  | nil => intro st; exact ⟨rfl, rfl⟩
  | cons a t ih =>
    intro st
    rw [List.foldl_cons]
    obtain ⟨h1, h2⟩ := ih (f st a)
    obtain ⟨h3, h4⟩ := hf st a
    exact ⟨h1.trans h3, h2.trans h4⟩

theorem recoverStep_meta (st : MState) (s : MSeg) :
    (recoverStep st s).cfg = st.cfg ∧ (recoverStep st s).maxSeq = st.maxSeq := by
  have key : ∀ X : MState, (X.replaySeg (truncSeg s)).cfg = X.cfg ∧
      (X.replaySeg (truncSeg s)).maxSeq = X.maxSeq := by
    intro X
    rw [replaySeg_eq]
    exact foldl_meta _ (fun s a => by unfold replayStep; split <;> exact ⟨rfl, rfl⟩) _ X
  unfold recoverStep
  cases st.seg? s.id with
  | none => exact key st
  | some cur => exact key _

theorem swap_maxSeq_of_nonfull (st : MState) (s : MSeg) (hs : s ∈ st.segs) (hf : s.full = false) :
    st.swapSegment.maxSeq = st.maxSeq := by
  unfold swapSegment
  cases h : st.segs.find? (fun s => !s.full) with
  | some x => rfl
  | none =>
    have := List.find?_eq_none.1 h s hs
    simp [hf] at this

/-- The segments after recovery, with the newest one named. -/
theorem recover_segs' (st : MState) (hids : (st.segs.map (·.id)).Nodup) (seed : UInt32) :
    ∃ l, l ∈ (recover0 st seed).segs ∧ (∀ y ∈ (recover0 st seed).segs, y.seq ≤ l.seq) ∧
      (st.reopenRecover seed).segs =
        (recover0 st seed).segs.map (fun s => sealSeg (some l.id) (truncSeg s)) ∧
      (st.reopenRecover seed).maxSeq = (recover0 st seed).maxSeq ∧
      (st.reopenRecover seed).cfg = (recover0 st seed).cfg := by
  obtain ⟨_, _, hsegs⟩ := recover_main st hids seed
  have hperm := sortBySeq_perm (recover0 st seed).segs
  have hne : sortBySeq (recover0 st seed).segs ≠ [] := by
    intro h
    rw [h] at hperm
    exact recover0_ne st seed hperm.symm.eq_nil
  have hl : (sortBySeq (recover0 st seed).segs).getLast? =
      some ((sortBySeq (recover0 st seed).segs).getLast hne) := List.getLast?_eq_some_getLast hne
  have hlm : (sortBySeq (recover0 st seed).segs).getLast hne ∈ (recover0 st seed).segs :=
    hperm.mem_iff.1 (List.getLast_mem hne)
  have hmax : ∀ y ∈ (recover0 st seed).segs,
      y.seq ≤ ((sortBySeq (recover0 st seed).segs).getLast hne).seq := by
    intro y hy
    have hy' := hperm.mem_iff.2 hy
    obtain ⟨ys, hys⟩ := List.getLast?_eq_some_iff.1 hl
    have hsrt := sortBySeq_sorted (recover0 st seed).segs
    rw [hys] at hsrt hy'
    rcases List.mem_append.1 hy' with h | h
    · exact (List.pairwise_append.1 hsrt).2.2 y h _ (by simp)
    · rw [List.mem_singleton.1 h]; exact Nat.le_refl _
  obtain ⟨hcfgF, hmaxF⟩ := foldl_meta recoverStep recoverStep_meta
    (sortBySeq (recover0 st seed).segs) (recover0 st seed)
  refine ⟨(sortBySeq (recover0 st seed).segs).getLast hne, hlm, hmax, ?_⟩
  rw [reopenRecover_eq]
  generalize (sortBySeq (recover0 st seed).segs).getLast hne = l at hl hlm
  rw [hl, Option.map_some]
  have hmem : truncSeg l ∈ (sealAll ((sortBySeq (recover0 st seed).segs).foldl recoverStep
      (recover0 st seed)) (some l.id)).segs := by
    show truncSeg l ∈ List.map _ _
    rw [hsegs, List.map_map]
    refine List.mem_map.2 ⟨l, hlm, ?_⟩
    simp [sealSeg]
  have hnf : (truncSeg l).full = false := recover0_flags st seed l hlm
  refine ⟨?_, ?_, ?_⟩
  · rw [swap_of_nonfull _ (truncSeg l) hmem hnf]
    show (List.map _ _) = _
    rw [hsegs, List.map_map]; rfl
  · rw [swap_maxSeq_of_nonfull _ (truncSeg l) hmem hnf]; exact hmaxF
  · rw [swap_cfg]; exact hcfgF

theorem recover0_newest {st : MState} (hN : st.CurNewest) (seed : UInt32) :
    ((recover0 st seed).segs.map (·.seq)).Nodup ∧
    (∀ s ∈ (recover0 st seed).segs, s.seq ≤ (recover0 st seed).maxSeq) ∧
    (recover0 st seed).cfg = st.cfg ∧
    (st.SegsClean → ∀ s ∈ (recover0 st seed).segs, CleanD s.data) := by
  cases h : st.segs with
  | nil =>
    have hs : (recover0 st seed).segs = [⟨freeId [] 1 0, 0 + 1, [], false⟩] ∧
        (recover0 st seed).maxSeq = 0 + 1 := by
      unfold recover0 swapSegment recoverPre
      simp [h, insertSeg]
    rw [hs.1, hs.2]
    refine ⟨by simp, by simp, by unfold recover0; rw [swap_cfg]; rfl, ?_⟩
    intro _ s hs'
    rw [List.mem_singleton.1 hs']; exact cleanD_nil
  | cons x xs =>
    have hx : clearSeg x ∈ (recoverPre st seed).segs := by
      show clearSeg x ∈ st.segs.map _
      rw [h]; exact List.mem_map.2 ⟨x, List.mem_cons_self, rfl⟩
    have hsegs : (recover0 st seed).segs = st.segs.map clearSeg :=
      swap_of_nonfull (recoverPre st seed) (clearSeg x) hx rfl
    have hmax : (recover0 st seed).maxSeq = (st.segs.map clearSeg).foldl (fun m s => max m s.seq) 0 :=
      swap_maxSeq_of_nonfull (recoverPre st seed) (clearSeg x) hx rfl
    rw [hsegs, hmax]
    refine ⟨?_, (foldl_max_ge _ 0).2, by unfold recover0; rw [swap_cfg]; rfl, ?_⟩
    · rw [List.map_map]; exact hN.seqs
    · intro hc s hs
      obtain ⟨a, ha, rfl⟩ := List.mem_map.1 hs
      exact hc a ha

theorem recover_wf3c {st : MState} (h : st.WF3c) (seed : UInt32) :
    (st.reopenRecover seed).WF3c ∧ (st.reopenRecover seed).abs = st.abs := by
  obtain ⟨h2, hlc, hN⟩ := h
  have hids := h2.1.ids
  obtain ⟨_, habs⟩ := M02_recover_refines st hids seed
  have hfiles : recovered (st.reopenRecover seed).files = recovered st.files := by
    obtain ⟨newest, hsegs⟩ := MState.recover_segs st hids seed
    unfold recovered
    rw [files_eq, files_eq, hsegs, MState.recoverLog_filesOf_map _ (fun _ => by simp)
      (fun x => by
        rw [← MState.segEnts_trunc x]
        unfold MState.segEnts
        simp),
      MState.recoverLog_recover0]
  obtain ⟨l, hl, hlmax, hsegs, hmaxs, _⟩ := recover_segs' st hids seed
  obtain ⟨r1, r2, _, _⟩ := recover0_newest hN seed
  have hidsR : ((recover0 st seed).segs.map (·.id)).Nodup := (recover0_wf st hids seed).1.ids
  refine ⟨⟨M04_recover st hids seed, ?_, ?_⟩, habs.trans hlc⟩
  · unfold LogCoupled; rw [hfiles, habs]
  · show SegsNewest _ _
    rw [hsegs, hmaxs]
    refine ⟨?_, ?_, ?_⟩
    · rw [List.map_map]
      have : ((fun x : MSeg => x.seq) ∘ fun s => sealSeg (some l.id) (truncSeg s)) = fun x => x.seq := by
        funext x; simp
      rw [this]; exact r1
    · intro s hs
      obtain ⟨a, ha, rfl⟩ := List.mem_map.1 hs
      simp only [sealSeg_seq, truncSeg_seq]; exact r2 a ha
    · intro s hs hf y hy
      obtain ⟨a, ha, rfl⟩ := List.mem_map.1 hs
      obtain ⟨b, hb, rfl⟩ := List.mem_map.1 hy
      simp only [sealSeg_seq, truncSeg_seq]
      have hal : a.id = l.id := by
        unfold sealSeg at hf
        split at hf
        · rename_i he; simpa using he
        · cases hf
      rw [eq_of_id hidsR ha hl hal]; exact hlmax b hb

/-! ### `SegLast` after recovery: the replay fold -/

theorem replayStep_keys {st : MState} (hwf : st.WF) (sid : Nat) (pre : Bytes) (r : Rec) (x : Bytes)
    (hd : st.segData sid = some (pre ++ r.encode ++ x)) (hf : r.Fits) :
    ∀ a ∈ (replayStep sid st (headerSize + pre.length, r)).idx.slots,
      a.seg = sid ∨ (a ∈ st.idx.slots ∧ st.kof a ≠ r.key) := by
  obtain ⟨hfk, hfv⟩ := hf
  unfold replayStep
  cases hdel : r.del with
  | true =>
    simp only [if_true]
    exact fun a ha => Or.inr (delete_idx_slots' hwf r.key a ha)
  | false =>
    simp only [Bool.false_eq_true, if_false]
    have hkl : r.key.length % 65536 = r.key.length := Nat.mod_eq_of_lt (by omega)
    have hvl : r.val.length % 4294967296 = r.val.length := Nat.mod_eq_of_lt (by omega)
    rw [hkl, hvl]
    have hkey : st.readKey ⟨st.hashOf r.key, sid, r.key.length, r.val.length, headerSize + pre.length⟩
        = some r.key :=
      (reads_at_record (st := st)
        (sl := ⟨st.hashOf r.key, sid, r.key.length, r.val.length, headerSize + pre.length⟩) hd rfl rfl).1
    intro a ha
    rcases put_idx_slots' hwf r.key _ hkey rfl a ha with h | h
    · left; rw [h]
    · exact Or.inr h

theorem foldl_replayStep_segs (sid : Nat) : ∀ (l : List (Nat × Rec)) (st : MState),
    (l.foldl (replayStep sid) st).segs = st.segs := by
  intro l
  induction l with
  | nil => intro st; rfl
  | cons p t ih => intro st; rw [List.foldl_cons, ih, replayStep_segs]

theorem replay_go_keys (sid : Nat) (all : List Rec) (hall : ∀ r ∈ all, r.Fits) :
    ∀ (rs rs0 : List Rec) (st : MState), all = rs0 ++ rs → st.WF →
      st.segData sid = some (encodeAll all) →
      (∀ a ∈ st.idx.slots, a.seg = sid → a.off < headerSize + (encodeAll rs0).length) →
      ∀ a ∈ ((recsWithOffsets.go (headerSize + (encodeAll rs0).length) rs).foldl (replayStep sid) st).idx.slots,
        a.seg = sid ∨ (a ∈ st.idx.slots ∧ ∀ r ∈ rs, st.kof a ≠ r.key) := by
  intro rs
  induction rs with
  | nil =>
    intro rs0 st _ _ _ _ a ha
    exact Or.inr ⟨ha, fun _ h => by cases h⟩
  | cons r rest ih =>
    intro rs0 st hall' hwf hd hfresh
    have hfr : r.Fits := hall r (by rw [hall']; simp)
    have hd' : st.segData sid = some (encodeAll rs0 ++ r.encode ++ encodeAll rest) := by
      rw [hd, hall', encodeAll_append, encodeAll_cons, List.append_assoc]
    obtain ⟨hwf1, _, hsl1⟩ := replayStep_spec hwf sid (encodeAll rs0) r (encodeAll rest) hd' hfr hfresh
    have hk1 := replayStep_keys hwf sid (encodeAll rs0) r (encodeAll rest) hd' hfr
    have hsegs1 := replayStep_segs sid st (headerSize + (encodeAll rs0).length, r)
    have hel : (encodeAll (rs0 ++ [r])).length = (encodeAll rs0).length + r.encode.length := by
      rw [encodeAll_append, List.length_append]; simp
    have hlen : headerSize + (encodeAll rs0).length + r.encode.length =
        headerSize + (encodeAll (rs0 ++ [r])).length := by rw [hel]; omega
    rw [go_cons, List.foldl_cons, hlen]
    intro a ha
    rcases ih (rs0 ++ [r]) _ (by rw [hall']; simp) hwf1
      (by rw [segData_of_segs hsegs1]; exact hd)
      (by
        intro a ha hs
        have hl := Rec.encode_length r
        rcases hsl1 a ha with h | ⟨_, h⟩
        · have := hfresh a h hs; omega
        · omega) a ha with h | ⟨hmem, hkeys⟩
    · exact Or.inl h
    · rcases hk1 a hmem with h | ⟨hold, hne⟩
      · exact Or.inl h
      · right
        refine ⟨hold, ?_⟩
        have hkof : (replayStep sid st (headerSize + (encodeAll rs0).length, r)).kof a = st.kof a :=
          kof_congr (segData_of_segs hsegs1 a.seg)
        intro r' hr'
        rcases List.mem_cons.1 hr' with e | hr''
        · rw [e]; exact hne
        · rw [← hkof]; exact hkeys r' hr''

theorem recoverStep_keys {st : MState} (hwf : st.WF) (s : MSeg) (hs : s ∈ st.segs)
    (hno : ∀ a ∈ st.idx.slots, a.seg ≠ s.id) :
    ∀ a ∈ (recoverStep st s).idx.slots,
      a.seg = s.id ∨ (a ∈ st.idx.slots ∧ (recoverStep st s).kof a = st.kof a ∧
        ∀ e ∈ segEnts s, e.key ≠ st.kof a) := by
  have hseg : st.seg? s.id = some s := seg?_of_mem hwf.ids hs
  have hstep : recoverStep st s = (st.setSeg (truncSeg s)).replaySeg (truncSeg s) := by
    unfold recoverStep; rw [hseg]; rfl
  have hsd : st.segData s.id = some s.data := by unfold segData; rw [hseg]; rfl
  have hd1 : ∀ id, id ≠ s.id → (st.setSeg (truncSeg s)).segData id = st.segData id := by
    intro id hne
    rw [segData_setSeg, if_neg (fun e : (truncSeg s).id = id => hne e.symm)]
  obtain ⟨hwf1, _⟩ := wf_congr (st' := st.setSeg (truncSeg s)) hwf
    (by rw [setSeg_ids]; exact hwf.ids) rfl rfl (fun sl hsl => hd1 _ (hno sl hsl))
  have hdata : (truncSeg s).data = encodeAll (scan s.data).1 := (scan_prefix s.data).symm
  have hsd1 : (st.setSeg (truncSeg s)).segData s.id = some (encodeAll (scan s.data).1) := by
    rw [segData_setSeg, truncSeg_id, if_pos rfl, hsd, ← hdata]; rfl
  have hgo := replay_go_keys s.id (scan s.data).1 (scan_fits s.data) (scan s.data).1 []
    (st.setSeg (truncSeg s)) rfl hwf1 hsd1
    (by intro a ha hs'; exact absurd hs' (hno a ha))
  have hsegs : (recoverStep st s).segs = (st.setSeg (truncSeg s)).segs := by
    rw [hstep, replaySeg_eq, foldl_replayStep_segs]
  rw [hstep, replaySeg_eq, hdata, recsWithOffsets_clean _ (scan_fits s.data)]
  intro a ha
  rcases hgo a ha with h | ⟨hold, hkeys⟩
  · exact Or.inl h
  · right
    have hold' : a ∈ st.idx.slots := hold
    have hk1 : (st.setSeg (truncSeg s)).kof a = st.kof a := kof_congr (hd1 _ (hno a hold'))
    refine ⟨hold', ?_, ?_⟩
    · rw [← hk1]
      apply kof_congr
      have := segData_of_segs hsegs a.seg
      rw [hstep, replaySeg_eq, hdata, recsWithOffsets_clean _ (scan_fits s.data)] at this
      exact this
    · intro e he
      obtain ⟨r, hr, rfl⟩ := List.mem_map.1 (show e ∈ (scan s.data).1.map Rec.toEnt from he)
      rw [← hk1]
      exact fun e' => hkeys r hr e'.symm

/-- The fold invariant: every slot points into an already replayed segment, and no later replayed
segment holds a record of its key. -/
def ReplayInv (st : MState) (D : List MSeg) : Prop :=
  ∀ a ∈ st.idx.slots, ∃ d ∈ D, d.id = a.seg ∧
    ∀ y ∈ D, d.seq < y.seq → ∀ e ∈ segEnts y, e.key ≠ st.kof a

theorem recover_fold_keys : ∀ (todo : List MSeg) (st : MState) (D : List MSeg) (L : List E), st.WF →
    (∀ s ∈ todo, s ∈ st.segs) → (todo.map (·.id)).Nodup → (∀ s ∈ todo, ∀ d ∈ D, s.id ≠ d.id) →
    todo.Pairwise (fun a b => a.seq < b.seq) → (∀ d ∈ D, ∀ s ∈ todo, d.seq < s.seq) →
    st.abs = contents L → ReplayInv st D → ReplayInv (todo.foldl recoverStep st) (D ++ todo) := by
  intro todo
  induction todo with
  | nil => intro st D L _ _ _ _ _ _ _ hJ; rw [List.append_nil]; exact hJ
  | cons s rest ih =>
    intro st D L hwf hmem hnd hnD hpw hlt hL hJ
    rw [List.map_cons, List.nodup_cons] at hnd
    have hsm := hmem s List.mem_cons_self
    have hDids : ∀ a ∈ st.idx.slots, a.seg ∈ D.map (·.id) := by
      intro a ha
      obtain ⟨d, hd, hid, _⟩ := hJ a ha
      exact List.mem_map.2 ⟨d, hd, hid⟩
    have hsD : s.id ∉ D.map (·.id) := by
      intro h
      obtain ⟨d, hd, e⟩ := List.mem_map.1 h
      exact hnD s List.mem_cons_self d hd e.symm
    have hno : ∀ a ∈ st.idx.slots, a.seg ≠ s.id := by
      intro a ha e
      exact hsD (e ▸ hDids a ha)
    obtain ⟨h1, h2, h3, _⟩ := recoverStep_spec hwf s hsm (D.map (·.id)) hsD hDids L hL
    have hkeys := recoverStep_keys hwf s hsm hno
    have hne : ∀ t ∈ rest, t.id ≠ s.id := by
      intro t ht e
      exact hnd.1 (e ▸ List.mem_map.2 ⟨t, ht, rfl⟩)
    have hJ1 : ReplayInv (recoverStep st s) (D ++ [s]) := by
      intro a ha
      rcases hkeys a ha with hseg | ⟨hold, hkof, hnk⟩
      · refine ⟨s, by simp, hseg.symm, ?_⟩
        intro y hy hlt'
        exfalso
        rcases List.mem_append.1 hy with hy | hy
        · have := hlt y hy s List.mem_cons_self; omega
        · rw [List.mem_singleton.1 hy] at hlt'; omega
      · obtain ⟨d, hd, hid, hD'⟩ := hJ a hold
        refine ⟨d, List.mem_append_left _ hd, hid, ?_⟩
        intro y hy hlt' e he
        rw [hkof]
        rcases List.mem_append.1 hy with hy | hy
        · exact hD' y hy hlt' e he
        · rw [List.mem_singleton.1 hy] at he; exact hnk e he
    rw [List.foldl_cons]
    have := ih (recoverStep st s) (D ++ [s]) (L ++ (scan s.data).1.map Rec.toEnt) h1
      (by
        intro t ht
        rw [h2]
        refine List.mem_map.2 ⟨t, hmem t (List.mem_cons_of_mem _ ht), ?_⟩
        rw [if_neg (hne t ht)])
      hnd.2
      (by
        intro t ht d hd
        rcases List.mem_append.1 hd with hd | hd
        · exact hnD t (List.mem_cons_of_mem _ ht) d hd
        · rw [List.mem_singleton.1 hd]; exact hne t ht)
      (List.pairwise_cons.1 hpw).2
      (by
        intro d hd t ht
        rcases List.mem_append.1 hd with hd | hd
        · exact hlt d hd t (List.mem_cons_of_mem _ ht)
        · rw [List.mem_singleton.1 hd]; exact (List.pairwise_cons.1 hpw).1 t ht)
      h3 hJ1
    rw [List.append_assoc] at this
    exact this

theorem recover_segLast {st : MState} (h2 : st.WF2) (hN : st.CurNewest) (seed : UInt32) :
    (st.reopenRecover seed).SegLast := by
  have hids := h2.1.ids
  obtain ⟨hwf0, habs0, hsl0⟩ := recover0_wf st hids seed
  obtain ⟨r1, _, _, _⟩ := recover0_newest hN seed
  have hperm := sortBySeq_perm (recover0 st seed).segs
  have hJ := recover_fold_keys (sortBySeq (recover0 st seed).segs) (recover0 st seed) [] []
    hwf0 (fun s hs => hperm.mem_iff.1 hs)
    ((hperm.map (·.id)).nodup_iff.2 hwf0.ids)
    (fun _ _ _ h => by cases h) (sorted_strict r1) (fun _ h => by cases h) habs0
    (by intro a ha; rw [hsl0] at ha; cases ha)
  rw [List.nil_append] at hJ
  obtain ⟨hwfG, _, _⟩ := recover_main st hids seed
  obtain ⟨l, _, _, hsegs, _, _⟩ := recover_segs' st hids seed
  intro a ha
  have haG : a ∈ ((sortBySeq (recover0 st seed).segs).foldl recoverStep (recover0 st seed)).idx.slots := by
    rw [reopenRecover_eq, swap_idx] at ha; exact ha
  have hkof : (st.reopenRecover seed).kof a =
      ((sortBySeq (recover0 st seed).segs).foldl recoverStep (recover0 st seed)).kof a := by
    apply kof_congr
    obtain ⟨d, hd, _⟩ := hwfG.pts haG
    rw [reopenRecover_eq]
    rcases swap_segData (sealAll ((sortBySeq (recover0 st seed).segs).foldl recoverStep (recover0 st seed))
      ((sortBySeq (recover0 st seed).segs).getLast?.map (·.id))) a.seg with h | ⟨h, _⟩
    · rw [h, sealAll_segData]
    · rw [sealAll_segData, hd] at h; cases h
  rw [hkof]
  obtain ⟨d, hd, hdid, hD⟩ := hJ a haG
  have hdR : d ∈ (recover0 st seed).segs := hperm.mem_iff.1 hd
  intro s' hs' hid y' hy' hlt e he
  rw [hsegs] at hs' hy'
  obtain ⟨x, hx, rfl⟩ := List.mem_map.1 hs'
  obtain ⟨y, hy, rfl⟩ := List.mem_map.1 hy'
  simp only [sealSeg_id, truncSeg_id, sealSeg_seq, truncSeg_seq] at hid hlt
  have hxd : x = d := eq_of_id hwf0.ids hx hdR (hid.trans hdid.symm)
  rw [hxd] at hlt
  have hents : segEnts (sealSeg (some l.id) (truncSeg y)) = segEnts y := by
    rw [← segEnts_trunc y]
    unfold segEnts
    rw [sealSeg_data]
  rw [hents] at he
  exact hD y (hperm.mem_iff.2 hy) hlt e he

/-! ### compaction -/

/-- Lower bound on sequence ids (used to keep "the source is the oldest segment" through the copy loop). -/
def LB (q : Nat) (st : MState) : Prop := (∀ o ∈ st.segs, q ≤ o.seq) ∧ q ≤ st.maxSeq + 1

theorem swap_lb {q : Nat} {st : MState} (h : LB q st) : LB q st.swapSegment := by
  unfold swapSegment
  split
  · exact h
  · refine ⟨?_, ?_⟩
    · intro o ho
      rcases List.mem_cons.1 ((insertSeg_perm _ _).mem_iff.1 ho) with e | ho'
      · rw [e]; exact h.2
      · exact h.1 o ho'
    · show q ≤ st.maxSeq + 1 + 1
      have := h.2; omega

theorem setSeg_lb {q : Nat} {st : MState} {s s' : MSeg} (hs : s ∈ st.segs) (hseq : s'.seq = s.seq)
    (h : LB q st) : LB q (st.setSeg s') := by
  refine ⟨?_, h.2⟩
  intro o ho
  obtain ⟨x, hx, rfl⟩ := List.mem_map.1 (show o ∈ st.segs.map _ from ho)
  split
  · rw [hseq]; exact h.1 s hs
  · exact h.1 x hx

theorem wrPre_lb {q : Nat} {st : MState} (data : Bytes) (h : LB q st) : LB q (st.wrPre data) := by
  unfold wrPre
  dsimp only
  cases hcur : st.cur.bind st.seg? with
  | none => simp only [if_true]; exact swap_lb h
  | some s =>
    dsimp only
    have hsm : s ∈ st.segs := by
      cases hc' : st.cur with
      | none => simp [hc'] at hcur
      | some c =>
        rw [hc'] at hcur
        exact (seg?_some (show st.seg? c = some s from hcur)).1
    split
    · exact swap_lb (setSeg_lb hsm rfl h)
    · exact h

theorem writeRecord_lb {q : Nat} {st : MState} (data : Bytes) (h : LB q st) :
    LB q (st.writeRecord data).1 := by
  obtain ⟨c, s, hc, hs⟩ := wrPre_live st data
  rw [writeRecord_eq, hc, Option.bind_some, hs]
  exact setSeg_lb (seg?_some hs).1 rfl (wrPre_lb data h)

theorem compactRecord_lb {q : Nat} {st : MState} (c : CompState) (h : LB q st) :
    LB q (st.compactRecord c).1 := by
  cases hs : c.source with
  | none => rw [compactRecord_none st c hs]; exact h
  | some src =>
    cases ht : c.todo with
    | nil => rw [compactRecord_nil st c src hs ht]; exact h
    | cons p rest =>
      obtain ⟨off, r⟩ := p
      rcases compactRecord_step st c src off r rest hs ht with
        ⟨_, e⟩ | ⟨_, _, e⟩ | ⟨_, _, e⟩ | ⟨_, idx', _, e⟩
      · rw [e]; exact h
      · rw [e]; exact h
      · rw [e]; exact writeRecord_lb r.encode h
      · rw [e]; exact writeRecord_lb r.encode h

theorem go_mem : ∀ (rs : List Rec) (o : Nat), ∀ p ∈ recsWithOffsets.go o rs, p.2 ∈ rs
  | [], _, p, hp => by simp [recsWithOffsets.go] at hp
  | r :: rs, o, p, hp => by
    rw [go_cons] at hp
    rcases List.mem_cons.1 hp with rfl | hp
    · exact List.mem_cons_self
    · exact List.mem_cons_of_mem _ (go_mem rs _ p hp)

theorem recs_mem_scan {d : Bytes} {p : Nat × Rec} (hp : p ∈ recsWithOffsets d) : p.2 ∈ (scan d).1 :=
  go_mem _ _ p hp

/-- What a slot of a `WF2` state points at. -/
theorem slot_record {st : MState} (h2 : st.WF2) {sl : Slot} (hsl : sl ∈ st.idx.slots) :
    ∃ s ∈ st.segs, s.id = sl.seg ∧ ∃ done r rest,
      recsWithOffsets s.data = done ++ (sl.off, r) :: rest ∧ r.del = false ∧ r.Fits ∧
      st.readKey sl = some r.key ∧ st.readVal sl = some r.val := by
  obtain ⟨s, hs, hid, done, r, rest, hrec, hdel, hk, hv⟩ := h2.2.1 sl hsl
  obtain ⟨A, B, hdata, hoff, hfits⟩ := recs_split hrec
  have hsd : st.segData sl.seg = some (A ++ r.encode ++ B) := by
    rw [← hid, segData_of_mem h2.1.ids hs, hdata]
  obtain ⟨hk0, hv0⟩ := reads_at_record hsd hoff hk
  exact ⟨s, hs, hid, done, r, rest, hrec, hdel, hfits, hk0, hv0 hv⟩

theorem abs_of_slot {st : MState} (hwf : st.WF) {sl : Slot} (hsl : sl ∈ st.idx.slots) {k v : Bytes}
    (hk : st.readKey sl = some k) (hv : st.readVal sl = some v) : st.abs k = some v := by
  have hkof : st.kof sl = k := by unfold kof; rw [hk]; rfl
  show st.get k = some v
  rw [get_eq hwf, (Index.abs_some_iff hwf.inv k sl).2 ⟨hsl, hkof⟩]
  exact hv

theorem slot_of_abs {st : MState} (hwf : st.WF) {k v : Bytes} (h : st.abs k = some v) :
    ∃ sl ∈ st.idx.slots, st.kof sl = k := by
  have h' : st.get k = some v := h
  rw [get_eq hwf] at h'
  cases ha : st.idx.abs st.kof k with
  | none => rw [ha] at h'; cases h'
  | some sl => exact ⟨sl, (Index.abs_some_iff hwf.inv k sl).1 ha⟩

/-- A slot pointing at the offset of a scanned record of its segment reads that record. -/
theorem slot_at_record {st : MState} (h2 : st.WF2) {sl : Slot} (hsl : sl ∈ st.idx.slots) {r : Rec}
    (hrec : ∀ s ∈ st.segs, s.id = sl.seg →
      ∃ done rest, recsWithOffsets s.data = done ++ (sl.off, r) :: rest) :
    st.readKey sl = some r.key ∧ st.readVal sl = some r.val ∧ r.Fits ∧ r.del = false := by
  obtain ⟨s, hs, hid, done, r', rest, hrec', hdel, hfits, hk, hv⟩ := slot_record h2 hsl
  obtain ⟨done2, rest2, hrec2⟩ := hrec s hs hid
  have h1 : (sl.off, r') ∈ recsWithOffsets s.data := by rw [hrec']; simp
  have h2' : (sl.off, r) ∈ recsWithOffsets s.data := by rw [hrec2]; simp
  have := recs_unique h1 h2' rfl
  have hr : r' = r := (Prod.mk.inj this).2
  subst hr
  exact ⟨hk, hv, hfits, hdel⟩

/-- The record a successful `repoint` of the copy loop is about is live: it is the key's value. -/
theorem live_abs {st : MState} (h2 : st.WF2) {src off : Nat} {r : Rec} {i0 : Index}
    (h0 : st.idx.repoint (st.hashOf r.key) src off src off = some i0)
    (hrec : ∀ s ∈ st.segs, s.id = src → ∃ done rest, recsWithOffsets s.data = done ++ (off, r) :: rest) :
    st.abs r.key = some r.val ∧ r.Fits ∧ r.del = false := by
  obtain ⟨sl, hsl, _, ho, hsg, _⟩ := Index.repoint_some h2.1.inv h0
  obtain ⟨hk, hv, hfits, hdel⟩ := slot_at_record h2 hsl (r := r)
    (fun s hs hid => by rw [ho]; exact hrec s hs (hid.trans hsg))
  exact ⟨abs_of_slot h2.1 hsl hk hv, hfits, hdel⟩

theorem compactRecord_segLast {st : MState} (h2 : st.WF2) (hN : st.CurNewest)
    (hSL : st.SegLast) (c : CompState)
    (hreal : ∀ src, c.source = some src → ∀ s ∈ st.segs, s.id = src →
      ∃ done, recsWithOffsets s.data = done ++ c.todo) : (st.compactRecord c).1.SegLast := by
  cases hs : c.source with
  | none => rw [compactRecord_none st c hs]; exact hSL
  | some src =>
    cases ht : c.todo with
    | nil => rw [compactRecord_nil st c src hs ht]; exact hSL
    | cons p rest =>
      obtain ⟨off, r⟩ := p
      have hrec : ∀ s ∈ st.segs, s.id = src →
          ∃ done rest', recsWithOffsets s.data = done ++ (off, r) :: rest' := by
        intro s hs' hid
        obtain ⟨done, hd⟩ := hreal src hs s hs' hid
        rw [ht] at hd
        exact ⟨done, rest, hd⟩
      obtain ⟨hwf1, hidx, _, _, _⟩ := writeRecord_wf h2.1 r.encode
      rcases compactRecord_step' st c src off r rest hs ht with
        ⟨_, e⟩ | ⟨_, _, e⟩ | ⟨_, ⟨i0, h0⟩, hnone, _⟩ | ⟨_, ⟨i0, h0⟩, idx', hr, e⟩
      · rw [e]; exact hSL
      · rw [e]; exact hSL
      · exfalso
        obtain ⟨s0, hs0, hh, ho, hsg, _⟩ := Index.repoint_some h2.1.inv h0
        exact Index.repoint_none hwf1.inv hnone s0 (by rw [hidx]; exact hs0) ⟨hh, ho, hsg⟩
      · rw [e]
        obtain ⟨_, hfits, _⟩ := live_abs h2 h0 hrec
        have hfr := writeRecord_fresh h2.1 r.encode
        obtain ⟨s0, hs0, _, ho, hsg, _, hsub⟩ := repoint_slots hwf1 hr (fun a ha hseg => by
          rw [hidx] at ha
          have := hfr a ha hseg
          omega)
        rw [hidx] at hs0
        obtain ⟨hk0, _, _, _⟩ := slot_at_record h2 hs0 (r := r)
          (fun s hs' hid => by rw [ho]; exact hrec s hs' (hid.trans hsg))
        have hkof0 : st.kof s0 = r.key := by unfold kof; rw [hk0]; rfl
        apply write_segLast h2 hN hSL r hfits
        intro sl hsl
        rcases hsub sl hsl with ⟨hold, hne⟩ | e'
        · right
          rw [hidx] at hold
          refine ⟨hold, fun hk => hne ?_⟩
          exact nodup_map_inj h2.1.inv.nodup hold hs0 (hk.trans hkof0.symm)
        · left; rw [e']

theorem compactRecord_wf3c {st : MState} (h : st.WF3c) (c : CompState)
    (hreal : ∀ src, c.source = some src → ∀ s ∈ st.segs, s.id = src →
      ∃ done, recsWithOffsets s.data = done ++ c.todo) : (st.compactRecord c).1.WF3c := by
  obtain ⟨h2, hlc, hN⟩ := h
  obtain ⟨hwf2', habs'⟩ := M04_compactRecord st h2 c hreal
  cases hs : c.source with
  | none => rw [compactRecord_none st c hs]; exact ⟨h2, hlc, hN⟩
  | some src =>
    cases ht : c.todo with
    | nil => rw [compactRecord_nil st c src hs ht]; exact ⟨h2, hlc, hN⟩
    | cons p rest =>
      obtain ⟨off, r⟩ := p
      have hrec : ∀ s ∈ st.segs, s.id = src →
          ∃ done rest', recsWithOffsets s.data = done ++ (off, r) :: rest' := by
        intro s hs' hid
        obtain ⟨done, hd⟩ := hreal src hs s hs' hid
        rw [ht] at hd
        exact ⟨done, rest, hd⟩
      have hwrite : ∀ i0, st.idx.repoint (st.hashOf r.key) src off src off = some i0 →
          ∀ st' : MState, st'.segs = (st.writeRecord r.encode).1.segs →
            st'.maxSeq = (st.writeRecord r.encode).1.maxSeq →
            st'.WF2 → st'.abs = st.abs → st'.WF3c := by
        intro i0 h0 st' e1 e2 hw ha
        obtain ⟨hlive, hfits, hdel⟩ := live_abs h2 h0 hrec
        obtain ⟨hN1, hlog1, _⟩ := writeRecord_newest h2.1.ids hN h2.2.2 r hfits
        refine ⟨hw, ?_, ?_⟩
        · rw [logCoupled_iff, e1, hlog1, ha]
          have : r.toEnt = ⟨r.key, some r.val⟩ := by simp [Rec.toEnt, hdel]
          rw [this, contents_copy _ _ _ (by rw [(logCoupled_iff st).1 hlc]; exact hlive)]
          exact (logCoupled_iff st).1 hlc
        · show SegsNewest _ _
          rw [e1, e2]; exact hN1
      rcases compactRecord_step' st c src off r rest hs ht with
        ⟨_, e⟩ | ⟨_, _, e⟩ | ⟨_, ⟨i0, h0⟩, _, e⟩ | ⟨_, ⟨i0, h0⟩, idx', _, e⟩
      · rw [e]; exact ⟨h2, hlc, hN⟩
      · rw [e]; exact ⟨h2, hlc, hN⟩
      · rw [e] at hwf2' habs' ⊢
        exact hwrite i0 h0 _ rfl rfl hwf2' habs'
      · rw [e] at hwf2' habs' ⊢
        exact hwrite i0 h0 _ rfl rfl hwf2' habs'

/-- The copy loop over a sealed source `S`: `WF3` and the lower bound are kept, `S` stays. -/
theorem compactAll_wf3 (sid : Nat) (S : MSeg) (hfull : S.full = true) (q : Nat) :
    ∀ (n : Nat) (st : MState) (c : CompState),
      st.WF3c → st.SegLast → LB q st → c.source = some sid → st.seg? sid = some S →
      (∃ done, recsWithOffsets S.data = done ++ c.todo) →
      (st.compactAll c n).1.WF3c ∧ (st.compactAll c n).1.SegLast ∧ LB q (st.compactAll c n).1 ∧
      (st.compactAll c n).1.seg? sid = some S := by
  intro n
  induction n with
  | zero => intro st c h hSL hlb _ hseg _; exact ⟨h, hSL, hlb, hseg⟩
  | succ n ih =>
    intro st c h hSL hlb hsrc hseg hrec
    rw [compactAll_succ]
    have hids := h.1.1.ids
    have hS : ∀ s ∈ st.segs, s.id = sid → s = S := by
      intro s hs hid
      have h' := seg?_of_mem hids hs
      rw [hid, hseg] at h'
      exact (Option.some.inj h').symm
    have hreal : ∀ src, c.source = some src → ∀ s ∈ st.segs, s.id = src →
        ∃ done, recsWithOffsets s.data = done ++ c.todo := by
      intro src hs'
      rw [hsrc] at hs'
      rw [← Option.some.inj hs']
      intro s hs hid; rw [hS s hs hid]; exact hrec
    have h1 := compactRecord_wf3c h c hreal
    have hSL1 := compactRecord_segLast h.1 h.2.2 hSL c hreal
    have hlb1 := compactRecord_lb (q := q) c hlb
    have hseg1 := compactRecord_sealed hids hseg hfull c
    have hsrc1 : (st.compactRecord c).2.source = some sid := by rw [compactRecord_source]; exact hsrc
    have htodo1 := compactRecord_todo st c sid hsrc
    have hrec1 : ∃ done, recsWithOffsets S.data = done ++ (st.compactRecord c).2.todo := by
      rw [htodo1]
      obtain ⟨done, hd⟩ := hrec
      cases ht : c.todo with
      | nil => rw [ht] at hd; exact ⟨done, hd⟩
      | cons q rest => rw [ht] at hd; exact ⟨done ++ [q], by rw [hd]; simp⟩
    exact ih _ _ h1 hSL1 hlb1 hsrc1 hseg1 hrec1

/-- Removing a segment that no slot points into keeps the index/log coupling, provided it holds no
delete record or is the oldest segment (`PickOK`). -/
theorem removeSeg_coupled {st : MState} (h2 : st.WF2) (hlc : st.LogCoupled) (hSL : st.SegLast)
    (hseqs : (st.segs.map (·.seq)).Nodup) {S : MSeg} (hS : S ∈ st.segs)
    (hcond : hasDelete S = false ∨ ∀ o ∈ st.segs, S.seq ≤ o.seq)
    (hno : ∀ sl ∈ st.idx.slots, sl.seg ≠ S.id)
    (habs : (st.removeSeg S.id).abs = st.abs) : (st.removeSeg S.id).LogCoupled := by
  have hids := h2.1.ids
  obtain ⟨A, B, hsort, hA, hB⟩ := sortBySeq_split hseqs hS
  have hperm := sortBySeq_perm st.segs
  have hAmem : ∀ a ∈ A, a ∈ st.segs := fun a ha => hperm.mem_iff.1 (by rw [hsort]; simp [ha])
  have hBmem : ∀ b ∈ B, b ∈ st.segs := fun b hb => hperm.mem_iff.1 (by rw [hsort]; simp [hb])
  have hAid : ∀ a ∈ A, a.id ≠ S.id := by
    intro a ha e
    have := eq_of_id hids (hAmem a ha) hS e
    have h1 := hA a ha
    rw [this] at h1
    omega
  have hBid : ∀ b ∈ B, b.id ≠ S.id := by
    intro b hb e
    have := eq_of_id hids (hBmem b hb) hS e
    have h1 := hB b hb
    rw [this] at h1
    omega
  have hlog' : slog (st.removeSeg S.id).segs = A.flatMap segEnts ++ B.flatMap segEnts := by
    show slog (st.segs.filter (·.id != S.id)) = _
    rw [slog_filter hseqs, hsort, List.filter_append, List.filter_cons]
    have : (S.id != S.id) = false := by simp
    rw [this]
    simp only [Bool.false_eq_true, if_false]
    rw [List.filter_eq_self.2 (fun a ha => by simpa using hAid a ha),
      List.filter_eq_self.2 (fun b hb => by simpa using hBid b hb), List.flatMap_append]
  have hlog : slog st.segs = (A.flatMap segEnts ++ segEnts S) ++ B.flatMap segEnts := by
    unfold slog; rw [hsort, List.flatMap_append, List.flatMap_cons, List.append_assoc]
  rw [logCoupled_iff, hlog', habs, ← (logCoupled_iff st).1 hlc, hlog]
  funext k
  rw [contents_append (A.flatMap segEnts) (B.flatMap segEnts) k,
    contents_append (A.flatMap segEnts ++ segEnts S) (B.flatMap segEnts) k]
  cases hp : lastRec (B.flatMap segEnts) k with
  | some e => rfl
  | none =>
    dsimp only
    rw [contents_append (A.flatMap segEnts) (segEnts S) k]
    cases hs : lastRec (segEnts S) k with
    | none => rfl
    | some e =>
      dsimp only
      obtain ⟨heS, hek⟩ := lastOf_some_mem hs
      have hek : e.key = k := by simpa using hek
      cases hv : e.val with
      | some v =>
        exfalso
        have habsk : st.abs k = some v := by
          rw [← (logCoupled_iff st).1 hlc, hlog, contents_append, hp]
          dsimp only
          rw [contents_append, hs]
          exact hv
        obtain ⟨sl, hsl, hkof⟩ := slot_of_abs h2.1 habsk
        obtain ⟨s, hs', hid, done, r, rest, hrec, _, _, hk, _⟩ := slot_record h2 hsl
        have hrk : r.key = k := by
          unfold kof at hkof; rw [hk] at hkof; exact hkof
        have hsmem : s ∈ sortBySeq st.segs := hperm.mem_iff.2 hs'
        rw [hsort] at hsmem
        rcases List.mem_append.1 hsmem with hsA | hsSB
        · -- the slot's segment is older than `S`, which holds a record of the key
          have := hSL sl hsl s hs' hid S hS (hA s hsA) e heS
          exact this (hek.trans hkof.symm)
        · rcases List.mem_cons.1 hsSB with e' | hsB
          · exact absurd (by rw [← hid, e']) (hno sl hsl)
          · have hmem : r.toEnt ∈ B.flatMap segEnts := by
              refine List.mem_flatMap.2 ⟨s, hsB, ?_⟩
              unfold segEnts
              exact List.mem_map.2 ⟨r, recs_mem_scan (p := (sl.off, r)) (by rw [hrec]; simp), rfl⟩
            have := lastOf_eq_none.1 hp r.toEnt hmem
            simp [Rec.toEnt, hrk] at this
      | none =>
        -- a delete record is the last record of the key: `S` must be the oldest segment
        obtain ⟨r, hr, hre⟩ := List.mem_map.1 (show e ∈ (scan S.data).1.map Rec.toEnt from heS)
        have hdel : r.del = true := by
          rw [← hre] at hv
          unfold Rec.toEnt at hv
          dsimp only at hv
          cases hd : r.del
          · rw [hd] at hv; simp at hv
          · rfl
        have hhas : hasDelete S = true := by
          unfold hasDelete
          exact List.any_eq_true.2 ⟨r, hr, hdel⟩
        rcases hcond with hc | hc
        · rw [hc] at hhas; cases hhas
        · have hAnil : A = [] := by
            cases A with
            | nil => rfl
            | cons a A' =>
              exfalso
              have h1 := hA a List.mem_cons_self
              have := hc a (hAmem a List.mem_cons_self)
              omega
          rw [hAnil]
          simp [contents, lastRec, lastOf]


theorem compactBegin_wf2 {st : MState} (h : st.WF2) (picked : List Nat) :
    (st.compactBegin picked).1.WF2 ∧ (st.compactBegin picked).1.abs = st.abs := by
  obtain ⟨hwf', habs⟩ := M03_compactBegin_refines st h.1 picked
  have hf : ∀ s : MSeg, ((fun s : MSeg => if picked.contains s.id then { s with full := true } else s) s).id = s.id ∧
      ((fun s : MSeg => if picked.contains s.id then { s with full := true } else s) s).data = s.data := by
    intro s; dsimp only; split <;> exact ⟨rfl, rfl⟩
  refine ⟨⟨hwf', exact_of_allOK ?_, ?_⟩, habs⟩
  · intro sl hsl
    exact slotOK_congr (segData_mapKeep st _ hf sl.seg) (h.ok sl hsl)
  · intro s hs
    obtain ⟨x, hx, rfl⟩ := List.mem_map.1 (show s ∈ st.segs.map _ from hs)
    show CleanD _
    rw [(hf x).2]; exact h.2.2 x hx

theorem compactBegin_seg? (st : MState) (id : Nat) {s : MSeg} (hs : st.seg? id = some s) :
    (st.compactBegin [id]).1.seg? id = some { s with full := true } := by
  have hid : s.id = id := (seg?_some hs).2
  unfold seg? at hs
  unfold seg? compactBegin
  dsimp only
  rw [find_map_id _ (fun x => by split <;> rfl), hs]
  simp [hid]

theorem compactSegment_eq (st : MState) (id : Nat) {s : MSeg} (hs : st.seg? id = some s) :
    st.compactSegment id =
      (((st.compactBegin [id]).1.compactAll ⟨[], some id, recsWithOffsets s.data, true, false⟩
        ((recsWithOffsets s.data).length + 1)).1).removeSeg id := by
  unfold compactSegment
  rw [hs]
  dsimp only
  rw [compactBegin_seg? st id hs]

theorem compactSegment_wf2 (st : MState) (h : st.WF2) (id : Nat) :
    (st.compactSegment id).WF2 ∧ (st.compactSegment id).abs = st.abs := by
  cases hs : st.seg? id with
  | none => unfold compactSegment; rw [hs]; exact ⟨h, rfl⟩
  | some s =>
    rw [compactSegment_eq st id hs]
    have hid : s.id = id := (seg?_some hs).2
    subst hid
    obtain ⟨h1, habs1⟩ := compactBegin_wf2 h [s.id]
    have hmem : ({ s with full := true } : MSeg) ∈ (st.compactBegin [s.id]).1.segs :=
      (seg?_some (compactBegin_seg? st s.id hs)).1
    have := M04_compact_segment _ h1 { s with full := true } hmem rfl
    exact ⟨this.1, this.2.trans habs1⟩

theorem recs_nil : recsWithOffsets ([] : Bytes) = [] := by
  unfold recsWithOffsets; rw [scan_nil]; rfl

theorem compactSegment_wf3 {st : MState} (h : st.WF3) (id : Nat)
    (hcond : ∀ s ∈ st.segs, s.id = id → (hasDelete s = false ∨ ∀ o ∈ st.segs, s.seq ≤ o.seq)) :
    (st.compactSegment id).WF3 := by
  obtain ⟨hgen, habsgen⟩ := compactSegment_wf2 st h.1 id
  cases hs : st.seg? id with
  | none => unfold compactSegment; rw [hs]; exact h
  | some s =>
    rw [compactSegment_eq st id hs] at hgen habsgen ⊢
    obtain ⟨h2, hlc, hN, hSL⟩ := h
    have hid : s.id = id := (seg?_some hs).2
    have hsm : s ∈ st.segs := (seg?_some hs).1
    subst hid
    have hids := h2.1.ids
    obtain ⟨h1, habs1⟩ := compactBegin_wf2 h2 [s.id]
    have hSL1 := compactBegin_segLast h2 hSL [s.id]
    have hseg1 := compactBegin_seg? st s.id hs
    have hmem1 : ({ s with full := true } : MSeg) ∈ (st.compactBegin [s.id]).1.segs := (seg?_some hseg1).1
    have hsegs1 : (st.compactBegin [s.id]).1.segs =
        st.segs.map (fun x => if [s.id].contains x.id then { x with full := true } else x) := rfl
    have hgseq : ∀ x : MSeg, ((fun x : MSeg => if [s.id].contains x.id then { x with full := true } else x) x).seq
        = x.seq := by intro x; dsimp only; split <;> rfl
    have hgents : ∀ x : MSeg,
        segEnts ((fun x : MSeg => if [s.id].contains x.id then { x with full := true } else x) x)
        = segEnts x := by intro x; dsimp only; split <;> rfl
    have hlog1 : slog (st.compactBegin [s.id]).1.segs = slog st.segs := by
      rw [hsegs1]; exact slog_map _ hgseq hgents _
    have hlc1 : (st.compactBegin [s.id]).1.LogCoupled := by
      rw [logCoupled_iff, hlog1, habs1]; exact (logCoupled_iff st).1 hlc
    have hseqs1 : ((st.compactBegin [s.id]).1.segs.map (·.seq)).Nodup := by
      rw [hsegs1, List.map_map]
      have : ((fun x : MSeg => x.seq) ∘
          fun x : MSeg => if [s.id].contains x.id then { x with full := true } else x) = fun x => x.seq := by
        funext x; exact hgseq x
      rw [this]; exact hN.seqs
    -- the lower bound to carry through the loop: `s.seq` if `s` is the oldest, else nothing
    have hq : ∃ q, LB q (st.compactBegin [s.id]).1 ∧ (hasDelete s = false ∨ q = s.seq) := by
      rcases hcond s hsm rfl with hc | hc
      · exact ⟨0, ⟨fun _ _ => Nat.zero_le _, Nat.zero_le _⟩, Or.inl hc⟩
      · refine ⟨s.seq, ⟨?_, ?_⟩, Or.inr rfl⟩
        · intro o ho
          rw [hsegs1] at ho
          obtain ⟨x, hx, rfl⟩ := List.mem_map.1 ho
          rw [hgseq]; exact hc x hx
        · have := hN.le_max s hsm
          show s.seq ≤ st.maxSeq + 1
          omega
    obtain ⟨q, hlb1, hqs⟩ := hq
    have hfinal : ∀ st' : MState, LB q st' →
        (hasDelete ({ s with full := true } : MSeg) = false ∨
          ∀ o ∈ st'.segs, ({ s with full := true } : MSeg).seq ≤ o.seq) := by
      intro st' hlb
      rcases hqs with hc | hc
      · exact Or.inl hc
      · right; intro o ho; have := hlb.1 o ho; show s.seq ≤ o.seq; omega
    -- `WF3` holds after sealing, through the loop, and after removal (an EMPTY source included: since
    -- the order invariant no longer says "only writable segments are empty", no case split is needed)
    have hN1 : (st.compactBegin [s.id]).1.CurNewest := by
      show SegsNewest _ st.maxSeq
      rw [hsegs1]
      refine SegsNewest.map hN _ (fun x _ => hgseq x) ?_
      intro x _ hf
      split at hf
      · cases hf
      · exact hf
    have hwf3_1 : (st.compactBegin [s.id]).1.WF3c := ⟨h1, hlc1, hN1⟩
    obtain ⟨hw', hSL', hlb', hseg'⟩ := compactAll_wf3 s.id { s with full := true } rfl q
      ((recsWithOffsets s.data).length + 1) (st.compactBegin [s.id]).1
      ⟨[], some s.id, recsWithOffsets s.data, true, false⟩ hwf3_1 hSL1 hlb1 rfl hseg1 ⟨[], rfl⟩
    have hslots : ∀ sl ∈ (st.compactBegin [s.id]).1.idx.slots, sl.seg = s.id →
        ∃ p ∈ recsWithOffsets s.data, sl.off = p.1 := by
      intro sl hsl hsg
      obtain ⟨x, hx, hxid, done, r, rest, hrec, _⟩ := slot_record h1 hsl
      have := eq_of_id h1.1.ids hx hmem1 (hxid.trans hsg)
      rw [this] at hrec
      exact ⟨(sl.off, r), by rw [show s.data = ({ s with full := true } : MSeg).data from rfl, hrec]; simp, rfl⟩
    obtain ⟨_, _, _, habsL, hno⟩ := compactAll_inv s.id { s with full := true } rfl
      ((recsWithOffsets s.data).length + 1) (st.compactBegin [s.id]).1
      ⟨[], some s.id, recsWithOffsets s.data, true, false⟩ h1.1 h1.ok h1.clean rfl hseg1 ⟨[], rfl⟩
      hslots (Nat.le_succ _)
    obtain ⟨hw2', hlc', hN'⟩ := hw'
    have hmem' := (seg?_some hseg').1
    refine ⟨hgen, ?_, SegsNewest.filter hN' _, removeSeg_segLast hSL' s.id hno⟩
    exact removeSeg_coupled (S := { s with full := true }) hw2' hlc' hSL' hN'.seqs hmem'
      (hfinal _ hlb') hno (habsgen.trans (habsL.trans habs1).symm)


/-! ### the empty database, one step -/

theorem init_wf3 (maxSeg : Nat) (seed : UInt32) : (MState.init maxSeg seed).WF3 := by
  have h0 : (⟨⟨maxSeg⟩, seed, [], none, 0, Index.empty⟩ : MState).CurNewest := by
    show SegsNewest [] 0
    refine ⟨List.nodup_nil, ?_, ?_⟩ <;> intro _ h <;> cases h
  obtain ⟨hN, hlog⟩ := swap_newest h0
  refine ⟨M04_init maxSeg seed, ?_, hN, ?_⟩
  · rw [logCoupled_iff, (M01_init_wf maxSeg seed).2]
    show contents (slog (MState.swapSegment _).segs) = _
    rw [hlog]
    exact contents_nil
  · intro sl hsl
    have hidx : (MState.init maxSeg seed).idx = Index.empty := by unfold MState.init; rw [swap_idx]
    rw [hidx] at hsl
    cases hsl

theorem WF3.core {st : MState} (h : st.WF3) : st.WF3c := ⟨h.1, h.2.1, h.2.2.1⟩
theorem wf3_intro {st : MState} (h : st.WF3c) (hSL : st.SegLast) : st.WF3 :=
  ⟨h.1, h.2.1, h.2.2, hSL⟩

theorem put_rejects (st : MState) (k v : Bytes)
    (h : maxKeyLength < k.length ∨ maxValueLength < v.length) :
    (st.put k v).1 = st ∧ (st.put k v).2 ≠ .ok := by
  unfold MState.put
  by_cases hk : k.length > maxKeyLength
  · rw [if_pos hk]; simp
  · have hv : v.length > maxValueLength := by
      rcases h with h | h
      · exact absurd h hk
      · exact h
    rw [if_neg hk, if_pos hv]; simp

theorem step_wf3 (st : MState) (h : st.WF3) (op : MOp) (hop : MOpOK op) (hc : st.CompactOK op) :
    MSpecOut st.abs op (st.stepOp op).2 ∧ (st.stepOp op).1.WF3 ∧
    (st.stepOp op).1.abs = mSpecStep st.abs op := by
  have hwf := h.1.1
  cases op with
  | put k v =>
    by_cases hb : k.length ≤ maxKeyLength ∧ v.length ≤ maxValueLength
    · obtain ⟨hok, _, habs⟩ := M01_put_refines st hwf k v hb.1 hb.2
      refine ⟨?_, wf3_intro (put_wf3c h.core k v hb.1 hb.2)
        (put_segLast h.1 h.2.2.1 h.2.2.2 k v hb.1 hb.2), ?_⟩
      · show (st.put k v).2 = .ok ↔ _
        exact ⟨fun _ => hb, fun _ => hok⟩
      · show (st.put k v).1.abs = _
        rw [habs]
        show _ = if k.length ≤ maxKeyLength ∧ v.length ≤ maxValueLength then st.abs.put k v else st.abs
        rw [if_pos hb]
    · have hb' : maxKeyLength < k.length ∨ maxValueLength < v.length := by
        by_cases h1 : k.length ≤ maxKeyLength
        · right; have : ¬ v.length ≤ maxValueLength := fun h2 => hb ⟨h1, h2⟩; omega
        · left; omega
      obtain ⟨hst, hres⟩ := put_rejects st k v hb'
      refine ⟨?_, ?_, ?_⟩
      · show (st.put k v).2 = .ok ↔ _
        exact ⟨fun e => absurd e hres, fun e => absurd e hb⟩
      · show (st.put k v).1.WF3
        rw [hst]; exact h
      · show (st.put k v).1.abs = _
        rw [hst]
        show _ = if k.length ≤ maxKeyLength ∧ v.length ≤ maxValueLength then st.abs.put k v else st.abs
        rw [if_neg hb]
  | del k =>
    exact ⟨trivial, wf3_intro (delete_wf3c h.core k hop)
      (delete_segLast h.1 h.2.2.1 h.2.2.2 k hop), (M01_delete_refines st hwf k).2⟩
  | get k => exact ⟨rfl, h, rfl⟩
  | has k => exact ⟨(M01_has_count st hwf k).1, h, rfl⟩
  | count =>
    obtain ⟨_, hcnt, hnd, hitems⟩ := M01_has_count st hwf []
    exact ⟨⟨st.items, hnd, hitems, hcnt⟩, h, rfl⟩
  | reopen =>
    exact ⟨trivial, wf3_intro (reopen_wf3c h.core) (reopen_segLast h.1 h.2.2.2), (reopen_wf2 st h.1).2⟩
  | recover seed =>
    exact ⟨trivial, wf3_intro (recover_wf3c h.core seed).1 (recover_segLast h.1 h.2.2.1 seed),
      (recover_wf3c h.core seed).2⟩
  | compact id => exact ⟨trivial, compactSegment_wf3 h id hc, (compactSegment_wf2 st h.1 id).2⟩

/-- The model's `pickOK` (C05's `PickOK`) for a single picked segment implies `CompactOK`. -/
theorem compactOK_of_pickOK {st : MState} (hids : (st.segs.map (·.id)).Nodup) {id : Nat}
    (h : st.pickOK [id] = true) : st.CompactOK (.compact id) := by
  intro s hs hid
  have hseg : st.seg? id = some s := by rw [← hid]; exact seg?_of_mem hids hs
  simp [pickOK, hseg] at h
  rcases h with h | h
  · exact Or.inl h
  · right
    intro o ho
    rcases h o ho with h1 | h1
    · exact h1
    · rw [eq_of_id hids ho hs (h1.trans hid.symm)]; exact Nat.le_refl _

end MState
----------------------------------------------------------------------------------------------

-- THEOREMS TO PROVE (statements fixed; if one is false as written, follow the _partial protocol) --

theorem M05_reopen (st : MState) (h : st.WF2) : st.reopenClean.WF2 ∧ st.reopenClean.abs = st.abs :=
  MState.reopen_wf2 st h

theorem M05_compactSegment (st : MState) (h : st.WF2) (id : Nat) :
    (st.compactSegment id).WF2 ∧ (st.compactSegment id).abs = st.abs :=
  MState.compactSegment_wf2 st h id

/-! ### Counterexamples to the remaining three statements as written (evaluated) -/

/-- (1) A `WF2` state whose log holds a put record no slot points at (index empty, segment clean):
`get [1] = none`, but after `.recover` `get [1] = some [2]`. -/
def M05_cx1 : MState :=
  ⟨⟨4096⟩, 0, [⟨0, 1, Rec.encode ⟨false, [1], [2]⟩, false⟩], some 0, 1, Index.empty⟩
#eval (M05_cx1.get [1], (M05_cx1.reopenRecover 0).get [1])            -- (none, some [2])


-- the same counterexample, proved: `M05_cx1` is `WF2`, and `M05_step` as written is false
theorem M05_empty_get (h : Nat) (m : Slot → Bool) : Index.empty.get h m = none := by
  unfold Index.get Index.chain Index.empty Chain.get
  dsimp only
  generalize Index.bucketIndex _ h = i
  cases i with
  | zero => rfl
  | succ n => rfl

theorem M05_get_of_empty (st : MState) (h : st.idx = Index.empty) (k : Bytes) : st.get k = none := by
  unfold MState.get; rw [h, M05_empty_get]

theorem M05_cx1_wf2 : M05_cx1.WF2 := by
  have hslots : M05_cx1.idx.slots = [] := rfl
  refine ⟨⟨by decide, Index.inv_empty _ _, ?_, ?_, Or.inr trivial⟩, ?_, ?_⟩
  · intro sl hsl; rw [hslots] at hsl; cases hsl
  · intro a ha; rw [hslots] at ha; cases ha
  · intro sl hsl; rw [hslots] at hsl; cases hsl
  · intro s hs
    have : s = ⟨0, 1, Rec.encode ⟨false, [1], [2]⟩, false⟩ := by simpa [M05_cx1] using hs
    rw [this]
    show MState.CleanD (Rec.encode ⟨false, [1], [2]⟩)
    have h := MState.cleanD_encodeAll [⟨false, [1], [2]⟩] (by decide)
    simpa [encodeAll] using h

theorem M05_cx1_before : M05_cx1.abs [1] = none := M05_get_of_empty M05_cx1 rfl [1]
theorem M05_cx1_after : recovered M05_cx1.files [1] = some [2] := by decide +kernel

theorem M05_step_false : ¬ ∀ (st : MState), st.WF2 → ∀ (op : MOp), MOpOK op →
    (MSpecOut st.abs op (st.stepOp op).2 ∧ (st.stepOp op).1.WF2 ∧
      (st.stepOp op).1.abs = mSpecStep st.abs op) := by
  intro h
  have h3 := (h M05_cx1 M05_cx1_wf2 (.recover 0) trivial).2.2
  have h4 : (M05_cx1.reopenRecover 0).abs = M05_cx1.abs := h3
  rw [(M02_recover_refines M05_cx1 M05_cx1_wf2.1.ids 0).2] at h4
  have := congrFun h4 [1]
  rw [M05_cx1_before, M05_cx1_after] at this
  cases this

/-- The `get` outputs of a run. -/
def M05_gets (st : MState) : List MOp → List (Option Bytes)
  | [] => []
  | op :: ops => (match (st.stepOp op).2 with | .val v => [v] | _ => []) ++ M05_gets (st.stepOp op).1 ops

/-- (2) NO LONGER a counterexample (kept as a regression check of fix F13). From `init` with a segment
size that a record exceeds (`RecFits` violated): the oversized record seals the EMPTY segment 0 (seq 1)
and goes to segment 1 (seq 2). With the OLD clean reopen the empty segment 0 became writable again, the
next Put landed in it, i.e. BEFORE the older record in replay order, and recovery returned the old
value (`[some [2], some [7, 7, ...]]`). Since fix F13 the clean reopen keeps segment 0 sealed, the Put
goes to the newest segment 1, and both reads return `[2]`, as the specification demands. -/
def M05_ops2 : List MOp :=
  [.put [1] (List.replicate 20 7), .reopen, .put [1] [2], .get [1], .recover 5, .get [1]]
#eval M05_gets (MState.init 532 0) M05_ops2                              -- [some [2], some [2]]

/-- (3) From `init`: compacting a segment that is not the oldest and holds a delete record drops the
delete record; recovery resurrects the key. (`pickOK [1] = false` in that state.) Specification:
all three reads return `none`. -/
def M05_ops3 : List MOp :=
  [.put [1] [1], .put [2] [2], .del [1], .get [1], .compact 1, .get [1], .recover 5, .get [1]]
#eval M05_gets (MState.init 536 0) M05_ops3                              -- [none, none, some [1]]
#eval ((MState.init 536 0).runOps (M05_ops3.take 3)).pickOK [1]           -- false

/- ORIGINAL STATEMENTS — FALSE as written:

/-- One step: the output is the specification's, `WF2` is kept, the abstraction follows the spec. -/
theorem M05_step (st : MState) (h : st.WF2) (op : MOp) (hop : MOpOK op) :
    MSpecOut st.abs op (st.stepOp op).2 ∧ (st.stepOp op).1.WF2 ∧ (st.stepOp op).1.abs = mSpecStep st.abs op

/-- **Every operation sequence.** -/
theorem M05_run_refines (ops : List MOp) (st : MState) (h : st.WF2) (hops : ∀ op ∈ ops, MOpOK op) :
    st.RunOK st.abs ops ∧ (st.runOps ops).WF2 ∧ (st.runOps ops).abs = ops.foldl mSpecStep st.abs

/-- From the empty database. -/
theorem M05_from_init (maxSeg : Nat) (seed : UInt32) (ops : List MOp) (hops : ∀ op ∈ ops, MOpOK op) :
    (MState.init maxSeg seed).RunOK KV.empty ops ∧
    ((MState.init maxSeg seed).runOps ops).abs = ops.foldl mSpecStep KV.empty

`M05_step`, `M05_run_refines`: `WF2` does not couple the contents to the log, so `.recover` changes
the contents of `M05_cx1` (counterexample 1; `M05_cx1.WF2` holds: no slots, one clean segment).
`M05_from_init`: false when `.compact` is applied to a segment holding delete records that is not the
oldest (counterexample 3, the `PickOK` precondition of compaction, C05). (Before fix F13 it was also
false for every `maxSeg` that a record can exceed - the former model precondition RecFits, run (2)
above; with the repaired `reopenClean` that restriction is gone: `M05_from_init_partial` now holds for
EVERY `maxSeg`.)

The `_partial` versions replace `WF2` by `WF3` (= `WF2` + `LogCoupled` + `CurNewest` + `SegLast`, defined
above), which every operation preserves, and restrict `.compact id` by the state-dependent
precondition `CompactOK` (the compacted segment holds no delete record or is the oldest one; it follows
from the model's `pickOK [id]`, see `MState.compactOK_of_pickOK`; `OpsOK` threads it through a run). -/

/-- One step: the output is the specification's, `WF3` is kept, the abstraction follows the spec. -/
theorem M05_step_partial (st : MState) (h : st.WF3) (op : MOp) (hop : MOpOK op) (hc : st.CompactOK op) :
    MSpecOut st.abs op (st.stepOp op).2 ∧ (st.stepOp op).1.WF3 ∧ (st.stepOp op).1.abs = mSpecStep st.abs op :=
  MState.step_wf3 st h op hop hc

/-- **Every admissible operation sequence**: Put, Delete, Get, Has, Count, clean restart, crash recovery
and compaction of any segment satisfying `PickOK`, in any order and number. -/
theorem M05_run_refines_partial (ops : List MOp) (st : MState) (h : st.WF3) (hops : st.OpsOK ops) :
    st.RunOK st.abs ops ∧ (st.runOps ops).WF3 ∧ (st.runOps ops).abs = ops.foldl mSpecStep st.abs := by
  induction ops generalizing st with
  | nil => exact ⟨trivial, h, rfl⟩
  | cons op rest ih =>
    obtain ⟨hop, hc, hrest⟩ := hops
    obtain ⟨hout, hwf3, habs⟩ := M05_step_partial st h op hop hc
    obtain ⟨h1, h2, h3⟩ := ih (st.stepOp op).1 hwf3 hrest
    rw [habs] at h1 h3
    exact ⟨⟨hout, h1⟩, h2, h3⟩

/-- From the empty database, for EVERY segment size (no RecFits precondition since fix F13). -/
theorem M05_from_init_partial (maxSeg : Nat)
    (seed : UInt32) (ops : List MOp) (hops : (MState.init maxSeg seed).OpsOK ops) :
    (MState.init maxSeg seed).RunOK KV.empty ops ∧
    ((MState.init maxSeg seed).runOps ops).abs = ops.foldl mSpecStep KV.empty := by
  obtain ⟨h1, _, h3⟩ := M05_run_refines_partial ops _ (MState.init_wf3 maxSeg seed) hops
  rw [(M01_init_wf maxSeg seed).2] at h1 h3
  exact ⟨h1, h3⟩

end Pogreb
