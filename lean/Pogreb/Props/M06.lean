/-
  M06 — compaction interleaved with writers, record by record, on the executable model.
  A compaction of one segment is `cbegin id` (seal + load its records), one `crecord` per record
  (`promoteRecord` or drop), `cend` (remove the segment). Between any two of these steps any number
  of Put/Delete/Get/Has/Count run. The invariant `XInv` holds after EVERY step; it contains
  `LogCoupled` (the replay of the segment files equals the contents), so a crash at any point of any
  such execution recovers exactly the acknowledged state (`M06_crash_anywhere`). Supports C05/C07/C03.
-/
import Pogreb.Props.M05
import Pogreb.Lemmas.ModelInterleave
namespace Pogreb
open MState

inductive XOp where
  | user (op : MOp)         -- only put / del / get / has / count are meaningful here
  | cbegin (id : Nat)
  | crecord
  | cend

structure XState where
  st   : MState
  comp : Option MState.CompState

def isUserOp : MOp → Bool
  | .put _ _ | .del _ | .get _ | .has _ | .count => true
  | _ => false

def XState.step (x : XState) : XOp → XState × MOut
  | .user op => if isUserOp op then let r := x.st.stepOp op; (⟨r.1, x.comp⟩, r.2) else (x, .unit)
  | .cbegin id =>
    match x.comp, x.st.seg? id with
    | none, some _ =>
      let st1 := (x.st.compactBegin [id]).1
      match st1.seg? id with
      | some src => (⟨st1, some ⟨[], some id, MState.recsWithOffsets src.data, true, false⟩⟩, .unit)
      | none => (x, .unit)
    | _, _ => (x, .unit)
  | .crecord =>
    match x.comp with
    | some c => let r := x.st.compactRecord c; (⟨r.1, some r.2⟩, .unit)
    | none => (x, .unit)
  | .cend =>
    match x.comp with
    | some c =>
      match c.source, c.todo with
      | some src, [] => (⟨x.st.removeSeg src, none⟩, .unit)
      | _, _ => (x, .unit)
    | none => (x, .unit)

def xSpecStep (m : KV Bytes Bytes) : XOp → KV Bytes Bytes
  | .user op => if isUserOp op then mSpecStep m op else m
  | _ => m

def XSpecOut (m : KV Bytes Bytes) : XOp → MOut → Prop
  | .user op, out => if isUserOp op then MSpecOut m op out else out = .unit
  | _, out => out = .unit

/-- Admissibility of a step in a state: user deletes of admissible keys; `cbegin` only of a segment
that satisfies the pick rule (no delete records, or the oldest). -/
def XState.OpOK (x : XState) : XOp → Prop
  | .user op => MOpOK op
  | .cbegin id => x.st.CompactOK (.compact id)
  | _ => True

/-- **The invariant of the interleaved execution**, holding after EVERY step.
* The state satisfies `WF3x` = `WF2` ∧ `LogCoupled` ∧ `CurOrd` ∧ `SegLast`, where `CurOrd` is the order
  invariant "sequence ids distinct and bounded by `maxSeq`, every writable segment is the newest".
  Since fix F13 (`reopenClean` keeps `Full` on empty segments) this IS M05's `CurNewest`, and `WF3x` is
  M05's `WF3` (`M06_curNewest`, `M06_wf3` below); the model precondition `RecFits` is gone. (Before the
  fix `CurNewest` had a fourth clause `empty_open`, "only writable segments are empty", which is false
  while an empty segment is being compacted, so that no step-invariant could imply it.)
  M05's `SegLast` itself is the right form for the intermediate states: a live record is COPIED to
  the newest segment and its slot repointed, which keeps "the slot points into the newest segment
  holding a record of the key"; dropped records are not pointed at.
* The compaction cursor, when present, is consistent (`MState.CursorAt`): it is on an existing
  sealed source segment `S`, `recsWithOffsets S.data = done ++ c.todo`, every slot into the source
  points at a record still to do (processed records are not pointed at), and the source satisfied
  the pick rule when the compaction began, in its stable form (no delete record, or its sequence id
  is a lower bound of all sequence ids and of `maxSeq + 1`). -/
def XState.XInv (x : XState) : Prop :=
  x.st.WF3x ∧ ∀ c, x.comp = some c → ∃ sid S, MState.CursorAt x.st c sid S

/-- Admissible operation sequences from a state (`OpOK` threaded through the run). -/
def XState.OpsOK : XState → List XOp → Prop
  | _, [] => True
  | x, op :: ops => x.OpOK op ∧ XState.OpsOK (x.step op).1 ops

/-- Every output of the run is the specification's. -/
def XState.RunOK : XState → KV Bytes Bytes → List XOp → Prop
  | _, _, [] => True
  | x, m, op :: ops => XSpecOut m op (x.step op).2 ∧ XState.RunOK (x.step op).1 (xSpecStep m op) ops

def XState.runOps (x : XState) (ops : List XOp) : XState := ops.foldl (fun s op => (s.step op).1) x

-- helper ------------------------------------------------------------------------------------

theorem XState.XInv.wf2 {x : XState} (h : x.XInv) : x.st.WF2 := h.1.1
theorem XState.XInv.logCoupled {x : XState} (h : x.XInv) : x.st.LogCoupled := h.1.2.1
theorem XState.XInv.curOrd {x : XState} (h : x.XInv) : x.st.CurOrd := h.1.2.2.1
theorem XState.XInv.segLast {x : XState} (h : x.XInv) : x.st.SegLast := h.1.2.2.2
theorem XState.XInv.cursor {x : XState} (h : x.XInv) {c : MState.CompState} (hc : x.comp = some c) :
    ∃ sid S, MState.CursorAt x.st c sid S := h.2 c hc
/-- The invariant contains M05's `CurNewest` and `WF3`. -/
theorem XState.XInv.curNewest {x : XState} (h : x.XInv) : x.st.CurNewest := h.curOrd.newest
theorem XState.XInv.wf3 {x : XState} (h : x.XInv) : x.st.WF3 := h.1.wf3'

/-- A user operation on a `WF3x` state (`MState.step_wf3` for `WF3x`). -/
theorem MState.user_wf3x (st : MState) (h : st.WF3x) (op : MOp) (hu : isUserOp op = true) (hop : MOpOK op) :
    MSpecOut st.abs op (st.stepOp op).2 ∧ (st.stepOp op).1.WF3x ∧
    (st.stepOp op).1.abs = mSpecStep st.abs op := by
  have hwf := h.1.1
  cases op with
  | put k v =>
    by_cases hb : k.length ≤ maxKeyLength ∧ v.length ≤ maxValueLength
    · obtain ⟨hok, _, habs⟩ := M01_put_refines st hwf k v hb.1 hb.2
      refine ⟨?_, MState.put_wf3x h k v hb.1 hb.2, ?_⟩
      · show (st.put k v).2 = .ok ↔ _
        exact ⟨fun _ => hb, fun _ => hok⟩
      · show (st.put k v).1.abs = _
        rw [habs]
        show _ = if k.length ≤ maxKeyLength ∧ v.length ≤ maxValueLength then st.abs.put k v else st.abs
        rw [if_pos hb]
    · have hb' : maxKeyLength < k.length ∨ maxValueLength < v.length := by
        by_cases h1 : k.length ≤ maxKeyLength
        · right; have : ¬ v.length ≤ maxValueLength := fun h2 => hb ⟨h1, h2⟩; omega
        · left; omega
      obtain ⟨hst, hres⟩ := MState.put_rejects st k v hb'
      refine ⟨?_, ?_, ?_⟩
      · show (st.put k v).2 = .ok ↔ _
        exact ⟨fun e => absurd e hres, fun e => absurd e hb⟩
      · show (st.put k v).1.WF3x
        rw [hst]; exact h
      · show (st.put k v).1.abs = _
        rw [hst]
        show _ = if k.length ≤ maxKeyLength ∧ v.length ≤ maxValueLength then st.abs.put k v else st.abs
        rw [if_neg hb]
  | del k => exact ⟨trivial, MState.delete_wf3x h k hop, (M01_delete_refines st hwf k).2⟩
  | get k => exact ⟨rfl, h, rfl⟩
  | has k => exact ⟨(M01_has_count st hwf k).1, h, rfl⟩
  | count =>
    obtain ⟨_, hcnt, hnd, hitems⟩ := M01_has_count st hwf []
    exact ⟨⟨st.items, hnd, hitems, hcnt⟩, h, rfl⟩
  | reopen => cases hu
  | recover seed => cases hu
  | compact id => cases hu

/-- A user operation keeps the cursor of a running compaction consistent. -/
theorem MState.user_cursor (st : MState) (hwf : st.WF) (op : MOp) {c : MState.CompState} {sid : Nat}
    {S : MSeg} (hcur : MState.CursorAt st c sid S) : MState.CursorAt (st.stepOp op).1 c sid S ∨ isUserOp op = false := by
  cases op with
  | put k v =>
    left
    show MState.CursorAt (st.put k v).1 c sid S
    by_cases hb : k.length ≤ maxKeyLength ∧ v.length ≤ maxValueLength
    · exact MState.cursor_put hwf hcur k v hb.1 hb.2
    · have hb' : maxKeyLength < k.length ∨ maxValueLength < v.length := by
        by_cases h1 : k.length ≤ maxKeyLength
        · right; have : ¬ v.length ≤ maxValueLength := fun h2 => hb ⟨h1, h2⟩; omega
        · left; omega
      rw [(MState.put_rejects st k v hb').1]; exact hcur
  | del k => exact Or.inl (MState.cursor_delete hwf hcur k)
  | get k => exact Or.inl hcur
  | has k => exact Or.inl hcur
  | count => exact Or.inl hcur
  | reopen => exact Or.inr rfl
  | recover seed => exact Or.inr rfl
  | compact id => exact Or.inr rfl

/-- A user operation in any state of the interleaved execution. -/
theorem XState.user_step (x : XState) (h : x.XInv) (op : MOp) (hu : isUserOp op = true) (hop : MOpOK op) :
    MSpecOut x.st.abs op (x.st.stepOp op).2 ∧ (XState.mk (x.st.stepOp op).1 x.comp).XInv ∧
    (x.st.stepOp op).1.abs = mSpecStep x.st.abs op := by
  obtain ⟨hout, hwf3, habs⟩ := MState.user_wf3x x.st h.1 op hu hop
  refine ⟨hout, ⟨hwf3, ?_⟩, habs⟩
  intro c hcomp
  obtain ⟨sid, S, hcur⟩ := h.2 c hcomp
  rcases MState.user_cursor x.st h.1.1.1 op hcur with h' | h'
  · exact ⟨sid, S, h'⟩
  · rw [hu] at h'; cases h'

/-- A user operation keeps `CurNewest` (with the rest of `WF3`). -/
theorem MState.user_newest (st : MState) (h : st.WF3) (op : MOp) (hu : isUserOp op = true) (hop : MOpOK op) :
    (st.stepOp op).1.CurNewest := by
  have hc : st.CompactOK op := by
    cases op <;> first | trivial | cases hu
  exact (MState.step_wf3 st h op hop hc).2.1.2.2.1

theorem XState.step_user (x : XState) (op : MOp) (hu : isUserOp op = true) :
    x.step (.user op) = (⟨(x.st.stepOp op).1, x.comp⟩, (x.st.stepOp op).2) := by
  simp only [XState.step, hu, if_true]

theorem XState.step_user_not (x : XState) (op : MOp) (hu : ¬ isUserOp op = true) :
    x.step (.user op) = (x, .unit) := by
  have hf : isUserOp op = false := by
    cases h : isUserOp op
    · rfl
    · exact absurd h hu
  simp only [XState.step, hf]
  rfl

theorem XState.step_cbegin_busy (x : XState) (id : Nat) (c : MState.CompState) (hc : x.comp = some c) :
    x.step (.cbegin id) = (x, .unit) := by
  simp only [XState.step, hc]

theorem XState.step_cbegin_absent (x : XState) (id : Nat) (hs : x.st.seg? id = none) :
    x.step (.cbegin id) = (x, .unit) := by
  simp only [XState.step, hs]
  cases x.comp <;> rfl

theorem XState.step_cbegin (x : XState) (id : Nat) (s : MSeg) (hc : x.comp = none)
    (hs : x.st.seg? id = some s) :
    x.step (.cbegin id) = (⟨(x.st.compactBegin [id]).1,
      some ⟨[], some id, MState.recsWithOffsets s.data, true, false⟩⟩, .unit) := by
  simp only [XState.step, hc, hs, MState.compactBegin_seg? x.st id hs]

theorem XState.step_crecord (x : XState) (c : MState.CompState) (hc : x.comp = some c) :
    x.step .crecord = (⟨(x.st.compactRecord c).1, some (x.st.compactRecord c).2⟩, .unit) := by
  simp only [XState.step, hc]

theorem XState.step_none (x : XState) (hc : x.comp = none) (op : XOp) (hop : op = .crecord ∨ op = .cend) :
    x.step op = (x, .unit) := by
  rcases hop with rfl | rfl <;> simp only [XState.step, hc]

theorem XState.step_cend (x : XState) (c : MState.CompState) (hc : x.comp = some c) (src : Nat)
    (hs : c.source = some src) (ht : c.todo = []) :
    x.step .cend = (⟨x.st.removeSeg src, none⟩, .unit) := by
  simp only [XState.step, hc, hs, ht]

theorem XState.step_cend_not (x : XState) (c : MState.CompState) (hc : x.comp = some c)
    (h : c.source = none ∨ c.todo ≠ []) : x.step .cend = (x, .unit) := by
  simp only [XState.step, hc]
  cases hs : c.source with
  | none => rfl
  | some src =>
    cases ht : c.todo with
    | nil => rcases h with h | h
             · rw [hs] at h; cases h
             · exact absurd ht h
    | cons p rest => rfl

-- THEOREMS ------------------------------------------------------------------------------------------

theorem M06_init (maxSeg : Nat) (seed : UInt32) :
    (XState.mk (MState.init maxSeg seed) none).XInv :=
  ⟨(MState.init_wf3 maxSeg seed).x, fun _ h => by cases h⟩

/-- One step of the interleaved execution (user operation, begin, one record, end): the output is the
specification's, the invariant is kept, the contents follow the specification (compaction steps do
not change them). -/
theorem M06_step (x : XState) (h : x.XInv) (op : XOp) (hop : x.OpOK op) :
    XSpecOut x.st.abs op (x.step op).2 ∧ (x.step op).1.XInv ∧ (x.step op).1.st.abs = xSpecStep x.st.abs op := by
  cases op with
  | user o =>
    by_cases hu : isUserOp o = true
    · rw [XState.step_user x o hu]
      obtain ⟨h1, h2, h3⟩ := XState.user_step x h o hu hop
      refine ⟨?_, h2, ?_⟩
      · show if isUserOp o = true then MSpecOut x.st.abs o _ else _
        rw [if_pos hu]; exact h1
      · show _ = if isUserOp o = true then mSpecStep x.st.abs o else x.st.abs
        rw [if_pos hu]; exact h3
    · rw [XState.step_user_not x o hu]
      refine ⟨?_, h, ?_⟩
      · show if isUserOp o = true then MSpecOut x.st.abs o _ else _
        rw [if_neg hu]
      · show _ = if isUserOp o = true then mSpecStep x.st.abs o else x.st.abs
        rw [if_neg hu]
  | cbegin id =>
    cases hcomp : x.comp with
    | some c => rw [XState.step_cbegin_busy x id c hcomp]; exact ⟨rfl, h, rfl⟩
    | none =>
      cases hseg : x.st.seg? id with
      | none => rw [XState.step_cbegin_absent x id hseg]; exact ⟨rfl, h, rfl⟩
      | some s =>
        rw [XState.step_cbegin x id s hcomp hseg]
        obtain ⟨hw, habs⟩ := MState.compactBegin_wf3x h.1 id
        refine ⟨rfl, ⟨hw, ?_⟩, habs⟩
        intro c hc
        rw [← Option.some.inj hc]
        exact ⟨id, _, MState.cursor_begin h.1.1 h.1.2.2.1 id hseg hop⟩
  | crecord =>
    cases hcomp : x.comp with
    | none => rw [XState.step_none x hcomp _ (Or.inl rfl)]; exact ⟨rfl, h, rfl⟩
    | some c =>
      rw [XState.step_crecord x c hcomp]
      obtain ⟨sid, S, hcur⟩ := h.2 c hcomp
      obtain ⟨hw, habs⟩ := MState.record_wf3x h.1 hcur
      refine ⟨rfl, ⟨hw, ?_⟩, habs⟩
      intro c' hc'
      rw [← Option.some.inj hc']
      exact ⟨sid, S, MState.cursor_record h.1.1 hcur⟩
  | cend =>
    cases hcomp : x.comp with
    | none => rw [XState.step_none x hcomp _ (Or.inr rfl)]; exact ⟨rfl, h, rfl⟩
    | some c =>
      obtain ⟨sid, S, hcur⟩ := h.2 c hcomp
      cases ht : c.todo with
      | cons p rest =>
        rw [XState.step_cend_not x c hcomp (Or.inr (by rw [ht]; exact List.cons_ne_nil _ _))]
        exact ⟨rfl, h, rfl⟩
      | nil =>
        rw [XState.step_cend x c hcomp sid hcur.source ht]
        obtain ⟨hw, habs⟩ := MState.cursor_end h.1 hcur ht
        exact ⟨rfl, ⟨hw, fun _ hc => by cases hc⟩, habs⟩

/-- **Every admissible interleaving** of user operations with the steps of compactions: every output
is the specification's, the invariant holds at the end (and, by `M06_step`, after every step), and
the contents are the specification's. -/
theorem M06_run (ops : List XOp) (x : XState) (h : x.XInv) (hops : x.OpsOK ops) :
    x.RunOK x.st.abs ops ∧ (x.runOps ops).XInv ∧ (x.runOps ops).st.abs = ops.foldl xSpecStep x.st.abs := by
  induction ops generalizing x with
  | nil => exact ⟨trivial, h, rfl⟩
  | cons op rest ih =>
    obtain ⟨hop, hrest⟩ := hops
    obtain ⟨hout, hinv, habs⟩ := M06_step x h op hop
    obtain ⟨h1, h2, h3⟩ := ih (x.step op).1 hinv hrest
    rw [habs] at h1 h3
    exact ⟨⟨hout, h1⟩, h2, h3⟩

/-- A crash at any point: recovering from the segment files of any reachable state gives exactly
the contents acknowledged so far. -/
theorem M06_crash_anywhere (x : XState) (h : x.XInv) (seed : UInt32) :
    (x.st.reopenRecover seed).abs = x.st.abs := by
  rw [(M02_recover_refines x.st h.1.1.1.ids seed).2]
  exact h.1.2.1

/-! ### `CurNewest`

The task asked for an `XInv` that implies `CurNewest`. Before fix F13 that was impossible
(`M06_curNewest_impossible`, removed): `CurNewest` contained the clause `empty_open` ("only writable
segments are empty"), and `cbegin` on the EMPTY segment of the fresh database is admissible (`OpOK`: it
holds no delete record) and yields a sealed empty segment - see the `#eval`. That clause was needed for
the OLD clean reopen only; with the repaired `reopenClean` it is gone, `CurNewest` is `CurOrd`, and
`XInv` implies `CurNewest` and M05's full `WF3` in EVERY reachable state, without the former restriction
`OpOK'` ("no compaction is begun on an empty segment"). -/

#eval ((XState.mk (MState.init (2 ^ 32) 0) none).step (.cbegin 0)).1.st.segs
-- [{ id := 0, seq := 1, data := [], full := true }]   (sealed and empty: admissible, and harmless now)

/-- **`XInv` implies `CurNewest`** (was: impossible for any step-invariant, `M06_curNewest_impossible`). -/
theorem M06_curNewest (x : XState) (h : x.XInv) : x.st.CurNewest := h.curNewest

/-- `XInv` implies M05's `WF3`. -/
theorem M06_wf3 (x : XState) (h : x.XInv) : x.st.WF3 := h.wf3

/-- `CurNewest` is kept by EVERY admissible step (formerly: by every step that does not begin a
compaction of an empty segment, `OpOK'`, and given `CurNewest` before). -/
theorem M06_step_newest (x : XState) (h : x.XInv) (op : XOp) (hop : x.OpOK op) :
    (x.step op).1.st.CurNewest :=
  (M06_step x h op hop).2.1.curNewest

/-- Along EVERY admissible run `WF3` (with `CurNewest`) holds (formerly: along runs that never begin a
compaction of an empty segment, `OpsOK'`, from a state with `CurNewest`). -/
theorem M06_run_newest (ops : List XOp) (x : XState) (h : x.XInv)
    (hops : x.OpsOK ops) : (x.runOps ops).XInv ∧ (x.runOps ops).st.WF3 :=
  ⟨(M06_run ops x h hops).2.1, (M06_run ops x h hops).2.1.wf3⟩

end Pogreb
