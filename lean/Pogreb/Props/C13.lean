/-
  C13 — one open handle per directory; unclean shutdown is always detected.
  Theorems about the lock-file machine `Pogreb.Lock` (any number of processes, any interleaving of
  their system calls, crashes at any point). The machine's call sequence is tied to the source by
  `Generated.lockAcquireCalls/lockReleaseCalls` (see `C13_calls_as_modelled`).
-/
import Pogreb.Lock
import Pogreb.Generated.LockCalls
namespace Pogreb

open Pogreb.Lock

/-- The system calls the model's program makes are the ones the source makes, in that order. -/
theorem C13_calls_as_modelled :
    Generated.lockAcquireCalls =
      ["os.OpenFile(os.O_RDWR | os.O_CREATE | os.O_EXCL)", "os.OpenFile(os.O_RDWR)", "syscall.Flock(syscall.LOCK_EX | syscall.LOCK_NB)", "Close", "Close", "os.Stat", "Close", "Close", "Close"] ∧
    Generated.lockReleaseCalls = ["os.Remove", "Close"] := by
  decide

-- helper ----------------------------------------------------------------------------------

/-- The inode whose flock a process in this state owns. -/
def owns : PC → Option Nat
  | .locked _ i | .holding _ i | .unlinked i => some i
  | _ => none

@[simp] theorem owns_idle : owns .idle = none := rfl
@[simp] theorem owns_failed : owns .failed = none := rfl
@[simp] theorem owns_exclFailed : owns .exclFailed = none := rfl
@[simp] theorem owns_again : owns .again = none := rfl
@[simp] theorem owns_opened (e i) : owns (.opened e i) = none := rfl
@[simp] theorem owns_locked (e i) : owns (.locked e i) = some i := rfl
@[simp] theorem owns_holding (e i) : owns (.holding e i) = some i := rfl
@[simp] theorem owns_unlinked (i) : owns (.unlinked i) = some i := rfl

@[simp] theorem setPC_pc (s : Sys) (p : Nat) (c : PC) (q : Nat) :
    (setPC s p c).pc q = if q = p then c else s.pc q := rfl
@[simp] theorem setPC_path (s : Sys) (p : Nat) (c : PC) : (setPC s p c).path = s.path := rfl
@[simp] theorem setPC_flock (s : Sys) (p : Nat) (c : PC) : (setPC s p c).flock = s.flock := rfl
@[simp] theorem setFlock_pc (s : Sys) (i : Nat) (o : Option Nat) : (setFlock s i o).pc = s.pc := rfl
@[simp] theorem setFlock_path (s : Sys) (i : Nat) (o : Option Nat) : (setFlock s i o).path = s.path := rfl
@[simp] theorem setFlock_flock (s : Sys) (i : Nat) (o : Option Nat) (j : Nat) :
    (setFlock s i o).flock j = if j = i then o else s.flock j := rfl

@[simp] theorem setPC_marked (s : Sys) (p : Nat) (c : PC) : (setPC s p c).marked = s.marked := rfl
@[simp] theorem setPC_dirty (s : Sys) (p : Nat) (c : PC) : (setPC s p c).dirty = s.dirty := rfl
@[simp] theorem setPC_nextIno (s : Sys) (p : Nat) (c : PC) : (setPC s p c).nextIno = s.nextIno := rfl
@[simp] theorem setFlock_marked (s : Sys) (i : Nat) (o : Option Nat) : (setFlock s i o).marked = s.marked := rfl
@[simp] theorem setFlock_dirty (s : Sys) (i : Nat) (o : Option Nat) : (setFlock s i o).dirty = s.dirty := rfl
@[simp] theorem setFlock_nextIno (s : Sys) (i : Nat) (o : Option Nat) : (setFlock s i o).nextIno = s.nextIno := rfl
@[simp] theorem setMark_pc (s : Sys) (i : Nat) : (setMark s i).pc = s.pc := rfl
@[simp] theorem setMark_path (s : Sys) (i : Nat) : (setMark s i).path = s.path := rfl
@[simp] theorem setMark_flock (s : Sys) (i : Nat) : (setMark s i).flock = s.flock := rfl
@[simp] theorem setMark_dirty (s : Sys) (i : Nat) : (setMark s i).dirty = s.dirty := rfl
@[simp] theorem setMark_nextIno (s : Sys) (i : Nat) : (setMark s i).nextIno = s.nextIno := rfl
@[simp] theorem setMark_marked (s : Sys) (i j : Nat) :
    (setMark s i).marked j = if j = i then true else s.marked j := rfl

/-- Inductive invariant of the verified protocol: (own) a process past a successful flock owns
that flock; (atPath) a holder's inode is the one the path names. -/
structure LockInv (s : Sys) : Prop where
  own : ∀ p i, owns (s.pc p) = some i → s.flock i = some p
  atPath : ∀ p e i, s.pc p = .holding e i → s.path = some i

theorem LockInv.init : LockInv Sys.init := ⟨fun p i h => by simp [Sys.init] at h, fun p e i h => by simp [Sys.init] at h⟩

theorem LockInv.step {s : Sys} (h : LockInv s) (a : Action) : LockInv (step true s a) := by
  obtain ⟨hown, hpath⟩ := h
  cases a with
  | start p =>
    simp only [Lock.step, openExcl]
    repeat' split
    all_goals first | exact ⟨hown, hpath⟩ | skip
    all_goals
      refine ⟨fun q j hq => ?_, fun q e j hq => ?_⟩ <;> by_cases hqp : q = p <;>
        simp [hqp] at hq ⊢ <;> first | exact hown _ _ hq | exact hpath _ _ _ hq |
          (have h3 := hpath q _ _ hq; simp_all; done)
  | sys p =>
    simp only [Lock.step, openExcl, ↓reduceIte]
    repeat' split
    all_goals first | exact ⟨hown, hpath⟩ | skip
    all_goals
      refine ⟨fun q j hq => ?_, fun q e j hq => ?_⟩ <;> by_cases hqp : q = p <;>
        simp [hqp] at hq ⊢ <;> first | exact hown _ _ hq | exact hpath _ _ _ hq |
          (have h1 := hown p; have h2 := hown q; have h3 := hpath q; have h4 := hpath p
           clear hown hpath; simp_all; done) |
          (have h2 := hown q j hq; have h1 := hown p; clear hown hpath
           first
           | (split <;> simp_all; done)
           | (refine ⟨fun hji => ?_, h2⟩; subst hji; simp_all; done))
  | release p =>
    simp only [Lock.step]
    repeat' split
    all_goals first | exact ⟨hown, hpath⟩ | skip
    all_goals
      refine ⟨fun q j hq => ?_, fun q e j hq => ?_⟩ <;> by_cases hqp : q = p <;>
        simp [hqp] at hq ⊢ <;> first | exact hown _ _ hq | exact hpath _ _ _ hq |
          (have h1 := hown p; have h2 := hown q; have h3 := hpath q; have h4 := hpath p
           clear hown hpath; simp_all; done) | skip
  | crash p =>
    simp only [Lock.step]
    repeat' split
    all_goals first | exact ⟨hown, hpath⟩ | skip
    all_goals
      refine ⟨fun q j hq => ?_, fun q e j hq => ?_⟩ <;> by_cases hqp : q = p <;>
        simp [hqp] at hq ⊢ <;> first | exact hown _ _ hq | exact hpath _ _ _ hq |
          (have h1 := hown p; have h2 := hown q; have h3 := hpath q; have h4 := hpath p
           clear hown hpath; simp_all; done) |
          (have h2 := hown q j hq; have h1 := hown p; clear hown hpath
           first
           | (split <;> simp_all; done)
           | (refine ⟨fun hji => ?_, h2⟩; subst hji; simp_all; done)) | skip

theorem LockInv.run {s : Sys} (h : LockInv s) (as : List Action) : LockInv (run true s as) := by
  induction as generalizing s with
  | nil => exact h
  | cons a as ih => exact ih (h.step a)

theorem lockInv_reachable (as : List Action) : LockInv (run true Sys.init as) := LockInv.init.run as

theorem isHolding_iff (s : Sys) (p : Nat) : isHolding s p = true ↔ ∃ e i, s.pc p = .holding e i := by
  unfold isHolding
  split
  · rename_i e i h; simp [h]
  · rename_i h; exact ⟨fun hf => (by cases hf), fun ⟨e, i, h'⟩ => (h e i h').elim⟩


-- the owner's mark --------------------------------------------------------------------------

/-- Reachable states of the verified protocol: any interleaving of start/sys/release/crash of any
processes. -/
def Reach (s : Sys) : Prop := ∃ as, s = run true Sys.init as

/-- Inductive invariant about the mark (independent of the program counters):
(dirtyMarked) while the last session has not completed Close, the path names a marked file;
(markedLt) only inodes already handed out are marked; (cleanUnmarked) on a clean directory the file
at the path (if any) is unmarked. -/
structure MarkInv (s : Sys) : Prop where
  dirtyMarked : s.dirty = true → ∃ j, s.path = some j ∧ s.marked j = true
  markedLt : ∀ j, s.marked j = true → j < s.nextIno
  cleanUnmarked : s.dirty = false → ∀ j, s.path = some j → s.marked j = false
  pathLt : ∀ j, s.path = some j → j < s.nextIno

theorem MarkInv.init : MarkInv Sys.init :=
  ⟨fun h => by simp [Sys.init] at h, fun j h => by simp [Sys.init] at h, fun _ j h => by simp [Sys.init] at h,
   fun j h => by simp [Sys.init] at h⟩

theorem MarkInv.openExcl {s : Sys} (h : MarkInv s) (p : Nat) : MarkInv (openExcl s p) := by
  obtain ⟨h1, h2, h3, h4⟩ := h
  unfold Lock.openExcl
  split
  · exact ⟨h1, h2, h3, h4⟩
  · rename_i hnone
    refine ⟨fun hd => ?_, fun j hj => ?_, fun hd j hj => ?_, fun j hj => by simp at hj ⊢; omega⟩
    · simp at hd
      obtain ⟨j, hj, _⟩ := h1 hd
      rw [hnone] at hj; cases hj
    · simp at hj ⊢
      exact Nat.lt_succ_of_lt (h2 j hj)
    · simp at hj ⊢
      subst hj
      cases hm : s.marked s.nextIno with
      | false => rfl
      | true => exact absurd (h2 _ hm) (Nat.lt_irrefl _)

theorem MarkInv.step {s : Sys} (h : MarkInv s) (v : Bool) (a : Action) : MarkInv (step v s a) := by
  have hsame : ∀ t : Sys, t.path = s.path → t.marked = s.marked → t.dirty = s.dirty →
      t.nextIno = s.nextIno → MarkInv t := by
    intro t e1 e2 e3 e4
    obtain ⟨h1, h2, h3, h4⟩ := h
    exact ⟨by rw [e1, e2, e3]; exact h1, by rw [e2, e4]; exact h2, by rw [e1, e2, e3]; exact h3,
      by rw [e1, e4]; exact h4⟩
  cases a with
  | start p =>
    simp only [Lock.step]
    split <;> first | exact h.openExcl p | exact h
  | sys p =>
    simp only [Lock.step]
    split
    · exact h.openExcl p
    · split <;> exact hsame _ rfl rfl rfl rfl
    · split
      · split <;> exact hsame _ rfl rfl rfl rfl
      · exact hsame _ rfl rfl rfl rfl
    · rename_i e i _
      split
      · rename_i hpath
        obtain ⟨h1, h2, h3, h4⟩ := h
        refine ⟨fun _ => ⟨i, hpath, by simp⟩, fun j hj => ?_, fun hd => by simp at hd, fun j hj => h4 j hj⟩
        simp at hj
        by_cases hji : j = i
        · subst hji; exact h4 j hpath
        · simp [hji] at hj; exact h2 j hj
      · exact hsame _ rfl rfl rfl rfl
    · exact hsame _ rfl rfl rfl rfl
    · exact h
  | release p =>
    simp only [Lock.step]
    split
    · obtain ⟨h1, h2, h3, h4⟩ := h
      exact ⟨fun hd => by simp at hd, fun j hj => h2 j (by simpa using hj), fun _ j hj => by simp at hj,
        fun j hj => by simp at hj⟩
    · exact h
  | crash p =>
    simp only [Lock.step]
    split <;> exact hsame _ rfl rfl rfl rfl

theorem MarkInv.run {s : Sys} (h : MarkInv s) (v : Bool) (as : List Action) : MarkInv (run v s as) := by
  induction as generalizing s with
  | nil => exact h
  | cons a as ih => exact ih (h.step v a)

theorem Reach.markInv {s : Sys} (h : Reach s) : MarkInv s := by
  obtain ⟨as, rfl⟩ := h; exact MarkInv.init.run true as

theorem Reach.lockInv {s : Sys} (h : Reach s) : LockInv s := by
  obtain ⟨as, rfl⟩ := h; exact lockInv_reachable as

theorem Reach.init : Reach Sys.init := ⟨[], rfl⟩

theorem Reach.step {s : Sys} (h : Reach s) (a : Action) : Reach (step true s a) := by
  obtain ⟨as, rfl⟩ := h
  exact ⟨as ++ [a], by simp [run, List.foldl_append]⟩

/-- The step that turns `locked e i` into a holder, spelled out. -/
theorem step_locked_at_path (s : Sys) (p : Nat) (e : Bool) (i : Nat)
    (hpc : s.pc p = .locked e i) (hpath : s.path = some i) :
    (step true s (.sys p)).pc p = .holding (e || s.marked i) i := by
  simp [Lock.step, hpc, hpath]


-- THEOREMS TO PROVE (statements fixed) ------------------------------------------------------

/-- **Mutual exclusion**: in every reachable state (any number of processes, any schedule, any
crashes) at most one process holds the lock. -/
theorem C13_mutex (as : List Action) (p q : Nat)
    (hp : isHolding (run true Sys.init as) p = true) (hq : isHolding (run true Sys.init as) q = true) : p = q := by
  obtain ⟨e, i, hp⟩ := (isHolding_iff _ _).1 hp
  obtain ⟨e', j, hq⟩ := (isHolding_iff _ _).1 hq
  have hinv := lockInv_reachable as
  have h1 := And.intro (hinv.atPath p e i hp) (hinv.own p i (by rw [hp]; rfl))
  have h2 := And.intro (hinv.atPath q e' j hq) (hinv.own q j (by rw [hq]; rfl))
  have hij : i = j := Option.some.inj (h1.1.symm.trans h2.1)
  subst hij
  exact Option.some.inj (h1.2.symm.trans h2.2)

/-- A holder's lock file is the one at the path (so it really excludes every later opener). -/
theorem C13_holder_owns_path (as : List Action) (p : Nat) (e : Bool) (i : Nat)
    (h : (run true Sys.init as).pc p = .holding e i) :
    (run true Sys.init as).path = some i ∧ (run true Sys.init as).flock i = some p := by
  have hinv := lockInv_reachable as
  exact ⟨hinv.atPath p e i h, hinv.own p i (by rw [h]; rfl)⟩

/-- A competing opener that fails changes nothing: the step on which an acquisition fails leaves
the path and every flock as they were. -/
theorem C13_loser_changes_nothing (s : Sys) (p : Nat) (h : (step true s (.sys p)).pc p = .failed)
    (hnot : s.pc p ≠ .failed) :
    (step true s (.sys p)).path = s.path ∧ (step true s (.sys p)).flock = s.flock := by
  simp only [Lock.step, openExcl, ↓reduceIte] at h ⊢
  repeat' split at h
  all_goals first | (simp at h; done) | skip
  all_goals simp_all

/-- **Unclean shutdown is always detected**: in every reachable state, if the last session on the
directory did not complete Close (`dirty`), the step on which any process `p` becomes the holder
reports `acquiredExisting = true` — whatever happened while `p` was inside its acquisition (sessions
that start and die, the file removed and created again, `p` itself having created the file). -/
theorem C13_unclean_always_detected (s : Sys) (hs : Reach s) (p : Nat) (e e' : Bool) (i : Nat)
    (hdirty : s.dirty = true) (hpc : s.pc p = .locked e i) (hpath : s.path = some i)
    (hstep : (step true s (.sys p)).pc p = .holding e' i) : e' = true := by
  rw [step_locked_at_path s p e i hpc hpath] at hstep
  obtain ⟨j, hj, hm⟩ := hs.markInv.dirtyMarked hdirty
  rw [hpath] at hj; cases hj
  rw [hm, Bool.or_true] at hstep
  injection hstep with h1 _
  exact h1.symm

/-- The same as an equation: the step yields exactly `holding true i`. -/
theorem C13_unclean_always_detected' (s : Sys) (hs : Reach s) (p : Nat) (e : Bool) (i : Nat)
    (hdirty : s.dirty = true) (hpc : s.pc p = .locked e i) (hpath : s.path = some i) :
    (step true s (.sys p)).pc p = .holding true i := by
  rw [step_locked_at_path s p e i hpc hpath]
  obtain ⟨j, hj, hm⟩ := hs.markInv.dirtyMarked hdirty
  rw [hpath] at hj; cases hj
  rw [hm, Bool.or_true]

/-- The only step on which a process becomes a holder is the one from `locked e i` with the path
naming `i` (so the two theorems above cover every way of getting the lock). -/
theorem C13_holding_only_from_locked (s : Sys) (a : Action) (p : Nat) (e' : Bool) (i : Nat)
    (hnew : (step true s a).pc p = .holding e' i) (hold : ∀ e, s.pc p ≠ .holding e i) :
    a = .sys p ∧ s.path = some i ∧ ∃ e, s.pc p = .locked e i ∧ e' = (e || s.marked i) := by
  cases a with
  | start q =>
    exfalso
    simp only [Lock.step, openExcl] at hnew
    by_cases hqp : p = q
    · subst hqp; repeat' split at hnew
      all_goals simp_all
    · repeat' split at hnew
      all_goals simp_all
  | sys q =>
    by_cases hqp : p = q
    · subst hqp
      simp only [Lock.step, openExcl, ↓reduceIte] at hnew
      repeat' split at hnew
      all_goals simp_all
      obtain ⟨h1, h2⟩ := hnew
      subst h2; exact h1.symm
    · exfalso
      simp only [Lock.step, openExcl, ↓reduceIte] at hnew
      repeat' split at hnew
      all_goals simp_all
  | release q =>
    exfalso
    simp only [Lock.step] at hnew
    by_cases hqp : p = q
    · subst hqp; repeat' split at hnew
      all_goals simp_all
    · repeat' split at hnew
      all_goals simp_all
  | crash q =>
    exfalso
    simp only [Lock.step] at hnew
    by_cases hqp : p = q
    · subst hqp; repeat' split at hnew
      all_goals simp_all
    · repeat' split at hnew
      all_goals simp_all

/-- **Mutual exclusion** over `Reach`: in every reachable state at most one process is `holding`. -/
theorem C13_mutex_reach (s : Sys) (hs : Reach s) (p q : Nat)
    (hp : isHolding s p = true) (hq : isHolding s q = true) : p = q := by
  obtain ⟨as, rfl⟩ := hs
  exact C13_mutex as p q hp hq

/-- The converse of `C13_unclean_always_detected` is false: on a clean directory (`dirty = false`
before the step) an opener can report `acquiredExisting = true`. Process 0 creates the file and is
overtaken between `open` and `flock` by process 1, which opens the existing file, locks it and
becomes the holder with `existed = true`. -/
theorem C13_spurious_recovery_possible :
    ∃ (as : List Action) (p i : Nat),
      (run true Sys.init as).dirty = false ∧
      (step true (run true Sys.init as) (.sys p)).pc p = .holding true i ∧
      isHolding (run true Sys.init as) p = false := by
  exact ⟨[.start 0, .start 1, .sys 1, .sys 1], 1, 0, by decide⟩

/-- The same run as one action list ending with the holder. -/
theorem C13_spurious_recovery_run :
    (run true Sys.init [.start 0, .start 1, .sys 1, .sys 1]).dirty = false ∧
    (run true Sys.init [.start 0, .start 1, .sys 1, .sys 1, .sys 1]).pc 1 = .holding true 0 := by
  decide

/-- **Partial converse**: on a clean directory the only way to report `acquiredExisting = true` is to
have opened a lock file somebody else had just created (`e = true`: `p` did not create the file
itself). The creator of the file never recovers a clean directory. -/
theorem C13_clean_not_recovered_partial (s : Sys) (hs : Reach s) (p : Nat) (e : Bool) (i : Nat)
    (hclean : s.dirty = false) (hpc : s.pc p = .locked e i) (hpath : s.path = some i)
    (hstep : (step true s (.sys p)).pc p = .holding true i) : e = true := by
  rw [step_locked_at_path s p e i hpc hpath] at hstep
  rw [hs.markInv.cleanUnmarked hclean i hpath, Bool.or_false] at hstep
  injection hstep

/-- Hence: the process that created the lock file on a clean directory reports
`acquiredExisting = false`. -/
theorem C13_clean_creator_not_recovered (s : Sys) (hs : Reach s) (p : Nat) (i : Nat)
    (hclean : s.dirty = false) (hpc : s.pc p = .locked false i) (hpath : s.path = some i) :
    (step true s (.sys p)).pc p = .holding false i := by
  rw [step_locked_at_path s p false i hpc hpath, hs.markInv.cleanUnmarked hclean i hpath]
  rfl

/-- A crash of the holder leaves the path in place (that is the unclean-shutdown mark). -/
theorem C13_crash_keeps_path (s : Sys) (p : Nat) : (step true s (.crash p)).path = s.path := by
  simp only [Lock.step]
  split <;> rfl

/-- The re-check after `flock` is necessary: without it (the pinned protocol) three processes reach a
state with two holders, and the first of them reports an unclean shutdown after a clean release. -/
theorem C13_pinned_protocol_violates_mutex :
    ∃ as : List Action, isHolding (run false Sys.init as) 2 = true ∧ isHolding (run false Sys.init as) 3 = true ∧
      (run false Sys.init as).pc 2 = .holding true 0 := by
  exact ⟨[.start 1, .sys 1, .sys 1, .start 2, .sys 2, .release 1, .sys 1, .sys 2,
    .start 3, .sys 3, .sys 3], by decide⟩

/-- Non-vacuity of `C13_mutex`: a schedule of two processes in which process 1 ends up holding
(fresh lock file, inode 0) and process 2 fails with `ErrExist`. -/
example :
    let as : List Action := [.start 1, .sys 1, .sys 1, .sys 1, .start 2, .sys 2, .sys 2]
    (run true Sys.init as).pc 1 = .holding false 0 ∧ (run true Sys.init as).pc 2 = .failed ∧
      isHolding (run true Sys.init as) 1 = true ∧ isHolding (run true Sys.init as) 2 = false := by
  decide

/-- Non-vacuity of `C13_unclean_always_detected`, the case the mark exists for: process 0 creates the
file (inode 0) and stalls before `flock`; process 1 opens the file, locks it, becomes the holder and
dies; process 0 then locks the file it created itself (`locked false 0`) on a dirty directory — and
reports `acquiredExisting = true` because of the mark. -/
example :
    let as : List Action := [.start 0, .start 1, .sys 1, .sys 1, .sys 1, .crash 1, .sys 0]
    Reach (run true Sys.init as) ∧
    (run true Sys.init as).dirty = true ∧ (run true Sys.init as).pc 0 = .locked false 0 ∧
      (run true Sys.init as).path = some 0 ∧
      (step true (run true Sys.init as) (.sys 0)).pc 0 = .holding true 0 :=
  ⟨⟨_, rfl⟩, by decide⟩

/-- Clean close then reopen: no recovery (`holding false`), with a fresh inode. -/
example :
    let as : List Action := [.start 0, .sys 0, .sys 0, .release 0, .sys 0, .start 1, .sys 1]
    (run true Sys.init as).dirty = false ∧ (run true Sys.init as).pc 1 = .locked false 1 ∧
      (step true (run true Sys.init as) (.sys 1)).pc 1 = .holding false 1 := by
  decide

end Pogreb
