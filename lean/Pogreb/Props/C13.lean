/-
  C13 — one open handle per directory; unclean shutdown is always detected.
  Theorems about the lock-file machine `Pogreb.Lock` (any number of processes, any interleaving of
  their system calls, crashes at any point). The machine's call sequence is tied to the source by
  `Generated.lockAcquireCalls/lockReleaseCalls` (see `C13_calls_as_modelled`).
-/
import Pogreb.Lock
import Pogreb.Generated.LockCalls
namespace Pogreb

open Pogreb.Lock

/-- The system calls the model's program makes are the ones the source makes, in that order. -/
theorem C13_calls_as_modelled :
    Generated.lockAcquireCalls =
      ["os.Stat", "os.OpenFile(os.O_RDWR | os.O_CREATE)", "syscall.Flock(syscall.LOCK_EX | syscall.LOCK_NB)", "Close", "Close", "os.Stat", "Close"] ∧
    Generated.lockReleaseCalls = ["os.Remove", "Close"] := by
  decide

-- helper ----------------------------------------------------------------------------------

/-- The inode whose flock a process in this state owns. -/
def owns : PC → Option Nat
  | .locked _ i | .holding _ i | .unlinked i => some i
  | _ => none

@[simp] theorem owns_idle : owns .idle = none := rfl
@[simp] theorem owns_failed : owns .failed = none := rfl
@[simp] theorem owns_statDone (e) : owns (.statDone e) = none := rfl
@[simp] theorem owns_opened (e i) : owns (.opened e i) = none := rfl
@[simp] theorem owns_locked (e i) : owns (.locked e i) = some i := rfl
@[simp] theorem owns_holding (e i) : owns (.holding e i) = some i := rfl
@[simp] theorem owns_unlinked (i) : owns (.unlinked i) = some i := rfl

@[simp] theorem setPC_pc (s : Sys) (p : Nat) (c : PC) (q : Nat) :
    (setPC s p c).pc q = if q = p then c else s.pc q := rfl
@[simp] theorem setPC_path (s : Sys) (p : Nat) (c : PC) : (setPC s p c).path = s.path := rfl
@[simp] theorem setPC_flock (s : Sys) (p : Nat) (c : PC) : (setPC s p c).flock = s.flock := rfl
@[simp] theorem setFlock_pc (s : Sys) (i : Nat) (o : Option Nat) : (setFlock s i o).pc = s.pc := rfl
@[simp] theorem setFlock_path (s : Sys) (i : Nat) (o : Option Nat) : (setFlock s i o).path = s.path := rfl
@[simp] theorem setFlock_flock (s : Sys) (i : Nat) (o : Option Nat) (j : Nat) :
    (setFlock s i o).flock j = if j = i then o else s.flock j := rfl

/-- Inductive invariant of the verified protocol: (own) a process past a successful flock owns
that flock; (atPath) a holder's inode is the one the path names. -/
structure LockInv (s : Sys) : Prop where
  own : ∀ p i, owns (s.pc p) = some i → s.flock i = some p
  atPath : ∀ p e i, s.pc p = .holding e i → s.path = some i

theorem LockInv.init : LockInv Sys.init := ⟨fun p i h => by simp [Sys.init] at h, fun p e i h => by simp [Sys.init] at h⟩

theorem LockInv.step {s : Sys} (h : LockInv s) (a : Action) : LockInv (step true s a) := by
  obtain ⟨hown, hpath⟩ := h
  cases a with
  | start p =>
    simp only [Lock.step]
    split <;> first | exact ⟨hown, hpath⟩ | skip
    all_goals
      refine ⟨fun q j hq => ?_, fun q e j hq => ?_⟩ <;> by_cases hqp : q = p <;>
        simp [hqp] at hq ⊢ <;> first | exact hown _ _ hq | exact hpath _ _ _ hq
  | sys p =>
    simp only [Lock.step, ↓reduceIte]
    repeat' split
    all_goals first | exact ⟨hown, hpath⟩ | skip
    all_goals
      refine ⟨fun q j hq => ?_, fun q e j hq => ?_⟩ <;> by_cases hqp : q = p <;>
        simp [hqp] at hq ⊢ <;> first | exact hown _ _ hq | exact hpath _ _ _ hq |
          (have h1 := hown p; have h2 := hown q; have h3 := hpath q; have h4 := hpath p
           clear hown hpath; simp_all; done) |
          (have h2 := hown q j hq; have h1 := hown p; clear hown hpath
           first
           | (split <;> simp_all; done)
           | (refine ⟨fun hji => ?_, h2⟩; subst hji; simp_all; done))
  | release p =>
    simp only [Lock.step]
    repeat' split
    all_goals first | exact ⟨hown, hpath⟩ | skip
    all_goals
      refine ⟨fun q j hq => ?_, fun q e j hq => ?_⟩ <;> by_cases hqp : q = p <;>
        simp [hqp] at hq ⊢ <;> first | exact hown _ _ hq | exact hpath _ _ _ hq |
          (have h1 := hown p; have h2 := hown q; have h3 := hpath q; have h4 := hpath p
           clear hown hpath; simp_all; done) | skip
  | crash p =>
    simp only [Lock.step]
    repeat' split
    all_goals first | exact ⟨hown, hpath⟩ | skip
    all_goals
      refine ⟨fun q j hq => ?_, fun q e j hq => ?_⟩ <;> by_cases hqp : q = p <;>
        simp [hqp] at hq ⊢ <;> first | exact hown _ _ hq | exact hpath _ _ _ hq |
          (have h1 := hown p; have h2 := hown q; have h3 := hpath q; have h4 := hpath p
           clear hown hpath; simp_all; done) |
          (have h2 := hown q j hq; have h1 := hown p; clear hown hpath
           first
           | (split <;> simp_all; done)
           | (refine ⟨fun hji => ?_, h2⟩; subst hji; simp_all; done)) | skip

theorem LockInv.run {s : Sys} (h : LockInv s) (as : List Action) : LockInv (run true s as) := by
  induction as generalizing s with
  | nil => exact h
  | cons a as ih => exact ih (h.step a)

theorem lockInv_reachable (as : List Action) : LockInv (run true Sys.init as) := LockInv.init.run as

theorem isHolding_iff (s : Sys) (p : Nat) : isHolding s p = true ↔ ∃ e i, s.pc p = .holding e i := by
  unfold isHolding
  split
  · rename_i e i h; simp [h]
  · rename_i h; exact ⟨fun hf => (by cases hf), fun ⟨e, i, h'⟩ => (h e i h').elim⟩

-- THEOREMS TO PROVE (statements fixed) ------------------------------------------------------

/-- **Mutual exclusion**: in every reachable state (any number of processes, any schedule, any
crashes) at most one process holds the lock. -/
theorem C13_mutex (as : List Action) (p q : Nat)
    (hp : isHolding (run true Sys.init as) p = true) (hq : isHolding (run true Sys.init as) q = true) : p = q := by
  obtain ⟨e, i, hp⟩ := (isHolding_iff _ _).1 hp
  obtain ⟨e', j, hq⟩ := (isHolding_iff _ _).1 hq
  have hinv := lockInv_reachable as
  have h1 := And.intro (hinv.atPath p e i hp) (hinv.own p i (by rw [hp]; rfl))
  have h2 := And.intro (hinv.atPath q e' j hq) (hinv.own q j (by rw [hq]; rfl))
  have hij : i = j := Option.some.inj (h1.1.symm.trans h2.1)
  subst hij
  exact Option.some.inj (h1.2.symm.trans h2.2)

/-- A holder's lock file is the one at the path (so it really excludes every later opener). -/
theorem C13_holder_owns_path (as : List Action) (p : Nat) (e : Bool) (i : Nat)
    (h : (run true Sys.init as).pc p = .holding e i) :
    (run true Sys.init as).path = some i ∧ (run true Sys.init as).flock i = some p := by
  have hinv := lockInv_reachable as
  exact ⟨hinv.atPath p e i h, hinv.own p i (by rw [h]; rfl)⟩

/-- A competing opener that fails changes nothing: the step on which an acquisition fails leaves
the path and every flock as they were. -/
theorem C13_loser_changes_nothing (s : Sys) (p : Nat) (h : (step true s (.sys p)).pc p = .failed)
    (hnot : s.pc p ≠ .failed) :
    (step true s (.sys p)).path = s.path ∧ (step true s (.sys p)).flock = s.flock := by
  simp only [Lock.step, ↓reduceIte] at h ⊢
  repeat' split at h
  all_goals first | (simp at h; done) | skip
  all_goals simp_all

/-- **Unclean shutdown is detected**: if the lock path exists when an acquisition starts and nobody
removes it meanwhile (no release step by anyone in between), a successful acquisition reports
`acquiredExisting = true`. In particular after the holder crashed. -/
theorem C13_unclean_detected (s : Sys) (p : Nat) (hpath : s.path.isSome = true)
    (hstart : s.pc p = .idle ∨ s.pc p = .failed) :
    (step true s (.start p)).pc p = .statDone true := by
  rcases hstart with h | h <;> simp [Lock.step, h, hpath]

/-- A crash of the holder leaves the path in place (that is the unclean-shutdown mark). -/
theorem C13_crash_keeps_path (s : Sys) (p : Nat) : (step true s (.crash p)).path = s.path := by
  simp only [Lock.step]
  split <;> rfl

/-- **Clean shutdown is not recovered**: after the holder released completely and with no other
process inside an acquisition, the next acquisition reports `acquiredExisting = false`. -/
theorem C13_clean_not_recovered (s : Sys) (p q : Nat) (e : Bool) (i : Nat)
    (hinv : s.path = some i) (hhold : s.pc p = .holding e i) (hq : s.pc q = .idle) (hpq : p ≠ q) :
    let s1 := step true (step true s (.release p)) (.sys p)
    (step true s1 (.start q)).pc q = .statDone false := by
  have hqp : q ≠ p := fun h => hpq h.symm
  simp [Lock.step, hhold, hq, hqp]

/-- The re-check after `flock` is necessary: without it (the pinned protocol) three processes reach a
state with two holders, and the first of them reports an unclean shutdown after a clean release. -/
theorem C13_pinned_protocol_violates_mutex :
    ∃ as : List Action, isHolding (run false Sys.init as) 2 = true ∧ isHolding (run false Sys.init as) 3 = true ∧
      (run false Sys.init as).pc 2 = .holding true 0 := by
  exact ⟨[.start 1, .sys 1, .sys 1, .start 2, .sys 2, .release 1, .sys 1, .sys 2,
    .start 3, .sys 3, .sys 3], by decide⟩

/-- Non-vacuity of `C13_mutex`: a schedule of two processes in which process 1 ends up holding
(fresh lock file, inode 0) and process 2 fails with `ErrExist`. -/
example :
    let as : List Action := [.start 1, .sys 1, .sys 1, .sys 1, .start 2, .sys 2, .sys 2]
    (run true Sys.init as).pc 1 = .holding false 0 ∧ (run true Sys.init as).pc 2 = .failed ∧
      isHolding (run true Sys.init as) 1 = true ∧ isHolding (run true Sys.init as) 2 = false := by
  decide

end Pogreb
