/-
  M03 — compaction on the EXECUTABLE model: every step of `MState` compaction (what the driver runs
  at each `yield compact.record` line) keeps the state well-formed and leaves the contents
  unchanged; removing a segment no slot points into changes nothing. Supports C05/C15.
-/
import Pogreb.Props.M01
import Pogreb.Lemmas.ModelCompact
namespace Pogreb
open MState

-- helper ------------------------------------------------------------------------------------
namespace MState

theorem compactRecord_none (st : MState) (c : CompState) (hs : c.source = none) :
    (st.compactRecord c).1 = st := by
  unfold compactRecord; rw [hs]

theorem compactRecord_nil (st : MState) (c : CompState) (src : Nat) (hs : c.source = some src)
    (ht : c.todo = []) : (st.compactRecord c).1 = st := by
  unfold compactRecord; rw [hs, ht]

/-- The four outcomes of one copy-loop iteration on a record `(off, r)`. -/
theorem compactRecord_step (st : MState) (c : CompState) (src off : Nat) (r : Rec)
    (rest : List (Nat × Rec)) (hs : c.source = some src) (ht : c.todo = (off, r) :: rest) :
    (r.del = true ∧ (st.compactRecord c).1 = st) ∨
    (r.del = false ∧ st.idx.repoint (st.hashOf r.key) src off src off = none ∧
      (st.compactRecord c).1 = st) ∨
    (r.del = false ∧
      (st.writeRecord r.encode).1.idx.repoint (st.hashOf r.key) src off
        (st.writeRecord r.encode).2.1 (st.writeRecord r.encode).2.2 = none ∧
      (st.compactRecord c).1 = (st.writeRecord r.encode).1) ∨
    (r.del = false ∧ ∃ idx',
      (st.writeRecord r.encode).1.idx.repoint (st.hashOf r.key) src off
        (st.writeRecord r.encode).2.1 (st.writeRecord r.encode).2.2 = some idx' ∧
      (st.compactRecord c).1 = { (st.writeRecord r.encode).1 with idx := idx' }) := by
  unfold compactRecord
  rw [hs, ht]
  dsimp only
  by_cases hd : r.del = true
  · left; rw [if_pos hd]; exact ⟨hd, rfl⟩
  · right
    have hd' : r.del = false := by simpa using hd
    rw [if_neg hd]
    cases h1 : st.idx.repoint (st.hashOf r.key) src off src off with
    | none => left; exact ⟨hd', rfl, rfl⟩
    | some i0 =>
      right
      dsimp only
      cases h2 : (st.writeRecord r.encode).1.idx.repoint (st.hashOf r.key) src off
        (st.writeRecord r.encode).2.1 (st.writeRecord r.encode).2.2 with
      | none => left; exact ⟨hd', rfl, rfl⟩
      | some idx' => right; exact ⟨hd', idx', rfl, rfl⟩


theorem read_in (A B : Bytes) (r : Rec) :
    ((A ++ r.encode ++ B).drop (A.length + 6)).take r.key.length = r.key ∧
    ((A ++ r.encode ++ B).drop (A.length + 6 + r.key.length)).take r.val.length = r.val := by
  have h := read_back A r
  constructor
  · rw [take_drop_append_left _ _ _ _ (by simp; omega)]; exact h.1
  · rw [take_drop_append_left _ _ _ _ (by simp; omega)]; exact h.2

/-- A slot whose offset is the start of a record with the slot's key size reads that key (and,
with the value size, that value). -/
theorem reads_at_record {st : MState} {sl : Slot} {A B : Bytes} {r : Rec}
    (hd : st.segData sl.seg = some (A ++ r.encode ++ B)) (hoff : sl.off = headerSize + A.length)
    (hk : sl.ksz = r.key.length) :
    st.readKey sl = some r.key ∧ (sl.vsz = r.val.length → st.readVal sl = some r.val) := by
  have hH := hH
  have hr := read_in A B r
  have hl : (A ++ r.encode ++ B).length = A.length + (10 + r.key.length + r.val.length) + B.length := by
    simp; omega
  constructor
  · unfold readKey
    rw [readAt_eq, hd, Option.bind_some, if_neg (by omega), if_pos (by omega), hk]
    have : sl.off + 6 - headerSize = A.length + 6 := by omega
    rw [this, hr.1]
  · intro hv
    unfold readVal
    rw [readAt_eq, hd, Option.bind_some, if_neg (by omega), if_pos (by omega), hk, hv]
    have : sl.off + 6 + r.key.length - headerSize = A.length + 6 + r.key.length := by omega
    rw [this, hr.2]

/-- A state with the same index and seed whose segments agree wherever a slot points. -/
theorem agree_wf {st st' : MState} (hwf : st.WF) (hids : (st'.segs.map (·.id)).Nodup)
    (hidx : st'.idx = st.idx) (hseed : st'.seed = st.seed)
    (hag : ∀ sl ∈ st.idx.slots, st'.segData sl.seg = st.segData sl.seg) :
    st'.WF ∧ ∀ k, st'.get k = st.get k := by
  have hptd : ∀ sl ∈ st.idx.slots, ∀ d, st.PtD sl d → st'.PtD sl d := by
    intro sl hsl d hd
    exact ⟨by rw [hag sl hsl]; exact hd.1, hd.2⟩
  have hreads : ∀ sl ∈ st.idx.slots, st'.readKey sl = st.readKey sl ∧ st'.readVal sl = st.readVal sl := by
    intro sl hsl
    obtain ⟨d, hd⟩ := hwf.pts hsl
    have hd' := hptd sl hsl d hd
    exact ⟨by rw [(reads_of_ptd hd').1, (reads_of_ptd hd).1], by rw [(reads_of_ptd hd').2, (reads_of_ptd hd).2]⟩
  have hkof : ∀ sl ∈ st.idx.slots, st'.kof sl = st.kof sl := by
    intro sl hsl; unfold kof; rw [(hreads sl hsl).1]
  have hwf' : st'.WF := by
    refine ⟨hids, ?_, ?_, ?_, Or.inr trivial⟩
    · rw [hidx, hseed]; exact inv_congr hkof hwf.inv
    · intro sl hsl
      rw [hidx] at hsl
      obtain ⟨d, hd⟩ := hwf.pts hsl
      exact points_of_pts ⟨d, hptd sl hsl d hd⟩
    · rw [hidx]; exact hwf.locs
  refine ⟨hwf', ?_⟩
  intro k
  rw [get_eq hwf', get_eq hwf, hidx, abs_congr hkof]
  cases ha : st.idx.abs st.kof k with
  | none => rfl
  | some sl =>
    have hsl := ((Index.abs_some_iff hwf.inv k sl).1 ha).1
    exact (hreads sl hsl).2

/-- Repointing a slot to a location that reads the same key and value. -/
theorem repoint_idx_wf {st1 : MState} (hwf : st1.WF) {h seg off seg' off' : Nat} {idx' : Index}
    (hr : st1.idx.repoint h seg off seg' off' = some idx') :
    ∃ s, s ∈ st1.idx.slots ∧ s.hash = h ∧ s.off = off ∧ s.seg = seg ∧
      (st1.PtS { s with seg := seg', off := off' } →
       (∀ a ∈ st1.idx.slots, a.seg = seg' → a.off ≠ off') →
       st1.readKey { s with seg := seg', off := off' } = st1.readKey s →
       st1.readVal { s with seg := seg', off := off' } = st1.readVal s →
       ({ st1 with idx := idx' } : MState).WF ∧
       (∀ k, ({ st1 with idx := idx' } : MState).get k = st1.get k) ∧
       ∀ sl ∈ idx'.slots, (sl ∈ st1.idx.slots ∧ sl ≠ s) ∨ sl = { s with seg := seg', off := off' }) := by
  obtain ⟨s, hs, hh, ho, hsg, H⟩ := Index.repoint_some hwf.inv hr
  refine ⟨s, hs, hh, ho, hsg, ?_⟩
  intro hpts hfresh hrk hrv
  have hk' : st1.kof { s with seg := seg', off := off' } = st1.kof s := by unfold kof; rw [hrk]
  obtain ⟨hinv2, habs2, _⟩ := H st1.kof (fun _ _ _ => rfl) hk'
    (fun sl hsl h1 h2 => hwf.locs sl hsl s hs (h1.trans hsg.symm) (h2.trans ho.symm))
    (Or.inl (fun hmem => hfresh _ hmem rfl rfl))
  have hsub : ∀ sl ∈ idx'.slots,
      (sl ∈ st1.idx.slots ∧ sl ≠ s) ∨ sl = { s with seg := seg', off := off' } := by
    intro sl hsl
    have h := (Index.abs_some_iff hinv2 (st1.kof sl) sl).2 ⟨hsl, rfl⟩
    rw [habs2] at h
    split at h
    · right; exact (Option.some.inj h).symm
    · rename_i hne
      left
      exact ⟨((Index.abs_some_iff hwf.inv _ sl).1 h).1, fun e => hne (by rw [e])⟩
  have hwf2 : ({ st1 with idx := idx' } : MState).WF := by
    refine ⟨hwf.ids, hinv2, ?_, ?_, Or.inr trivial⟩
    · intro sl hsl
      rcases hsub sl hsl with h | h
      · exact hwf.points sl h.1
      · subst h; exact points_of_pts (st := st1) hpts
    · intro a ha b hb hseg hoff
      rcases hsub a ha with h1 | h1 <;> rcases hsub b hb with h2 | h2
      · exact hwf.locs a h1.1 b h2.1 hseg hoff
      · subst h2; exact absurd hoff (hfresh a h1.1 hseg)
      · subst h1; exact absurd hoff.symm (hfresh b h2.1 hseg.symm)
      · rw [h1, h2]
  refine ⟨hwf2, ?_, hsub⟩
  intro k
  rw [get_eq hwf2]
  show (idx'.abs st1.kof k).bind st1.readVal = _
  rw [habs2 k, get_eq hwf]
  split
  · rename_i hk
    rw [hk, (Index.abs_some_iff hwf.inv _ s).2 ⟨hs, rfl⟩, Option.bind_some, Option.bind_some, hrv]
  · rfl


/-- The location returned by `writeRecord` lies beyond every record a slot points at. -/
theorem writeRecord_fresh {st : MState} (hwf : st.WF) (data : Bytes) :
    ∀ a ∈ st.idx.slots, a.seg = (st.writeRecord data).2.1 → a.off + 10 ≤ (st.writeRecord data).2.2 := by
  obtain ⟨old, _, _, _, hoff, _, hold, _⟩ := writeRecord_spec st data hwf.ids
  intro a ha hseg
  obtain ⟨d, hd, h1, h2, _⟩ := hwf.pts ha
  rw [hseg] at hd
  rcases hold with h | ⟨h, _⟩
  · rw [hd] at h
    cases h
    omega
  · rw [hd] at h; cases h

/-- Slots after a repoint to a fresh location: the old ones except the repointed one, plus its
new version (no assumption on what the new location holds). -/
theorem repoint_slots {st1 : MState} (hwf : st1.WF) {h seg off seg' off' : Nat} {idx' : Index}
    (hr : st1.idx.repoint h seg off seg' off' = some idx')
    (hfresh : ∀ a ∈ st1.idx.slots, a.seg = seg' → a.off ≠ off') :
    ∃ s, s ∈ st1.idx.slots ∧ s.hash = h ∧ s.off = off ∧ s.seg = seg ∧
      idx'.slots.length = st1.idx.slots.length ∧
      ∀ sl ∈ idx'.slots, (sl ∈ st1.idx.slots ∧ sl ≠ s) ∨ sl = { s with seg := seg', off := off' } := by
  obtain ⟨s, hs, hh, ho, hsg, H⟩ := Index.repoint_some hwf.inv hr
  refine ⟨s, hs, hh, ho, hsg, ?_⟩
  have hnot : ({ s with seg := seg', off := off' } : Slot) ∉ st1.idx.slots :=
    fun hmem => hfresh _ hmem rfl rfl
  have hframe : ∀ sl ∈ st1.idx.slots, sl ≠ s →
      (fun sl => if sl = ({ s with seg := seg', off := off' } : Slot) then st1.kof s else st1.kof sl) sl
        = st1.kof sl := by
    intro sl hsl _
    exact if_neg (fun e => hnot (by rw [← e]; exact hsl))
  obtain ⟨hinv2, habs2, hnk⟩ := H
    (fun sl => if sl = ({ s with seg := seg', off := off' } : Slot) then st1.kof s else st1.kof sl)
    hframe (if_pos rfl)
    (fun sl hsl h1 h2 => hwf.locs sl hsl s hs (h1.trans hsg.symm) (h2.trans ho.symm))
    (Or.inl hnot)
  refine ⟨by rw [← hinv2.count, hnk, hwf.inv.count], ?_⟩
  intro sl hsl
  have h := (Index.abs_some_iff hinv2 _ sl).2 ⟨hsl, rfl⟩
  rw [habs2] at h
  by_cases hc : (if sl = ({ s with seg := seg', off := off' } : Slot) then st1.kof s else st1.kof sl)
      = st1.kof s
  · rw [if_pos hc] at h
    right; exact (Option.some.inj h).symm
  · rw [if_neg hc] at h
    left
    refine ⟨((Index.abs_some_iff hwf.inv _ sl).1 h).1, fun e => hc ?_⟩
    rw [e, if_neg (fun e' => hnot (by rw [← e']; exact hs))]

/-- The live case of `compactRecord`: the record `r` sits at `(src, off)`, the slot pointing at it
carries its sizes; append a copy and repoint. -/
theorem compact_live {st : MState} (hwf : st.WF) {src off : Nat} {r : Rec} {idx' : Index}
    (hsrc : ∀ sg ∈ st.segs, sg.id = src → ∃ A B : Bytes, sg.data = A ++ r.encode ++ B ∧
      off = headerSize + A.length)
    (hexact : ∀ sl ∈ st.idx.slots, sl.seg = src → sl.off = off →
      sl.ksz = r.key.length ∧ sl.vsz = r.val.length)
    (hr : (st.writeRecord r.encode).1.idx.repoint (st.hashOf r.key) src off
      (st.writeRecord r.encode).2.1 (st.writeRecord r.encode).2.2 = some idx') :
    ({ (st.writeRecord r.encode).1 with idx := idx' } : MState).WF ∧
    ∀ k, ({ (st.writeRecord r.encode).1 with idx := idx' } : MState).get k = st.get k := by
  obtain ⟨hwf1, hidx, hseed, hreads, hget⟩ := writeRecord_wf hwf r.encode
  obtain ⟨old, _, _, _, hoff', hnew, hold, _⟩ := writeRecord_spec st r.encode hwf.ids
  have hfr := writeRecord_fresh hwf r.encode
  obtain ⟨s, hs, hh, ho, hsg, H⟩ := repoint_idx_wf hwf1 hr
  have hs' : s ∈ st.idx.slots := by rw [hidx] at hs; exact hs
  obtain ⟨hksz, hvsz⟩ := hexact s hs' hsg ho
  obtain ⟨sg, hmem, hid, _, _, hlt, _⟩ := hwf.points s hs'
  obtain ⟨A, B, hdata, hoffA⟩ := hsrc sg hmem (hid.trans hsg)
  have hsd : st.segData s.seg = some (A ++ r.encode ++ B) := by
    unfold segData
    rw [← hid, seg?_of_mem hwf.ids hmem, ← hdata]; rfl
  obtain ⟨hk0, hv0⟩ := reads_at_record hsd (ho.trans hoffA) hksz
  have hv0 := hv0 hvsz
  have hH := hH
  generalize st.writeRecord r.encode = w at *
  obtain ⟨st1, seg', off'⟩ := w
  dsimp only at *
  have hnew' : st1.segData seg' = some (old ++ r.encode ++ []) := by rw [List.append_nil]; exact hnew
  obtain ⟨hk1, hv1⟩ := reads_at_record (st := st1)
    (sl := { s with seg := seg', off := off' }) hnew' hoff' hksz
  have hv1 := hv1 hvsz
  have hpts : st1.PtS { s with seg := seg', off := off' } := by
    refine ⟨_, hnew, ?_, ?_, hlt⟩
    · dsimp only; omega
    · dsimp only; rw [List.length_append, Rec.encode_length]; omega
  obtain ⟨hwf2, hget2, _⟩ := H hpts
    (fun a ha hseg => by
      rw [hidx] at ha
      have := hfr a ha hseg
      omega)
    (by rw [hk1, (hreads s hs').1, hk0]) (by rw [hv1, (hreads s hs').2, hv0])
  exact ⟨hwf2, fun k => (hget2 k).trans (hget k)⟩


/-- Segment contents after a map that keeps ids and data. -/
theorem segData_mapKeep (st : MState) (f : MSeg → MSeg)
    (hf : ∀ s, (f s).id = s.id ∧ (f s).data = s.data) (id : Nat) :
    ({ st with segs := st.segs.map f } : MState).segData id = st.segData id := by
  unfold segData seg?
  dsimp only
  rw [List.find?_map]
  have : ((fun x : MSeg => x.id == id) ∘ f) = (fun x => x.id == id) := by
    funext x; simp [Function.comp, (hf x).1]
  rw [this]
  cases st.segs.find? (·.id == id) with
  | none => rfl
  | some s => simp [(hf s).2]

theorem segData_removeSeg (st : MState) (id id' : Nat) (hne : id' ≠ id) :
    (st.removeSeg id).segData id' = st.segData id' := by
  unfold segData seg? removeSeg
  dsimp only
  rw [List.find?_filter]
  have : (fun a : MSeg => decide ((a.id != id) = true ∧ (a.id == id') = true)) = (fun a => a.id == id') := by
    funext a
    by_cases h : a.id = id'
    · have : a.id ≠ id := by rw [h]; exact hne
      simp [h, hne]
    · simp [h]
  rw [this]

end MState
/-- The extra hypothesis of the `_partial` theorems for every record still to be processed: a slot
pointing at one of them points at a put record and carries its sizes. -/
def MState.ExactOn (st : MState) (src : Nat) (todo : List (Nat × Rec)) : Prop :=
  ∀ p ∈ todo, ∀ sl ∈ st.idx.slots, sl.seg = src → sl.off = p.1 →
    p.2.del = false ∧ sl.ksz = p.2.key.length ∧ sl.vsz = p.2.val.length

theorem MState.compactRecord_todo (st : MState) (c : CompState) (src : Nat) (hs : c.source = some src) :
    (st.compactRecord c).2.todo = c.todo.tail := by
  cases ht : c.todo with
  | nil => unfold compactRecord; rw [hs, ht]; rfl
  | cons p rest =>
    obtain ⟨off, r⟩ := p
    unfold compactRecord
    rw [hs, ht]
    dsimp only
    split
    · rfl
    · split
      · rfl
      · split <;> rfl

/-! ### Counterexamples to two of the original statements

`WF.points` bounds a slot's sizes by the *segment* end only, and nothing in `WF` says that the
record a slot points at is a put record. So (1) a well-formed state may hold a slot whose `vsz`
is larger than the value of the record it points at (it reads on into the next record); the copy
made by `compactRecord` has nothing behind it, so the repointed slot reads out of bounds:
`get` turns into `none` and `WF.points` fails. (2) a well-formed state may hold a slot that
points at a delete record; `compactRecord` drops the record and leaves the slot alone. -/

def cxR1 : Rec := ⟨false, [1], [2]⟩
def cxR2 : Rec := ⟨false, [3], [4]⟩
def cxSlot : Slot := ⟨(murmur32 [1] 7).toNat, 0, 1, 6, 512⟩
def cxSt : MState :=
  { cfg := ⟨1024⟩, seed := 7,
    segs := [⟨0, 1, cxR1.encode ++ cxR2.encode, true⟩, ⟨1, 2, [], false⟩],
    cur := some 1, maxSeq := 2, idx := ⟨0, 0, [[[cxSlot]]], 1⟩ }
def cxC : CompState := ⟨[], some 0, recsWithOffsets (cxR1.encode ++ cxR2.encode), true, false⟩

-- todo = [(512, put [1] [2]), (524, put [3] [4])]; before: some [2, 63, 92, 193, 149, 1]; after: none
#eval (cxC.todo.map (fun p => (p.1, p.2.key, p.2.val, p.2.del)), cxSt.get [1],
  (cxSt.compactRecord cxC).1.get [1], (cxSt.compactRecord cxC).1.idx.slots.map (fun s => (s.seg, s.off, s.ksz, s.vsz)),
  (cxSt.compactRecord cxC).1.segs.map (fun s => (s.id, s.size)))

/-- WF of a state with the one-slot index `⟨0, 0, [[[sl]]], 1⟩`. -/
theorem wf_single (st : MState) (sl : Slot) (k : Bytes) (hidx : st.idx = ⟨0, 0, [[[sl]]], 1⟩)
    (hids : (st.segs.map (·.id)).Nodup) (hpts : st.PtS sl) (hk : st.readKey sl = some k)
    (hh : sl.hash = (murmur32 k st.seed).toNat) : st.WF := by
  have hslots : st.idx.slots = [sl] := by rw [hidx]; rfl
  refine ⟨hids, ⟨?_, ?_, ?_, ?_, ?_, ?_⟩, ?_, ?_, Or.inr trivial⟩
  · intro i hi s _
    rw [hidx] at hi ⊢
    simp only [List.length_cons, List.length_nil] at hi
    unfold Index.bucketIndex bucketIdx
    simp only [Nat.pow_zero, Nat.mod_one, Nat.lt_irrefl, if_false]
    omega
  · intro s hs
    rw [hslots, List.mem_singleton] at hs
    subst hs
    unfold kof; rw [hk]; exact hh
  · rw [hslots]; simp
  · rw [hslots, hidx]; rfl
  · rw [hidx]; exact ⟨rfl, by simp⟩
  · intro c hc
    rw [hidx] at hc
    simp only [List.mem_singleton] at hc
    subst hc
    refine ⟨by simp, ?_⟩
    intro b hb
    simp only [List.mem_singleton] at hb
    subst hb
    simp [slotsPerBucket]
  · intro s hs
    rw [hslots, List.mem_singleton] at hs
    subst hs
    exact points_of_pts hpts
  · intro a ha b hb _ _
    rw [hslots, List.mem_singleton] at ha hb
    rw [ha, hb]

theorem cxSt_wf : cxSt.WF := by
  have hsd : cxSt.segData cxSlot.seg = some ([] ++ cxR1.encode ++ cxR2.encode) := rfl
  have hidx : cxSt.idx = ⟨0, 0, [[[cxSlot]]], 1⟩ := rfl
  have hids : (cxSt.segs.map (·.id)).Nodup := by simp [cxSt]
  have hk := (reads_at_record (r := cxR1) hsd rfl rfl).1
  have hpts : cxSt.PtS cxSlot := by
    refine ⟨_, hsd, ?_, ?_, ?_⟩
    · decide
    · simp [cxSlot, cxR1, cxR2, headerSize]
    · decide
  have hh : cxSlot.hash = (murmur32 [1] cxSt.seed).toNat := by simp only [cxSlot, cxSt]
  exact wf_single cxSt cxSlot [1] hidx hids hpts hk hh


theorem cxC_todo : cxC.todo = (512, cxR1) :: [(524, cxR2)] := by
  show recsWithOffsets (cxR1.encode ++ cxR2.encode) = _
  have h : cxR1.encode ++ cxR2.encode = encodeAll [cxR1, cxR2] := by simp
  unfold recsWithOffsets
  rw [h, scan_encodeAll' _ (by intro r hr; simp at hr; rcases hr with rfl | rfl <;> decide)]
  rfl

theorem cx_hreal : ∀ src, cxC.source = some src → ∀ s ∈ cxSt.segs, s.id = src →
    ∃ done, MState.recsWithOffsets s.data = done ++ cxC.todo := by
  intro src hsrc s hs hid
  have h0 : src = 0 := (Option.some.inj hsrc).symm
  subst h0
  simp only [cxSt, List.mem_cons, List.not_mem_nil, or_false] at hs
  rcases hs with rfl | rfl
  · exact ⟨[], rfl⟩
  · cases hid

theorem cx_notWF : ¬ (cxSt.compactRecord cxC).1.WF := by
  have hwf := cxSt_wf
  have hmem : cxSlot ∈ cxSt.idx.slots := by show cxSlot ∈ [cxSlot]; simp
  have hh : cxSlot.hash = cxSt.hashOf cxR1.key := by simp only [cxSlot, cxSt, hashOf, cxR1]
  obtain ⟨hwf1, hidx, _, _, _⟩ := writeRecord_wf hwf cxR1.encode
  obtain ⟨old, _, _, _, hoff', hnew, _, _⟩ := writeRecord_spec cxSt cxR1.encode hwf.ids
  have hfr := writeRecord_fresh hwf cxR1.encode
  rcases compactRecord_step cxSt cxC 0 512 cxR1 [(524, cxR2)] rfl cxC_todo with
    ⟨hd, _⟩ | ⟨_, hn, _⟩ | ⟨_, hn, _⟩ | ⟨_, idx', hr, h⟩
  · cases hd
  · exact absurd ⟨hh, rfl, rfl⟩ (Index.repoint_none hwf.inv hn cxSlot hmem)
  · exact absurd ⟨hh, rfl, rfl⟩ (Index.repoint_none hwf1.inv hn cxSlot (by rw [hidx]; exact hmem))
  · rw [h]
    intro hwf2
    obtain ⟨s, hs, _, _, _, hlen, hsub⟩ := repoint_slots hwf1 hr (fun a ha hseg => by
      rw [hidx] at ha
      have := hfr a ha hseg
      omega)
    have hs' : s = cxSlot := by
      rw [hidx] at hs
      have : s ∈ [cxSlot] := hs
      simpa using this
    subst hs'
    generalize cxSt.writeRecord cxR1.encode = w at *
    obtain ⟨st1, seg', off'⟩ := w
    dsimp only at *
    have hone : idx'.slots.length = 1 := by rw [hlen, hidx]; rfl
    match hsl : idx'.slots, hone with
    | [x], _ =>
      have hx : x ∈ idx'.slots := by rw [hsl]; simp
      have hxe : x = { cxSlot with seg := seg', off := off' } := by
        rcases hsub x hx with ⟨hm, hne⟩ | he
        · rw [hidx] at hm
          have : x ∈ [cxSlot] := hm
          exact absurd (by simpa using this) hne
        · exact he
      obtain ⟨d, hd, _, hb, _⟩ := hwf2.pts (sl := x) hx
      rw [hxe] at hd hb
      have hd' : st1.segData seg' = some d := hd
      rw [hnew] at hd'
      have := Option.some.inj hd'
      subst this
      have hH := hH
      simp [cxSlot, cxR1] at hb
      omega

theorem M03_compactRecord_refines_false :
    ¬ ∀ (st : MState) (_ : st.WF) (c : MState.CompState)
      (_ : ∀ src, c.source = some src → ∀ s ∈ st.segs, s.id = src →
        ∃ done, MState.recsWithOffsets s.data = done ++ c.todo),
      (st.compactRecord c).1.WF ∧ (st.compactRecord c).1.abs = st.abs :=
  fun h => cx_notWF (h cxSt cxSt_wf cxC cx_hreal).1


/-! Second counterexample: a well-formed state whose slot points at a *delete* record. -/
def cxD : Rec := ⟨true, [1], []⟩
def cxSlot2 : Slot := ⟨(murmur32 [1] 7).toNat, 0, 1, 0, 512⟩
def cxSt2 : MState :=
  { cfg := ⟨1024⟩, seed := 7,
    segs := [⟨0, 1, cxD.encode, true⟩, ⟨1, 2, [], false⟩],
    cur := some 1, maxSeq := 2, idx := ⟨0, 0, [[[cxSlot2]]], 1⟩ }
def cxC2 : CompState := ⟨[], some 0, recsWithOffsets cxD.encode, true, false⟩

-- todo = [(512, delete)]; the slot still points at (0, 512) afterwards
#eval (cxC2.todo.map (fun p => (p.1, p.2.del)), (cxSt2.compactRecord cxC2).1.idx.slots.map (fun s => (s.seg, s.off)))

theorem cxSt2_wf : cxSt2.WF := by
  have hsd : cxSt2.segData cxSlot2.seg = some ([] ++ cxD.encode ++ []) := by
    rw [List.nil_append, List.append_nil]; rfl
  have hidx : cxSt2.idx = ⟨0, 0, [[[cxSlot2]]], 1⟩ := rfl
  have hids : (cxSt2.segs.map (·.id)).Nodup := by simp [cxSt2]
  have hk := (reads_at_record (r := cxD) hsd rfl rfl).1
  have hpts : cxSt2.PtS cxSlot2 := by
    refine ⟨_, hsd, ?_, ?_, ?_⟩
    · decide
    · simp [cxSlot2, cxD, headerSize]
    · decide
  have hh : cxSlot2.hash = (murmur32 [1] cxSt2.seed).toNat := by simp only [cxSlot2, cxSt2]
  exact wf_single cxSt2 cxSlot2 [1] hidx hids hpts hk hh

theorem cxC2_todo : cxC2.todo = (512, cxD) :: [] := by
  show recsWithOffsets cxD.encode = _
  have h : cxD.encode = encodeAll [cxD] := by simp
  unfold recsWithOffsets
  rw [h, scan_encodeAll' _ (by intro r hr; simp at hr; subst hr; decide)]
  rfl

theorem M03_processed_not_pointed_false :
    ¬ ∀ (st : MState) (_ : st.WF) (c : MState.CompState) (src off : Nat) (r : Rec)
      (rest : List (Nat × Rec)) (_ : c.source = some src) (_ : c.todo = (off, r) :: rest)
      (_ : ∀ s ∈ st.segs, s.id = src → ∃ done, MState.recsWithOffsets s.data = done ++ c.todo)
      (_ : ∀ s ∈ st.segs, s.id = src → s.full = true),
      ∀ sl ∈ (st.compactRecord c).1.idx.slots, ¬ (sl.seg = src ∧ sl.off = off) := by
  intro h
  have hreal : ∀ s ∈ cxSt2.segs, s.id = 0 →
      ∃ done, MState.recsWithOffsets s.data = done ++ cxC2.todo := by
    intro s hs hid
    simp only [cxSt2, List.mem_cons, List.not_mem_nil, or_false] at hs
    rcases hs with rfl | rfl
    · exact ⟨[], rfl⟩
    · cases hid
  have hfull : ∀ s ∈ cxSt2.segs, s.id = 0 → s.full = true := by
    intro s hs hid
    simp only [cxSt2, List.mem_cons, List.not_mem_nil, or_false] at hs
    rcases hs with rfl | rfl
    · rfl
    · cases hid
  have h' := h cxSt2 cxSt2_wf cxC2 0 512 cxD [] rfl cxC2_todo hreal hfull
  have hR : (cxSt2.compactRecord cxC2).1 = cxSt2 := by
    rcases compactRecord_step cxSt2 cxC2 0 512 cxD [] rfl cxC2_todo with
      ⟨_, h⟩ | ⟨hd, _⟩ | ⟨hd, _⟩ | ⟨hd, _⟩
    · exact h
    · cases hd
    · cases hd
    · cases hd
  rw [hR] at h'
  exact h' cxSlot2 (by show cxSlot2 ∈ [cxSlot2]; simp) ⟨rfl, rfl⟩


----------------------------------------------------------------------------------------------

-- THEOREMS TO PROVE (statements fixed; if one is false as written, follow the _partial protocol) --

/- ORIGINAL STATEMENT — FALSE as written (`M03_compactRecord_refines_false` above; `#eval`s at `cxSt`):
/-- Repointing a slot to a copy of its record keeps the contents. `writeRecord` of the record's own
encoding followed by `repoint` is what `compactRecord` does for a live put record. -/
theorem M03_compactRecord_refines (st : MState) (hwf : st.WF) (c : MState.CompState)
    (hreal : ∀ src, c.source = some src → ∀ s ∈ st.segs, s.id = src →
      ∃ done, MState.recsWithOffsets s.data = done ++ c.todo) :
    (st.compactRecord c).1.WF ∧ (st.compactRecord c).1.abs = st.abs -- no proof: false as stated
-/

/-- Repointing a slot to a copy of its record keeps the contents. `writeRecord` of the record's own
encoding followed by `repoint` is what `compactRecord` does for a live put record.
Extra hypothesis `hexact`: a slot pointing at the put record being processed carries that
record's key and value sizes. -/
theorem M03_compactRecord_refines_partial (st : MState) (hwf : st.WF) (c : MState.CompState)
    (hreal : ∀ src, c.source = some src → ∀ s ∈ st.segs, s.id = src →
      ∃ done, MState.recsWithOffsets s.data = done ++ c.todo)
    (hexact : ∀ src off r rest, c.source = some src → c.todo = (off, r) :: rest → r.del = false →
      ∀ sl ∈ st.idx.slots, sl.seg = src → sl.off = off →
        sl.ksz = r.key.length ∧ sl.vsz = r.val.length) :
    (st.compactRecord c).1.WF ∧ (st.compactRecord c).1.abs = st.abs := by
  have hid : st.WF ∧ st.abs = st.abs := ⟨hwf, rfl⟩
  cases hs : c.source with
  | none => rw [compactRecord_none st c hs]; exact hid
  | some src =>
    cases ht : c.todo with
    | nil => rw [compactRecord_nil st c src hs ht]; exact hid
    | cons p rest =>
      obtain ⟨off, r⟩ := p
      rcases compactRecord_step st c src off r rest hs ht with
        ⟨_, h⟩ | ⟨_, _, h⟩ | ⟨_, _, h⟩ | ⟨hd, idx', hr, h⟩
      · rw [h]; exact hid
      · rw [h]; exact hid
      · rw [h]
        obtain ⟨hwf1, _, _, _, hget⟩ := writeRecord_wf hwf r.encode
        exact ⟨hwf1, funext hget⟩
      · rw [h]
        have hsrc : ∀ sg ∈ st.segs, sg.id = src → ∃ A B : Bytes, sg.data = A ++ r.encode ++ B ∧
            off = headerSize + A.length := by
          intro sg hmem hid'
          obtain ⟨done, hdn⟩ := hreal src hs sg hmem hid'
          rw [ht] at hdn
          obtain ⟨A, B, h1, h2, _⟩ := recs_split hdn
          exact ⟨A, B, h1, h2⟩
        obtain ⟨hwf2, hget2⟩ := compact_live hwf hsrc (hexact src off r rest hs ht hd) hr
        exact ⟨hwf2, funext hget2⟩

/-- Sealing segments (pick) changes neither well-formedness nor contents. -/
theorem M03_compactBegin_refines (st : MState) (hwf : st.WF) (picked : List Nat) :
    (st.compactBegin picked).1.WF ∧ (st.compactBegin picked).1.abs = st.abs := by
  have hf : ∀ s : MSeg, ((fun s : MSeg => if picked.contains s.id then { s with full := true } else s) s).id = s.id ∧
      ((fun s : MSeg => if picked.contains s.id then { s with full := true } else s) s).data = s.data := by
    intro s; dsimp only; split <;> exact ⟨rfl, rfl⟩
  have hids : ((st.compactBegin picked).1.segs.map (·.id)).Nodup := by
    unfold compactBegin
    dsimp only
    rw [List.map_map]
    have : ((fun x : MSeg => x.id) ∘ fun s : MSeg => if picked.contains s.id then { s with full := true } else s)
        = (fun x => x.id) := by
      funext s; exact (hf s).1
    rw [this]; exact hwf.ids
  obtain ⟨hwf', hget⟩ := agree_wf (st' := (st.compactBegin picked).1) hwf hids rfl rfl
    (fun sl _ => segData_mapKeep st _ hf sl.seg)
  exact ⟨hwf', funext hget⟩

/-- Removing a segment that no slot points into keeps well-formedness and contents. -/
theorem M03_removeSeg_refines (st : MState) (hwf : st.WF) (id : Nat)
    (hno : ∀ sl ∈ st.idx.slots, sl.seg ≠ id) :
    (st.removeSeg id).WF ∧ (st.removeSeg id).abs = st.abs := by
  have hids : ((st.removeSeg id).segs.map (·.id)).Nodup := by
    unfold removeSeg
    dsimp only
    exact List.Nodup.sublist (List.Sublist.map _ List.filter_sublist) hwf.ids
  obtain ⟨hwf', hget⟩ := agree_wf (st' := st.removeSeg id) hwf hids rfl rfl
    (fun sl hsl => segData_removeSeg st id sl.seg (hno sl hsl))
  exact ⟨hwf', funext hget⟩

/- ORIGINAL STATEMENT — FALSE as written (`M03_processed_not_pointed_false` above; `#eval` at `cxSt2`):
/-- After a put record of the source at `(src, off)` has been processed, no slot points at it. -/
theorem M03_processed_not_pointed (st : MState) (hwf : st.WF) (c : MState.CompState) (src off : Nat) (r : Rec)
    (rest : List (Nat × Rec)) (hs : c.source = some src) (ht : c.todo = (off, r) :: rest)
    (hreal : ∀ s ∈ st.segs, s.id = src → ∃ done, MState.recsWithOffsets s.data = done ++ c.todo)
    (hne : ∀ s ∈ st.segs, s.id = src → s.full = true) :
    ∀ sl ∈ (st.compactRecord c).1.idx.slots, ¬ (sl.seg = src ∧ sl.off = off) -- no proof: false as stated
-/

/-- After a record of the source at `(src, off)` has been processed, no slot points at it.
Extra hypothesis `hexact`: a slot pointing at `(src, off)` points at a put record and carries its
key size (hence its key and hash). -/
theorem M03_processed_not_pointed_partial (st : MState) (hwf : st.WF) (c : MState.CompState) (src off : Nat) (r : Rec)
    (rest : List (Nat × Rec)) (hs : c.source = some src) (ht : c.todo = (off, r) :: rest)
    (hreal : ∀ s ∈ st.segs, s.id = src → ∃ done, MState.recsWithOffsets s.data = done ++ c.todo)
    (hne : ∀ s ∈ st.segs, s.id = src → s.full = true)
    (hexact : ∀ sl ∈ st.idx.slots, sl.seg = src → sl.off = off →
      r.del = false ∧ sl.ksz = r.key.length) :
    ∀ sl ∈ (st.compactRecord c).1.idx.slots, ¬ (sl.seg = src ∧ sl.off = off) := by
  have hhash : ∀ sl ∈ st.idx.slots, sl.seg = src → sl.off = off → sl.hash = st.hashOf r.key := by
    intro sl hsl hsg ho
    obtain ⟨_, hksz⟩ := hexact sl hsl hsg ho
    obtain ⟨sg, hmem, hid, _⟩ := hwf.points sl hsl
    obtain ⟨done, hdn⟩ := hreal sg hmem (hid.trans hsg)
    rw [ht] at hdn
    obtain ⟨A, B, h1, h2, _⟩ := recs_split hdn
    have hsd : st.segData sl.seg = some (A ++ r.encode ++ B) := by
      unfold segData
      rw [← hid, seg?_of_mem hwf.ids hmem, ← h1]; rfl
    have hk := (reads_at_record hsd (ho.trans h2) hksz).1
    rw [hwf.inv.hashed sl hsl]
    unfold kof hashOf
    rw [hk]; rfl
  obtain ⟨hwf1, hidx, _, _, _⟩ := writeRecord_wf hwf r.encode
  rcases compactRecord_step st c src off r rest hs ht with
    ⟨hd, h⟩ | ⟨_, hn, h⟩ | ⟨_, hn, h⟩ | ⟨hd, idx', hr, h⟩
  · rw [h]
    intro sl hsl ⟨hsg, ho⟩
    have := (hexact sl hsl hsg ho).1
    rw [hd] at this; cases this
  · rw [h]
    intro sl hsl ⟨hsg, ho⟩
    exact Index.repoint_none hwf.inv hn sl hsl ⟨hhash sl hsl hsg ho, ho, hsg⟩
  · rw [h]
    intro sl hsl ⟨hsg, ho⟩
    have hsl' : sl ∈ st.idx.slots := by rw [hidx] at hsl; exact hsl
    exact Index.repoint_none hwf1.inv hn sl hsl ⟨hhash sl hsl' hsg ho, ho, hsg⟩
  · rw [h]
    show ∀ sl ∈ idx'.slots, _
    have hfr := writeRecord_fresh hwf r.encode
    obtain ⟨s, hs1, _, ho, hsg, _, hsub⟩ := repoint_slots hwf1 hr (fun a ha hseg => by
      rw [hidx] at ha
      have := hfr a ha hseg
      omega)
    have hs1' : s ∈ st.idx.slots := by rw [hidx] at hs1; exact hs1
    intro sl hsl ⟨hsg', ho'⟩
    rcases hsub sl hsl with ⟨hm, hne'⟩ | he
    · exact hne' (hwf1.locs sl hm s hs1 (hsg'.trans hsg.symm) (ho'.trans ho.symm))
    · subst he
      dsimp only at hsg' ho'
      have := hfr s hs1' (hsg.trans hsg'.symm)
      omega

-- ADDITIONAL (not in the original list): the extra hypotheses as one predicate that a step preserves --

/-- `ExactOn` is kept by a compaction step (for the records still to do), so `hexact` of the
`_partial` theorems needs to be established only when a source segment is started. -/
theorem M03_compactRecord_exact (st : MState) (hwf : st.WF) (c : MState.CompState) (src : Nat)
    (hs : c.source = some src)
    (hreal : ∀ s ∈ st.segs, s.id = src → ∃ done, MState.recsWithOffsets s.data = done ++ c.todo)
    (hex : st.ExactOn src c.todo) :
    (st.compactRecord c).1.ExactOn src (st.compactRecord c).2.todo := by
  rw [compactRecord_todo st c src hs]
  cases ht : c.todo with
  | nil => rw [compactRecord_nil st c src hs ht]; intro p hp; cases hp
  | cons p0 rest =>
    obtain ⟨off, r⟩ := p0
    rw [ht] at hex
    have hex' : st.ExactOn src rest := fun p hp => hex p (List.mem_cons_of_mem _ hp)
    obtain ⟨hwf1, hidx, _, _, _⟩ := writeRecord_wf hwf r.encode
    rcases compactRecord_step st c src off r rest hs ht with
      ⟨_, h⟩ | ⟨_, _, h⟩ | ⟨_, _, h⟩ | ⟨hd, idx', hr, h⟩
    · rw [h]; exact hex'
    · rw [h]; exact hex'
    · rw [h]; unfold ExactOn; rw [hidx]; exact hex'
    · rw [h]
      obtain ⟨old, _, _, _, hoff', _, hold, _⟩ := writeRecord_spec st r.encode hwf.ids
      have hfr := writeRecord_fresh hwf r.encode
      obtain ⟨s, hs1, _, ho, hsg, _, hsub⟩ := repoint_slots hwf1 hr (fun a ha hseg => by
        rw [hidx] at ha
        have := hfr a ha hseg
        omega)
      have hs1' : s ∈ st.idx.slots := by rw [hidx] at hs1; exact hs1
      intro p hp sl hsl hseg hoff
      have hp : p ∈ rest := hp
      rcases hsub sl hsl with ⟨hm, _⟩ | he
      · rw [hidx] at hm
        exact hex' p hp sl hm hseg hoff
      · exfalso
        subst he
        dsimp only at hseg hoff
        obtain ⟨sg, hmem, hid, _⟩ := hwf.points s hs1'
        have hsd : st.segData src = some sg.data := by
          unfold segData
          rw [← hsg, ← hid, seg?_of_mem hwf.ids hmem]; rfl
        obtain ⟨done, hdn⟩ := hreal sg hmem (hid.trans hsg)
        rw [ht] at hdn
        obtain ⟨l1, l2, hl⟩ := List.append_of_mem hp
        have hdn' : recsWithOffsets sg.data = (done ++ (off, r) :: l1) ++ (p.1, p.2) :: l2 := by
          rw [hdn, hl]; simp
        obtain ⟨A, B, h1, h2, _⟩ := recs_split hdn'
        rw [hseg] at hold
        rcases hold with hq | ⟨hq, _⟩
        · rw [hsd] at hq
          have := Option.some.inj hq
          have hlen : sg.data.length = A.length + (10 + p.2.key.length + p.2.val.length) + B.length := by
            rw [h1]; simp; omega
          rw [← this] at hoff'
          omega
        · rw [hsd] at hq; cases hq


/-- `M03_compactRecord_refines_partial` with `ExactOn` as the extra hypothesis. -/
theorem M03_compactRecord_refines_of_exact (st : MState) (hwf : st.WF) (c : MState.CompState)
    (hreal : ∀ src, c.source = some src → ∀ s ∈ st.segs, s.id = src →
      ∃ done, MState.recsWithOffsets s.data = done ++ c.todo)
    (hex : ∀ src, c.source = some src → st.ExactOn src c.todo) :
    (st.compactRecord c).1.WF ∧ (st.compactRecord c).1.abs = st.abs :=
  M03_compactRecord_refines_partial st hwf c hreal (fun src off r rest hs ht _ sl hsl hsg ho =>
    (hex src hs (off, r) (by rw [ht]; exact List.mem_cons_self ..) sl hsl hsg ho).2)

/-- `M03_processed_not_pointed_partial` with `ExactOn` as the extra hypothesis. -/
theorem M03_processed_not_pointed_of_exact (st : MState) (hwf : st.WF) (c : MState.CompState) (src off : Nat) (r : Rec)
    (rest : List (Nat × Rec)) (hs : c.source = some src) (ht : c.todo = (off, r) :: rest)
    (hreal : ∀ s ∈ st.segs, s.id = src → ∃ done, MState.recsWithOffsets s.data = done ++ c.todo)
    (hne : ∀ s ∈ st.segs, s.id = src → s.full = true)
    (hex : st.ExactOn src c.todo) :
    ∀ sl ∈ (st.compactRecord c).1.idx.slots, ¬ (sl.seg = src ∧ sl.off = off) :=
  M03_processed_not_pointed_partial st hwf c src off r rest hs ht hreal hne (fun sl hsl hsg ho =>
    have h := hex (off, r) (by rw [ht]; exact List.mem_cons_self ..) sl hsl hsg ho
    ⟨h.1, h.2.1⟩)

end Pogreb
