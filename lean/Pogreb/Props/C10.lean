/-
  C10 — no data race, panic, fault or deadlock under concurrent use, including Close.

  What a proof can carry here is the locking model: (a) facts regenerated from the current source
  (lock order, guardedness, yields outside the lock, the Close protocol) decided over the generated
  table; (b) general theorems: rank-ordered acquisition excludes deadlock for any number of
  threads, and common-lock guarding orders every pair of conflicting accesses. Data races inside a
  section, faults and the Go scheduler are runtime facts: validated by the race-detector stress, not
  proved (DESIGN, C10: partial).
-/
import Pogreb.Locking
import Pogreb.Spec
namespace Pogreb

open Pogreb.Locking Pogreb.Generated

/-! ### (a) generated facts -/

theorem C10_lock_order : (entryPoints.all fun (n, _) => orderOK methods n) = true := by
  decide +kernel

theorem C10_yields_unlocked : (entryPoints.all fun (n, _) => yieldsUnlocked methods n) = true := by
  decide +kernel

theorem C10_close_waits_for_worker_first : closeWaitsFirst methods = true := by
  decide +kernel

theorem C10_worker_calls_entry_points_only : workerCallsOnlyEntryPoints methods = true := by
  decide +kernel

/-- `Open` starts the background worker as the LAST thing it does with the new database: `recover`
(which reads and rebuilds index and log without any lock) and `readMeta` run while no other goroutine
of the database exists. -/
theorem C10_open_starts_worker_last :
    openCalls.getLast? = some "DB.startBackgroundWorker" ∧
    (openCalls.filter (· == "DB.startBackgroundWorker")).length = 1 ∧
    openCalls.contains "DB.recover" = true := by
  decide

theorem C10_only_worker_goroutine : onlyWorkerGoroutine methods = true := by
  decide +kernel

/-! ### (b) rank-ordered locking cannot deadlock -/

/-- Snapshot of a lock machine: what each thread holds, and which lock it is blocked on (if any). -/
structure LockSt where
  holds : Nat → List Nat      -- thread ↦ locks held (shared or exclusive)
  waits : Nat → Option Nat    -- thread ↦ lock it is blocked acquiring

/-- The discipline `orderOK` checks, read at a state: a thread blocks only on a lock whose rank
exceeds the rank of everything it holds. -/
def Disciplined (rank : Nat → Nat) (s : LockSt) : Prop :=
  ∀ t l, s.waits t = some l → ∀ l' ∈ s.holds t, rank l' < rank l

/-- A deadlock: a non-empty set of threads each blocked on a lock held by a thread of the set. -/
def Deadlocked (s : LockSt) : Prop :=
  ∃ D : List Nat, D ≠ [] ∧ ∀ t ∈ D, ∃ l, s.waits t = some l ∧ ∃ t' ∈ D, l ∈ s.holds t'

-- helper ----------------------------------------------------------------------------------

/-- A non-empty list has an element maximising `f`. -/
theorem exists_argmax (f : Nat → Nat) (D : List Nat) (hD : D ≠ []) :
    ∃ t ∈ D, ∀ t' ∈ D, f t' ≤ f t := by
  induction D with
  | nil => exact absurd rfl hD
  | cons a D ih =>
    cases D with
    | nil => exact ⟨a, List.mem_cons_self, fun t' ht' => by simp at ht'; subst ht'; exact Nat.le_refl _⟩
    | cons b D =>
      obtain ⟨m, hm, hmax⟩ := ih (by simp)
      by_cases hle : f a ≤ f m
      · refine ⟨m, List.mem_cons_of_mem _ hm, fun t' ht' => ?_⟩
        rcases List.mem_cons.1 ht' with rfl | ht'
        · exact hle
        · exact hmax t' ht'
      · refine ⟨a, List.mem_cons_self, fun t' ht' => ?_⟩
        rcases List.mem_cons.1 ht' with rfl | ht'
        · exact Nat.le_refl _
        · exact Nat.le_trans (hmax t' ht') (Nat.le_of_lt (Nat.lt_of_not_le hle))

/-- Rank of the lock a thread is blocked on (0 if it is not blocked). -/
def waitRank (rank : Nat → Nat) (s : LockSt) (t : Nat) : Nat :=
  match s.waits t with
  | some l => rank l
  | none => 0

-- THEOREMS TO PROVE (statements fixed) ------------------------------------------------------

/-- **No deadlock**, for any number of threads and locks, shared or exclusive holders. -/
theorem C10_ordered_no_deadlock (rank : Nat → Nat) (s : LockSt) (h : Disciplined rank s) : ¬ Deadlocked s := by
  rintro ⟨D, hD, hdead⟩
  obtain ⟨t, ht, hmax⟩ := exists_argmax (waitRank rank s) D hD
  obtain ⟨l, hwl, t', ht', hheld⟩ := hdead t ht
  obtain ⟨l', hwl', _⟩ := hdead t' ht'
  have hlt : rank l < rank l' := h t' l' hwl' l hheld
  have hle := hmax t' ht'
  simp only [waitRank, hwl, hwl'] at hle
  exact Nat.lt_irrefl _ (Nat.lt_of_lt_of_le hlt hle)

/-- Acquisitions that respect the order keep the discipline (so it holds in every reachable state of
threads running methods for which `orderOK` holds). -/
theorem C10_discipline_step (rank : Nat → Nat) (s : LockSt) (h : Disciplined rank s) (t l : Nat)
    (hord : ∀ l' ∈ s.holds t, rank l' < rank l) :
    Disciplined rank { s with waits := fun t' => if t' = t then some l else s.waits t' } ∧
    (s.waits t = none →
      Disciplined rank { s with holds := fun t' => if t' = t then l :: s.holds t else s.holds t' }) := by
  constructor
  · intro t' l0 hw l' hl'
    simp only at hw hl'
    by_cases htt : t' = t
    · subst htt
      simp only [if_true] at hw
      cases hw
      exact hord l' hl'
    · simp only [if_neg htt] at hw
      exact h t' l0 hw l' hl'
  · intro hnone t' l0 hw l' hl'
    simp only at hw hl'
    by_cases htt : t' = t
    · subst htt
      rw [hnone] at hw
      cases hw
    · simp only [if_neg htt] at hl'
      exact h t' l0 hw l' hl'

/-- Two accesses to the same guarded object, at least one of them a write, both made under the
lock in a compatible mode, are ordered: they cannot be in their critical sections at once.
`inSec t` = thread t currently holds the lock, `excl t` = exclusively; the lock's invariant
(trusted: sync.RWMutex) is that an exclusive holder is the only holder. -/
theorem C10_conflicting_accesses_ordered (inSec excl : Nat → Bool)
    (hmutex : ∀ a b, a ≠ b → inSec a = true → inSec b = true → excl a = false ∧ excl b = false)
    (a b : Nat) (hab : a ≠ b) (hw : excl a = true ∨ excl b = true) :
    ¬ (inSec a = true ∧ inSec b = true) := by
  rintro ⟨ha, hb⟩
  have := hmutex a b hab ha hb
  rcases hw with hw | hw
  · rw [this.1] at hw; cases hw
  · rw [this.2] at hw; cases hw

/-- Non-vacuity of `C10_ordered_no_deadlock`: a disciplined state with a waiter. Thread 0 holds
lock 1 (rank 1) and is blocked on lock 3 (rank 3), which thread 1 holds; thread 1 is not blocked. -/
def C10_demo : LockSt where
  holds := fun t => if t = 0 then [1] else if t = 1 then [3] else []
  waits := fun t => if t = 0 then some 3 else none

example : Disciplined id C10_demo ∧ C10_demo.waits 0 = some 3 ∧ 3 ∈ C10_demo.holds 1 ∧
    ¬ Deadlocked C10_demo := by
  have hd : Disciplined id C10_demo := by
    intro t l hw l' hl'
    simp only [C10_demo] at hw hl'
    by_cases h0 : t = 0
    · subst h0
      simp at hw hl'
      subst hw; subst hl'
      decide
    · simp [h0] at hw
  exact ⟨hd, rfl, by simp [C10_demo], C10_ordered_no_deadlock id C10_demo hd⟩

end Pogreb
