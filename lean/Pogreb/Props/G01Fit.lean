/-
  G01 (allocation guard): the "record does not fit in the file" test of `segmentIterator.next`.
  (generated definitions: `Generated/Funcs.lean`, regenerated from /repo by factgen on every run;
  Go fixed-width arithmetic as `BitVec` arithmetic).
-/
import Pogreb.Generated.Funcs
import Pogreb.Record
import Pogreb.Lemmas.BitVecNat
namespace Pogreb
open Generated
set_option linter.unusedSimpArgs false

/-- Every function/guard of this file was translated (none had an unsupported shape). -/
theorem G01_fit_translated :
    (Funcs.recordFitsGuard_translated) = true := by decide

/-- The allocation guard of the record reader: "the claimed record does not fit in the file". -/
theorem G01_recordFitsGuard (off ks vs : BitVec 32) (fsize : BitVec 64) (hf : fsize.toNat < 2 ^ 63)
    (hsz : ks.toNat + vs.toNat + 10 < 2 ^ 32) :
    Funcs.recordFitsGuard (f_f_size := fsize) (f_offset := off) (v_keySize := ks) (v_valueSize := vs)
      = decide (fsize.toNat < off.toNat + (ks.toNat + vs.toNat + 10)) := by
  unfold Funcs.recordFitsGuard Funcs.encodedRecordSize
  rw [slt_toNat _ _ (by bv_omega) (by bv_omega)]
  simp only [Bool.decide_eq_true, decide_eq_decide]
  bv_omega

end Pogreb
