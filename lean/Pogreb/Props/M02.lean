/-
  M02 — recovery on the EXECUTABLE model: `MState.reopenRecover` (what the driver runs for every
  `open kind=recover` line) yields a well-formed state whose contents are exactly the replay of the
  valid record prefixes of the segment files in sequence-id order (`recovered`, the function the
  crash theorems C03/C04/C05/C06 are about), and leaves every segment clean.
  Supports C03/C04/C08 (not a property of its own).
-/
import Pogreb.Props.M01
import Pogreb.SegFS
import Pogreb.Lemmas.SegFS
import Pogreb.Lemmas.ModelRecover
namespace Pogreb
open MState

/-- The segment files of a model state, in replay order. -/
def MState.files (st : MState) : SegFS := (MState.sortBySeq st.segs).map fun s => ⟨s.seq, s.data⟩

-- helper ------------------------------------------------------------------------------------
theorem MState.files_eq (st : MState) : st.files = MState.filesOf st.segs := rfl

theorem MState.recover_refines' (st : MState) (hids : (st.segs.map (·.id)).Nodup) (seed : UInt32) :
    (st.reopenRecover seed).WF ∧ (st.reopenRecover seed).abs = recovered (MState.filesOf st.segs) := by
  obtain ⟨hwf, habs, _⟩ := MState.recover_main st hids seed
  rw [MState.reopenRecover_eq]
  obtain ⟨h1, h2⟩ := MState.seal_swap_wf hwf
    ((MState.sortBySeq (MState.recover0 st seed).segs).getLast?.map (·.id))
  refine ⟨h1, ?_⟩
  rw [← habs]
  funext k
  exact h2 k
----------------------------------------------------------------------------------------------

-- THEOREMS TO PROVE (statements fixed; if one is false as written, follow the _partial protocol) --

/-- `sortBySeq` is a permutation sorted by sequence id. -/
theorem M02_sortBySeq_perm (segs : List MSeg) :
    (MState.sortBySeq segs).Perm segs ∧ (MState.sortBySeq segs).Pairwise (fun a b => a.seq ≤ b.seq) :=
  ⟨MState.sortBySeq_perm segs, MState.sortBySeq_sorted segs⟩

/-- **Recovery is replay.** From any state with distinct segment ids (the index and every flag are
discarded), the recovered state is well-formed and its contents are `recovered` of the files. -/
theorem M02_recover_refines (st : MState) (hids : (st.segs.map (·.id)).Nodup) (seed : UInt32) :
    (st.reopenRecover seed).WF ∧ (st.reopenRecover seed).abs = recovered st.files := by
  rw [MState.files_eq]
  exact MState.recover_refines' st hids seed

/-- After recovery every segment holds whole valid records only (it was truncated to its valid
prefix), and the valid records themselves are untouched. -/
theorem M02_recover_truncates (st : MState) (hids : (st.segs.map (·.id)).Nodup) (seed : UInt32) :
    ∀ s ∈ st.segs, ∃ s' ∈ (st.reopenRecover seed).segs, s'.id = s.id ∧ s'.seq = s.seq ∧
      s'.data = s.data.take (scan s.data).2 := by
  intro s hs
  obtain ⟨newest, hsegs⟩ := MState.recover_segs st hids seed
  have h0 : MState.clearSeg s ∈ (MState.recover0 st seed).segs := by
    unfold MState.recover0
    apply swap_mem
    exact List.mem_map.2 ⟨s, hs, rfl⟩
  refine ⟨MState.sealSeg newest (MState.truncSeg (MState.clearSeg s)), ?_, ?_, ?_, ?_⟩
  · rw [hsegs]
    exact List.mem_map.2 ⟨_, h0, rfl⟩
  · simp [MState.clearSeg]
  · simp [MState.clearSeg]
  · simp [MState.clearSeg, MState.truncSeg]

/-- Recovering twice is recovering once, as far as contents go. -/
theorem M02_recover_idempotent (st : MState) (hids : (st.segs.map (·.id)).Nodup) (s1 s2 : UInt32) :
    ((st.reopenRecover s1).reopenRecover s2).abs = (st.reopenRecover s1).abs := by
  obtain ⟨hwf1, habs1⟩ := MState.recover_refines' st hids s1
  obtain ⟨_, habs2⟩ := MState.recover_refines' (st.reopenRecover s1) hwf1.ids s2
  rw [habs2, habs1]
  obtain ⟨newest, hsegs⟩ := MState.recover_segs st hids s1
  unfold recovered
  rw [hsegs, MState.recoverLog_filesOf_map _ (fun _ => by simp)
    (fun x => by
      rw [← MState.segEnts_trunc x]
      unfold MState.segEnts
      simp),
    MState.recoverLog_recover0]

end Pogreb
