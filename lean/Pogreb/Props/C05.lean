/-
  C05 — compaction is logically invisible, even with interleaved writers and crashes.

  The log in replay order is `pre ++ S ++ post`: `S` the segment being compacted (sealed: it never
  changes), `pre` the older segments, `post` everything newer (where writers and compaction append).
  Compaction processes the records of `S` one per exclusive critical section; between two of them
  any number of Put/Delete calls of other goroutines run (the schedule `sched`). A put record is
  copied iff the index still points at it, i.e. (by the index/log coupling) iff no later record of
  the same key exists. After the last record the segment is removed.
-/
import Pogreb.SegFS
import Pogreb.Lemmas.SegFS
import Pogreb.Lemmas.Compaction
import Pogreb.Props.C03
namespace Pogreb

/-- A user operation against the database whose log is `base ++ post` (`base` is fixed).
`Delete` of an absent key writes nothing. -/
def applyUser (base : List E) (post : List E) : WOp Bytes Bytes → List E
  | .put k v => post ++ [⟨k, some v⟩]
  | .del k => if contents (base ++ post) k = none then post else post ++ [⟨k, none⟩]

def applyUsers (base : List E) (post : List E) (ops : List (WOp Bytes Bytes)) : List E :=
  ops.foldl (applyUser base) post

/-- `promoteRecord`: copy iff live. -/
def promote (e : E) (todo post : List E) : List E :=
  if e.val.isSome && (todo ++ post).all (fun e' => decide (e'.key ≠ e.key)) then post ++ [e] else post

/-- The copy loop over the remaining records `todo` of the source segment; `sched.head` are the
writer operations that run before the next record is processed (the last element: before removal). -/
def compactLoop (base : List E) : List E → List E → List (List (WOp Bytes Bytes)) → List E
  | [], post, sched => applyUsers base post (sched.headD [])
  | e :: todo, post, sched =>
    let post := applyUsers base post (sched.headD [])
    compactLoop base todo (promote e todo post) sched.tail

/-- The writer operations that actually ran. -/
def ranOps (n : Nat) (sched : List (List (WOp Bytes Bytes))) : List (WOp Bytes Bytes) :=
  (sched.take (n + 1)).flatten

-- HELPERS (mention the definitions above) ----------------------------------------------------

-- helper
theorem applyUser_contents (base post : List E) (op : WOp Bytes Bytes) :
    contents (base ++ applyUser base post op) = WOp.apply (contents (base ++ post)) op := by
  cases op with
  | put k v =>
    simp only [applyUser, WOp.apply]
    rw [← List.append_assoc, contents_put]
  | del k =>
    simp only [applyUser, WOp.apply]
    split
    · next h => exact contents_del_absent _ k h
    · rw [← List.append_assoc, contents_del]

-- helper
theorem applyUsers_contents (base post : List E) (ops : List (WOp Bytes Bytes)) :
    contents (base ++ applyUsers base post ops) = WOp.run (contents (base ++ post)) ops := by
  induction ops generalizing post with
  | nil => rfl
  | cons op ops ih =>
    simp only [applyUsers, List.foldl_cons, WOp.run_cons] at ih ⊢
    rw [ih, applyUser_contents]

-- helper
theorem mem_applyUser (base post : List E) (op : WOp Bytes Bytes) {x : E} (hx : x ∈ post) :
    x ∈ applyUser base post op := by
  cases op with
  | put k v => simp [applyUser, hx]
  | del k =>
    simp only [applyUser]
    split
    · exact hx
    · simp [hx]

-- helper
theorem mem_applyUsers (base post : List E) (ops : List (WOp Bytes Bytes)) {x : E} (hx : x ∈ post) :
    x ∈ applyUsers base post ops := by
  induction ops generalizing post with
  | nil => exact hx
  | cons op ops ih =>
    simp only [applyUsers, List.foldl_cons] at ih ⊢
    exact ih _ (mem_applyUser base post op hx)

-- helper
theorem mem_promote (e : E) (todo post : List E) {x : E} (hx : x ∈ post) : x ∈ promote e todo post := by
  unfold promote
  split
  · simp [hx]
  · exact hx

-- helper
theorem promote_contents (a : List E) (e : E) (todo post : List E) :
    contents (a ++ e :: todo ++ promote e todo post) = contents (a ++ e :: todo ++ post) := by
  unfold promote
  split
  · next h =>
    simp only [Bool.and_eq_true, List.all_eq_true, decide_eq_true_eq] at h
    obtain ⟨hv, hall⟩ := h
    obtain ⟨v, hv⟩ := Option.isSome_iff_exists.mp hv
    obtain ⟨ek, ev⟩ := e
    simp only at hv hall ⊢
    subst hv
    have hc : contents (a ++ ⟨ek, some v⟩ :: todo ++ post) ek = some v := by
      have : a ++ (⟨ek, some v⟩ : E) :: todo ++ post = a ++ ⟨ek, some v⟩ :: (todo ++ post) := by simp
      rw [this]
      exact contents_at_last a ⟨ek, some v⟩ (todo ++ post) hall
    rw [← List.append_assoc]
    exact contents_copy _ _ _ hc
  · rfl

-- helper
theorem ranOps_succ (n : Nat) (sched : List (List (WOp Bytes Bytes))) :
    ranOps (n + 1) sched = sched.headD [] ++ ranOps n sched.tail := by
  cases sched with
  | nil => simp [ranOps]
  | cons o os => simp [ranOps, List.take_succ_cons]

-- helper
theorem ranOps_zero (sched : List (List (WOp Bytes Bytes))) : ranOps 0 sched = sched.headD [] := by
  cases sched with
  | nil => simp [ranOps]
  | cons o os => simp [ranOps]

-- helper: the copy loop started anywhere inside the source segment is invisible
theorem loop_contents (a todo post : List E) (sched : List (List (WOp Bytes Bytes))) :
    contents (a ++ todo ++ compactLoop (a ++ todo) todo post sched) =
      WOp.run (contents (a ++ todo ++ post)) (ranOps todo.length sched) := by
  induction todo generalizing a post sched with
  | nil =>
    simp only [compactLoop, List.length_nil, ranOps_zero]
    exact applyUsers_contents _ _ _
  | cons e todo ih =>
    simp only [compactLoop, List.length_cons, ranOps_succ, WOp.run_append]
    have hb : a ++ e :: todo = (a ++ [e]) ++ todo := by simp
    rw [hb, ih (a ++ [e])]
    congr 1
    rw [← hb, promote_contents, applyUsers_contents]

-- helper: loop invariant for the removal — the last record of every key among the processed
-- records `d` has a later record in `todo`, or is a delete record, or is shadowed by `post`.
theorem loop_shadow (base d todo post : List E) (sched : List (List (WOp Bytes Bytes)))
    (inv : ∀ k e, lastRec d k = some e →
      (∃ y ∈ todo, y.key = k) ∨ e.val = none ∨ ∃ y ∈ post, y.key = k) :
    ∀ k e, lastRec (d ++ todo) k = some e →
      e.val = none ∨ ∃ y ∈ compactLoop base todo post sched, y.key = k := by
  induction todo generalizing d post sched with
  | nil =>
    intro k e he
    rw [List.append_nil] at he
    rcases inv k e he with ⟨y, hy, _⟩ | hv | ⟨y, hy, hk⟩
    · simp at hy
    · exact Or.inl hv
    · exact Or.inr ⟨y, mem_applyUsers _ _ _ hy, hk⟩
  | cons x todo ih =>
    have hb : d ++ x :: todo = (d ++ [x]) ++ todo := by simp
    rw [hb]
    simp only [compactLoop]
    apply ih
    intro k e he
    rw [lastRec_append_singleton] at he
    split at he
    · next hxk =>
      injection he with he; subst he
      by_cases hv : x.val = none
      · exact Or.inr (Or.inl hv)
      · by_cases hall : ∀ y ∈ todo ++ applyUsers base post (sched.headD []), y.key ≠ x.key
        · right; right
          refine ⟨x, ?_, hxk⟩
          have hs : x.val.isSome = true := by
            cases hx : x.val with
            | none => exact absurd hx hv
            | some v => rfl
          unfold promote
          rw [if_pos]
          · simp
          · simp only [Bool.and_eq_true, List.all_eq_true, decide_eq_true_eq]
            exact ⟨hs, hall⟩
        · have : ∃ y ∈ todo ++ applyUsers base post (sched.headD []), y.key = x.key := by
            apply Classical.byContradiction
            intro hne
            apply hall
            intro y hy hk
            exact hne ⟨y, hy, hk⟩
          obtain ⟨y, hy, hk⟩ := this
          rcases List.mem_append.mp hy with hy | hy
          · exact Or.inl ⟨y, hy, hk.trans hxk⟩
          · exact Or.inr (Or.inr ⟨y, mem_promote _ _ _ hy, hk.trans hxk⟩)
    · next hxk =>
      rcases inv k e he with ⟨y, hy, hk⟩ | hv | ⟨y, hy, hk⟩
      · rcases List.mem_cons.mp hy with rfl | hy
        · exact absurd hk hxk
        · exact Or.inl ⟨y, hy, hk⟩
      · exact Or.inr (Or.inl hv)
      · exact Or.inr (Or.inr ⟨y, mem_promote _ _ _ (mem_applyUsers _ _ _ hy), hk⟩)

-- THEOREMS TO PROVE (statements fixed) ------------------------------------------------------

/-- A writer operation has its specified effect on the contents, wherever compaction is. -/
theorem C05_user_op (base post : List E) (op : WOp Bytes Bytes) :
    contents (base ++ applyUser base post op) = WOp.apply (contents (base ++ post)) op := by
  exact applyUser_contents base post op

/-- Processing one record never changes the contents. -/
theorem C05_promote_invisible (base : List E) (e : E) (todo post : List E)
    (hbase : ∃ a b, base = a ++ e :: todo ++ b ∧ b = []) :
    contents (base ++ promote e todo post) = contents (base ++ post) := by
  obtain ⟨a, b, hb, rfl⟩ := hbase
  subst hb
  rw [List.append_nil]
  exact promote_contents a e todo post

/-- **Invisible while running**: at the end of the copy loop (and, the loop being a prefix-closed
recursion, at every point inside it) the contents are exactly the writers' operations applied to the
initial contents: reads during a compaction see only acknowledged writes. -/
theorem C05_loop_invisible (pre S post : List E) (sched : List (List (WOp Bytes Bytes))) :
    contents (pre ++ S ++ compactLoop (pre ++ S) S post sched) =
      WOp.run (contents (pre ++ S ++ post)) (ranOps S.length sched) := by
  exact loop_contents pre S post sched

/-- **Removal is safe**: after the loop the source segment can be dropped from the log without
changing the contents, provided it holds no delete records or is the oldest segment
(the pick rule: a segment with delete records is compacted only together with all older ones,
oldest first). -/
theorem C05_remove_safe (pre S post : List E) (sched : List (List (WOp Bytes Bytes)))
    (hpick : (∀ e ∈ S, e.val.isSome) ∨ pre = []) :
    contents (pre ++ compactLoop (pre ++ S) S post sched) =
      contents (pre ++ S ++ compactLoop (pre ++ S) S post sched) := by
  apply contents_remove_last
  intro k e he
  have := loop_shadow (pre ++ S) [] S post sched (by intro k e h; simp [lastRec, lastOf] at h) k e
    (by simpa using he)
  rcases this with hv | hs
  · rcases hpick with hp | hp
    · have := hp e (lastRec_key he).1
      rw [hv] at this; simp at this
    · subst hp
      exact Or.inr ⟨hv, by simp⟩
  · exact Or.inl hs

/-- **Compaction of one segment, end to end**: the contents after the segment has been removed are
the initial contents with exactly the concurrent writers' operations applied; in particular no deleted
or overwritten value comes back. -/
theorem C05_compact_segment (pre S post : List E) (sched : List (List (WOp Bytes Bytes)))
    (hpick : (∀ e ∈ S, e.val.isSome) ∨ pre = []) :
    contents (pre ++ compactLoop (pre ++ S) S post sched) =
      WOp.run (contents (pre ++ S ++ post)) (ranOps S.length sched) := by
  rw [C05_remove_safe pre S post sched hpick, C05_loop_invisible]

/-- The pick rule is necessary: with a delete record in `S` and an older put of the key in `pre`,
dropping `S` resurrects the key (this is the stale-pick defect repaired in compaction.go). -/
theorem C05_pick_rule_needed :
    ∃ (pre S post : List E), contents (pre ++ post) ≠ contents (pre ++ S ++ post) ∧
      (∀ e ∈ S, Shadowed e post ∨ e.val = none) := by
  refine ⟨[⟨[], some []⟩], [⟨[], none⟩], [], ?_, ?_⟩
  · intro h
    have := congrFun h []
    simp [contents, lastRec, lastOf] at this
  · intro e he
    simp only [List.mem_singleton] at he
    subst he
    exact Or.inr rfl

/-- File level: a crash while a copy is being appended to the current segment (torn anywhere), or
just before/after the source file is unlinked, recovers to the same contents. `older`, `src`, `newer`,
`cur` are the segment files; the copy `r` is of a record whose key currently has value `r.val`. -/
theorem C05_copy_crash_safe (fsPre : SegFS) (cur : SegFile) (hc : cur.Clean) (r : Rec) (hr : r.Fits)
    (hput : r.del = false) (hlive : recovered (fsPre ++ [cur]) r.key = some r.val) (n : Nat) :
    recovered (fsPre ++ [{ cur with bytes := cur.bytes ++ r.encode.take n }]) = recovered (fsPre ++ [cur]) := by
  by_cases h : n < r.encode.length
  · exact C03_torn_append fsPre cur hc r hr n h
  · have hn : r.encode.take n = r.encode.take r.encode.length := by
      rw [List.take_length, List.take_of_length_le (by omega)]
    rw [hn]
    have := (C03_full_append fsPre cur hc r hr).1
    simp only [afterAppend] at this
    rw [this]
    funext k
    simp only [Rec.op, hput, Bool.false_eq_true, if_false, WOp.apply, KV.put]
    split
    · next hk => subst hk; exact hlive.symm
    · rfl

end Pogreb

/-! ### Non-vacuity: a concrete instance of `C05_compact_segment` -/
namespace Pogreb
namespace C05Example

def pre : List E := [⟨[1], some [1]⟩, ⟨[2], some [2]⟩]
/-- the compacted segment: key `[1]` twice (only the last is live), `[3]` deleted later in `post`,
`[4]` overwritten by a concurrent writer just before its record is processed -/
def S : List E := [⟨[1], some [10]⟩, ⟨[3], some [30]⟩, ⟨[1], some [11]⟩, ⟨[4], some [40]⟩]
def post : List E := [⟨[3], none⟩]
/-- writers interleaved with the four critical sections and the removal; the sixth batch does
not run any more -/
def sched : List (List (WOp Bytes Bytes)) :=
  [[.put [5] [50]], [], [.del [2], .del [9]], [.put [4] [41]], [.put [6] [60]], [.put [7] [70]]]

theorem hpick : (∀ e ∈ S, e.val.isSome) ∨ pre = [] := Or.inl (by decide)

/-- What the loop leaves in the newer segments: only `[1] ↦ [11]` was copied. -/
example : compactLoop (pre ++ S) S post sched =
    [⟨[3], none⟩, ⟨[5], some [50]⟩, ⟨[2], none⟩, ⟨[1], some [11]⟩, ⟨[4], some [41]⟩,
     ⟨[6], some [60]⟩] := by decide

example : ranOps S.length sched =
    [.put [5] [50], .del [2], .del [9], .put [4] [41], .put [6] [60]] := by
  simp [ranOps, S, sched]

/-- The theorem at this instance. -/
example : contents (pre ++ compactLoop (pre ++ S) S post sched) =
    WOp.run (contents (pre ++ S ++ post)) (ranOps S.length sched) :=
  C05_compact_segment pre S post sched hpick

/-- Both sides evaluated at the keys involved (left: files after removal; right: the spec). -/
example : ([[1], [2], [3], [4], [5], [6], [7], [9]].map
      (contents (pre ++ compactLoop (pre ++ S) S post sched))) =
    [some [11], none, none, some [41], some [50], some [60], none, none] := by decide

example : ([[1], [2], [3], [4], [5], [6], [7], [9]].map
      (WOp.run (contents (pre ++ S ++ post)) (ranOps S.length sched))) =
    [some [11], none, none, some [41], some [50], some [60], none, none] := by decide

end C05Example
end Pogreb
