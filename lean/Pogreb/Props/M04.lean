/-
  M04 — the strengthened invariant of the executable model and whole-segment compaction.
  `WF2` adds to `WF` (M01) that every slot points at a *scanned put record* of its segment with the
  record's exact sizes, and that every segment is fully scannable. It is established by `init` and
  recovery, preserved by Put/Delete/compaction steps, and gives: compacting a whole sealed segment
  (all its records, then `removeSeg`) leaves the contents unchanged. Supports C05/C15/C03.
-/
import Pogreb.Props.M02
import Pogreb.Props.M03
import Pogreb.Lemmas.ModelWF2
namespace Pogreb
open MState

/-- Every slot points at a put record that `scan` finds in its segment, with exact sizes. -/
def MState.SlotsExact (st : MState) : Prop :=
  ∀ sl ∈ st.idx.slots, ∃ s ∈ st.segs, s.id = sl.seg ∧
    ∃ done r rest, MState.recsWithOffsets s.data = done ++ (sl.off, r) :: rest ∧
      r.del = false ∧ sl.ksz = r.key.length ∧ sl.vsz = r.val.length

/-- Every segment consists of whole valid records. -/
def MState.SegsClean (st : MState) : Prop := ∀ s ∈ st.segs, (scan s.data).2 = s.data.length

def MState.WF2 (st : MState) : Prop := st.WF ∧ st.SlotsExact ∧ st.SegsClean

/-- Run the copy loop of one source segment to its end (no concurrent writers). -/
def MState.compactAll (st : MState) (c : MState.CompState) : Nat → MState × MState.CompState
  | 0 => (st, c)
  | n + 1 =>
    let (st', c') := st.compactRecord c
    MState.compactAll st' c' n

-- helper ------------------------------------------------------------------------------------
namespace MState

theorem allOK_of_exact {st : MState} (hids : (st.segs.map (·.id)).Nodup) (h : st.SlotsExact) : st.AllOK := by
  intro sl hsl
  obtain ⟨s, hs, hid, hrest⟩ := h sl hsl
  exact ⟨s.data, by rw [← hid]; exact segData_of_mem hids hs, hrest⟩

theorem exact_of_allOK {st : MState} (h : st.AllOK) : st.SlotsExact := by
  intro sl hsl
  obtain ⟨d, hd, hrest⟩ := h sl hsl
  obtain ⟨s, hs, hid, hdat⟩ := segData_mem hd
  refine ⟨s, hs, hid, ?_⟩
  rw [hdat]; exact hrest

theorem allClean_of_clean {st : MState} (h : st.SegsClean) : st.AllClean := by
  intro id d hd
  obtain ⟨s, hs, _, hdat⟩ := segData_mem hd
  rw [← hdat]; exact h s hs

theorem clean_of_allClean {st : MState} (hids : (st.segs.map (·.id)).Nodup) (h : st.AllClean) :
    st.SegsClean := fun s hs => h s.id s.data (segData_of_mem hids hs)

theorem wf2_intro {st : MState} (hwf : st.WF) (hok : st.AllOK) (hac : st.AllClean) : st.WF2 :=
  ⟨hwf, exact_of_allOK hok, clean_of_allClean hwf.ids hac⟩

theorem WF2.ok {st : MState} (h : st.WF2) : st.AllOK := allOK_of_exact h.1.ids h.2.1
theorem WF2.clean {st : MState} (h : st.WF2) : st.AllClean := allClean_of_clean h.2.2

theorem compactAll_succ (st : MState) (c : CompState) (n : Nat) :
    st.compactAll c (n + 1) = (st.compactRecord c).1.compactAll (st.compactRecord c).2 n := rfl

/-- The copy loop over a sealed source segment `S` (id `sid`). -/
theorem compactAll_inv (sid : Nat) (S : MSeg) (hfull : S.full = true) :
    ∀ (n : Nat) (st : MState) (c : CompState),
      st.WF → st.AllOK → st.AllClean → c.source = some sid → st.seg? sid = some S →
      (∃ done, recsWithOffsets S.data = done ++ c.todo) →
      (∀ sl ∈ st.idx.slots, sl.seg = sid → ∃ p ∈ c.todo, sl.off = p.1) →
      c.todo.length ≤ n →
      (st.compactAll c n).1.WF ∧ (st.compactAll c n).1.AllOK ∧ (st.compactAll c n).1.AllClean ∧
      (st.compactAll c n).1.abs = st.abs ∧ ∀ sl ∈ (st.compactAll c n).1.idx.slots, sl.seg ≠ sid := by
  intro n
  induction n with
  | zero =>
    intro st c hwf hok hac _ _ _ hslots hlen
    have ht : c.todo = [] := List.length_eq_zero_iff.1 (by omega)
    refine ⟨hwf, hok, hac, rfl, ?_⟩
    intro sl hsl e
    obtain ⟨p, hp, _⟩ := hslots sl hsl e
    rw [ht] at hp; cases hp
  | succ n ih =>
    intro st c hwf hok hac hsrc hseg hrec hslots hlen
    rw [compactAll_succ]
    have hS : ∀ s ∈ st.segs, s.id = sid → s = S := by
      intro s hs hid
      have h := seg?_of_mem hwf.ids hs
      rw [hid, hseg] at h
      exact (Option.some.inj h).symm
    have hreal' : ∀ s ∈ st.segs, s.id = sid → ∃ done, recsWithOffsets s.data = done ++ c.todo := by
      intro s hs hid; rw [hS s hs hid]; exact hrec
    have hreal : ∀ src, c.source = some src → ∀ s ∈ st.segs, s.id = src →
        ∃ done, recsWithOffsets s.data = done ++ c.todo := by
      intro src hs'
      rw [hsrc] at hs'
      rw [← Option.some.inj hs']; exact hreal'
    have hne : ∀ s ∈ st.segs, s.id = sid → s.full = true := by
      intro s hs hid; rw [hS s hs hid]; exact hfull
    have hex := exactOn_of_ok hok hreal'
    obtain ⟨hwf1, habs1⟩ := M03_compactRecord_refines_of_exact st hwf c hreal
      (fun src hs' => exactOn_of_ok hok (hreal src hs'))
    obtain ⟨hok1, hac1, hsub⟩ := compactRecord_ok hwf hok hac c hreal
    have hseg1 := compactRecord_sealed hwf.ids hseg hfull c
    have hsrc1 : (st.compactRecord c).2.source = some sid := by rw [compactRecord_source]; exact hsrc
    have htodo1 := compactRecord_todo st c sid hsrc
    have hrec1 : ∃ done, recsWithOffsets S.data = done ++ (st.compactRecord c).2.todo := by
      rw [htodo1]
      obtain ⟨done, hd⟩ := hrec
      cases ht : c.todo with
      | nil => rw [ht] at hd; exact ⟨done, hd⟩
      | cons q rest => rw [ht] at hd; exact ⟨done ++ [q], by rw [hd]; simp⟩
    have hslots1 : ∀ sl ∈ (st.compactRecord c).1.idx.slots, sl.seg = sid →
        ∃ p ∈ (st.compactRecord c).2.todo, sl.off = p.1 := by
      intro sl hsl hsg
      rw [htodo1]
      rcases hsub sl hsl with hold | ⟨off, r, rest, ht', hseg'⟩
      · obtain ⟨p, hp, hpo⟩ := hslots sl hold hsg
        cases ht : c.todo with
        | nil => rw [ht] at hp; cases hp
        | cons q rest =>
          rw [ht] at hp
          rcases List.mem_cons.1 hp with e | hp'
          · exfalso
            obtain ⟨qo, qr⟩ := q
            rw [e] at hpo
            exact M03_processed_not_pointed_of_exact st hwf c sid qo qr rest hsrc ht hreal' hne hex
              sl hsl ⟨hsg, hpo⟩
          · exact ⟨p, hp', hpo⟩
      · exfalso
        exact (writeRecord_sealed hwf.ids hseg hfull r.encode).1 (hseg'.symm.trans hsg)
    have hlen1 : (st.compactRecord c).2.todo.length ≤ n := by
      rw [htodo1, List.length_tail]; omega
    obtain ⟨g1, g2, g3, g4, g5⟩ := ih (st.compactRecord c).1 (st.compactRecord c).2 hwf1 hok1 hac1 hsrc1
      hseg1 hrec1 hslots1 hlen1
    exact ⟨g1, g2, g3, g4.trans habs1, g5⟩

end MState
----------------------------------------------------------------------------------------------

-- THEOREMS TO PROVE (statements fixed; if one is false as written, follow the _partial protocol) --

theorem M04_init (maxSeg : Nat) (seed : UInt32) : (MState.init maxSeg seed).WF2 := by
  have hwf := (M01_init_wf maxSeg seed).1
  have hidx : (MState.init maxSeg seed).idx = Index.empty := by unfold MState.init; rw [swap_idx]
  have hslots : (MState.init maxSeg seed).idx.slots = [] := by rw [hidx]; rfl
  refine ⟨hwf, ?_, ?_⟩
  · intro sl hsl; rw [hslots] at hsl; cases hsl
  · intro s hs
    have : s.data = [] := by
      simp [MState.init, swapSegment, insertSeg] at hs
      rw [hs]
    rw [this]; exact cleanD_nil

theorem M04_put (st : MState) (h : st.WF2) (k v : Bytes)
    (hk : k.length ≤ maxKeyLength) (hv : v.length ≤ maxValueLength) : (st.put k v).1.WF2 := by
  obtain ⟨_, hwf2, _⟩ := M01_put_refines st h.1 k v hk hv
  have hk' : ¬ k.length > maxKeyLength := by omega
  have hv' : ¬ v.length > maxValueLength := by omega
  have hkl : k.length % 65536 = k.length := by
    apply Nat.mod_eq_of_lt; unfold maxKeyLength at hk; omega
  have hvl : v.length % 4294967296 = v.length := by
    apply Nat.mod_eq_of_lt; unfold maxValueLength at hv; omega
  have hf : (⟨false, k, v⟩ : Rec).Fits := by
    unfold maxKeyLength at hk; unfold maxValueLength at hv
    constructor <;> dsimp only <;> omega
  have hput : (st.put k v).1 =
      { (st.writeRecord (Rec.encode ⟨false, k, v⟩)).1 with
          idx := (st.writeRecord (Rec.encode ⟨false, k, v⟩)).1.idx.put loadPolicy
            ⟨st.hashOf k, (st.writeRecord (Rec.encode ⟨false, k, v⟩)).2.1, k.length, v.length,
              (st.writeRecord (Rec.encode ⟨false, k, v⟩)).2.2⟩
            ((st.writeRecord (Rec.encode ⟨false, k, v⟩)).1.matchKey k) } := by
    unfold MState.put
    rw [if_neg hk', if_neg hv', hkl, hvl]
  obtain ⟨h1, h2⟩ := put_ok h.1 h.ok h.clean ⟨false, k, v⟩ rfl hf
  rw [← hput] at h1 h2
  exact wf2_intro hwf2 h1 h2

theorem M04_delete (st : MState) (h : st.WF2) (k : Bytes) (hk : k.length ≤ maxKeyLength) : (st.delete k).WF2 := by
  have hwf3 := (M01_delete_refines st h.1 k).1
  have hf : (⟨true, k, []⟩ : Rec).Fits := by
    unfold maxKeyLength at hk
    constructor <;> dsimp only [List.length_nil] <;> omega
  obtain ⟨h1, h2⟩ := delete_ok h.1 h.ok h.clean ⟨true, k, []⟩ hf
  rw [MState.delete_eq] at hwf3 ⊢
  cases hg : st.idx.get (st.hashOf k) (st.matchKey k) with
  | none => exact h
  | some sl =>
    rw [hg] at hwf3
    exact wf2_intro hwf3 h1 h2

theorem M04_recover (st : MState) (hids : (st.segs.map (·.id)).Nodup) (seed : UInt32) :
    (st.reopenRecover seed).WF2 :=
  ⟨(M02_recover_refines st hids seed).1, exact_of_allOK (recover_ok st hids seed),
    recover_clean st hids seed⟩

theorem M04_compactRecord (st : MState) (h : st.WF2) (c : MState.CompState)
    (hreal : ∀ src, c.source = some src → ∀ s ∈ st.segs, s.id = src →
      ∃ done, MState.recsWithOffsets s.data = done ++ c.todo) :
    (st.compactRecord c).1.WF2 ∧ (st.compactRecord c).1.abs = st.abs := by
  obtain ⟨hwf', habs⟩ := M03_compactRecord_refines_of_exact st h.1 c hreal
    (fun src hs => exactOn_of_ok h.ok (hreal src hs))
  obtain ⟨h1, h2, _⟩ := compactRecord_ok h.1 h.ok h.clean c hreal
  exact ⟨wf2_intro hwf' h1 h2, habs⟩

/-- **Whole-segment compaction on the executable model**: process every record of a sealed source
segment, then remove it: still `WF2`, same contents. -/
theorem M04_compact_segment (st : MState) (h : st.WF2) (src : MSeg) (hsrc : src ∈ st.segs) (hfull : src.full = true) :
    let c : MState.CompState := ⟨[], some src.id, MState.recsWithOffsets src.data, true, false⟩
    let st' := (st.compactAll c ((MState.recsWithOffsets src.data).length + 1)).1
    (st'.removeSeg src.id).WF2 ∧ (st'.removeSeg src.id).abs = st.abs := by
  intro c st'
  have hseg : st.seg? src.id = some src := seg?_of_mem h.1.ids hsrc
  have hslots : ∀ sl ∈ st.idx.slots, sl.seg = src.id → ∃ p ∈ c.todo, sl.off = p.1 := by
    intro sl hsl hsg
    obtain ⟨d, hd, done, r, rest, hrec, _⟩ := h.ok sl hsl
    have h2 := segData_of_mem h.1.ids hsrc
    rw [hsg, h2] at hd
    rw [← Option.some.inj hd] at hrec
    refine ⟨(sl.off, r), ?_, rfl⟩
    show (sl.off, r) ∈ recsWithOffsets src.data
    rw [hrec]; simp
  obtain ⟨hwf', hok', hac', habs', hno⟩ := compactAll_inv src.id src hfull
    ((MState.recsWithOffsets src.data).length + 1) st c h.1 h.ok h.clean rfl hseg ⟨[], rfl⟩ hslots
    (Nat.le_succ _)
  obtain ⟨hwfR, habsR⟩ := M03_removeSeg_refines st' hwf' src.id hno
  refine ⟨⟨hwfR, exact_of_allOK ?_, ?_⟩, habsR.trans habs'⟩
  · intro sl hsl
    exact slotOK_congr (segData_removeSeg st' src.id sl.seg (hno sl hsl)) (hok' sl hsl)
  · intro s hs
    have hs' : s ∈ st'.segs.filter (·.id != src.id) := hs
    exact clean_of_allClean hwf'.ids hac' s (List.mem_filter.1 hs').1

end Pogreb
