/-
  G01 (rollover): the rollover condition of `datalog.writeRecord` is the `need` condition of `MState.writeRecord`.
  (generated definitions: `Generated/Funcs.lean`, regenerated from /repo by factgen on every run;
  Go fixed-width arithmetic as `BitVec` arithmetic).
-/
import Pogreb.Generated.Funcs
import Pogreb.Model
import Pogreb.Lemmas.BitVecNat
namespace Pogreb
open Generated
set_option linter.unusedSimpArgs false

/-- Every function/guard of this file was translated (none had an unsupported shape). -/
theorem G01_roll_translated :
    (Funcs.rolloverGuard_translated) = true := by decide

/-- The rollover condition of `writeRecord` is the model's (`s.full || s.size + len > maxSeg`); the
`int64` arithmetic cannot wrap (sizes are far below 2⁶²). -/
theorem G01_rolloverGuard (full : Bool) (size len : BitVec 64) (max : BitVec 32)
    (hs : size.toNat < 2 ^ 62) (hlen : len.toNat < 2 ^ 62) :
    Funcs.rolloverGuard (f_curSeg_meta_Full := full) (f_curSeg_size := size)
        (f_opts_maxSegmentSize := max) (len_p0 := len)
      = (full || decide (size.toNat + len.toNat > max.toNat)) := by
  unfold Funcs.rolloverGuard
  have hm := max.isLt
  rw [slt_toNat _ _ (by bv_omega) (by bv_omega)]
  cases full
  · simp only [Bool.false_eq_true, false_or, or_false, Bool.false_or, Bool.decide_eq_true, decide_eq_decide]
    bv_omega
  · simp only [true_or, or_true, Bool.true_or, decide_true]

/-- The generated rollover guard, on the model's quantities, is exactly the `need` condition of
`MState.writeRecord` (`s.full || s.size + data.length > st.cfg.maxSeg`). -/
theorem G01_rolloverGuard_model (s : MSeg) (data : Bytes) (cfg : MCfg)
    (hm : cfg.maxSeg < 2 ^ 32) (hs : s.size < 2 ^ 62) (hd : data.length < 2 ^ 62) :
    Funcs.rolloverGuard (f_curSeg_meta_Full := s.full) (f_curSeg_size := BitVec.ofNat 64 s.size)
        (f_opts_maxSegmentSize := BitVec.ofNat 32 cfg.maxSeg) (len_p0 := BitVec.ofNat 64 data.length)
      = (s.full || s.size + data.length > cfg.maxSeg) := by
  have e1 : (BitVec.ofNat 64 s.size).toNat = s.size := by
    rw [BitVec.toNat_ofNat]; exact Nat.mod_eq_of_lt (by omega)
  have e2 : (BitVec.ofNat 64 data.length).toNat = data.length := by
    rw [BitVec.toNat_ofNat]; exact Nat.mod_eq_of_lt (by omega)
  have e3 : (BitVec.ofNat 32 cfg.maxSeg).toNat = cfg.maxSeg := by
    rw [BitVec.toNat_ofNat]; exact Nat.mod_eq_of_lt hm
  rw [G01_rolloverGuard _ _ _ _ (by omega) (by omega), e1, e2, e3]

end Pogreb
