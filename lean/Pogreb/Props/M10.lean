/-
  M10 — space accounting of the executable model (supports C15: "compaction reclaims space; directory
  size and file count stay bounded by the live data instead of growing with history").
  The bytes of the segment files (`logBytes`) are, in every reachable state, exactly the live records
  (`liveBytes`: what the index points at, a function of the contents alone) plus the garbage (dead
  records and delete records) — `M10_space_identity`. A Put/Delete appends exactly its record; a copy
  step of a compaction appends the record iff it is live; a whole compaction of a sealed segment
  removes exactly the garbage of that segment from the log and leaves the live bytes alone; restarts
  and crashes (also inside an append) do not change the log bytes. Once every sealed segment holds live
  records only, the log is bounded by the live data plus the open segment.
-/
import Pogreb.Props.M09
import Pogreb.Lemmas.Space
namespace Pogreb
open MState

/-! ### Definitions -/

/-- Bytes of all segment files (without the 512-byte headers). -/
def MState.logBytes (st : MState) : Nat := (st.segs.map (·.data.length)).sum

/-- Number of segment files. -/
def MState.fileCount (st : MState) : Nat := st.segs.length

/-- Total encoded length of the records the index points at (under `WF2` each slot points at a whole
put record of exactly that size, `M04`'s `SlotsExact`). -/
def MState.liveBytes (st : MState) : Nat := (st.idx.slots.map (fun sl => 10 + sl.ksz + sl.vsz)).sum

/-- Some slot of the index points at file offset `off` of segment `sid`. -/
def MState.pointed (st : MState) (sid off : Nat) : Bool :=
  st.idx.slots.any fun sl => sl.seg == sid && sl.off == off

/-- The record `p = (off, r)` of segment `sid` is live: a put record that the index points at.
Otherwise it is garbage: a delete record, or a dead (overwritten / deleted / already copied) record. -/
def MState.liveRec (st : MState) (sid : Nat) (p : Nat × Rec) : Bool := !p.2.del && st.pointed sid p.1

/-- Bytes of the live records of segment `s`. -/
def MState.liveIn (st : MState) (s : MSeg) : Nat :=
  (((MState.recsWithOffsets s.data).filter (st.liveRec s.id)).map (·.2.encode.length)).sum

/-- Bytes of the dead records and delete records of segment `s`. -/
def MState.garbageIn (st : MState) (s : MSeg) : Nat :=
  (((MState.recsWithOffsets s.data).filter (fun p => !st.liveRec s.id p)).map (·.2.encode.length)).sum

/-- Bytes of all dead records and delete records. -/
def MState.garbageBytes (st : MState) : Nat := (st.segs.map st.garbageIn).sum

/-- Bytes of the current (open) segment. -/
def MState.curBytes (st : MState) : Nat := ((st.cur.bind st.seg?).map (·.data.length)).getD 0

/-- Garbage of the current (open) segment. -/
def MState.curGarbage (st : MState) : Nat := ((st.cur.bind st.seg?).map st.garbageIn).getD 0

/-- Every segment other than the current one holds live put records only (no dead record, no delete
record): the state after compacting every sealed segment. -/
def MState.FullyCompacted (st : MState) : Prop :=
  ∀ s ∈ st.segs, st.cur ≠ some s.id → ∀ p ∈ MState.recsWithOffsets s.data, st.liveRec s.id p = true

instance (st : MState) : Decidable st.FullyCompacted := by
  unfold MState.FullyCompacted; infer_instance

/-- A whole compaction of segment `id` without interleaved user writes: begin, `n` copy steps, end. -/
def compactionOps (id n : Nat) : List XOp := .cbegin id :: (List.replicate n .crecord ++ [.cend])

/-- Encoded length of the put records of a listing of the contents. -/
def contentBytes (l : List (Bytes × Bytes)) : Nat := (l.map (fun kv => 10 + kv.1.length + kv.2.length)).sum

-- helper ------------------------------------------------------------------------------------
namespace MState

theorem logBytes_eq (st : MState) : st.logBytes = segBytes st.segs := rfl
theorem liveBytes_eq (st : MState) : st.liveBytes = slotBytes st.idx.slots := rfl
theorem pointed_eq (st : MState) (sid off : Nat) : st.pointed sid off = pointedAt st.idx.slots sid off := rfl
theorem liveRec_eq (st : MState) (sid : Nat) : st.liveRec sid = liveAt st.idx.slots sid := rfl
theorem liveIn_eq (st : MState) (s : MSeg) : st.liveIn s = liveOf st.idx.slots s := rfl
theorem garbageIn_eq (st : MState) (s : MSeg) : st.garbageIn s = deadOf st.idx.slots s := rfl
theorem garbageBytes_eq (st : MState) : st.garbageBytes = (st.segs.map (deadOf st.idx.slots)).sum := rfl

/-- A non-live record is a delete record or a record nobody points at. -/
theorem liveRec_false_iff (st : MState) (sid : Nat) (p : Nat × Rec) :
    st.liveRec sid p = false ↔ (p.2.del = true ∨ ¬ ∃ sl ∈ st.idx.slots, sl.seg = sid ∧ sl.off = p.1) := by
  rw [liveRec_eq]
  constructor
  · intro h
    cases hd : p.2.del
    · right
      intro hex
      have := liveAt_iff.2 ⟨hd, hex⟩
      rw [h] at this; cases this
    · left; rfl
  · intro h
    cases hl : liveAt st.idx.slots sid p
    · rfl
    · obtain ⟨hd, hex⟩ := liveAt_iff.1 hl
      rcases h with h | h
      · rw [hd] at h; cases h
      · exact absurd hex h

/-- A record is never empty: one garbage record makes the garbage positive. -/
theorem garbageIn_pos (st : MState) (s : MSeg)
    (h : ∃ p ∈ recsWithOffsets s.data, st.liveRec s.id p = false) : 0 < st.garbageIn s := by
  obtain ⟨p, hp, hl⟩ := h
  rw [garbageIn_eq]
  unfold deadOf
  have hm : p ∈ (recsWithOffsets s.data).filter (fun p => !liveAt st.idx.slots s.id p) := by
    refine List.mem_filter.2 ⟨hp, ?_⟩
    rw [liveRec_eq] at hl
    rw [hl]; rfl
  obtain ⟨a, b, hab⟩ := List.append_of_mem hm
  rw [hab, recBytes_append, recBytes_cons, Rec.encode_length]
  omega

theorem garbageIn_zero (st : MState) (s : MSeg)
    (h : ∀ p ∈ recsWithOffsets s.data, st.liveRec s.id p = true) : st.garbageIn s = 0 := by
  rw [garbageIn_eq]
  unfold deadOf
  have : (recsWithOffsets s.data).filter (fun p => !liveAt st.idx.slots s.id p) = [] := by
    rw [List.filter_eq_nil_iff]
    intro p hp
    have := h p hp
    rw [liveRec_eq] at this
    rw [this]; simp
  rw [this]; rfl

end MState

-- THEOREMS ------------------------------------------------------------------------------------------

/-- **The space identity**, in every `WF2` state (so in every reachable state: `XInv`, `WF3`): the
segment files consist of the live records and the garbage, and each segment of its live records and
its garbage. -/
theorem M10_space_identity (st : MState) (h : st.WF2) :
    st.logBytes = st.liveBytes + st.garbageBytes ∧
    st.liveBytes = (st.segs.map st.liveIn).sum ∧
    ∀ s ∈ st.segs, s.data.length = st.liveIn s + st.garbageIn s :=
  ⟨space_identity h, slotBytes_eq_live h, fun s hs => (liveOf_add_deadOf _ (h.2.2 s hs)).symm⟩

/-- **The live bytes are a function of the contents**: the encoded length of one put record per key of
the contents (`st.items` lists the contents, `M01_has_count`); two well-formed states with the same
contents have the same live bytes, whatever their history. -/
theorem M10_liveBytes_contents (st : MState) (h : st.WF) :
    st.liveBytes = contentBytes st.items ∧
    ∀ st' : MState, st'.WF → st'.abs = st.abs → st'.liveBytes = st.liveBytes :=
  ⟨slotBytes_eq_items h, fun _ h' habs => slotBytes_of_abs h h' habs⟩

/-- **1. Put / Delete.** An accepted `put k v` appends exactly its record of `10 + |k| + |v|` bytes and
creates at most one file; a rejected one changes nothing. `delete k` of an existing key appends exactly
its delete record of `10 + |k|` bytes; for a MISSING key the model (like `db.go`: the index lookup
fails and `Delete` returns before `writeRecord`) writes NOTHING: the state is unchanged.
(Only `WF` = distinct segment ids is used; `WF3` implies it.) -/
theorem M10_put_bytes (st : MState) (h : st.WF3) :
    (∀ k v, k.length ≤ maxKeyLength → v.length ≤ maxValueLength →
      (st.put k v).2 = .ok ∧
      (st.put k v).1.logBytes = st.logBytes + (10 + k.length + v.length) ∧
      st.fileCount ≤ (st.put k v).1.fileCount ∧ (st.put k v).1.fileCount ≤ st.fileCount + 1) ∧
    (∀ k v, (maxKeyLength < k.length ∨ maxValueLength < v.length) →
      (st.put k v).2 ≠ .ok ∧ (st.put k v).1 = st) ∧
    (∀ k, (st.delete k).logBytes = st.logBytes + (if (st.abs k).isSome then 10 + k.length else 0) ∧
      ((st.abs k).isSome = false → st.delete k = st) ∧
      st.fileCount ≤ (st.delete k).fileCount ∧ (st.delete k).fileCount ≤ st.fileCount + 1) := by
  have hwf : st.WF := h.1.1
  have hids := hwf.ids
  refine ⟨?_, ?_, ?_⟩
  · intro k v hk hv
    have hk' : ¬ k.length > maxKeyLength := by omega
    have hv' : ¬ v.length > maxValueLength := by omega
    have hsegs : (st.put k v).1.segs = (st.writeRecord (Rec.encode ⟨false, k, v⟩)).1.segs := by
      unfold MState.put; rw [if_neg hk', if_neg hv']
    obtain ⟨hb1, hb2, hb3⟩ := segBytes_writeRecord st (Rec.encode ⟨false, k, v⟩) hids
    rw [Rec.encode_length] at hb1
    refine ⟨(M01_put_refines st hwf k v hk hv).1, ?_, ?_, ?_⟩
    · show segBytes (st.put k v).1.segs = _
      rw [hsegs]; exact hb1
    · show _ ≤ (st.put k v).1.segs.length
      rw [hsegs]; exact hb2
    · show (st.put k v).1.segs.length ≤ _
      rw [hsegs]; exact hb3
  · intro k v hb
    obtain ⟨h1, h2⟩ := MState.put_rejects st k v hb
    exact ⟨h2, h1⟩
  · intro k
    have hhas : st.has k = (st.abs k).isSome := (M01_has_count st hwf k).1
    rw [← hhas]
    unfold MState.has
    rw [MState.delete_eq]
    cases hg : st.idx.get (st.hashOf k) (st.matchKey k) with
    | none =>
      dsimp only
      exact ⟨rfl, fun _ => rfl, Nat.le_refl _, Nat.le_succ _⟩
    | some sl =>
      dsimp only
      obtain ⟨hb1, hb2, hb3⟩ := segBytes_writeRecord st (Rec.encode ⟨true, k, []⟩) hids
      rw [Rec.encode_length] at hb1
      refine ⟨?_, fun hc => by simp at hc, hb2, hb3⟩
      show segBytes (st.writeRecord (Rec.encode ⟨true, k, []⟩)).1.segs = segBytes st.segs + _
      rw [hb1]
      simp

/-- **2. One copy step.** With nothing to process (no compaction in progress, or the source exhausted)
the state does not change. Processing the record `(off, r)` of the source segment `sid` appends its
`r.encode.length` bytes iff it is live — so at most that much, and NOTHING for a delete record or a
dead record (one the index does not point at); the live bytes do not change; at most one file is
created, and only for a live record. -/
theorem M10_crecord_bytes (x : XState) (h : x.XInv) :
    ((x.comp = none ∨ ∃ c, x.comp = some c ∧ c.todo = []) → (x.step .crecord).1.st = x.st) ∧
    ∀ c sid off r rest, x.comp = some c → c.source = some sid → c.todo = (off, r) :: rest →
      (x.step .crecord).1.st.logBytes =
        x.st.logBytes + (if x.st.liveRec sid (off, r) = true then r.encode.length else 0) ∧
      (x.step .crecord).1.st.logBytes ≤ x.st.logBytes + r.encode.length ∧
      ((r.del = true ∨ x.st.pointed sid off = false) →
        (x.step .crecord).1.st.logBytes = x.st.logBytes) ∧
      (x.step .crecord).1.st.liveBytes = x.st.liveBytes ∧
      x.st.fileCount ≤ (x.step .crecord).1.st.fileCount ∧
      (x.step .crecord).1.st.fileCount ≤
        x.st.fileCount + (if x.st.liveRec sid (off, r) = true then 1 else 0) := by
  constructor
  · rintro (hc | ⟨c, hc, ht⟩)
    · rw [XState.step_none x hc _ (Or.inl rfl)]
    · rw [XState.step_crecord x c hc]
      obtain ⟨sid, S, hcur⟩ := h.2 c hc
      exact compactRecord_nil x.st c sid hcur.source ht
  · intro c sid off r rest hc hs ht
    rw [XState.step_crecord x c hc]
    obtain ⟨sid', S, hcur⟩ := h.2 c hc
    have hsid : sid' = sid := by
      have := hcur.source
      rw [hs] at this
      exact (Option.some.inj this).symm
    subst hsid
    obtain ⟨a1, a2, _, _, a5, a6⟩ := compactRecord_acct h.wf2 hcur ht
    have a1' : (x.st.compactRecord c).1.logBytes =
        x.st.logBytes + (if x.st.liveRec sid' (off, r) = true then r.encode.length else 0) := a1
    refine ⟨a1', ?_, ?_, a2, a5, a6⟩
    · rw [a1']; split <;> omega
    · intro hdead
      rw [a1']
      have : x.st.liveRec sid' (off, r) = false := by
        unfold MState.liveRec
        rcases hdead with hd | hp
        · rw [hd]; rfl
        · rw [hp]; simp
      rw [this]; simp

/-- **3. A whole compaction reclaims exactly the garbage of the segment.** From a state of the
interleaved model with no compaction in progress, compact the existing segment `id` (content `S`)
that satisfies the pick rule: `cbegin id`, `n ≥ #records` copy steps (until the source is exhausted),
`cend`, with NO interleaved user write. Then
* the invariant holds, no compaction is in progress, the contents are unchanged;
* `logBytes after = logBytes before − garbageIn S` (the bytes of the delete records and dead records
  of the segment), so `≤`, and `<` as soon as the segment holds one delete record or dead record;
* `liveBytes` is unchanged;
* the source segment is gone, every other old segment is still there with its old content as a prefix
  (copied records are appended to the current one);
* at most one new file per LIVE record of the source is created (one per rollover; a rollover needs
  a record to be written), and one file is removed:
  `fileCount after + 1 ≤ fileCount before + #live records of S`, and `fileCount before ≤ fileCount after + 1`;
  in particular a segment without live records just disappears. -/
theorem M10_compaction_reclaims (x : XState) (h : x.XInv) (hcomp : x.comp = none) (id : Nat) (S : MSeg)
    (hS : x.st.seg? id = some S) (hpick : x.OpOK (.cbegin id)) (n : Nat)
    (hn : (MState.recsWithOffsets S.data).length ≤ n) :
    (x.runOps (compactionOps id n)).XInv ∧ (x.runOps (compactionOps id n)).comp = none ∧
    (x.runOps (compactionOps id n)).st.abs = x.st.abs ∧
    (x.runOps (compactionOps id n)).st.logBytes + x.st.garbageIn S = x.st.logBytes ∧
    (x.runOps (compactionOps id n)).st.logBytes ≤ x.st.logBytes ∧
    ((∃ p ∈ MState.recsWithOffsets S.data, x.st.liveRec id p = false) →
      (x.runOps (compactionOps id n)).st.logBytes < x.st.logBytes) ∧
    (x.runOps (compactionOps id n)).st.liveBytes = x.st.liveBytes ∧
    (x.runOps (compactionOps id n)).st.seg? id = none ∧
    (∀ id' d, id' ≠ id → x.st.segData id' = some d →
      ∃ t, (x.runOps (compactionOps id n)).st.segData id' = some (d ++ t)) ∧
    (x.runOps (compactionOps id n)).st.fileCount + 1 ≤
      x.st.fileCount + ((MState.recsWithOffsets S.data).filter (x.st.liveRec id)).length ∧
    x.st.fileCount ≤ (x.runOps (compactionOps id n)).st.fileCount + 1 ∧
    ((∀ p ∈ MState.recsWithOffsets S.data, x.st.liveRec id p = false) →
      (x.runOps (compactionOps id n)).st.fileCount + 1 = x.st.fileCount) := by
  have h2 := h.wf2
  have hids := h2.1.ids
  have hSid : S.id = id := (seg?_some hS).2
  have hSm : S ∈ x.st.segs := (seg?_some hS).1
  -- the invariant, the contents: M06
  have hops : x.OpsOK (compactionOps id n) := by
    refine ⟨hpick, opsOK_compaction _ ?_ _⟩
    intro op hop
    rcases List.mem_append.1 hop with hop | hop
    · exact Or.inl (List.eq_of_mem_replicate hop)
    · exact Or.inr (List.mem_singleton.1 hop)
  obtain ⟨_, hinvY, habsY⟩ := M06_run (compactionOps id n) x h hops
  have hspec : (compactionOps id n).foldl xSpecStep x.st.abs = x.st.abs := by
    unfold compactionOps
    rw [List.foldl_cons, List.foldl_append]
    have : ∀ (k : Nat) (m : KV Bytes Bytes), (List.replicate k XOp.crecord).foldl xSpecStep m = m := by
      intro k
      induction k with
      | zero => intro m; rfl
      | succ k ih => intro m; rw [List.replicate_succ, List.foldl_cons]; exact ih _
    show List.foldl xSpecStep (List.foldl xSpecStep x.st.abs (List.replicate n XOp.crecord)) [XOp.cend] = _
    rw [this]; rfl
  rw [hspec] at habsY
  -- the run, step by step
  have hbegin := compactBegin_wf3x h.1 id
  have hcur0 := cursor_begin h2 h.curOrd id hS hpick
  obtain ⟨g1, g2, g3, _, g5, g6, g7, g8, g9⟩ := compactAll_acct id { S with full := true } n
    (x.st.compactBegin [id]).1 ⟨[], some id, recsWithOffsets S.data, true, false⟩ hbegin.1.1 hcur0 hn
  have hrun : x.runOps (compactionOps id n) =
      ⟨((x.st.compactBegin [id]).1.compactAll
          ⟨[], some id, recsWithOffsets S.data, true, false⟩ n).1.removeSeg id, none⟩ := by
    unfold compactionOps
    rw [runOps_cons, XState.step_cbegin x id S hcomp hS, runOps_append, runOps_crecords, runOps_cons,
      XState.step_cend _ _ rfl id g2.source g3]
    rfl
  rw [hrun]
  rw [hrun] at hinvY habsY
  generalize ((x.st.compactBegin [id]).1.compactAll
    ⟨[], some id, recsWithOffsets S.data, true, false⟩ n) = w at *
  obtain ⟨st2, c2⟩ := w
  dsimp only at *
  -- the begin step changes no data
  have hb_bytes : segBytes (x.st.compactBegin [id]).1.segs = segBytes x.st.segs :=
    segBytes_map_data _ _ (fun s _ => by split <;> rfl)
  have hb_len : (x.st.compactBegin [id]).1.segs.length = x.st.segs.length := List.length_map _
  have hb_data : ∀ i, (x.st.compactBegin [id]).1.segData i = x.st.segData i :=
    segData_mapKeep x.st _ (fun s => by split <;> exact ⟨rfl, rfl⟩)
  -- the end step removes the source
  obtain ⟨r1, r2⟩ := segBytes_removeSeg g1.1.ids g2.seg
  have hsplit := liveOf_add_deadOf x.st.idx.slots (h2.2.2 S hSm)
  have hlive : recBytes ((recsWithOffsets S.data).filter (liveAt x.st.idx.slots id)) =
      liveOf x.st.idx.slots S := by
    unfold liveOf; rw [hSid]
  have hgar : x.st.garbageIn S = deadOf x.st.idx.slots S := rfl
  have hlog : (st2.removeSeg id).logBytes + x.st.garbageIn S = x.st.logBytes := by
    show segBytes (st2.removeSeg id).segs + _ = segBytes x.st.segs
    have g5' : segBytes st2.segs = segBytes (x.st.compactBegin [id]).1.segs +
        recBytes ((recsWithOffsets S.data).filter (liveAt x.st.idx.slots id)) := g5
    have r1' : segBytes (st2.removeSeg id).segs + S.data.length = segBytes st2.segs := r1
    rw [hlive, hb_bytes] at g5'
    rw [hgar]
    omega
  refine ⟨hinvY, rfl, habsY, hlog, by omega, ?_, g6, removeSeg_seg?_self st2 id, ?_, ?_, ?_, ?_⟩
  · intro hex
    have := MState.garbageIn_pos x.st S (by rw [hSid]; exact hex)
    omega
  · intro id' d hne hd
    rw [← hb_data] at hd
    obtain ⟨t, ht⟩ := g7 id' d hd
    exact ⟨t, by rw [segData_removeSeg st2 id id' hne]; exact ht⟩
  · show (st2.removeSeg id).segs.length + 1 ≤ x.st.segs.length + _
    have g9' : st2.segs.length ≤ (x.st.compactBegin [id]).1.segs.length +
        ((recsWithOffsets S.data).filter (liveAt x.st.idx.slots id)).length := g9
    rw [hb_len] at g9'
    rw [MState.liveRec_eq]
    omega
  · show x.st.segs.length ≤ (st2.removeSeg id).segs.length + 1
    rw [hb_len] at g8
    omega
  · intro hall
    show (st2.removeSeg id).segs.length + 1 = x.st.segs.length
    have g9' : st2.segs.length ≤ (x.st.compactBegin [id]).1.segs.length +
        ((recsWithOffsets S.data).filter (liveAt x.st.idx.slots id)).length := g9
    have hnil : (recsWithOffsets S.data).filter (liveAt x.st.idx.slots id) = [] := by
      rw [List.filter_eq_nil_iff]
      intro p hp
      have := hall p hp
      rw [MState.liveRec_eq] at this
      rw [this]; simp
    rw [hnil, hb_len] at g9'
    rw [hb_len] at g8
    simp only [List.length_nil, Nat.add_zero] at g9'
    omega

/-- The two other steps of a compaction, also when user writes are interleaved: `cbegin` only seals
(no byte, no file, no slot changes); `cend` (source exhausted) unlinks the source segment: the log
shrinks by the whole size of that file, one file less, the live bytes unchanged (no slot points into
the source any more); a `cend` that is not due does nothing. -/
theorem M10_cbegin_cend_bytes (x : XState) (h : x.XInv) :
    (∀ id, (x.step (.cbegin id)).1.st.logBytes = x.st.logBytes ∧
      (x.step (.cbegin id)).1.st.liveBytes = x.st.liveBytes ∧
      (x.step (.cbegin id)).1.st.fileCount = x.st.fileCount) ∧
    (∀ c sid S, x.comp = some c → c.source = some sid → c.todo = [] → x.st.seg? sid = some S →
      (x.step .cend).1.st.logBytes + S.data.length = x.st.logBytes ∧
      (x.step .cend).1.st.fileCount + 1 = x.st.fileCount ∧
      (x.step .cend).1.st.liveBytes = x.st.liveBytes ∧ (x.step .cend).1.st.seg? sid = none) ∧
    ((x.comp = none ∨ ∃ c, x.comp = some c ∧ c.todo ≠ []) → (x.step .cend).1 = x) := by
  refine ⟨?_, ?_, ?_⟩
  · intro id
    cases hcomp : x.comp with
    | some c => rw [XState.step_cbegin_busy x id c hcomp]; exact ⟨rfl, rfl, rfl⟩
    | none =>
      cases hseg : x.st.seg? id with
      | none => rw [XState.step_cbegin_absent x id hseg]; exact ⟨rfl, rfl, rfl⟩
      | some s =>
        rw [XState.step_cbegin x id s hcomp hseg]
        exact ⟨segBytes_map_data _ _ (fun s _ => by split <;> rfl), rfl, List.length_map _⟩
  · intro c sid S hc hs ht hS
    rw [XState.step_cend x c hc sid hs ht]
    obtain ⟨r1, r2⟩ := segBytes_removeSeg h.wf2.1.ids hS
    exact ⟨r1, r2, rfl, removeSeg_seg?_self x.st sid⟩
  · rintro (hc | ⟨c, hc, ht⟩)
    · rw [XState.step_none x hc _ (Or.inr rfl)]
    · rw [XState.step_cend_not x c hc (Or.inr ht)]

/-- **4. The live data fit in the log**, in every reachable state. -/
theorem M10_live_le_log (x : XState) (h : x.XInv) : x.st.liveBytes ≤ x.st.logBytes := by
  have := (M10_space_identity x.st h.wf2).1
  omega

/-- The same under `WF3` (or just `WF2`). -/
theorem M10_live_le_log' (st : MState) (h : st.WF3) : st.liveBytes ≤ st.logBytes := by
  have := (M10_space_identity st h.1).1
  omega

/-- **5. After compacting every sealed segment the log is bounded by the live data plus the open
segment.** If every segment other than the current one holds live put records only
(`FullyCompacted`), the only garbage is that of the current segment:
`logBytes = liveBytes + curGarbage ≤ liveBytes + curBytes` (and `curBytes` is below the segment size
limit plus one record). -/
theorem M10_fully_compacted (st : MState) (h : st.WF2) (hfc : st.FullyCompacted) :
    st.logBytes = st.liveBytes + st.curGarbage ∧ st.curGarbage ≤ st.curBytes ∧
    st.logBytes ≤ st.liveBytes + st.curBytes := by
  have hid := (M10_space_identity st h).1
  have hsum : st.garbageBytes = st.curGarbage := by
    unfold MState.garbageBytes MState.curGarbage
    exact sum_map_single st.garbageIn st.cur st.segs h.1.ids
      (fun s hs hne => MState.garbageIn_zero st s (hfc s hs hne))
  have hle : st.curGarbage ≤ st.curBytes := by
    unfold MState.curGarbage MState.curBytes
    cases hc : st.cur.bind st.seg? with
    | none => exact Nat.le_refl _
    | some s =>
      have hs : s ∈ st.segs := by
        cases hcur : st.cur with
        | none => rw [hcur] at hc; cases hc
        | some c =>
          rw [hcur] at hc
          exact (seg?_some (show st.seg? c = some s from hc)).1
      exact deadOf_le st.idx.slots (h.2.2 s hs)
  rw [hsum] at hid
  exact ⟨hid, hle, by omega⟩

/-- **6. Restarts do not change the log bytes.** From a reachable state (`XInv`): a clean restart
writes nothing; recovery truncates only invalid tails, and a reachable state has none (`SegsClean`);
a crash INSIDE the append of a record followed by recovery keeps the record iff all its bytes were
written — a torn tail is cut off. The live bytes are unchanged as well (they are a function of the
contents, which `M09_step` preserves), and at most one (empty) file is created. -/
theorem M10_restart_bytes (x : XState) (h : x.XInv) :
    (x.st.reopenClean.logBytes = x.st.logBytes ∧ x.st.reopenClean.liveBytes = x.st.liveBytes ∧
      x.st.fileCount ≤ x.st.reopenClean.fileCount ∧ x.st.reopenClean.fileCount ≤ x.st.fileCount + 1) ∧
    (∀ seed, (x.st.reopenRecover seed).logBytes = x.st.logBytes ∧
      (x.st.reopenRecover seed).liveBytes = x.st.liveBytes ∧
      (x.st.reopenRecover seed).fileCount = max 1 x.st.fileCount) ∧
    (∀ seed (r : Rec) n, r.Fits → n ≤ r.encode.length →
      ((x.st.writePartial r.encode n).reopenRecover seed).logBytes =
        x.st.logBytes + (if n = r.encode.length then r.encode.length else 0) ∧
      (n < r.encode.length →
        ((x.st.writePartial r.encode n).reopenRecover seed).liveBytes = x.st.liveBytes)) := by
  have h2 := h.wf2
  have hwf := h2.1
  refine ⟨?_, ?_, ?_⟩
  · obtain ⟨b1, b2, b3⟩ := segBytes_reopenClean x.st
    refine ⟨b1, ?_, b2, b3⟩
    obtain ⟨_, hw, habs⟩ := M05_step_partial x.st h.wf3 .reopen trivial trivial
    exact slotBytes_of_abs hwf hw.1.1 habs
  · intro seed
    obtain ⟨_, hinv, habs⟩ := M09_step x h (.crash seed) trivial
    obtain ⟨c1, c2⟩ := segBytes_recover x.st hwf.ids seed
    exact ⟨segBytes_recover_clean x.st hwf.ids h2.2.2 seed, slotBytes_of_abs hwf hinv.wf2.1 habs, c2⟩
  · intro seed r n hf hn
    refine ⟨segBytes_crashTorn hwf.ids h.curOrd h2.2.2 seed r hf n hn, ?_⟩
    intro hlt
    obtain ⟨_, hinv, _⟩ := M09_step x h (.crashTorn seed r n) ⟨hf, hn⟩
    exact slotBytes_of_abs hwf hinv.wf2.1 (M09_torn_not_applied x h seed r hf n hlt)

/-! ### Non-vacuity: a concrete run

Segments of at most 536 bytes (header 512 + two 12-byte records). Put key `[2]` once and key `[1]` five
times: three segments, two of them sealed. Then compact the oldest segment (id 0: one dead record of
`[1]`, the live record of `[2]`), then segment 1 (two dead records), then segment 2 (one dead, one live). -/

def M10_puts : List SOp :=
  [.x (.user (.put [1] [10])), .x (.user (.put [2] [20])), .x (.user (.put [1] [11])),
   .x (.user (.put [1] [12])), .x (.user (.put [1] [13])), .x (.user (.put [1] [14]))]

def M10_x0 : XState := (XState.init 536 0).srunOps M10_puts
def M10_x1 : XState := M10_x0.runOps (compactionOps 0 2)
def M10_x2 : XState := M10_x1.runOps (compactionOps 1 2)
def M10_x3 : XState := M10_x2.runOps (compactionOps 2 2)

/-- (logBytes, liveBytes, garbageBytes, fileCount, [(id, seq, bytes, full)], current, fully compacted?) -/
def M10_show (x : XState) : Nat × Nat × Nat × Nat × List (Nat × Nat × Nat × Bool) × Option Nat × Bool :=
  (x.st.logBytes, x.st.liveBytes, x.st.garbageBytes, x.st.fileCount,
   x.st.segs.map (fun s => (s.id, s.seq, s.data.length, s.full)), x.st.cur, decide x.st.FullyCompacted)

#eval M10_show M10_x0   -- (72, 24, 48, 3, [(0, 1, 24, true), (1, 2, 24, true), (2, 3, 24, false)], some 2, false)
#eval M10_show M10_x1   -- (60, 24, 36, 3, [(1, 2, 24, true), (2, 3, 24, true), (3, 4, 12, false)], some 3, false)
#eval M10_show M10_x2   -- (36, 24, 12, 2, [(2, 3, 24, true), (3, 4, 12, false)], some 3, false)
#eval M10_show M10_x3   -- (24, 24, 0, 1, [(3, 4, 24, false)], some 3, true)
-- garbage / live bytes per segment before the compactions: segment 0 loses its 12 garbage bytes
#eval (M10_x0.st.segs.map M10_x0.st.garbageIn, M10_x0.st.segs.map M10_x0.st.liveIn)   -- ([12, 24, 12], [12, 0, 12])
-- 72 → 60 → 36 → 24 bytes of log for 24 live bytes; a clean restart and a crash keep the log bytes
#eval ((M10_x0.sstep .restart).1.st.logBytes, (M10_x0.sstep (.crash 9)).1.st.logBytes,
       (M10_x0.sstep (.crashTorn 9 ⟨false, [3], [30]⟩ 7)).1.st.logBytes,
       (M10_x0.sstep (.crashTorn 9 ⟨false, [3], [30]⟩ 12)).1.st.logBytes)   -- (72, 72, 72, 84)

/-- With a delete: put `[1]`, put `[2]`, delete `[2]`, put `[1]` twice. The delete record (11 bytes) is
garbage from the start; compacting the oldest segment (two dead records), then the next one (now the
oldest, so the pick rule allows its delete record) drops it. -/
def M10_d0 : XState := (XState.init 536 0).srunOps
  [.x (.user (.put [1] [10])), .x (.user (.put [2] [20])), .x (.user (.del [2])),
   .x (.user (.put [1] [11])), .x (.user (.put [1] [12])), .x (.user (.del [7]))]
#eval M10_show M10_d0   -- (59, 12, 47, 3, [(0, 1, 24, true), (1, 2, 23, true), (2, 3, 12, false)], some 2, false)
#eval M10_show (M10_d0.runOps (compactionOps 0 2))   -- (35, 12, 23, 2, [(1, 2, 23, true), (2, 3, 12, false)], some 2, false)
#eval M10_show ((M10_d0.runOps (compactionOps 0 2)).runOps (compactionOps 1 2))
-- (12, 12, 0, 1, [(2, 3, 12, false)], some 2, true)

/-- The hypotheses of `M10_compaction_reclaims` are satisfiable (checked by the kernel): the state
after the six puts is reachable, so `XInv` holds (`M09_from_init`); no compaction is in progress;
segment 0 exists, holds two records and satisfies the pick rule. -/
theorem M10_x0_inv : M10_x0.XInv := (M09_from_init 536 0 M10_puts (by decide +kernel)).2.1

theorem M10_x0_seg : (M10_x0.st.seg? 0).isSome = true := by decide +kernel

def M10_S : MSeg := (M10_x0.st.seg? 0).get M10_x0_seg

/-- ... so the theorem applies to the first compaction of the run above (`garbageIn = 12`: 72 → 60). -/
example : M10_x1.XInv ∧ M10_x1.st.logBytes + M10_x0.st.garbageIn M10_S = M10_x0.st.logBytes ∧
    M10_x1.st.liveBytes = M10_x0.st.liveBytes ∧ M10_x1.st.seg? 0 = none := by
  have h := M10_compaction_reclaims M10_x0 M10_x0_inv rfl 0 M10_S (Option.some_get _).symm
    (by decide +kernel) 2 (by decide +kernel)
  exact ⟨h.1, h.2.2.2.1, h.2.2.2.2.2.2.1, h.2.2.2.2.2.2.2.1⟩

/-- `M10_fully_compacted` on a state whose only segment is the open one (three puts of one key into a
large segment: 36 bytes of log = 12 live + 24 garbage of the open segment). The state `M10_x3` above
is fully compacted with a sealed history behind it (`#eval`: `true`). -/
def M10_z : XState := (XState.init 4096 0).srunOps
  [.x (.user (.put [1] [10])), .x (.user (.put [1] [11])), .x (.user (.put [1] [12]))]

#eval (M10_z.st.logBytes, M10_z.st.liveBytes, M10_z.st.curGarbage, M10_z.st.curBytes)   -- (36, 12, 24, 36)

example : M10_z.st.logBytes = M10_z.st.liveBytes + M10_z.st.curGarbage :=
  (M10_fully_compacted M10_z.st (M09_from_init 4096 0 _ (by decide +kernel)).2.1.wf2 (by decide +kernel)).1

end Pogreb
