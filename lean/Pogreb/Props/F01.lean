/-
  F01 — the file-level index (main array, overflow array, next pointers, free list, slot writer)
  refines the chain-level index: parsing after a file-level operation gives the chain-level
  operation applied to the parse, and the allocator invariant is preserved. With `IndexThms` and
  Props/C01 this extends the map-refinement of C01 down to the overflow-bucket allocator
  (`createOverflowBucket`, `freeOverflowBucket`, `slotWriter`). Supports C01/C02/C15.
-/
import Pogreb.FileIndex
import Pogreb.IndexThms
import Pogreb.Lemmas.FileSplit
namespace Pogreb
open FIndex

-- THEOREMS TO PROVE (statements fixed; if one is false as written, follow the _partial protocol) --

-- helper

theorem F01_idx_lt (fi : FIndex) (hs : fi.split < 2 ^ fi.level ∧ fi.main.length = 2 ^ fi.level + fi.split)
    (hash : Nat) : bucketIdx fi.level fi.split hash < fi.main.length := by
  rw [hs.2]; exact bucketIdx_lt hs.1 hash

theorem map_slots_split {pre post : List (Ref × FBucket)} {r : Ref} {b : FBucket} :
    (pre ++ (r, b) :: post).map (·.2.slots) = pre.map (·.2.slots) ++ b.slots :: post.map (·.2.slots) := by
  simp

theorem forall_map_slots {l : List (Ref × FBucket)} {Q : List Slot → Prop} (h : ∀ p ∈ l, Q p.2.slots) :
    ∀ x ∈ l.map (·.2.slots), Q x := by
  intro x hx
  obtain ⟨p, hp, rfl⟩ := List.mem_map.1 hx
  exact h p hp

-- theorems

theorem F01_empty : FIndex.empty.AllocInv ∧ FIndex.empty.parse = Index.empty := by
  refine ⟨?_, rfl⟩
  have hl : FIndex.empty.linked = [] := rfl
  simp only [AllocInv, hl]
  simp [FIndex.empty, FBucket.empty]

/-- Lookups see the same slot. -/
theorem F01_get (fi : FIndex) (h : fi.AllocInv) (hs : fi.split < 2 ^ fi.level ∧ fi.main.length = 2 ^ fi.level + fi.split)
    (hash : Nat) (m : Slot → Bool) : fi.get hash m = fi.parse.get hash m := by
  have _ := h  -- the allocator invariant is not needed for lookups
  have hi := F01_idx_lt fi hs hash
  simp only [FIndex.get, Index.get, Index.bucketIndex]
  rw [show fi.parse.level = fi.level from rfl, show fi.parse.split = fi.split from rfl, parse_chain fi hi]
  cases hf : findMatch hash m (fi.chainRefs (bucketIdx fi.level fi.split hash)) with
  | none =>
    simp only
    rw [Chain.get_none' hash m (forall_map_slots (findMatch_none hf))]
  | some x =>
    obtain ⟨r, b, k⟩ := x
    obtain ⟨pre, post, h1, h2, h3⟩ := findMatch_some hf
    simp only
    rw [h1, map_slots_split, Chain.get_at hash m (forall_map_slots h2) h3]

theorem F01_delete (fi : FIndex) (h : fi.AllocInv) (hs : fi.split < 2 ^ fi.level ∧ fi.main.length = 2 ^ fi.level + fi.split)
    (hash : Nat) (m : Slot → Bool) :
    (fi.delete hash m).AllocInv ∧ (fi.delete hash m).parse = fi.parse.delete hash m := by
  have hi := F01_idx_lt fi hs hash
  have g := good_of_allocInv h
  simp only [FIndex.delete, Index.delete, Index.bucketIndex]
  rw [show fi.parse.level = fi.level from rfl, show fi.parse.split = fi.split from rfl, parse_chain fi hi]
  cases hf : findMatch hash m (fi.chainRefs (bucketIdx fi.level fi.split hash)) with
  | none =>
    simp only
    rw [Chain.remove_none' hash m (forall_map_slots (findMatch_none hf))]
    exact ⟨h, rfl⟩
  | some x =>
    obtain ⟨r, b, k⟩ := x
    obtain ⟨pre, post, h1, h2, h3⟩ := findMatch_some hf
    simp only
    rw [h1, map_slots_split, Chain.remove_at hash m (forall_map_slots h2) h3]
    have hb : b.slots.length ≤ slotsPerBucket := by
      have hmem : (r, b) ∈ fi.walk (.main (bucketIdx fi.level fi.split hash)) (fi.ptrs (bucketIdx fi.level fi.split hash)) := by
        rw [← g.chainRefs hi, h1]; simp
      have := g.sm _ hi r (by rw [← walk_map_fst fi]; exact List.mem_map.2 ⟨(r, b), hmem, rfl⟩)
      rwa [← walk_mem hmem] at this
    obtain ⟨g', hp⟩ := g.rewrite hi h1 (b.slots.eraseIdx k)
      (Nat.le_trans (List.length_eraseIdx_le ..) hb)
    refine ⟨g'.allocInv.congr rfl rfl rfl, ?_⟩
    refine (parse_congr (fi := fi.write r { b with slots := b.slots.eraseIdx k })
      (fi' := { fi.write r { b with slots := b.slots.eraseIdx k } with numKeys := fi.numKeys - 1 }) rfl rfl).trans ?_
    rw [hp]
    simp only [write_level, write_split]
    rfl

theorem F01_split (fi : FIndex) (h : fi.AllocInv) (hs : fi.split < 2 ^ fi.level ∧ fi.main.length = 2 ^ fi.level + fi.split) :
    fi.doSplit.AllocInv ∧ fi.doSplit.parse = fi.parse.doSplit := by
  have hs' : fi.split < fi.main.length := by
    have := Nat.two_pow_pos fi.level
    omega
  obtain ⟨⟨P', g'⟩, hp⟩ := doSplit_spec (good_of_allocInv h) hs'
  exact ⟨g'.allocInv, hp⟩

theorem F01_put (policy : Nat → Nat → Bool) (fi : FIndex) (h : fi.AllocInv)
    (hs : fi.split < 2 ^ fi.level ∧ fi.main.length = 2 ^ fi.level + fi.split) (ns : Slot) (m : Slot → Bool) :
    (fi.put policy ns m).AllocInv ∧ (fi.put policy ns m).parse = fi.parse.put policy ns m := by
  have hi := F01_idx_lt fi hs ns.hash
  have g := good_of_allocInv h
  rw [put_eq]
  simp only [Index.put, Index.bucketIndex, Chain.put, parse_level, parse_split, parse_numKeys, parse_chain fi hi]
  cases hf : findMatch ns.hash m (fi.chainRefs (bucketIdx fi.level fi.split ns.hash)) with
  | some x =>
    obtain ⟨r, b, k⟩ := x
    obtain ⟨pre, post, h1, h2, h3⟩ := findMatch_some hf
    simp only
    rw [h1, map_slots_split, Chain.replace_at ns.hash m ns (forall_map_slots h2) h3]
    have hb : b.slots.length ≤ slotsPerBucket := by
      have hmem : (r, b) ∈ fi.walk (.main (bucketIdx fi.level fi.split ns.hash))
          (fi.ptrs (bucketIdx fi.level fi.split ns.hash)) := by
        rw [← g.chainRefs hi, h1]; simp
      have := g.sm _ hi r (by rw [← walk_map_fst fi]; exact List.mem_map.2 ⟨(r, b), hmem, rfl⟩)
      rwa [← walk_mem hmem] at this
    obtain ⟨g', hp⟩ := g.rewrite hi h1 (b.slots.set k ns) (by simpa using hb)
    exact ⟨g'.allocInv, hp⟩
  | none =>
    simp only
    rw [Chain.replace_none' ns.hash m ns (forall_map_slots (findMatch_none hf))]
    simp only [Bool.false_eq_true, if_false]
    obtain ⟨⟨P', g'⟩, hp⟩ := insertNew_spec g ns hi
    rw [parse_chain fi hi] at hp
    have hsh := insertNew_shape fi ns
    -- the state after counting the key
    have h2inv : ({ fi.insertNew ns with numKeys := (fi.insertNew ns).numKeys + 1 } : FIndex).AllocInv :=
      g'.allocInv.congr rfl rfl rfl
    have hnk : (fi.insertNew ns).numKeys = fi.numKeys := by
      have := congrArg Index.numKeys hp
      simpa using this
    have h2p : ({ fi.insertNew ns with numKeys := (fi.insertNew ns).numKeys + 1 } : FIndex).parse =
        ⟨fi.level, fi.split, fi.parse.chains.set (bucketIdx fi.level fi.split ns.hash)
          (Chain.insertFree ns ((fi.chainRefs (bucketIdx fi.level fi.split ns.hash)).map (·.2.slots))),
          fi.numKeys + 1⟩ := by
      refine (parse_congr (fi := fi.insertNew ns)
        (fi' := { fi.insertNew ns with numKeys := (fi.insertNew ns).numKeys + 1 }) rfl rfl).trans ?_
      rw [hp]
      simp only [hsh.2.1, hsh.2.2, hnk]
    generalize hfi2 : ({ fi.insertNew ns with numKeys := (fi.insertNew ns).numKeys + 1 } : FIndex) = fi2 at h2inv h2p ⊢
    have hfi2nb : fi2.numBuckets = fi.main.length := by rw [← hfi2]; exact hsh.1
    have hfi2s : fi2.split < 2 ^ fi2.level ∧ fi2.main.length = 2 ^ fi2.level + fi2.split := by
      rw [← hfi2]
      show (fi.insertNew ns).split < 2 ^ (fi.insertNew ns).level ∧
        (fi.insertNew ns).main.length = 2 ^ (fi.insertNew ns).level + (fi.insertNew ns).split
      rw [hsh.1, hsh.2.1, hsh.2.2]; exact hs
    simp only [Index.numBuckets, List.length_set, parse_chains_length]
    rw [hnk, hfi2nb]
    split
    · obtain ⟨a, b⟩ := F01_split fi2 h2inv hfi2s
      exact ⟨a, by rw [b, h2p]⟩
    · exact ⟨h2inv, h2p⟩

/-- The shape hypothesis is itself preserved. -/
theorem F01_shape (policy : Nat → Nat → Bool) (fi : FIndex)
    (hs : fi.split < 2 ^ fi.level ∧ fi.main.length = 2 ^ fi.level + fi.split) (ns : Slot) (m : Slot → Bool) (hash : Nat) :
    let a := fi.put policy ns m
    let b := fi.delete hash m
    (a.split < 2 ^ a.level ∧ a.main.length = 2 ^ a.level + a.split) ∧
    (b.split < 2 ^ b.level ∧ b.main.length = 2 ^ b.level + b.split) := by
  have hsplit : ∀ f : FIndex, (f.split < 2 ^ f.level ∧ f.main.length = 2 ^ f.level + f.split) →
      (f.doSplit.split < 2 ^ f.doSplit.level ∧ f.doSplit.main.length = 2 ^ f.doSplit.level + f.doSplit.split) := by
    intro f hf
    obtain ⟨h1, h2, h3⟩ := doSplit_shape f
    rw [h1, h2, h3]
    unfold nextLevel nextSplit
    by_cases hc : f.split + 1 = 2 ^ f.level
    · simp only [hc, if_true]
      have := Nat.two_pow_pos (f.level + 1)
      refine ⟨this, ?_⟩
      rw [Nat.pow_succ]; omega
    · simp only [hc, if_false]
      omega
  have hshape : ∀ f g : FIndex, Shape f g → (g.split < 2 ^ g.level ∧ g.main.length = 2 ^ g.level + g.split) →
      (f.split < 2 ^ f.level ∧ f.main.length = 2 ^ f.level + f.split) := by
    intro f g ⟨h1, h2, h3⟩ hg
    rw [h1, h2, h3]; exact hg
  refine ⟨?_, ?_⟩
  · show ((fi.put policy ns m).split < 2 ^ (fi.put policy ns m).level ∧ _)
    rw [put_eq]
    split
    · exact hshape _ _ (shape_write _ _ _) hs
    · have h2 : Shape ({ fi.insertNew ns with numKeys := (fi.insertNew ns).numKeys + 1 } : FIndex) fi :=
        insertNew_shape fi ns
      simp only
      split
      · exact hsplit _ (hshape _ _ h2 hs)
      · exact hshape _ _ h2 hs
  · show ((fi.delete hash m).split < 2 ^ (fi.delete hash m).level ∧ _)
    unfold FIndex.delete
    simp only
    split
    · refine hshape _ _ ?_ hs
      exact shape_write _ _ _
    · exact hs

end Pogreb
