/-
  C01 — map semantics for every operation sequence, key set and hash layout.

  `IState` couples the chain-level index model with what the log holds at the location each
  slot points at (`kv`). All theorems are for every hash function `hf`, every split policy,
  every key/value type, and unbounded operation sequences.

  Hypothesis carried by a `put`: the slot the datalog hands out is *fresh* (points at a new
  log location) and carries the hash of the key. In the full system that is append-only-ness
  of the log; the correspondence check validates it on the real index (distinct locations).
-/
import Pogreb.IndexThms
import Pogreb.Spec
namespace Pogreb

variable {K V : Type} [DecidableEq K]

structure IState (K V : Type) where
  idx : Index
  kv  : Slot → K × V

namespace IState

def kof (s : IState K V) : Slot → K := fun sl => (s.kv sl).1

/-- Abstraction to the specification map. -/
def abs (s : IState K V) : KV K V := fun k => (s.idx.abs s.kof k).map fun sl => (s.kv sl).2

def Inv (hf : K → Nat) (s : IState K V) : Prop := s.idx.Inv s.kof hf

def init (kv : Slot → K × V) : IState K V := ⟨Index.empty, kv⟩

/-- `DB.Get` / `DB.Has` / `DB.Count`. -/
def get (hf : K → Nat) (s : IState K V) (k : K) : Option V :=
  (s.idx.get (hf k) (fun sl => decide (s.kof sl = k))).map fun sl => (s.kv sl).2
def has (hf : K → Nat) (s : IState K V) (k : K) : Bool := (s.get hf k).isSome
def count (s : IState K V) : Nat := s.idx.numKeys
/-- A full `Items` scan: chain 0, 1, ..., each chain bucket by bucket. -/
def items (s : IState K V) : List (K × V) := s.idx.slots.map s.kv

/-- `DB.Put`: the log grows by a record for `(k, v)` at the location `ns` points at. -/
def put (policy : Nat → Nat → Bool) (s : IState K V) (k : K) (v : V) (ns : Slot) : IState K V :=
  let kv' := fun sl => if sl = ns then (k, v) else s.kv sl
  ⟨s.idx.put policy ns (fun sl => decide ((kv' sl).1 = k)), kv'⟩

/-- `DB.Delete`. -/
def del (hf : K → Nat) (s : IState K V) (k : K) : IState K V :=
  ⟨s.idx.delete (hf k) (fun sl => decide (s.kof sl = k)), s.kv⟩

end IState

/-- API operations; `put` carries the slot handed out by the datalog. -/
inductive IOp (K V : Type) where
  | put (k : K) (v : V) (ns : Slot)
  | del (k : K)
  | get (k : K)
  | has (k : K)
  | count
  | items

inductive IOut (K V : Type) where
  | unit
  | val (v : Option V)
  | bool (b : Bool)
  | nat (n : Nat)
  | list (l : List (K × V))

def IState.step (policy : Nat → Nat → Bool) (hf : K → Nat) (s : IState K V) : IOp K V → IState K V × IOut K V
  | .put k v ns => (s.put policy k v ns, .unit)
  | .del k => (s.del hf k, .unit)
  | .get k => (s, .val (s.get hf k))
  | .has k => (s, .bool (s.has hf k))
  | .count => (s, .nat s.count)
  | .items => (s, .list s.items)

/-- Every `put` in the sequence receives a fresh slot carrying the key's hash. -/
def IState.Valid (policy : Nat → Nat → Bool) (hf : K → Nat) : IState K V → List (IOp K V) → Prop
  | _, [] => True
  | s, op :: ops =>
    (match op with
      | .put k _ ns => ns ∉ s.idx.slots ∧ ns.hash = hf k
      | _ => True) ∧ IState.Valid policy hf (s.step policy hf op).1 ops

/-- A key/value list *represents* a map when it has no duplicate keys and lists exactly the map. -/
def Represents (l : List (K × V)) (m : KV K V) : Prop :=
  (l.map (·.1)).Nodup ∧ ∀ k v, (k, v) ∈ l ↔ m k = some v

/-- What the specification allows as the output of an operation on contents `m`. -/
def SpecOut (m : KV K V) : IOp K V → IOut K V → Prop
  | .put _ _ _, .unit => True
  | .del _, .unit => True
  | .get k, .val v => v = m k
  | .has k, .bool b => b = (m k).isSome
  | .count, .nat n => ∃ l : List (K × V), Represents l m ∧ n = l.length
  | .items, .list l => Represents l m
  | _, _ => False

def specStep (m : KV K V) : IOp K V → KV K V
  | .put k v _ => m.put k v
  | .del k => m.del k
  | _ => m

-- THEOREMS TO PROVE (statements fixed) ------------------------------------------------------

theorem C01_init_inv (hf : K → Nat) (kv : Slot → K × V) :
    (IState.init kv).Inv hf ∧ (IState.init kv).abs = KV.empty := by
  refine ⟨Index.inv_empty _ hf, ?_⟩
  funext k
  simp [IState.init, IState.abs, Index.abs, Index.empty, Index.slots, KV.empty]

theorem C01_get_correct (hf : K → Nat) (s : IState K V) (h : s.Inv hf) (k : K) :
    s.get hf k = s.abs k := by
  unfold IState.get IState.abs
  rw [Index.get_correct h k _ (fun _ _ => rfl)]

theorem C01_has_correct (hf : K → Nat) (s : IState K V) (h : s.Inv hf) (k : K) :
    s.has hf k = (s.abs k).isSome := by
  unfold IState.has
  rw [C01_get_correct hf s h k]

theorem C01_put_refines (policy : Nat → Nat → Bool) (hf : K → Nat) (s : IState K V) (h : s.Inv hf)
    (k : K) (v : V) (ns : Slot) (hfresh : ns ∉ s.idx.slots) (hh : ns.hash = hf k) :
    (s.put policy k v ns).Inv hf ∧ (s.put policy k v ns).abs = s.abs.put k v := by
  have hne : ∀ sl ∈ s.idx.slots, sl ≠ ns := fun sl hsl e => hfresh (e ▸ hsl)
  have hframe : ∀ sl ∈ s.idx.slots, (s.put policy k v ns).kof sl = s.kof sl := by
    intro sl hsl
    simp [IState.put, IState.kof, hne sl hsl]
  have hk : (s.put policy k v ns).kof ns = k := by simp [IState.put, IState.kof]
  have hm : ∀ sl ∈ s.idx.slots,
      (fun sl => decide (((fun sl => if sl = ns then (k, v) else s.kv sl) sl).1 = k)) sl
        = decide (s.kof sl = k) := by
    intro sl hsl
    show decide ((if sl = ns then (k, v) else s.kv sl).1 = k) = decide ((s.kv sl).1 = k)
    rw [if_neg (hne sl hsl)]
  obtain ⟨hinv, habs, _⟩ :=
    Index.put_correct policy h k ns (s.put policy k v ns).kof hframe hk hh _ hm
  refine ⟨hinv, ?_⟩
  funext k'
  have e : (s.put policy k v ns).abs k' =
      ((s.put policy k v ns).idx.abs (s.put policy k v ns).kof k').map
        fun sl => ((s.put policy k v ns).kv sl).2 := rfl
  rw [e]
  have habs' := habs k'
  have e2 : (s.put policy k v ns).idx =
      s.idx.put policy ns (fun sl => decide (((fun sl => if sl = ns then (k, v) else s.kv sl) sl).1 = k)) := rfl
  rw [e2, habs']
  by_cases hkk : k' = k
  · subst hkk
    simp [IState.put, KV.put]
  · simp only [hkk, if_false, KV.put, IState.abs]
    cases hab : s.idx.abs s.kof k' with
    | none => rfl
    | some sl =>
      have hsl := ((Index.abs_some_iff h k' sl).1 hab).1
      simp [IState.put, hne sl hsl]

theorem C01_del_refines (hf : K → Nat) (s : IState K V) (h : s.Inv hf) (k : K) :
    (s.del hf k).Inv hf ∧ (s.del hf k).abs = s.abs.del k := by
  obtain ⟨hinv, habs, _⟩ :=
    Index.delete_correct h k (fun sl => decide (s.kof sl = k)) (fun _ _ => rfl)
  refine ⟨hinv, ?_⟩
  funext k'
  have e : (s.del hf k).abs k' =
      ((s.idx.delete (hf k) (fun sl => decide (s.kof sl = k))).abs s.kof k').map
        fun sl => (s.kv sl).2 := rfl
  rw [e, habs k']
  by_cases hkk : k' = k
  · subst hkk; simp [KV.del]
  · simp [hkk, KV.del, IState.abs]

/-- A full scan yields each live key exactly once with its current value. -/
theorem C01_items_correct (hf : K → Nat) (s : IState K V) (h : s.Inv hf) :
    Represents s.items s.abs := by
  constructor
  · have e : (s.items.map (·.1)) = s.idx.slots.map s.kof := by
      simp [IState.items, IState.kof, List.map_map, Function.comp_def]
    rw [e]; exact h.nodup
  · intro k v
    simp only [IState.items, IState.abs, List.mem_map, Option.map_eq_some_iff]
    constructor
    · rintro ⟨sl, hsl, hkv⟩
      refine ⟨sl, (Index.abs_some_iff h k sl).2 ⟨hsl, ?_⟩, ?_⟩
      · simp [IState.kof, hkv]
      · simp [hkv]
    · rintro ⟨sl, hab, hv⟩
      obtain ⟨hsl, hk⟩ := (Index.abs_some_iff h k sl).1 hab
      refine ⟨sl, hsl, ?_⟩
      have hk' : (s.kv sl).1 = k := hk
      exact Prod.ext hk' hv

/-- Count is the number of live keys. -/
theorem C01_count_correct (hf : K → Nat) (s : IState K V) (h : s.Inv hf) :
    Represents s.items s.abs ∧ s.count = s.items.length := by
  refine ⟨C01_items_correct hf s h, ?_⟩
  simp [IState.count, IState.items, h.count]

/-- Final state of a run. -/
def IState.run (policy : Nat → Nat → Bool) (hf : K → Nat) (s : IState K V) (ops : List (IOp K V)) : IState K V :=
  ops.foldl (fun st op => (st.step policy hf op).1) s

/-- Every output of the run is one the specification allows, the specification being run alongside. -/
def IState.RunOK (policy : Nat → Nat → Bool) (hf : K → Nat) : IState K V → KV K V → List (IOp K V) → Prop
  | _, _, [] => True
  | s, m, op :: ops =>
    SpecOut m op (s.step policy hf op).2 ∧ IState.RunOK policy hf (s.step policy hf op).1 (specStep m op) ops

/-- **Refinement**: every finite sequence of API calls, from any state satisfying the invariant
(in particular from the empty database), produces only outputs the specification allows, and ends
in a state that satisfies the invariant and whose abstraction is the specification's final map.
For every hash function, every split policy, every key set, every length. -/
theorem C01_run_refines (policy : Nat → Nat → Bool) (hf : K → Nat) :
    ∀ (ops : List (IOp K V)) (s : IState K V), s.Inv hf → s.Valid policy hf ops →
      s.RunOK policy hf s.abs ops ∧ (s.run policy hf ops).Inv hf ∧
      (s.run policy hf ops).abs = ops.foldl specStep s.abs := by
  intro ops
  induction ops with
  | nil => intro s h _; exact ⟨trivial, h, rfl⟩
  | cons op ops ih =>
    intro s h hv
    obtain ⟨hop, hrest⟩ := hv
    -- one step: output allowed, invariant kept, abstraction follows the specification
    have hstep : SpecOut s.abs op (s.step policy hf op).2 ∧ (s.step policy hf op).1.Inv hf ∧
        (s.step policy hf op).1.abs = specStep s.abs op := by
      cases op with
      | put k v ns =>
        obtain ⟨hi, ha⟩ := C01_put_refines policy hf s h k v ns hop.1 hop.2
        exact ⟨trivial, hi, ha⟩
      | del k =>
        obtain ⟨hi, ha⟩ := C01_del_refines hf s h k
        exact ⟨trivial, hi, ha⟩
      | get k => exact ⟨C01_get_correct hf s h k, h, rfl⟩
      | has k => exact ⟨C01_has_correct hf s h k, h, rfl⟩
      | count =>
        obtain ⟨hr, hc⟩ := C01_count_correct hf s h
        exact ⟨⟨s.items, hr, hc⟩, h, rfl⟩
      | items => exact ⟨C01_items_correct hf s h, h, rfl⟩
    obtain ⟨hout, hinv', habs'⟩ := hstep
    obtain ⟨hok, hinvf, habsf⟩ := ih (s.step policy hf op).1 hinv' hrest
    refine ⟨⟨hout, ?_⟩, hinvf, ?_⟩
    · rw [← habs']; exact hok
    · show ((s.step policy hf op).1.run policy hf ops).abs = ops.foldl specStep (specStep s.abs op)
      rw [← habs']; exact habsf

/-- Non-vacuity: a concrete run from the empty database (identity hash, production split policy)
whose `put`s receive fresh slots satisfies `Valid`, and the start state satisfies `Inv`; so
`C01_run_refines` applies to it. -/
example :
    (IState.init (K := Nat) (V := Nat) (fun _ => (0, 0))).Inv id ∧
    (IState.init (K := Nat) (V := Nat) (fun _ => (0, 0))).Valid loadPolicy id
      [.put 1 10 ⟨1, 0, 0, 0, 1⟩, .put 2 20 ⟨2, 0, 0, 0, 2⟩, .get 1, .put 1 11 ⟨1, 0, 0, 0, 3⟩,
       .count, .del 2, .items] :=
  ⟨(C01_init_inv id _).1,
   ⟨by decide, rfl⟩, ⟨by decide, rfl⟩, trivial, ⟨by decide, rfl⟩, trivial, trivial, trivial, trivial⟩

/-- The same concrete run, evaluated: the outputs are the expected ones. -/
example :
    let s0 := IState.init (K := Nat) (V := Nat) (fun _ => (0, 0))
    let s2 := s0.run loadPolicy id [.put 1 10 ⟨1, 0, 0, 0, 1⟩, .put 2 20 ⟨2, 0, 0, 0, 2⟩]
    s2.get id 1 = some 10 ∧ s2.get id 2 = some 20 ∧ s2.get id 3 = none ∧ s2.count = 2 := by
  decide

end Pogreb
