/-
  M08 — power loss on the executable model (C06/C09 for the model the driver runs).
  `PState` adds to the interleaved model state the durable length of every segment file and two
  ghosts: the contents as of the last completed Sync (`synAbs`) and the writes acknowledged since.
  What the repaired code guarantees is stated as the invariant `OnlyCurPending` (every segment except
  the current one is completely durable: a full segment is synced before the log moves on, compaction
  syncs before it unlinks). The step function encodes exactly that discipline; the power-loss stream
  of the correspondence check validates it against the real Sync calls.
-/
import Pogreb.Props.M06
import Pogreb.Props.C06
import Pogreb.Lemmas.ModelPowerLoss
namespace Pogreb
open MState

structure PState where
  x      : XState
  syn    : Nat → Nat                       -- segment id ↦ durable data length
  synAbs : KV Bytes Bytes                  -- contents at the last completed Sync
  since  : List (Bytes × Option Bytes)     -- writes acknowledged since (key, some value | none = delete)

inductive POp where
  | x (op : XOp)      -- a step of the interleaved model (user op or compaction step)
  | sync              -- DB.Sync

def segLen (st : MState) (id : Nat) : Nat := ((st.seg? id).map (·.data.length)).getD 0

/-- One step. `syncMode` = BackgroundSyncInterval = -1 (Sync after every Put/Delete). After the step,
every segment that is not current is durable up to its length (rollover and compaction-removal sync
first); the current one keeps its durable length unless a Sync happened. -/
def PState.step (syncMode : Bool) (p : PState) : POp → PState
  | .sync =>
    { p with syn := fun id => segLen p.x.st id, synAbs := p.x.st.abs, since := [] }
  | .x op =>
    let x' := (p.x.step op).1
    let isWrite := match op with
      | .user (.put _ _) | .user (.del _) => true
      | _ => false
    let syn' := fun id =>
      if x'.st.cur = some id then (if p.x.st.cur = some id then min (p.syn id) (segLen x'.st id) else 0)
      else segLen x'.st id
    let since' := match op with
      | .user (.put k v) => if (p.x.step op).2 = .putRes .ok then p.since ++ [(k, some v)] else p.since
      | .user (.del k) => p.since ++ [(k, none)]
      | _ => p.since
    let isCend := match op with
      | .cend => true
      | _ => false
    -- `compact` syncs the current segment before it unlinks the source (fix F8)
    if (syncMode && isWrite) || isCend then
      { x := x', syn := fun id => segLen x'.st id, synAbs := x'.st.abs, since := [] }
    else { x := x', syn := syn', synAbs := p.synAbs, since := since' }

/-- An admissible power-loss image of the segment files: same files (directory operations are
durable), each cut at some length between its durable length and its length. -/
def PState.ImageOf (p : PState) (img : SegFS) : Prop :=
  ∃ cut : Nat → Nat, (∀ s ∈ p.x.st.segs, p.syn s.id ≤ cut s.id ∧ cut s.id ≤ s.data.length) ∧
    img = (MState.sortBySeq p.x.st.segs).map fun s => ⟨s.seq, s.data.take (cut s.id)⟩


/-! ### The invariant -/

/-- `v` is an admissible value of key `k` after a power failure: its value as of the last completed
Sync (`sa`), or the value of a write acknowledged since (`none`: a deletion). -/
def AdmV (sa : KV Bytes Bytes) (since : List (Bytes × Option Bytes)) (k : Bytes) (v : Option Bytes) : Prop :=
  v = sa k ∨ ∃ e ∈ since, e.1 = k ∧ v = e.2

/-- Replaying `log` gives every key an admissible value. -/
def AdmLog (sa : KV Bytes Bytes) (since : List (Bytes × Option Bytes)) (log : List E) : Prop :=
  ∀ k, AdmV sa since k (contents log k)

/-- The first `d` entries of the replay log `slog st.segs` are durable: the durable length of the
current segment is at a record boundary (after `k` of its records), and `d` counts all entries of the
other segments plus those `k`; without a current segment everything is durable. -/
def DurableAt (st : MState) (syn : Nat → Nat) (d : Nat) : Prop :=
  (∃ S ∈ st.segs, st.cur = some S.id ∧ ∃ k, k ≤ (scan S.data).1.length ∧
      syn S.id = (encodeAll ((scan S.data).1.take k)).length ∧
      d + ((scan S.data).1.length - k) = (slog st.segs).length) ∨
  (st.cur = none ∧ d = (slog st.segs).length)

/-- **The power-loss invariant.**
* `xinv`: the invariant of the interleaved model (`WF2`, `LogCoupled`, `CurOrd`, ...).
* `top`: the current segment exists, is the only writable one and is the newest (last in replay order).
* `le_len`, `onlyCur` (= `OnlyCurPending`): durable lengths are within the files, and every segment
  except the current one is completely durable.
* `ghost`: the durable part of the replay log is a prefix of `d` entries ending at a record boundary of
  the current segment (`DurableAt`), and EVERY cut of the replay log at or after that point gives every
  key its value as of the last completed Sync or a value written/deleted since. (The durable prefix
  itself may be longer than the log at the last Sync: a rollover makes the sealed segment durable without
  being a `Sync`; and compaction appends copies and unlinks segments; so the coupling is stated on the
  cuts, not as `synAbs = contents (durable prefix)`.) -/
structure PState.PInv (p : PState) : Prop where
  xinv    : p.x.XInv
  top     : p.x.st.CurTop
  le_len  : ∀ s ∈ p.x.st.segs, p.syn s.id ≤ s.data.length
  onlyCur : ∀ s ∈ p.x.st.segs, p.x.st.cur ≠ some s.id → p.syn s.id = s.data.length
  ghost   : ∃ d, DurableAt p.x.st p.syn d ∧ ∀ n, d ≤ n → n ≤ (slog p.x.st.segs).length →
              AdmLog p.synAbs p.since ((slog p.x.st.segs).take n)

/-- The initial state: a fresh database, nothing pending. -/
def PState.init (maxSeg : Nat) (seed : UInt32) : PState :=
  ⟨⟨MState.init maxSeg seed, none⟩, fun _ => 0, KV.empty, []⟩

/-- Admissibility of a step. For model steps exactly `XState.OpOK`; no durability condition: the sync
that compaction performs before it unlinks the source (`cend`, fix F8) is encoded in `PState.step`. -/
def PState.OpOK (p : PState) : POp → Prop
  | .sync => True
  | .x op => p.x.OpOK op

-- helper ------------------------------------------------------------------------------------

theorem AdmV.mono {sa : KV Bytes Bytes} {since since' : List (Bytes × Option Bytes)} {k : Bytes}
    {v : Option Bytes} (h : AdmV sa since k v) (hsub : ∀ e ∈ since, e ∈ since') : AdmV sa since' k v := by
  rcases h with h | ⟨e, he, h1, h2⟩
  · exact Or.inl h
  · exact Or.inr ⟨e, hsub e he, h1, h2⟩

theorem segLen_mem {st : MState} (hids : (st.segs.map (·.id)).Nodup) {s : MSeg} (hs : s ∈ st.segs) :
    segLen st s.id = s.data.length := by
  unfold segLen; rw [seg?_of_mem hids hs]; rfl

/-- The durable lengths after a model step (the `syn'` of `PState.step`). -/
def synOf (p : PState) (x' : XState) : Nat → Nat := fun id =>
  if x'.st.cur = some id then (if p.x.st.cur = some id then min (p.syn id) (segLen x'.st id) else 0)
  else segLen x'.st id

/-- The writes acknowledged since the last Sync after a model step (the `since'` of `PState.step`). -/
def sinceOf (p : PState) (op : XOp) : List (Bytes × Option Bytes) :=
  match op with
  | .user (.put k v) => if (p.x.step op).2 = .putRes .ok then p.since ++ [(k, some v)] else p.since
  | .user (.del k) => p.since ++ [(k, none)]
  | _ => p.since

def isWriteOp : XOp → Bool
  | .user (.put _ _) | .user (.del _) => true
  | _ => false

def isCendOp : XOp → Bool
  | .cend => true
  | _ => false

theorem PState.step_x_eq (syncMode : Bool) (p : PState) (op : XOp) :
    p.step syncMode (.x op) =
      if ((syncMode && isWriteOp op) || isCendOp op) = true then
        { x := (p.x.step op).1, syn := fun id => segLen (p.x.step op).1.st id,
          synAbs := (p.x.step op).1.st.abs, since := [] }
      else { x := (p.x.step op).1, syn := synOf p (p.x.step op).1, synAbs := p.synAbs,
             since := sinceOf p op } := by
  cases op with
  | user o => cases o <;> rfl
  | cbegin id => rfl
  | crecord => rfl
  | cend => rfl

theorem sinceOf_sub (p : PState) (op : XOp) : ∀ e ∈ p.since, e ∈ sinceOf p op := by
  intro e he
  cases op with
  | user o =>
    cases o with
    | put k v =>
      show e ∈ if (p.x.step (.user (.put k v))).2 = .putRes .ok then p.since ++ [(k, some v)] else p.since
      split
      · exact List.mem_append_left _ he
      · exact he
    | del k => exact List.mem_append_left _ he
    | get k => exact he
    | has k => exact he
    | count => exact he
    | reopen => exact he
    | recover seed => exact he
    | compact id => exact he
  | cbegin id => exact he
  | crecord => exact he
  | cend => exact he

/-- The new contents are admissible with the extended list of writes. -/
theorem adm_next (p : PState) (hwf : p.x.st.WF) (op : XOp)
    (hold : ∀ k, AdmV p.synAbs p.since k (p.x.st.abs k)) :
    ∀ k, AdmV p.synAbs (sinceOf p op) k (xSpecStep p.x.st.abs op k) := by
  cases op with
  | user o =>
    cases o with
    | put k v =>
      have hout : (p.x.step (.user (.put k v))).2 = .putRes (p.x.st.put k v).2 := rfl
      show ∀ k', AdmV p.synAbs
        (if (p.x.step (.user (.put k v))).2 = .putRes .ok then p.since ++ [(k, some v)] else p.since) k'
        ((if k.length ≤ maxKeyLength ∧ v.length ≤ maxValueLength then p.x.st.abs.put k v else p.x.st.abs) k')
      by_cases hb : k.length ≤ maxKeyLength ∧ v.length ≤ maxValueLength
      · have hok := (M01_put_refines p.x.st hwf k v hb.1 hb.2).1
        rw [hout, hok, if_pos rfl, if_pos hb]
        intro k'
        by_cases hk : k' = k
        · subst hk
          exact Or.inr ⟨(k', some v), by simp, rfl, by simp⟩
        · rw [KV.put_other _ _ hk]
          exact (hold k').mono (fun e he => List.mem_append_left _ he)
      · have hb' : maxKeyLength < k.length ∨ maxValueLength < v.length := by
          by_cases h1 : k.length ≤ maxKeyLength
          · right; have : ¬ v.length ≤ maxValueLength := fun h2 => hb ⟨h1, h2⟩; omega
          · left; omega
        have hne := (MState.put_rejects p.x.st k v hb').2
        rw [hout, if_neg (fun e => hne (MOut.putRes.inj e)), if_neg hb]
        exact hold
    | del k =>
      show ∀ k', AdmV p.synAbs (p.since ++ [(k, none)]) k' (p.x.st.abs.del k k')
      intro k'
      by_cases hk : k' = k
      · subst hk
        exact Or.inr ⟨(k', none), by simp, rfl, by simp⟩
      · rw [KV.del_other _ hk]
        exact (hold k').mono (fun e he => List.mem_append_left _ he)
    | get k => exact hold
    | has k => exact hold
    | count => exact hold
    | reopen => exact hold
    | recover seed => exact hold
    | compact id => exact hold
  | cbegin id => exact hold
  | crecord => exact hold
  | cend => exact hold

/-- Everything durable (after a Sync, or when the current segment is synced). -/
theorem PInv_of_durable (x : XState) (hx : x.XInv) (ht : x.st.CurTop) (syn : Nat → Nat)
    (hsyn : ∀ s ∈ x.st.segs, syn s.id = s.data.length) (sa : KV Bytes Bytes)
    (since : List (Bytes × Option Bytes)) (hadm : ∀ k, AdmV sa since k (x.st.abs k)) :
    PState.PInv ⟨x, syn, sa, since⟩ := by
  refine ⟨hx, ht, ?_, ?_, (slog x.st.segs).length, ?_, ?_⟩
  · intro s hs; exact Nat.le_of_eq (hsyn s hs)
  · intro s hs _; exact hsyn s hs
  · show DurableAt x.st syn _
    cases hc : x.st.cur with
    | none => exact Or.inr ⟨hc, rfl⟩
    | some c =>
      obtain ⟨S, hS, hSid⟩ := ht.cur_live c hc
      left
      refine ⟨S, hS, by rw [hc, hSid], (scan S.data).1.length, Nat.le_refl _, ?_, by omega⟩
      rw [List.take_length, cleanD_eq (hx.wf2.2.2 S hS)]; exact hsyn S hS
  · intro n h1 h2 k
    have h2' : n ≤ (slog x.st.segs).length := h2
    have hn : n = (slog x.st.segs).length := by omega
    show AdmV sa since k (contents ((slog x.st.segs).take n) k)
    rw [hn, List.take_length, (logCoupled_iff x.st).1 hx.logCoupled]
    exact hadm k

/-- A step that changes no segment data and keeps the current segment. -/
theorem PInv_same (p : PState) (h : p.PInv) (x' : XState) (hx' : x'.XInv) (hs : SameStep p.x.st x'.st)
    (since' : List (Bytes × Option Bytes)) (hsub : ∀ e ∈ p.since, e ∈ since') :
    PState.PInv ⟨x', synOf p x', p.synAbs, since'⟩ := by
  have ht' := h.top.same hs
  obtain ⟨g, hsegs, hid, hseq, hdata, hfull, hcur⟩ := hs
  have hids' := hx'.wf2.1.ids
  have hsyn : ∀ s ∈ p.x.st.segs, synOf p x' (g s).id = p.syn s.id := by
    intro s hs
    have hm : g s ∈ x'.st.segs := by rw [hsegs]; exact List.mem_map_of_mem hs
    have hl : segLen x'.st (g s).id = s.data.length := by rw [segLen_mem hids' hm, hdata]
    unfold synOf
    rw [hl, hcur, hid]
    by_cases hc : p.x.st.cur = some s.id
    · rw [if_pos hc, if_pos hc]; exact Nat.min_eq_left (h.le_len s hs)
    · rw [if_neg hc]; exact (h.onlyCur s hs hc).symm
  have hlog : slog x'.st.segs = slog p.x.st.segs := by
    rw [hsegs]; exact slog_map g hseq (fun s => by unfold segEnts; rw [hdata]) _
  obtain ⟨d, hdur, hall⟩ := h.ghost
  refine ⟨hx', ht', ?_, ?_, d, ?_, ?_⟩
  · show ∀ s ∈ x'.st.segs, synOf p x' s.id ≤ s.data.length
    intro s' hs'
    rw [hsegs] at hs'
    obtain ⟨s, hs, rfl⟩ := List.mem_map.1 hs'
    rw [hsyn s hs, hdata]; exact h.le_len s hs
  · show ∀ s ∈ x'.st.segs, x'.st.cur ≠ some s.id → synOf p x' s.id = s.data.length
    intro s' hs' hc
    rw [hsegs] at hs'
    obtain ⟨s, hs, rfl⟩ := List.mem_map.1 hs'
    rw [hsyn s hs, hdata]
    apply h.onlyCur s hs
    rw [← hcur, ← hid s]; exact hc
  · show DurableAt x'.st (synOf p x') d
    rcases hdur with ⟨S, hS, hSc, k, hk, hsynk, hd⟩ | ⟨hnone, hd⟩
    · left
      refine ⟨g S, by rw [hsegs]; exact List.mem_map_of_mem hS, by rw [hcur, hid]; exact hSc, k, ?_, ?_, ?_⟩
      · rw [hdata]; exact hk
      · rw [hsyn S hS, hdata]; exact hsynk
      · rw [hdata, hlog]; exact hd
    · right; exact ⟨by rw [hcur]; exact hnone, by rw [hlog]; exact hd⟩
  · intro n h1 h2 k
    show AdmV p.synAbs since' k (contents ((slog x'.st.segs).take n) k)
    have h2' : n ≤ (slog x'.st.segs).length := h2
    rw [hlog] at h2' ⊢
    exact (hall n h1 h2' k).mono hsub

/-- A step that appends one whole record (a Put, a Delete, or a copy made by compaction). -/
theorem PInv_write (p : PState) (h : p.PInv) (x' : XState) (hx' : x'.XInv) (hs : WriteStep p.x.st x'.st)
    (since' : List (Bytes × Option Bytes)) (hsub : ∀ e ∈ p.since, e ∈ since')
    (hadm : ∀ k, AdmV p.synAbs since' k (x'.st.abs k)) :
    PState.PInv ⟨x', synOf p x', p.synAbs, since'⟩ := by
  have hX := h.xinv
  have ht' := h.top.write hX.wf2 hX.curOrd hs
  obtain ⟨r, hf, hsegs, hcur⟩ := hs
  obtain ⟨hlog, hids1, _, W, hW, hWc, _, hcase⟩ := write_target hX.wf2 hX.curOrd h.top r hf
  have hids := hX.wf2.1.ids
  have hids' := hx'.wf2.1.ids
  have hcur' : x'.st.cur = some W.id := hcur.trans hWc
  have hW' : W ∈ x'.st.segs := by rw [hsegs]; exact hW
  have hother : ∀ s ∈ x'.st.segs, s.id ≠ W.id → synOf p x' s.id = s.data.length := by
    intro s hs hne
    unfold synOf
    rw [hcur', if_neg (fun e => hne (Option.some.inj e).symm), segLen_mem hids' hs]
  have hWsyn : synOf p x' W.id =
      if p.x.st.cur = some W.id then min (p.syn W.id) W.data.length else 0 := by
    unfold synOf
    rw [hcur', if_pos rfl, segLen_mem hids' hW']
  have hlog' : slog x'.st.segs = slog p.x.st.segs ++ [r.toEnt] := by rw [hsegs]; exact hlog
  obtain ⟨d, hdur, hall⟩ := h.ghost
  have hdle : d ≤ (slog p.x.st.segs).length := by
    rcases hdur with ⟨_, _, _, _, _, _, hd⟩ | ⟨_, hd⟩ <;> omega
  have hcont : contents (slog x'.st.segs) = x'.st.abs := (logCoupled_iff x'.st).1 hx'.logCoupled
  have key : ∀ n, d ≤ n → n ≤ (slog x'.st.segs).length →
      AdmLog p.synAbs since' ((slog x'.st.segs).take n) := by
    intro n h1 h2 k
    have hlen : (slog x'.st.segs).length = (slog p.x.st.segs).length + 1 := by
      rw [hlog', List.length_append, List.length_singleton]
    by_cases hn : n ≤ (slog p.x.st.segs).length
    · rw [hlog', List.take_append_of_le_length hn]
      exact (hall n h1 hn k).mono hsub
    · rw [List.take_of_length_le (by omega), hcont]
      exact hadm k
  refine ⟨hx', ht', ?_, ?_, ?_⟩
  · show ∀ s ∈ x'.st.segs, synOf p x' s.id ≤ s.data.length
    intro s hs
    by_cases hne : s.id = W.id
    · have : s = W := eq_of_id hids' hs hW' hne
      rw [this, hWsyn]
      split
      · exact Nat.min_le_right _ _
      · exact Nat.zero_le _
    · exact Nat.le_of_eq (hother s hs hne)
  · show ∀ s ∈ x'.st.segs, x'.st.cur ≠ some s.id → synOf p x' s.id = s.data.length
    intro s hs hc
    apply hother s hs
    intro e; apply hc; rw [hcur', e]
  · show ∃ d, DurableAt x'.st (synOf p x') d ∧ ∀ n, d ≤ n → n ≤ (slog x'.st.segs).length →
        AdmLog p.synAbs since' ((slog x'.st.segs).take n)
    rcases hcase with ⟨hc, S, hS, hSid, hWd⟩ | ⟨hc, hWd⟩
    · -- appended to the current segment: the durable point stays
      rcases hdur with ⟨S0, hS0, hS0c, k, hk, hsynk, hd⟩ | ⟨hnone, _⟩
      · have hSS : S0 = S := by
          apply eq_of_id hids hS0 hS
          rw [hSid]; rw [hc] at hS0c; exact (Option.some.inj hS0c).symm
        subst hSS
        have hrs : (scan W.data).1 = (scan S0.data).1 ++ [r] := by
          rw [hWd]; exact scan_append_rec (hX.wf2.2.2 S0 hS0) hf
        refine ⟨d, Or.inl ⟨W, hW', hcur', k, ?_, ?_, ?_⟩, key⟩
        · rw [hrs, List.length_append]; omega
        · rw [hWsyn, if_pos hc, hrs, List.take_append_of_le_length hk, ← hSid, ← hsynk]
          apply Nat.min_eq_left
          rw [hWd, List.length_append]
          have := h.le_len S0 hS0; omega
        · rw [hrs, hlog']
          simp only [List.length_append, List.length_singleton]
          omega
      · rw [hnone] at hc; cases hc
    · -- a fresh current segment: everything written before is durable (rollover syncs)
      have hrs : (scan W.data).1 = [r] := by
        rw [hWd]
        have := scan_append_rec (d := []) cleanD_nil hf
        rw [scan_nil] at this
        simpa using this
      refine ⟨(slog p.x.st.segs).length, Or.inl ⟨W, hW', hcur', 0, Nat.zero_le _, ?_, ?_⟩,
        fun n h1 => key n (by omega)⟩
      · rw [hWsyn, if_neg hc]; simp
      · rw [hrs, hlog']; simp

/-- The unlink step of a compaction when the current segment is durable, keeping the durable lengths
of the step (`synOf`). Not needed by `M08_step` any more (`PState.step` itself syncs at `cend`, which is
the case `PInv_of_durable`); kept as the lemma behind the former `M08_step_partial`. -/
theorem PInv_remove (p : PState) (h : p.PInv) (x' : XState) (hx' : x'.XInv)
    (hs : RemoveStep p.x.st x'.st)
    (hdur : ∀ s ∈ p.x.st.segs, p.x.st.cur = some s.id → p.syn s.id = s.data.length)
    (since' : List (Bytes × Option Bytes)) (hadm : ∀ k, AdmV p.synAbs since' k (x'.st.abs k)) :
    PState.PInv ⟨x', synOf p x', p.synAbs, since'⟩ := by
  have ht' := h.top.remove hs
  obtain ⟨id, hsegs, hcur⟩ := hs
  apply PInv_of_durable x' hx' ht' _ _ _ _ hadm
  intro s hs
  have hs0 : s ∈ p.x.st.segs := by
    rw [hsegs] at hs
    exact (List.mem_filter.1 (show s ∈ p.x.st.segs.filter (·.id != id) from hs)).1
  have hl := segLen_mem hx'.wf2.1.ids hs
  unfold synOf
  rw [hl]
  by_cases hc : x'.st.cur = some s.id
  · rw [if_pos hc]
    have hc0 : p.x.st.cur = some s.id := by
      rw [hcur] at hc
      have hc' : (if p.x.st.cur == some id then none else p.x.st.cur) = some s.id := hc
      by_cases e : p.x.st.cur = some id
      · simp [e] at hc'
      · simpa [e] using hc'
    rw [if_pos hc0, hdur s hs0 hc0]; exact Nat.min_self _
  · rw [if_neg hc]

/-! ### images are cuts of the replay log -/

def toPFile (syn : Nat → Nat) (s : MSeg) : PFile := ⟨s.seq, s.data, syn s.id⟩

theorem imageOf_map (syn cut : Nat → Nat) (l : List MSeg)
    (h : ∀ s ∈ l, syn s.id ≤ cut s.id ∧ cut s.id ≤ s.data.length) :
    ImageOf (l.map (toPFile syn)) (l.map fun s => (⟨s.seq, s.data.take (cut s.id)⟩ : SegFile)) := by
  induction l with
  | nil => trivial
  | cons s l ih =>
    exact ⟨⟨rfl, cut s.id, (h s List.mem_cons_self).1, (h s List.mem_cons_self).2, rfl⟩,
      ih (fun s' hs' => h s' (List.mem_cons_of_mem _ hs'))⟩

theorem recoverLog_toSeg (syn : Nat → Nat) (l : List MSeg) :
    recoverLog ((l.map (toPFile syn)).map PFile.toSeg) = l.flatMap segEnts := by
  unfold recoverLog
  induction l with
  | nil => rfl
  | cons x xs ih => simp only [List.map_cons, List.flatMap_cons, ih]; rfl

/-- Every admissible image recovers to a cut of the replay log at or after the durable point. -/
theorem image_is_prefix (p : PState) (h : p.PInv) (d : Nat) (hdur : DurableAt p.x.st p.syn d)
    (img : SegFS) (himg : p.ImageOf img) :
    ∃ n, d ≤ n ∧ n ≤ (slog p.x.st.segs).length ∧ recoverLog img = (slog p.x.st.segs).take n := by
  obtain ⟨cut, hcut, rfl⟩ := himg
  have hperm := sortBySeq_perm p.x.st.segs
  have hids := h.xinv.wf2.1.ids
  rcases hdur with ⟨S, hS, hSc, k, hk, hsynk, hd⟩ | ⟨hnone, hd⟩
  · obtain ⟨A, hA, hlt⟩ := sortBySeq_last h.xinv.curOrd.seqs hS (h.top.cur_newest S hS hSc)
    have hAmem : ∀ a ∈ A, a ∈ p.x.st.segs := fun a ha => hperm.mem_iff.1 (by rw [hA]; simp [ha])
    have hpre : OnlyCurrentPending (A.map (toPFile p.syn)) := by
      intro f hf
      obtain ⟨a, ha, rfl⟩ := List.mem_map.1 hf
      show p.syn a.id = a.data.length
      apply h.onlyCur a (hAmem a ha)
      intro e
      rw [hSc] at e
      have he := eq_of_id hids (hAmem a ha) hS (Option.some.inj e).symm
      have := hlt a ha
      rw [he] at this
      omega
    have himg' : ImageOf (A.map (toPFile p.syn) ++ [toPFile p.syn S])
        ((sortBySeq p.x.st.segs).map fun s => (⟨s.seq, s.data.take (cut s.id)⟩ : SegFile)) := by
      rw [hA]
      have := imageOf_map p.syn cut (A ++ [S])
        (fun s hs => hcut s (hperm.mem_iff.1 (by rw [hA]; exact hs)))
      rw [List.map_append] at this
      exact this
    obtain ⟨j, hj1, hj2, hj3⟩ := C06_image_is_synced_prefix _ (toPFile p.syn S) (scan S.data).1 k hpre
      (scan_fits _) (cleanD_eq (h.xinv.wf2.2.2 S hS)).symm hk hsynk _ himg'
    have hL : slog p.x.st.segs = A.flatMap segEnts ++ (scan S.data).1.map Rec.toEnt := by
      unfold slog
      rw [hA, List.flatMap_append]
      simp [segEnts]
    refine ⟨(A.flatMap segEnts).length + j, ?_, ?_, ?_⟩
    · rw [hL, List.length_append, List.length_map] at hd; omega
    · rw [hL, List.length_append, List.length_map]; omega
    · rw [hj3, recoverLog_toSeg, hL, List.take_length_add_append, List.map_take]
  · refine ⟨(slog p.x.st.segs).length, Nat.le_of_eq hd, Nat.le_refl _, ?_⟩
    rw [List.take_length]
    have hfiles : ((sortBySeq p.x.st.segs).map fun s => (⟨s.seq, s.data.take (cut s.id)⟩ : SegFile))
        = filesOf p.x.st.segs := by
      unfold filesOf
      apply List.map_congr_left
      intro s hs
      have hs' := hperm.mem_iff.1 hs
      have h1 := h.onlyCur s hs' (by rw [hnone]; exact fun e => by cases e)
      have h2 := hcut s hs'
      have hc : cut s.id = s.data.length := by omega
      rw [hc, List.take_length]
    rw [hfiles, recoverLog_filesOf]; rfl

-- THEOREMS ------------------------------------------------------------------------------------------

theorem M08_init (maxSeg : Nat) (seed : UInt32) :
    (PState.init maxSeg seed).PInv := by
  apply PInv_of_durable _ (M06_init maxSeg seed) (init_curTop maxSeg seed)
  · intro s hs
    have hsegs : (MState.init maxSeg seed).segs = [⟨0, 1, [], false⟩] := rfl
    have hs' : s ∈ (MState.init maxSeg seed).segs := hs
    rw [hsegs] at hs'
    rw [List.mem_singleton.1 hs']; rfl
  · intro k
    left
    exact M05_get_of_empty (MState.init maxSeg seed) rfl k

/-- **One step keeps the invariant**, for every step admissible in the interleaved model
(`PState.OpOK` is exactly `XState.OpOK`; no durability precondition: at `cend` the step itself syncs the
current segment before the unlink, as compaction.go does since fix F8). -/
theorem M08_step (syncMode : Bool) (p : PState) (h : p.PInv) (op : POp) (hop : p.OpOK op) :
    (p.step syncMode op).PInv := by
  obtain ⟨d, hdur, hall⟩ := h.ghost
  have hdle : d ≤ (slog p.x.st.segs).length := by
    rcases hdur with ⟨_, _, _, _, _, _, hd⟩ | ⟨_, hd⟩ <;> omega
  have hold : ∀ k, AdmV p.synAbs p.since k (p.x.st.abs k) := by
    intro k
    have := hall _ hdle (Nat.le_refl _) k
    rwa [List.take_length, (logCoupled_iff p.x.st).1 h.xinv.logCoupled] at this
  cases op with
  | sync =>
    exact PInv_of_durable p.x h.xinv h.top _ (fun s hs => segLen_mem h.xinv.wf2.1.ids hs) _ _
      (fun k => Or.inl rfl)
  | x o =>
    have hop1 : p.x.OpOK o := hop
    obtain ⟨_, hx', habs⟩ := M06_step p.x h.xinv o hop1
    have ht' := p.x.step_curTop h.xinv h.top o hop1
    rw [PState.step_x_eq]
    by_cases hm : ((syncMode && isWriteOp o) || isCendOp o) = true
    · -- a write in sync mode, or the unlink step of a compaction: everything is synced
      rw [if_pos hm]
      exact PInv_of_durable _ hx' ht' _ (fun s hs => segLen_mem hx'.wf2.1.ids hs) _ _ (fun k => Or.inl rfl)
    · rw [if_neg hm]
      have hadm : ∀ k, AdmV p.synAbs (sinceOf p o) k ((p.x.step o).1.st.abs k) := by
        rw [habs]; exact adm_next p h.xinv.wf2.1 o hold
      rcases p.x.step_kind h.xinv o hop1 with hs | hs | ⟨he, _⟩
      · exact PInv_same p h _ hx' hs _ (sinceOf_sub p o)
      · exact PInv_write p h _ hx' hs _ (sinceOf_sub p o) hadm
      · -- only `cend` unlinks, and `cend` syncs
        exfalso
        apply hm
        rw [he]
        show (_ || true) = true
        exact Bool.or_true _

/-- **Power loss at any instant**: for every admissible image, every key holds its value as of the
last completed Sync or a value written (or a deletion made) after it. -/
theorem M08_powerloss (p : PState) (h : p.PInv) (img : SegFS) (himg : p.ImageOf img) (k : Bytes) :
    recovered img k = p.synAbs k ∨ ∃ e ∈ p.since, e.1 = k ∧ recovered img k = e.2 := by
  obtain ⟨d, hdur, hall⟩ := h.ghost
  obtain ⟨n, h1, h2, h3⟩ := image_is_prefix p h d hdur img himg
  have := hall n h1 h2 k
  unfold recovered
  rw [h3]
  exact this

/-- In sync-after-every-write mode, or right after a Sync, nothing acknowledged can be lost. -/
theorem M08_synced_exact (p : PState) (h : p.PInv) (hs : p.since = []) (img : SegFS)
    (himg : p.ImageOf img) : recovered img = p.x.st.abs := by
  funext k
  obtain ⟨d, hdur, hall⟩ := h.ghost
  have hdle : d ≤ (slog p.x.st.segs).length := by
    rcases hdur with ⟨_, _, _, _, _, _, hd⟩ | ⟨_, hd⟩ <;> omega
  have habs := hall _ hdle (Nat.le_refl _) k
  rw [List.take_length, (logCoupled_iff p.x.st).1 h.xinv.logCoupled] at habs
  have hrec := M08_powerloss p h img himg k
  rw [hs] at habs hrec
  rcases hrec with e1 | ⟨e, he, _⟩
  · rcases habs with e2 | ⟨e, he, _⟩
    · rw [e1, e2]
    · cases he
  · cases he

/-- Admissible operation sequences (`PState.OpOK` threaded through the run). -/
def PState.OpsOK (syncMode : Bool) : PState → List POp → Prop
  | _, [] => True
  | p, op :: ops => p.OpOK op ∧ PState.OpsOK syncMode (p.step syncMode op) ops

def PState.runOps (syncMode : Bool) (p : PState) (ops : List POp) : PState :=
  ops.foldl (fun p op => p.step syncMode op) p

/-- **The invariant holds along every admissible run** (every op list whose model steps satisfy
`XState.OpOK`), so `M08_powerloss` applies at every instant. -/
theorem M08_run (syncMode : Bool) (ops : List POp) (p : PState) (h : p.PInv)
    (hops : p.OpsOK syncMode ops) : (p.runOps syncMode ops).PInv := by
  induction ops generalizing p with
  | nil => exact h
  | cons op rest ih => exact ih _ (M08_step syncMode p h op hops.1) hops.2

/-- From the empty database, for every segment size. -/
theorem M08_from_init (syncMode : Bool) (maxSeg : Nat) (seed : UInt32) (ops : List POp)
    (hops : (PState.init maxSeg seed).OpsOK syncMode ops) :
    ((PState.init maxSeg seed).runOps syncMode ops).PInv :=
  M08_run syncMode ops _ (M08_init maxSeg seed) hops

/-! ### Remark: why `cend` must sync (history of `M08_step_partial`)

Before the change of `PState.step`, `cend` (the unlink) kept the durable lengths like any other
compaction step, and `M08_step` was only provable with the extra precondition "the current segment is
durable before `cend`" (`M08_step_partial`, `M08_cend_after_sync`). Without it the invariant and
`M08_powerloss` failed (former eval `M08_cend_unsynced_loses`): Put [1] [1]; Sync; `cbegin 0`; `crecord`
copies the record into the fresh segment 1; `cend` unlinks segment 0 (directory operations are
durable). Segment 1 then held the only record of key [1] with durable length 0, so the image cutting
it to 0 recovered NO value for a key that was synced with nothing written since. compaction.go syncs
the current segment before `removeSegment` (fix F8); `PState.step` now encodes that, and the same run
keeps the key: -/

def M08_cend_run : PState :=
  PState.runOps false (PState.init (2 ^ 32) 0)
    [.x (.user (.put [1] [1])), .sync, .x (.cbegin 0), .x .crecord, .x .cend]

/-- The admissible image that keeps exactly the durable bytes of every file. -/
def PState.minImage (p : PState) : SegFS :=
  (MState.sortBySeq p.x.st.segs).map fun s => ⟨s.seq, s.data.take (p.syn s.id)⟩

theorem PState.minImage_imageOf (p : PState) (h : ∀ s ∈ p.x.st.segs, p.syn s.id ≤ s.data.length) :
    p.ImageOf p.minImage :=
  ⟨p.syn, fun s hs => ⟨Nat.le_refl _, h s hs⟩, rfl⟩

-- (id, seq, data length, full, durable length) of the segments; synAbs [1]; since; recovered image [1]
#eval (M08_cend_run.x.st.segs.map fun s =>
    (s.id, s.seq, s.data.length, s.full, M08_cend_run.syn s.id),
  M08_cend_run.synAbs [1], M08_cend_run.since,
  recovered M08_cend_run.minImage [1])
-- ([(1, 2, 12, false, 12)], some [1], [], some [1])     <- durable without an explicit Sync before `cend`

end Pogreb
