/-
  C11 — iteration is complete and truthful.

  `ItemIterator.Next` drains whole bucket chains `nextBucketIdx, nextBucketIdx+1, ...` inside one
  shared critical section each, re-reading `numBuckets`; writers (Put/Delete/split/compaction's
  repoint) run in between. A scan is therefore a list of steps `fetch | mutate idx' kv'`.
-/
import Pogreb.Props.C01
namespace Pogreb

variable {K V : Type} [DecidableEq K]

structure ScanSt (K V : Type) where
  st   : IState K V
  pos  : Nat                    -- nextBucketIdx
  seen : List (K × V)           -- pairs handed out (queued) so far

inductive ScanStep (K V : Type) where
  | fetch                                  -- one iteration of the loop in Next
  | mutate (st' : IState K V)              -- some writer section ran

def ScanSt.step (s : ScanSt K V) : ScanStep K V → ScanSt K V
  | .fetch =>
    if s.pos < s.st.idx.numBuckets then
      { s with pos := s.pos + 1, seen := s.seen ++ ((s.st.idx.chain s.pos).flatten.map s.st.kv) }
    else s
  | .mutate st' => { s with st := st' }

def ScanSt.run (s : ScanSt K V) (steps : List (ScanStep K V)) : ScanSt K V := steps.foldl ScanSt.step s

/-- The scan is over: `Next` returns `ErrIterationDone` (once the queue is drained). -/
def ScanSt.done (s : ScanSt K V) : Prop := s.st.idx.numBuckets ≤ s.pos

/-- A writer step leaves the pair `(k, v)` alone: if some slot of chain `i` denotes `(k, v)` before,
then some slot of chain `i`, or of the chain a split appended, denotes `(k, v)` afterwards, and the
number of buckets does not shrink. (Follows from `Index.MovesForward` for Put/Delete of other keys
and splits, and from `Index.repoint_some` for compaction.) -/
def KeepsPair (k : K) (v : V) (a b : IState K V) : Prop :=
  a.idx.numBuckets ≤ b.idx.numBuckets ∧
  ∀ i, i < a.idx.numBuckets → (∃ sl ∈ (a.idx.chain i).flatten, a.kv sl = (k, v)) →
    (∃ sl ∈ (b.idx.chain i).flatten, b.kv sl = (k, v)) ∨
    (a.idx.numBuckets < b.idx.numBuckets ∧ ∃ sl ∈ (b.idx.chain a.idx.numBuckets).flatten, b.kv sl = (k, v))

/-- All writer steps of the scan leave `(k, v)` alone. -/
def StableDuring (k : K) (v : V) : IState K V → List (ScanStep K V) → Prop
  | _, [] => True
  | st, .fetch :: rest => StableDuring k v st rest
  | st, .mutate st' :: rest => KeepsPair k v st st' ∧ StableDuring k v st' rest

/-- All states during the scan satisfy the invariant. -/
def InvDuring (hf : K → Nat) : IState K V → List (ScanStep K V) → Prop
  | st, [] => st.Inv hf
  | st, .fetch :: rest => st.Inv hf ∧ InvDuring hf st rest
  | st, .mutate st' :: rest => st.Inv hf ∧ InvDuring hf st' rest

-- helper lemmas --------------------------------------------------------------------------------

-- helper
theorem ScanSt.run_fetch (st : IState K V) : ∀ (m p : Nat) (seen : List (K × V)),
    p + m ≤ st.idx.numBuckets →
    (ScanSt.mk st p seen).run (List.replicate m .fetch) =
      ScanSt.mk st (p + m)
        (seen ++ ((((st.idx.chains.drop p).take m).map List.flatten).flatten.map st.kv)) := by
  intro m
  induction m with
  | zero => intro p seen _; simp [ScanSt.run]
  | succ m ih =>
    intro p seen hp
    have hlt : p < st.idx.chains.length := by
      have : st.idx.numBuckets = st.idx.chains.length := rfl
      omega
    have hstep : (ScanSt.mk st p seen).step .fetch =
        ScanSt.mk st (p + 1) (seen ++ ((st.idx.chain p).flatten.map st.kv)) := by
      have : p < st.idx.numBuckets := hlt
      simp [ScanSt.step, this]
    have hrun : (ScanSt.mk st p seen).run (List.replicate (m + 1) .fetch) =
        ((ScanSt.mk st p seen).step .fetch).run (List.replicate m .fetch) := by
      simp [ScanSt.run, List.replicate_succ]
    rw [hrun, hstep, ih (p + 1) _ (by omega)]
    rw [List.drop_eq_getElem_cons hlt, chain_eq_getElem st.idx hlt, List.take_succ_cons,
      List.map_cons, List.flatten_cons, List.map_append, List.append_assoc, Nat.add_assoc,
      Nat.add_comm 1 m]

-- helper
theorem ScanSt.run_done (s : ScanSt K V) (hd : s.done) (n : Nat) :
    s.run (List.replicate n .fetch) = s := by
  induction n with
  | zero => rfl
  | succ n ih =>
    have hstep : s.step .fetch = s := by
      have : ¬ s.pos < s.st.idx.numBuckets := Nat.not_lt.2 hd
      simp [ScanSt.step, this]
    have hrun : s.run (List.replicate (n + 1) .fetch) =
        (s.step .fetch).run (List.replicate n .fetch) := by
      simp [ScanSt.run, List.replicate_succ]
    rw [hrun, hstep, ih]

-- helper
theorem ScanSt.run_append (s : ScanSt K V) (a b : List (ScanStep K V)) :
    s.run (a ++ b) = (s.run a).run b := by
  simp [ScanSt.run, List.foldl_append]

-- helper
theorem ScanSt.run_cons (s : ScanSt K V) (a : ScanStep K V) (b : List (ScanStep K V)) :
    s.run (a :: b) = (s.step a).run b := rfl

-- helper
theorem keepsPair_of_moves {k : K} {v : V} {a b : IState K V} {keep : Slot → Prop}
    (hm : a.idx.MovesForward b.idx keep)
    (hk : ∀ sl ∈ a.idx.slots, a.kv sl = (k, v) → keep sl ∧ b.kv sl = (k, v)) :
    KeepsPair k v a b := by
  refine ⟨hm.1, ?_⟩
  rintro i hi ⟨sl, hsl, hkv⟩
  have hs : sl ∈ a.idx.slots := (mem_slots a.idx sl).2 ⟨i, hi, hsl⟩
  obtain ⟨hkeep, hb⟩ := hk sl hs hkv
  rcases hm.2 i hi sl hsl hkeep with h | ⟨hlt, h⟩
  · exact Or.inl ⟨sl, h, hb⟩
  · exact Or.inr ⟨hlt, sl, h, hb⟩

-- THEOREMS TO PROVE (statements fixed) ------------------------------------------------------

/-- Quiescent scan: `numBuckets` fetches return exactly `items` (each live key once, C01), and every
further fetch returns nothing more: the scan stays done. -/
theorem C11_quiescent (st : IState K V) (n : Nat) :
    let s := (ScanSt.mk st 0 []).run (List.replicate (st.idx.numBuckets + n) .fetch)
    s.seen = st.items ∧ s.done := by
  intro s
  have hs : s = ScanSt.mk st (0 + st.idx.numBuckets)
      ([] ++ ((((st.idx.chains.drop 0).take st.idx.numBuckets).map List.flatten).flatten.map st.kv)) := by
    show (ScanSt.mk st 0 []).run (List.replicate (st.idx.numBuckets + n) .fetch) = _
    rw [← List.replicate_append_replicate, ScanSt.run_append, ScanSt.run_fetch st _ 0 [] (by omega)]
    exact ScanSt.run_done _ (by simp [ScanSt.done]) n
  rw [hs]
  refine ⟨?_, by simp [ScanSt.done]⟩
  simp [IState.items, Index.slots, Index.numBuckets]

/-- Truthful: every pair handed out was, at the moment it was fetched, the current value of its key
(so it is a value that was actually put for that key before `Next` returned). Stated as: every pair
added by a fetch step is in the abstraction of the state at that step. -/
theorem C11_fetch_truthful (hf : K → Nat) (s : ScanSt K V) (h : s.st.Inv hf) (k : K) (v : V)
    (hmem : (k, v) ∈ (s.step .fetch).seen) : (k, v) ∈ s.seen ∨ s.st.abs k = some v := by
  by_cases hlt : s.pos < s.st.idx.numBuckets
  · simp only [ScanSt.step, hlt, if_true, List.mem_append, List.mem_map] at hmem
    rcases hmem with hmem | ⟨sl, hsl, hkv⟩
    · exact Or.inl hmem
    · right
      have hs : sl ∈ s.st.idx.slots := (mem_slots s.st.idx sl).2 ⟨s.pos, hlt, hsl⟩
      exact ((C01_items_correct hf s.st h).2 k v).1 (List.mem_map.2 ⟨sl, hs, hkv⟩)
  · simp only [ScanSt.step, hlt, if_false] at hmem
    exact Or.inl hmem

/-- Complete under concurrency: a pair present at the start (in some chain not yet passed) that all
writer steps leave alone is handed out by the time the scan is done. -/
theorem C11_stable_key_seen (k : K) (v : V) (steps : List (ScanStep K V)) (s : ScanSt K V)
    (hstart : (k, v) ∈ s.seen ∨
      ∃ i, s.pos ≤ i ∧ i < s.st.idx.numBuckets ∧ ∃ sl ∈ (s.st.idx.chain i).flatten, s.st.kv sl = (k, v))
    (hstable : StableDuring k v s.st steps) (hdone : (s.run steps).done) :
    (k, v) ∈ (s.run steps).seen := by
  induction steps generalizing s with
  | nil =>
    rcases hstart with h | ⟨i, h1, h2, _⟩
    · exact h
    · have : s.st.idx.numBuckets ≤ s.pos := hdone
      omega
  | cons a rest ih =>
    rw [ScanSt.run_cons] at hdone ⊢
    cases a with
    | fetch =>
      have hst : (s.step .fetch).st = s.st := by
        simp only [ScanSt.step]; split <;> rfl
      refine ih (s.step .fetch) ?_ (by rw [hst]; exact hstable) hdone
      by_cases hlt : s.pos < s.st.idx.numBuckets
      · simp only [ScanSt.step, hlt, if_true, List.mem_append, List.mem_map]
        rcases hstart with h | ⟨i, h1, h2, sl, hsl, hkv⟩
        · exact Or.inl (Or.inl h)
        · by_cases hi : i = s.pos
          · subst hi
            exact Or.inl (Or.inr ⟨sl, hsl, hkv⟩)
          · exact Or.inr ⟨i, by omega, h2, sl, hsl, hkv⟩
      · simp only [ScanSt.step, hlt, if_false]
        exact hstart
    | mutate st' =>
      obtain ⟨hkeep, hrest⟩ := hstable
      refine ih (s.step (.mutate st')) ?_ hrest hdone
      show (k, v) ∈ s.seen ∨ ∃ i, s.pos ≤ i ∧ i < st'.idx.numBuckets ∧
        ∃ sl ∈ (st'.idx.chain i).flatten, st'.kv sl = (k, v)
      rcases hstart with h | ⟨i, h1, h2, hex⟩
      · exact Or.inl h
      · right
        rcases hkeep.2 i h2 hex with hb | ⟨hlt, hb⟩
        · exact ⟨i, h1, Nat.lt_of_lt_of_le h2 hkeep.1, hb⟩
        · exact ⟨s.st.idx.numBuckets, by omega, hlt, hb⟩

/-- Put of another key, Delete of another key and index splits keep a pair in the sense of `KeepsPair`
(the bridge from the index theorems `put_moves` / `delete_moves` to the scan theorem). -/
theorem C11_put_keeps (policy : Nat → Nat → Bool) (hf : K → Nat) (s : IState K V) (h : s.Inv hf)
    (k k' : K) (v v' : V) (ns : Slot) (hne : k' ≠ k) (hfresh : ns ∉ s.idx.slots) (hh : ns.hash = hf k') :
    KeepsPair k v s (s.put policy k' v' ns) := by
  have hm := Index.put_moves policy h ns
    (fun sl => decide (((fun sl => if sl = ns then (k', v') else s.kv sl) sl).1 = k'))
  refine keepsPair_of_moves (b := s.put policy k' v' ns) hm ?_
  intro sl hsl hkv
  have hne' : sl ≠ ns := fun e => hfresh (e ▸ hsl)
  have hb : (s.put policy k' v' ns).kv sl = (k, v) := by
    show (if sl = ns then (k', v') else s.kv sl) = (k, v)
    rw [if_neg hne', hkv]
  refine ⟨?_, hb⟩
  rintro ⟨_, hdec⟩
  have : (if sl = ns then (k', v') else s.kv sl).1 = k' := of_decide_eq_true hdec
  rw [if_neg hne', hkv] at this
  exact hne this.symm

theorem C11_del_keeps (hf : K → Nat) (s : IState K V) (h : s.Inv hf) (k k' : K) (v : V) (hne : k' ≠ k) :
    KeepsPair k v s (s.del hf k') := by
  have hm := Index.delete_moves h (hf k') (fun sl => decide (s.kof sl = k'))
  refine keepsPair_of_moves (b := s.del hf k') hm ?_
  intro sl _ hkv
  refine ⟨?_, hkv⟩
  rintro ⟨_, hdec⟩
  have : (s.kv sl).1 = k' := of_decide_eq_true hdec
  rw [hkv] at this
  exact hne this.symm

/-- Non-vacuity of `C11_stable_key_seen`: a concrete scan over the state reached from the empty
database by two puts, with a writer (`put 3 30`, fresh slot) running before the fetch. The hypotheses
hold (`KeepsPair` via `C11_put_keeps`, the invariant via `C01_run_refines`), so `(1, 10)` is handed out. -/
example :
    let s0 := IState.init (K := Nat) (V := Nat) (fun _ => (0, 0))
    let ops : List (IOp Nat Nat) := [.put 1 10 ⟨1, 0, 0, 0, 1⟩, .put 2 20 ⟨2, 0, 0, 0, 2⟩]
    let s2 := s0.run loadPolicy id ops
    let s3 := s2.put loadPolicy 3 30 ⟨3, 0, 0, 0, 3⟩
    let sc : ScanSt Nat Nat := ⟨s2, 0, []⟩
    let steps : List (ScanStep Nat Nat) := [.mutate s3, .fetch]
    ((1, 10) ∈ sc.seen ∨ ∃ i, sc.pos ≤ i ∧ i < sc.st.idx.numBuckets ∧
        ∃ sl ∈ (sc.st.idx.chain i).flatten, sc.st.kv sl = (1, 10)) ∧
      StableDuring 1 10 sc.st steps ∧ (sc.run steps).done ∧ (1, 10) ∈ (sc.run steps).seen := by
  intro s0 ops s2 s3 sc steps
  have hinv : s2.Inv id :=
    (C01_run_refines loadPolicy id ops s0 (C01_init_inv id _).1
      ⟨⟨by decide, rfl⟩, ⟨by decide, rfl⟩, trivial⟩).2.1
  have hstart : (1, 10) ∈ sc.seen ∨ ∃ i, sc.pos ≤ i ∧ i < sc.st.idx.numBuckets ∧
      ∃ sl ∈ (sc.st.idx.chain i).flatten, sc.st.kv sl = (1, 10) :=
    Or.inr ⟨0, by decide, by decide, ⟨1, 0, 0, 0, 1⟩, by decide, by decide⟩
  have hstable : StableDuring 1 10 sc.st steps :=
    ⟨C11_put_keeps loadPolicy id s2 hinv 1 3 10 30 ⟨3, 0, 0, 0, 3⟩ (by decide) (by decide) rfl, trivial⟩
  have hdone : (sc.run steps).done := by
    show (sc.run steps).st.idx.numBuckets ≤ (sc.run steps).pos
    decide
  exact ⟨hstart, hstable, hdone, C11_stable_key_seen 1 10 steps sc hstart hstable hdone⟩

end Pogreb
