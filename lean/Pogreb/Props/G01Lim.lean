/-
  G01 (size limits): the two size guards of `DB.Put` (generated definitions: `Generated/Funcs.lean`,
  regenerated from /repo by factgen on every run; Go fixed-width arithmetic as `BitVec` arithmetic).
-/
import Pogreb.Generated.Funcs
import Pogreb.Record
import Pogreb.Lemmas.BitVecNat
namespace Pogreb
open Generated
set_option linter.unusedSimpArgs false

theorem G01_lim_translated :
    (Funcs.keyTooLargeGuard_translated && Funcs.valueTooLargeGuard_translated) = true := by decide

/-- `Put` refuses keys longer than `MaxKeyLength` = 65535 bytes (`len` is a non-negative `int`). -/
theorem G01_keyTooLargeGuard (n : BitVec 64) (h : n.toNat < 2 ^ 63) :
    Funcs.keyTooLargeGuard (len_p0 := n) = decide (65535 < n.toNat) := by
  unfold Funcs.keyTooLargeGuard
  simp only [BitVec.slt, BitVec.sle, BitVec.toInt_eq_toNat_cond, decide_eq_true_eq, decide_eq_decide]
  bv_omega

/-- `Put` refuses values longer than `MaxValueLength` = 512 MiB. -/
theorem G01_valueTooLargeGuard (n : BitVec 64) (h : n.toNat < 2 ^ 63) :
    Funcs.valueTooLargeGuard (len_p1 := n) = decide (2 ^ 29 < n.toNat) := by
  unfold Funcs.valueTooLargeGuard
  simp only [BitVec.slt, BitVec.sle, BitVec.toInt_eq_toNat_cond, decide_eq_true_eq, decide_eq_decide]
  bv_omega

/-- The limits the guards enforce are exactly the record-size hypothesis of the codec theorems
(`Rec.Fits`): a record `Put` accepts fits the format. -/
theorem G01_put_guards_fit (k v : Bytes)
    (hk : Funcs.keyTooLargeGuard (len_p0 := BitVec.ofNat 64 k.length) = false)
    (hv : Funcs.valueTooLargeGuard (len_p1 := BitVec.ofNat 64 v.length) = false)
    (hkl : k.length < 2 ^ 63) (hvl : v.length < 2 ^ 63) (d : Bool) :
    (k.length ≤ 65535 ∧ v.length ≤ 2 ^ 29) ∧ (Rec.mk d k v).Fits := by
  have e1 : (BitVec.ofNat 64 k.length).toNat = k.length := by
    rw [BitVec.toNat_ofNat]; exact Nat.mod_eq_of_lt (by omega)
  have e2 : (BitVec.ofNat 64 v.length).toNat = v.length := by
    rw [BitVec.toNat_ofNat]; exact Nat.mod_eq_of_lt (by omega)
  rw [G01_keyTooLargeGuard _ (by omega), e1] at hk
  rw [G01_valueTooLargeGuard _ (by omega), e2] at hv
  simp only [decide_eq_false_iff_not] at hk hv
  unfold Rec.Fits
  refine ⟨⟨by omega, by omega⟩, ?_, ?_⟩
  · show k.length < 2 ^ 16; omega
  · show v.length < 2 ^ 31; omega

end Pogreb
