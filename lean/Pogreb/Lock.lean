/-
  The lock file protocol of fs/os_unix.go + fs/os.go at system-call granularity, for any number of
  processes. One step = one system call of one process (or a crash of one process).

  acquire:  stat(path); open(path, O_RDWR|O_CREATE); flock(fd, LOCK_EX|LOCK_NB);
            fstat(fd) vs stat(path): same file -> holder, else close(fd) and start over
  release:  unlink(path); close(fd)
  crash:    the OS closes the descriptors of the process (flock released), the path stays

  `verify := false` gives the protocol of the pinned tree (no re-check after flock).
-/
namespace Pogreb.Lock

inductive PC where
  | idle
  | statDone (existed : Bool)
  | opened (existed : Bool) (ino : Nat)
  | locked (existed : Bool) (ino : Nat)       -- flock succeeded, re-check pending
  | holding (existed : Bool) (ino : Nat)      -- CreateLockFile returned (lock, existed, nil)
  | failed                                    -- CreateLockFile returned os.ErrExist
  | unlinked (ino : Nat)                      -- Unlock: after os.Remove, before Close
  deriving DecidableEq, Repr

structure Sys where
  path    : Option Nat          -- inode the lock path names
  flock   : Nat → Option Nat    -- inode ↦ process holding its flock
  nextIno : Nat                 -- fresh inode numbers
  pc      : Nat → PC

def Sys.init : Sys := ⟨none, fun _ => none, 0, fun _ => .idle⟩

def setPC (s : Sys) (p : Nat) (c : PC) : Sys := { s with pc := fun q => if q = p then c else s.pc q }
def setFlock (s : Sys) (i : Nat) (o : Option Nat) : Sys := { s with flock := fun j => if j = i then o else s.flock j }

/-- One system call of process `p` (the call is determined by `p`'s program counter), or nothing
if `p` is not in a state where it makes calls on its own (`idle`, `holding`, `failed` need a
`start` / `release` / `retry` decision of the caller, see `Action`). -/
inductive Action where
  | start (p : Nat)      -- p calls CreateLockFile (idle or failed -> first call: stat)
  | sys (p : Nat)        -- p's next system call inside CreateLockFile / Unlock
  | release (p : Nat)    -- the holder p calls Unlock (first call: unlink)
  | crash (p : Nat)      -- p dies
  deriving Repr

def step (verify : Bool) (s : Sys) : Action → Sys
  | .start p => match s.pc p with
    | .idle | .failed => setPC s p (.statDone s.path.isSome)
    | _ => s
  | .sys p => match s.pc p with
    | .statDone e => match s.path with
      | some i => setPC s p (.opened e i)
      | none => setPC { s with path := some s.nextIno, nextIno := s.nextIno + 1 } p (.opened e s.nextIno)
    | .opened e i => match s.flock i with
      | none => setPC (setFlock s i (some p)) p (if verify then .locked e i else .holding e i)
      | some _ => setPC s p .failed          -- EWOULDBLOCK; the descriptor is closed
    | .locked e i =>
      if s.path = some i then setPC s p (.holding e i)
      else setPC (setFlock s i none) p (.statDone s.path.isSome)   -- close, start over: stat
    | .unlinked i => setPC (setFlock s i none) p .idle
    | _ => s
  | .release p => match s.pc p with
    | .holding _ i => setPC { s with path := none } p (.unlinked i)
    | _ => s
  | .crash p => match s.pc p with
    | .opened _ _ | .statDone _ | .idle | .failed => setPC s p .idle
    | .locked _ i | .holding _ i | .unlinked i => setPC (setFlock s i none) p .idle

def run (verify : Bool) (s : Sys) (as : List Action) : Sys := as.foldl (step verify) s

def isHolding (s : Sys) (p : Nat) : Bool := match s.pc p with
  | .holding _ _ => true
  | _ => false

end Pogreb.Lock
