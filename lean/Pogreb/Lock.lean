/-
  The lock file protocol of fs/os_unix.go + fs/os.go at system-call granularity, for any number of
  processes. One step = one system call of one process (or a crash of one process).

  acquire:  open(path, O_RDWR|O_CREATE|O_EXCL) [EEXIST: open(path, O_RDWR); ENOENT: start over];
            flock(fd, LOCK_EX|LOCK_NB); fstat(fd) vs stat(path): same file -> holder (write + sync the
            owner's mark if the file is empty; a marked file counts as "existed"), else close(fd) and start over
  release:  unlink(path); close(fd)
  crash:    the OS closes the descriptors of the process (flock released), the path stays

  `verify := false` gives the protocol of the pinned tree (no re-check after flock).
-/
namespace Pogreb.Lock

inductive PC where
  | idle
  | exclFailed                                -- open(O_CREATE|O_EXCL) said EEXIST; next: open without O_CREATE
  | again                                     -- start over (the file vanished / the locked file is not at the path)
  | opened (existed : Bool) (ino : Nat)       -- existed = "did not create the file itself"
  | locked (existed : Bool) (ino : Nat)       -- flock succeeded, re-check pending
  | holding (existed : Bool) (ino : Nat)      -- CreateLockFile returned (lock, existed, nil)
  | failed                                    -- CreateLockFile returned os.ErrExist
  | unlinked (ino : Nat)                      -- Unlock: after os.Remove, before Close
  deriving DecidableEq, Repr

structure Sys where
  path    : Option Nat          -- inode the lock path names
  flock   : Nat → Option Nat    -- inode ↦ process holding its flock
  nextIno : Nat                 -- fresh inode numbers
  pc      : Nat → PC
  marked  : Nat → Bool := fun _ => false   -- inode ↦ an owner has written (and synced) its mark
  dirty   : Bool := false       -- ghost: the last session on this directory did not complete Close

def Sys.init : Sys := ⟨none, fun _ => none, 0, fun _ => .idle, fun _ => false, false⟩

def setPC (s : Sys) (p : Nat) (c : PC) : Sys := { s with pc := fun q => if q = p then c else s.pc q }
def setFlock (s : Sys) (i : Nat) (o : Option Nat) : Sys := { s with flock := fun j => if j = i then o else s.flock j }
def setMark (s : Sys) (i : Nat) : Sys := { s with marked := fun j => if j = i then true else s.marked j }

/-- One system call of process `p` (the call is determined by `p`'s program counter), or nothing
if `p` is not in a state where it makes calls on its own (`idle`, `holding`, `failed` need a
`start` / `release` / `retry` decision of the caller, see `Action`). -/
inductive Action where
  | start (p : Nat)      -- p calls CreateLockFile (idle or failed -> first call: open O_CREATE|O_EXCL)
  | sys (p : Nat)        -- p's next system call inside CreateLockFile / Unlock
  | release (p : Nat)    -- the holder p calls Unlock (first call: unlink)
  | crash (p : Nat)      -- p dies
  deriving Repr

/-- `open(path, O_RDWR|O_CREATE|O_EXCL)`. -/
def openExcl (s : Sys) (p : Nat) : Sys :=
  match s.path with
  | some _ => setPC s p .exclFailed
  | none => setPC { s with path := some s.nextIno, nextIno := s.nextIno + 1 } p (.opened false s.nextIno)

def step (verify : Bool) (s : Sys) : Action → Sys
  | .start p => match s.pc p with
    | .idle | .failed => openExcl s p
    | _ => s
  | .sys p => match s.pc p with
    | .again => openExcl s p
    | .exclFailed => match s.path with
      | some i => setPC s p (.opened true i)
      | none => setPC s p .again                     -- ENOENT: the owner removed it meanwhile
    | .opened e i => match s.flock i with
      | none => setPC (setFlock s i (some p)) p (if verify then .locked e i else .holding e i)
      | some _ => setPC s p .failed          -- EWOULDBLOCK; the descriptor is closed
    | .locked e i =>
      if s.path = some i then
        -- the owner's mark: a marked file was owned by somebody else since it was created
        let s' := setPC (setMark s i) p (.holding (e || s.marked i) i)
        { s' with dirty := true }              -- a session begins (it is unclean until Close completes)
      else setPC (setFlock s i none) p .again  -- close, start over
    | .unlinked i => setPC (setFlock s i none) p .idle
    | _ => s
  | .release p => match s.pc p with
    | .holding _ i => setPC { s with path := none, dirty := false } p (.unlinked i)
    | _ => s
  | .crash p => match s.pc p with
    | .opened _ _ | .exclFailed | .again | .idle | .failed => setPC s p .idle
    | .locked _ i | .holding _ i | .unlinked i => setPC (setFlock s i none) p .idle

def run (verify : Bool) (s : Sys) (as : List Action) : Sys := as.foldl (step verify) s

def isHolding (s : Sys) (p : Nat) : Bool := match s.pc p with
  | .holding _ _ => true
  | _ => false

end Pogreb.Lock
