/-
  CRC-32/IEEE (reflected, polynomial 0xEDB88320, init and xorout 0xFFFFFFFF): the
  checksum `hash/crc32.ChecksumIEEE` computes. Bitwise definition; kernel-only proofs.
-/
import Pogreb.Bytes
namespace Pogreb

def POLY : BitVec 32 := 0xEDB88320#32

/-- One bit step of the reflected CRC register. -/
def crcStep (c : BitVec 32) : BitVec 32 :=
  if c.getLsbD 0 then (c >>> 1) ^^^ POLY else c >>> 1

def crcStep8 (c : BitVec 32) : BitVec 32 :=
  crcStep (crcStep (crcStep (crcStep (crcStep (crcStep (crcStep (crcStep c)))))))

/-- Feed one byte into the register. -/
def crcUpd (c : BitVec 32) (b : UInt8) : BitVec 32 :=
  crcStep8 (c ^^^ (BitVec.ofNat 32 b.toNat))

def crcRaw (c : BitVec 32) (bs : Bytes) : BitVec 32 := bs.foldl crcUpd c

/-- CRC-32/IEEE of a byte string, as a natural number `< 2^32`. -/
def crc32 (bs : Bytes) : Nat := ((crcRaw 0xFFFFFFFF#32 bs) ^^^ 0xFFFFFFFF#32).toNat

theorem crc32_lt (bs : Bytes) : crc32 bs < 2 ^ 32 := by
  unfold crc32; exact BitVec.isLt _

/-- Bit 31 of the stepped register tells which branch was taken (POLY has bit 31 set,
the shifted register does not). -/
theorem crcStep_msb (c : BitVec 32) : (crcStep c).getLsbD 31 = c.getLsbD 0 := by
  unfold crcStep
  split <;> simp_all [POLY, BitVec.getLsbD_xor, BitVec.getLsbD_ushiftRight]

theorem crcStep_inj {a b : BitVec 32} (h : crcStep a = crcStep b) : a = b := by
  have h0 : a.getLsbD 0 = b.getLsbD 0 := by
    rw [← crcStep_msb a, ← crcStep_msb b, h]
  have hs : a >>> 1 = b >>> 1 := by
    unfold crcStep at h
    by_cases ha : a.getLsbD 0
    · have hb : b.getLsbD 0 = true := by rw [← h0]; exact ha
      rw [if_pos ha, if_pos hb] at h
      have := congrArg (· ^^^ POLY) h
      simpa [BitVec.xor_assoc] using this
    · have hb : ¬ b.getLsbD 0 = true := by rw [← h0]; exact ha
      rw [if_neg ha, if_neg hb] at h
      exact h
  apply BitVec.eq_of_getLsbD_eq
  intro i hi
  cases i with
  | zero => exact h0
  | succ i =>
    have := congrArg (fun v => BitVec.getLsbD v i) hs
    simpa [BitVec.getLsbD_ushiftRight, Nat.add_comm] using this

theorem crcStep8_inj {a b : BitVec 32} (h : crcStep8 a = crcStep8 b) : a = b := by
  unfold crcStep8 at h
  exact crcStep_inj (crcStep_inj (crcStep_inj (crcStep_inj (crcStep_inj (crcStep_inj
    (crcStep_inj (crcStep_inj h)))))))

/-- For a fixed input byte the register update is injective in the register. -/
theorem crcUpd_inj_state {a b : BitVec 32} {x : UInt8} (h : crcUpd a x = crcUpd b x) : a = b := by
  unfold crcUpd at h
  have := crcStep8_inj h
  have := congrArg (· ^^^ BitVec.ofNat 32 x.toNat) this
  simpa [BitVec.xor_assoc] using this

/-- For a fixed register the update is injective in the input byte. -/
theorem crcUpd_inj_byte {c : BitVec 32} {x y : UInt8} (h : crcUpd c x = crcUpd c y) : x = y := by
  unfold crcUpd at h
  have h1 := crcStep8_inj h
  have h2 : BitVec.ofNat 32 x.toNat = BitVec.ofNat 32 y.toNat := by
    have := congrArg (c ^^^ ·) h1
    simpa [← BitVec.xor_assoc] using this
  have h3 := congrArg BitVec.toNat h2
  simp only [BitVec.toNat_ofNat] at h3
  have hx := UInt8.toNat_lt x
  have hy := UInt8.toNat_lt y
  rw [Nat.mod_eq_of_lt (by omega), Nat.mod_eq_of_lt (by omega)] at h3
  exact UInt8.toNat_inj.mp h3

theorem crcRaw_inj_state {a b : BitVec 32} {bs : Bytes} (h : crcRaw a bs = crcRaw b bs) : a = b := by
  induction bs generalizing a b with
  | nil => exact h
  | cons x xs ih =>
    simp only [crcRaw, List.foldl_cons] at h
    exact crcUpd_inj_state (ih h)

theorem crcRaw_append (c : BitVec 32) (xs ys : Bytes) :
    crcRaw c (xs ++ ys) = crcRaw (crcRaw c xs) ys := by
  simp [crcRaw, List.foldl_append]

/-- **Any change confined to one byte changes the CRC** (in particular any single bit flip). -/
theorem crc32_one_byte (p s : Bytes) (x y : UInt8) (hxy : x ≠ y) :
    crc32 (p ++ x :: s) ≠ crc32 (p ++ y :: s) := by
  intro h
  unfold crc32 at h
  have h1 := BitVec.eq_of_toNat_eq h
  have h2 : crcRaw 0xFFFFFFFF#32 (p ++ x :: s) = crcRaw 0xFFFFFFFF#32 (p ++ y :: s) := by
    have := congrArg (· ^^^ 0xFFFFFFFF#32) h1
    simpa [BitVec.xor_assoc] using this
  rw [crcRaw_append, crcRaw_append] at h2
  simp only [crcRaw, List.foldl_cons] at h2
  exact hxy (crcUpd_inj_byte (crcRaw_inj_state h2))

end Pogreb
