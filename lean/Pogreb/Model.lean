/-
  Executable model of the database: datalog (segments as byte strings), the chain-level
  index, Put/Delete/Get, compaction step by step, clean reopen and recovery.
  Mirrors the control flow of db.go / datalog.go / compaction.go / recovery.go.
  Core Lean only, so that the driver can be compiled.
-/
import Pogreb.Record
import Pogreb.Index
import Pogreb.Murmur
namespace Pogreb

def headerSize : Nat := 512
def maxKeyLength : Nat := 65535
def maxValueLength : Nat := 536870912

structure MSeg where
  id   : Nat
  seq  : Nat
  data : Bytes        -- file content after the 512-byte header
  full : Bool
  deriving Repr, Inhabited

def MSeg.size (s : MSeg) : Nat := headerSize + s.data.length

structure MCfg where
  maxSeg : Nat
  deriving Repr, Inhabited

structure MState where
  cfg    : MCfg
  seed   : UInt32
  segs   : List MSeg       -- sorted by id
  cur    : Option Nat      -- id of the current segment; none: it was removed by compaction
  maxSeq : Nat
  idx    : Index
  deriving Repr

instance : Inhabited MState := ⟨⟨⟨0⟩, 0, [], none, 0, Index.empty⟩⟩

namespace MState

def seg? (st : MState) (id : Nat) : Option MSeg := st.segs.find? (·.id == id)

def setSeg (st : MState) (s : MSeg) : MState :=
  { st with segs := st.segs.map (fun x => if x.id == s.id then s else x) }

def insertSeg (segs : List MSeg) (s : MSeg) : List MSeg :=
  match segs with
  | [] => [s]
  | x :: xs => if s.id < x.id then s :: x :: xs else x :: insertSeg xs s

/-- Lowest id not in use (`nextWritableSegmentID`). -/
def freeId (segs : List MSeg) (fuel : Nat) (cand : Nat) : Nat :=
  match fuel with
  | 0 => cand
  | f + 1 => if segs.any (·.id == cand) then freeId segs f (cand + 1) else cand

/-- `swapSegment`: first non-full segment by id, else a new one. -/
def swapSegment (st : MState) : MState :=
  match st.segs.find? (fun s => !s.full) with
  | some s => { st with cur := some s.id }
  | none =>
    let id := freeId st.segs (st.segs.length + 1) 0
    let seq := st.maxSeq + 1
    { st with segs := insertSeg st.segs ⟨id, seq, [], false⟩, cur := some id, maxSeq := seq }

/-- `writeRecord`: roll over when the current segment is full or the record does not fit. -/
def writeRecord (st : MState) (data : Bytes) : MState × Nat × Nat :=
  let curSeg := st.cur.bind st.seg?
  let need := match curSeg with
    | none => true
    | some s => s.full || s.size + data.length > st.cfg.maxSeg
  let st := if need then
      let st := match curSeg with
        | some s => st.setSeg { s with full := true }
        | none => st
      st.swapSegment
    else st
  match st.cur.bind st.seg? with
  | none => (st, 0, 0)   -- unreachable: swapSegment always sets a live current segment
  | some s =>
    let off := s.size
    (st.setSeg { s with data := s.data ++ data }, s.id, off)

def readAt (st : MState) (segId off len : Nat) : Option Bytes :=
  match st.seg? segId with
  | none => none
  | some s =>
    if off < headerSize then none
    else if off - headerSize + len ≤ s.data.length then some ((s.data.drop (off - headerSize)).take len)
    else none

def readKey (st : MState) (sl : Slot) : Option Bytes := st.readAt sl.seg (sl.off + 6) sl.ksz
def readVal (st : MState) (sl : Slot) : Option Bytes := st.readAt sl.seg (sl.off + 6 + sl.ksz) sl.vsz

/-- The `matchKeyFunc` closures of db.go: key size filter (truncated to uint16), then bytes. -/
def matchKey (st : MState) (k : Bytes) (sl : Slot) : Bool :=
  (k.length % 65536 == sl.ksz) && (st.readKey sl == some k)

def hashOf (st : MState) (k : Bytes) : Nat := (murmur32 k st.seed).toNat

def get (st : MState) (k : Bytes) : Option Bytes :=
  match st.idx.get (st.hashOf k) (st.matchKey k) with
  | none => none
  | some sl => st.readVal sl

def has (st : MState) (k : Bytes) : Bool := (st.idx.get (st.hashOf k) (st.matchKey k)).isSome

def count (st : MState) : Nat := st.idx.numKeys

inductive PutRes where
  | ok | keyTooLarge | valueTooLarge
  deriving DecidableEq, Repr

def put (st : MState) (k v : Bytes) : MState × PutRes :=
  if k.length > maxKeyLength then (st, .keyTooLarge)
  else if v.length > maxValueLength then (st, .valueTooLarge)
  else
    let rec_ : Rec := ⟨false, k, v⟩
    let (st1, seg, off) := st.writeRecord rec_.encode
    let sl : Slot := ⟨st.hashOf k, seg, k.length % 65536, v.length % 4294967296, off⟩
    -- the key comparison reads the log *after* the append (same keys at the old locations)
    ({ st1 with idx := st1.idx.put loadPolicy sl (st1.matchKey k) }, .ok)

def delete (st : MState) (k : Bytes) : MState :=
  match st.idx.get (st.hashOf k) (st.matchKey k) with
  | none => st
  | some _ =>
    let rec_ : Rec := ⟨true, k, []⟩
    let (st1, _, _) := st.writeRecord rec_.encode
    { st1 with idx := st1.idx.delete (st.hashOf k) (st1.matchKey k) }

/-- All (key, value) pairs in iteration order. -/
def items (st : MState) : List (Bytes × Bytes) :=
  st.idx.slots.filterMap fun sl =>
    match st.readKey sl, st.readVal sl with
    | some k, some v => some (k, v)
    | _, _ => none

/-! ### Compaction, step by step -/

/-- Records of a segment with their file offsets. -/
def recsWithOffsets (data : Bytes) : List (Nat × Rec) :=
  let rs := (scan data).1
  let rec go (off : Nat) : List Rec → List (Nat × Rec)
    | [] => []
    | r :: rest => (off, r) :: go (off + r.encode.length) rest
  go headerSize rs

structure CompState where
  pending : List Nat            -- picked segment ids not yet started
  source  : Option Nat          -- segment being compacted
  todo    : List (Nat × Rec)    -- its records not yet processed
  started : Bool                -- records of `source` loaded
  finished : Bool               -- EOF iteration done, removal due
  deriving Repr, Inhabited

/-- `Compact`: pick (given) and seal the picked segments in one exclusive section. -/
def compactBegin (st : MState) (picked : List Nat) : MState × CompState :=
  let st := { st with segs := st.segs.map fun s => if picked.contains s.id then { s with full := true } else s }
  (st, ⟨picked, none, [], false, false⟩)

/-- `removeSegment`. -/
def removeSeg (st : MState) (id : Nat) : MState :=
  { st with segs := st.segs.filter (·.id != id), cur := if st.cur == some id then none else st.cur }

/-- Finish the previous source (if its EOF iteration has run) and start the next one
(`compact`: seal + new iterator). Called at `yield compact.sealed` and at the end. -/
def compactAdvance (st : MState) (c : CompState) : MState × CompState :=
  let st := match c.source, c.finished with
    | some id, true => st.removeSeg id
    | _, _ => st
  match c.pending with
  | [] => (st, { c with source := none, todo := [], finished := false, started := false })
  | id :: rest =>
    let todo := match st.seg? id with
      | some s => recsWithOffsets s.data
      | none => []
    let st := match st.seg? id with
      | some s => st.setSeg { s with full := true }
      | none => st
    (st, ⟨rest, some id, todo, true, false⟩)

/-- One iteration of the copy loop: `promoteRecord` for a put record, drop a delete record;
at the end of the segment mark it finished. -/
def compactRecord (st : MState) (c : CompState) : MState × CompState :=
  match c.source with
  | none => (st, c)
  | some src =>
    match c.todo with
    | [] => (st, { c with finished := true })
    | (off, r) :: rest =>
      let c := { c with todo := rest }
      if r.del then (st, c)
      else
        let h := st.hashOf r.key
        -- is there a slot pointing at (src, off)?
        match st.idx.repoint h src off src off with
        | none => (st, c)
        | some _ =>
          let (st1, seg', off') := st.writeRecord r.encode
          match st1.idx.repoint h src off seg' off' with
          | none => (st1, c)
          | some idx' => ({ st1 with idx := idx' }, c)

/-- Does the segment hold a delete record? -/
def hasDelete (s : MSeg) : Bool := (scan s.data).1.any (·.del)

/-- `PickOK`: picked oldest first; a picked segment with delete records brings every older one. -/
def pickOK (st : MState) (picked : List Nat) : Bool :=
  let segOf := fun id => st.seg? id
  let seqs := picked.filterMap fun id => (segOf id).map (·.seq)
  seqs.length == picked.length &&
  (seqs.zip (seqs.drop 1)).all (fun (a, b) => a < b) &&
  picked.all fun id =>
    match segOf id with
    | none => false
    | some s => !hasDelete s || st.segs.all fun o => !(o.seq < s.seq) || picked.contains o.id

/-! ### Restart -/

/-- Clean reopen: the side files keep `Full` (since fix F13 also for an empty segment). -/
def reopenClean (st : MState) : MState :=
  let maxSeq := st.segs.foldl (fun m s => max m s.seq) 0
  ({ st with maxSeq := maxSeq, cur := none } : MState).swapSegment

def sortBySeq (segs : List MSeg) : List MSeg :=
  segs.foldl (fun acc s =>
    let (a, b) := acc.span (fun x => x.seq ≤ s.seq)
    a ++ s :: b) []

/-- Replay one segment into the index (`recover`). -/
def replaySeg (st : MState) (s : MSeg) : MState :=
  (recsWithOffsets s.data).foldl (fun st (off, r) =>
    if r.del then
      { st with idx := st.idx.delete (st.hashOf r.key) (st.matchKey r.key) }
    else
      let sl : Slot := ⟨st.hashOf r.key, s.id, r.key.length % 65536, r.val.length % 4294967296, off⟩
      { st with idx := st.idx.put loadPolicy sl (st.matchKey r.key) }) st

/-- Unclean reopen: fresh index and metadata, new hash seed, truncate each segment to its valid
prefix, replay in sequence order, seal all but the newest. -/
def reopenRecover (st : MState) (newSeed : UInt32) : MState :=
  let segs := st.segs.map fun s => { s with full := false }
  let maxSeq := segs.foldl (fun m s => max m s.seq) 0
  let st := ({ st with segs := segs, maxSeq := maxSeq, cur := none, idx := Index.empty, seed := newSeed } : MState).swapSegment
  let ordered := sortBySeq st.segs
  let st := ordered.foldl (fun st s =>
    let valid := (scan s.data).2
    let s' := { s with data := s.data.take valid }
    let st := match st.seg? s.id with
      | some cur => st.setSeg { cur with data := s'.data }
      | none => st
    st.replaySeg s') st
  let newest := ordered.getLast?.map (·.id)
  -- seal all but the newest, then make the newest the current segment
  ({ st with segs := st.segs.map fun s => if some s.id == newest then s else { s with full := true } } : MState).swapSegment

def init (maxSeg : Nat) (seed : UInt32) : MState :=
  ({ cfg := ⟨maxSeg⟩, seed := seed, segs := [], cur := none, maxSeq := 0, idx := Index.empty } : MState).swapSegment

end MState
end Pogreb
