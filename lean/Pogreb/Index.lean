/-
  Chain-level model of the linear-hashing index (index.go, bucket.go).

  A bucket is the packed prefix of used slots (at most 31) of an on-disk bucket; a chain is a
  main bucket followed by its overflow buckets. Go methods that mutate through pointers
  become functions returning the new value. The key comparison callback (`matchKeyFunc`) is a
  parameter `m : Slot → Bool`, the load-factor test a parameter `policy`.
-/
namespace Pogreb

structure Slot where
  hash : Nat   -- uint32
  seg  : Nat   -- uint16 segment id
  ksz  : Nat   -- uint16
  vsz  : Nat   -- uint32
  off  : Nat   -- uint32, nonzero
  deriving DecidableEq, Repr, Inhabited

abbrev Bucket := List Slot
abbrev Chain := List Bucket

def slotsPerBucket : Nat := 31

/-! ### One chain -/

/-- `index.get` on a chain: first slot with the hash for which the key matches. -/
def Chain.get (c : Chain) (h : Nat) (m : Slot → Bool) : Option Slot :=
  c.flatten.find? (fun s => decide (s.hash = h) && m s)

/-- Overwrite the first matching slot of a bucket. -/
def Bucket.replace (h : Nat) (m : Slot → Bool) (ns : Slot) : Bucket → Option Bucket
  | [] => none
  | s :: ss =>
    if decide (s.hash = h) && m s then some (ns :: ss)
    else (Bucket.replace h m ns ss).map (s :: ·)

/-- Overwrite the first matching slot of a chain (the whole chain is searched). -/
def Chain.replace (h : Nat) (m : Slot → Bool) (ns : Slot) : Chain → Option Chain
  | [] => none
  | b :: bs =>
    match Bucket.replace h m ns b with
    | some b' => some (b' :: bs)
    | none => (Chain.replace h m ns bs).map (b :: ·)

/-- Insert into the first bucket with an empty slot; a new overflow bucket if all are full. -/
def Chain.insertFree (ns : Slot) : Chain → Chain
  | [] => [[ns]]
  | b :: bs => if b.length < slotsPerBucket then (b ++ [ns]) :: bs else b :: Chain.insertFree ns bs

/-- `findInsertionBucket` + `slotWriter.insert/write`; the flag says whether the key existed. -/
def Chain.put (c : Chain) (ns : Slot) (m : Slot → Bool) : Chain × Bool :=
  match Chain.replace ns.hash m ns c with
  | some c' => (c', true)
  | none => (Chain.insertFree ns c, false)

/-- `bucket.del`: remove the first matching slot, shifting the rest of that bucket left. -/
def Bucket.remove (h : Nat) (m : Slot → Bool) : Bucket → Option Bucket
  | [] => none
  | s :: ss =>
    if decide (s.hash = h) && m s then some ss
    else (Bucket.remove h m ss).map (s :: ·)

def Chain.remove (h : Nat) (m : Slot → Bool) : Chain → Option Chain
  | [] => none
  | b :: bs =>
    match Bucket.remove h m b with
    | some b' => some (b' :: bs)
    | none => (Chain.remove h m bs).map (b :: ·)

/-- `slotWriter`: finished buckets and the bucket being filled. -/
structure SlotWriter where
  done : List Bucket
  cur  : Bucket

def SlotWriter.insert (w : SlotWriter) (s : Slot) : SlotWriter :=
  if w.cur.length = slotsPerBucket then ⟨w.done ++ [w.cur], [s]⟩ else ⟨w.done, w.cur ++ [s]⟩

def SlotWriter.chain (w : SlotWriter) : Chain := w.done ++ [w.cur]

/-- Write a list of slots through a fresh slot writer (what `split` does for each side). -/
def rechunk (l : List Slot) : Chain := (l.foldl SlotWriter.insert ⟨[], []⟩).chain

/-! ### The index -/

structure Index where
  level   : Nat
  split   : Nat
  chains  : List Chain
  numKeys : Nat
  deriving Repr

def Index.numBuckets (idx : Index) : Nat := idx.chains.length

/-- Position rule of linear hashing. -/
def bucketIdx (level split h : Nat) : Nat :=
  let b := h % 2 ^ level
  if b < split then h % 2 ^ (level + 1) else b

def Index.bucketIndex (idx : Index) (h : Nat) : Nat := bucketIdx idx.level idx.split h

def Index.empty : Index := ⟨0, 0, [[[]]], 0⟩

def Index.chain (idx : Index) (i : Nat) : Chain := idx.chains.getD i []

/-- All slots, in iteration order (chain 0, 1, ...; each chain main bucket first). -/
def Index.slots (idx : Index) : List Slot := (idx.chains.map List.flatten).flatten

def Index.get (idx : Index) (h : Nat) (m : Slot → Bool) : Option Slot :=
  (idx.chain (idx.bucketIndex h)).get h m

/-- `index.split`. -/
def Index.doSplit (idx : Index) : Index :=
  let s := idx.split
  let (split', level') := if s + 1 = 2 ^ idx.level then (0, idx.level + 1) else (s + 1, idx.level)
  let old := (idx.chain s).flatten
  let stay := old.filter (fun sl => decide (bucketIdx level' split' sl.hash = s))
  let move := old.filter (fun sl => !decide (bucketIdx level' split' sl.hash = s))
  { idx with level := level', split := split',
             chains := idx.chains.set s (rechunk stay) ++ [rechunk move] }

/-- `index.put` (without the `MaxKeys` guard, see `Index.put?`). -/
def Index.put (policy : Nat → Nat → Bool) (idx : Index) (ns : Slot) (m : Slot → Bool) : Index :=
  let i := idx.bucketIndex ns.hash
  let (c', existed) := (idx.chain i).put ns m
  let idx1 := { idx with chains := idx.chains.set i c' }
  if existed then idx1
  else
    let idx2 := { idx1 with numKeys := idx1.numKeys + 1 }
    if policy idx2.numKeys idx2.numBuckets then idx2.doSplit else idx2

/-- `index.delete`. -/
def Index.delete (idx : Index) (h : Nat) (m : Slot → Bool) : Index :=
  let i := idx.bucketIndex h
  match Chain.remove h m (idx.chain i) with
  | some c' => { idx with chains := idx.chains.set i c', numKeys := idx.numKeys - 1 }
  | none => idx

/-- The production split policy: `float64(numKeys)/float64(numBuckets*31) > 0.7`, in integers. -/
def loadPolicy (numKeys numBuckets : Nat) : Bool := decide (7 * (numBuckets * slotsPerBucket) < 10 * numKeys)

/-- `promoteRecord`'s index update: repoint the slot that points at `(seg, off)`. -/
def Bucket.repoint (h seg off seg' off' : Nat) : Bucket → Option Bucket
  | [] => none
  | s :: ss =>
    if s.hash = h ∧ s.off = off ∧ s.seg = seg then some ({ s with seg := seg', off := off' } :: ss)
    else (Bucket.repoint h seg off seg' off' ss).map (s :: ·)

def Chain.repoint (h seg off seg' off' : Nat) : Chain → Option Chain
  | [] => none
  | b :: bs =>
    match Bucket.repoint h seg off seg' off' b with
    | some b' => some (b' :: bs)
    | none => (Chain.repoint h seg off seg' off' bs).map (b :: ·)

def Index.repoint (idx : Index) (h seg off seg' off' : Nat) : Option Index :=
  let i := idx.bucketIndex h
  (Chain.repoint h seg off seg' off' (idx.chain i)).map fun c' => { idx with chains := idx.chains.set i c' }

end Pogreb
