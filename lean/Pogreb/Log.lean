/-
  The write-ahead log as a list of entries in replay order (sequence id, then offset),
  "last record for a key wins". This file holds the pure list theory behind crash recovery
  (C03/C04), compaction (C05) and power loss (C06): which edits of the log leave the replayed
  contents unchanged.
-/
import Pogreb.Spec
namespace Pogreb

/-- A log entry: a put (`val = some v`) or a delete record (`val = none`) for `key`. -/
structure Ent (K V : Type) where
  key : K
  val : Option V
  deriving Repr, DecidableEq

variable {K V : Type} [DecidableEq K]

/-- Last element satisfying `p`. -/
def lastOf (p : α → Bool) : List α → Option α
  | [] => none
  | x :: xs => match lastOf p xs with
    | some y => some y
    | none => if p x then some x else none

theorem lastOf_append (p : α → Bool) (a b : List α) :
    lastOf p (a ++ b) = match lastOf p b with | some y => some y | none => lastOf p a := by
  induction a with
  | nil => simp [lastOf]; cases lastOf p b <;> rfl
  | cons x xs ih =>
    simp only [List.cons_append, lastOf, ih]
    cases lastOf p b <;> simp

theorem lastOf_eq_none {p : α → Bool} {l : List α} : lastOf p l = none ↔ ∀ x ∈ l, p x = false := by
  induction l with
  | nil => simp [lastOf]
  | cons x xs ih =>
    simp only [lastOf, List.mem_cons, forall_eq_or_imp]
    cases h : lastOf p xs with
    | some y =>
      simp only [reduceCtorEq, false_iff, not_and]
      intro _ hall
      rw [ih.mpr hall] at h; cases h
    | none =>
      have := ih.mp h
      cases hp : p x <;> simp <;> exact this

theorem lastOf_some_mem {p : α → Bool} {l : List α} {y : α} (h : lastOf p l = some y) :
    y ∈ l ∧ p y = true := by
  induction l with
  | nil => simp [lastOf] at h
  | cons x xs ih =>
    simp only [lastOf] at h
    cases h' : lastOf p xs with
    | some z =>
      rw [h'] at h; injection h with h; subst h
      exact ⟨List.mem_cons_of_mem _ (ih h').1, (ih h').2⟩
    | none =>
      rw [h'] at h
      by_cases hp : p x
      · simp [hp] at h; subst h; exact ⟨List.mem_cons_self, hp⟩
      · simp [hp] at h

/-- The last record of key `k`. -/
def lastRec (log : List (Ent K V)) (k : K) : Option (Ent K V) := lastOf (fun e => decide (e.key = k)) log

/-- Replaying a log: the contents it denotes. -/
def contents (log : List (Ent K V)) : KV K V := fun k =>
  match lastRec log k with
  | some e => e.val
  | none => none

@[simp] theorem contents_nil : contents ([] : List (Ent K V)) = KV.empty := by
  funext k; simp [contents, lastRec, lastOf, KV.empty]

theorem contents_append (a b : List (Ent K V)) (k : K) :
    contents (a ++ b) k = match lastRec b k with | some e => e.val | none => contents a k := by
  simp only [contents, lastRec, lastOf_append]
  cases lastOf (fun e => decide (e.key = k)) b <;> rfl

theorem contents_append_of_absent (a b : List (Ent K V)) (k : K) (h : ∀ e ∈ b, e.key ≠ k) :
    contents (a ++ b) k = contents a k := by
  rw [contents_append]
  have : lastRec b k = none := by
    apply lastOf_eq_none.mpr; intro e he; simp [h e he]
  rw [this]

/-- Appending a put record is `put` on the contents. -/
theorem contents_put (log : List (Ent K V)) (k : K) (v : V) :
    contents (log ++ [⟨k, some v⟩]) = (contents log).put k v := by
  funext k'
  rw [contents_append]
  by_cases h : k' = k
  · subst h; simp [lastRec, lastOf]
  · have : ¬ k = k' := fun h' => h h'.symm
    simp [lastRec, lastOf, this, KV.put, h]

/-- Appending a delete record is `del` on the contents. -/
theorem contents_del (log : List (Ent K V)) (k : K) :
    contents (log ++ [⟨k, none⟩]) = (contents log).del k := by
  funext k'
  rw [contents_append]
  by_cases h : k' = k
  · subst h; simp [lastRec, lastOf]
  · have : ¬ k = k' := fun h' => h h'.symm
    simp [lastRec, lastOf, this, KV.del, h]

/-- `Delete` of an absent key writes nothing, and that is still `del`. -/
theorem contents_del_absent (log : List (Ent K V)) (k : K) (h : contents log k = none) :
    contents log = (contents log).del k := by
  funext k'
  by_cases hk : k' = k
  · subst hk; simp [h]
  · simp [KV.del, hk]

/-- Re-appending the current value of a key (what compaction's `promoteRecord` does) changes nothing. -/
theorem contents_copy (log : List (Ent K V)) (k : K) (v : V) (h : contents log k = some v) :
    contents (log ++ [⟨k, some v⟩]) = contents log := by
  rw [contents_put]; funext k'
  by_cases hk : k' = k
  · subst hk; simp [h]
  · simp [KV.put, hk]

/-! ### Removing a segment -/

/-- An entry is *shadowed* by a list if the list holds a record of the same key. -/
def Shadowed (e : Ent K V) (later : List (Ent K V)) : Prop := ∃ e' ∈ later, e'.key = e.key

/-- Removing a block `S` from the log `pre ++ S ++ post` keeps the contents, provided every
record of `S` is shadowed by `post`, or is a delete record whose key has no record in `pre`,
i.e. nothing older that could come back. (A put record that is *not* shadowed is a live one:
it must have been copied first.) -/
theorem contents_remove (pre S post : List (Ent K V))
    (h : ∀ e ∈ S, Shadowed e post ∨ (e.val = none ∧ ∀ e' ∈ pre, e'.key ≠ e.key)) :
    contents (pre ++ post) = contents (pre ++ S ++ post) := by
  funext k
  rw [contents_append, contents_append (pre ++ S) post]
  cases hp : lastRec post k with
  | some e => rfl
  | none =>
    simp only
    rw [contents_append]
    cases hs : lastRec S k with
    | none => rfl
    | some e =>
      simp only
      obtain ⟨hm, hk⟩ := lastOf_some_mem hs
      have hk : e.key = k := by simpa using hk
      rcases h e hm with ⟨e', he', hkk⟩ | ⟨hv, hpre⟩
      · have := lastOf_eq_none.mp hp e' he'
        simp [hkk, hk] at this
      · rw [hv]
        have : lastRec pre k = none := by
          apply lastOf_eq_none.mpr; intro e' he'
          have := hpre e' he'
          simp [hk ▸ this]
        simp [contents, this]

/-- Special case used for a segment without delete records (may sit anywhere in the log). -/
theorem contents_remove_puts (pre S post : List (Ent K V)) (h : ∀ e ∈ S, Shadowed e post) :
    contents (pre ++ post) = contents (pre ++ S ++ post) :=
  contents_remove pre S post (fun e he => Or.inl (h e he))

/-- Special case used for the oldest segment (delete records may be dropped). -/
theorem contents_remove_oldest (S post : List (Ent K V))
    (h : ∀ e ∈ S, Shadowed e post ∨ e.val = none) :
    contents post = contents (S ++ post) := by
  have := contents_remove [] S post (fun e he => (h e he).elim Or.inl (fun hv => Or.inr ⟨hv, by simp⟩))
  simpa using this

end Pogreb
