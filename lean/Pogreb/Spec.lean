/-
  The abstract specification: a finite map, and the write operations of the API.
  Everything else is related to this only through externally visible behaviour.
-/
namespace Pogreb

/-- Abstract contents: a partial map. -/
abbrev KV (K V : Type) := K → Option V

namespace KV
variable {K V : Type} [DecidableEq K]

def empty : KV K V := fun _ => none
def put (m : KV K V) (k : K) (v : V) : KV K V := fun k' => if k' = k then some v else m k'
def del (m : KV K V) (k : K) : KV K V := fun k' => if k' = k then none else m k'

@[simp] theorem put_same (m : KV K V) (k : K) (v : V) : (m.put k v) k = some v := by simp [put]
@[simp] theorem put_other (m : KV K V) {k k' : K} (v : V) (h : k' ≠ k) : (m.put k v) k' = m k' := by
  simp [put, h]
@[simp] theorem del_same (m : KV K V) (k : K) : (m.del k) k = none := by simp [del]
@[simp] theorem del_other (m : KV K V) {k k' : K} (h : k' ≠ k) : (m.del k) k' = m k' := by
  simp [del, h]
end KV

/-- Write operations of the public API (reads do not change the contents). -/
inductive WOp (K V : Type) where
  | put (k : K) (v : V)
  | del (k : K)
  deriving Repr

namespace WOp
variable {K V : Type} [DecidableEq K]
def apply (m : KV K V) : WOp K V → KV K V
  | .put k v => m.put k v
  | .del k => m.del k
def run (m : KV K V) (ops : List (WOp K V)) : KV K V := ops.foldl apply m

@[simp] theorem run_nil (m : KV K V) : run m [] = m := rfl
@[simp] theorem run_cons (m : KV K V) (o : WOp K V) (os : List (WOp K V)) :
    run m (o :: os) = run (apply m o) os := rfl
theorem run_append (m : KV K V) (a b : List (WOp K V)) : run m (a ++ b) = run (run m a) b := by
  simp [run, List.foldl_append]
end WOp

/-! Executable association-list map used by the driver as the oracle. -/
structure AList (K V : Type) where
  items : List (K × V)
  deriving Repr

namespace AList
variable {K V : Type} [DecidableEq K]
def empty : AList K V := ⟨[]⟩
def get (m : AList K V) (k : K) : Option V := (m.items.find? (·.1 = k)).map (·.2)
def del (m : AList K V) (k : K) : AList K V := ⟨m.items.filter (·.1 ≠ k)⟩
def put (m : AList K V) (k : K) (v : V) : AList K V := ⟨(k, v) :: (m.del k).items⟩
def count (m : AList K V) : Nat := m.items.length
def toKV (m : AList K V) : KV K V := m.get

theorem toKV_empty : (empty : AList K V).toKV = KV.empty := by
  funext k; simp [toKV, get, empty, KV.empty]

theorem get_del (m : AList K V) (k k' : K) :
    (m.del k).get k' = if k' = k then none else m.get k' := by
  unfold del get
  induction m.items with
  | nil => simp
  | cons x xs ih =>
    simp only [List.filter_cons, List.find?_cons]
    by_cases hx : x.1 = k <;> by_cases hk : k' = k <;> by_cases hx' : x.1 = k' <;>
      simp_all

theorem toKV_del (m : AList K V) (k : K) : (m.del k).toKV = m.toKV.del k := by
  funext k'; simp only [toKV, get_del, KV.del]

theorem toKV_put (m : AList K V) (k : K) (v : V) : (m.put k v).toKV = m.toKV.put k v := by
  funext k'
  simp only [toKV, KV.put]
  by_cases hk : k' = k
  · subst hk; simp [put, get]
  · have h := get_del m k k'
    simp only [hk, if_false] at h
    have hne : ¬ k = k' := fun h => hk h.symm
    simp only [put, get, List.find?_cons, hne, decide_false, hk, if_false]
    simpa [get] using h
end AList

end Pogreb
