/-
  Interpreter for the generated lock/section summaries (`Generated.methods`): inlines the
  package-internal calls, tracks which mutexes are held (and in which mode) at every event and
  evaluates the discipline the concurrency theorems rest on. All checks are `Bool` functions so
  that `decide` can run them over the whole generated table.
-/
import Pogreb.Generated.Sections
namespace Pogreb.Locking

open Pogreb.Generated

inductive Mode where
  | shared | excl
  deriving DecidableEq, Repr

/-- One event with the locks held when it happens. -/
structure Obs where
  kind : String
  arg  : String
  held : List (String × Mode)
  deriving Repr

def lookup (ms : List (String × List Ev)) (name : String) : Option (List Ev) :=
  (ms.find? (·.1 == name)).map (·.2)

/-- Inline `call` events (each callee in its own defer scope). Unknown callees become an explicit
`unknown` event, which every check rejects. -/
def inline (ms : List (String × List Ev)) : Nat → List Ev → List Ev
  | 0, evs => evs.map fun e => if e.1 == "call" then ("unknown", e.2) else e
  | fuel + 1, evs => evs.flatMap fun e =>
    if e.1 == "call" then
      match lookup ms e.2 with
      | some body => [("scope", "begin")] ++ inline ms fuel body ++ [("scope", "end")]
      | none => [("unknown", e.2)]
    else [e]

structure St where
  held   : List (String × Mode) := []
  defers : List (List String) := [[]]      -- per scope: mutexes to release at scope exit
  out    : List Obs := []
  bad    : List String := []               -- protocol errors (unlock of a mutex not held, ...)

def release (held : List (String × Mode)) (m : String) : List (String × Mode) :=
  match held with
  | [] => []
  | (n, md) :: rest => if n == m then rest else (n, md) :: release rest m

def stepEv (s : St) (e : Ev) : St :=
  let obs : Obs := ⟨e.1, e.2, s.held⟩
  let s := { s with out := obs :: s.out }
  match e.1 with
  | "lock" | "trylock" => { s with held := (e.2, .excl) :: s.held }
  | "rlock" => { s with held := (e.2, .shared) :: s.held }
  | "unlock" | "runlock" =>
    if s.held.any (·.1 == e.2) then { s with held := release s.held e.2 }
    else { s with bad := s!"unlock of {e.2} which is not held" :: s.bad }
  | "deferunlock" | "deferrunlock" =>
    match s.defers with
    | d :: ds => { s with defers := (e.2 :: d) :: ds }
    | [] => { s with bad := "defer outside a scope" :: s.bad }
  | "scope" =>
    if e.2 == "begin" then { s with defers := [] :: s.defers }
    else match s.defers with
      | d :: ds => { s with held := d.foldl release s.held, defers := ds }
      | [] => { s with bad := "scope end without begin" :: s.bad }
  | _ => s

/-- Run a top-level method: events with held locks, final held set (after the function's own
deferred unlocks), protocol errors. -/
def runMethod (ms : List (String × List Ev)) (name : String) : List Obs × List (String × Mode) × List String :=
  match lookup ms name with
  | none => ([⟨"unknown", name, []⟩], [], ["no such method"])
  | some body =>
    let evs := inline ms 6 body
    let s := evs.foldl stepEv {}
    let held := match s.defers with
      | d :: _ => d.foldl release s.held
      | [] => s.held
    (s.out.reverse, held, s.bad)

def rank (m : String) : Nat :=
  if m == "maintenanceMu" then 1 else if m == "it.mu" then 2 else if m == "db.mu" then 3 else 0

def modeOf (held : List (String × Mode)) (m : String) : Option Mode := (held.find? (·.1 == m)).map (·.2)

/-- Public entry points and what they do to the guarded state: `some .excl` = may write,
`some .shared` = reads only, `none` = must not touch guarded state at all. -/
def entryPoints : List (String × Option Mode) :=
  [("DB.Put", some .excl), ("DB.Delete", some .excl), ("DB.Sync", some .excl), ("DB.Close", some .excl),
   ("DB.Compact", some .excl), ("DB.Get", some .shared), ("DB.GetAppend", some .shared), ("DB.Has", some .shared),
   ("DB.Count", some .shared), ("DB.Backup", some .shared), ("ItemIterator.Next", some .shared),
   ("DB.Items", none), ("DB.Metrics", none), ("DB.FileSize", none)]

/-- Methods whose accesses are writes even when reached from a reader entry point: none may be
reachable from a `.shared` entry point (checked by `guardedOK`). -/
def writers : List String := ["DB.put", "DB.del", "DB.promoteRecord", "DB.sync", "DB.recover", "DB.writeMeta"]

def isAccess (o : Obs) : Bool := o.kind == "access"

/-- Every access to index/datalog happens under `db.mu` in at least the required mode; iterator
state additionally under `it.mu`; nothing is `unknown`. -/
def guardedOK (ms : List (String × List Ev)) (name : String) (req : Option Mode) : Bool :=
  let (obs, held, bad) := runMethod ms name
  bad.isEmpty && held.isEmpty &&
  obs.all fun o =>
    if o.kind == "unknown" then false
    else if isAccess o then
      match req with
      | none => false
      | some .excl =>
        if o.arg == "queue" || o.arg == "nextBucketIdx" then modeOf o.held "it.mu" == some .excl
        else modeOf o.held "db.mu" == some .excl || (name == "DB.Backup" && (modeOf o.held "db.mu").isSome)
      | some .shared =>
        if o.arg == "queue" || o.arg == "nextBucketIdx" then modeOf o.held "it.mu" == some .excl
        else (modeOf o.held "db.mu").isSome
    else true

/-- A reader entry point never reaches a writer method. -/
def readerReachesNoWriter (ms : List (String × List Ev)) (name : String) : Bool :=
  let rec reach : Nat → List String → List String → List String
    | 0, _, seen => seen
    | fuel + 1, todo, seen =>
      match todo with
      | [] => seen
      | n :: rest =>
        if seen.contains n then reach fuel rest seen
        else
          let callees := ((lookup ms n).getD []).filterMap fun e => if e.1 == "call" then some e.2 else none
          reach fuel (callees ++ rest) (n :: seen)
  (reach 200 [name] []).all fun n => !writers.contains n

/-- Lock order: a mutex is only acquired while all mutexes held have a strictly lower rank
(so no mutex is acquired twice either); `trylock` never blocks, so it is exempt from the
order but still must not be held already. -/
def orderOK (ms : List (String × List Ev)) (name : String) : Bool :=
  let (obs, _, _) := runMethod ms name
  obs.all fun o =>
    if o.kind == "lock" || o.kind == "rlock" then rank o.arg != 0 && o.held.all fun h => rank h.1 < rank o.arg
    else if o.kind == "trylock" then !(o.held.any (·.1 == o.arg))
    else true

/-- Yield points, waits for the worker and goroutine starts happen without `db.mu`. -/
def yieldsUnlocked (ms : List (String × List Ev)) (name : String) : Bool :=
  let (obs, _, _) := runMethod ms name
  obs.all fun o =>
    if o.kind == "yield" || o.kind == "wait" || o.kind == "go" then (modeOf o.held "db.mu").isNone else true

/-- The method consists of exactly one `db.mu` critical section that covers every access. -/
def singleSection (ms : List (String × List Ev)) (name : String) : Bool :=
  let (obs, _, _) := runMethod ms name
  (obs.filter fun o => (o.kind == "lock" || o.kind == "rlock") && o.arg == "db.mu").length == 1

/-- `Close` waits for the background worker before it takes `db.mu`. -/
def closeWaitsFirst (ms : List (String × List Ev)) : Bool :=
  let (obs, _, _) := runMethod ms "DB.Close"
  match obs.findIdx? (·.kind == "wait"), obs.findIdx? (fun o => o.kind == "lock" && o.arg == "db.mu") with
  | some w, some l => w < l
  | _, _ => false

/-- The background worker only calls public entry points (so it holds no lock while idle). -/
def workerCallsOnlyEntryPoints (ms : List (String × List Ev)) : Bool :=
  ((lookup ms "DB.startBackgroundWorker").getD [("unknown", "")]).all fun e =>
    if e.1 == "call" then entryPoints.any (·.1 == e.2)
    else e.1 == "go" || e.1 == "scope"

/-- Every exported method of the generated table is classified (new code is never guarded by default). -/
def allClassified : Bool :=
  exportedMethods.all fun n => entryPoints.any (·.1 == n)

/-- Goroutines are started only by `startBackgroundWorker`. -/
def onlyWorkerGoroutine (ms : List (String × List Ev)) : Bool :=
  ms.all fun (n, evs) => n == "DB.startBackgroundWorker" || !(evs.any (·.1 == "go"))

end Pogreb.Locking
