/-
  Byte layout of an index bucket (bucket.go): 31 slots of 16 bytes
  (hash u32, segment id u16, key size u16, value size u32, offset u32, little endian),
  then the 8-byte offset of the next overflow bucket; 512 bytes in all.
-/
import Pogreb.Bytes
import Pogreb.Index
namespace Pogreb

def Slot.encode (s : Slot) : Bytes := le32 s.hash ++ le16 s.seg ++ le16 s.ksz ++ le32 s.vsz ++ le32 s.off

/-- `bucket.MarshalBinary` for a bucket whose used slots are `slots` (at most 31). -/
def encodeBucket (slots : List Slot) (next : Nat) : Bytes :=
  slots.flatMap Slot.encode ++ zeros (16 * (31 - slots.length)) ++ le64 next ++ zeros 8

def rd (b : Bytes) (off len : Nat) : Nat := rdLE ((b.drop off).take len)

def decodeSlot (b : Bytes) (i : Nat) : Slot :=
  let o := 16 * i
  ⟨rd b o 4, rd b (o + 4) 2, rd b (o + 6) 2, rd b (o + 8) 4, rd b (o + 12) 4⟩

/-- `bucket.UnmarshalBinary` + the "used prefix" convention of the readers (stop at offset 0):
used slots, next pointer, and whether all slots after the first empty one are empty. -/
def parseBucket (b : Bytes) : List Slot × Nat × Bool :=
  let slots := (List.range 31).map (decodeSlot b)
  let used := slots.takeWhile (·.off != 0)
  let rest := slots.drop used.length
  (used, rd b 496 8, rest.all (·.off == 0))

/-- Field ranges of a slot as stored. -/
def Slot.InRange (s : Slot) : Prop :=
  s.hash < 2 ^ 32 ∧ s.seg < 2 ^ 16 ∧ s.ksz < 2 ^ 16 ∧ s.vsz < 2 ^ 32 ∧ s.off < 2 ^ 32 ∧ s.off ≠ 0

end Pogreb
