/-
  Refinement theorems for the chain-level index model.
-/
import Pogreb.IndexInv
namespace Pogreb

variable {K : Type} [DecidableEq K]

set_option linter.unusedSectionVars false

/-! ### Keyed lists -/

omit [DecidableEq K] in
theorem key_inj {kof : Slot → K} {l : List Slot} (hnd : (l.map kof).Nodup) {a b : Slot}
    (ha : a ∈ l) (hb : b ∈ l) (hab : kof a = kof b) : a = b := by
  induction l with
  | nil => cases ha
  | cons x xs ih =>
    simp only [List.map_cons, List.nodup_cons, List.mem_map, not_exists, not_and] at hnd
    rcases List.mem_cons.1 ha with rfl | ha' <;> rcases List.mem_cons.1 hb with rfl | hb'
    · rfl
    · exact absurd hab.symm (hnd.1 b hb')
    · exact absurd hab (hnd.1 a ha')
    · exact ih hnd.2 ha' hb'

theorem find_key_iff {kof : Slot → K} {l : List Slot} (hnd : (l.map kof).Nodup) (k : K) (sl : Slot) :
    l.find? (fun x => decide (kof x = k)) = some sl ↔ (sl ∈ l ∧ kof sl = k) := by
  constructor
  · intro h
    exact ⟨List.mem_of_find?_eq_some h, by simpa using List.find?_some h⟩
  · rintro ⟨hm, hk⟩
    cases hf : l.find? (fun x => decide (kof x = k)) with
    | none =>
      rw [List.find?_eq_none] at hf
      exact absurd (by simpa using hk) (hf sl hm)
    | some y =>
      have hy : kof y = k := by simpa using List.find?_some hf
      rw [key_inj hnd (List.mem_of_find?_eq_some hf) hm (hy.trans hk.symm)]

/-- replace `s` by `ns` (same key) -/
theorem replace_keys {kof kof' : Slot → K} {l l' R : List Slot} {s ns : Slot}
    (hl : l.Perm (s :: R)) (hl' : l'.Perm (ns :: R)) (hnd : (l.map kof).Nodup)
    (hR : ∀ x ∈ R, kof' x = kof x) (hns : kof' ns = kof s) :
    (l'.map kof').Nodup ∧
    ∀ k', l'.find? (fun x => decide (kof' x = k')) =
      if k' = kof s then some ns else l.find? (fun x => decide (kof x = k')) := by
  have hmap : (ns :: R).map kof' = (s :: R).map kof := by
    simp only [List.map_cons, hns]
    congr 1
    exact List.map_congr_left hR
  have hnd' : (l'.map kof').Nodup := by
    rw [(hl'.map kof').nodup_iff, hmap, ← (hl.map kof).nodup_iff]; exact hnd
  refine ⟨hnd', fun k' => ?_⟩
  have hnd2 : ((s :: R).map kof).Nodup := by rw [← (hl.map kof).nodup_iff]; exact hnd
  have hsR : ∀ x ∈ R, kof x ≠ kof s := by
    simp only [List.map_cons, List.nodup_cons, List.mem_map, not_exists, not_and] at hnd2
    exact hnd2.1
  apply Option.ext
  intro sl
  rw [find_key_iff hnd']
  by_cases hk : k' = kof s
  · subst hk
    simp only [if_true, Option.some.injEq]
    constructor
    · rintro ⟨hm, hk⟩
      rcases List.mem_cons.1 (hl'.mem_iff.1 hm) with rfl | hm'
      · rfl
      · exact absurd ((hR sl hm').symm.trans hk) (hsR sl hm')
    · rintro rfl
      exact ⟨hl'.mem_iff.2 (List.mem_cons_self), hns⟩
  · simp only [if_neg hk]
    rw [find_key_iff hnd]
    constructor
    · rintro ⟨hm, hk2⟩
      rcases List.mem_cons.1 (hl'.mem_iff.1 hm) with rfl | hm'
      · exact absurd (hk2.symm.trans hns) hk
      · exact ⟨hl.mem_iff.2 (List.mem_cons_of_mem _ hm'), (hR sl hm').symm.trans hk2⟩
    · rintro ⟨hm, hk2⟩
      rcases List.mem_cons.1 (hl.mem_iff.1 hm) with rfl | hm'
      · exact absurd hk2.symm hk
      · exact ⟨hl'.mem_iff.2 (List.mem_cons_of_mem _ hm'), (hR sl hm').trans hk2⟩

/-- insert `ns` with a fresh key -/
theorem insert_keys {kof kof' : Slot → K} {l l' : List Slot} {ns : Slot} {k : K}
    (hl' : l'.Perm (ns :: l)) (hnd : (l.map kof).Nodup)
    (hR : ∀ x ∈ l, kof' x = kof x) (hns : kof' ns = k) (hfresh : ∀ x ∈ l, kof x ≠ k) :
    (l'.map kof').Nodup ∧
    ∀ k', l'.find? (fun x => decide (kof' x = k')) =
      if k' = k then some ns else l.find? (fun x => decide (kof x = k')) := by
  have hmap : (ns :: l).map kof' = k :: l.map kof := by
    simp only [List.map_cons, hns]
    congr 1
    exact List.map_congr_left hR
  have hnd' : (l'.map kof').Nodup := by
    rw [(hl'.map kof').nodup_iff, hmap, List.nodup_cons]
    refine ⟨?_, hnd⟩
    simp only [List.mem_map, not_exists, not_and]
    exact hfresh
  refine ⟨hnd', fun k' => ?_⟩
  apply Option.ext
  intro sl
  rw [find_key_iff hnd']
  by_cases hk : k' = k
  · subst hk
    simp only [if_true, Option.some.injEq]
    constructor
    · rintro ⟨hm, hk⟩
      rcases List.mem_cons.1 (hl'.mem_iff.1 hm) with rfl | hm'
      · rfl
      · exact absurd ((hR sl hm').symm.trans hk) (hfresh sl hm')
    · rintro rfl
      exact ⟨hl'.mem_iff.2 (List.mem_cons_self), hns⟩
  · simp only [if_neg hk]
    rw [find_key_iff hnd]
    constructor
    · rintro ⟨hm, hk2⟩
      rcases List.mem_cons.1 (hl'.mem_iff.1 hm) with rfl | hm'
      · exact absurd (hk2.symm.trans hns) hk
      · exact ⟨hm', (hR sl hm').symm.trans hk2⟩
    · rintro ⟨hm, hk2⟩
      exact ⟨hl'.mem_iff.2 (List.mem_cons_of_mem _ hm), (hR sl hm).trans hk2⟩

/-- remove `s` -/
theorem remove_keys {kof : Slot → K} {l l' : List Slot} {s : Slot}
    (hl : l.Perm (s :: l')) (hnd : (l.map kof).Nodup) :
    (l'.map kof).Nodup ∧
    ∀ k', l'.find? (fun x => decide (kof x = k')) =
      if k' = kof s then none else l.find? (fun x => decide (kof x = k')) := by
  have hnd2 : ((s :: l').map kof).Nodup := by rw [← (hl.map kof).nodup_iff]; exact hnd
  simp only [List.map_cons, List.nodup_cons, List.mem_map, not_exists, not_and] at hnd2
  refine ⟨hnd2.2, fun k' => ?_⟩
  by_cases hk : k' = kof s
  · subst hk
    simp only [if_true, List.find?_eq_none, decide_eq_true_eq]
    exact hnd2.1
  · simp only [if_neg hk]
    apply Option.ext
    intro sl
    rw [find_key_iff hnd2.2, find_key_iff hnd]
    constructor
    · rintro ⟨hm, hk2⟩
      exact ⟨hl.mem_iff.2 (List.mem_cons_of_mem _ hm), hk2⟩
    · rintro ⟨hm, hk2⟩
      rcases List.mem_cons.1 (hl.mem_iff.1 hm) with rfl | hm'
      · exact absurd hk2.symm hk
      · exact ⟨hm', hk2⟩

/-! ### Generic "modify the first matching slot" -/

/-- Replace the first slot satisfying `p` by the list `f s`. -/
def Bucket.modify (p : Slot → Bool) (f : Slot → List Slot) : Bucket → Option Bucket
  | [] => none
  | s :: ss => if p s then some (f s ++ ss) else (Bucket.modify p f ss).map (s :: ·)

def Chain.modify (p : Slot → Bool) (f : Slot → List Slot) : Chain → Option Chain
  | [] => none
  | b :: bs =>
    match Bucket.modify p f b with
    | some b' => some (b' :: bs)
    | none => (Chain.modify p f bs).map (b :: ·)

theorem Bucket.modify_some {p : Slot → Bool} {f : Slot → List Slot} {b b' : Bucket}
    (h : Bucket.modify p f b = some b') :
    ∃ pre s post, b = pre ++ s :: post ∧ b' = pre ++ f s ++ post ∧ p s = true := by
  induction b generalizing b' with
  | nil => simp [Bucket.modify] at h
  | cons x xs ih =>
    simp only [Bucket.modify] at h
    split at h
    · next hp =>
      cases h
      exact ⟨[], x, xs, rfl, rfl, hp⟩
    · next hp =>
      simp only [Option.map_eq_some_iff] at h
      obtain ⟨y, hy, rfl⟩ := h
      obtain ⟨pre, s, post, h1, h2, h3⟩ := ih hy
      exact ⟨x :: pre, s, post, by simp [h1], by simp [h2], h3⟩

theorem Bucket.modify_none {p : Slot → Bool} {f : Slot → List Slot} {b : Bucket}
    (h : Bucket.modify p f b = none) : ∀ x ∈ b, ¬ p x = true := by
  induction b with
  | nil => intro x hx; cases hx
  | cons x xs ih =>
    simp only [Bucket.modify] at h
    split at h
    · cases h
    · next hp =>
      simp only [Option.map_eq_none_iff] at h
      intro y hy
      rcases List.mem_cons.1 hy with rfl | hy'
      · exact hp
      · exact ih h y hy'

theorem Chain.modify_some {p : Slot → Bool} {f : Slot → List Slot} {c c' : Chain}
    (h : Chain.modify p f c = some c') :
    ∃ pre s post, c.flatten = pre ++ s :: post ∧ c'.flatten = pre ++ f s ++ post ∧ p s = true ∧
      c' ≠ [] ∧
      ((f s).length ≤ 1 → ∀ n, (∀ b ∈ c, b.length ≤ n) → ∀ b ∈ c', b.length ≤ n) := by
  induction c generalizing c' with
  | nil => simp [Chain.modify] at h
  | cons b bs ih =>
    simp only [Chain.modify] at h
    split at h
    · next b' hb =>
      cases h
      obtain ⟨pre, s, post, h1, h2, h3⟩ := Bucket.modify_some hb
      refine ⟨pre, s, post ++ bs.flatten, by simp [h1], by simp [h2], h3, by simp, ?_⟩
      intro hf n hn x hx
      rcases List.mem_cons.1 hx with rfl | hx'
      · have := hn b List.mem_cons_self
        subst h1 h2
        simp only [List.length_append, List.length_cons] at this ⊢
        omega
      · exact hn x (List.mem_cons_of_mem _ hx')
    · next hb =>
      simp only [Option.map_eq_some_iff] at h
      obtain ⟨y, hy, rfl⟩ := h
      obtain ⟨pre, s, post, h1, h2, h3, _, h5⟩ := ih hy
      refine ⟨b ++ pre, s, post, by simp [h1], by simp [h2], h3, by simp, ?_⟩
      intro hf n hn x hx
      rcases List.mem_cons.1 hx with rfl | hx'
      · exact hn _ List.mem_cons_self
      · exact h5 hf n (fun z hz => hn z (List.mem_cons_of_mem _ hz)) x hx'

theorem Chain.modify_none {p : Slot → Bool} {f : Slot → List Slot} {c : Chain}
    (h : Chain.modify p f c = none) : ∀ x ∈ c.flatten, ¬ p x = true := by
  induction c with
  | nil => intro x hx; simp at hx
  | cons b bs ih =>
    simp only [Chain.modify] at h
    split at h
    · cases h
    · next hb =>
      simp only [Option.map_eq_none_iff] at h
      intro y hy
      simp only [List.flatten_cons, List.mem_append] at hy
      rcases hy with hy | hy
      · exact Bucket.modify_none hb y hy
      · exact ih h y hy

theorem Bucket.replace_eq (h : Nat) (m : Slot → Bool) (ns : Slot) (b : Bucket) :
    Bucket.replace h m ns b = Bucket.modify (fun s => decide (s.hash = h) && m s) (fun _ => [ns]) b := by
  induction b with
  | nil => rfl
  | cons x xs ih => simp only [Bucket.replace, Bucket.modify, ih]; rfl

theorem Chain.replace_eq (h : Nat) (m : Slot → Bool) (ns : Slot) (c : Chain) :
    Chain.replace h m ns c = Chain.modify (fun s => decide (s.hash = h) && m s) (fun _ => [ns]) c := by
  induction c with
  | nil => rfl
  | cons x xs ih => simp only [Chain.replace, Chain.modify, ih, Bucket.replace_eq]; cases Bucket.modify _ _ x <;> rfl

theorem Bucket.remove_eq (h : Nat) (m : Slot → Bool) (b : Bucket) :
    Bucket.remove h m b = Bucket.modify (fun s => decide (s.hash = h) && m s) (fun _ => []) b := by
  induction b with
  | nil => rfl
  | cons x xs ih => simp only [Bucket.remove, Bucket.modify, ih]; rfl

theorem Chain.remove_eq (h : Nat) (m : Slot → Bool) (c : Chain) :
    Chain.remove h m c = Chain.modify (fun s => decide (s.hash = h) && m s) (fun _ => []) c := by
  induction c with
  | nil => rfl
  | cons x xs ih => simp only [Chain.remove, Chain.modify, ih, Bucket.remove_eq]; cases Bucket.modify _ _ x <;> rfl

theorem Bucket.repoint_eq (h seg off seg' off' : Nat) (b : Bucket) :
    Bucket.repoint h seg off seg' off' b =
      Bucket.modify (fun s => decide (s.hash = h ∧ s.off = off ∧ s.seg = seg))
        (fun s => [{ s with seg := seg', off := off' }]) b := by
  induction b with
  | nil => rfl
  | cons x xs ih =>
    simp only [Bucket.repoint, Bucket.modify, ih, decide_eq_true_eq]; rfl

theorem Chain.repoint_eq (h seg off seg' off' : Nat) (c : Chain) :
    Chain.repoint h seg off seg' off' c =
      Chain.modify (fun s => decide (s.hash = h ∧ s.off = off ∧ s.seg = seg))
        (fun s => [{ s with seg := seg', off := off' }]) c := by
  induction c with
  | nil => rfl
  | cons x xs ih => simp only [Chain.repoint, Chain.modify, ih, Bucket.repoint_eq]; cases Bucket.modify _ _ x <;> rfl

/-! ### insertFree, rechunk -/

def Chain.Small (c : Chain) : Prop := c ≠ [] ∧ ∀ b ∈ c, b.length ≤ slotsPerBucket

theorem Chain.insertFree_perm (ns : Slot) (c : Chain) :
    (Chain.insertFree ns c).flatten.Perm (ns :: c.flatten) := by
  induction c with
  | nil => simp [Chain.insertFree]
  | cons b bs ih =>
    simp only [Chain.insertFree]
    split
    · simp only [List.flatten_cons, List.append_assoc, List.singleton_append]
      exact List.perm_middle
    · simp only [List.flatten_cons]
      exact (List.Perm.append_left b ih).trans List.perm_middle

theorem Chain.insertFree_small (ns : Slot) (c : Chain) (h : ∀ b ∈ c, b.length ≤ slotsPerBucket) :
    Chain.Small (Chain.insertFree ns c) := by
  induction c with
  | nil => simp [Chain.insertFree, Chain.Small, slotsPerBucket]
  | cons b bs ih =>
    simp only [Chain.insertFree]
    split
    · next hlt =>
      refine ⟨by simp, ?_⟩
      intro x hx
      rcases List.mem_cons.1 hx with rfl | hx'
      · simp only [List.length_append, List.length_cons, List.length_nil]; omega
      · exact h x (List.mem_cons_of_mem _ hx')
    · refine ⟨by simp, ?_⟩
      intro x hx
      rcases List.mem_cons.1 hx with rfl | hx'
      · exact h _ List.mem_cons_self
      · exact (ih (fun z hz => h z (List.mem_cons_of_mem _ hz))).2 x hx'

theorem foldl_insert_flatten (l : List Slot) (w : SlotWriter) :
    (l.foldl SlotWriter.insert w).chain.flatten = w.chain.flatten ++ l := by
  induction l generalizing w with
  | nil => simp
  | cons x xs ih =>
    simp only [List.foldl_cons, ih]
    simp only [SlotWriter.insert, SlotWriter.chain]
    split <;> simp

theorem foldl_insert_small (l : List Slot) (w : SlotWriter)
    (hd : ∀ b ∈ w.done, b.length ≤ slotsPerBucket) (hc : w.cur.length ≤ slotsPerBucket) :
    ∀ b ∈ (l.foldl SlotWriter.insert w).chain, b.length ≤ slotsPerBucket := by
  induction l generalizing w with
  | nil =>
    intro b hb
    simp only [List.foldl_nil, SlotWriter.chain, List.mem_append, List.mem_singleton] at hb
    rcases hb with hb | rfl
    · exact hd b hb
    · exact hc
  | cons x xs ih =>
    simp only [List.foldl_cons]
    apply ih
    · intro b hb
      simp only [SlotWriter.insert] at hb
      split at hb
      · simp only [List.mem_append, List.mem_singleton] at hb
        rcases hb with hb | rfl
        · exact hd b hb
        · exact hc
      · exact hd b hb
    · simp only [SlotWriter.insert]
      split
      · simp [slotsPerBucket]
      · next hne =>
        simp only [List.length_append, List.length_cons, List.length_nil]
        omega

theorem rechunk_flatten (l : List Slot) : (rechunk l).flatten = l := by
  rw [rechunk, foldl_insert_flatten]; simp [SlotWriter.chain]

theorem rechunk_small (l : List Slot) : Chain.Small (rechunk l) := by
  refine ⟨by simp [rechunk, SlotWriter.chain], ?_⟩
  exact foldl_insert_small l ⟨[], []⟩ (by simp) (by simp)

/-! ### Index-level structure -/

theorem chain_eq_getElem (idx : Index) {i : Nat} (h : i < idx.chains.length) :
    idx.chain i = idx.chains[i] := by
  simp [Index.chain, List.getD_eq_getElem?_getD, h]

theorem chain_mem (idx : Index) {i : Nat} (h : i < idx.chains.length) : idx.chain i ∈ idx.chains := by
  rw [chain_eq_getElem idx h]; exact List.getElem_mem h

theorem mem_slots (idx : Index) (sl : Slot) :
    sl ∈ idx.slots ↔ ∃ i, i < idx.chains.length ∧ sl ∈ (idx.chain i).flatten := by
  rw [Index.slots, List.mem_flatten]
  simp only [List.mem_map]
  constructor
  · rintro ⟨l, ⟨c, hc, rfl⟩, hsl⟩
    obtain ⟨i, hi, rfl⟩ := List.mem_iff_getElem.1 hc
    exact ⟨i, hi, by rw [chain_eq_getElem idx hi]; exact hsl⟩
  · rintro ⟨i, hi, hsl⟩
    rw [chain_eq_getElem idx hi] at hsl
    exact ⟨_, ⟨_, List.getElem_mem hi, rfl⟩, hsl⟩

theorem flat_set (cs : List Chain) (i : Nat) (h : i < cs.length) :
    ∃ R, ((cs.map List.flatten).flatten).Perm ((cs.getD i []).flatten ++ R) ∧
      ∀ c' : Chain, (((cs.set i c').map List.flatten).flatten).Perm (c'.flatten ++ R) := by
  induction cs generalizing i with
  | nil => simp at h
  | cons c cs ih =>
    cases i with
    | zero =>
      exact ⟨(cs.map List.flatten).flatten, by simp, fun c' => by simp⟩
    | succ j =>
      have hj : j < cs.length := by simpa using h
      obtain ⟨R, h1, h2⟩ := ih j hj
      refine ⟨c.flatten ++ R, ?_, fun c' => ?_⟩
      · simp only [List.map_cons, List.flatten_cons, List.getD_cons_succ]
        exact (List.Perm.append_left _ h1).trans (List.perm_append_comm_assoc _ _ _)
      · simp only [List.set_cons_succ, List.map_cons, List.flatten_cons]
        exact (List.Perm.append_left _ (h2 c')).trans (List.perm_append_comm_assoc _ _ _)

theorem chain_set (idx : Index) (i : Nat) (c' : Chain) (nk : Nat) (j : Nat) (hi : i < idx.chains.length) :
    ({ idx with chains := idx.chains.set i c', numKeys := nk } : Index).chain j =
      if j = i then c' else idx.chain j := by
  simp only [Index.chain, List.getD_eq_getElem?_getD, List.getElem?_set]
  by_cases hji : j = i
  · subst hji; simp [hi]
  · have : ¬ i = j := fun h => hji h.symm
    simp [this, hji]

/-! ### Linear-hashing arithmetic -/

theorem mod_two_pow_succ (h L : Nat) :
    h % 2 ^ (L + 1) = h % 2 ^ L ∨ h % 2 ^ (L + 1) = h % 2 ^ L + 2 ^ L := by
  rw [Nat.pow_succ, Nat.mod_mul]
  have : h / 2 ^ L % 2 = 0 ∨ h / 2 ^ L % 2 = 1 := by omega
  rcases this with h0 | h1
  · left; simp [h0]
  · right; simp [h1]

theorem bucketIdx_lt {L s : Nat} (hs : s < 2 ^ L) (h : Nat) : bucketIdx L s h < 2 ^ L + s := by
  have hb : h % 2 ^ L < 2 ^ L := Nat.mod_lt _ (Nat.pos_of_ne_zero (by intro h0; omega))
  have := mod_two_pow_succ h L
  simp only [bucketIdx]
  split <;> omega

def nextLevel (L s : Nat) : Nat := if s + 1 = 2 ^ L then L + 1 else L
def nextSplit (L s : Nat) : Nat := if s + 1 = 2 ^ L then 0 else s + 1

theorem bucketIdx_next_ne {L s : Nat} (hs : s < 2 ^ L) (h : Nat) (hne : bucketIdx L s h ≠ s) :
    bucketIdx (nextLevel L s) (nextSplit L s) h = bucketIdx L s h := by
  have hb : h % 2 ^ L < 2 ^ L := Nat.mod_lt _ (Nat.pos_of_ne_zero (by intro h0; omega))
  have h1 := mod_two_pow_succ h L
  simp only [nextLevel, nextSplit]
  split
  · next he =>
    simp only [bucketIdx, Nat.not_lt_zero, if_false] at hne ⊢
    split at hne <;> split <;> omega
  · next he =>
    simp only [bucketIdx] at hne ⊢
    split at hne <;> split <;> omega

theorem bucketIdx_next_eq {L s : Nat} (hs : s < 2 ^ L) (h : Nat) (he : bucketIdx L s h = s) :
    bucketIdx (nextLevel L s) (nextSplit L s) h = s ∨
    bucketIdx (nextLevel L s) (nextSplit L s) h = 2 ^ L + s := by
  have hb : h % 2 ^ L < 2 ^ L := Nat.mod_lt _ (Nat.pos_of_ne_zero (by intro h0; omega))
  have h1 := mod_two_pow_succ h L
  simp only [nextLevel, nextSplit]
  split
  · next he' =>
    simp only [bucketIdx, Nat.not_lt_zero, if_false] at he ⊢
    split at he <;> omega
  · next he' =>
    simp only [bucketIdx] at he ⊢
    split at he <;> split <;> omega

/-! ### Updating one chain -/

def Index.setChain (idx : Index) (i : Nat) (c' : Chain) (nk : Nat) : Index :=
  ⟨idx.level, idx.split, idx.chains.set i c', nk⟩

theorem setChain_chain (idx : Index) (i : Nat) (c' : Chain) (nk : Nat) (j : Nat)
    (hi : i < idx.chains.length) :
    (idx.setChain i c' nk).chain j = if j = i then c' else idx.chain j :=
  chain_set idx i c' nk j hi

theorem setChain_slots (idx : Index) (i : Nat) (hi : i < idx.chains.length) :
    ∃ R, idx.slots.Perm ((idx.chain i).flatten ++ R) ∧
      ∀ c' nk, (idx.setChain i c' nk).slots.Perm (c'.flatten ++ R) := by
  obtain ⟨R, h1, h2⟩ := flat_set idx.chains i hi
  exact ⟨R, h1, fun c' _ => h2 c'⟩

theorem Index.Inv.index_lt {kof : Slot → K} {hf : K → Nat} {idx : Index} (hinv : idx.Inv kof hf)
    (h : Nat) : idx.bucketIndex h < idx.chains.length := by
  rw [hinv.shape.1]; exact bucketIdx_lt hinv.shape.2 h

theorem Index.Inv.mem_chain {kof : Slot → K} {hf : K → Nat} {idx : Index} (hinv : idx.Inv kof hf)
    {sl : Slot} (hsl : sl ∈ idx.slots) : sl ∈ (idx.chain (idx.bucketIndex sl.hash)).flatten := by
  obtain ⟨j, hj, hm⟩ := (mem_slots idx sl).1 hsl
  rw [hinv.placed j hj sl hm]; exact hm

theorem inv_set {kof kof' : Slot → K} {hf : K → Nat} {idx : Index} (hinv : idx.Inv kof hf)
    {i : Nat} (hi : i < idx.chains.length) (c' : Chain) (nk : Nat)
    (hsm : Chain.Small c') (hpl : ∀ sl ∈ c'.flatten, idx.bucketIndex sl.hash = i)
    (hh : ∀ sl ∈ (idx.setChain i c' nk).slots, sl.hash = hf (kof' sl))
    (hnd : ((idx.setChain i c' nk).slots.map kof').Nodup)
    (hc : nk = (idx.setChain i c' nk).slots.length) :
    (idx.setChain i c' nk).Inv kof' hf where
  placed := by
    intro j hj sl hsl
    have hj' : j < idx.chains.length := by simpa [Index.setChain] using hj
    rw [setChain_chain idx i c' nk j hi] at hsl
    show idx.bucketIndex sl.hash = j
    split at hsl
    · next hji => rw [hji]; exact hpl sl hsl
    · exact hinv.placed j hj' sl hsl
  hashed := hh
  nodup := hnd
  count := hc
  shape := by
    have := hinv.shape
    simpa [Index.setChain] using this
  small := by
    intro c hc
    rcases List.mem_or_eq_of_mem_set hc with h | rfl
    · exact hinv.small c h
    · exact hsm

/-! ### Main theorems: empty, abs, get -/

theorem Index.inv_empty (kof : Slot → K) (hf : K → Nat) : Index.Inv kof hf Index.empty where
  placed := by
    intro i hi sl hsl
    have : i = 0 := by simpa [Index.empty] using hi
    subst this
    simp [Index.empty, Index.chain] at hsl
  hashed := by intro sl hsl; simp [Index.empty, Index.slots] at hsl
  nodup := by simp [Index.empty, Index.slots]
  count := by simp [Index.empty, Index.slots]
  shape := by simp [Index.empty]
  small := by
    intro c hc
    simp only [Index.empty, List.mem_singleton] at hc
    subst hc
    simp

theorem Index.abs_some_iff {kof : Slot → K} {hf : K → Nat} {idx : Index} (hinv : idx.Inv kof hf)
    (k : K) (sl : Slot) :
    idx.abs kof k = some sl ↔ (sl ∈ idx.slots ∧ kof sl = k) :=
  find_key_iff hinv.nodup k sl

/-- no slot of chain `bucketIndex (hf k)` matches ⇒ key absent -/
theorem Index.Inv.fresh {kof : Slot → K} {hf : K → Nat} {idx : Index} (hinv : idx.Inv kof hf) (k : K)
    (m : Slot → Bool) (hm : ∀ sl ∈ idx.slots, m sl = decide (kof sl = k))
    (hno : ∀ x ∈ (idx.chain (idx.bucketIndex (hf k))).flatten,
      ¬ (decide (x.hash = hf k) && m x) = true) :
    ∀ x ∈ idx.slots, kof x ≠ k := by
  intro x hx hk
  have hxh : x.hash = hf k := by rw [hinv.hashed x hx, hk]
  have hmem := hinv.mem_chain hx
  rw [hxh] at hmem
  apply hno x hmem
  simp [hxh, hm x hx, hk]

theorem Index.get_correct {kof : Slot → K} {hf : K → Nat} {idx : Index} (hinv : idx.Inv kof hf) (k : K)
    (m : Slot → Bool) (hm : ∀ sl ∈ idx.slots, m sl = decide (kof sl = k)) :
    idx.get (hf k) m = idx.abs kof k := by
  have hi := hinv.index_lt (hf k)
  have hsub : ∀ x ∈ (idx.chain (idx.bucketIndex (hf k))).flatten, x ∈ idx.slots :=
    fun x hx => (mem_slots idx x).2 ⟨_, hi, hx⟩
  apply Option.ext
  intro sl
  rw [Index.abs_some_iff hinv]
  simp only [Index.get, Chain.get]
  constructor
  · intro h
    have hmem := List.mem_of_find?_eq_some h
    have hp := List.find?_some h
    simp only [Bool.and_eq_true, decide_eq_true_eq] at hp
    have hs := hsub sl hmem
    rw [hm sl hs] at hp
    exact ⟨hs, by simpa using hp.2⟩
  · rintro ⟨hs, hk⟩
    cases hfd : List.find? (fun s => decide (s.hash = hf k) && m s)
        (idx.chain (idx.bucketIndex (hf k))).flatten with
    | none =>
      rw [List.find?_eq_none] at hfd
      exact absurd hk (hinv.fresh k m hm hfd sl hs)
    | some y =>
      have hmem := List.mem_of_find?_eq_some hfd
      have hp := List.find?_some hfd
      simp only [Bool.and_eq_true, decide_eq_true_eq] at hp
      have hys := hsub y hmem
      rw [hm y hys] at hp
      have hyk : kof y = k := by simpa using hp.2
      rw [key_inj hinv.nodup hys hs (hyk.trans hk.symm)]

/-! ### Split -/

def Index.stay (idx : Index) : List Slot :=
  (idx.chain idx.split).flatten.filter
    (fun sl => decide (bucketIdx (nextLevel idx.level idx.split) (nextSplit idx.level idx.split) sl.hash = idx.split))

def Index.move (idx : Index) : List Slot :=
  (idx.chain idx.split).flatten.filter
    (fun sl => !decide (bucketIdx (nextLevel idx.level idx.split) (nextSplit idx.level idx.split) sl.hash = idx.split))

theorem doSplit_eq (idx : Index) :
    idx.doSplit = ⟨nextLevel idx.level idx.split, nextSplit idx.level idx.split,
      idx.chains.set idx.split (rechunk idx.stay) ++ [rechunk idx.move], idx.numKeys⟩ := by
  by_cases h : idx.split + 1 = 2 ^ idx.level <;>
    simp [Index.doSplit, Index.stay, Index.move, nextLevel, nextSplit, h]

theorem doSplit_chain (idx : Index) (j : Nat) (hj : j < idx.chains.length) :
    idx.doSplit.chain j = if j = idx.split then rechunk idx.stay else idx.chain j := by
  rw [doSplit_eq]
  simp only [Index.chain, List.getD_eq_getElem?_getD, List.getElem?_append, List.length_set, hj,
    if_true, List.getElem?_set]
  by_cases hjs : j = idx.split
  · subst hjs; simp [hj]
  · have : ¬ idx.split = j := fun h => hjs h.symm
    simp [this, hjs]

theorem doSplit_chain_last (idx : Index) :
    idx.doSplit.chain idx.chains.length = rechunk idx.move := by
  rw [doSplit_eq]
  simp [Index.chain, List.getD_eq_getElem?_getD]

theorem doSplit_length (idx : Index) : idx.doSplit.chains.length = idx.chains.length + 1 := by
  rw [doSplit_eq]; simp

theorem doSplit_numKeys (idx : Index) : idx.doSplit.numKeys = idx.numKeys := by
  rw [doSplit_eq]

theorem doSplit_slots (idx : Index) (hs : idx.split < idx.chains.length) :
    idx.doSplit.slots.Perm idx.slots := by
  obtain ⟨R, h1, h2⟩ := flat_set idx.chains idx.split hs
  rw [doSplit_eq]
  simp only [Index.slots, List.map_append, List.flatten_append, List.map_cons, List.map_nil,
    List.flatten_cons, List.flatten_nil, List.append_nil, rechunk_flatten]
  refine ((h2 (rechunk idx.stay)).append_right _).trans ?_
  rw [rechunk_flatten]
  refine List.Perm.trans ?_ h1.symm
  have h3 : (idx.stay ++ idx.move).Perm (idx.chains.getD idx.split []).flatten :=
    List.filter_append_perm _ _
  refine List.Perm.trans ?_ (h3.append_right R)
  simp only [List.append_assoc]
  exact List.Perm.append_left _ List.perm_append_comm

theorem find_perm {kof : Slot → K} {l l' : List Slot} (hnd : (l.map kof).Nodup) (hp : l'.Perm l) (k : K) :
    l'.find? (fun x => decide (kof x = k)) = l.find? (fun x => decide (kof x = k)) := by
  have hnd' : (l'.map kof).Nodup := by rw [(hp.map kof).nodup_iff]; exact hnd
  apply Option.ext
  intro sl
  rw [find_key_iff hnd, find_key_iff hnd', hp.mem_iff]

theorem Index.split_correct {kof : Slot → K} {hf : K → Nat} {idx : Index} (hinv : idx.Inv kof hf) :
    idx.doSplit.Inv kof hf ∧ ∀ k, idx.doSplit.abs kof k = idx.abs kof k := by
  have hlen := hinv.shape.1
  have hslt := hinv.shape.2
  have hs : idx.split < idx.chains.length := by omega
  have hperm := doSplit_slots idx hs
  refine ⟨?_, fun k => find_perm hinv.nodup hperm k⟩
  refine ⟨?_, ?_, ?_, ?_, ?_, ?_⟩
  · -- placed
    intro j hj sl hsl
    rw [doSplit_length] at hj
    have hbi : idx.doSplit.bucketIndex sl.hash =
        bucketIdx (nextLevel idx.level idx.split) (nextSplit idx.level idx.split) sl.hash := by
      rw [doSplit_eq]; rfl
    rw [hbi]
    by_cases hjl : j < idx.chains.length
    · rw [doSplit_chain idx j hjl] at hsl
      split at hsl
      · next hjs =>
        rw [rechunk_flatten] at hsl
        simp only [Index.stay, List.mem_filter, decide_eq_true_eq] at hsl
        rw [hjs]; exact hsl.2
      · next hjs =>
        have := hinv.placed j hjl sl hsl
        simp only [Index.bucketIndex] at this
        rw [bucketIdx_next_ne hslt sl.hash (by omega)]; exact this
    · have hjeq : j = idx.chains.length := by omega
      subst hjeq
      rw [doSplit_chain_last, rechunk_flatten] at hsl
      simp only [Index.move, List.mem_filter, Bool.not_eq_true', decide_eq_false_iff_not] at hsl
      have := hinv.placed idx.split hs sl hsl.1
      simp only [Index.bucketIndex] at this
      rcases bucketIdx_next_eq hslt sl.hash this with h | h
      · exact absurd h hsl.2
      · rw [h, hlen]
  · -- hashed
    intro sl hsl
    exact hinv.hashed sl (hperm.mem_iff.1 hsl)
  · -- nodup
    rw [(hperm.map kof).nodup_iff]; exact hinv.nodup
  · -- count
    rw [doSplit_numKeys, hperm.length_eq]; exact hinv.count
  · -- shape
    rw [doSplit_length]
    have : idx.doSplit.level = nextLevel idx.level idx.split ∧
        idx.doSplit.split = nextSplit idx.level idx.split := by rw [doSplit_eq]; exact ⟨rfl, rfl⟩
    rw [this.1, this.2]
    simp only [nextLevel, nextSplit]
    split
    · next he => rw [Nat.pow_succ]; omega
    · next he => omega
  · -- small
    intro c hc
    rw [doSplit_eq] at hc
    simp only [List.mem_append, List.mem_singleton] at hc
    rcases hc with hc | rfl
    · rcases List.mem_or_eq_of_mem_set hc with h | rfl
      · exact hinv.small c h
      · exact rechunk_small _
    · exact rechunk_small _

/-- No invariant is needed for this one. -/
theorem split_moves' (idx : Index) : idx.MovesForward idx.doSplit (fun _ => True) := by
  refine ⟨by simp [Index.numBuckets, doSplit_length], ?_⟩
  intro i hi sl hsl _
  simp only [Index.numBuckets] at hi ⊢
  rw [doSplit_chain idx i hi, doSplit_chain_last, doSplit_length]
  by_cases his : i = idx.split
  · subst his
    simp only [if_true, rechunk_flatten, Index.stay, Index.move, List.mem_filter, hsl, true_and]
    by_cases hb : bucketIdx (nextLevel idx.level idx.split) (nextSplit idx.level idx.split) sl.hash = idx.split
    · left; simpa using hb
    · right; exact ⟨by omega, by simpa using hb⟩
  · left; simpa [his] using hsl

theorem Index.split_moves {kof : Slot → K} {hf : K → Nat} {idx : Index} (hinv : idx.Inv kof hf) :
    idx.MovesForward idx.doSplit (fun _ => True) :=
  have _ := hinv  -- not needed: `split_moves'` holds for every index
  split_moves' idx

/-! ### put -/

theorem put_found (policy : Nat → Nat → Bool) (idx : Index) (ns : Slot) (m : Slot → Bool) (c' : Chain)
    (h : Chain.replace ns.hash m ns (idx.chain (idx.bucketIndex ns.hash)) = some c') :
    idx.put policy ns m = idx.setChain (idx.bucketIndex ns.hash) c' idx.numKeys := by
  simp [Index.put, Chain.put, h, Index.setChain]

theorem put_notfound (policy : Nat → Nat → Bool) (idx : Index) (ns : Slot) (m : Slot → Bool)
    (h : Chain.replace ns.hash m ns (idx.chain (idx.bucketIndex ns.hash)) = none) :
    idx.put policy ns m =
      if policy (idx.numKeys + 1) idx.chains.length then
        (idx.setChain (idx.bucketIndex ns.hash)
          (Chain.insertFree ns (idx.chain (idx.bucketIndex ns.hash))) (idx.numKeys + 1)).doSplit
      else
        idx.setChain (idx.bucketIndex ns.hash)
          (Chain.insertFree ns (idx.chain (idx.bucketIndex ns.hash))) (idx.numKeys + 1) := by
  simp [Index.put, Chain.put, h, Index.setChain, Index.numBuckets]

theorem Index.put_correct (policy : Nat → Nat → Bool) {kof : Slot → K} {hf : K → Nat} {idx : Index}
    (hinv : idx.Inv kof hf) (k : K) (ns : Slot) (kof' : Slot → K)
    (hframe : ∀ sl ∈ idx.slots, kof' sl = kof sl) (hk : kof' ns = k) (hh : ns.hash = hf k)
    (m : Slot → Bool) (hm : ∀ sl ∈ idx.slots, m sl = decide (kof sl = k)) :
    (idx.put policy ns m).Inv kof' hf ∧
    (∀ k', (idx.put policy ns m).abs kof' k' = if k' = k then some ns else idx.abs kof k') ∧
    (idx.put policy ns m).numKeys = idx.numKeys + (if (idx.abs kof k).isSome then 0 else 1) := by
  have hi := hinv.index_lt ns.hash
  obtain ⟨R, hs, hs'⟩ := setChain_slots idx _ hi
  have hsub : ∀ x ∈ (idx.chain (idx.bucketIndex ns.hash)).flatten, x ∈ idx.slots :=
    fun x hx => (mem_slots idx x).2 ⟨_, hi, hx⟩
  have hcsmall := hinv.small _ (chain_mem idx hi)
  cases hrep : Chain.replace ns.hash m ns (idx.chain (idx.bucketIndex ns.hash)) with
  | some c' =>
    rw [put_found policy idx ns m c' hrep]
    rw [Chain.replace_eq] at hrep
    obtain ⟨pre, s, post, h1, h2, hp, hne, hsm⟩ := Chain.modify_some hrep
    simp only [Bool.and_eq_true, decide_eq_true_eq] at hp
    have hsmem : s ∈ idx.slots := hsub s (by rw [h1]; simp)
    have hks : kof s = k := by simpa [hm s hsmem] using hp.2
    have hl : idx.slots.Perm (s :: (pre ++ post ++ R)) := by
      refine hs.trans ?_
      rw [h1]
      simp
    have hl' : (idx.setChain (idx.bucketIndex ns.hash) c' idx.numKeys).slots.Perm
        (ns :: (pre ++ post ++ R)) := by
      refine (hs' c' _).trans ?_
      rw [h2]
      simp
    have hRsub : ∀ x ∈ pre ++ post ++ R, x ∈ idx.slots :=
      fun x hx => hl.mem_iff.2 (List.mem_cons_of_mem _ hx)
    obtain ⟨hnd', habs⟩ := replace_keys hl hl' hinv.nodup (fun x hx => hframe x (hRsub x hx))
      (hk.trans hks.symm)
    rw [hks] at habs
    refine ⟨?_, habs, ?_⟩
    · apply inv_set hinv hi c' idx.numKeys
      · exact ⟨hne, hsm (by simp) _ hcsmall.2⟩
      · intro sl hsl
        rw [h2] at hsl
        simp only [List.mem_append, List.mem_singleton] at hsl
        have hin : ∀ x ∈ (idx.chain (idx.bucketIndex ns.hash)).flatten,
            idx.bucketIndex x.hash = idx.bucketIndex ns.hash := hinv.placed _ hi
        rcases hsl with (hsl | rfl) | hsl
        · exact hin sl (by rw [h1]; simp [hsl])
        · rfl
        · exact hin sl (by rw [h1]; simp [hsl])
      · intro sl hsl
        rcases List.mem_cons.1 (hl'.mem_iff.1 hsl) with rfl | hsl'
        · rw [hk]; exact hh
        · rw [hframe sl (hRsub sl hsl')]; exact hinv.hashed sl (hRsub sl hsl')
      · exact hnd'
      · have e1 := hl'.length_eq
        have e2 := hl.length_eq
        have e3 := hinv.count
        simp only [List.length_cons] at e1 e2
        omega
    · have : idx.abs kof k = some s := (Index.abs_some_iff hinv k s).2 ⟨hsmem, hks⟩
      simp [this, Index.setChain]
  | none =>
    rw [put_notfound policy idx ns m hrep]
    rw [Chain.replace_eq] at hrep
    have hno := Chain.modify_none hrep
    have hfresh : ∀ x ∈ idx.slots, kof x ≠ k := by
      apply hinv.fresh k m hm
      rw [← hh]; exact hno
    have habsk : idx.abs kof k = none := by
      simp only [Index.abs, List.find?_eq_none, decide_eq_true_eq]; exact hfresh
    have hl' : (idx.setChain (idx.bucketIndex ns.hash)
        (Chain.insertFree ns (idx.chain (idx.bucketIndex ns.hash))) (idx.numKeys + 1)).slots.Perm
        (ns :: idx.slots) := by
      refine (hs' _ _).trans ?_
      refine ((Chain.insertFree_perm ns _).append_right R).trans ?_
      exact (List.Perm.cons ns hs.symm)
    obtain ⟨hnd', habs⟩ := insert_keys hl' hinv.nodup hframe hk hfresh
    have hinv2 : (idx.setChain (idx.bucketIndex ns.hash)
        (Chain.insertFree ns (idx.chain (idx.bucketIndex ns.hash))) (idx.numKeys + 1)).Inv kof' hf := by
      apply inv_set hinv hi
      · exact Chain.insertFree_small ns _ hcsmall.2
      · intro sl hsl
        rcases List.mem_cons.1 ((Chain.insertFree_perm ns _).mem_iff.1 hsl) with rfl | hsl'
        · rfl
        · exact hinv.placed _ hi sl hsl'
      · intro sl hsl
        rcases List.mem_cons.1 (hl'.mem_iff.1 hsl) with rfl | hsl'
        · rw [hk]; exact hh
        · rw [hframe sl hsl']; exact hinv.hashed sl hsl'
      · exact hnd'
      · have e1 := hl'.length_eq
        have e3 := hinv.count
        simp only [List.length_cons] at e1
        omega
    split
    · obtain ⟨hi3, ha3⟩ := Index.split_correct hinv2
      refine ⟨hi3, fun k' => (ha3 k').trans (habs k'), ?_⟩
      rw [doSplit_numKeys]; simp [habsk, Index.setChain]
    · exact ⟨hinv2, habs, by simp [habsk, Index.setChain]⟩

/-! ### delete -/

theorem Index.delete_correct {kof : Slot → K} {hf : K → Nat} {idx : Index} (hinv : idx.Inv kof hf) (k : K)
    (m : Slot → Bool) (hm : ∀ sl ∈ idx.slots, m sl = decide (kof sl = k)) :
    (idx.delete (hf k) m).Inv kof hf ∧
    (∀ k', (idx.delete (hf k) m).abs kof k' = if k' = k then none else idx.abs kof k') ∧
    (idx.delete (hf k) m).numKeys = idx.numKeys - (if (idx.abs kof k).isSome then 1 else 0) := by
  have hi := hinv.index_lt (hf k)
  obtain ⟨R, hs, hs'⟩ := setChain_slots idx _ hi
  have hsub : ∀ x ∈ (idx.chain (idx.bucketIndex (hf k))).flatten, x ∈ idx.slots :=
    fun x hx => (mem_slots idx x).2 ⟨_, hi, hx⟩
  have hcsmall := hinv.small _ (chain_mem idx hi)
  cases hrem : Chain.remove (hf k) m (idx.chain (idx.bucketIndex (hf k))) with
  | some c' =>
    have hdel : idx.delete (hf k) m = idx.setChain (idx.bucketIndex (hf k)) c' (idx.numKeys - 1) := by
      simp [Index.delete, hrem, Index.setChain]
    rw [hdel]
    rw [Chain.remove_eq] at hrem
    obtain ⟨pre, s, post, h1, h2, hp, hne, hsm⟩ := Chain.modify_some hrem
    simp only [Bool.and_eq_true, decide_eq_true_eq] at hp
    simp only [List.append_nil] at h2
    have hsmem : s ∈ idx.slots := hsub s (by rw [h1]; simp)
    have hks : kof s = k := by simpa [hm s hsmem] using hp.2
    have hl' : (idx.setChain (idx.bucketIndex (hf k)) c' (idx.numKeys - 1)).slots.Perm
        (pre ++ post ++ R) := by
      refine (hs' c' _).trans ?_
      rw [h2]
    have hl : idx.slots.Perm (s :: (idx.setChain (idx.bucketIndex (hf k)) c' (idx.numKeys - 1)).slots) := by
      refine hs.trans ?_
      rw [h1]
      refine List.Perm.trans ?_ (List.Perm.cons s hl'.symm)
      simp
    obtain ⟨hnd', habs⟩ := remove_keys hl hinv.nodup
    rw [hks] at habs
    have hsub' : ∀ x ∈ (idx.setChain (idx.bucketIndex (hf k)) c' (idx.numKeys - 1)).slots, x ∈ idx.slots :=
      fun x hx => hl.mem_iff.2 (List.mem_cons_of_mem _ hx)
    refine ⟨?_, habs, ?_⟩
    · apply inv_set hinv hi c' (idx.numKeys - 1)
      · exact ⟨hne, hsm (by simp) _ hcsmall.2⟩
      · intro sl hsl
        rw [h2] at hsl
        simp only [List.mem_append] at hsl
        apply hinv.placed _ hi sl
        rw [h1]
        rcases hsl with hsl | hsl <;> simp [hsl]
      · intro sl hsl
        exact hinv.hashed sl (hsub' sl hsl)
      · exact hnd'
      · have e2 := hl.length_eq
        have e3 := hinv.count
        simp only [List.length_cons] at e2
        omega
    · have : idx.abs kof k = some s := (Index.abs_some_iff hinv k s).2 ⟨hsmem, hks⟩
      simp [this, Index.setChain]
  | none =>
    have hdel : idx.delete (hf k) m = idx := by simp [Index.delete, hrem]
    rw [hdel]
    rw [Chain.remove_eq] at hrem
    have hno := Chain.modify_none hrem
    have hfresh : ∀ x ∈ idx.slots, kof x ≠ k := hinv.fresh k m hm hno
    have habsk : idx.abs kof k = none := by
      simp only [Index.abs, List.find?_eq_none, decide_eq_true_eq]; exact hfresh
    refine ⟨hinv, ?_, by simp [habsk]⟩
    intro k'
    by_cases hk' : k' = k
    · subst hk'; simp [habsk]
    · simp [hk']

/-! ### repoint -/

theorem Index.repoint_none {kof : Slot → K} {hf : K → Nat} {idx : Index} (hinv : idx.Inv kof hf)
    {h seg off seg' off' : Nat} (hr : idx.repoint h seg off seg' off' = none) :
    ∀ s ∈ idx.slots, ¬ (s.hash = h ∧ s.off = off ∧ s.seg = seg) := by
  simp only [Index.repoint, Option.map_eq_none_iff, Chain.repoint_eq] at hr
  have hno := Chain.modify_none hr
  intro s hs hp
  have hmem := hinv.mem_chain hs
  rw [hp.1] at hmem
  exact hno s hmem (by simpa using hp)

theorem Index.repoint_some {kof : Slot → K} {hf : K → Nat} {idx idx' : Index} (hinv : idx.Inv kof hf)
    {h seg off seg' off' : Nat} (hr : idx.repoint h seg off seg' off' = some idx') :
    ∃ s, s ∈ idx.slots ∧ s.hash = h ∧ s.off = off ∧ s.seg = seg ∧
      ∀ kof' : Slot → K,
        (∀ sl ∈ idx.slots, sl ≠ s → kof' sl = kof sl) →
        kof' { s with seg := seg', off := off' } = kof s →
        (∀ sl ∈ idx.slots, sl.seg = seg → sl.off = off → sl = s) →
        ({ s with seg := seg', off := off' } ∉ idx.slots ∨ { s with seg := seg', off := off' } = s) →
        idx'.Inv kof' hf ∧
        (∀ k, idx'.abs kof' k = if k = kof s then some { s with seg := seg', off := off' } else idx.abs kof k) ∧
        idx'.numKeys = idx.numKeys := by
  simp only [Index.repoint, Option.map_eq_some_iff, Chain.repoint_eq] at hr
  obtain ⟨c', hmod, rfl⟩ := hr
  have hi := hinv.index_lt h
  obtain ⟨R, hs, hs'⟩ := setChain_slots idx _ hi
  have hsub : ∀ x ∈ (idx.chain (idx.bucketIndex h)).flatten, x ∈ idx.slots :=
    fun x hx => (mem_slots idx x).2 ⟨_, hi, hx⟩
  have hcsmall := hinv.small _ (chain_mem idx hi)
  obtain ⟨pre, s, post, h1, h2, hp, hne, hsm⟩ := Chain.modify_some hmod
  simp only [decide_eq_true_eq] at hp
  have hsmem : s ∈ idx.slots := hsub s (by rw [h1]; simp)
  refine ⟨s, hsmem, hp.1, hp.2.1, hp.2.2, ?_⟩
  intro kof' hframe hk _ _
  have hl : idx.slots.Perm (s :: (pre ++ post ++ R)) := by
    refine hs.trans ?_
    rw [h1]
    simp
  have hl' : (idx.setChain (idx.bucketIndex h) c' idx.numKeys).slots.Perm
      ({ s with seg := seg', off := off' } :: (pre ++ post ++ R)) := by
    refine (hs' c' _).trans ?_
    rw [h2]
    simp
  have hRsub : ∀ x ∈ pre ++ post ++ R, x ∈ idx.slots :=
    fun x hx => hl.mem_iff.2 (List.mem_cons_of_mem _ hx)
  have hnd2 : ((s :: (pre ++ post ++ R)).map kof).Nodup := by
    rw [← (hl.map kof).nodup_iff]; exact hinv.nodup
  have hRne : ∀ x ∈ pre ++ post ++ R, x ≠ s := by
    intro x hx hxs
    subst hxs
    rw [List.map_cons, List.nodup_cons] at hnd2
    exact hnd2.1 (List.mem_map.2 ⟨x, hx, rfl⟩)
  have hR : ∀ x ∈ pre ++ post ++ R, kof' x = kof x :=
    fun x hx => hframe x (hRsub x hx) (hRne x hx)
  obtain ⟨hnd', habs⟩ := replace_keys hl hl' hinv.nodup hR hk
  refine ⟨?_, habs, rfl⟩
  apply inv_set hinv hi c' idx.numKeys
  · exact ⟨hne, hsm (by simp) _ hcsmall.2⟩
  · intro sl hsl
    rw [h2] at hsl
    simp only [List.mem_append, List.mem_singleton] at hsl
    have hin : ∀ x ∈ (idx.chain (idx.bucketIndex h)).flatten,
        idx.bucketIndex x.hash = idx.bucketIndex h := hinv.placed _ hi
    rcases hsl with (hsl | rfl) | hsl
    · exact hin sl (by rw [h1]; simp [hsl])
    · show idx.bucketIndex s.hash = idx.bucketIndex h
      rw [hp.1]
    · exact hin sl (by rw [h1]; simp [hsl])
  · intro sl hsl
    rcases List.mem_cons.1 (hl'.mem_iff.1 hsl) with rfl | hsl'
    · rw [hk]; exact hinv.hashed s hsmem
    · rw [hR sl hsl']; exact hinv.hashed sl (hRsub sl hsl')
  · exact hnd'
  · have e1 := hl'.length_eq
    have e2 := hl.length_eq
    have e3 := hinv.count
    simp only [List.length_cons] at e1 e2
    omega

/-! ### moves -/

theorem moves_trans {idx idx2 idx3 : Index} {keep : Slot → Prop}
    (hn : idx.numBuckets = idx2.numBuckets)
    (h12 : ∀ i, i < idx.numBuckets → ∀ sl ∈ (idx.chain i).flatten, keep sl → sl ∈ (idx2.chain i).flatten)
    (h23 : idx2.MovesForward idx3 (fun _ => True)) : idx.MovesForward idx3 keep := by
  refine ⟨hn ▸ h23.1, ?_⟩
  intro i hi sl hsl hk
  rw [hn]
  exact h23.2 i (hn ▸ hi) sl (h12 i hi sl hsl hk) trivial

theorem moves_same {idx idx2 : Index} {keep : Slot → Prop}
    (hn : idx.numBuckets = idx2.numBuckets)
    (h12 : ∀ i, i < idx.numBuckets → ∀ sl ∈ (idx.chain i).flatten, keep sl → sl ∈ (idx2.chain i).flatten) :
    idx.MovesForward idx2 keep :=
  ⟨Nat.le_of_eq hn, fun i hi sl hsl hk => Or.inl (h12 i hi sl hsl hk)⟩

theorem setChain_numBuckets (idx : Index) (i : Nat) (c' : Chain) (nk : Nat) :
    idx.numBuckets = (idx.setChain i c' nk).numBuckets := by
  simp [Index.numBuckets, Index.setChain]

/-- membership transfer for `setChain` -/
theorem setChain_keep (idx : Index) {i : Nat} (hi : i < idx.chains.length) (c' : Chain) (nk : Nat)
    (keep : Slot → Prop)
    (h : ∀ sl ∈ (idx.chain i).flatten, keep sl → sl ∈ c'.flatten) :
    ∀ j, j < idx.numBuckets → ∀ sl ∈ (idx.chain j).flatten, keep sl →
      sl ∈ ((idx.setChain i c' nk).chain j).flatten := by
  intro j _ sl hsl hk
  rw [setChain_chain idx i c' nk j hi]
  split
  · next hji => subst hji; exact h sl hsl hk
  · exact hsl

theorem Index.put_moves (policy : Nat → Nat → Bool) {kof : Slot → K} {hf : K → Nat} {idx : Index}
    (hinv : idx.Inv kof hf) (ns : Slot) (m : Slot → Bool) :
    idx.MovesForward (idx.put policy ns m) (fun sl => ¬ (sl.hash = ns.hash ∧ m sl = true)) := by
  have hi := hinv.index_lt ns.hash
  cases hrep : Chain.replace ns.hash m ns (idx.chain (idx.bucketIndex ns.hash)) with
  | some c' =>
    rw [put_found policy idx ns m c' hrep]
    rw [Chain.replace_eq] at hrep
    obtain ⟨pre, s, post, h1, h2, hp, _, _⟩ := Chain.modify_some hrep
    simp only [Bool.and_eq_true, decide_eq_true_eq] at hp
    apply moves_same (setChain_numBuckets _ _ _ _)
    apply setChain_keep idx hi
    intro sl hsl hk
    rw [h1] at hsl
    rw [h2]
    simp only [List.mem_append, List.mem_cons] at hsl ⊢
    rcases hsl with hsl | rfl | hsl
    · exact Or.inl (Or.inl hsl)
    · exact absurd hp hk
    · exact Or.inr hsl
  | none =>
    rw [put_notfound policy idx ns m hrep]
    have hkeep := setChain_keep idx hi (Chain.insertFree ns (idx.chain (idx.bucketIndex ns.hash)))
      (idx.numKeys + 1) (fun sl => ¬ (sl.hash = ns.hash ∧ m sl = true))
      (fun sl hsl _ => (Chain.insertFree_perm ns _).mem_iff.2 (List.mem_cons_of_mem _ hsl))
    split
    · exact moves_trans (setChain_numBuckets _ _ _ _) hkeep (split_moves' _)
    · exact moves_same (setChain_numBuckets _ _ _ _) hkeep

theorem Index.delete_moves {kof : Slot → K} {hf : K → Nat} {idx : Index}
    (hinv : idx.Inv kof hf) (h : Nat) (m : Slot → Bool) :
    idx.MovesForward (idx.delete h m) (fun sl => ¬ (sl.hash = h ∧ m sl = true)) := by
  have hi := hinv.index_lt h
  cases hrem : Chain.remove h m (idx.chain (idx.bucketIndex h)) with
  | some c' =>
    have hdel : idx.delete h m = idx.setChain (idx.bucketIndex h) c' (idx.numKeys - 1) := by
      simp [Index.delete, hrem, Index.setChain]
    rw [hdel]
    rw [Chain.remove_eq] at hrem
    obtain ⟨pre, s, post, h1, h2, hp, _, _⟩ := Chain.modify_some hrem
    simp only [Bool.and_eq_true, decide_eq_true_eq] at hp
    apply moves_same (setChain_numBuckets _ _ _ _)
    apply setChain_keep idx hi
    intro sl hsl hk
    rw [h1] at hsl
    rw [h2]
    simp only [List.mem_append, List.mem_cons, List.append_nil] at hsl ⊢
    rcases hsl with hsl | rfl | hsl
    · exact Or.inl hsl
    · exact absurd hp hk
    · exact Or.inr hsl
  | none =>
    have hdel : idx.delete h m = idx := by simp [Index.delete, hrem]
    rw [hdel]
    exact moves_same rfl (fun i _ sl hsl _ => hsl)

end Pogreb
