/-
  Lemmas for Props/M02: recovery on the executable model is replay of the valid record prefixes.
-/
import Pogreb.Props.M01
import Pogreb.SegFS
import Pogreb.Lemmas.SegFS
namespace Pogreb
namespace MState

/-! ### sortBySeq -/

/-- One insertion step of `sortBySeq`. -/
def insSeq (acc : List MSeg) (s : MSeg) : List MSeg :=
  acc.takeWhile (fun x => decide (x.seq ≤ s.seq)) ++ s :: acc.dropWhile (fun x => decide (x.seq ≤ s.seq))

theorem span_loop_eq {α} (p : α → Bool) : ∀ (l acc : List α),
    List.span.loop p l acc = (acc.reverse ++ l.takeWhile p, l.dropWhile p)
  | [], acc => by simp [List.span.loop]
  | a :: l, acc => by
    cases h : p a
    · simp [List.span.loop, h]
    · simp [List.span.loop, h, span_loop_eq p l (a :: acc)]

theorem span_eq' {α} (p : α → Bool) (l : List α) : l.span p = (l.takeWhile p, l.dropWhile p) := by
  unfold List.span
  rw [span_loop_eq]; rfl

theorem sortBySeq_eq (segs : List MSeg) : sortBySeq segs = segs.foldl insSeq [] := by
  unfold sortBySeq
  congr
  funext acc s
  simp [insSeq, span_eq']

theorem insSeq_nil (s : MSeg) : insSeq [] s = [s] := rfl

theorem insSeq_cons (x : MSeg) (xs : List MSeg) (s : MSeg) :
    insSeq (x :: xs) s = if x.seq ≤ s.seq then x :: insSeq xs s else s :: x :: xs := by
  unfold insSeq
  by_cases h : x.seq ≤ s.seq
  · simp [h]
  · simp [h]

theorem insSeq_perm (acc : List MSeg) (s : MSeg) : (insSeq acc s).Perm (s :: acc) := by
  unfold insSeq
  refine List.perm_middle.trans ?_
  rw [List.takeWhile_append_dropWhile]

theorem insSeq_sorted (acc : List MSeg) (s : MSeg) (h : acc.Pairwise (fun a b => a.seq ≤ b.seq)) :
    (insSeq acc s).Pairwise (fun a b => a.seq ≤ b.seq) := by
  induction acc with
  | nil => simp [insSeq_nil]
  | cons x xs ih =>
    rw [List.pairwise_cons] at h
    rw [insSeq_cons]
    split
    · rename_i hle
      rw [List.pairwise_cons]
      refine ⟨?_, ih h.2⟩
      intro y hy
      rcases List.mem_cons.1 ((insSeq_perm xs s).mem_iff.1 hy) with rfl | hy'
      · exact hle
      · exact h.1 y hy'
    · rename_i hlt
      rw [List.pairwise_cons, List.pairwise_cons]
      refine ⟨?_, h⟩
      intro y hy
      rcases List.mem_cons.1 hy with rfl | hy'
      · omega
      · have := h.1 y hy'; omega

theorem foldl_insSeq_perm (segs : List MSeg) : ∀ acc, (segs.foldl insSeq acc).Perm (acc ++ segs) := by
  induction segs with
  | nil => intro acc; simp
  | cons s rest ih =>
    intro acc
    rw [List.foldl_cons]
    refine (ih _).trans ?_
    refine ((insSeq_perm acc s).append_right rest).trans ?_
    exact List.perm_middle.symm

theorem foldl_insSeq_sorted (segs : List MSeg) : ∀ acc, acc.Pairwise (fun a b => a.seq ≤ b.seq) →
    (segs.foldl insSeq acc).Pairwise (fun a b => a.seq ≤ b.seq) := by
  induction segs with
  | nil => intro acc h; exact h
  | cons s rest ih => intro acc h; exact ih _ (insSeq_sorted acc s h)

theorem sortBySeq_perm (segs : List MSeg) : (sortBySeq segs).Perm segs := by
  rw [sortBySeq_eq]; simpa using foldl_insSeq_perm segs []

theorem sortBySeq_sorted (segs : List MSeg) : (sortBySeq segs).Pairwise (fun a b => a.seq ≤ b.seq) := by
  rw [sortBySeq_eq]; exact foldl_insSeq_sorted segs [] List.Pairwise.nil

theorem insSeq_map (f : MSeg → MSeg) (hf : ∀ x, (f x).seq = x.seq) (acc : List MSeg) (s : MSeg) :
    insSeq (acc.map f) (f s) = (insSeq acc s).map f := by
  induction acc with
  | nil => rfl
  | cons x xs ih =>
    rw [List.map_cons, insSeq_cons, insSeq_cons, hf, hf]
    split
    · rw [List.map_cons, ih]
    · rfl

theorem foldl_insSeq_map (f : MSeg → MSeg) (hf : ∀ x, (f x).seq = x.seq) (segs : List MSeg) :
    ∀ acc, (segs.map f).foldl insSeq (acc.map f) = (segs.foldl insSeq acc).map f := by
  induction segs with
  | nil => intro acc; rfl
  | cons s rest ih =>
    intro acc
    rw [List.map_cons, List.foldl_cons, List.foldl_cons, insSeq_map f hf, ih]

theorem sortBySeq_map (f : MSeg → MSeg) (hf : ∀ x, (f x).seq = x.seq) (segs : List MSeg) :
    sortBySeq (segs.map f) = (sortBySeq segs).map f := by
  rw [sortBySeq_eq, sortBySeq_eq]
  exact foldl_insSeq_map f hf segs []

/-! ### states that agree on the segments the index points at -/

theorem reads_congr {st st' : MState} {sl : Slot} (h : st'.segData sl.seg = st.segData sl.seg) :
    st'.readKey sl = st.readKey sl ∧ st'.readVal sl = st.readVal sl := by
  unfold readKey readVal
  simp only [readAt_eq, h]
  exact ⟨trivial, trivial⟩

theorem wf_congr {st st' : MState} (hwf : st.WF) (hids : (st'.segs.map (·.id)).Nodup)
    (hidx : st'.idx = st.idx) (hseed : st'.seed = st.seed)
    (hd : ∀ sl ∈ st.idx.slots, st'.segData sl.seg = st.segData sl.seg) :
    st'.WF ∧ ∀ k, st'.get k = st.get k := by
  have hreads : ∀ sl ∈ st.idx.slots, st'.readKey sl = st.readKey sl ∧ st'.readVal sl = st.readVal sl :=
    fun sl hsl => reads_congr (hd sl hsl)
  have hkof : ∀ sl ∈ st.idx.slots, st'.kof sl = st.kof sl := by
    intro sl hsl; unfold kof; rw [(hreads sl hsl).1]
  have hwf' : st'.WF := by
    refine ⟨hids, ?_, ?_, ?_, Or.inr trivial⟩
    · rw [hidx, hseed]; exact inv_congr hkof hwf.inv
    · intro sl hsl
      rw [hidx] at hsl
      obtain ⟨d, h1, h2⟩ := hwf.pts hsl
      exact points_of_pts ⟨d, by rw [hd sl hsl]; exact h1, h2⟩
    · rw [hidx]; exact hwf.locs
  refine ⟨hwf', ?_⟩
  intro k
  rw [get_eq hwf', get_eq hwf, hidx, abs_congr hkof]
  cases ha : st.idx.abs st.kof k with
  | none => rfl
  | some sl =>
    have hsl := ((Index.abs_some_iff hwf.inv k sl).1 ha).1
    exact (hreads sl hsl).2

/-! ### index-only put / delete: which slots remain -/

theorem put_idx_slots {st1 : MState} (hwf : st1.WF) (k : Bytes) (ns : Slot)
    (hkey : st1.readKey ns = some k) (hh : ns.hash = st1.hashOf k) :
    ∀ sl ∈ (st1.idx.put loadPolicy ns (st1.matchKey k)).slots, sl ∈ st1.idx.slots ∨ sl = ns := by
  have hkof : st1.kof ns = k := by unfold kof; rw [hkey]; rfl
  obtain ⟨hinv2, habs2, _⟩ := Index.put_correct loadPolicy hwf.inv k ns st1.kof (fun _ _ => rfl) hkof hh
    (st1.matchKey k) (matchKey_spec hwf k)
  intro sl hsl
  have h := (Index.abs_some_iff hinv2 (st1.kof sl) sl).2 ⟨hsl, rfl⟩
  rw [habs2] at h
  split at h
  · right; exact (Option.some.inj h).symm
  · left; exact ((Index.abs_some_iff hwf.inv _ sl).1 h).1

theorem delete_idx_slots {st1 : MState} (hwf : st1.WF) (k : Bytes) :
    ∀ sl ∈ (st1.idx.delete (st1.hashOf k) (st1.matchKey k)).slots, sl ∈ st1.idx.slots := by
  obtain ⟨hinv3, habs3, _⟩ := Index.delete_correct hwf.inv k (st1.matchKey k) (matchKey_spec hwf k)
  intro sl hsl
  have h := (Index.abs_some_iff hinv3 (st1.kof sl) sl).2 ⟨hsl, rfl⟩
  rw [habs3] at h
  split at h
  · cases h
  · exact ((Index.abs_some_iff hwf.inv _ sl).1 h).1

/-! ### one replay step -/

def replayStep (sid : Nat) (st : MState) (p : Nat × Rec) : MState :=
  if p.2.del then
    { st with idx := st.idx.delete (st.hashOf p.2.key) (st.matchKey p.2.key) }
  else
    { st with idx := st.idx.put loadPolicy ⟨st.hashOf p.2.key, sid, p.2.key.length % 65536, p.2.val.length % 4294967296, p.1⟩ (st.matchKey p.2.key) }

theorem replaySeg_eq (st : MState) (s : MSeg) :
    st.replaySeg s = (recsWithOffsets s.data).foldl (replayStep s.id) st := by
  unfold replaySeg
  congr

theorem replayStep_segs (sid : Nat) (st : MState) (p : Nat × Rec) : (replayStep sid st p).segs = st.segs := by
  unfold replayStep; split <;> rfl

theorem replayStep_spec {st : MState} (hwf : st.WF) (sid : Nat) (pre : Bytes) (r : Rec) (x : Bytes)
    (hd : st.segData sid = some (pre ++ r.encode ++ x)) (hf : r.Fits)
    (hfresh : ∀ a ∈ st.idx.slots, a.seg = sid → a.off < headerSize + pre.length) :
    (replayStep sid st (headerSize + pre.length, r)).WF ∧
    (∀ L : List E, st.abs = contents L →
      (replayStep sid st (headerSize + pre.length, r)).abs = contents (L ++ [r.toEnt])) ∧
    ∀ a ∈ (replayStep sid st (headerSize + pre.length, r)).idx.slots,
      a ∈ st.idx.slots ∨ (a.seg = sid ∧ a.off = headerSize + pre.length) := by
  have hH := hH
  obtain ⟨hfk, hfv⟩ := hf
  unfold replayStep
  cases hdel : r.del with
  | true =>
    simp only [if_true]
    obtain ⟨hwf3, hget3⟩ := delete_idx_wf hwf r.key
    refine ⟨hwf3, ?_, ?_⟩
    · intro L hL
      have : r.toEnt = ⟨r.key, none⟩ := by simp [Rec.toEnt, hdel]
      rw [this, contents_del, ← hL]
      funext k'
      unfold MState.abs KV.del
      exact hget3 k'
    · intro a ha
      exact Or.inl (delete_idx_slots hwf r.key a ha)
  | false =>
    simp only [Bool.false_eq_true, if_false]
    have hkl : r.key.length % 65536 = r.key.length := Nat.mod_eq_of_lt (by omega)
    have hvl : r.val.length % 4294967296 = r.val.length := Nat.mod_eq_of_lt (by omega)
    rw [hkl, hvl]
    have hptd : st.PtD ⟨st.hashOf r.key, sid, r.key.length, r.val.length, headerSize + pre.length⟩
        (pre ++ r.encode ++ x) := by
      refine ⟨hd, ?_, ?_, ?_⟩
      · dsimp only; omega
      · dsimp only; rw [List.length_append, List.length_append, Rec.encode_length]; omega
      · dsimp only; omega
    have hrb := read_back pre r
    have hrk : st.readKey ⟨st.hashOf r.key, sid, r.key.length, r.val.length, headerSize + pre.length⟩
        = some r.key := by
      rw [(reads_of_ptd hptd).1]
      dsimp only
      have : headerSize + pre.length + 6 - headerSize = pre.length + 6 := by omega
      rw [this, take_drop_append_left _ _ _ _ (by rw [List.length_append, Rec.encode_length]; omega), hrb.1]
    have hrv : st.readVal ⟨st.hashOf r.key, sid, r.key.length, r.val.length, headerSize + pre.length⟩
        = some r.val := by
      rw [(reads_of_ptd hptd).2]
      dsimp only
      have : headerSize + pre.length + 6 + r.key.length - headerSize = pre.length + 6 + r.key.length := by omega
      rw [this, take_drop_append_left _ _ _ _ (by rw [List.length_append, Rec.encode_length]; omega), hrb.2]
    have hfresh' : ∀ a ∈ st.idx.slots, a.seg = sid → a.off ≠ headerSize + pre.length := by
      intro a ha hs; have := hfresh a ha hs; omega
    obtain ⟨hwf2, hget2⟩ := put_idx_wf hwf r.key
      ⟨st.hashOf r.key, sid, r.key.length, r.val.length, headerSize + pre.length⟩ ⟨_, hptd⟩ hfresh' hrk rfl
    refine ⟨hwf2, ?_, ?_⟩
    · intro L hL
      have : r.toEnt = ⟨r.key, some r.val⟩ := by simp [Rec.toEnt, hdel]
      rw [this, contents_put, ← hL]
      funext k'
      unfold MState.abs KV.put
      dsimp only
      rw [hget2 k', hrv]
    · intro a ha
      rcases put_idx_slots hwf r.key _ hrk rfl a ha with h | h
      · exact Or.inl h
      · right; rw [h]; exact ⟨rfl, rfl⟩

theorem segData_of_segs {st st' : MState} (h : st'.segs = st.segs) (id : Nat) :
    st'.segData id = st.segData id := by
  unfold segData seg?; rw [h]

theorem go_cons (off : Nat) (r : Rec) (rest : List Rec) :
    recsWithOffsets.go off (r :: rest) = (off, r) :: recsWithOffsets.go (off + r.encode.length) rest := rfl

/-- Replaying the records of one (clean) segment. -/
theorem replay_go (sid : Nat) (D : List Nat) (rs : List Rec) :
    ∀ (st : MState) (pre : Bytes) (L : List E), st.WF →
      st.segData sid = some (pre ++ encodeAll rs) → (∀ r ∈ rs, r.Fits) →
      (∀ a ∈ st.idx.slots, a.seg = sid → a.off < headerSize + pre.length) →
      (∀ a ∈ st.idx.slots, a.seg ∈ D ∨ a.seg = sid) →
      st.abs = contents L →
      ((recsWithOffsets.go (headerSize + pre.length) rs).foldl (replayStep sid) st).WF ∧
      ((recsWithOffsets.go (headerSize + pre.length) rs).foldl (replayStep sid) st).segs = st.segs ∧
      ((recsWithOffsets.go (headerSize + pre.length) rs).foldl (replayStep sid) st).abs =
        contents (L ++ rs.map Rec.toEnt) ∧
      ∀ a ∈ ((recsWithOffsets.go (headerSize + pre.length) rs).foldl (replayStep sid) st).idx.slots,
        a.seg ∈ D ∨ a.seg = sid := by
  induction rs with
  | nil =>
    intro st pre L hwf _ _ _ hD hL
    refine ⟨hwf, rfl, ?_, hD⟩
    simpa [recsWithOffsets.go] using hL
  | cons r rest ih =>
    intro st pre L hwf hd hf hfresh hD hL
    have hd' : st.segData sid = some (pre ++ r.encode ++ encodeAll rest) := by
      rw [hd]; simp [encodeAll]
    obtain ⟨hwf1, habs1, hsl1⟩ := replayStep_spec hwf sid pre r (encodeAll rest) hd'
      (hf r List.mem_cons_self) hfresh
    have hsegs1 := replayStep_segs sid st (headerSize + pre.length, r)
    have hlen : headerSize + pre.length + r.encode.length = headerSize + (pre ++ r.encode).length := by
      rw [List.length_append]; omega
    rw [go_cons, List.foldl_cons, hlen]
    have hd1 : (replayStep sid st (headerSize + pre.length, r)).segData sid =
        some (pre ++ r.encode ++ encodeAll rest) := by
      rw [segData_of_segs hsegs1]; exact hd'
    obtain ⟨h1, h2, h3, h4⟩ := ih (replayStep sid st (headerSize + pre.length, r)) (pre ++ r.encode)
      (L ++ [r.toEnt]) hwf1 hd1 (fun r' h => hf r' (List.mem_cons_of_mem _ h))
      (by
        intro a ha hs
        rw [List.length_append, Rec.encode_length]
        rcases hsl1 a ha with h | ⟨_, h⟩
        · have := hfresh a h hs; omega
        · omega)
      (by
        intro a ha
        rcases hsl1 a ha with h | ⟨h, _⟩
        · exact hD a h
        · exact Or.inr h)
      (habs1 L hL)
    refine ⟨h1, h2.trans hsegs1, ?_, h4⟩
    rw [h3]; simp

/-! ### one recovery step: truncate the segment, replay it -/

def truncSeg (s : MSeg) : MSeg := { s with data := s.data.take (scan s.data).2 }

@[simp] theorem truncSeg_id (s : MSeg) : (truncSeg s).id = s.id := rfl
@[simp] theorem truncSeg_seq (s : MSeg) : (truncSeg s).seq = s.seq := rfl

def recoverStep (st : MState) (s : MSeg) : MState :=
  (match st.seg? s.id with
    | some cur => st.setSeg { cur with data := s.data.take (scan s.data).2 }
    | none => st).replaySeg (truncSeg s)

theorem recsWithOffsets_clean (rs : List Rec) (hf : ∀ r ∈ rs, r.Fits) :
    recsWithOffsets (encodeAll rs) = recsWithOffsets.go headerSize rs := by
  unfold recsWithOffsets
  rw [scan_encodeAll' rs hf]

theorem recoverStep_spec {st : MState} (hwf : st.WF) (s : MSeg) (hs : s ∈ st.segs) (D : List Nat)
    (hsD : s.id ∉ D) (hD : ∀ a ∈ st.idx.slots, a.seg ∈ D) (L : List E) (hL : st.abs = contents L) :
    (recoverStep st s).WF ∧
    (recoverStep st s).segs = st.segs.map (fun x => if x.id = s.id then truncSeg x else x) ∧
    (recoverStep st s).abs = contents (L ++ (scan s.data).1.map Rec.toEnt) ∧
    ∀ a ∈ (recoverStep st s).idx.slots, a.seg ∈ s.id :: D := by
  have hseg : st.seg? s.id = some s := seg?_of_mem hwf.ids hs
  have hstep : recoverStep st s = (st.setSeg (truncSeg s)).replaySeg (truncSeg s) := by
    unfold recoverStep; rw [hseg]; rfl
  have hsd : st.segData s.id = some s.data := by unfold segData; rw [hseg]; rfl
  have hd1 : ∀ id, id ≠ s.id → (st.setSeg (truncSeg s)).segData id = st.segData id := by
    intro id hne
    rw [segData_setSeg, if_neg (fun e : (truncSeg s).id = id => hne e.symm)]
  obtain ⟨hwf1, hget1⟩ := wf_congr (st' := st.setSeg (truncSeg s)) hwf
    (by rw [setSeg_ids]; exact hwf.ids) rfl rfl
    (by
      intro sl hsl
      apply hd1
      intro e
      exact hsD (e ▸ hD sl hsl))
  have habs1 : (st.setSeg (truncSeg s)).abs = contents L := by
    rw [← hL]; funext k; exact hget1 k
  have hdata : (truncSeg s).data = encodeAll (scan s.data).1 := (scan_prefix s.data).symm
  have hsd1 : (st.setSeg (truncSeg s)).segData s.id = some ([] ++ encodeAll (scan s.data).1) := by
    rw [segData_setSeg, truncSeg_id, if_pos rfl, hsd, List.nil_append, ← hdata]; rfl
  have hgo := replay_go s.id D (scan s.data).1 (st.setSeg (truncSeg s)) [] L hwf1 hsd1
    (scan_fits s.data)
    (by
      intro a ha hs'
      exact absurd (hs' ▸ hD a ha) hsD)
    (fun a ha => Or.inl (hD a ha)) habs1
  have hrep : (st.setSeg (truncSeg s)).replaySeg (truncSeg s) =
      (recsWithOffsets.go (headerSize + ([] : Bytes).length) (scan s.data).1).foldl (replayStep s.id)
        (st.setSeg (truncSeg s)) := by
    rw [replaySeg_eq, hdata, recsWithOffsets_clean _ (scan_fits s.data)]; rfl
  rw [hstep, hrep]
  obtain ⟨h1, h2, h3, h4⟩ := hgo
  refine ⟨h1, ?_, h3, ?_⟩
  · rw [h2]
    show st.segs.map (fun x => if x.id == (truncSeg s).id then truncSeg s else x) = _
    apply List.map_congr_left
    intro x hx
    by_cases he : x.id = s.id
    · have hxs : x = s := by
        have h := seg?_of_mem hwf.ids hx
        rw [he, hseg] at h
        exact (Option.some.inj h).symm
      have hb : (x.id == (truncSeg s).id) = true := by rw [truncSeg_id]; simpa using he
      rw [if_pos hb, if_pos he, hxs]
    · have hb : ¬ (x.id == (truncSeg s).id) = true := by rw [truncSeg_id]; simpa using he
      rw [if_neg hb, if_neg he]
  · intro a ha
    rcases h4 a ha with h | h
    · exact List.mem_cons_of_mem _ h
    · rw [h]; exact List.mem_cons_self

theorem recover_fold : ∀ (todo : List MSeg) (st : MState) (D : List Nat) (L : List E), st.WF →
    (∀ s ∈ todo, s ∈ st.segs) → (todo.map (·.id)).Nodup → (∀ s ∈ todo, s.id ∉ D) →
    (∀ a ∈ st.idx.slots, a.seg ∈ D) → st.abs = contents L →
    (todo.foldl recoverStep st).WF ∧
    (todo.foldl recoverStep st).abs =
      contents (L ++ todo.flatMap (fun s => (scan s.data).1.map Rec.toEnt)) ∧
    (todo.foldl recoverStep st).segs =
      st.segs.map (fun x => if x.id ∈ todo.map (·.id) then truncSeg x else x) := by
  intro todo
  induction todo with
  | nil =>
    intro st D L hwf _ _ _ _ hL
    refine ⟨hwf, by simpa using hL, ?_⟩
    simp
  | cons s rest ih =>
    intro st D L hwf hmem hnd hnD hD hL
    rw [List.map_cons, List.nodup_cons] at hnd
    obtain ⟨h1, h2, h3, h4⟩ := recoverStep_spec hwf s (hmem s List.mem_cons_self) D
      (hnD s List.mem_cons_self) hD L hL
    have hne : ∀ t ∈ rest, t.id ≠ s.id := by
      intro t ht e
      exact hnd.1 (e ▸ List.mem_map.2 ⟨t, ht, rfl⟩)
    rw [List.foldl_cons]
    obtain ⟨g1, g2, g3⟩ := ih (recoverStep st s) (s.id :: D) (L ++ (scan s.data).1.map Rec.toEnt) h1
      (by
        intro t ht
        rw [h2]
        refine List.mem_map.2 ⟨t, hmem t (List.mem_cons_of_mem _ ht), ?_⟩
        rw [if_neg (hne t ht)])
      hnd.2
      (by
        intro t ht hin
        rcases List.mem_cons.1 hin with e | e
        · exact hne t ht e
        · exact hnD t (List.mem_cons_of_mem _ ht) e)
      h4 h3
    refine ⟨g1, ?_, ?_⟩
    · rw [g2, List.flatMap_cons, List.append_assoc]
    · rw [g3, h2, List.map_map]
      apply List.map_congr_left
      intro x _
      simp only [Function.comp, List.map_cons]
      by_cases he : x.id = s.id
      · rw [if_pos he]
        have hnot : ¬ (truncSeg x).id ∈ rest.map (·.id) := by
          show ¬ x.id ∈ _
          rw [he]; exact hnd.1
        rw [if_neg hnot, if_pos (by rw [he]; exact List.mem_cons_self)]
      · rw [if_neg he]
        by_cases hr : x.id ∈ rest.map (·.id)
        · rw [if_pos hr, if_pos (List.mem_cons_of_mem _ hr)]
        · rw [if_neg hr, if_neg (by
            intro h
            rcases List.mem_cons.1 h with e | e
            · exact he e
            · exact hr e)]

/-! ### the whole of `reopenRecover` -/

def clearSeg (s : MSeg) : MSeg := { s with full := false }

def recoverPre (st : MState) (seed : UInt32) : MState :=
  { st with segs := st.segs.map fun s => { s with full := false },
            maxSeq := (st.segs.map fun s => { s with full := false }).foldl (fun m s => max m s.seq) 0,
            cur := none, idx := Index.empty, seed := seed }

def sealSeg (newest : Option Nat) (s : MSeg) : MSeg :=
  if some s.id == newest then s else { s with full := true }

def sealAll (st : MState) (newest : Option Nat) : MState :=
  { st with segs := st.segs.map (sealSeg newest) }

/-- The state recovery starts replaying from. -/
def recover0 (st : MState) (seed : UInt32) : MState := (recoverPre st seed).swapSegment

theorem reopenRecover_eq (st : MState) (seed : UInt32) :
    st.reopenRecover seed =
      (sealAll ((sortBySeq (recover0 st seed).segs).foldl recoverStep (recover0 st seed))
        ((sortBySeq (recover0 st seed).segs).getLast?.map (·.id))).swapSegment := rfl

@[simp] theorem sealSeg_id (n : Option Nat) (s : MSeg) : (sealSeg n s).id = s.id := by
  unfold sealSeg; split <;> rfl
@[simp] theorem sealSeg_seq (n : Option Nat) (s : MSeg) : (sealSeg n s).seq = s.seq := by
  unfold sealSeg; split <;> rfl
@[simp] theorem sealSeg_data (n : Option Nat) (s : MSeg) : (sealSeg n s).data = s.data := by
  unfold sealSeg; split <;> rfl

theorem find_map_id (f : MSeg → MSeg) (hf : ∀ x, (f x).id = x.id) (segs : List MSeg) (id : Nat) :
    (segs.map f).find? (·.id == id) = (segs.find? (·.id == id)).map f := by
  induction segs with
  | nil => rfl
  | cons x xs ih =>
    simp only [List.map_cons, List.find?_cons, hf]
    cases (x.id == id)
    · simpa using ih
    · rfl

theorem recover0_segs (st : MState) (seed : UInt32) :
    (st.segs = [] ∧ ∃ e : MSeg, e.data = [] ∧ e.full = false ∧ (recover0 st seed).segs = [e]) ∨
    (st.segs ≠ [] ∧ (recover0 st seed).segs = st.segs.map clearSeg) := by
  cases h : st.segs with
  | nil =>
    left
    refine ⟨rfl, ⟨freeId [] 1 0, 0 + 1, [], false⟩, rfl, rfl, ?_⟩
    unfold recover0 swapSegment recoverPre
    simp [h, insertSeg]
  | cons x xs =>
    right
    refine ⟨by simp, ?_⟩
    unfold recover0 swapSegment recoverPre
    simp [h, clearSeg]

theorem recover0_wf (st : MState) (hids : (st.segs.map (·.id)).Nodup) (seed : UInt32) :
    (recover0 st seed).WF ∧ (recover0 st seed).abs = contents [] ∧ (recover0 st seed).idx.slots = [] := by
  have hidx : (recover0 st seed).idx = Index.empty := by unfold recover0; rw [swap_idx]; rfl
  have hslots : (recover0 st seed).idx.slots = [] := by rw [hidx]; rfl
  have hwf : (recover0 st seed).WF := by
    refine ⟨?_, ?_, ?_, ?_, Or.inr trivial⟩
    · unfold recover0
      apply swap_ids
      show ((st.segs.map fun s => ({ s with full := false } : MSeg)).map (·.id)).Nodup
      rw [List.map_map]
      exact hids
    · rw [hidx]; exact Index.inv_empty _ _
    · intro sl hsl; rw [hslots] at hsl; cases hsl
    · intro a ha; rw [hslots] at ha; cases ha
  refine ⟨hwf, ?_, hslots⟩
  funext k
  unfold MState.abs
  rw [get_eq hwf, hidx, contents_nil]; rfl

/-! ### files -/

/-- The segment files of a list of segments, in replay order. -/
def filesOf (segs : List MSeg) : SegFS := (sortBySeq segs).map fun s => ⟨s.seq, s.data⟩

def segEnts (s : MSeg) : List E := (scan s.data).1.map Rec.toEnt

theorem recoverLog_filesOf (segs : List MSeg) :
    recoverLog (filesOf segs) = (sortBySeq segs).flatMap segEnts := by
  unfold recoverLog filesOf
  generalize sortBySeq segs = l
  induction l with
  | nil => rfl
  | cons x xs ih => simp only [List.map_cons, List.flatMap_cons, ih]; rfl

theorem flatMap_congr' {α β} {l : List α} {f g : α → List β} (h : ∀ x ∈ l, f x = g x) :
    l.flatMap f = l.flatMap g := by
  induction l with
  | nil => rfl
  | cons x xs ih =>
    rw [List.flatMap_cons, List.flatMap_cons, h x List.mem_cons_self,
      ih (fun y hy => h y (List.mem_cons_of_mem _ hy))]

theorem recoverLog_filesOf_map (f : MSeg → MSeg) (hseq : ∀ x, (f x).seq = x.seq)
    (hents : ∀ x, segEnts (f x) = segEnts x) (segs : List MSeg) :
    recoverLog (filesOf (segs.map f)) = recoverLog (filesOf segs) := by
  rw [recoverLog_filesOf, recoverLog_filesOf, sortBySeq_map f hseq]
  generalize sortBySeq segs = l
  induction l with
  | nil => rfl
  | cons x xs ih => simp only [List.map_cons, List.flatMap_cons, ih, hents]

theorem segEnts_trunc (s : MSeg) : segEnts (truncSeg s) = segEnts s := by
  unfold segEnts
  have h : (truncSeg s).data = encodeAll (scan s.data).1 := (scan_prefix s.data).symm
  rw [h, scan_encodeAll' _ (scan_fits s.data)]

theorem recoverLog_recover0 (st : MState) (seed : UInt32) :
    recoverLog (filesOf (recover0 st seed).segs) = recoverLog (filesOf st.segs) := by
  rcases recover0_segs st seed with ⟨h0, e, hd, _, he⟩ | ⟨_, h⟩
  · rw [he, h0, recoverLog_filesOf, recoverLog_filesOf]
    have : sortBySeq [e] = [e] := by rw [sortBySeq_eq]; rfl
    rw [this]
    have : sortBySeq [] = [] := rfl
    rw [this]
    simp [segEnts, hd, scan_nil]
  · rw [h]
    exact recoverLog_filesOf_map clearSeg (fun _ => rfl) (fun _ => rfl) st.segs

/-! ### the replay fold from `recover0` -/

theorem recover_main (st : MState) (hids : (st.segs.map (·.id)).Nodup) (seed : UInt32) :
    ((sortBySeq (recover0 st seed).segs).foldl recoverStep (recover0 st seed)).WF ∧
    ((sortBySeq (recover0 st seed).segs).foldl recoverStep (recover0 st seed)).abs =
      recovered (filesOf st.segs) ∧
    ((sortBySeq (recover0 st seed).segs).foldl recoverStep (recover0 st seed)).segs =
      (recover0 st seed).segs.map truncSeg := by
  obtain ⟨hwf0, habs0, hsl0⟩ := recover0_wf st hids seed
  have hperm := sortBySeq_perm (recover0 st seed).segs
  obtain ⟨h1, h2, h3⟩ := recover_fold (sortBySeq (recover0 st seed).segs) (recover0 st seed) [] []
    hwf0 (fun s hs => hperm.mem_iff.1 hs)
    ((hperm.map (·.id)).nodup_iff.2 hwf0.ids)
    (fun _ _ h => by cases h)
    (by intro a ha; rw [hsl0] at ha; cases ha) habs0
  refine ⟨h1, ?_, ?_⟩
  · rw [h2, List.nil_append]
    unfold recovered
    rw [← recoverLog_recover0 st seed, recoverLog_filesOf]
    rfl
  · rw [h3]
    apply List.map_congr_left
    intro x hx
    rw [if_pos (List.mem_map.2 ⟨x, hperm.mem_iff.2 hx, rfl⟩)]

theorem seal_swap_wf {stF : MState} (hwf : stF.WF) (newest : Option Nat) :
    (sealAll stF newest).swapSegment.WF ∧ ∀ k, (sealAll stF newest).swapSegment.get k = stF.get k := by
  have hids : ((sealAll stF newest).segs.map (·.id)).Nodup := by
    show ((stF.segs.map (sealSeg newest)).map (·.id)).Nodup
    rw [List.map_map]
    have : ((fun x : MSeg => x.id) ∘ sealSeg newest) = fun x => x.id := by funext x; simp
    rw [this]; exact hwf.ids
  have hsd : ∀ id, (sealAll stF newest).segData id = stF.segData id := by
    intro id
    unfold segData seg? sealAll
    dsimp only
    rw [find_map_id _ (sealSeg_id newest)]
    cases stF.segs.find? (·.id == id) <;> simp
  apply wf_congr hwf (swap_ids _ hids) (by rw [swap_idx]; rfl) (by rw [swap_seed]; rfl)
  intro sl hsl
  obtain ⟨d, hd, _⟩ := hwf.pts hsl
  rcases swap_segData (sealAll stF newest) sl.seg with h | ⟨h, _⟩
  · rw [h, hsd]
  · rw [hsd, hd] at h; cases h

theorem swap_of_nonfull (st : MState) (s : MSeg) (hs : s ∈ st.segs) (hf : s.full = false) :
    st.swapSegment.segs = st.segs := by
  unfold swapSegment
  cases h : st.segs.find? (fun s => !s.full) with
  | some x => rfl
  | none =>
    have := List.find?_eq_none.1 h s hs
    simp [hf] at this

theorem recover0_flags (st : MState) (seed : UInt32) : ∀ s ∈ (recover0 st seed).segs, s.full = false := by
  intro s hs
  rcases recover0_segs st seed with ⟨_, e, _, hf, he⟩ | ⟨_, h⟩
  · rw [he] at hs
    rw [List.mem_singleton.1 hs]; exact hf
  · rw [h] at hs
    obtain ⟨x, _, rfl⟩ := List.mem_map.1 hs
    rfl

theorem recover0_ne (st : MState) (seed : UInt32) : (recover0 st seed).segs ≠ [] := by
  rcases recover0_segs st seed with ⟨_, e, _, _, he⟩ | ⟨hne, h⟩
  · rw [he]; simp
  · rw [h]; simpa using hne

/-- The segments after recovery, explicitly. -/
theorem recover_segs (st : MState) (hids : (st.segs.map (·.id)).Nodup) (seed : UInt32) :
    ∃ newest, (st.reopenRecover seed).segs =
      (recover0 st seed).segs.map (fun s => sealSeg newest (truncSeg s)) := by
  refine ⟨(sortBySeq (recover0 st seed).segs).getLast?.map (·.id), ?_⟩
  obtain ⟨_, _, hsegs⟩ := recover_main st hids seed
  have hperm := sortBySeq_perm (recover0 st seed).segs
  have hne : sortBySeq (recover0 st seed).segs ≠ [] := by
    intro h
    rw [h] at hperm
    exact recover0_ne st seed hperm.symm.eq_nil
  rw [reopenRecover_eq]
  have hl : (sortBySeq (recover0 st seed).segs).getLast? =
      some ((sortBySeq (recover0 st seed).segs).getLast hne) := List.getLast?_eq_some_getLast hne
  have hlm : (sortBySeq (recover0 st seed).segs).getLast hne ∈ (recover0 st seed).segs :=
    hperm.mem_iff.1 (List.getLast_mem hne)
  generalize (sortBySeq (recover0 st seed).segs).getLast hne = l at hl hlm
  rw [hl, Option.map_some]
  rw [swap_of_nonfull _ (truncSeg l)]
  · show (List.map _ _) = _
    rw [hsegs, List.map_map]; rfl
  · show truncSeg l ∈ List.map _ _
    rw [hsegs, List.map_map]
    refine List.mem_map.2 ⟨l, hlm, ?_⟩
    simp [sealSeg]
  · exact recover0_flags st seed l hlm

end MState
end Pogreb
