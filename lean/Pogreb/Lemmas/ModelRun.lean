/-
  Generic lemmas for M05 (the run theorem): the replay log of a list of segments (`slog`) and how
  the primitive segment-table edits of the model change it: flag changes, inserting a fresh empty
  newest segment, appending a record to the newest segment, removing a segment.
-/
import Pogreb.Props.M04
import Pogreb.Props.C02
namespace Pogreb
namespace MState

/-- The replay log of a list of segments (sequence-id order). -/
def slog (segs : List MSeg) : List E := (sortBySeq segs).flatMap segEnts

theorem recovered_files (st : MState) : recovered st.files = contents (slog st.segs) := by
  unfold recovered; rw [files_eq, recoverLog_filesOf]; rfl

/-! ### sorting: a strictly sorted permutation is unique -/

theorem strict_perm_unique : ∀ (l1 l2 : List MSeg), l1.Perm l2 →
    l1.Pairwise (fun a b => a.seq < b.seq) → l2.Pairwise (fun a b => a.seq < b.seq) → l1 = l2 := by
  intro l1
  induction l1 with
  | nil => intro l2 hp _ _; exact (hp.symm.eq_nil).symm
  | cons a t1 ih =>
    intro l2 hp h1 h2
    cases l2 with
    | nil => exact absurd hp.eq_nil (by simp)
    | cons b t2 =>
      have ha : a ∈ b :: t2 := hp.subset List.mem_cons_self
      have hb : b ∈ a :: t1 := hp.symm.subset List.mem_cons_self
      have hab : a = b := by
        rcases List.mem_cons.1 ha with e | ha'
        · exact e
        · rcases List.mem_cons.1 hb with e | hb'
          · exact e.symm
          · have x1 := (List.pairwise_cons.1 h1).1 b hb'
            have x2 := (List.pairwise_cons.1 h2).1 a ha'
            omega
      subst hab
      rw [ih t2 hp.cons_inv (List.pairwise_cons.1 h1).2 (List.pairwise_cons.1 h2).2]

theorem sorted_strict {segs : List MSeg} (h : (segs.map (·.seq)).Nodup) :
    (sortBySeq segs).Pairwise (fun a b => a.seq < b.seq) := by
  have hs := sortBySeq_sorted segs
  have hn : ((sortBySeq segs).map (·.seq)).Nodup := ((sortBySeq_perm segs).map _).nodup_iff.2 h
  have hn' : (sortBySeq segs).Pairwise (fun a b => a.seq ≠ b.seq) := List.pairwise_map.1 hn
  exact (hs.and hn').imp (fun h => by omega)

theorem seqs_nodup_of_strict {l : List MSeg} (hl : l.Pairwise (fun a b => a.seq < b.seq)) :
    (l.map (·.seq)).Nodup :=
  List.pairwise_map.2 (hl.imp (fun h => by omega))

theorem sortBySeq_eq_of {segs l : List MSeg} (hp : l.Perm segs)
    (hl : l.Pairwise (fun a b => a.seq < b.seq)) : sortBySeq segs = l := by
  have hn : (segs.map (·.seq)).Nodup := (hp.map _).nodup_iff.1 (seqs_nodup_of_strict hl)
  exact strict_perm_unique _ _ ((sortBySeq_perm segs).trans hp.symm) (sorted_strict hn) hl

theorem sortBySeq_split {segs : List MSeg} (hn : (segs.map (·.seq)).Nodup) {w : MSeg} (hw : w ∈ segs) :
    ∃ A B, sortBySeq segs = A ++ w :: B ∧ (∀ a ∈ A, a.seq < w.seq) ∧ (∀ b ∈ B, w.seq < b.seq) := by
  have hw' : w ∈ sortBySeq segs := (sortBySeq_perm segs).mem_iff.2 hw
  obtain ⟨A, B, h⟩ := List.append_of_mem hw'
  have hs := sorted_strict hn
  rw [h] at hs
  obtain ⟨_, h2, h3⟩ := List.pairwise_append.1 hs
  exact ⟨A, B, h, fun a ha => h3 a ha w List.mem_cons_self, (List.pairwise_cons.1 h2).1⟩

theorem sortBySeq_last {segs : List MSeg} (hn : (segs.map (·.seq)).Nodup) {w : MSeg} (hw : w ∈ segs)
    (hmax : ∀ y ∈ segs, y.seq ≤ w.seq) :
    ∃ A, sortBySeq segs = A ++ [w] ∧ ∀ a ∈ A, a.seq < w.seq := by
  obtain ⟨A, B, h, hA, hB⟩ := sortBySeq_split hn hw
  cases B with
  | nil => exact ⟨A, h, hA⟩
  | cons b B' =>
    exfalso
    have h1 := hB b List.mem_cons_self
    have hb : b ∈ segs := (sortBySeq_perm segs).mem_iff.1 (by rw [h]; simp)
    have := hmax b hb
    omega

theorem sortBySeq_insert {segs : List MSeg} (hn : (segs.map (·.seq)).Nodup) (new : MSeg)
    (hseq : ∀ x ∈ segs, x.seq < new.seq) :
    sortBySeq (insertSeg segs new) = sortBySeq segs ++ [new] := by
  apply sortBySeq_eq_of
  · exact (List.perm_append_singleton new _).trans
      (((sortBySeq_perm segs).cons new).trans (insertSeg_perm segs new).symm)
  · refine List.pairwise_append.2 ⟨sorted_strict hn, List.pairwise_singleton _ _, ?_⟩
    intro a ha b hb
    rw [List.mem_singleton.1 hb]
    exact hseq a ((sortBySeq_perm segs).mem_iff.1 ha)

theorem sortBySeq_filter {segs : List MSeg} (hn : (segs.map (·.seq)).Nodup) (p : MSeg → Bool) :
    sortBySeq (segs.filter p) = (sortBySeq segs).filter p :=
  sortBySeq_eq_of ((sortBySeq_perm segs).filter p) ((sorted_strict hn).filter p)

theorem eq_of_id {segs : List MSeg} (hids : (segs.map (·.id)).Nodup) {x y : MSeg} (hx : x ∈ segs)
    (hy : y ∈ segs) (h : x.id = y.id) : x = y := by
  have h1 := find_id_of_mem segs hids x hx
  have h2 := find_id_of_mem segs hids y hy
  rw [h, h2] at h1
  exact (Option.some.inj h1).symm

/-! ### the log under the primitive edits -/

theorem slog_map (f : MSeg → MSeg) (hseq : ∀ x, (f x).seq = x.seq)
    (hents : ∀ x, segEnts (f x) = segEnts x) (segs : List MSeg) : slog (segs.map f) = slog segs := by
  have := recoverLog_filesOf_map f hseq hents segs
  rw [recoverLog_filesOf, recoverLog_filesOf] at this
  exact this

theorem segEnts_nil (s : MSeg) (h : s.data = []) : segEnts s = [] := by
  unfold segEnts; rw [h, scan_nil]; rfl

theorem slog_insert {segs : List MSeg} (hn : (segs.map (·.seq)).Nodup) (new : MSeg)
    (hseq : ∀ x ∈ segs, x.seq < new.seq) (hd : new.data = []) :
    slog (insertSeg segs new) = slog segs := by
  unfold slog
  rw [sortBySeq_insert hn new hseq, List.flatMap_append]
  simp [segEnts_nil new hd]

/-- Replacing the newest segment `w` by `w'` (same id and sequence id, one more entry). -/
theorem slog_setSeg_newest {segs : List MSeg} (hids : (segs.map (·.id)).Nodup)
    (hn : (segs.map (·.seq)).Nodup) {w : MSeg} (hw : w ∈ segs) (hmax : ∀ y ∈ segs, y.seq ≤ w.seq)
    (w' : MSeg) (hid : w'.id = w.id) (hseq : w'.seq = w.seq) (e : E)
    (he : segEnts w' = segEnts w ++ [e]) :
    slog (segs.map (fun x => if x.id == w'.id then w' else x)) = slog segs ++ [e] := by
  obtain ⟨A, hA, hlt⟩ := sortBySeq_last hn hw hmax
  have hperm := sortBySeq_perm segs
  have hfA : ∀ a ∈ A, (fun x : MSeg => if x.id == w'.id then w' else x) a = a := by
    intro a ha
    have hamem : a ∈ segs := hperm.mem_iff.1 (by rw [hA]; simp [ha])
    have hne : a.id ≠ w.id := by
      intro e'
      have := eq_of_id hids hamem hw e'
      have := hlt a ha
      subst_vars
      omega
    simp [hid, hne]
  have hsort : sortBySeq (segs.map (fun x => if x.id == w'.id then w' else x)) = A ++ [w'] := by
    apply sortBySeq_eq_of
    · have h1 : (segs.map (fun x => if x.id == w'.id then w' else x)).Perm
          ((A ++ [w]).map (fun x => if x.id == w'.id then w' else x)) := by
        rw [← hA]; exact (hperm.map _).symm
      rw [List.map_append, List.map_congr_left hfA, List.map_id'] at h1
      simpa [hid] using h1.symm
    · have hs := sorted_strict hn
      rw [hA] at hs
      obtain ⟨h1, _, h3⟩ := List.pairwise_append.1 hs
      refine List.pairwise_append.2 ⟨h1, List.pairwise_singleton _ _, ?_⟩
      intro a ha b hb
      rw [List.mem_singleton.1 hb, hseq]
      exact h3 a ha w (by simp)
  unfold slog
  rw [hsort, hA]
  simp [List.flatMap_append, he]

theorem slog_filter {segs : List MSeg} (hn : (segs.map (·.seq)).Nodup) (p : MSeg → Bool) :
    slog (segs.filter p) = ((sortBySeq segs).filter p).flatMap segEnts := by
  unfold slog; rw [sortBySeq_filter hn]

/-! ### scanning an appended record -/

theorem scan_append_rec {d : Bytes} {r : Rec} (h : CleanD d) (hf : r.Fits) :
    (scan (d ++ r.encode)).1 = (scan d).1 ++ [r] := by
  have hd := cleanD_eq h
  have hfs : ∀ x ∈ (scan d).1 ++ [r], x.Fits := by
    intro x hx
    rcases List.mem_append.1 hx with hx | hx
    · exact scan_fits d x hx
    · rw [List.mem_singleton.1 hx]; exact hf
  have he : d ++ r.encode = encodeAll ((scan d).1 ++ [r]) := by
    rw [encodeAll_append, hd]; simp
  rw [he, scan_encodeAll' _ hfs]

end MState
end Pogreb
