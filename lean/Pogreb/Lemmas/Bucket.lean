/-
  Lemmas for the bucket codec round trip (C18).
-/
import Pogreb.BucketCodec
namespace Pogreb

theorem rdLE_zeros (n : Nat) : rdLE (zeros n) = 0 := by
  induction n with
  | zero => rfl
  | succ n ih =>
    have : zeros (n + 1) = 0 :: zeros n := by simp [zeros, List.replicate_succ]
    rw [this]; simp [rdLE, ih]

/-- Reading `len` bytes at offset `o` when the buffer is `p ++ x ++ rest` with `|p| = o`, `|x| = len`. -/
theorem rd_at (p x rest : Bytes) {o len : Nat} (hp : p.length = o) (hx : x.length = len) :
    rd (p ++ x ++ rest) o len = rdLE x := by
  subst hp hx
  simp [rd, List.append_assoc]

theorem rd_add (b : Bytes) (o k len : Nat) : rd b (o + k) len = rd (b.drop o) k len := by
  simp [rd, List.drop_drop]

theorem decodeSlot_drop (b : Bytes) (i : Nat) : decodeSlot b i = decodeSlot (b.drop (16 * i)) 0 := by
  simp only [decodeSlot, rd_add, Nat.mul_zero, Nat.zero_add]
  simp [rd]

/-- Field ranges without the "offset is not zero" part. -/
def Slot.InRange0 (s : Slot) : Prop :=
  s.hash < 2 ^ 32 ∧ s.seg < 2 ^ 16 ∧ s.ksz < 2 ^ 16 ∧ s.vsz < 2 ^ 32 ∧ s.off < 2 ^ 32

theorem Slot.encode_length (s : Slot) : s.encode.length = 16 := by
  simp [Slot.encode]

theorem decodeSlot_encode (s : Slot) (rest : Bytes) (h : s.InRange0) :
    decodeSlot (s.encode ++ rest) 0 = s := by
  obtain ⟨h1, h2, h3, h4, h5⟩ := h
  have e1 : rd (s.encode ++ rest) 0 4 = s.hash := by
    have : s.encode ++ rest = [] ++ le32 s.hash ++ (le16 s.seg ++ le16 s.ksz ++ le32 s.vsz ++ le32 s.off ++ rest) := by
      simp [Slot.encode, List.append_assoc]
    rw [this, rd_at [] (le32 s.hash) _ (o := 0) rfl (le32_length _)]
    exact rdLE_leN_of_lt (by simpa using h1)
  have e2 : rd (s.encode ++ rest) 4 2 = s.seg := by
    have : s.encode ++ rest = le32 s.hash ++ le16 s.seg ++ (le16 s.ksz ++ le32 s.vsz ++ le32 s.off ++ rest) := by
      simp [Slot.encode, List.append_assoc]
    rw [this, rd_at _ _ _ (le32_length _) (le16_length _)]
    exact rdLE_leN_of_lt (by simpa using h2)
  have e3 : rd (s.encode ++ rest) 6 2 = s.ksz := by
    have : s.encode ++ rest = (le32 s.hash ++ le16 s.seg) ++ le16 s.ksz ++ (le32 s.vsz ++ le32 s.off ++ rest) := by
      simp [Slot.encode, List.append_assoc]
    rw [this, rd_at _ _ _ (by simp) (le16_length _)]
    exact rdLE_leN_of_lt (by simpa using h3)
  have e4 : rd (s.encode ++ rest) 8 4 = s.vsz := by
    have : s.encode ++ rest = (le32 s.hash ++ le16 s.seg ++ le16 s.ksz) ++ le32 s.vsz ++ (le32 s.off ++ rest) := by
      simp [Slot.encode, List.append_assoc]
    rw [this, rd_at _ _ _ (by simp) (le32_length _)]
    exact rdLE_leN_of_lt (by simpa using h4)
  have e5 : rd (s.encode ++ rest) 12 4 = s.off := by
    have : s.encode ++ rest = (le32 s.hash ++ le16 s.seg ++ le16 s.ksz ++ le32 s.vsz) ++ le32 s.off ++ rest := by
      simp [Slot.encode, List.append_assoc]
    rw [this, rd_at _ _ _ (by simp) (le32_length _)]
    exact rdLE_leN_of_lt (by simpa using h5)
  simp only [decodeSlot, Nat.mul_zero, Nat.zero_add, e1, e2, e3, e4, e5]

theorem flatMap_encode_length (l : List Slot) : (l.flatMap Slot.encode).length = 16 * l.length := by
  induction l with
  | nil => rfl
  | cons s ss ih => simp [List.flatMap_cons, Slot.encode_length, ih]; omega

theorem drop_flatMap_encode (l : List Slot) (tail : Bytes) (i : Nat) :
    (l.flatMap Slot.encode ++ tail).drop (16 * i) = (l.drop i).flatMap Slot.encode ++ (tail.drop (16 * (i - l.length))) := by
  induction l generalizing i with
  | nil => simp
  | cons s ss ih =>
    cases i with
    | zero => simp
    | succ i =>
      have : 16 * (i + 1) = s.encode.length + 16 * i := by rw [Slot.encode_length]; omega
      simp only [List.flatMap_cons, List.append_assoc, this]
      rw [← List.drop_drop, List.drop_left]
      simpa using ih i

theorem decodeSlot_flatMap (l : List Slot) (tail : Bytes) (hl : ∀ s ∈ l, s.InRange0) (i : Nat) (hi : i < l.length) :
    decodeSlot (l.flatMap Slot.encode ++ tail) i = l[i] := by
  rw [decodeSlot_drop, drop_flatMap_encode]
  have : l.drop i = l[i] :: l.drop (i + 1) := by simp
  rw [this, List.flatMap_cons, List.append_assoc]
  exact decodeSlot_encode _ _ (hl _ (List.getElem_mem hi))

def zeroSlot : Slot := ⟨0, 0, 0, 0, 0⟩

theorem zeros_eq_flatMap (k : Nat) : zeros (16 * k) = (List.replicate k zeroSlot).flatMap Slot.encode := by
  induction k with
  | zero => rfl
  | succ k ih =>
    have h1 : zeros (16 * (k + 1)) = zeros 16 ++ zeros (16 * k) := by
      simp only [zeros, List.replicate_append_replicate]; congr 1; omega
    rw [h1, ih, List.replicate_succ, List.flatMap_cons]
    rfl


theorem takeWhile_append_replicate {α} (p : α → Bool) (a : List α) (k : Nat) (z : α)
    (ha : ∀ x ∈ a, p x = true) (hz : p z = false) : (a ++ List.replicate k z).takeWhile p = a := by
  induction a with
  | nil => cases k <;> simp [List.replicate_succ, hz]
  | cons x xs ih =>
    have hx := ha x List.mem_cons_self
    simp only [List.cons_append, List.takeWhile_cons, hx, if_true]
    rw [ih (fun y hy => ha y (List.mem_cons_of_mem _ hy))]

theorem encodeBucket_eq (slots : List Slot) (next : Nat) :
    encodeBucket slots next =
      (slots ++ List.replicate (31 - slots.length) zeroSlot).flatMap Slot.encode ++ le64 next ++ zeros 8 := by
  simp only [encodeBucket, zeros_eq_flatMap, List.flatMap_append]

theorem parseBucket_encodeBucket (slots : List Slot) (next : Nat) (hl : slots.length ≤ 31)
    (hr : ∀ s ∈ slots, s.InRange) (hn : next < 2 ^ 64) :
    parseBucket (encodeBucket slots next) = (slots, next, true) := by
  have hall : ∀ s ∈ slots ++ List.replicate (31 - slots.length) zeroSlot, s.InRange0 := by
    intro s hs
    rcases List.mem_append.mp hs with h | h
    · obtain ⟨a, b, c, d, e, _⟩ := hr s h; exact ⟨a, b, c, d, e⟩
    · rw [(List.mem_replicate.mp h).2]; exact ⟨by decide, by decide, by decide, by decide, by decide⟩
  have hlen : (slots ++ List.replicate (31 - slots.length) zeroSlot).length = 31 := by
    simp; omega
  have hmap : (List.range 31).map (decodeSlot (encodeBucket slots next)) =
      slots ++ List.replicate (31 - slots.length) zeroSlot := by
    apply List.ext_getElem
    · simp [hlen]
    · intro i h1 h2
      rw [List.getElem_map, List.getElem_range, encodeBucket_eq, List.append_assoc]
      exact decodeSlot_flatMap _ _ hall i h2
  have hnext : rd (encodeBucket slots next) 496 8 = next := by
    rw [encodeBucket_eq, rd_at _ _ _ (by rw [flatMap_encode_length, hlen]) (le64_length _)]
    exact rdLE_leN_of_lt (by simpa using hn)
  have htw : (slots ++ List.replicate (31 - slots.length) zeroSlot).takeWhile (fun s => s.off != 0) = slots := by
    apply takeWhile_append_replicate
    · intro s hs
      have := (hr s hs).2.2.2.2.2
      simpa using this
    · rfl
  simp only [parseBucket, hmap, hnext, htw, List.drop_left]
  simp [zeroSlot]

end Pogreb
