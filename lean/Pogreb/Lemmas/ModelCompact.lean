/-
  Record-level facts used by Props/M03: an entry `(off, r)` of `recsWithOffsets data` means the
  bytes of `data` at file offset `off` are exactly `r.encode`.
-/
import Pogreb.Model
import Pogreb.RecordThms
import Pogreb.Lemmas.SegFS
namespace Pogreb
namespace MState

theorem go_split : ∀ (rs : List Rec) (o : Nat) (done : List (Nat × Rec)) (off : Nat) (r : Rec)
    (rest : List (Nat × Rec)), recsWithOffsets.go o rs = done ++ (off, r) :: rest →
    ∃ rs1 rs2, rs = rs1 ++ r :: rs2 ∧ off = o + (encodeAll rs1).length
  | [], o, done, off, r, rest, h => by
    simp [recsWithOffsets.go] at h
  | x :: xs, o, [], off, r, rest, h => by
    simp only [recsWithOffsets.go, List.nil_append, List.cons.injEq, Prod.mk.injEq] at h
    obtain ⟨⟨h1, h2⟩, _⟩ := h
    exact ⟨[], xs, by rw [h2]; rfl, by simp [h1]⟩
  | x :: xs, o, d :: done, off, r, rest, h => by
    simp only [recsWithOffsets.go, List.cons_append, List.cons.injEq] at h
    obtain ⟨rs1, rs2, h1, h2⟩ := go_split xs _ done off r rest h.2
    refine ⟨x :: rs1, rs2, by rw [h1]; rfl, ?_⟩
    rw [h2, encodeAll_cons, List.length_append]; omega

/-- An entry of `recsWithOffsets`: the record's own encoding sits at its offset. -/
theorem recs_split {d : Bytes} {done rest : List (Nat × Rec)} {off : Nat} {r : Rec}
    (h : recsWithOffsets d = done ++ (off, r) :: rest) :
    ∃ A B : Bytes, d = A ++ r.encode ++ B ∧ off = headerSize + A.length ∧ r.Fits := by
  unfold recsWithOffsets at h
  obtain ⟨rs1, rs2, h1, h2⟩ := go_split _ _ _ _ _ _ h
  have hp := scan_prefix d
  rw [h1, encodeAll_append, encodeAll_cons] at hp
  refine ⟨encodeAll rs1, encodeAll rs2 ++ d.drop (scan d).2, ?_, h2, ?_⟩
  · have := (List.take_append_drop (scan d).2 d).symm
    rw [← hp] at this
    generalize d.drop (scan d).2 = t at this
    rw [this]; simp only [List.append_assoc]
  · apply scan_fits d
    rw [h1]; simp

end MState
end Pogreb
