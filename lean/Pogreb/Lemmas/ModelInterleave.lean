/-
  Helper lemmas for M06: the compaction cursor (`CursorAt`) of a record-by-record compaction that is
  interleaved with writers. The cursor facts are stable under Put/Delete (they only append to a
  non-sealed segment and only add slots pointing into the segment just written) and under one copy
  step; at the end (`todo = []`) they give exactly the hypotheses of `removeSeg_coupled`.
-/
import Pogreb.Props.M05
import Pogreb.Lemmas.ModelOrd
namespace Pogreb
open MState
namespace MState

/-- A consistent compaction cursor `c` into the sealed source segment `S` (id `sid`) of `st`. -/
structure CursorAt (st : MState) (c : CompState) (sid : Nat) (S : MSeg) : Prop where
  /-- the cursor is on segment `sid` -/
  source : c.source = some sid
  /-- the source segment exists ... -/
  seg    : st.seg? sid = some S
  /-- ... and is sealed (nobody appends to it) -/
  full   : S.full = true
  /-- the records still to do are a suffix of the segment's records -/
  recs   : ∃ done, recsWithOffsets S.data = done ++ c.todo
  /-- processed records are not pointed at: a slot into the source points at a record still to do -/
  slots  : ∀ sl ∈ st.idx.slots, sl.seg = sid → ∃ p ∈ c.todo, sl.off = p.1
  /-- the pick rule, in its stable form: the source holds no delete record, or its sequence id is a
  lower bound of all sequence ids (it is the oldest segment, and no older one can appear) -/
  pick   : ∃ q, LB q st ∧ (hasDelete S = false ∨ q = S.seq)

/-- `writeRecord` followed by an index update whose slots are new (pointing into the segment just
written) or old: the cursor stays consistent. -/
theorem cursor_write {st : MState} (hwf : st.WF) {c : CompState} {sid : Nat} {S : MSeg}
    (h : CursorAt st c sid S) (data : Bytes) (idx' : Index)
    (hslots : ∀ sl ∈ idx'.slots, sl.seg = (st.writeRecord data).2.1 ∨ sl ∈ st.idx.slots) :
    CursorAt ({ (st.writeRecord data).1 with idx := idx' } : MState) c sid S := by
  obtain ⟨hne, hkeep⟩ := writeRecord_sealed hwf.ids h.seg h.full data
  obtain ⟨q, hlb, hq⟩ := h.pick
  refine ⟨h.source, hkeep, h.full, h.recs, ?_, q, writeRecord_lb data hlb, hq⟩
  intro sl hsl hsg
  rcases hslots sl hsl with e | hold
  · exact absurd (e.symm.trans hsg) hne
  · exact h.slots sl hold hsg

theorem cursor_put {st : MState} (hwf : st.WF) {c : CompState} {sid : Nat} {S : MSeg}
    (h : CursorAt st c sid S) (k v : Bytes)
    (hk : k.length ≤ maxKeyLength) (hv : v.length ≤ maxValueLength) :
    CursorAt (st.put k v).1 c sid S := by
  have hk' : ¬ k.length > maxKeyLength := by omega
  have hv' : ¬ v.length > maxValueLength := by omega
  have hkl : k.length % 65536 = k.length := by
    apply Nat.mod_eq_of_lt; unfold maxKeyLength at hk; omega
  have hvl : v.length % 4294967296 = v.length := by
    apply Nat.mod_eq_of_lt; unfold maxValueLength at hv; omega
  have hput : (st.put k v).1 =
      { (st.writeRecord (Rec.encode ⟨false, k, v⟩)).1 with
          idx := (st.writeRecord (Rec.encode ⟨false, k, v⟩)).1.idx.put loadPolicy
            ⟨st.hashOf k, (st.writeRecord (Rec.encode ⟨false, k, v⟩)).2.1, k.length, v.length,
              (st.writeRecord (Rec.encode ⟨false, k, v⟩)).2.2⟩
            ((st.writeRecord (Rec.encode ⟨false, k, v⟩)).1.matchKey k) } := by
    unfold MState.put
    rw [if_neg hk', if_neg hv', hkl, hvl]
  rw [hput]
  obtain ⟨hwf1, hidx, hseed, hreads, _⟩ := writeRecord_wf hwf (Rec.encode ⟨false, k, v⟩)
  obtain ⟨old, _, _, _, hoff, hnew, _, _⟩ := writeRecord_spec st (Rec.encode ⟨false, k, v⟩) hwf.ids
  have hnew' : (st.writeRecord (Rec.encode ⟨false, k, v⟩)).1.segData
      (st.writeRecord (Rec.encode ⟨false, k, v⟩)).2.1 = some (old ++ (Rec.encode ⟨false, k, v⟩) ++ []) := by
    rw [List.append_nil]; exact hnew
  have hkey := (reads_at_record (st := (st.writeRecord (Rec.encode ⟨false, k, v⟩)).1)
    (sl := ⟨st.hashOf k, (st.writeRecord (Rec.encode ⟨false, k, v⟩)).2.1, k.length, v.length,
      (st.writeRecord (Rec.encode ⟨false, k, v⟩)).2.2⟩) (r := ⟨false, k, v⟩) hnew' hoff rfl).1
  have hh : (⟨st.hashOf k, (st.writeRecord (Rec.encode ⟨false, k, v⟩)).2.1, k.length, v.length,
      (st.writeRecord (Rec.encode ⟨false, k, v⟩)).2.2⟩ : Slot).hash =
      (st.writeRecord (Rec.encode ⟨false, k, v⟩)).1.hashOf k := by
    unfold hashOf; rw [hseed]
  apply cursor_write hwf h
  intro sl hsl
  rcases put_idx_slots' hwf1 k _ hkey hh sl hsl with e | ⟨hold, _⟩
  · left; rw [e]
  · right; rw [hidx] at hold; exact hold

theorem cursor_delete {st : MState} (hwf : st.WF) {c : CompState} {sid : Nat} {S : MSeg}
    (h : CursorAt st c sid S) (k : Bytes) : CursorAt (st.delete k) c sid S := by
  rw [MState.delete_eq]
  cases hg : st.idx.get (st.hashOf k) (st.matchKey k) with
  | none => exact h
  | some sl0 =>
    dsimp only
    obtain ⟨hwf1, hidx, hseed, _, _⟩ := writeRecord_wf hwf (Rec.encode ⟨true, k, []⟩)
    have hh : st.hashOf k = (st.writeRecord (Rec.encode ⟨true, k, []⟩)).1.hashOf k := by
      unfold hashOf; rw [hseed]
    rw [hh]
    apply cursor_write hwf h
    intro sl hsl
    obtain ⟨hold, _⟩ := delete_idx_slots' hwf1 k sl hsl
    right; rw [hidx] at hold; exact hold

/-- The `hreal` hypothesis of the M03/M04/M05 step lemmas. -/
theorem CursorAt.real {st : MState} (hids : (st.segs.map (·.id)).Nodup) {c : CompState} {sid : Nat}
    {S : MSeg} (h : CursorAt st c sid S) :
    ∀ src, c.source = some src → ∀ s ∈ st.segs, s.id = src →
      ∃ done, recsWithOffsets s.data = done ++ c.todo := by
  intro src hs' s hs hid
  rw [h.source] at hs'
  rw [← Option.some.inj hs'] at hid
  have h' := seg?_of_mem hids hs
  rw [hid, h.seg] at h'
  rw [← Option.some.inj h']; exact h.recs

/-- One copy step keeps the cursor consistent (the processed record is no longer pointed at). -/
theorem cursor_record {st : MState} (h2 : st.WF2) {c : CompState} {sid : Nat} {S : MSeg}
    (h : CursorAt st c sid S) : CursorAt (st.compactRecord c).1 (st.compactRecord c).2 sid S := by
  have hwf := h2.1
  have hok := h2.ok
  have hac := h2.clean
  have hsrc := h.source
  have hseg := h.seg
  have hfull := h.full
  have hS : ∀ s ∈ st.segs, s.id = sid → s = S := by
    intro s hs hid
    have h' := seg?_of_mem hwf.ids hs
    rw [hid, hseg] at h'
    exact (Option.some.inj h').symm
  have hreal' : ∀ s ∈ st.segs, s.id = sid → ∃ done, recsWithOffsets s.data = done ++ c.todo := by
    intro s hs hid; rw [hS s hs hid]; exact h.recs
  have hreal := h.real hwf.ids
  have hne : ∀ s ∈ st.segs, s.id = sid → s.full = true := by
    intro s hs hid; rw [hS s hs hid]; exact hfull
  have hex := exactOn_of_ok hok hreal'
  obtain ⟨_, _, hsub⟩ := compactRecord_ok hwf hok hac c hreal
  have hseg1 := compactRecord_sealed hwf.ids hseg hfull c
  have hsrc1 : (st.compactRecord c).2.source = some sid := by rw [compactRecord_source]; exact hsrc
  have htodo1 := compactRecord_todo st c sid hsrc
  have hrec1 : ∃ done, recsWithOffsets S.data = done ++ (st.compactRecord c).2.todo := by
    rw [htodo1]
    obtain ⟨done, hd⟩ := h.recs
    cases ht : c.todo with
    | nil => rw [ht] at hd; exact ⟨done, hd⟩
    | cons q rest => rw [ht] at hd; exact ⟨done ++ [q], by rw [hd]; simp⟩
  have hslots1 : ∀ sl ∈ (st.compactRecord c).1.idx.slots, sl.seg = sid →
      ∃ p ∈ (st.compactRecord c).2.todo, sl.off = p.1 := by
    intro sl hsl hsg
    rw [htodo1]
    rcases hsub sl hsl with hold | ⟨off, r, rest, ht', hseg'⟩
    · obtain ⟨p, hp, hpo⟩ := h.slots sl hold hsg
      cases ht : c.todo with
      | nil => rw [ht] at hp; cases hp
      | cons q rest =>
        rw [ht] at hp
        rcases List.mem_cons.1 hp with e | hp'
        · exfalso
          obtain ⟨qo, qr⟩ := q
          rw [e] at hpo
          exact M03_processed_not_pointed_of_exact st hwf c sid qo qr rest hsrc ht hreal' hne hex
            sl hsl ⟨hsg, hpo⟩
        · exact ⟨p, hp', hpo⟩
    · exfalso
      exact (writeRecord_sealed hwf.ids hseg hfull r.encode).1 (hseg'.symm.trans hsg)
  obtain ⟨q, hlb, hq⟩ := h.pick
  exact ⟨hsrc1, hseg1, hfull, hrec1, hslots1, q, compactRecord_lb c hlb, hq⟩

/-- One copy step keeps `WF3x` and the contents. -/
theorem record_wf3x {st : MState} (h : st.WF3x) {c : CompState} {sid : Nat} {S : MSeg}
    (hc : CursorAt st c sid S) :
    (st.compactRecord c).1.WF3x ∧ (st.compactRecord c).1.abs = st.abs := by
  have hreal := hc.real h.1.1.ids
  exact ⟨wf3x_intro (compactRecord_wf3o h.core c hreal)
    (compactRecord_segLastO h.1 h.2.2.1 h.2.2.2 c hreal), (M04_compactRecord st h.1 c hreal).2⟩

/-- One copy step keeps `CurNewest` (with the rest of `WF3`). -/
theorem record_newest {st : MState} (h : st.WF3) {c : CompState} {sid : Nat} {S : MSeg}
    (hc : CursorAt st c sid S) : (st.compactRecord c).1.CurNewest :=
  (compactRecord_wf3c h.core c (hc.real h.1.1.ids)).2.2

/-- Removing the source once every record has been processed keeps `WF3` and the contents. -/
theorem cursor_end {st : MState} (h : st.WF3x) {c : CompState} {sid : Nat} {S : MSeg}
    (hc : CursorAt st c sid S) (ht : c.todo = []) :
    (st.removeSeg sid).WF3x ∧ (st.removeSeg sid).abs = st.abs := by
  obtain ⟨h2, hlc, hN, hSL⟩ := h
  have hSm : S ∈ st.segs := (seg?_some hc.seg).1
  have hSid : S.id = sid := (seg?_some hc.seg).2
  have hno : ∀ sl ∈ st.idx.slots, sl.seg ≠ sid := by
    intro sl hsl e
    obtain ⟨p, hp, _⟩ := hc.slots sl hsl e
    rw [ht] at hp; cases hp
  obtain ⟨hwfR, habsR⟩ := M03_removeSeg_refines st h2.1 sid hno
  have hw2 : (st.removeSeg sid).WF2 := by
    refine ⟨hwfR, exact_of_allOK ?_, ?_⟩
    · intro sl hsl
      exact slotOK_congr (segData_removeSeg st sid sl.seg (hno sl hsl)) (h2.ok sl hsl)
    · intro s hs
      have hs' : s ∈ st.segs.filter (·.id != sid) := hs
      exact h2.2.2 s (List.mem_filter.1 hs').1
  have hcond : hasDelete S = false ∨ ∀ o ∈ st.segs, S.seq ≤ o.seq := by
    obtain ⟨q, hlb, hq⟩ := hc.pick
    rcases hq with hq | hq
    · exact Or.inl hq
    · right; intro o ho; have := hlb.1 o ho; omega
  refine ⟨⟨hw2, ?_, SegsOrd.filter hN _, removeSeg_segLast hSL sid hno⟩, habsR⟩
  subst hSid
  exact removeSeg_coupled h2 hlc hSL hN.seqs hSm hcond hno habsR

/-- Sealing one segment keeps `WF3x` and the contents. -/
theorem compactBegin_wf3x {st : MState} (h : st.WF3x) (id : Nat) :
    (st.compactBegin [id]).1.WF3x ∧ (st.compactBegin [id]).1.abs = st.abs := by
  obtain ⟨h2, hlc, hN, hSL⟩ := h
  obtain ⟨h1, habs1⟩ := compactBegin_wf2 h2 [id]
  have hSL1 := compactBegin_segLast h2 hSL [id]
  have hsegs1 : (st.compactBegin [id]).1.segs =
      st.segs.map (fun x => if [id].contains x.id then { x with full := true } else x) := rfl
  have hgseq : ∀ x : MSeg, ((fun x : MSeg => if [id].contains x.id then { x with full := true } else x) x).seq
      = x.seq := by intro x; dsimp only; split <;> rfl
  have hgents : ∀ x : MSeg,
      segEnts ((fun x : MSeg => if [id].contains x.id then { x with full := true } else x) x)
      = segEnts x := by intro x; dsimp only; split <;> rfl
  have hlog1 : slog (st.compactBegin [id]).1.segs = slog st.segs := by
    rw [hsegs1]; exact slog_map _ hgseq hgents _
  have hlc1 : (st.compactBegin [id]).1.LogCoupled := by
    rw [logCoupled_iff, hlog1, habs1]; exact (logCoupled_iff st).1 hlc
  have hN1 : (st.compactBegin [id]).1.CurOrd := by
    show SegsOrd _ st.maxSeq
    rw [hsegs1]
    refine SegsOrd.map hN _ (fun x _ => hgseq x) ?_
    intro x _ hf
    split at hf
    · cases hf
    · exact hf
  exact ⟨⟨h1, hlc1, hN1, hSL1⟩, habs1⟩

/-- Sealing one segment keeps `CurNewest` (an EMPTY one included: the clause `empty_open`, which
sealing an empty segment broke, is no longer part of `SegsNewest`). -/
theorem compactBegin_newest {st : MState} (hN : st.CurNewest) (id : Nat) :
    (st.compactBegin [id]).1.CurNewest := by
  have hsegs1 : (st.compactBegin [id]).1.segs =
      st.segs.map (fun x => if [id].contains x.id then { x with full := true } else x) := rfl
  have hgseq : ∀ x : MSeg, ((fun x : MSeg => if [id].contains x.id then { x with full := true } else x) x).seq
      = x.seq := by intro x; dsimp only; split <;> rfl
  show SegsNewest _ st.maxSeq
  rw [hsegs1]
  refine SegsNewest.map hN _ (fun x _ => hgseq x) ?_
  intro x _ hf
  split at hf
  · cases hf
  · exact hf

/-- The cursor at the beginning of a compaction of segment `id` that satisfies the pick rule. -/
theorem cursor_begin {st : MState} (h2 : st.WF2) (hN : st.CurOrd) (id : Nat) {s : MSeg}
    (hs : st.seg? id = some s) (hc : st.CompactOK (.compact id)) :
    CursorAt (st.compactBegin [id]).1 ⟨[], some id, recsWithOffsets s.data, true, false⟩ id
      { s with full := true } := by
  have hid : s.id = id := (seg?_some hs).2
  have hsm : s ∈ st.segs := (seg?_some hs).1
  subst hid
  obtain ⟨h1, _⟩ := compactBegin_wf2 h2 [s.id]
  have hseg1 := compactBegin_seg? st s.id hs
  have hmem1 : ({ s with full := true } : MSeg) ∈ (st.compactBegin [s.id]).1.segs := (seg?_some hseg1).1
  have hsegs1 : (st.compactBegin [s.id]).1.segs =
      st.segs.map (fun x => if [s.id].contains x.id then { x with full := true } else x) := rfl
  have hgseq : ∀ x : MSeg, ((fun x : MSeg => if [s.id].contains x.id then { x with full := true } else x) x).seq
      = x.seq := by intro x; dsimp only; split <;> rfl
  refine ⟨rfl, hseg1, rfl, ⟨[], rfl⟩, ?_, ?_⟩
  · intro sl hsl hsg
    obtain ⟨x, hx, hxid, done, r, rest, hrec, _⟩ := slot_record h1 hsl
    have := eq_of_id h1.1.ids hx hmem1 (hxid.trans hsg)
    rw [this] at hrec
    exact ⟨(sl.off, r), by
      show (sl.off, r) ∈ recsWithOffsets s.data
      rw [show s.data = ({ s with full := true } : MSeg).data from rfl, hrec]; simp, rfl⟩
  · rcases hc s hsm rfl with hd | hold
    · exact ⟨0, ⟨fun _ _ => Nat.zero_le _, Nat.zero_le _⟩, Or.inl hd⟩
    · refine ⟨s.seq, ⟨?_, ?_⟩, Or.inr rfl⟩
      · intro o ho
        rw [hsegs1] at ho
        obtain ⟨x, hx, rfl⟩ := List.mem_map.1 ho
        rw [hgseq]; exact hold x hx
      · have := hN.le_max s hsm
        show s.seq ≤ st.maxSeq + 1
        omega

end MState
end Pogreb
