/-
  Helper lemmas for M11 (power failures across sessions): the model state whose segment files are
  replaced by the bytes of a power-loss image (`MState.withFiles`), the position of the current segment
  after recovery and after a clean reopen (`CurTop`), the shape of the segment table after recovery in
  terms of the table before, and a choice-free "pick one witness per segment id".
-/
import Pogreb.Lemmas.Sessions
import Pogreb.Lemmas.ModelPowerLoss
namespace Pogreb
open MState
namespace MState

/-! ### the state as the image has it -/

/-- The bytes of the file with sequence id `seq` in an image. -/
def imgBytes (img : SegFS) (seq : Nat) : Option Bytes :=
  (img.find? (fun f => f.seq == seq)).map (·.bytes)

/-- Replace the data of every segment by the bytes its file has in the image (matched by sequence
id); id, sequence id and everything else is kept. (An admissible image has exactly the files of the
state, because directory operations are durable.) -/
def withFiles (st : MState) (img : SegFS) : MState :=
  { st with segs := st.segs.map fun s =>
      match imgBytes img s.seq with
      | some b => { s with data := b }
      | none => s }

/-- The same with the bytes given per segment id. -/
def setData (f : Nat → Bytes) (s : MSeg) : MSeg := { s with data := f s.id }

@[simp] theorem setData_id (f : Nat → Bytes) (s : MSeg) : (setData f s).id = s.id := rfl
@[simp] theorem setData_seq (f : Nat → Bytes) (s : MSeg) : (setData f s).seq = s.seq := rfl
@[simp] theorem setData_data (f : Nat → Bytes) (s : MSeg) : (setData f s).data = f s.id := rfl

theorem find_seq_map (g : MSeg → SegFile) (hg : ∀ x, (g x).seq = x.seq) :
    ∀ (l : List MSeg), (l.map (·.seq)).Nodup → ∀ s ∈ l,
      (l.map g).find? (fun f => f.seq == s.seq) = some (g s)
  | [], _, s, h => by cases h
  | x :: xs, hnd, s, h => by
    rw [List.map_cons, List.nodup_cons] at hnd
    rw [List.map_cons, List.find?_cons, hg]
    rcases List.mem_cons.1 h with rfl | h'
    · simp
    · have hne : x.seq ≠ s.seq := by
        intro e
        apply hnd.1
        rw [e]
        exact List.mem_map.2 ⟨s, h', rfl⟩
      have : (x.seq == s.seq) = false := by simpa using hne
      rw [this]
      exact find_seq_map g hg xs hnd.2 s h'

/-- The segments of `withFiles` for an image that holds exactly the files of the state. -/
theorem withFiles_segs (st : MState) (hseqs : (st.segs.map (·.seq)).Nodup) (f : Nat → Bytes) :
    (st.withFiles ((sortBySeq st.segs).map fun s => ⟨s.seq, f s.id⟩)).segs = st.segs.map (setData f) := by
  have hperm := sortBySeq_perm st.segs
  show st.segs.map _ = _
  apply List.map_congr_left
  intro s hs
  have hfind := find_seq_map (fun s => (⟨s.seq, f s.id⟩ : SegFile)) (fun _ => rfl) (sortBySeq st.segs)
    ((hperm.map (·.seq)).nodup_iff.2 hseqs) s (hperm.mem_iff.2 hs)
  unfold imgBytes
  rw [hfind]
  rfl

theorem map_setData_ids (f : Nat → Bytes) (segs : List MSeg) :
    (segs.map (setData f)).map (·.id) = segs.map (·.id) := by
  rw [List.map_map]; rfl

theorem map_setData_seqs (f : Nat → Bytes) (segs : List MSeg) :
    (segs.map (setData f)).map (·.seq) = segs.map (·.seq) := by
  rw [List.map_map]; rfl

/-- The files of the state with the image's bytes are the image. -/
theorem filesOf_setData (f : Nat → Bytes) (segs : List MSeg) :
    filesOf (segs.map (setData f)) = (sortBySeq segs).map fun s => (⟨s.seq, f s.id⟩ : SegFile) := by
  unfold filesOf
  rw [sortBySeq_map (setData f) (fun _ => rfl), List.map_map]
  rfl

/-! ### where the current segment is after `swapSegment` -/

theorem swap_cur_mem (st : MState) :
    ∃ y ∈ st.swapSegment.segs, y.full = false ∧ st.swapSegment.cur = some y.id := by
  unfold swapSegment
  split
  · rename_i s hs
    refine ⟨s, List.mem_of_find?_eq_some hs, ?_, rfl⟩
    simpa using List.find?_some hs
  · exact ⟨_, mem_insertSeg_self _ _, rfl, rfl⟩

/-! ### recovery -/

/-- After recovery (from any files with distinct ids and sequence ids) the newest segment is the
current one and the only writable one. -/
theorem recover_curTop (st : MState) (hids : (st.segs.map (·.id)).Nodup) (seed : UInt32) :
    (st.reopenRecover seed).CurTop := by
  obtain ⟨l, hl, hlmax, hsegs, _, _⟩ := recover_segs' st hids seed
  obtain ⟨hwf0, _, _⟩ := recover0_wf st hids seed
  have hids0 := hwf0.ids
  obtain ⟨y, hy, hyf, hyc⟩ : ∃ y ∈ (st.reopenRecover seed).segs, y.full = false ∧
      (st.reopenRecover seed).cur = some y.id := by
    rw [reopenRecover_eq]; exact swap_cur_mem _
  -- a writable segment of the recovered state is (the truncation of) `l`
  have hopen : ∀ s ∈ (st.reopenRecover seed).segs, s.full = false →
      s = sealSeg (some l.id) (truncSeg l) := by
    intro s hs hf
    rw [hsegs] at hs
    obtain ⟨a, ha, rfl⟩ := List.mem_map.1 hs
    have hal : a.id = l.id := by
      unfold sealSeg at hf
      split at hf
      · rename_i he; simpa using he
      · cases hf
    rw [eq_of_id hids0 ha hl hal]
  have hyl : y.id = l.id := by rw [hopen y hy hyf]; simp
  have hlmem : sealSeg (some l.id) (truncSeg l) ∈ (st.reopenRecover seed).segs := by
    rw [hsegs]; exact List.mem_map.2 ⟨l, hl, rfl⟩
  refine ⟨?_, ?_, ?_⟩
  · intro c hc
    rw [hyc] at hc
    exact ⟨y, hy, Option.some.inj hc⟩
  · intro s hs hf
    rw [hyc, hyl, hopen s hs hf]; simp
  · intro s hs hc z hz
    rw [hyc, hyl] at hc
    have hsl : s.id = l.id := (Option.some.inj hc).symm
    rw [hsegs] at hs hz
    obtain ⟨a, ha, rfl⟩ := List.mem_map.1 hs
    obtain ⟨b, hb, rfl⟩ := List.mem_map.1 hz
    simp only [sealSeg_id, truncSeg_id] at hsl
    rw [eq_of_id hids0 ha hl hsl]
    simp only [sealSeg_seq, truncSeg_seq]
    exact hlmax b hb

/-- The segment table after recovery in terms of the table before (when there is a file at all):
every file truncated to its valid prefix, all but the newest sealed; the newest is current. -/
theorem recover_shape (st : MState) (hids : (st.segs.map (·.id)).Nodup) (seed : UInt32)
    (hne : st.segs ≠ []) :
    ∃ L ∈ st.segs, (∀ y ∈ st.segs, y.seq ≤ L.seq) ∧
      (st.reopenRecover seed).segs =
        st.segs.map (fun s => sealSeg (some L.id) (truncSeg (clearSeg s))) ∧
      (st.reopenRecover seed).cur = some L.id := by
  obtain ⟨l, hl, hlmax, hsegs, _, _⟩ := recover_segs' st hids seed
  have h0 : (recover0 st seed).segs = st.segs.map clearSeg := by
    rcases recover0_segs st seed with ⟨h, _⟩ | ⟨_, h⟩
    · exact absurd h hne
    · exact h
  rw [h0] at hl hlmax hsegs
  obtain ⟨L, hL, rfl⟩ := List.mem_map.1 hl
  have hmax : ∀ y ∈ st.segs, y.seq ≤ L.seq := fun y hy => hlmax (clearSeg y) (List.mem_map.2 ⟨y, hy, rfl⟩)
  have hsegs' : (st.reopenRecover seed).segs =
      st.segs.map (fun s => sealSeg (some L.id) (truncSeg (clearSeg s))) := by
    rw [hsegs, List.map_map]; rfl
  refine ⟨L, hL, hmax, hsegs', ?_⟩
  have ht := recover_curTop st hids seed
  have hLmem : sealSeg (some L.id) (truncSeg (clearSeg L)) ∈ (st.reopenRecover seed).segs := by
    rw [hsegs']; exact List.mem_map.2 ⟨L, hL, rfl⟩
  have hLf : (sealSeg (some L.id) (truncSeg (clearSeg L))).full = false := by
    simp [sealSeg, clearSeg, truncSeg]
  have := ht.open_cur _ hLmem hLf
  rw [this]; simp [clearSeg]

/-- The scan of a truncated file is the scan of the file. -/
theorem scan_trunc (b : Bytes) : (scan (b.take (scan b).2)).1 = (scan b).1 := by
  rw [← scan_prefix, scan_encodeAll' _ (scan_fits b)]

/-! ### clean reopen -/

/-- A clean reopen keeps the position of the current segment: the writable segment (the old current
one) stays current, or - when every segment is sealed - a fresh newest one is created. -/
theorem reopenClean_curTop {st : MState} (ht : st.CurTop) :
    st.reopenClean.CurTop := by
  rw [reopenClean_eq]
  have hsegs0 : st.reopenPre.segs = st.segs := rfl
  have hmax0 : st.reopenPre.maxSeq = st.segs.foldl (fun m s => max m s.seq) 0 := rfl
  cases hfind : st.reopenPre.segs.find? (fun s => !s.full) with
  | some s =>
    have hsw : st.reopenPre.swapSegment = { st.reopenPre with cur := some s.id } := by
      unfold swapSegment; rw [hfind]
    have hs : s ∈ st.segs := List.mem_of_find?_eq_some hfind
    have hsf : s.full = false := by simpa using List.find?_some hfind
    have hsc : st.cur = some s.id := ht.open_cur s hs hsf
    rw [hsw]
    refine ⟨?_, ?_, ?_⟩
    · intro c hc
      exact ⟨s, hs, Option.some.inj hc⟩
    · intro s' hs' hf'
      have := ht.open_cur s' hs' hf'
      rw [hsc] at this
      exact this
    · intro s' hs' hc' y hy
      have hc'' : st.cur = some s'.id := by rw [hsc]; exact hc'
      exact ht.cur_newest s' hs' hc'' y hy
  | none =>
    have hall : ∀ x ∈ st.segs, x.full = true := by
      intro x hx
      have := List.find?_eq_none.1 hfind x hx
      simpa using this
    have hsw : st.reopenPre.swapSegment =
        { st.reopenPre with
          segs := insertSeg st.segs ⟨freeId st.segs (st.segs.length + 1) 0, st.reopenPre.maxSeq + 1, [], false⟩,
          cur := some (freeId st.segs (st.segs.length + 1) 0), maxSeq := st.reopenPre.maxSeq + 1 } := by
      unfold swapSegment; rw [hfind]; rfl
    rw [hsw]
    have hperm := insertSeg_perm st.segs
      ⟨freeId st.segs (st.segs.length + 1) 0, st.reopenPre.maxSeq + 1, [], false⟩
    have hnew : ∀ x ∈ insertSeg st.segs
        ⟨freeId st.segs (st.segs.length + 1) 0, st.reopenPre.maxSeq + 1, [], false⟩,
        x.id = freeId st.segs (st.segs.length + 1) 0 →
        x = ⟨freeId st.segs (st.segs.length + 1) 0, st.reopenPre.maxSeq + 1, [], false⟩ := by
      intro x hx hid
      rcases List.mem_cons.1 (hperm.mem_iff.1 hx) with e | hx'
      · exact e
      · exact absurd hid (freeId_fresh' st.segs x hx')
    refine ⟨?_, ?_, ?_⟩
    · intro c hc
      exact ⟨_, mem_insertSeg_self _ _, Option.some.inj hc⟩
    · intro s' hs' hf'
      rcases List.mem_cons.1 (hperm.mem_iff.1 hs') with e | hx'
      · rw [e]
      · rw [hall s' hx'] at hf'; cases hf'
    · intro s' hs' hc' y hy
      have hid : s'.id = freeId st.segs (st.segs.length + 1) 0 := (Option.some.inj hc').symm
      rw [hnew s' hs' hid]
      rcases List.mem_cons.1 (hperm.mem_iff.1 hy) with e | hy'
      · rw [e]; exact Nat.le_refl _
      · have := (foldl_max_ge st.segs 0).2 y hy'
        show y.seq ≤ st.reopenPre.maxSeq + 1
        rw [hmax0]; omega

/-! ### one witness per segment id, without choice -/

theorem exists_fun_of_forall_mem (P : MSeg → Nat → Prop) :
    ∀ (l : List MSeg), (l.map (·.id)).Nodup → (∀ s ∈ l, ∃ c, P s c) →
      ∃ cut : Nat → Nat, ∀ s ∈ l, P s (cut s.id)
  | [], _, _ => ⟨fun _ => 0, fun _ h => by cases h⟩
  | x :: xs, hnd, h => by
    rw [List.map_cons, List.nodup_cons] at hnd
    obtain ⟨c, hc⟩ := h x List.mem_cons_self
    obtain ⟨cut, hcut⟩ := exists_fun_of_forall_mem P xs hnd.2
      (fun s hs => h s (List.mem_cons_of_mem _ hs))
    refine ⟨fun id => if id = x.id then c else cut id, ?_⟩
    intro s hs
    rcases List.mem_cons.1 hs with rfl | hs'
    · show P s (if s.id = s.id then c else cut s.id)
      rw [if_pos rfl]; exact hc
    · have hne : s.id ≠ x.id := by
        intro e
        apply hnd.1
        rw [← e]
        exact List.mem_map.2 ⟨s, hs', rfl⟩
      show P s (if s.id = x.id then c else cut s.id)
      rw [if_neg hne]; exact hcut s hs'

theorem recoverLog_map {α} (g : α → SegFile) (l : List α) :
    recoverLog (l.map g) = l.flatMap (fun s => (g s).ents) := by
  unfold recoverLog
  induction l with
  | nil => rfl
  | cons x xs ih => simp only [List.map_cons, List.flatMap_cons, ih]

end MState
end Pogreb
