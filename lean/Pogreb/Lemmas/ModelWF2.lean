/-
  Lemmas for Props/M04: the strengthened invariant (`SlotOK` for every slot, every segment clean)
  in terms of `segData`, kept by `writeRecord`, index-only put/delete, repoint, and replay.
-/
import Pogreb.Props.M02
import Pogreb.Props.M03
namespace Pogreb
namespace MState

/-! ### clean byte strings and `recsWithOffsets` -/

/-- A byte string made of whole valid records. -/
def CleanD (d : Bytes) : Prop := (scan d).2 = d.length

theorem cleanD_eq {d : Bytes} (h : CleanD d) : encodeAll (scan d).1 = d := by
  have := scan_prefix d
  rw [h, List.take_length] at this
  exact this

theorem cleanD_nil : CleanD [] := by unfold CleanD; rw [scan_nil]; rfl

theorem cleanD_encodeAll (rs : List Rec) (hf : ∀ r ∈ rs, r.Fits) : CleanD (encodeAll rs) := by
  unfold CleanD; rw [scan_encodeAll' rs hf]

theorem cleanD_take (d : Bytes) : CleanD (d.take (scan d).2) := by
  rw [← scan_prefix]; exact cleanD_encodeAll _ (scan_fits d)

theorem go_append (a b : List Rec) : ∀ o : Nat,
    recsWithOffsets.go o (a ++ b) = recsWithOffsets.go o a ++ recsWithOffsets.go (o + (encodeAll a).length) b := by
  induction a with
  | nil => intro o; simp [recsWithOffsets.go]
  | cons x xs ih =>
    intro o
    rw [List.cons_append, go_cons, go_cons, ih, encodeAll_cons, List.length_append, List.cons_append]
    congr 3
    omega

theorem recs_encodeAll (rs : List Rec) (hf : ∀ r ∈ rs, r.Fits) :
    recsWithOffsets (encodeAll rs) = recsWithOffsets.go headerSize rs := recsWithOffsets_clean rs hf

/-- Appending a whole record to a clean byte string. -/
theorem recs_append {d : Bytes} {r : Rec} (h : CleanD d) (hf : r.Fits) :
    CleanD (d ++ r.encode) ∧
    recsWithOffsets (d ++ r.encode) = recsWithOffsets d ++ [(headerSize + d.length, r)] := by
  have hd := cleanD_eq h
  have hfs : ∀ x ∈ (scan d).1 ++ [r], x.Fits := by
    intro x hx
    rcases List.mem_append.1 hx with hx | hx
    · exact scan_fits d x hx
    · rw [List.mem_singleton.1 hx]; exact hf
  have he : d ++ r.encode = encodeAll ((scan d).1 ++ [r]) := by
    rw [encodeAll_append, hd]; simp
  constructor
  · rw [he]; exact cleanD_encodeAll _ hfs
  · rw [he, recs_encodeAll _ hfs, go_append, hd]
    have : recsWithOffsets d = recsWithOffsets.go headerSize (scan d).1 := rfl
    rw [this]; rfl

theorem go_ge : ∀ (rs : List Rec) (o : Nat), ∀ p ∈ recsWithOffsets.go o rs, o ≤ p.1
  | [], _, p, hp => by simp [recsWithOffsets.go] at hp
  | r :: rs, o, p, hp => by
    rw [go_cons] at hp
    rcases List.mem_cons.1 hp with rfl | hp
    · exact Nat.le_refl _
    · have := go_ge rs _ p hp; omega

theorem go_sorted : ∀ (rs : List Rec) (o : Nat),
    (recsWithOffsets.go o rs).Pairwise (fun a b => a.1 < b.1)
  | [], _ => by simp [recsWithOffsets.go]
  | r :: rs, o => by
    rw [go_cons, List.pairwise_cons]
    refine ⟨?_, go_sorted rs _⟩
    intro p hp
    have := go_ge rs _ p hp
    have hl := Rec.encode_length r
    show o < p.1
    omega

theorem sorted_unique {α} {l : List (Nat × α)} (h : l.Pairwise (fun a b => a.1 < b.1))
    {x y : Nat × α} (hx : x ∈ l) (hy : y ∈ l) (he : x.1 = y.1) : x = y := by
  induction l with
  | nil => cases hx
  | cons a l ih =>
    rw [List.pairwise_cons] at h
    rcases List.mem_cons.1 hx with hx' | hx' <;> rcases List.mem_cons.1 hy with hy' | hy'
    · rw [hx', hy']
    · have := h.1 y hy'; rw [hx'] at he; omega
    · have := h.1 x hx'; rw [hy'] at he; omega
    · exact ih h.2 hx' hy'

/-- An offset identifies the record in `recsWithOffsets`. -/
theorem recs_unique {d : Bytes} {x y : Nat × Rec} (hx : x ∈ recsWithOffsets d) (hy : y ∈ recsWithOffsets d)
    (he : x.1 = y.1) : x = y :=
  sorted_unique (go_sorted _ _) hx hy he

/-! ### the invariant in terms of `segData` -/

def SlotOKD (sl : Slot) (d : Bytes) : Prop :=
  ∃ done r rest, recsWithOffsets d = done ++ (sl.off, r) :: rest ∧
    r.del = false ∧ sl.ksz = r.key.length ∧ sl.vsz = r.val.length

def SlotOK (st : MState) (sl : Slot) : Prop := ∃ d, st.segData sl.seg = some d ∧ SlotOKD sl d

def AllOK (st : MState) : Prop := ∀ sl ∈ st.idx.slots, st.SlotOK sl

def AllClean (st : MState) : Prop := ∀ id d, st.segData id = some d → CleanD d

theorem slotOKD_append {sl : Slot} {d : Bytes} {r : Rec} (h : SlotOKD sl d) (hc : CleanD d) (hf : r.Fits) :
    SlotOKD sl (d ++ r.encode) := by
  obtain ⟨done, r0, rest, h1, h2⟩ := h
  refine ⟨done, r0, rest ++ [(headerSize + d.length, r)], ?_, h2⟩
  rw [(recs_append hc hf).2, h1]; simp

theorem slotOK_congr {st st' : MState} {sl : Slot} (h : st'.segData sl.seg = st.segData sl.seg)
    (hok : st.SlotOK sl) : st'.SlotOK sl := by
  obtain ⟨d, hd, h2⟩ := hok
  exact ⟨d, by rw [h]; exact hd, h2⟩

theorem segData_mem {st : MState} {id : Nat} {d : Bytes} (h : st.segData id = some d) :
    ∃ s ∈ st.segs, s.id = id ∧ s.data = d := by
  unfold segData at h
  cases hs : st.seg? id with
  | none => rw [hs] at h; cases h
  | some s =>
    rw [hs] at h
    obtain ⟨hm, hid⟩ := seg?_some hs
    exact ⟨s, hm, hid, Option.some.inj h⟩

theorem segData_of_mem {st : MState} (hids : (st.segs.map (·.id)).Nodup) {s : MSeg} (hs : s ∈ st.segs) :
    st.segData s.id = some s.data := by
  unfold segData; rw [seg?_of_mem hids hs]; rfl

/-- What `writeRecord` of a whole record does to the invariant. -/
theorem writeRecord_ok {st : MState} (hids : (st.segs.map (·.id)).Nodup) (hc : st.AllClean) {r : Rec}
    (hf : r.Fits) :
    (st.writeRecord r.encode).1.AllClean ∧
    (∀ sl, st.SlotOK sl → (st.writeRecord r.encode).1.SlotOK sl) ∧
    ∃ old, CleanD old ∧
      (st.writeRecord r.encode).1.segData (st.writeRecord r.encode).2.1 = some (old ++ r.encode) ∧
      (st.writeRecord r.encode).2.2 = headerSize + old.length := by
  obtain ⟨old, _, _, _, hoff, hnew, hold, hoth⟩ := writeRecord_spec st r.encode hids
  have hco : CleanD old := by
    rcases hold with h | ⟨_, h⟩
    · exact hc _ _ h
    · rw [h]; exact cleanD_nil
  refine ⟨?_, ?_, old, hco, hnew, hoff⟩
  · intro id d hd
    by_cases hid : id = (st.writeRecord r.encode).2.1
    · rw [hid, hnew] at hd
      rw [← Option.some.inj hd]
      exact (recs_append hco hf).1
    · rcases hoth id hid with h | ⟨_, h⟩
      · rw [h] at hd; exact hc _ _ hd
      · rw [h] at hd; rw [← Option.some.inj hd]; exact cleanD_nil
  · intro sl ⟨d, hd, hok⟩
    by_cases hid : sl.seg = (st.writeRecord r.encode).2.1
    · rcases hold with h | ⟨h, _⟩
      · rw [← hid, hd] at h
        have hdo : d = old := Option.some.inj h
        refine ⟨old ++ r.encode, by rw [hid]; exact hnew, ?_⟩
        rw [← hdo]
        exact slotOKD_append hok (hdo ▸ hco) hf
      · rw [← hid, hd] at h; cases h
    · rcases hoth sl.seg hid with h | ⟨h, _⟩
      · exact ⟨d, by rw [h]; exact hd, hok⟩
      · rw [hd] at h; cases h

/-! ### Put / Delete -/

theorem put_ok {st : MState} (hwf : st.WF) (hok : st.AllOK) (hac : st.AllClean) (r : Rec)
    (hdel : r.del = false) (hf : r.Fits) :
    ({ (st.writeRecord r.encode).1 with
        idx := (st.writeRecord r.encode).1.idx.put loadPolicy
          ⟨st.hashOf r.key, (st.writeRecord r.encode).2.1, r.key.length, r.val.length,
            (st.writeRecord r.encode).2.2⟩
          ((st.writeRecord r.encode).1.matchKey r.key) } : MState).AllOK ∧
    ({ (st.writeRecord r.encode).1 with
        idx := (st.writeRecord r.encode).1.idx.put loadPolicy
          ⟨st.hashOf r.key, (st.writeRecord r.encode).2.1, r.key.length, r.val.length,
            (st.writeRecord r.encode).2.2⟩
          ((st.writeRecord r.encode).1.matchKey r.key) } : MState).AllClean := by
  obtain ⟨hwf1, hidx, hseed, _, _⟩ := writeRecord_wf hwf r.encode
  obtain ⟨hac1, hsl1, old, hco, hnew, hoff⟩ := writeRecord_ok hwf.ids hac hf
  generalize st.writeRecord r.encode = w at *
  obtain ⟨st1, seg, off⟩ := w
  dsimp only at *
  have hnew' : st1.segData seg = some (old ++ r.encode ++ []) := by rw [List.append_nil]; exact hnew
  have hkey : st1.readKey ⟨st.hashOf r.key, seg, r.key.length, r.val.length, off⟩ = some r.key :=
    (reads_at_record (st := st1) (sl := ⟨st.hashOf r.key, seg, r.key.length, r.val.length, off⟩)
      hnew' hoff rfl).1
  have hh : st.hashOf r.key = st1.hashOf r.key := by unfold hashOf; rw [hseed]
  refine ⟨?_, fun id d hd => hac1 id d hd⟩
  intro sl hsl
  rcases put_idx_slots hwf1 r.key _ hkey hh sl hsl with h | h
  · rw [hidx] at h
    exact slotOK_congr rfl (hsl1 sl (hok sl h))
  · subst h
    refine ⟨old ++ r.encode, hnew, recsWithOffsets old, r, [], ?_, hdel, rfl, rfl⟩
    rw [(recs_append hco hf).2, hoff]

theorem delete_ok {st : MState} (hwf : st.WF) (hok : st.AllOK) (hac : st.AllClean) (r : Rec) (hf : r.Fits) :
    ({ (st.writeRecord r.encode).1 with
        idx := (st.writeRecord r.encode).1.idx.delete (st.hashOf r.key)
          ((st.writeRecord r.encode).1.matchKey r.key) } : MState).AllOK ∧
    ({ (st.writeRecord r.encode).1 with
        idx := (st.writeRecord r.encode).1.idx.delete (st.hashOf r.key)
          ((st.writeRecord r.encode).1.matchKey r.key) } : MState).AllClean := by
  obtain ⟨hwf1, hidx, hseed, _, _⟩ := writeRecord_wf hwf r.encode
  obtain ⟨hac1, hsl1, _⟩ := writeRecord_ok hwf.ids hac hf
  have hh : st.hashOf r.key = (st.writeRecord r.encode).1.hashOf r.key := by unfold hashOf; rw [hseed]
  rw [hh]
  refine ⟨?_, fun id d hd => hac1 id d hd⟩
  intro sl hsl
  have h := delete_idx_slots hwf1 r.key sl hsl
  rw [hidx] at h
  exact slotOK_congr rfl (hsl1 sl (hok sl h))

/-! ### one compaction step -/

/-- `compactRecord_step`, remembering that the first `repoint` succeeded in the copying cases. -/
theorem compactRecord_step' (st : MState) (c : CompState) (src off : Nat) (r : Rec)
    (rest : List (Nat × Rec)) (hs : c.source = some src) (ht : c.todo = (off, r) :: rest) :
    (r.del = true ∧ (st.compactRecord c).1 = st) ∨
    (r.del = false ∧ st.idx.repoint (st.hashOf r.key) src off src off = none ∧
      (st.compactRecord c).1 = st) ∨
    (r.del = false ∧ (∃ i0, st.idx.repoint (st.hashOf r.key) src off src off = some i0) ∧
      (st.writeRecord r.encode).1.idx.repoint (st.hashOf r.key) src off
        (st.writeRecord r.encode).2.1 (st.writeRecord r.encode).2.2 = none ∧
      (st.compactRecord c).1 = (st.writeRecord r.encode).1) ∨
    (r.del = false ∧ (∃ i0, st.idx.repoint (st.hashOf r.key) src off src off = some i0) ∧ ∃ idx',
      (st.writeRecord r.encode).1.idx.repoint (st.hashOf r.key) src off
        (st.writeRecord r.encode).2.1 (st.writeRecord r.encode).2.2 = some idx' ∧
      (st.compactRecord c).1 = { (st.writeRecord r.encode).1 with idx := idx' }) := by
  unfold compactRecord
  rw [hs, ht]
  dsimp only
  by_cases hd : r.del = true
  · left; rw [if_pos hd]; exact ⟨hd, rfl⟩
  · right
    have hd' : r.del = false := by simpa using hd
    rw [if_neg hd]
    cases h1 : st.idx.repoint (st.hashOf r.key) src off src off with
    | none => left; exact ⟨hd', rfl, rfl⟩
    | some i0 =>
      right
      dsimp only
      cases h2 : (st.writeRecord r.encode).1.idx.repoint (st.hashOf r.key) src off
        (st.writeRecord r.encode).2.1 (st.writeRecord r.encode).2.2 with
      | none => left; exact ⟨hd', ⟨i0, rfl⟩, rfl, rfl⟩
      | some idx' => right; exact ⟨hd', ⟨i0, rfl⟩, idx', rfl, rfl⟩

/-- The strengthened invariant gives the `ExactOn` hypothesis of the M03 theorems. -/
theorem exactOn_of_ok {st : MState} (hok : st.AllOK) {src : Nat} {todo : List (Nat × Rec)}
    (hreal : ∀ s ∈ st.segs, s.id = src → ∃ done, recsWithOffsets s.data = done ++ todo) :
    st.ExactOn src todo := by
  intro p hp sl hsl hseg hoff
  obtain ⟨d, hd, done, r, rest, hrec, hdel, hk, hv⟩ := hok sl hsl
  obtain ⟨s, hs, hid, hdat⟩ := segData_mem hd
  obtain ⟨done', hdn⟩ := hreal s hs (hid.trans hseg)
  rw [hdat] at hdn
  have h1 : p ∈ recsWithOffsets d := by rw [hdn]; exact List.mem_append_right _ hp
  have h2 : (sl.off, r) ∈ recsWithOffsets d := by rw [hrec]; simp
  have := recs_unique h1 h2 hoff.symm
  rw [this]; exact ⟨hdel, hk, hv⟩

theorem compactRecord_ok {st : MState} (hwf : st.WF) (hok : st.AllOK) (hac : st.AllClean) (c : CompState)
    (hreal : ∀ src, c.source = some src → ∀ s ∈ st.segs, s.id = src →
      ∃ done, recsWithOffsets s.data = done ++ c.todo) :
    (st.compactRecord c).1.AllOK ∧ (st.compactRecord c).1.AllClean ∧
    ∀ sl ∈ (st.compactRecord c).1.idx.slots, sl ∈ st.idx.slots ∨
      ∃ off r rest, c.todo = (off, r) :: rest ∧ sl.seg = (st.writeRecord r.encode).2.1 := by
  have hid : st.AllOK ∧ st.AllClean ∧ ∀ sl ∈ st.idx.slots, sl ∈ st.idx.slots ∨
      ∃ off r rest, c.todo = (off, r) :: rest ∧ sl.seg = (st.writeRecord r.encode).2.1 :=
    ⟨hok, hac, fun _ h => Or.inl h⟩
  cases hs : c.source with
  | none => rw [compactRecord_none st c hs]; exact hid
  | some src =>
    cases ht : c.todo with
    | nil => rw [compactRecord_nil st c src hs ht]; rw [ht] at hid; exact hid
    | cons p rest =>
      obtain ⟨off, r⟩ := p
      rw [ht] at hid
      have hfits : (∃ i0, st.idx.repoint (st.hashOf r.key) src off src off = some i0) → r.Fits := by
        rintro ⟨i0, h0⟩
        obtain ⟨s, hs1, _, _, hsg, _⟩ := Index.repoint_some hwf.inv h0
        obtain ⟨sg, hmem, hid', _⟩ := hwf.points s hs1
        obtain ⟨done, hdn⟩ := hreal src hs sg hmem (hid'.trans hsg)
        rw [ht] at hdn
        exact (recs_split hdn).choose_spec.choose_spec.2.2
      obtain ⟨hwf1, hidx, _, _, _⟩ := writeRecord_wf hwf r.encode
      rcases compactRecord_step' st c src off r rest hs ht with
        ⟨_, h⟩ | ⟨_, _, h⟩ | ⟨_, h0, _, h⟩ | ⟨hd, h0, idx', hr, h⟩
      · rw [h]; exact hid
      · rw [h]; exact hid
      · rw [h]
        obtain ⟨hac1, hsl1, _⟩ := writeRecord_ok hwf.ids hac (hfits h0)
        refine ⟨?_, hac1, ?_⟩
        · intro sl hsl
          rw [hidx] at hsl
          exact hsl1 sl (hok sl hsl)
        · intro sl hsl
          rw [hidx] at hsl
          exact Or.inl hsl
      · rw [h]
        have hf := hfits h0
        obtain ⟨hac1, hsl1, old, hco, hnew, hoff⟩ := writeRecord_ok hwf.ids hac hf
        have hfr := writeRecord_fresh hwf r.encode
        obtain ⟨s, hs1, _, ho, hsg, _, hsub⟩ := repoint_slots hwf1 hr (fun a ha hseg => by
          rw [hidx] at ha
          have := hfr a ha hseg
          omega)
        have hs1' : s ∈ st.idx.slots := by rw [hidx] at hs1; exact hs1
        have hex := exactOn_of_ok hok (hreal src hs)
        obtain ⟨_, hk, hv⟩ := hex (off, r) (by rw [ht]; exact List.mem_cons_self) s hs1' hsg ho
        refine ⟨?_, fun id d hd => hac1 id d hd, ?_⟩
        · intro sl hsl
          rcases hsub sl hsl with ⟨hm, _⟩ | he
          · rw [hidx] at hm
            exact slotOK_congr rfl (hsl1 sl (hok sl hm))
          · subst he
            refine ⟨old ++ r.encode, hnew, recsWithOffsets old, r, [], ?_, hd, hk, hv⟩
            rw [(recs_append hco hf).2]
            show _ = _ ++ [((st.writeRecord r.encode).2.2, r)]
            rw [hoff]
        · intro sl hsl
          rcases hsub sl hsl with ⟨hm, _⟩ | he
          · rw [hidx] at hm; exact Or.inl hm
          · subst he
            exact Or.inr ⟨off, r, rest, rfl, rfl⟩

/-! ### a sealed segment is never written to -/

theorem swap_sealed {st : MState} (hids : (st.segs.map (·.id)).Nodup) :
    ∃ c s0, st.swapSegment.cur = some c ∧ st.swapSegment.seg? c = some s0 ∧ s0.full = false := by
  unfold swapSegment
  split
  · rename_i x hx
    have hmem := List.mem_of_find?_eq_some hx
    have hnf : x.full = false := by simpa using List.find?_some hx
    exact ⟨x.id, x, rfl, seg?_of_mem (st := { st with cur := some x.id }) hids hmem, hnf⟩
  · refine ⟨_, ⟨freeId st.segs (st.segs.length + 1) 0, st.maxSeq + 1, [], false⟩, rfl, ?_, rfl⟩
    exact find_insertSeg_self st.segs ⟨freeId st.segs (st.segs.length + 1) 0, st.maxSeq + 1, [], false⟩
      (fun x hx => freeId_fresh' st.segs x hx)

theorem swap_keeps {st : MState} {id : Nat} {S : MSeg} (h : st.seg? id = some S) :
    st.swapSegment.seg? id = some S := by
  rw [swap_seg?_old st id (by rw [h]; rfl)]; exact h

theorem wrPre_sealed {st : MState} (hids : (st.segs.map (·.id)).Nodup) {id : Nat} {S : MSeg}
    (h : st.seg? id = some S) (hfull : S.full = true) (data : Bytes) :
    (st.wrPre data).seg? id = some S ∧
    ∃ c s0, (st.wrPre data).cur = some c ∧ (st.wrPre data).seg? c = some s0 ∧ s0.full = false := by
  unfold wrPre
  dsimp only
  cases hcur : st.cur.bind st.seg? with
  | none =>
    simp only [if_true]
    exact ⟨swap_keeps h, swap_sealed hids⟩
  | some s1 =>
    dsimp only
    have hcs : ∃ c, st.cur = some c ∧ st.seg? c = some s1 := by
      cases hc : st.cur with
      | none => simp [hc] at hcur
      | some c => rw [hc] at hcur; exact ⟨c, rfl, hcur⟩
    obtain ⟨c, hc, hcs⟩ := hcs
    by_cases hn : (s1.full || decide (s1.size + data.length > st.cfg.maxSeg)) = true
    · rw [if_pos hn]
      have hkeep : (st.setSeg { s1 with full := true }).seg? id = some S := by
        rw [seg?_setSeg]
        dsimp only
        split
        · rename_i he
          have hci : c = id := (seg?_some hcs).2.symm.trans he
          rw [hci, h] at hcs
          have hS : S = s1 := Option.some.inj hcs
          subst hS
          rw [h]
          cases S
          simp only at hfull
          subst hfull
          rfl
        · exact h
      exact ⟨swap_keeps hkeep, swap_sealed (by rw [setSeg_ids]; exact hids)⟩
    · rw [if_neg hn]
      refine ⟨h, c, s1, hc, hcs, ?_⟩
      cases hf : s1.full with
      | false => rfl
      | true => rw [hf] at hn; simp at hn

/-- `writeRecord` neither targets nor changes a sealed segment. -/
theorem writeRecord_sealed {st : MState} (hids : (st.segs.map (·.id)).Nodup) {id : Nat} {S : MSeg}
    (h : st.seg? id = some S) (hfull : S.full = true) (data : Bytes) :
    (st.writeRecord data).2.1 ≠ id ∧ (st.writeRecord data).1.seg? id = some S := by
  obtain ⟨hkeep, c, s0, hc, hs0, hnf⟩ := wrPre_sealed hids h hfull data
  have hne : s0.id ≠ id := by
    intro e
    have hci : c = id := (seg?_some hs0).2.symm.trans e
    rw [hci, hkeep] at hs0
    have : S = s0 := Option.some.inj hs0
    rw [this, hnf] at hfull
    cases hfull
  rw [writeRecord_eq, hc, Option.bind_some, hs0]
  dsimp only
  refine ⟨hne, ?_⟩
  rw [seg?_setSeg]
  dsimp only
  rw [if_neg hne]
  exact hkeep

theorem compactRecord_sealed {st : MState} (hids : (st.segs.map (·.id)).Nodup) {id : Nat} {S : MSeg}
    (h : st.seg? id = some S) (hfull : S.full = true) (c : CompState) :
    (st.compactRecord c).1.seg? id = some S := by
  cases hs : c.source with
  | none => rw [compactRecord_none st c hs]; exact h
  | some src =>
    cases ht : c.todo with
    | nil => rw [compactRecord_nil st c src hs ht]; exact h
    | cons p rest =>
      obtain ⟨off, r⟩ := p
      rcases compactRecord_step st c src off r rest hs ht with
        ⟨_, e⟩ | ⟨_, _, e⟩ | ⟨_, _, e⟩ | ⟨_, idx', _, e⟩
      · rw [e]; exact h
      · rw [e]; exact h
      · rw [e]; exact (writeRecord_sealed hids h hfull r.encode).2
      · rw [e]; exact (writeRecord_sealed hids h hfull r.encode).2

theorem compactRecord_source (st : MState) (c : CompState) :
    (st.compactRecord c).2.source = c.source := by
  unfold compactRecord
  cases hs : c.source with
  | none => dsimp only; exact hs
  | some src =>
    dsimp only
    cases ht : c.todo with
    | nil => rfl
    | cons p rest =>
      obtain ⟨off, r⟩ := p
      dsimp only
      split
      · rfl
      · split
        · rfl
        · split <;> rfl

/-! ### recovery -/

theorem replayStep_slots {st : MState} (hwf : st.WF) (sid : Nat) (pre : Bytes) (r : Rec) (x : Bytes)
    (hd : st.segData sid = some (pre ++ r.encode ++ x)) (hf : r.Fits) :
    ∀ a ∈ (replayStep sid st (headerSize + pre.length, r)).idx.slots,
      a ∈ st.idx.slots ∨ (r.del = false ∧ a.seg = sid ∧ a.off = headerSize + pre.length ∧
        a.ksz = r.key.length ∧ a.vsz = r.val.length) := by
  obtain ⟨hfk, hfv⟩ := hf
  unfold replayStep
  cases hdel : r.del with
  | true =>
    simp only [if_true]
    exact fun a ha => Or.inl (delete_idx_slots hwf r.key a ha)
  | false =>
    simp only [Bool.false_eq_true, if_false]
    have hkl : r.key.length % 65536 = r.key.length := Nat.mod_eq_of_lt (by omega)
    have hvl : r.val.length % 4294967296 = r.val.length := Nat.mod_eq_of_lt (by omega)
    rw [hkl, hvl]
    have hkey : st.readKey ⟨st.hashOf r.key, sid, r.key.length, r.val.length, headerSize + pre.length⟩
        = some r.key :=
      (reads_at_record (st := st)
        (sl := ⟨st.hashOf r.key, sid, r.key.length, r.val.length, headerSize + pre.length⟩) hd rfl rfl).1
    intro a ha
    rcases put_idx_slots hwf r.key _ hkey rfl a ha with h | h
    · exact Or.inl h
    · right; rw [h]; exact ⟨by trivial, rfl, rfl, rfl, rfl⟩

theorem replay_go_ok (sid : Nat) (all : List Rec) (hall : ∀ r ∈ all, r.Fits) :
    ∀ (rs rs0 : List Rec) (st : MState), all = rs0 ++ rs → st.WF →
      st.segData sid = some (encodeAll all) →
      (∀ a ∈ st.idx.slots, a.seg = sid → a.off < headerSize + (encodeAll rs0).length) →
      st.AllOK →
      ((recsWithOffsets.go (headerSize + (encodeAll rs0).length) rs).foldl (replayStep sid) st).AllOK := by
  intro rs
  induction rs with
  | nil => intro rs0 st _ _ _ _ hok; exact hok
  | cons r rest ih =>
    intro rs0 st hall' hwf hd hfresh hok
    have hfr : r.Fits := hall r (by rw [hall']; simp)
    have hd' : st.segData sid = some (encodeAll rs0 ++ r.encode ++ encodeAll rest) := by
      rw [hd, hall', encodeAll_append, encodeAll_cons, List.append_assoc]
    obtain ⟨hwf1, _, hsl1⟩ := replayStep_spec hwf sid (encodeAll rs0) r (encodeAll rest) hd' hfr hfresh
    have hsl2 := replayStep_slots hwf sid (encodeAll rs0) r (encodeAll rest) hd' hfr
    have hsegs1 := replayStep_segs sid st (headerSize + (encodeAll rs0).length, r)
    have hel : (encodeAll (rs0 ++ [r])).length = (encodeAll rs0).length + r.encode.length := by
      rw [encodeAll_append, List.length_append]; simp
    have hlen : headerSize + (encodeAll rs0).length + r.encode.length =
        headerSize + (encodeAll (rs0 ++ [r])).length := by rw [hel]; omega
    rw [go_cons, List.foldl_cons, hlen]
    apply ih (rs0 ++ [r]) _ (by rw [hall']; simp) hwf1
    · rw [segData_of_segs hsegs1]; exact hd
    · intro a ha hs
      have hl := Rec.encode_length r
      rcases hsl1 a ha with h | ⟨_, h⟩
      · have := hfresh a h hs; omega
      · omega
    · intro a ha
      rcases hsl2 a ha with h | ⟨hdel, hsg, hoff, hk, hv⟩
      · exact slotOK_congr (segData_of_segs hsegs1 a.seg) (hok a h)
      · refine ⟨encodeAll all, by rw [hsg, segData_of_segs hsegs1]; exact hd,
          recsWithOffsets.go headerSize rs0, r,
          recsWithOffsets.go (headerSize + (encodeAll rs0).length + r.encode.length) rest, ?_, hdel, hk, hv⟩
        rw [recs_encodeAll all hall, hall', go_append, go_cons, hoff]

theorem recoverStep_ok {st : MState} (hwf : st.WF) (s : MSeg) (hs : s ∈ st.segs)
    (hno : ∀ a ∈ st.idx.slots, a.seg ≠ s.id) (hok : st.AllOK) : (recoverStep st s).AllOK := by
  have hseg : st.seg? s.id = some s := seg?_of_mem hwf.ids hs
  have hstep : recoverStep st s = (st.setSeg (truncSeg s)).replaySeg (truncSeg s) := by
    unfold recoverStep; rw [hseg]; rfl
  have hsd : st.segData s.id = some s.data := by unfold segData; rw [hseg]; rfl
  have hd1 : ∀ id, id ≠ s.id → (st.setSeg (truncSeg s)).segData id = st.segData id := by
    intro id hne
    rw [segData_setSeg, if_neg (fun e : (truncSeg s).id = id => hne e.symm)]
  obtain ⟨hwf1, _⟩ := wf_congr (st' := st.setSeg (truncSeg s)) hwf
    (by rw [setSeg_ids]; exact hwf.ids) rfl rfl (fun sl hsl => hd1 _ (hno sl hsl))
  have hok1 : (st.setSeg (truncSeg s)).AllOK :=
    fun sl hsl => slotOK_congr (hd1 _ (hno sl hsl)) (hok sl hsl)
  have hdata : (truncSeg s).data = encodeAll (scan s.data).1 := (scan_prefix s.data).symm
  have hsd1 : (st.setSeg (truncSeg s)).segData s.id = some (encodeAll (scan s.data).1) := by
    rw [segData_setSeg, truncSeg_id, if_pos rfl, hsd, ← hdata]; rfl
  have hgo := replay_go_ok s.id (scan s.data).1 (scan_fits s.data) (scan s.data).1 []
    (st.setSeg (truncSeg s)) rfl hwf1 hsd1
    (by intro a ha hs'; exact absurd hs' (hno a ha)) hok1
  rw [hstep, replaySeg_eq, hdata, recsWithOffsets_clean _ (scan_fits s.data)]
  exact hgo

theorem recover_fold_ok : ∀ (todo : List MSeg) (st : MState) (D : List Nat) (L : List E), st.WF →
    (∀ s ∈ todo, s ∈ st.segs) → (todo.map (·.id)).Nodup → (∀ s ∈ todo, s.id ∉ D) →
    (∀ a ∈ st.idx.slots, a.seg ∈ D) → st.abs = contents L → st.AllOK →
    (todo.foldl recoverStep st).AllOK := by
  intro todo
  induction todo with
  | nil => intro st D L _ _ _ _ _ _ hok; exact hok
  | cons s rest ih =>
    intro st D L hwf hmem hnd hnD hD hL hok
    rw [List.map_cons, List.nodup_cons] at hnd
    obtain ⟨h1, h2, h3, h4⟩ := recoverStep_spec hwf s (hmem s List.mem_cons_self) D
      (hnD s List.mem_cons_self) hD L hL
    have hok1 := recoverStep_ok hwf s (hmem s List.mem_cons_self)
      (fun a ha e => hnD s List.mem_cons_self (e ▸ hD a ha)) hok
    have hne : ∀ t ∈ rest, t.id ≠ s.id := by
      intro t ht e
      exact hnd.1 (e ▸ List.mem_map.2 ⟨t, ht, rfl⟩)
    rw [List.foldl_cons]
    exact ih (recoverStep st s) (s.id :: D) (L ++ (scan s.data).1.map Rec.toEnt) h1
      (by
        intro t ht
        rw [h2]
        refine List.mem_map.2 ⟨t, hmem t (List.mem_cons_of_mem _ ht), ?_⟩
        rw [if_neg (hne t ht)])
      hnd.2
      (by
        intro t ht hin
        rcases List.mem_cons.1 hin with e | e
        · exact hne t ht e
        · exact hnD t (List.mem_cons_of_mem _ ht) e)
      h4 h3 hok1

theorem sealAll_segData (stF : MState) (newest : Option Nat) (id : Nat) :
    (sealAll stF newest).segData id = stF.segData id := by
  unfold segData seg? sealAll
  dsimp only
  rw [find_map_id _ (sealSeg_id newest)]
  cases stF.segs.find? (·.id == id) <;> simp

theorem recover_ok (st : MState) (hids : (st.segs.map (·.id)).Nodup) (seed : UInt32) :
    (st.reopenRecover seed).AllOK := by
  obtain ⟨hwf0, habs0, hsl0⟩ := recover0_wf st hids seed
  have hperm := sortBySeq_perm (recover0 st seed).segs
  have hF := recover_fold_ok (sortBySeq (recover0 st seed).segs) (recover0 st seed) [] []
    hwf0 (fun s hs => hperm.mem_iff.1 hs)
    ((hperm.map (·.id)).nodup_iff.2 hwf0.ids)
    (fun _ _ h => by cases h)
    (by intro a ha; rw [hsl0] at ha; cases ha) habs0
    (by intro a ha; rw [hsl0] at ha; cases ha)
  rw [reopenRecover_eq]
  intro sl hsl
  rw [swap_idx] at hsl
  obtain ⟨d, hd, hrest⟩ := hF sl hsl
  refine ⟨d, ?_, hrest⟩
  rcases swap_segData (sealAll ((sortBySeq (recover0 st seed).segs).foldl recoverStep (recover0 st seed))
    ((sortBySeq (recover0 st seed).segs).getLast?.map (·.id))) sl.seg with h | ⟨h, _⟩
  · rw [h, sealAll_segData]; exact hd
  · rw [sealAll_segData, hd] at h; cases h

theorem recover_clean (st : MState) (hids : (st.segs.map (·.id)).Nodup) (seed : UInt32) :
    ∀ s ∈ (st.reopenRecover seed).segs, CleanD s.data := by
  obtain ⟨newest, hsegs⟩ := recover_segs st hids seed
  intro s hs
  rw [hsegs] at hs
  obtain ⟨x, _, rfl⟩ := List.mem_map.1 hs
  rw [sealSeg_data]
  exact cleanD_take x.data

end MState
end Pogreb
