/-
  Helper lemmas for Props/F01: the slot writer and `doSplit`.
-/
import Pogreb.Lemmas.FilePut
namespace Pogreb
namespace FIndex

/-! ### writing a list of buckets -/

def SW.all (w : SW) : List (Ref × FBucket) := w.prevs ++ [(w.ref, w.cur)]

def writeAll (fi : FIndex) (l : List (Ref × FBucket)) : FIndex := l.foldl (fun f p => f.write p.1 p.2) fi

theorem swWrite_eq (fi : FIndex) (w : SW) : swWrite fi w = writeAll fi w.all := by
  simp [swWrite, writeAll, SW.all, List.foldl_append]

theorem writeAll_cons (fi : FIndex) (p : Ref × FBucket) (l : List (Ref × FBucket)) :
    writeAll fi (p :: l) = writeAll (fi.write p.1 p.2) l := rfl

theorem writeAll_fields (fi : FIndex) (l : List (Ref × FBucket)) :
    (writeAll fi l).main.length = fi.main.length ∧ (writeAll fi l).ovf.length = fi.ovf.length ∧
    (writeAll fi l).free = fi.free ∧ (writeAll fi l).level = fi.level ∧ (writeAll fi l).split = fi.split ∧
    (writeAll fi l).numKeys = fi.numKeys := by
  induction l generalizing fi with
  | nil => simp [writeAll]
  | cons p l ih =>
    rw [writeAll_cons]
    have := ih (fi.write p.1 p.2)
    simpa using this

theorem InRange_write (fi : FIndex) (r : Ref) (b : FBucket) (r' : Ref) :
    (fi.write r b).InRange r' ↔ fi.InRange r' := by
  cases r' <;> simp [InRange]

theorem read_writeAll_not_mem (fi : FIndex) (l : List (Ref × FBucket)) (r : Ref) (h : r ∉ l.map (·.1)) :
    (writeAll fi l).read r = fi.read r := by
  induction l generalizing fi with
  | nil => rfl
  | cons p l ih =>
    simp only [List.map_cons, List.mem_cons, not_or] at h
    rw [writeAll_cons, ih _ h.2, read_write_ne _ _ _ _ h.1]

theorem read_writeAll_mem (fi : FIndex) (l : List (Ref × FBucket)) (hnd : (l.map (·.1)).Nodup)
    (hin : ∀ p ∈ l, fi.InRange p.1) (p : Ref × FBucket) (hp : p ∈ l) : (writeAll fi l).read p.1 = p.2 := by
  induction l generalizing fi with
  | nil => cases hp
  | cons q l ih =>
    simp only [List.map_cons, List.nodup_cons] at hnd
    rw [writeAll_cons]
    rcases List.mem_cons.1 hp with rfl | hp'
    · rw [read_writeAll_not_mem _ _ _ hnd.1, read_write_same _ _ _ (hin p List.mem_cons_self)]
    · exact ih _ hnd.2 (fun x hx => (InRange_write _ _ _ _).2 (hin x (List.mem_cons_of_mem _ hx))) hp'

/-! ### the slot writer -/

structure WOk (w : SW) (r0 : Ref) (U : List Nat) (C : SlotWriter) : Prop where
  refs : w.prevs.map (·.1) ++ [w.ref] = refs r0 U
  nexts : w.prevs.map (·.2.next) = U
  cnext : w.cur.next = 0
  done : w.prevs.map (·.2.slots) = C.done
  cur : w.cur.slots = C.cur

theorem WOk.init (r0 : Ref) : WOk ⟨r0, FBucket.empty, []⟩ r0 [] ⟨[], []⟩ :=
  ⟨rfl, rfl, rfl, rfl, rfl⟩

theorem WOk.insert_full {w : SW} {r0 : Ref} {U : List Nat} {C : SlotWriter} (h : WOk w r0 U C)
    (f : FIndex) (sl : Slot) (hfull : w.cur.slots.length = slotsPerBucket) :
    (swInsert f w sl).1 = f.createOverflow.1 ∧
    WOk (swInsert f w sl).2 r0 (U ++ [f.createOverflow.2]) (C.insert sl) := by
  have hc : C.cur.length = slotsPerBucket := by rw [← h.cur]; exact hfull
  simp only [swInsert, hfull, if_true, SlotWriter.insert, hc, true_and]
  refine ⟨?_, ?_, rfl, ?_, rfl⟩
  · simp only [List.map_append, List.map_cons, List.map_nil, refs_append, h.refs]
  · simp [h.nexts]
  · simp [h.done, h.cur]

theorem WOk.insert_room {w : SW} {r0 : Ref} {U : List Nat} {C : SlotWriter} (h : WOk w r0 U C)
    (f : FIndex) (sl : Slot) (hroom : w.cur.slots.length ≠ slotsPerBucket) :
    (swInsert f w sl).1 = f ∧ WOk (swInsert f w sl).2 r0 U (C.insert sl) := by
  have hc : C.cur.length ≠ slotsPerBucket := by rw [← h.cur]; exact hroom
  simp only [swInsert, hroom, if_false, SlotWriter.insert, hc, true_and]
  exact ⟨h.refs, h.nexts, h.cnext, h.done, by simp [h.cur]⟩

theorem WOk.all_fst {w : SW} {r0 : Ref} {U : List Nat} {C : SlotWriter} (h : WOk w r0 U C) :
    w.all.map (·.1) = FIndex.refs r0 U := by
  simp [SW.all, h.refs]

theorem WOk.all_next {w : SW} {r0 : Ref} {U : List Nat} {C : SlotWriter} (h : WOk w r0 U C) :
    w.all.map (·.2.next) = U ++ [0] := by
  simp [SW.all, h.nexts, h.cnext]

theorem WOk.all_slots {w : SW} {r0 : Ref} {U : List Nat} {C : SlotWriter} (h : WOk w r0 U C) :
    w.all.map (·.2.slots) = C.chain := by
  simp [SW.all, h.done, h.cur, SlotWriter.chain]

/-! ### the split loop -/

def splitStep (L S s : Nat) (acc : FIndex × SW × SW) (sl : Slot) : FIndex × SW × SW :=
  if bucketIdx L S sl.hash = s then ((swInsert acc.1 acc.2.1 sl).1, (swInsert acc.1 acc.2.1 sl).2, acc.2.2)
  else ((swInsert acc.1 acc.2.2 sl).1, acc.2.1, (swInsert acc.1 acc.2.2 sl).2)

theorem doSplit_unfold (fi : FIndex) :
    fi.doSplit =
      (let L := nextLevel fi.level fi.split
       let S := nextSplit fi.level fi.split
       let res := ((fi.chainRefs fi.split).flatMap (·.2.slots)).foldl (splitStep L S fi.split)
         ({ fi with main := fi.main ++ [FBucket.empty], level := L, split := S },
           ⟨.main fi.split, FBucket.empty, []⟩, ⟨.main fi.main.length, FBucket.empty, []⟩)
       swWrite (swWrite { res.1 with free := res.1.free ++ fi.ptrs fi.split } res.2.2) res.2.1) := by
  have hstep : ∀ L S s, (fun (acc : FIndex × SW × SW) (sl : Slot) =>
      let (f, upd, nw) := acc
      if bucketIdx L S sl.hash = s then
        let (f', upd') := swInsert f upd sl
        (f', upd', nw)
      else
        let (f', nw') := swInsert f nw sl
        (f', upd, nw')) = splitStep L S s := by
    intro L S s
    funext acc sl
    obtain ⟨f, upd, nw⟩ := acc
    simp only [splitStep]
  unfold doSplit
  by_cases h : fi.split + 1 = 2 ^ fi.level
  · simp only [h, if_true, nextLevel, nextSplit, hstep]
    rfl
  · simp only [h, if_false, nextLevel, nextSplit, hstep]
    rfl

structure SInv (P : Nat → List Nat) (fi1 : FIndex) (f : FIndex) (U N : List Nat) : Prop where
  good : Good f P
  main : f.main.length = fi1.main.length
  read : ∀ r, f.read r = fi1.read r
  level : f.level = fi1.level
  split : f.split = fi1.split
  numKeys : f.numKeys = fi1.numKeys
  ndU : U.Nodup
  ndN : N.Nodup
  djUN : ∀ a ∈ U, a ∉ N
  fresh : ∀ n, n ∈ U ∨ n ∈ N → 1 ≤ n ∧ n ≤ f.ovf.length ∧ n ∉ f.free ∧ ∀ j, j < fi1.main.length → n ∉ P j

theorem SInv.alloc {P : Nat → List Nat} {fi1 f : FIndex} {U N : List Nat} (h : SInv P fi1 f U N) :
    SInv P fi1 f.createOverflow.1 (U ++ [f.createOverflow.2]) N ∧
    SInv P fi1 f.createOverflow.1 U (N ++ [f.createOverflow.2]) := by
  have co := h.good.createOverflow
  generalize f.createOverflow.1 = f0 at co ⊢
  generalize f.createOverflow.2 = n at co ⊢
  have hnew : ∀ a, a ∈ U ∨ a ∈ N → a ≠ n := by
    intro a ha he
    subst he
    obtain ⟨_, h2, h3, _⟩ := h.fresh a ha
    rcases co.norig with h' | h'
    · exact h3 h'
    · omega
  have hfresh : ∀ a, (a ∈ U ∨ a ∈ N) ∨ a = n →
      1 ≤ a ∧ a ≤ f0.ovf.length ∧ a ∉ f0.free ∧ ∀ j, j < fi1.main.length → a ∉ P j := by
    rintro a (ha | rfl)
    · obtain ⟨h1, h2, h3, h4⟩ := h.fresh a ha
      exact ⟨h1, Nat.le_trans h2 co.ovf_le, fun hf => h3 (co.free_sub a hf), h4⟩
    · exact ⟨co.n1, co.n2, co.nfree, fun j hj => co.nP j (by rw [h.main]; exact hj)⟩
  have hm : f0.main.length = fi1.main.length := by rw [co.main, h.main]
  have hr : ∀ r, f0.read r = fi1.read r := fun r => by rw [co.read, h.read]
  constructor
  · refine ⟨co.good, hm, hr, by rw [co.level, h.level], by rw [co.split, h.split], by rw [co.numKeys, h.numKeys],
      ?_, h.ndN, ?_, ?_⟩
    · rw [List.nodup_append]
      refine ⟨h.ndU, by simp, ?_⟩
      intro a ha b hb
      simp only [List.mem_cons, List.not_mem_nil, or_false] at hb
      subst hb
      exact hnew a (Or.inl ha)
    · intro a ha
      simp only [List.mem_append, List.mem_cons, List.not_mem_nil, or_false] at ha
      rcases ha with ha | rfl
      · exact h.djUN a ha
      · intro hn; exact hnew a (Or.inr hn) rfl
    · intro a ha
      apply hfresh
      simp only [List.mem_append, List.mem_cons, List.not_mem_nil, or_false] at ha
      rcases ha with (ha | ha) | ha
      · exact Or.inl (Or.inl ha)
      · exact Or.inr ha
      · exact Or.inl (Or.inr ha)
  · refine ⟨co.good, hm, hr, by rw [co.level, h.level], by rw [co.split, h.split], by rw [co.numKeys, h.numKeys],
      h.ndU, ?_, ?_, ?_⟩
    · rw [List.nodup_append]
      refine ⟨h.ndN, by simp, ?_⟩
      intro a ha b hb
      simp only [List.mem_cons, List.not_mem_nil, or_false] at hb
      subst hb
      exact hnew a (Or.inr ha)
    · intro a ha hn
      simp only [List.mem_append, List.mem_cons, List.not_mem_nil, or_false] at hn
      rcases hn with hn | rfl
      · exact h.djUN a ha hn
      · exact hnew a (Or.inl ha) rfl
    · intro a ha
      apply hfresh
      simp only [List.mem_append, List.mem_cons, List.not_mem_nil, or_false] at ha
      rcases ha with ha | ha | ha
      · exact Or.inl (Or.inl ha)
      · exact Or.inl (Or.inr ha)
      · exact Or.inr ha

theorem split_fold (P : Nat → List Nat) (fi1 : FIndex) (L S s : Nat) (r1 r2 : Ref) :
    ∀ (slots : List Slot) (f : FIndex) (upd nw : SW) (U N : List Nat) (Cu Cn : SlotWriter),
    SInv P fi1 f U N → WOk upd r1 U Cu → WOk nw r2 N Cn →
    ∃ U' N', SInv P fi1 (slots.foldl (splitStep L S s) (f, upd, nw)).1 U' N' ∧
      WOk (slots.foldl (splitStep L S s) (f, upd, nw)).2.1 r1 U'
        ((slots.filter (fun sl => decide (bucketIdx L S sl.hash = s))).foldl SlotWriter.insert Cu) ∧
      WOk (slots.foldl (splitStep L S s) (f, upd, nw)).2.2 r2 N'
        ((slots.filter (fun sl => !decide (bucketIdx L S sl.hash = s))).foldl SlotWriter.insert Cn)
  | [], f, upd, nw, U, N, Cu, Cn, hI, hu, hn => ⟨U, N, hI, hu, hn⟩
  | sl :: rest, f, upd, nw, U, N, Cu, Cn, hI, hu, hn => by
    rw [List.foldl_cons]
    by_cases hc : bucketIdx L S sl.hash = s
    · have hstep : splitStep L S s (f, upd, nw) sl = ((swInsert f upd sl).1, (swInsert f upd sl).2, nw) := by
        simp [splitStep, hc]
      rw [hstep]
      simp only [List.filter_cons, hc, decide_true, if_true, Bool.not_true, Bool.false_eq_true, if_false,
        List.foldl_cons]
      by_cases hfull : upd.cur.slots.length = slotsPerBucket
      · obtain ⟨h1, h2⟩ := hu.insert_full f sl hfull
        rw [h1]
        exact split_fold P fi1 L S s r1 r2 rest _ _ _ _ _ _ _ hI.alloc.1 h2 hn
      · obtain ⟨h1, h2⟩ := hu.insert_room f sl hfull
        rw [h1]
        exact split_fold P fi1 L S s r1 r2 rest _ _ _ _ _ _ _ hI h2 hn
    · have hstep : splitStep L S s (f, upd, nw) sl = ((swInsert f nw sl).1, upd, (swInsert f nw sl).2) := by
        simp [splitStep, hc]
      rw [hstep]
      simp only [List.filter_cons, hc, decide_false, Bool.false_eq_true, if_false, Bool.not_false, if_true,
        List.foldl_cons]
      by_cases hfull : nw.cur.slots.length = slotsPerBucket
      · obtain ⟨h1, h2⟩ := hn.insert_full f sl hfull
        rw [h1]
        exact split_fold P fi1 L S s r1 r2 rest _ _ _ _ _ _ _ hI.alloc.2 hu h2
      · obtain ⟨h1, h2⟩ := hn.insert_room f sl hfull
        rw [h1]
        exact split_fold P fi1 L S s r1 r2 rest _ _ _ _ _ _ _ hI hu h2

/-! ### assembling the split -/

@[simp] theorem parse_level (fi : FIndex) : fi.parse.level = fi.level := rfl
@[simp] theorem parse_split (fi : FIndex) : fi.parse.split = fi.split := rfl
@[simp] theorem parse_numKeys (fi : FIndex) : fi.parse.numKeys = fi.numKeys := rfl

theorem getD_append_empty (l : List FBucket) (j : Nat) :
    (l ++ [FBucket.empty]).getD j FBucket.empty = l.getD j FBucket.empty := by
  simp only [List.getD_eq_getElem?_getD]
  by_cases hj : j < l.length
  · rw [List.getElem?_append_left hj]
  · rw [List.getElem?_append_right (by omega)]
    have : l[j]? = none := by simp; omega
    rw [this]
    cases j - l.length <;> simp

theorem inRange_refs {fi : FIndex} {i : Nat} {U : List Nat} (hi : i < fi.main.length)
    (hU : ∀ n ∈ U, 1 ≤ n ∧ n ≤ fi.ovf.length) : ∀ r ∈ refs (.main i) U, fi.InRange r := by
  intro r hr
  rcases mem_refs_main.1 hr with rfl | ⟨n, hn, rfl⟩
  · exact hi
  · have := hU n hn
    show n - 1 < fi.ovf.length
    omega

theorem Good.extend {fi : FIndex} {P : Nat → List Nat} (g : Good fi P) (L S : Nat) :
    Good { fi with main := fi.main ++ [FBucket.empty], level := L, split := S }
      (fun j => if j = fi.main.length then [] else P j) ∧
    (∀ r, ({ fi with main := fi.main ++ [FBucket.empty], level := L, split := S } : FIndex).read r = fi.read r) ∧
    ({ fi with main := fi.main ++ [FBucket.empty], level := L, split := S } : FIndex).parse.chains =
      fi.parse.chains ++ [[[]]] := by
  have hrd : ∀ r, ({ fi with main := fi.main ++ [FBucket.empty], level := L, split := S } : FIndex).read r = fi.read r := by
    intro r
    cases r with
    | main i => exact getD_append_empty _ _
    | ovf j => rfl
  have hout : fi.read (.main fi.main.length) = FBucket.empty := by
    simp [read, List.getD_eq_getElem?_getD]
  have g1 : Good { fi with main := fi.main ++ [FBucket.empty], level := L, split := S }
      (fun j => if j = fi.main.length then [] else P j) := by
    have hlen : ∀ j, j < (fi.main ++ [FBucket.empty]).length → j ≠ fi.main.length → j < fi.main.length := by
      intro j hj hne; simp at hj; omega
    refine ⟨?_, ?_, ?_, ?_, g.frng, g.fnd, ?_, ?_, by simp⟩
    · intro j hj
      by_cases hjm : j = fi.main.length
      · subst hjm
        simp only [if_true, Linked, hrd, hout]; rfl
      · simp only [hjm, if_false]
        exact Linked.congr _ _ (fun r _ => by rw [hrd]) (g.lk j (hlen j hj hjm))
    · intro j hj
      by_cases hjm : j = fi.main.length
      · subst hjm; simp
      · simpa [hjm] using g.rng j (hlen j hj hjm)
    · intro j hj
      by_cases hjm : j = fi.main.length
      · subst hjm; simp
      · simpa [hjm] using g.nd j (hlen j hj hjm)
    · intro j1 hj1 j2 hj2 hne n hn
      by_cases h1 : j1 = fi.main.length
      · subst h1; simp at hn
      · simp only [h1, if_false] at hn
        by_cases h2 : j2 = fi.main.length
        · subst h2; simp
        · simp only [h2, if_false]
          exact g.dj j1 (hlen j1 hj1 h1) j2 (hlen j2 hj2 h2) hne n hn
    · intro n hn j hj
      by_cases hjm : j = fi.main.length
      · subst hjm; simp
      · simpa [hjm] using g.fdj n hn j (hlen j hj hjm)
    · intro j hj r hr
      rw [hrd]
      by_cases hjm : j = fi.main.length
      · subst hjm
        simp only [if_true, refs, List.map_nil, List.mem_singleton] at hr
        subst hr
        rw [hout]; simp [FBucket.empty]
      · simp only [hjm, if_false] at hr
        exact g.sm j (hlen j hj hjm) r hr
  refine ⟨g1, hrd, ?_⟩
  rw [g1.parse, g.parse]
  simp only [List.length_append, List.length_cons, List.length_nil, Nat.zero_add, List.range_succ,
    List.map_append, List.map_cons, List.map_nil, if_true, refs, hrd, hout]
  congr 1
  apply List.map_congr_left
  intro j hj
  have : j ≠ fi.main.length := by have := List.mem_range.1 hj; omega
  simp only [this, if_false]

theorem rechunk_small' (l : List Slot) : ∀ b ∈ (l.foldl SlotWriter.insert ⟨[], []⟩).chain, b.length ≤ slotsPerBucket :=
  foldl_insert_small l ⟨[], []⟩ (by simp) (by simp)

theorem set_set_append {α} (C : List α) (x y z : α) (s : Nat) (hs : s < C.length) :
    ((C ++ [x]).set C.length y).set s z = C.set s z ++ [y] := by
  rw [List.set_append_right _ _ (Nat.le_refl _), List.set_append_left _ _ (by simpa using hs)]
  simp

theorem doSplit_spec {fi : FIndex} {P : Nat → List Nat} (g : Good fi P) (hs : fi.split < fi.main.length) :
    (∃ P', Good fi.doSplit P') ∧ fi.doSplit.parse = fi.parse.doSplit := by
  rw [doSplit_unfold, doSplit_eq]
  simp only [parse_level, parse_split, parse_numKeys]
  obtain ⟨g1, hrd1, hch1⟩ := g.extend (nextLevel fi.level fi.split) (nextSplit fi.level fi.split)
  generalize hfi1 : ({ fi with main := fi.main ++ [FBucket.empty], level := nextLevel fi.level fi.split, split := nextSplit fi.level fi.split } : FIndex) = fi1 at g1 hrd1 hch1 ⊢
  have hM1 : fi1.main.length = fi.main.length + 1 := by rw [← hfi1]; simp
  have hI0 : SInv (fun j => if j = fi.main.length then [] else P j) fi1 fi1 [] [] :=
    ⟨g1, rfl, fun _ => rfl, rfl, rfl, rfl, List.nodup_nil, List.nodup_nil, by simp, by simp⟩
  obtain ⟨U, N, hI, hu, hn⟩ := split_fold (fun j => if j = fi.main.length then [] else P j) fi1
    (nextLevel fi.level fi.split) (nextSplit fi.level fi.split) fi.split (.main fi.split) (.main fi.main.length)
    ((fi.chainRefs fi.split).flatMap (·.2.slots)) fi1 _ _ [] [] _ _ hI0 (WOk.init _) (WOk.init _)
  generalize List.foldl (splitStep (nextLevel fi.level fi.split) (nextSplit fi.level fi.split) fi.split)
    (fi1, ⟨.main fi.split, FBucket.empty, []⟩, ⟨.main fi.main.length, FBucket.empty, []⟩)
    ((fi.chainRefs fi.split).flatMap (·.2.slots)) = res at hI hu hn ⊢
  obtain ⟨f, upd, nw⟩ := res
  simp only at hI hu hn ⊢
  rw [swWrite_eq, swWrite_eq, g.ptrs hs]
  -- the two slot lists
  have hstay : rechunk fi.parse.stay = (List.foldl SlotWriter.insert ⟨[], []⟩ (List.filter
      (fun sl => decide (bucketIdx (nextLevel fi.level fi.split) (nextSplit fi.level fi.split) sl.hash = fi.split))
      ((fi.chainRefs fi.split).flatMap (·.2.slots)))).chain := by
    simp only [rechunk, Index.stay, parse_level, parse_split, parse_chain fi hs, ← List.flatMap_def]
    rfl
  have hmove : rechunk fi.parse.move = (List.foldl SlotWriter.insert ⟨[], []⟩ (List.filter
      (fun sl => !decide (bucketIdx (nextLevel fi.level fi.split) (nextSplit fi.level fi.split) sl.hash = fi.split))
      ((fi.chainRefs fi.split).flatMap (·.2.slots)))).chain := by
    simp only [rechunk, Index.move, parse_level, parse_split, parse_chain fi hs, ← List.flatMap_def]
    rfl
  generalize List.filter
      (fun sl => decide (bucketIdx (nextLevel fi.level fi.split) (nextSplit fi.level fi.split) sl.hash = fi.split))
      ((fi.chainRefs fi.split).flatMap (·.2.slots)) = stay at hu hstay
  generalize List.filter
      (fun sl => !decide (bucketIdx (nextLevel fi.level fi.split) (nextSplit fi.level fi.split) sl.hash = fi.split))
      ((fi.chainRefs fi.split).flatMap (·.2.slots)) = move at hn hmove
  have husm : ∀ p ∈ upd.all, p.2.slots.length ≤ slotsPerBucket := by
    intro p hp
    apply rechunk_small' stay
    rw [← hu.all_slots]; exact List.mem_map.2 ⟨p, hp, rfl⟩
  have hnsm : ∀ p ∈ nw.all, p.2.slots.length ≤ slotsPerBucket := by
    intro p hp
    apply rechunk_small' move
    rw [← hn.all_slots]; exact List.mem_map.2 ⟨p, hp, rfl⟩
  -- basic facts
  have hfM : f.main.length = fi.main.length + 1 := by rw [hI.main, hM1]
  have hsM : fi.split ≠ fi.main.length := by omega
  have hP1s : (fun j => if j = fi.main.length then [] else P j) fi.split = P fi.split := by simp [hsM]
  have hfN := fun n (h : n ∈ N) => hI.fresh n (Or.inr h)
  have hfU := fun n (h : n ∈ U) => hI.fresh n (Or.inl h)
  have hndN : (refs (.main fi.main.length) N).Nodup :=
    refs_nodup_main _ N (fun n h => (hfN n h).1) hI.ndN
  have hndU : (refs (.main fi.split) U).Nodup :=
    refs_nodup_main _ U (fun n h => (hfU n h).1) hI.ndU
  have read_free : ∀ (x : FIndex) (fr : List Nat) (r : Ref), ({ x with free := fr } : FIndex).read r = x.read r := by
    intro x fr r; cases r <;> rfl
  -- fi3
  generalize hfi3 : ({ f with free := f.free ++ P fi.split } : FIndex) = fi3
  have h3m : fi3.main.length = f.main.length := by rw [← hfi3]
  have h3o : fi3.ovf.length = f.ovf.length := by rw [← hfi3]
  have h3f : fi3.free = f.free ++ P fi.split := by rw [← hfi3]
  have h3l : fi3.level = f.level := by rw [← hfi3]
  have h3s : fi3.split = f.split := by rw [← hfi3]
  have h3k : fi3.numKeys = f.numKeys := by rw [← hfi3]
  have h3r : ∀ r, fi3.read r = f.read r := by intro r; rw [← hfi3]; exact read_free _ _ _
  -- first install: the new chain
  have hAf := writeAll_fields fi3 nw.all
  have hinN : ∀ p ∈ nw.all, fi3.InRange p.1 := by
    intro p hp
    apply inRange_refs (fi := fi3) (i := fi.main.length) (U := N) (by omega)
      (fun n h => ⟨(hfN n h).1, by rw [h3o]; exact (hfN n h).2.1⟩)
    rw [← hn.all_fst]; exact List.mem_map.2 ⟨p, hp, rfl⟩
  have hrA1 : ∀ p ∈ nw.all, (writeAll fi3 nw.all).read p.1 = p.2 :=
    read_writeAll_mem fi3 nw.all (by rw [hn.all_fst]; exact hndN) hinN
  have hrA2 : ∀ r', r' ∉ refs (.main fi.main.length) N → (writeAll fi3 nw.all).read r' = f.read r' := by
    intro r' hr'
    rw [read_writeAll_not_mem _ _ _ (by rw [hn.all_fst]; exact hr'), h3r]
  generalize writeAll fi3 nw.all = A at hAf hrA1 hrA2 ⊢
  obtain ⟨hA1, hA2, hA3, hA4, hA5, hA6⟩ := hAf
  have hXm : ({ A with free := f.free } : FIndex).main.length = f.main.length := hA1.trans h3m
  have hXo : ({ A with free := f.free } : FIndex).ovf.length = f.ovf.length := hA2.trans h3o
  obtain ⟨gX, hpX⟩ := hI.good.install (i := fi.main.length) (by omega) nw.all N hn.all_fst hn.all_next hnsm hI.ndN
    (fun n h => ⟨(hfN n h).1, (hfN n h).2.1⟩)
    (fun n h j hj _ => (hfN n h).2.2.2 j (by rw [← hI.main]; exact hj))
    (fi' := { A with free := f.free }) hXm hXo
    (fun p hp => by rw [read_free]; exact hrA1 p hp)
    (fun r' hr' => by rw [read_free]; exact hrA2 r' hr')
    hI.good.fnd hI.good.frng
    (fun n hn' => ⟨fun h => (hfN n h).2.2.1 hn', fun j hj _ => hI.good.fdj n hn' j hj⟩)
  -- second install: the chain that stays
  have h4f := writeAll_fields A upd.all
  have hinU : ∀ p ∈ upd.all, A.InRange p.1 := by
    intro p hp
    apply inRange_refs (fi := A) (i := fi.split) (U := U) (by rw [hA1, h3m]; omega)
      (fun n h => ⟨(hfU n h).1, by rw [hA2, h3o]; exact (hfU n h).2.1⟩)
    rw [← hu.all_fst]; exact List.mem_map.2 ⟨p, hp, rfl⟩
  have hr41 : ∀ p ∈ upd.all, (writeAll A upd.all).read p.1 = p.2 :=
    read_writeAll_mem A upd.all (by rw [hu.all_fst]; exact hndU) hinU
  have hr42 : ∀ r', r' ∉ refs (.main fi.split) U → (writeAll A upd.all).read r' = A.read r' := by
    intro r' hr'
    rw [read_writeAll_not_mem _ _ _ (by rw [hu.all_fst]; exact hr')]
  generalize writeAll A upd.all = fi4 at h4f hr41 hr42 ⊢
  obtain ⟨h41, h42, h43, h44, h45, h46⟩ := h4f
  have h4free : fi4.free = f.free ++ P fi.split := by rw [h43, hA3, h3f]
  have hsX : fi.split < ({ A with free := f.free } : FIndex).main.length := by rw [hXm]; omega
  have hP2s : (fun j => if j = fi.main.length then N else (fun j => if j = fi.main.length then [] else P j) j) fi.split
      = P fi.split := by simp [hsM]
  obtain ⟨g4, hp4⟩ := gX.install (i := fi.split) hsX upd.all U hu.all_fst hu.all_next husm hI.ndU
    (fun n h => ⟨(hfU n h).1, by rw [hXo]; exact (hfU n h).2.1⟩)
    (by
      intro n h j hj hjs
      rw [hXm] at hj
      by_cases hjM : j = fi.main.length
      · simp only [hjM, if_true]; exact hI.djUN n h
      · simpa [hjM] using (hfU n h).2.2.2 j (by rw [← hI.main]; exact hj))
    (fi' := fi4) h41 h42 hr41
    (fun r' hr' => (hr42 r' hr').trans (read_free _ _ _).symm)
    (by
      rw [h4free, List.nodup_append]
      refine ⟨hI.good.fnd, g.nd _ hs, ?_⟩
      intro a ha b hb he
      subst he
      have := hI.good.fdj a ha fi.split (by omega)
      simp only [hsM, if_false] at this
      exact this hb)
    (by
      rw [h4free]
      intro n hn'
      rw [hXo]
      rcases List.mem_append.1 hn' with h | h
      · exact hI.good.frng n h
      · have := hI.good.rng fi.split (by omega) n (by simp only [hsM, if_false]; exact h)
        exact this)
    (by
      rw [h4free]
      intro n hn'
      rcases List.mem_append.1 hn' with h | h
      · exact ⟨fun hU' => (hfU n hU').2.2.1 h, fun j hj _ => gX.fdj n h j hj⟩
      · refine ⟨fun hU' => ?_, fun j hj hjs => gX.dj fi.split hsX j hj (Ne.symm hjs) n (by simp only [hsM, if_false]; exact h)⟩
        have := (hfU n hU').2.2.2 fi.split (by omega)
        simp only [hsM, if_false] at this
        exact this h)
  refine ⟨⟨_, g4⟩, ?_⟩
  rw [hp4, hpX]
  simp only
  rw [parse_chains_of_read g1 hI.good hI.main hI.read, hch1, hu.all_slots, hn.all_slots, ← hstay, ← hmove]
  have hlen := parse_chains_length fi
  rw [← hlen, set_set_append _ _ _ _ _ (by rw [hlen]; exact hs)]
  rw [h44, hA4, h3l, hI.level, h45, hA5, h3s, hI.split, h46, hA6, h3k, hI.numKeys, ← hfi1]

/-! ### shape (level, split, number of main buckets), without any invariant -/

def Shape (f g : FIndex) : Prop := f.main.length = g.main.length ∧ f.level = g.level ∧ f.split = g.split

theorem Shape.refl (f : FIndex) : Shape f f := ⟨rfl, rfl, rfl⟩

theorem Shape.trans {f g h : FIndex} (a : Shape f g) (b : Shape g h) : Shape f h :=
  ⟨a.1.trans b.1, a.2.1.trans b.2.1, a.2.2.trans b.2.2⟩

theorem shape_write (f : FIndex) (r : Ref) (b : FBucket) : Shape (f.write r b) f := by
  simp [Shape]

theorem shape_writeAll (f : FIndex) (l : List (Ref × FBucket)) : Shape (writeAll f l) f := by
  have := writeAll_fields f l
  exact ⟨this.1, this.2.2.2.1, this.2.2.2.2.1⟩

theorem shape_createOverflow (f : FIndex) : Shape f.createOverflow.1 f := by
  unfold createOverflow
  cases f.free <;> exact ⟨rfl, rfl, rfl⟩

theorem shape_swInsert (f : FIndex) (w : SW) (sl : Slot) : Shape (swInsert f w sl).1 f := by
  unfold swInsert
  split
  · exact shape_createOverflow f
  · exact Shape.refl f

theorem shape_splitStep (L S s : Nat) (acc : FIndex × SW × SW) (sl : Slot) :
    Shape (splitStep L S s acc sl).1 acc.1 := by
  unfold splitStep
  split
  · exact shape_swInsert _ _ _
  · exact shape_swInsert _ _ _

theorem shape_fold (L S s : Nat) : ∀ (slots : List Slot) (acc : FIndex × SW × SW),
    Shape (slots.foldl (splitStep L S s) acc).1 acc.1
  | [], acc => Shape.refl _
  | sl :: rest, acc => by
    rw [List.foldl_cons]
    exact (shape_fold L S s rest _).trans (shape_splitStep L S s acc sl)

theorem doSplit_shape (fi : FIndex) :
    fi.doSplit.main.length = fi.main.length + 1 ∧ fi.doSplit.level = nextLevel fi.level fi.split ∧
    fi.doSplit.split = nextSplit fi.level fi.split := by
  rw [doSplit_unfold]
  simp only [swWrite_eq]
  have h1 := shape_fold (nextLevel fi.level fi.split) (nextSplit fi.level fi.split) fi.split
    ((fi.chainRefs fi.split).flatMap (·.2.slots))
    ({ fi with main := fi.main ++ [FBucket.empty], level := nextLevel fi.level fi.split, split := nextSplit fi.level fi.split },
      ⟨.main fi.split, FBucket.empty, []⟩, ⟨.main fi.main.length, FBucket.empty, []⟩)
  generalize List.foldl (splitStep (nextLevel fi.level fi.split) (nextSplit fi.level fi.split) fi.split) _ _ = res at h1 ⊢
  have h2 := (shape_writeAll _ res.2.1.all).trans
    (shape_writeAll { res.1 with free := res.1.free ++ fi.ptrs fi.split } res.2.2.all)
  obtain ⟨a, b, c⟩ := h2.trans (⟨rfl, rfl, rfl⟩ : Shape { res.1 with free := res.1.free ++ fi.ptrs fi.split } res.1) |>.trans h1
  refine ⟨?_, b, c⟩
  rw [a]; simp

theorem insertNew_shape (fi : FIndex) (ns : Slot) : Shape (fi.insertNew ns) fi := by
  unfold insertNew
  simp only
  split
  · exact shape_write _ _ _
  · split
    · rw [swWrite_eq]
      exact (shape_writeAll _ _).trans (shape_swInsert _ _ _)
    · exact Shape.refl _

end FIndex
end Pogreb
