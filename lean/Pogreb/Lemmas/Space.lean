/-
  Helper lemmas for M10 (space accounting of the executable model): byte sums over the segment table
  under the primitive edits (`setSeg`, `insertSeg`, `swapSegment`, `writeRecord`, `removeSeg`), the
  bytes of the scanned records of a clean segment, the bijection between index slots and live records
  (`slotBytes = Σ live record bytes`), what `repoint` does to the slot list (a permutation up to the
  repointed slot), the accounting of one copy step of a compaction, and recovery.
-/
import Pogreb.Lemmas.ModelPowerLoss
import Pogreb.Lemmas.Sessions
namespace Pogreb
open MState
namespace MState

/-! ### byte sums over a segment table -/

/-- Bytes of all segment files (without the headers). -/
def segBytes (segs : List MSeg) : Nat := (segs.map (·.data.length)).sum

theorem segBytes_nil : segBytes [] = 0 := rfl

theorem segBytes_cons (x : MSeg) (xs : List MSeg) : segBytes (x :: xs) = x.data.length + segBytes xs := by
  unfold segBytes; rw [List.map_cons, List.sum_cons]

theorem segBytes_map_data (g : MSeg → MSeg) (segs : List MSeg) (hg : ∀ s ∈ segs, (g s).data = s.data) :
    segBytes (segs.map g) = segBytes segs := by
  induction segs with
  | nil => rfl
  | cons x xs ih =>
    rw [List.map_cons, segBytes_cons, segBytes_cons, hg x List.mem_cons_self,
      ih (fun s hs => hg s (List.mem_cons_of_mem _ hs))]

theorem segBytes_insertSeg (segs : List MSeg) (s : MSeg) :
    segBytes (insertSeg segs s) = segBytes segs + s.data.length := by
  induction segs with
  | nil => simp [insertSeg, segBytes]
  | cons x xs ih =>
    simp only [insertSeg]
    split
    · simp only [segBytes_cons]; omega
    · simp only [segBytes_cons, ih]; omega

theorem length_insertSeg (segs : List MSeg) (s : MSeg) : (insertSeg segs s).length = segs.length + 1 := by
  have := (insertSeg_perm segs s).length_eq
  rw [this, List.length_cons]

/-- Replacing the segment with the id of `s'` (ids distinct). -/
theorem segBytes_replace : ∀ (segs : List MSeg), (segs.map (·.id)).Nodup → ∀ s ∈ segs, ∀ s' : MSeg,
    s'.id = s.id →
    segBytes (segs.map (fun x => if x.id == s'.id then s' else x)) + s.data.length =
      segBytes segs + s'.data.length
  | [], _, s, hs, _, _ => by cases hs
  | x :: xs, hnd, s, hs, s', hid => by
    rw [List.map_cons, List.nodup_cons] at hnd
    rw [List.map_cons, segBytes_cons, segBytes_cons]
    rcases List.mem_cons.1 hs with rfl | hs'
    · have h1 : (s.id == s'.id) = true := by simp [hid]
      rw [if_pos h1]
      have hrest : segBytes (xs.map (fun x => if x.id == s'.id then s' else x)) = segBytes xs := by
        conv => rhs; rw [← List.map_id xs]
        unfold segBytes
        congr 1
        rw [List.map_map, List.map_map]
        apply List.map_congr_left
        intro y hy
        have hne : y.id ≠ s'.id := by
          intro e
          apply hnd.1
          rw [← hid, ← e]
          exact List.mem_map.2 ⟨y, hy, rfl⟩
        simp [hne]
      rw [hrest]; omega
    · have hne : x.id ≠ s'.id := by
        intro e
        apply hnd.1
        rw [e, hid]
        exact List.mem_map.2 ⟨s, hs', rfl⟩
      have h1 : ¬ (x.id == s'.id) = true := by simpa using hne
      rw [if_neg h1]
      have := segBytes_replace xs hnd.2 s hs' s' hid
      omega

theorem segBytes_setSeg {st : MState} (hids : (st.segs.map (·.id)).Nodup) {s : MSeg} (hs : s ∈ st.segs)
    (s' : MSeg) (hid : s'.id = s.id) :
    segBytes (st.setSeg s').segs + s.data.length = segBytes st.segs + s'.data.length :=
  segBytes_replace st.segs hids s hs s' hid

theorem length_setSeg (st : MState) (s' : MSeg) : (st.setSeg s').segs.length = st.segs.length := by
  unfold setSeg; simp

/-- Unlinking the segment `S` (ids distinct). -/
theorem segBytes_filter_ne : ∀ (segs : List MSeg), (segs.map (·.id)).Nodup → ∀ S ∈ segs,
    segBytes (segs.filter (·.id != S.id)) + S.data.length = segBytes segs ∧
    (segs.filter (·.id != S.id)).length + 1 = segs.length
  | [], _, S, hS => by cases hS
  | x :: xs, hnd, S, hS => by
    rw [List.map_cons, List.nodup_cons] at hnd
    rcases List.mem_cons.1 hS with rfl | hS'
    · have h1 : (S.id != S.id) = false := by simp
      rw [List.filter_cons, h1]
      have hrest : xs.filter (·.id != S.id) = xs := by
        rw [List.filter_eq_self]
        intro y hy
        have hne : y.id ≠ S.id := by
          intro e
          apply hnd.1
          rw [← e]
          exact List.mem_map.2 ⟨y, hy, rfl⟩
        simpa using hne
      simp only [Bool.false_eq_true, if_false]
      rw [hrest, segBytes_cons, List.length_cons]
      exact ⟨by omega, rfl⟩
    · have hne : x.id ≠ S.id := by
        intro e
        apply hnd.1
        rw [e]
        exact List.mem_map.2 ⟨S, hS', rfl⟩
      have h1 : (x.id != S.id) = true := by simpa using hne
      rw [List.filter_cons, h1]
      simp only [if_true]
      obtain ⟨ih1, ih2⟩ := segBytes_filter_ne xs hnd.2 S hS'
      rw [segBytes_cons, segBytes_cons, List.length_cons, List.length_cons]
      exact ⟨by omega, by omega⟩

theorem segBytes_removeSeg {st : MState} (hids : (st.segs.map (·.id)).Nodup) {id : Nat} {S : MSeg}
    (hS : st.seg? id = some S) :
    segBytes (st.removeSeg id).segs + S.data.length = segBytes st.segs ∧
    (st.removeSeg id).segs.length + 1 = st.segs.length := by
  obtain ⟨hm, hid⟩ := seg?_some hS
  subst hid
  exact segBytes_filter_ne st.segs hids S hm

/-- `swapSegment` creates at most one, empty, file. -/
theorem segBytes_swap (st : MState) :
    segBytes st.swapSegment.segs = segBytes st.segs ∧
    st.segs.length ≤ st.swapSegment.segs.length ∧ st.swapSegment.segs.length ≤ st.segs.length + 1 := by
  unfold swapSegment
  split
  · exact ⟨rfl, Nat.le_refl _, Nat.le_succ _⟩
  · dsimp only
    rw [segBytes_insertSeg, length_insertSeg]
    exact ⟨rfl, Nat.le_succ _, Nat.le_refl _⟩

/-- The roll-over of `writeRecord` (seal + `swapSegment`) writes no byte. -/
theorem segBytes_wrPre (st : MState) (data : Bytes) (hids : (st.segs.map (·.id)).Nodup) :
    segBytes (st.wrPre data).segs = segBytes st.segs ∧
    st.segs.length ≤ (st.wrPre data).segs.length ∧ (st.wrPre data).segs.length ≤ st.segs.length + 1 := by
  unfold wrPre
  dsimp only
  cases hcur : st.cur.bind st.seg? with
  | none =>
    simp only [if_true]
    exact segBytes_swap st
  | some s =>
    dsimp only
    by_cases hn : (s.full || decide (s.size + data.length > st.cfg.maxSeg)) = true
    · rw [if_pos hn]
      have hs : s ∈ st.segs := by
        cases hc : st.cur with
        | none => simp [hc] at hcur
        | some c =>
          rw [hc] at hcur
          exact (seg?_some (show st.seg? c = some s from hcur)).1
      obtain ⟨h1, h2, h3⟩ := segBytes_swap (st.setSeg { s with full := true })
      have h4 := segBytes_setSeg hids hs { s with full := true } rfl
      have h5 := length_setSeg st { s with full := true }
      dsimp only at h4
      refine ⟨by omega, by omega, by omega⟩
    · rw [if_neg hn]
      exact ⟨rfl, Nat.le_refl _, Nat.le_succ _⟩

/-- **`writeRecord` appends exactly the given bytes**, to one file; it creates at most one file. -/
theorem segBytes_writeRecord (st : MState) (data : Bytes) (hids : (st.segs.map (·.id)).Nodup) :
    segBytes (st.writeRecord data).1.segs = segBytes st.segs + data.length ∧
    st.segs.length ≤ (st.writeRecord data).1.segs.length ∧
    (st.writeRecord data).1.segs.length ≤ st.segs.length + 1 := by
  obtain ⟨hids', _, _, _⟩ := wrPre_spec st data hids
  obtain ⟨c, s, hc, hs⟩ := wrPre_live st data
  obtain ⟨h1, h2, h3⟩ := segBytes_wrPre st data hids
  rw [writeRecord_eq, hc, Option.bind_some, hs]
  dsimp only
  have h4 := segBytes_setSeg hids' (seg?_some hs).1 { s with data := s.data ++ data } rfl
  have h5 := length_setSeg (st.wrPre data) { s with data := s.data ++ data }
  dsimp only at h4
  rw [List.length_append] at h4
  refine ⟨by omega, by omega, by omega⟩

/-! ### bytes of scanned records -/

/-- Encoded bytes of a list of records with offsets. -/
def recBytes (l : List (Nat × Rec)) : Nat := (l.map (·.2.encode.length)).sum

theorem recBytes_nil : recBytes [] = 0 := rfl

theorem recBytes_cons (p : Nat × Rec) (l : List (Nat × Rec)) :
    recBytes (p :: l) = p.2.encode.length + recBytes l := by
  unfold recBytes; rw [List.map_cons, List.sum_cons]

theorem recBytes_append (a b : List (Nat × Rec)) : recBytes (a ++ b) = recBytes a + recBytes b := by
  unfold recBytes; rw [List.map_append, List.sum_append]

theorem recBytes_filter_split (p : Nat × Rec → Bool) (l : List (Nat × Rec)) :
    recBytes (l.filter p) + recBytes (l.filter (fun x => !p x)) = recBytes l := by
  induction l with
  | nil => rfl
  | cons x xs ih =>
    rw [List.filter_cons, List.filter_cons]
    cases hp : p x
    · simp only [Bool.false_eq_true, if_false, Bool.not_false, if_true]
      rw [recBytes_cons, recBytes_cons]; omega
    · simp only [if_true, Bool.not_true, Bool.false_eq_true, if_false]
      rw [recBytes_cons, recBytes_cons]; omega

theorem recBytes_filter_le (p : Nat × Rec → Bool) (l : List (Nat × Rec)) :
    recBytes (l.filter p) ≤ recBytes l := by
  have := recBytes_filter_split p l; omega

theorem recBytes_filter_congr {p q : Nat × Rec → Bool} {l : List (Nat × Rec)}
    (h : ∀ x ∈ l, p x = q x) : recBytes (l.filter p) = recBytes (l.filter q) := by
  induction l with
  | nil => rfl
  | cons x xs ih =>
    rw [List.filter_cons, List.filter_cons, h x List.mem_cons_self]
    have := ih (fun y hy => h y (List.mem_cons_of_mem _ hy))
    split
    · rw [recBytes_cons, recBytes_cons, this]
    · exact this

theorem recBytes_go (rs : List Rec) : ∀ o, recBytes (recsWithOffsets.go o rs) = (encodeAll rs).length := by
  induction rs with
  | nil => intro o; rfl
  | cons r rs ih =>
    intro o
    rw [go_cons, recBytes_cons, ih, encodeAll_cons, List.length_append]

/-- The scanned records of a segment cover exactly its valid prefix. -/
theorem recBytes_recs (d : Bytes) : recBytes (recsWithOffsets d) = (scan d).2 := by
  show recBytes (recsWithOffsets.go headerSize (scan d).1) = _
  rw [recBytes_go, scan_prefix, List.length_take]
  have := scan_len_le d
  omega

theorem recBytes_clean {d : Bytes} (h : CleanD d) : recBytes (recsWithOffsets d) = d.length := by
  rw [recBytes_recs]; exact h

/-! ### slots and live records -/

/-- Encoded length of the records the slots point at (each slot carries its record's exact sizes). -/
def slotBytes (slots : List Slot) : Nat := (slots.map (fun sl => 10 + sl.ksz + sl.vsz)).sum

/-- Some slot points at offset `off` of segment `sid`. -/
def pointedAt (slots : List Slot) (sid off : Nat) : Bool :=
  slots.any (fun sl => sl.seg == sid && sl.off == off)

theorem pointedAt_iff {slots : List Slot} {sid off : Nat} :
    pointedAt slots sid off = true ↔ ∃ sl ∈ slots, sl.seg = sid ∧ sl.off = off := by
  unfold pointedAt
  rw [List.any_eq_true]
  constructor
  · rintro ⟨sl, hsl, h⟩
    simp only [Bool.and_eq_true, beq_iff_eq] at h
    exact ⟨sl, hsl, h⟩
  · rintro ⟨sl, hsl, h⟩
    exact ⟨sl, hsl, by simp only [Bool.and_eq_true, beq_iff_eq]; exact h⟩

theorem pointedAt_perm {l l' : List Slot} (h : l.Perm l') (sid off : Nat) :
    pointedAt l sid off = pointedAt l' sid off := h.any_eq

/-- A live record of segment `sid`: a put record that a slot points at. -/
def liveAt (slots : List Slot) (sid : Nat) (p : Nat × Rec) : Bool := !p.2.del && pointedAt slots sid p.1

theorem liveAt_iff {slots : List Slot} {sid : Nat} {p : Nat × Rec} :
    liveAt slots sid p = true ↔ p.2.del = false ∧ ∃ sl ∈ slots, sl.seg = sid ∧ sl.off = p.1 := by
  unfold liveAt
  rw [Bool.and_eq_true, pointedAt_iff]
  simp

/-- Bytes of the live records of a segment / of its dead records and delete records. -/
def liveOf (slots : List Slot) (s : MSeg) : Nat :=
  recBytes ((recsWithOffsets s.data).filter (liveAt slots s.id))
def deadOf (slots : List Slot) (s : MSeg) : Nat :=
  recBytes ((recsWithOffsets s.data).filter (fun p => !liveAt slots s.id p))

theorem liveOf_add_deadOf (slots : List Slot) {s : MSeg} (hc : CleanD s.data) :
    liveOf slots s + deadOf slots s = s.data.length := by
  unfold liveOf deadOf
  rw [recBytes_filter_split, recBytes_clean hc]

theorem deadOf_le (slots : List Slot) {s : MSeg} (hc : CleanD s.data) : deadOf slots s ≤ s.data.length := by
  have := liveOf_add_deadOf slots hc; omega

/-- Location and size of every slot. -/
def slotLocs (slots : List Slot) : List (Nat × Nat × Nat) :=
  slots.map (fun sl => (sl.seg, sl.off, 10 + sl.ksz + sl.vsz))

/-- Location and size of every live record. -/
def liveLocs (slots : List Slot) (segs : List MSeg) : List (Nat × Nat × Nat) :=
  segs.flatMap (fun s => ((recsWithOffsets s.data).filter (liveAt slots s.id)).map
    (fun p => (s.id, p.1, p.2.encode.length)))

theorem slotLocs_sum (slots : List Slot) : ((slotLocs slots).map (·.2.2)).sum = slotBytes slots := by
  unfold slotLocs slotBytes
  rw [List.map_map]; rfl

theorem liveLocs_sum (slots : List Slot) (segs : List MSeg) :
    ((liveLocs slots segs).map (·.2.2)).sum = (segs.map (liveOf slots)).sum := by
  induction segs with
  | nil => rfl
  | cons s rest ih =>
    unfold liveLocs at ih ⊢
    rw [List.flatMap_cons, List.map_append, List.sum_append, ih, List.map_cons, List.sum_cons, List.map_map]
    rfl

theorem mem_liveLocs {slots : List Slot} {segs : List MSeg} {x : Nat × Nat × Nat} :
    x ∈ liveLocs slots segs ↔ ∃ s ∈ segs, ∃ p ∈ recsWithOffsets s.data,
      liveAt slots s.id p = true ∧ x = (s.id, p.1, p.2.encode.length) := by
  unfold liveLocs
  rw [List.mem_flatMap]
  constructor
  · rintro ⟨s, hs, hx⟩
    obtain ⟨p, hp, rfl⟩ := List.mem_map.1 hx
    obtain ⟨hp1, hp2⟩ := List.mem_filter.1 hp
    exact ⟨s, hs, p, hp1, hp2, rfl⟩
  · rintro ⟨s, hs, p, hp1, hp2, rfl⟩
    exact ⟨s, hs, List.mem_map.2 ⟨p, List.mem_filter.2 ⟨hp1, hp2⟩, rfl⟩⟩

theorem nodup_of_map {α β} (f : α → β) {l : List α} (h : (l.map f).Nodup) : l.Nodup := by
  unfold List.Nodup at h ⊢
  rw [List.pairwise_map] at h
  exact h.imp (fun hab e => hab (by rw [e]))

theorem liveLocs_nodup (slots : List Slot) : ∀ (segs : List MSeg), (segs.map (·.id)).Nodup →
    (liveLocs slots segs).Nodup
  | [], _ => List.nodup_nil
  | s :: rest, hnd => by
    rw [List.map_cons, List.nodup_cons] at hnd
    have ih := liveLocs_nodup slots rest hnd.2
    unfold liveLocs at ih ⊢
    rw [List.flatMap_cons, List.nodup_append]
    refine ⟨?_, ih, ?_⟩
    · unfold List.Nodup
      rw [List.pairwise_map]
      have hsorted : (recsWithOffsets s.data).Pairwise (fun a b => a.1 < b.1) := go_sorted _ _
      refine (hsorted.filter _).imp ?_
      intro a b hab e
      have : a.1 = b.1 := congrArg (fun t : Nat × Nat × Nat => t.2.1) e
      omega
    · intro a ha b hb e
      obtain ⟨p, _, rfl⟩ := List.mem_map.1 ha
      obtain ⟨t, ht, hbt⟩ := List.mem_flatMap.1 hb
      obtain ⟨q, _, rfl⟩ := List.mem_map.1 hbt
      have : s.id = t.id := congrArg (fun t : Nat × Nat × Nat => t.1) e
      exact hnd.1 (this ▸ List.mem_map.2 ⟨t, ht, rfl⟩)

/-- **Slots and live records are in bijection** (location and size): every slot points at a live
record of exactly its size, and every live record is pointed at by exactly one slot. -/
theorem slotLocs_perm {st : MState} (h2 : st.WF2) :
    (slotLocs st.idx.slots).Perm (liveLocs st.idx.slots st.segs) := by
  have hwf := h2.1
  have hsl_nd : st.idx.slots.Nodup := nodup_of_map _ hwf.inv.nodup
  have hA : (slotLocs st.idx.slots).Nodup := by
    unfold slotLocs List.Nodup
    rw [List.pairwise_map]
    refine List.Pairwise.imp_of_mem ?_ hsl_nd
    intro a b ha hb hne e
    apply hne
    exact hwf.locs a ha b hb (congrArg (fun t : Nat × Nat × Nat => t.1) e)
      (congrArg (fun t : Nat × Nat × Nat => t.2.1) e)
  have hB := liveLocs_nodup st.idx.slots st.segs hwf.ids
  rw [List.perm_ext_iff_of_nodup hA hB]
  intro x
  rw [mem_liveLocs]
  constructor
  · intro hx
    obtain ⟨sl, hsl, rfl⟩ := List.mem_map.1 hx
    obtain ⟨s, hs, hid, done, r, rest, hrec, hdel, hk, hv⟩ := h2.2.1 sl hsl
    refine ⟨s, hs, (sl.off, r), by rw [hrec]; simp, ?_, ?_⟩
    · rw [liveAt_iff]
      exact ⟨hdel, sl, hsl, hid.symm, rfl⟩
    · rw [hid, Rec.encode_length, hk, hv]
  · rintro ⟨s, hs, p, hp, hlive, rfl⟩
    obtain ⟨hdel, sl, hsl, hsg, hoff⟩ := liveAt_iff.1 hlive
    obtain ⟨s', hs', hid', done, r, rest, hrec, _, hk, hv⟩ := h2.2.1 sl hsl
    have hss : s' = s := eq_of_id hwf.ids hs' hs (hid'.trans hsg)
    subst hss
    have hp' : (sl.off, r) ∈ recsWithOffsets s'.data := by rw [hrec]; simp
    have hpe : p = (sl.off, r) := recs_unique hp hp' hoff.symm
    refine List.mem_map.2 ⟨sl, hsl, ?_⟩
    rw [hpe, hsg, Rec.encode_length, hk, hv]

/-- The bytes the index accounts for are exactly the bytes of the live records. -/
theorem slotBytes_eq_live {st : MState} (h2 : st.WF2) :
    slotBytes st.idx.slots = (st.segs.map (liveOf st.idx.slots)).sum := by
  rw [← slotLocs_sum, ← liveLocs_sum]
  exact ((slotLocs_perm h2).map _).sum_nat

theorem sum_map_add {α} (f g : α → Nat) (l : List α) :
    (l.map f).sum + (l.map g).sum = (l.map (fun x => f x + g x)).sum := by
  induction l with
  | nil => rfl
  | cons x xs ih => simp only [List.map_cons, List.sum_cons, ← ih]; omega

theorem sum_map_congr {α} {f g : α → Nat} {l : List α} (h : ∀ x ∈ l, f x = g x) :
    (l.map f).sum = (l.map g).sum := by
  rw [List.map_congr_left h]

/-- **Space identity**: the segment files hold the live records (the bytes the index accounts for) and
the garbage (dead records and delete records), nothing else. -/
theorem space_identity {st : MState} (h2 : st.WF2) :
    segBytes st.segs = slotBytes st.idx.slots + (st.segs.map (deadOf st.idx.slots)).sum := by
  rw [slotBytes_eq_live h2, sum_map_add]
  unfold segBytes
  apply sum_map_congr
  intro s hs
  exact (liveOf_add_deadOf _ (h2.2.2 s hs)).symm

/-! ### `repoint` on the slot list -/

/-- `repoint` replaces one slot by its repointed version and keeps all others (as a multiset). -/
theorem repoint_perm {st : MState} (hwf : st.WF) {h seg off seg' off' : Nat} {idx' : Index}
    (hr : st.idx.repoint h seg off seg' off' = some idx') :
    ∃ s L, s.hash = h ∧ s.off = off ∧ s.seg = seg ∧ st.idx.slots.Perm (s :: L) ∧
      idx'.slots.Perm ({ s with seg := seg', off := off' } :: L) := by
  simp only [Index.repoint, Option.map_eq_some_iff, Chain.repoint_eq] at hr
  obtain ⟨c', hmod, rfl⟩ := hr
  have hi := hwf.inv.index_lt h
  obtain ⟨R, hs, hs'⟩ := setChain_slots st.idx _ hi
  obtain ⟨pre, s, post, h1, h2, hp, _, _⟩ := Chain.modify_some hmod
  simp only [decide_eq_true_eq] at hp
  refine ⟨s, pre ++ post ++ R, hp.1, hp.2.1, hp.2.2, ?_, ?_⟩
  · refine hs.trans ?_
    rw [h1]
    simp
  · refine (hs' c' st.idx.numKeys).trans ?_
    rw [h2]
    simp

theorem slotBytes_perm {l l' : List Slot} (h : l.Perm l') : slotBytes l = slotBytes l' :=
  (h.map _).sum_nat

theorem slotBytes_cons (s : Slot) (l : List Slot) : slotBytes (s :: l) = 10 + s.ksz + s.vsz + slotBytes l := by
  unfold slotBytes; rw [List.map_cons, List.sum_cons]

/-! ### one copy step of a compaction -/

theorem grows_refl (st : MState) : Grows st st := fun _ d hd => ⟨[], by rw [List.append_nil]; exact hd⟩

theorem grows_trans {a b c : MState} (h1 : Grows a b) (h2 : Grows b c) : Grows a c := by
  intro id d hd
  obtain ⟨x, hx⟩ := h1 id d hd
  obtain ⟨y, hy⟩ := h2 id _ hx
  exact ⟨x ++ y, by rw [← List.append_assoc]; exact hy⟩

theorem grows_of_segData {a b : MState} (h : ∀ id, b.segData id = a.segData id) : Grows a b :=
  fun id d hd => ⟨[], by rw [List.append_nil, h id]; exact hd⟩

theorem pointedAt_cons (s : Slot) (l : List Slot) (sid off : Nat) :
    pointedAt (s :: l) sid off = ((s.seg == sid && s.off == off) || pointedAt l sid off) := rfl

/-- What one copy step does to the space: a live record is appended once more (its old copy becomes
garbage), a dead record or a delete record costs nothing; the index accounts for the same bytes; the
liveness of the other records of the source is not affected; no file shrinks; at most one file is
created, and only for a live record. -/
theorem compactRecord_acct {st : MState} (h2 : st.WF2) {c : CompState} {sid : Nat} {S : MSeg}
    (hc : CursorAt st c sid S) {off : Nat} {r : Rec} {rest : List (Nat × Rec)}
    (ht : c.todo = (off, r) :: rest) :
    segBytes (st.compactRecord c).1.segs =
      segBytes st.segs + (if liveAt st.idx.slots sid (off, r) = true then r.encode.length else 0) ∧
    slotBytes (st.compactRecord c).1.idx.slots = slotBytes st.idx.slots ∧
    (∀ off2, off2 ≠ off →
      pointedAt (st.compactRecord c).1.idx.slots sid off2 = pointedAt st.idx.slots sid off2) ∧
    Grows st (st.compactRecord c).1 ∧
    st.segs.length ≤ (st.compactRecord c).1.segs.length ∧
    (st.compactRecord c).1.segs.length ≤
      st.segs.length + (if liveAt st.idx.slots sid (off, r) = true then 1 else 0) := by
  have hwf := h2.1
  have hids := hwf.ids
  have hreal := hc.real hids
  have hrec : ∀ s ∈ st.segs, s.id = sid →
      ∃ done rest', recsWithOffsets s.data = done ++ (off, r) :: rest' := by
    intro s hs' hid
    obtain ⟨done, hd⟩ := hreal sid hc.source s hs' hid
    rw [ht] at hd
    exact ⟨done, rest, hd⟩
  have hsame : ∀ (hl : liveAt st.idx.slots sid (off, r) = false) (e : (st.compactRecord c).1 = st),
      segBytes (st.compactRecord c).1.segs =
        segBytes st.segs + (if liveAt st.idx.slots sid (off, r) = true then r.encode.length else 0) ∧
      slotBytes (st.compactRecord c).1.idx.slots = slotBytes st.idx.slots ∧
      (∀ off2, off2 ≠ off →
        pointedAt (st.compactRecord c).1.idx.slots sid off2 = pointedAt st.idx.slots sid off2) ∧
      Grows st (st.compactRecord c).1 ∧
      st.segs.length ≤ (st.compactRecord c).1.segs.length ∧
      (st.compactRecord c).1.segs.length ≤
        st.segs.length + (if liveAt st.idx.slots sid (off, r) = true then 1 else 0) := by
    intro hl e
    rw [e, hl]
    refine ⟨?_, rfl, fun _ _ => rfl, grows_refl st, Nat.le_refl _, ?_⟩ <;> simp
  obtain ⟨hwf1, hidx, _, _, _⟩ := writeRecord_wf hwf r.encode
  rcases compactRecord_step' st c sid off r rest hc.source ht with
    ⟨hd, e⟩ | ⟨_, hn, e⟩ | ⟨_, ⟨i0, h0⟩, hnone, _⟩ | ⟨hd, ⟨i0, h0⟩, idx', hr, e⟩
  · apply hsame _ e
    unfold liveAt
    simp [hd]
  · apply hsame _ e
    cases hl : liveAt st.idx.slots sid (off, r) with
    | false => rfl
    | true =>
      exfalso
      obtain ⟨_, sl, hsl, hsg, ho⟩ := liveAt_iff.1 hl
      obtain ⟨hk, _, _, _⟩ := slot_at_record h2 hsl (r := r)
        (fun s hs' hid => by rw [ho]; exact hrec s hs' (hid.trans hsg))
      have hkof : st.kof sl = r.key := by unfold kof; rw [hk]; rfl
      have hh : sl.hash = st.hashOf r.key := by
        have := hwf.inv.hashed sl hsl
        rw [hkof] at this
        exact this
      exact Index.repoint_none hwf.inv hn sl hsl ⟨hh, ho, hsg⟩
  · exfalso
    obtain ⟨s0, hs0, hh, ho, hsg, _⟩ := Index.repoint_some hwf.inv h0
    exact Index.repoint_none hwf1.inv hnone s0 (by rw [hidx]; exact hs0) ⟨hh, ho, hsg⟩
  · have hl : liveAt st.idx.slots sid (off, r) = true := by
      obtain ⟨s0, hs0, _, ho, hsg, _⟩ := Index.repoint_some hwf.inv h0
      exact liveAt_iff.2 ⟨hd, s0, hs0, hsg, ho⟩
    obtain ⟨hb1, hb2, hb3⟩ := segBytes_writeRecord st r.encode hids
    obtain ⟨s, L, _, hso, hss, hp, hp'⟩ := repoint_perm hwf1 hr
    rw [hidx] at hp
    have hne : (st.writeRecord r.encode).2.1 ≠ sid :=
      (writeRecord_sealed hids hc.seg hc.full r.encode).1
    rw [e, hl]
    simp only [if_true]
    refine ⟨hb1, ?_, ?_, ?_, hb2, hb3⟩
    · show slotBytes idx'.slots = _
      rw [slotBytes_perm hp', slotBytes_perm hp, slotBytes_cons, slotBytes_cons]
    · intro off2 hne2
      show pointedAt idx'.slots sid off2 = _
      rw [pointedAt_perm hp', pointedAt_perm hp, pointedAt_cons, pointedAt_cons]
      have e1 : ((st.writeRecord r.encode).2.1 == sid) = false := by simpa using hne
      have e2 : (s.off == off2) = false := by
        have : s.off ≠ off2 := by rw [hso]; exact fun e' => hne2 e'.symm
        simpa using this
      show (((st.writeRecord r.encode).2.1 == sid && _) || _) = _
      rw [e1, e2]
      simp
    · intro id d hd'
      exact writeRecord_grows st r.encode hids id d hd'

theorem liveAt_congr {l l' : List Slot} {sid : Nat} {p : Nat × Rec}
    (h : pointedAt l' sid p.1 = pointedAt l sid p.1) : liveAt l' sid p = liveAt l sid p := by
  unfold liveAt; rw [h]

/-! ### the copy loop -/

theorem compactAll_zero (st : MState) (c : CompState) : st.compactAll c 0 = (st, c) := rfl

theorem compactAll_done (sid : Nat) : ∀ (n : Nat) (st : MState) (c : CompState),
    c.source = some sid → c.todo = [] →
    (st.compactAll c n).1 = st ∧ (st.compactAll c n).2.todo = [] ∧ (st.compactAll c n).2.source = some sid := by
  intro n
  induction n with
  | zero => intro st c hs ht; exact ⟨rfl, ht, hs⟩
  | succ n ih =>
    intro st c hs ht
    rw [compactAll_succ]
    have e := compactRecord_nil st c sid hs ht
    have hs1 : (st.compactRecord c).2.source = some sid := by rw [compactRecord_source]; exact hs
    have ht1 : (st.compactRecord c).2.todo = [] := by rw [compactRecord_todo st c sid hs, ht]; rfl
    obtain ⟨g1, g2, g3⟩ := ih (st.compactRecord c).1 (st.compactRecord c).2 hs1 ht1
    exact ⟨g1.trans e, g2, g3⟩

/-- The whole copy loop over the rest of a sealed source segment: the log grows by the bytes of the
records that are live (in the state the loop starts from), the index accounts for the same bytes, every
file keeps its content as a prefix, at most one file per live record is created. -/
theorem compactAll_acct (sid : Nat) (S : MSeg) : ∀ (n : Nat) (st : MState) (c : CompState),
    st.WF2 → CursorAt st c sid S → c.todo.length ≤ n →
    (st.compactAll c n).1.WF2 ∧ CursorAt (st.compactAll c n).1 (st.compactAll c n).2 sid S ∧
    (st.compactAll c n).2.todo = [] ∧ (st.compactAll c n).1.abs = st.abs ∧
    segBytes (st.compactAll c n).1.segs =
      segBytes st.segs + recBytes (c.todo.filter (liveAt st.idx.slots sid)) ∧
    slotBytes (st.compactAll c n).1.idx.slots = slotBytes st.idx.slots ∧
    Grows st (st.compactAll c n).1 ∧
    st.segs.length ≤ (st.compactAll c n).1.segs.length ∧
    (st.compactAll c n).1.segs.length ≤
      st.segs.length + (c.todo.filter (liveAt st.idx.slots sid)).length := by
  intro n
  induction n with
  | zero =>
    intro st c h2 hc hlen
    have ht : c.todo = [] := List.length_eq_zero_iff.1 (by omega)
    rw [compactAll_zero, ht]
    exact ⟨h2, hc, rfl, rfl, rfl, rfl, grows_refl st, Nat.le_refl _, Nat.le_refl _⟩
  | succ n ih =>
    intro st c h2 hc hlen
    cases ht : c.todo with
    | nil =>
      obtain ⟨g1, g2, _⟩ := compactAll_done sid (n + 1) st c hc.source ht
      have hc' : CursorAt st (st.compactAll c (n + 1)).2 sid S := by
        obtain ⟨done, hd⟩ := hc.recs
        refine ⟨(compactAll_done sid (n + 1) st c hc.source ht).2.2, hc.seg, hc.full, ⟨done, ?_⟩, ?_, hc.pick⟩
        · rw [g2, hd, ht]
        · intro sl hsl hsg
          obtain ⟨p, hp, _⟩ := hc.slots sl hsl hsg
          rw [ht] at hp; cases hp
      rw [g1]
      exact ⟨h2, hc', g2, rfl, rfl, rfl, grows_refl st, Nat.le_refl _, Nat.le_refl _⟩
    | cons p rest =>
      obtain ⟨off, r⟩ := p
      rw [compactAll_succ]
      have hreal := hc.real h2.1.ids
      obtain ⟨h21, habs1⟩ := M04_compactRecord st h2 c hreal
      have hc1 := cursor_record h2 hc
      have htodo1 : (st.compactRecord c).2.todo = rest := by
        rw [compactRecord_todo st c sid hc.source, ht]; rfl
      have hlen1 : (st.compactRecord c).2.todo.length ≤ n := by
        rw [htodo1]; rw [ht, List.length_cons] at hlen; omega
      obtain ⟨a1, a2, a3, a4, a5, a6⟩ := compactRecord_acct h2 hc ht
      obtain ⟨g1, g2, g3, g4, g5, g6, g7, g8, g9⟩ :=
        ih (st.compactRecord c).1 (st.compactRecord c).2 h21 hc1 hlen1
      -- offsets of the remaining records differ from `off`
      have hoffs : ∀ q ∈ rest, q.1 ≠ off := by
        intro q hq
        obtain ⟨done, hd⟩ := hc.recs
        have hsorted : (recsWithOffsets S.data).Pairwise (fun a b => a.1 < b.1) := go_sorted _ _
        rw [hd, ht, List.pairwise_append] at hsorted
        have := (List.pairwise_cons.1 hsorted.2.1).1 q hq
        have : off < q.1 := this
        omega
      have hfilter : rest.filter (liveAt (st.compactRecord c).1.idx.slots sid) =
          rest.filter (liveAt st.idx.slots sid) := by
        apply List.filter_congr
        intro q hq
        exact liveAt_congr (a3 q.1 (hoffs q hq))
      rw [htodo1, hfilter] at g5 g9
      refine ⟨g1, g2, g3, g4.trans habs1, ?_, g6.trans a2, grows_trans a4 g7, by omega, ?_⟩
      · rw [g5, a1, List.filter_cons]
        cases hl : liveAt st.idx.slots sid (off, r)
        · simp
        · simp only [if_true, recBytes_cons]; omega
      · rw [List.filter_cons]
        cases hl : liveAt st.idx.slots sid (off, r)
        · rw [hl] at a6; simp only [Bool.false_eq_true, if_false] at a6 ⊢; omega
        · rw [hl] at a6; simp only [if_true, List.length_cons] at a6 ⊢; omega

/-! ### restart -/

/-- A clean reopen writes nothing; it creates at most one (empty) file. -/
theorem segBytes_reopenClean (st : MState) :
    segBytes st.reopenClean.segs = segBytes st.segs ∧
    st.segs.length ≤ st.reopenClean.segs.length ∧ st.reopenClean.segs.length ≤ st.segs.length + 1 :=
  segBytes_swap st.reopenPre

/-- Weighted version of `segBytes_replace`. -/
theorem wsum_replace (w : MSeg → Nat) : ∀ (segs : List MSeg), (segs.map (·.id)).Nodup → ∀ s ∈ segs,
    ∀ s' : MSeg, s'.id = s.id →
    ((segs.map (fun x => if x.id == s'.id then s' else x)).map w).sum + w s = (segs.map w).sum + w s'
  | [], _, s, hs, _, _ => by cases hs
  | x :: xs, hnd, s, hs, s', hid => by
    rw [List.map_cons, List.nodup_cons] at hnd
    rw [List.map_cons, List.map_cons, List.sum_cons, List.map_cons, List.sum_cons]
    rcases List.mem_cons.1 hs with rfl | hs'
    · have h1 : (s.id == s'.id) = true := by simp [hid]
      rw [if_pos h1]
      have hrest : xs.map (fun x => if x.id == s'.id then s' else x) = xs := by
        conv => rhs; rw [← List.map_id xs]
        apply List.map_congr_left
        intro y hy
        have hne : y.id ≠ s'.id := by
          intro e
          apply hnd.1
          rw [← hid, ← e]
          exact List.mem_map.2 ⟨y, hy, rfl⟩
        simp [hne]
      rw [hrest]; omega
    · have hne : x.id ≠ s'.id := by
        intro e
        apply hnd.1
        rw [e, hid]
        exact List.mem_map.2 ⟨s, hs', rfl⟩
      have h1 : ¬ (x.id == s'.id) = true := by simpa using hne
      rw [if_neg h1]
      have := wsum_replace w xs hnd.2 s hs' s' hid
      omega

/-- Recovery keeps exactly the valid prefix of every file (and creates one empty file if there is
none). -/
theorem segBytes_recover (st : MState) (hids : (st.segs.map (·.id)).Nodup) (seed : UInt32) :
    segBytes (st.reopenRecover seed).segs = (st.segs.map (fun s => (scan s.data).2)).sum ∧
    (st.reopenRecover seed).segs.length = max 1 st.segs.length := by
  obtain ⟨newest, hsegs⟩ := recover_segs st hids seed
  rw [hsegs]
  have hlen : ∀ x : MSeg, (sealSeg newest (truncSeg x)).data.length = (scan x.data).2 := by
    intro x
    rw [sealSeg_data]
    show (x.data.take (scan x.data).2).length = _
    rw [List.length_take]
    have := scan_len_le x.data
    omega
  rcases recover0_segs st seed with ⟨h0, e, hd, _, he⟩ | ⟨hne, h⟩
  · rw [he, h0]
    refine ⟨?_, rfl⟩
    show segBytes [sealSeg newest (truncSeg e)] = 0
    rw [segBytes_cons, hlen, hd, scan_nil]; rfl
  · rw [h, List.map_map]
    constructor
    · unfold segBytes
      rw [List.map_map]
      apply sum_map_congr
      intro x _
      exact hlen (clearSeg x)
    · rw [List.length_map]
      cases hs : st.segs with
      | nil => exact absurd hs hne
      | cons a l => rw [List.length_cons]; omega

theorem segBytes_recover_le (st : MState) (hids : (st.segs.map (·.id)).Nodup) (seed : UInt32) :
    segBytes (st.reopenRecover seed).segs ≤ segBytes st.segs := by
  rw [(segBytes_recover st hids seed).1]
  unfold segBytes
  generalize st.segs = l
  induction l with
  | nil => exact Nat.le_refl _
  | cons x xs ih =>
    rw [List.map_cons, List.map_cons, List.sum_cons, List.sum_cons]
    have := scan_len_le x.data
    omega

/-- A state whose files hold whole valid records only (every reachable state) loses nothing. -/
theorem segBytes_recover_clean (st : MState) (hids : (st.segs.map (·.id)).Nodup) (hc : st.SegsClean)
    (seed : UInt32) : segBytes (st.reopenRecover seed).segs = segBytes st.segs := by
  rw [(segBytes_recover st hids seed).1]
  unfold segBytes
  exact sum_map_congr (fun s hs => hc s hs)

/-- A crash inside the append of a record, then recovery: the torn tail is cut off; the record stays
iff all its bytes were written. -/
theorem segBytes_crashTorn {st : MState} (hids : (st.segs.map (·.id)).Nodup) (hN : st.CurOrd)
    (hc : st.SegsClean) (seed : UInt32) (r : Rec) (hf : r.Fits) (n : Nat) (hn : n ≤ r.encode.length) :
    segBytes ((st.writePartial r.encode n).reopenRecover seed).segs =
      segBytes st.segs + (if n = r.encode.length then r.encode.length else 0) := by
  obtain ⟨hidsP, _, _, _⟩ := writePartial_log hids hN hc r hf n hn
  rw [(segBytes_recover _ hidsP seed).1]
  obtain ⟨_, _, hc0, _, s, htgt, hsm, _⟩ := wrPre_ord hids hN hc r.encode
  have hids0 := (wrPre_spec st r.encode hids).1
  obtain ⟨hb0, _, _⟩ := segBytes_wrPre st r.encode hids
  rw [writePartial_eq, htgt]
  dsimp only
  have h := wsum_replace (fun s => (scan s.data).2) (st.wrPre r.encode).segs hids0 s hsm
    { s with data := s.data ++ r.encode.take n } rfl
  have hclean : ((st.wrPre r.encode).segs.map (fun s => (scan s.data).2)).sum =
      segBytes (st.wrPre r.encode).segs := by
    unfold segBytes
    exact sum_map_congr (fun x hx => hc0 x hx)
  have hs : (scan s.data).2 = s.data.length := hc0 s hsm
  have hd := cleanD_eq (hc0 s hsm)
  have hnew : (scan (s.data ++ r.encode.take n)).2 =
      s.data.length + (if n = r.encode.length then r.encode.length else 0) := by
    by_cases he : n = r.encode.length
    · rw [if_pos he, he, List.take_length]
      have := (recs_append (hc0 s hsm) hf).1
      unfold CleanD at this
      rw [this, List.length_append]
    · rw [if_neg he]
      have := scan_torn (scan s.data).1 r n (scan_fits s.data) hf (by omega)
      rw [hd] at this
      rw [this]; rfl
  apply Nat.add_right_cancel (m := (scan s.data).2)
  refine Eq.trans h ?_
  rw [hclean, hb0, hs, hnew]
  omega

/-! ### the bytes the index accounts for are a function of the contents -/

/-- Encoded length of the put records of a listing of the contents. -/
def kvBytes (l : List (Bytes × Bytes)) : Nat := (l.map (fun kv => 10 + kv.1.length + kv.2.length)).sum

theorem kvBytes_items_aux (st : MState) : ∀ (l : List Slot),
    (∀ sl ∈ l, ∃ k v, st.readKey sl = some k ∧ st.readVal sl = some v ∧
      k.length = sl.ksz ∧ v.length = sl.vsz) →
    kvBytes (l.filterMap fun sl =>
      match st.readKey sl, st.readVal sl with
      | some k, some v => some (k, v)
      | _, _ => none) = slotBytes l
  | [], _ => rfl
  | sl :: l, h => by
    obtain ⟨k, v, hk, hv, hkl, hvl⟩ := h sl List.mem_cons_self
    have ih := kvBytes_items_aux st l (fun a ha => h a (List.mem_cons_of_mem _ ha))
    rw [List.filterMap_cons_some (b := (k, v)) (by rw [hk, hv]), slotBytes_cons, ← ih]
    unfold kvBytes
    rw [List.map_cons, List.sum_cons, hkl, hvl]

theorem slotBytes_eq_items {st : MState} (hwf : st.WF) : slotBytes st.idx.slots = kvBytes st.items := by
  unfold MState.items
  refine (kvBytes_items_aux st st.idx.slots ?_).symm
  intro sl hsl
  obtain ⟨_, _, _, _, _, _, k, v, hk, hv, hkl, hvl⟩ := hwf.points sl hsl
  exact ⟨k, v, hk, hv, hkl, hvl⟩

/-- Two well-formed states with the same contents account for the same bytes. -/
theorem slotBytes_of_abs {st st' : MState} (hwf : st.WF) (hwf' : st'.WF) (habs : st'.abs = st.abs) :
    slotBytes st'.idx.slots = slotBytes st.idx.slots := by
  rw [slotBytes_eq_items hwf, slotBytes_eq_items hwf']
  obtain ⟨_, _, hnd, hmem⟩ := M01_has_count st hwf []
  obtain ⟨_, _, hnd', hmem'⟩ := M01_has_count st' hwf' []
  have hp : st'.items.Perm st.items := by
    rw [List.perm_ext_iff_of_nodup (nodup_of_map _ hnd') (nodup_of_map _ hnd)]
    rintro ⟨k, v⟩
    rw [hmem, hmem', habs]
  exact (hp.map _).sum_nat

/-! ### runs of the interleaved model -/

theorem runOps_cons (x : XState) (op : XOp) (ops : List XOp) :
    x.runOps (op :: ops) = (x.step op).1.runOps ops := rfl

theorem runOps_append (x : XState) (a b : List XOp) : x.runOps (a ++ b) = (x.runOps a).runOps b := by
  unfold XState.runOps; rw [List.foldl_append]

/-- `n` copy steps of the interleaved model are the copy loop `compactAll`. -/
theorem runOps_crecords : ∀ (n : Nat) (st : MState) (c : CompState),
    (XState.mk st (some c)).runOps (List.replicate n .crecord) =
      ⟨(st.compactAll c n).1, some (st.compactAll c n).2⟩
  | 0, _, _ => rfl
  | n + 1, st, c => by
    rw [List.replicate_succ, runOps_cons, XState.step_crecord _ c rfl, compactAll_succ]
    exact runOps_crecords n _ _

/-- Copy steps and `cend` are always admissible. -/
theorem opsOK_compaction : ∀ (ops : List XOp), (∀ op ∈ ops, op = .crecord ∨ op = .cend) →
    ∀ x : XState, x.OpsOK ops
  | [], _, _ => trivial
  | op :: ops, h, x => by
    refine ⟨?_, opsOK_compaction ops (fun o ho => h o (List.mem_cons_of_mem _ ho)) _⟩
    rcases h op List.mem_cons_self with rfl | rfl <;> trivial

theorem removeSeg_seg?_self (st : MState) (id : Nat) : (st.removeSeg id).seg? id = none := by
  unfold seg? removeSeg
  dsimp only
  rw [List.find?_eq_none]
  intro x hx
  have := (List.mem_filter.1 hx).2
  simpa using this

/-! ### a sum with a single non-zero term -/

theorem sum_map_zero {α} {f : α → Nat} {l : List α} (h : ∀ x ∈ l, f x = 0) : (l.map f).sum = 0 := by
  induction l with
  | nil => rfl
  | cons x xs ih =>
    rw [List.map_cons, List.sum_cons, h x List.mem_cons_self,
      ih (fun y hy => h y (List.mem_cons_of_mem _ hy))]

/-- If only the segment with id `c` may contribute, the sum is its contribution. -/
theorem sum_map_single (f : MSeg → Nat) (c : Option Nat) : ∀ (segs : List MSeg),
    (segs.map (·.id)).Nodup → (∀ s ∈ segs, c ≠ some s.id → f s = 0) →
    (segs.map f).sum = ((c.bind fun id => segs.find? (·.id == id)).map f).getD 0
  | [], _, _ => by cases c <;> rfl
  | x :: xs, hnd, h => by
    rw [List.map_cons, List.nodup_cons] at hnd
    rw [List.map_cons, List.sum_cons]
    by_cases hx : c = some x.id
    · subst hx
      have hz : (xs.map f).sum = 0 := by
        apply sum_map_zero
        intro y hy
        apply h y (List.mem_cons_of_mem _ hy)
        intro e
        apply hnd.1
        rw [Option.some.inj e]
        exact List.mem_map.2 ⟨y, hy, rfl⟩
      rw [hz]
      simp
    · rw [h x List.mem_cons_self hx, Nat.zero_add,
        sum_map_single f c xs hnd.2 (fun s hs => h s (List.mem_cons_of_mem _ hs))]
      cases c with
      | none => rfl
      | some id =>
        have : (x.id == id) = false := by
          have : x.id ≠ id := fun e => hx (by rw [e])
          simpa using this
        simp only [Option.bind_some, List.find?_cons, this]

end MState
end Pogreb
