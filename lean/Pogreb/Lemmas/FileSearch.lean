/-
  Helper lemmas for Props/F01: `findMatch`/`firstFree` on a walk versus
  `Chain.replace`/`Chain.remove`/`Chain.insertFree`/`Chain.get` on the slot lists.
-/
import Pogreb.Lemmas.FileIndex
namespace Pogreb

/-! ### chain level, by position -/

theorem Bucket.replace_findIdx (h : Nat) (m : Slot → Bool) (ns : Slot) (b : Bucket) :
    Bucket.replace h m ns b =
      (b.findIdx? (fun s => decide (s.hash = h) && m s)).map (fun k => b.set k ns) := by
  induction b with
  | nil => rfl
  | cons x xs ih =>
    simp only [Bucket.replace, List.findIdx?_cons, ih]
    split
    · rfl
    · cases List.findIdx? _ xs <;> simp

theorem Bucket.remove_findIdx (h : Nat) (m : Slot → Bool) (b : Bucket) :
    Bucket.remove h m b =
      (b.findIdx? (fun s => decide (s.hash = h) && m s)).map (fun k => b.eraseIdx k) := by
  induction b with
  | nil => rfl
  | cons x xs ih =>
    simp only [Bucket.remove, List.findIdx?_cons, ih]
    split
    · rfl
    · cases List.findIdx? _ xs <;> simp

theorem find?_findIdx {α} (p : α → Bool) (b : List α) :
    b.find? p = (b.findIdx? p).bind (fun k => b[k]?) := by
  induction b with
  | nil => rfl
  | cons x xs ih =>
    simp only [List.find?_cons, List.findIdx?_cons, ih]
    cases hp : p x
    · cases List.findIdx? p xs <;> simp
    · simp

section
variable (h : Nat) (m : Slot → Bool)

theorem Chain.replace_at (ns : Slot) {pre : List Bucket} {b : Bucket} {post : List Bucket} {k : Nat}
    (hpre : ∀ x ∈ pre, x.findIdx? (fun s => decide (s.hash = h) && m s) = none)
    (hb : b.findIdx? (fun s => decide (s.hash = h) && m s) = some k) :
    Chain.replace h m ns (pre ++ b :: post) = some (pre ++ b.set k ns :: post) := by
  induction pre with
  | nil => simp [Chain.replace, Bucket.replace_findIdx, hb]
  | cons x xs ih =>
    have hx := hpre x List.mem_cons_self
    simp only [List.cons_append, Chain.replace, Bucket.replace_findIdx, hx, Option.map_none,
      ih (fun y hy => hpre y (List.mem_cons_of_mem _ hy)), Option.map_some]

theorem Chain.replace_none' (ns : Slot) {c : List Bucket}
    (hall : ∀ x ∈ c, x.findIdx? (fun s => decide (s.hash = h) && m s) = none) :
    Chain.replace h m ns c = none := by
  induction c with
  | nil => rfl
  | cons x xs ih =>
    have hx := hall x List.mem_cons_self
    simp only [Chain.replace, Bucket.replace_findIdx, hx, Option.map_none,
      ih (fun y hy => hall y (List.mem_cons_of_mem _ hy))]

theorem Chain.remove_at {pre : List Bucket} {b : Bucket} {post : List Bucket} {k : Nat}
    (hpre : ∀ x ∈ pre, x.findIdx? (fun s => decide (s.hash = h) && m s) = none)
    (hb : b.findIdx? (fun s => decide (s.hash = h) && m s) = some k) :
    Chain.remove h m (pre ++ b :: post) = some (pre ++ b.eraseIdx k :: post) := by
  induction pre with
  | nil => simp [Chain.remove, Bucket.remove_findIdx, hb]
  | cons x xs ih =>
    have hx := hpre x List.mem_cons_self
    simp only [List.cons_append, Chain.remove, Bucket.remove_findIdx, hx, Option.map_none,
      ih (fun y hy => hpre y (List.mem_cons_of_mem _ hy)), Option.map_some]

theorem Chain.remove_none' {c : List Bucket}
    (hall : ∀ x ∈ c, x.findIdx? (fun s => decide (s.hash = h) && m s) = none) :
    Chain.remove h m c = none := by
  induction c with
  | nil => rfl
  | cons x xs ih =>
    have hx := hall x List.mem_cons_self
    simp only [Chain.remove, Bucket.remove_findIdx, hx, Option.map_none,
      ih (fun y hy => hall y (List.mem_cons_of_mem _ hy))]

theorem Chain.get_at {pre : List Bucket} {b : Bucket} {post : List Bucket} {k : Nat}
    (hpre : ∀ x ∈ pre, x.findIdx? (fun s => decide (s.hash = h) && m s) = none)
    (hb : b.findIdx? (fun s => decide (s.hash = h) && m s) = some k) :
    Chain.get (pre ++ b :: post) h m = b[k]? := by
  unfold Chain.get
  induction pre with
  | nil =>
    have hk := List.findIdx?_eq_some_iff_getElem.1 hb
    obtain ⟨hk, hpk, _⟩ := hk
    simp only [List.nil_append, List.flatten_cons, List.find?_append]
    rw [find?_findIdx _ b, hb]
    simp [hk]
  | cons x xs ih =>
    have hx := hpre x List.mem_cons_self
    simp only [List.cons_append, List.flatten_cons, List.find?_append]
    rw [find?_findIdx _ x, hx]
    simpa using ih (fun y hy => hpre y (List.mem_cons_of_mem _ hy))

theorem Chain.get_none' {c : List Bucket}
    (hall : ∀ x ∈ c, x.findIdx? (fun s => decide (s.hash = h) && m s) = none) :
    Chain.get c h m = none := by
  unfold Chain.get
  induction c with
  | nil => rfl
  | cons x xs ih =>
    have hx := hall x List.mem_cons_self
    simp only [List.flatten_cons, List.find?_append]
    rw [find?_findIdx _ x, hx]
    simpa using ih (fun y hy => hall y (List.mem_cons_of_mem _ hy))

end

theorem Chain.insertFree_at (ns : Slot) {pre : List Bucket} {b : Bucket} {post : List Bucket}
    (hpre : ∀ x ∈ pre, ¬ x.length < slotsPerBucket) (hb : b.length < slotsPerBucket) :
    Chain.insertFree ns (pre ++ b :: post) = pre ++ (b ++ [ns]) :: post := by
  induction pre with
  | nil => simp [Chain.insertFree, hb]
  | cons x xs ih =>
    have hx := hpre x List.mem_cons_self
    simp only [List.cons_append, Chain.insertFree, hx, if_false,
      ih (fun y hy => hpre y (List.mem_cons_of_mem _ hy))]

theorem Chain.insertFree_full (ns : Slot) {c : List Bucket}
    (hall : ∀ x ∈ c, ¬ x.length < slotsPerBucket) : Chain.insertFree ns c = c ++ [[ns]] := by
  induction c with
  | nil => rfl
  | cons x xs ih =>
    have hx := hall x List.mem_cons_self
    simp only [List.cons_append, Chain.insertFree, hx, if_false,
      ih (fun y hy => hall y (List.mem_cons_of_mem _ hy))]

/-! ### file level -/
namespace FIndex

theorem findMatch_some {h : Nat} {m : Slot → Bool} {l : List (Ref × FBucket)} {r : Ref} {b : FBucket} {k : Nat}
    (hf : findMatch h m l = some (r, b, k)) :
    ∃ pre post, l = pre ++ (r, b) :: post ∧
      (∀ p ∈ pre, p.2.slots.findIdx? (fun s => decide (s.hash = h) && m s) = none) ∧
      b.slots.findIdx? (fun s => decide (s.hash = h) && m s) = some k := by
  induction l with
  | nil => simp [findMatch] at hf
  | cons x xs ih =>
    obtain ⟨r', b'⟩ := x
    simp only [findMatch] at hf
    split at hf
    · next i hi =>
      simp only [Option.some.injEq, Prod.mk.injEq] at hf
      obtain ⟨rfl, rfl, rfl⟩ := hf
      exact ⟨[], xs, rfl, by simp, hi⟩
    · next hi =>
      obtain ⟨pre, post, h1, h2, h3⟩ := ih hf
      refine ⟨(r', b') :: pre, post, by simp [h1], ?_, h3⟩
      intro p hp
      rcases List.mem_cons.1 hp with rfl | hp
      · exact hi
      · exact h2 p hp

theorem findMatch_none {h : Nat} {m : Slot → Bool} {l : List (Ref × FBucket)}
    (hf : findMatch h m l = none) :
    ∀ p ∈ l, p.2.slots.findIdx? (fun s => decide (s.hash = h) && m s) = none := by
  induction l with
  | nil => simp
  | cons x xs ih =>
    obtain ⟨r', b'⟩ := x
    simp only [findMatch] at hf
    split at hf
    · cases hf
    · next hi =>
      intro p hp
      rcases List.mem_cons.1 hp with rfl | hp
      · exact hi
      · exact ih hf p hp

theorem firstFree_some {l : List (Ref × FBucket)} {r : Ref} {b : FBucket}
    (hf : firstFree l = some (r, b)) :
    ∃ pre post, l = pre ++ (r, b) :: post ∧
      (∀ p ∈ pre, ¬ p.2.slots.length < slotsPerBucket) ∧ b.slots.length < slotsPerBucket := by
  induction l with
  | nil => simp [firstFree] at hf
  | cons x xs ih =>
    obtain ⟨r', b'⟩ := x
    simp only [firstFree] at hf
    split at hf
    · next hi =>
      simp only [Option.some.injEq, Prod.mk.injEq] at hf
      obtain ⟨rfl, rfl⟩ := hf
      exact ⟨[], xs, rfl, by simp, hi⟩
    · next hi =>
      obtain ⟨pre, post, h1, h2, h3⟩ := ih hf
      refine ⟨(r', b') :: pre, post, by simp [h1], ?_, h3⟩
      intro p hp
      rcases List.mem_cons.1 hp with rfl | hp
      · exact hi
      · exact h2 p hp

theorem firstFree_none {l : List (Ref × FBucket)} (hf : firstFree l = none) :
    ∀ p ∈ l, ¬ p.2.slots.length < slotsPerBucket := by
  induction l with
  | nil => simp
  | cons x xs ih =>
    obtain ⟨r', b'⟩ := x
    simp only [firstFree] at hf
    split at hf
    · cases hf
    · next hi =>
      intro p hp
      rcases List.mem_cons.1 hp with rfl | hp
      · exact hi
      · exact ih hf p hp

end FIndex
end Pogreb
