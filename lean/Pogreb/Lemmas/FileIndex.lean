/-
  Helper lemmas for Props/F01: pointer walks of the file-level index, a fuel-free formulation
  (`Good`) of the allocator invariant, and the framing lemmas for bucket writes.
-/
import Pogreb.FileIndex
import Pogreb.IndexThms
namespace Pogreb
namespace FIndex

/-! ### read / write -/

def InRange (fi : FIndex) : Ref → Prop
  | .main i => i < fi.main.length
  | .ovf j => j < fi.ovf.length

theorem read_write_same (fi : FIndex) (r : Ref) (b : FBucket) (h : fi.InRange r) :
    (fi.write r b).read r = b := by
  cases r <;> simp_all [read, write, InRange]

theorem read_write_ne (fi : FIndex) (r r' : Ref) (b : FBucket) (h : r' ≠ r) :
    (fi.write r b).read r' = fi.read r' := by
  cases r <;> cases r' <;> simp_all [read, write, List.getElem?_set]
  all_goals (rename_i a b; have : ¬ a = b := fun h' => h h'.symm; simp [this])

@[simp] theorem write_main_length (fi : FIndex) (r : Ref) (b : FBucket) :
    (fi.write r b).main.length = fi.main.length := by cases r <;> simp [write]
@[simp] theorem write_ovf_length (fi : FIndex) (r : Ref) (b : FBucket) :
    (fi.write r b).ovf.length = fi.ovf.length := by cases r <;> simp [write]
@[simp] theorem write_free (fi : FIndex) (r : Ref) (b : FBucket) :
    (fi.write r b).free = fi.free := by cases r <;> simp [write]
@[simp] theorem write_level (fi : FIndex) (r : Ref) (b : FBucket) :
    (fi.write r b).level = fi.level := by cases r <;> simp [write]
@[simp] theorem write_split (fi : FIndex) (r : Ref) (b : FBucket) :
    (fi.write r b).split = fi.split := by cases r <;> simp [write]
@[simp] theorem write_numKeys (fi : FIndex) (r : Ref) (b : FBucket) :
    (fi.write r b).numKeys = fi.numKeys := by cases r <;> simp [write]

/-! ### walks -/

/-- The bucket references of a chain starting at `r` whose successive pointers are `ps`. -/
def refs (r : Ref) (ps : List Nat) : List Ref := r :: ps.map (fun p => Ref.ovf (p - 1))

/-- `ps` is exactly the list of `next` pointers met when walking from `r` (ending with `0`). -/
def Linked (fi : FIndex) : Ref → List Nat → Prop
  | r, [] => (fi.read r).next = 0
  | r, p :: ps => (fi.read r).next = p ∧ p ≠ 0 ∧ Linked fi (.ovf (p - 1)) ps

def walk (fi : FIndex) (r : Ref) (ps : List Nat) : List (Ref × FBucket) :=
  (refs r ps).map (fun r' => (r', fi.read r'))

/-- The pointer extraction used in `linked`. -/
def nx : Ref × FBucket → Option Nat := fun p => if p.2.next = 0 then none else some p.2.next

def ptrs (fi : FIndex) (i : Nat) : List Nat := (fi.chainRefs i).filterMap nx

theorem linked_eq_ptrs (fi : FIndex) : fi.linked = (List.range fi.main.length).flatMap fi.ptrs := rfl

theorem refs_cons (r : Ref) (p : Nat) (ps : List Nat) : refs r (p :: ps) = r :: refs (.ovf (p - 1)) ps := rfl

theorem chainFrom_of_linked (fi : FIndex) : ∀ (ps : List Nat) (r : Ref) (fuel : Nat),
    Linked fi r ps → ps.length < fuel → fi.chainFrom fuel r = fi.walk r ps
  | [], r, fuel, h, hf => by
    obtain ⟨f, rfl⟩ : ∃ f, fuel = f + 1 := ⟨fuel - 1, by simp at hf; omega⟩
    simp only [Linked] at h
    simp [chainFrom, h, walk, refs]
  | p :: ps, r, fuel, h, hf => by
    obtain ⟨f, rfl⟩ : ∃ f, fuel = f + 1 := ⟨fuel - 1, by simp at hf; omega⟩
    simp only [Linked] at h
    obtain ⟨h1, h2, h3⟩ := h
    have ih := chainFrom_of_linked fi ps (.ovf (p - 1)) f h3 (by simp at hf; omega)
    simp only [chainFrom, h1, h2, if_false, ih]
    simp [walk, refs]

theorem walk_ptrs (fi : FIndex) : ∀ (ps : List Nat) (r : Ref), Linked fi r ps → (fi.walk r ps).filterMap nx = ps
  | [], r, h => by
    simp only [Linked] at h
    simp [walk, refs, nx, h]
  | p :: ps, r, h => by
    simp only [Linked] at h
    obtain ⟨h1, h2, h3⟩ := h
    have ih := walk_ptrs fi ps (.ovf (p - 1)) h3
    simp only [walk, refs_cons, List.map_cons] at ih ⊢
    rw [List.filterMap_cons]
    simp only [nx, h1, h2, if_false]
    rw [ih]

/-- Either the walk terminated, or the fuel ran out. -/
theorem chainFrom_extract (fi : FIndex) : ∀ (fuel : Nat) (r : Ref),
    Linked fi r ((fi.chainFrom fuel r).filterMap nx) ∨ ((fi.chainFrom fuel r).filterMap nx).length = fuel
  | 0, r => by simp [chainFrom]
  | fuel + 1, r => by
    by_cases hb : (fi.read r).next = 0
    · left
      simp [chainFrom, hb, nx, Linked]
    · have ih := chainFrom_extract fi fuel (.ovf ((fi.read r).next - 1))
      simp only [chainFrom, hb, if_false]
      rw [List.filterMap_cons]
      simp only [nx, hb, if_false]
      rcases ih with ih | ih
      · left; exact ⟨rfl, hb, ih⟩
      · right; simp [ih]

theorem length_le_of_nodup_range {l : List Nat} {n : Nat} (hnd : l.Nodup)
    (h : ∀ x ∈ l, 1 ≤ x ∧ x ≤ n) : l.length ≤ n := by
  have hsub : l ⊆ List.range' 1 n := by
    intro x hx
    have := h x hx
    rw [List.mem_range'_1]
    omega
  simpa using hnd.length_le_of_subset hsub

theorem flatMap_congr' {α β} {l : List α} {f g : α → List β} (h : ∀ a ∈ l, f a = g a) :
    l.flatMap f = l.flatMap g := by
  induction l with
  | nil => rfl
  | cons a l ih =>
    simp only [List.flatMap_cons]
    rw [h a List.mem_cons_self, ih (fun b hb => h b (List.mem_cons_of_mem _ hb))]

theorem nodup_flatMap_range (P : Nat → List Nat) (n : Nat) :
    ((List.range n).flatMap P).Nodup ↔
      (∀ i, i < n → (P i).Nodup) ∧ ∀ i, i < n → ∀ j, j < n → i ≠ j → ∀ x ∈ P i, x ∉ P j := by
  induction n with
  | zero => simp
  | succ n ih =>
    rw [List.range_succ, List.flatMap_append, List.nodup_append, ih]
    simp only [List.flatMap_cons, List.flatMap_nil, List.append_nil, List.mem_flatMap, List.mem_range]
    constructor
    · rintro ⟨⟨h1, h2⟩, h3, h4⟩
      refine ⟨?_, ?_⟩
      · intro i hi
        by_cases hin : i = n
        · subst hin; exact h3
        · exact h1 i (by omega)
      · intro i hi j hj hij x hx hx'
        by_cases hin : i = n
        · subst hin
          exact h4 x ⟨j, by omega, hx'⟩ x hx rfl
        · by_cases hjn : j = n
          · subst hjn
            exact h4 x ⟨i, by omega, hx⟩ x hx' rfl
          · exact h2 i (by omega) j (by omega) hij x hx hx'
    · rintro ⟨h1, h2⟩
      refine ⟨⟨fun i hi => h1 i (by omega), fun i hi j hj hij => h2 i (by omega) j (by omega) hij⟩,
        h1 n (by omega), ?_⟩
      rintro a ⟨i, hi, hx⟩ b hb rfl
      exact h2 i (by omega) n (by omega) (by omega) a hx hb

/-! ### the fuel-free invariant -/

structure Good (fi : FIndex) (P : Nat → List Nat) : Prop where
  lk : ∀ i, i < fi.main.length → Linked fi (.main i) (P i)
  rng : ∀ i, i < fi.main.length → ∀ n ∈ P i, 1 ≤ n ∧ n ≤ fi.ovf.length
  nd : ∀ i, i < fi.main.length → (P i).Nodup
  dj : ∀ i, i < fi.main.length → ∀ j, j < fi.main.length → i ≠ j → ∀ n ∈ P i, n ∉ P j
  frng : ∀ n ∈ fi.free, 1 ≤ n ∧ n ≤ fi.ovf.length
  fnd : fi.free.Nodup
  fdj : ∀ n ∈ fi.free, ∀ i, i < fi.main.length → n ∉ P i
  sm : ∀ i, i < fi.main.length → ∀ r ∈ refs (.main i) (P i), (fi.read r).slots.length ≤ slotsPerBucket
  ne : 0 < fi.main.length

theorem Good.chainRefs {fi : FIndex} {P : Nat → List Nat} (g : Good fi P) {i : Nat} (hi : i < fi.main.length) :
    fi.chainRefs i = fi.walk (.main i) (P i) := by
  apply chainFrom_of_linked _ _ _ _ (g.lk i hi)
  have := length_le_of_nodup_range (g.nd i hi) (g.rng i hi)
  omega

theorem Good.ptrs {fi : FIndex} {P : Nat → List Nat} (g : Good fi P) {i : Nat} (hi : i < fi.main.length) :
    fi.ptrs i = P i := by
  rw [FIndex.ptrs, g.chainRefs hi, walk_ptrs _ _ _ (g.lk i hi)]

theorem Good.linked {fi : FIndex} {P : Nat → List Nat} (g : Good fi P) :
    fi.linked = (List.range fi.main.length).flatMap P := by
  rw [linked_eq_ptrs]
  apply flatMap_congr'
  intro i hi
  exact g.ptrs (List.mem_range.1 hi)

theorem Good.mem_linked {fi : FIndex} {P : Nat → List Nat} (g : Good fi P) (n : Nat) :
    n ∈ fi.linked ↔ ∃ i, i < fi.main.length ∧ n ∈ P i := by
  rw [g.linked]; simp [List.mem_flatMap]

theorem Good.allocInv {fi : FIndex} {P : Nat → List Nat} (g : Good fi P) : fi.AllocInv := by
  refine ⟨?_, ?_, g.frng, g.fnd, ?_, ?_, ?_, ?_⟩
  · intro n hn
    obtain ⟨i, hi, hn⟩ := (g.mem_linked n).1 hn
    exact g.rng i hi n hn
  · rw [g.linked, nodup_flatMap_range]
    exact ⟨g.nd, g.dj⟩
  · intro n hn hl
    obtain ⟨i, hi, hn'⟩ := (g.mem_linked n).1 hl
    exact g.fdj n hn i hi hn'
  · intro b hb
    obtain ⟨i, hi, rfl⟩ := List.getElem_of_mem hb
    have := g.sm i hi (.main i) (by simp [refs])
    simpa [read, hi] using this
  · intro n hn
    obtain ⟨i, hi, hn'⟩ := (g.mem_linked n).1 hn
    exact g.sm i hi (.ovf (n - 1)) (by simp only [refs, List.mem_cons, List.mem_map]; exact Or.inr ⟨n, hn', rfl⟩)
  · intro h
    have := g.ne
    simp [h] at this

theorem good_of_allocInv {fi : FIndex} (h : fi.AllocInv) : Good fi fi.ptrs := by
  obtain ⟨h1, h2, h3, h4, h5, h6, h7, h8⟩ := h
  rw [linked_eq_ptrs, nodup_flatMap_range] at h2
  have hmem : ∀ i, i < fi.main.length → ∀ n ∈ fi.ptrs i, n ∈ fi.linked := by
    intro i hi n hn
    rw [linked_eq_ptrs]
    exact List.mem_flatMap.2 ⟨i, List.mem_range.2 hi, hn⟩
  have hlk : ∀ i, i < fi.main.length → Linked fi (.main i) (fi.ptrs i) := by
    intro i hi
    rcases chainFrom_extract fi (fi.ovf.length + 1) (.main i) with hl | hl
    · exact hl
    · exfalso
      have := length_le_of_nodup_range (h2.1 i hi) (fun n hn => h1 n (hmem i hi n hn))
      have e : (fi.ptrs i).length = fi.ovf.length + 1 := hl
      omega
  refine ⟨hlk, fun i hi n hn => h1 n (hmem i hi n hn), h2.1, h2.2, h3, h4,
    fun n hn i hi hn' => h5 n hn (hmem i hi n hn'), ?_, ?_⟩
  · intro i hi r hr
    simp only [refs, List.mem_cons, List.mem_map] at hr
    rcases hr with rfl | ⟨n, hn, rfl⟩
    · have := h6 fi.main[i] (List.getElem_mem hi)
      simpa [read, hi] using this
    · exact h7 n (hmem i hi n hn)
  · cases hm : fi.main with
    | nil => exact absurd hm h8
    | cons a l => simp

/-! ### framing -/

theorem Linked.congr {fi fi' : FIndex} : ∀ (ps : List Nat) (r : Ref),
    (∀ r' ∈ refs r ps, (fi'.read r').next = (fi.read r').next) → Linked fi r ps → Linked fi' r ps
  | [], r, h, hl => by
    simp only [Linked] at hl ⊢
    rw [h r (by simp [refs]), hl]
  | p :: ps, r, h, hl => by
    simp only [Linked] at hl ⊢
    obtain ⟨h1, h2, h3⟩ := hl
    refine ⟨by rw [h r (by simp [refs]), h1], h2, ?_⟩
    exact Linked.congr ps _ (fun r' hr' => h r' (by rw [refs_cons]; exact List.mem_cons_of_mem _ hr')) h3

theorem refs_nodup_main (i : Nat) (ps : List Nat) (h1 : ∀ n ∈ ps, 1 ≤ n) (h2 : ps.Nodup) :
    (refs (.main i) ps).Nodup := by
  simp only [refs, List.nodup_cons, List.mem_map, reduceCtorEq, and_false, exists_false, not_false_eq_true, true_and]
  induction ps with
  | nil => simp
  | cons p ps ih =>
    simp only [List.map_cons, List.nodup_cons, List.mem_map, Ref.ovf.injEq] at h2 ⊢
    refine ⟨?_, ih (fun n hn => h1 n (List.mem_cons_of_mem _ hn)) h2.2⟩
    rintro ⟨q, hq, he⟩
    have := h1 q (List.mem_cons_of_mem _ hq)
    have := h1 p List.mem_cons_self
    have : q = p := by omega
    subst this
    exact h2.1 hq

theorem mem_refs_main {i : Nat} {ps : List Nat} {r : Ref} :
    r ∈ refs (.main i) ps ↔ r = .main i ∨ ∃ n ∈ ps, r = .ovf (n - 1) := by
  simp only [refs, List.mem_cons, List.mem_map]
  constructor
  · rintro (h | ⟨n, hn, rfl⟩)
    · exact Or.inl h
    · exact Or.inr ⟨n, hn, rfl⟩
  · rintro (h | ⟨n, hn, rfl⟩)
    · exact Or.inl h
    · exact Or.inr ⟨n, hn, rfl⟩

section
variable {fi : FIndex} {P : Nat → List Nat}

theorem Good.refs_nodup (g : Good fi P) {i : Nat} (hi : i < fi.main.length) : (refs (.main i) (P i)).Nodup :=
  refs_nodup_main i (P i) (fun n hn => (g.rng i hi n hn).1) (g.nd i hi)

theorem Good.inRange (g : Good fi P) {i : Nat} (hi : i < fi.main.length) {r : Ref}
    (hr : r ∈ refs (.main i) (P i)) : fi.InRange r := by
  rcases mem_refs_main.1 hr with rfl | ⟨n, hn, rfl⟩
  · exact hi
  · have := g.rng i hi n hn
    show n - 1 < fi.ovf.length
    omega

theorem Good.refs_disjoint (g : Good fi P) {i j : Nat} (hi : i < fi.main.length) (hj : j < fi.main.length)
    (hij : i ≠ j) {r : Ref} (hr : r ∈ refs (.main i) (P i)) : r ∉ refs (.main j) (P j) := by
  intro hr'
  rcases mem_refs_main.1 hr with rfl | ⟨n, hn, rfl⟩
  · rcases mem_refs_main.1 hr' with h | ⟨n, hn, h⟩
    · injection h with h; exact hij h
    · cases h
  · rcases mem_refs_main.1 hr' with h | ⟨n', hn', h⟩
    · cases h
    · injection h with h
      have := g.rng i hi n hn
      have := g.rng j hj n' hn'
      have : n = n' := by omega
      subst this
      exact g.dj i hi j hj hij n hn hn'

/-- `Good` only depends on the array lengths, the free list and the `next`/size view of `read`;
the overflow array may grow and the free list shrink. -/
theorem Good.congr (g : Good fi P) {fi' : FIndex} (hm : fi'.main.length = fi.main.length)
    (ho : fi.ovf.length ≤ fi'.ovf.length) (hf : ∀ x ∈ fi'.free, x ∈ fi.free) (hfnd : fi'.free.Nodup)
    (hn : ∀ r, (fi'.read r).next = (fi.read r).next)
    (hsm : ∀ i, i < fi.main.length → ∀ r ∈ refs (.main i) (P i), (fi'.read r).slots.length ≤ slotsPerBucket) :
    Good fi' P := by
  refine ⟨?_, ?_, ?_, ?_, ?_, hfnd, ?_, ?_, ?_⟩
  · intro i hi; rw [hm] at hi
    exact Linked.congr _ _ (fun r _ => hn r) (g.lk i hi)
  · intro i hi n hn'; rw [hm] at hi; have := g.rng i hi n hn'; omega
  · intro i hi; rw [hm] at hi; exact g.nd i hi
  · intro i hi j hj; rw [hm] at hi hj; exact g.dj i hi j hj
  · intro n hn'; have := g.frng n (hf n hn'); omega
  · intro n hn' i hi; rw [hm] at hi; exact g.fdj n (hf n hn') i hi
  · rw [hm]; exact hsm
  · rw [hm]; exact g.ne

theorem Good.parse (g : Good fi P) :
    fi.parse = ⟨fi.level, fi.split, (List.range fi.main.length).map
      (fun i => (refs (.main i) (P i)).map (fun r => (fi.read r).slots)), fi.numKeys⟩ := by
  simp only [FIndex.parse, Index.mk.injEq, true_and, and_true]
  apply List.map_congr_left
  intro i hi
  rw [g.chainRefs (List.mem_range.1 hi), walk, List.map_map]
  rfl

end

theorem walk_map_fst (fi : FIndex) (r : Ref) (ps : List Nat) : (fi.walk r ps).map (·.1) = refs r ps := by
  simp [walk, List.map_map, Function.comp_def]

theorem walk_mem {fi : FIndex} {r : Ref} {ps : List Nat} {p : Ref × FBucket} (h : p ∈ fi.walk r ps) :
    p.2 = fi.read p.1 := by
  simp only [walk, List.mem_map] at h
  obtain ⟨r', _, rfl⟩ := h
  rfl

theorem map_range_set {α} (f : Nat → α) (n i : Nat) (c : α) :
    ((List.range n).map f).set i c = (List.range n).map (fun j => if j = i then c else f j) := by
  apply List.ext_getElem
  · simp
  · intro k h1 h2
    simp only [List.length_set, List.length_map, List.length_range] at h1
    simp only [List.getElem_set, List.getElem_map, List.getElem_range]
    by_cases h : i = k
    · subst h; simp
    · have : ¬ k = i := fun h' => h h'.symm
      simp [h, this]

/-- The slot lists of a chain after a bucket `r` of it was given new content `b'`. -/
theorem chain_rewrite {fi fi' : FIndex} {r0 : Ref} {ps : List Nat} (hnd : (refs r0 ps).Nodup)
    {pre post : List (Ref × FBucket)} {r : Ref} {b b' : FBucket}
    (hw : fi.walk r0 ps = pre ++ (r, b) :: post)
    (hr : ∀ r', fi'.read r' = if r' = r then b' else fi.read r') :
    (refs r0 ps).map (fun r' => (fi'.read r').slots) =
      pre.map (·.2.slots) ++ b'.slots :: post.map (·.2.slots) := by
  have hfst := walk_map_fst fi r0 ps
  rw [hw] at hfst
  rw [← hfst] at hnd ⊢
  simp only [List.map_append, List.map_cons, List.nodup_append, List.nodup_cons, List.mem_cons,
    List.mem_map] at hnd
  have hmem : ∀ p ∈ pre ++ (r, b) :: post, p.2 = fi.read p.1 := fun p hp => walk_mem (hw ▸ hp)
  simp only [List.map_append, List.map_cons, List.map_map, hr r, if_true]
  congr 1
  · apply List.map_congr_left
    intro p hp
    have hne : p.1 ≠ r := by
      intro he
      exact hnd.2.2 p.1 ⟨p, hp, rfl⟩ r (Or.inl rfl) he
    simp only [Function.comp_apply, hr p.1, hne, if_false]
    rw [hmem p (by simp [hp])]
  · congr 1
    apply List.map_congr_left
    intro p hp
    have hne : p.1 ≠ r := by
      intro he
      exact hnd.2.1.1 ⟨p, hp, he⟩
    simp only [Function.comp_apply, hr p.1, hne, if_false]
    rw [hmem p (by simp [hp])]

end FIndex
end Pogreb
