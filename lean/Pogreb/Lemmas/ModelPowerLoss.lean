/-
  Helper lemmas for M08 (power loss on the executable model): the position of the current segment
  (`CurTop`: it exists, it is the only writable one, it is the newest), the three kinds of steps of
  the interleaved model as seen by the segment files (`SameStep`: no data changes, `WriteStep`: one
  whole record is appended by `writeRecord`, `RemoveStep`: a segment is unlinked) and where
  `writeRecord` puts the record (end of the current segment, or a fresh segment that becomes current).
-/
import Pogreb.Props.M06
import Pogreb.Props.C06
namespace Pogreb
open MState
namespace MState

/-- The current segment exists, every writable segment is the current one, and the current segment
is the newest (last in replay order). -/
structure CurTop (st : MState) : Prop where
  cur_live   : ∀ c, st.cur = some c → ∃ s ∈ st.segs, s.id = c
  open_cur   : ∀ s ∈ st.segs, s.full = false → st.cur = some s.id
  cur_newest : ∀ s ∈ st.segs, st.cur = some s.id → ∀ y ∈ st.segs, y.seq ≤ s.seq

/-- No segment data changes (flags may be set), same current segment. -/
def SameStep (st st' : MState) : Prop :=
  ∃ g : MSeg → MSeg, st'.segs = st.segs.map g ∧ (∀ s, (g s).id = s.id) ∧ (∀ s, (g s).seq = s.seq) ∧
    (∀ s, (g s).data = s.data) ∧ (∀ s, (g s).full = false → s.full = false) ∧ st'.cur = st.cur

/-- One whole record is appended by `writeRecord`. -/
def WriteStep (st st' : MState) : Prop :=
  ∃ r : Rec, r.Fits ∧ st'.segs = (st.writeRecord r.encode).1.segs ∧
    st'.cur = (st.writeRecord r.encode).1.cur

/-- A segment is unlinked. -/
def RemoveStep (st st' : MState) : Prop :=
  ∃ id, st'.segs = (st.removeSeg id).segs ∧ st'.cur = (st.removeSeg id).cur

theorem SameStep.refl (st : MState) : SameStep st st :=
  ⟨id, (List.map_id _).symm, fun _ => rfl, fun _ => rfl, fun _ => rfl, fun _ h => h, rfl⟩

theorem SameStep.of_eq {st st' : MState} (h : st' = st) : SameStep st st' := by
  rw [h]; exact SameStep.refl st

theorem CurTop.same {st st' : MState} (h : st.CurTop) (hs : SameStep st st') : st'.CurTop := by
  obtain ⟨g, hsegs, hid, hseq, _, hfull, hcur⟩ := hs
  refine ⟨?_, ?_, ?_⟩
  · intro c hc
    rw [hcur] at hc
    obtain ⟨s, hs, hsid⟩ := h.cur_live c hc
    exact ⟨g s, by rw [hsegs]; exact List.mem_map_of_mem hs, by rw [hid]; exact hsid⟩
  · intro s' hs' hf
    rw [hsegs] at hs'
    obtain ⟨s, hs, rfl⟩ := List.mem_map.1 hs'
    rw [hcur, hid]
    exact h.open_cur s hs (hfull s hf)
  · intro s' hs' hc y' hy'
    rw [hsegs] at hs' hy'
    obtain ⟨s, hs, rfl⟩ := List.mem_map.1 hs'
    obtain ⟨y, hy, rfl⟩ := List.mem_map.1 hy'
    rw [hcur, hid] at hc
    rw [hseq, hseq]
    exact h.cur_newest s hs hc y hy

theorem CurTop.remove {st st' : MState} (h : st.CurTop) (hs : RemoveStep st st') : st'.CurTop := by
  obtain ⟨id, hsegs, hcur⟩ := hs
  have hsegs' : st'.segs = st.segs.filter (·.id != id) := hsegs
  have hcur' : st'.cur = if st.cur == some id then none else st.cur := hcur
  have hcases : st'.cur = none ∨ (st'.cur = st.cur ∧ st.cur ≠ some id) := by
    rw [hcur']
    by_cases e : st.cur = some id
    · left; simp [e]
    · right; simp [e]
  refine ⟨?_, ?_, ?_⟩
  · intro c hc
    rcases hcases with e | ⟨e, hne⟩
    · rw [e] at hc; cases hc
    · rw [e] at hc
      obtain ⟨s, hs, hsid⟩ := h.cur_live c hc
      refine ⟨s, ?_, hsid⟩
      rw [hsegs']
      refine List.mem_filter.2 ⟨hs, ?_⟩
      have : s.id ≠ id := by
        intro e'; apply hne; rw [hc, ← hsid, e']
      simpa using this
  · intro s hs hf
    rw [hsegs'] at hs
    obtain ⟨hs1, hs2⟩ := List.mem_filter.1 hs
    have hne : s.id ≠ id := by simpa using hs2
    have hc := h.open_cur s hs1 hf
    rw [hcur', hc]
    have : (some s.id == some id) = false := by simpa using hne
    rw [this]; rfl
  · intro s hs hc y hy
    rw [hsegs'] at hs hy
    rcases hcases with e | ⟨e, _⟩
    · rw [e] at hc; cases hc
    · rw [e] at hc
      exact h.cur_newest s (List.mem_filter.1 hs).1 hc y (List.mem_filter.1 hy).1

theorem writeRecord_cur (st : MState) (data : Bytes) :
    (st.writeRecord data).1.cur = some (st.writeRecord data).2.1 := by
  obtain ⟨c, s, hc, hs⟩ := wrPre_live st data
  rw [writeRecord_eq, hc, Option.bind_some, hs]
  show ((st.wrPre data).setSeg _).cur = some s.id
  rw [setSeg_cur, hc, (seg?_some hs).2]

/-- Where `writeRecord` puts a whole record: at the end of the current segment, or in a fresh
segment that becomes the current one. In both cases that segment is the newest. -/
theorem write_target {st : MState} (h2 : st.WF2) (hN : st.CurOrd)
    (ht : st.CurTop) (r : Rec) (hf : r.Fits) :
    slog (st.writeRecord r.encode).1.segs = slog st.segs ++ [r.toEnt] ∧
    ((st.writeRecord r.encode).1.segs.map (·.id)).Nodup ∧
    (st.writeRecord r.encode).1.CurOrd ∧
    ∃ W ∈ (st.writeRecord r.encode).1.segs, (st.writeRecord r.encode).1.cur = some W.id ∧
      (∀ y ∈ (st.writeRecord r.encode).1.segs, y.seq ≤ W.seq) ∧
      ((st.cur = some W.id ∧ ∃ S ∈ st.segs, S.id = W.id ∧ W.data = S.data ++ r.encode) ∨
       (st.cur ≠ some W.id ∧ W.data = r.encode)) := by
  have hids := h2.1.ids
  obtain ⟨hN1, hlog, _⟩ := writeRecord_ord hids hN h2.2.2 r hf
  obtain ⟨_, _, w, hw, hwid, hwmax⟩ := writeRecord_extO hids hN h2.2.2 r hf
  obtain ⟨old, hids1, _, _, _, hnew, hold, _⟩ := writeRecord_spec st r.encode hids
  refine ⟨hlog, hids1, hN1, w, hw, by rw [writeRecord_cur, hwid], hwmax, ?_⟩
  rw [← hwid] at hnew hold
  have hwd : w.data = old ++ r.encode := by
    have := segData_of_mem hids1 hw
    rw [hnew] at this
    exact (Option.some.inj this).symm
  by_cases hcur : st.cur = some w.id
  · left
    refine ⟨hcur, ?_⟩
    obtain ⟨S, hS, hSid⟩ := ht.cur_live _ hcur
    refine ⟨S, hS, hSid, ?_⟩
    have hSd := segData_of_mem hids hS
    rw [hSid] at hSd
    rcases hold with h | ⟨h, _⟩
    · rw [hSd] at h
      rw [hwd, ← Option.some.inj h]
    · rw [hSd] at h; cases h
  · right
    refine ⟨hcur, ?_⟩
    rcases hold with h | ⟨_, h⟩
    · exfalso
      obtain ⟨S0, hS0, hid0, _⟩ := segData_mem h
      cases hfull : S0.full with
      | false => exact hcur (by rw [← hid0]; exact ht.open_cur S0 hS0 hfull)
      | true =>
        have := (writeRecord_sealed hids (seg?_of_mem hids hS0) hfull r.encode).1
        exact this (hwid.symm.trans hid0.symm)
    · rw [hwd, h]; rfl

theorem CurTop.write {st st' : MState} (h2 : st.WF2) (hN : st.CurOrd)
    (ht : st.CurTop) (hs : WriteStep st st') : st'.CurTop := by
  obtain ⟨r, hf, hsegs, hcur⟩ := hs
  obtain ⟨_, hids1, hN1, W, hW, hWc, hmax, _⟩ := write_target h2 hN ht r hf
  refine ⟨?_, ?_, ?_⟩
  · intro c hc
    rw [hcur, hWc] at hc
    exact ⟨W, by rw [hsegs]; exact hW, Option.some.inj hc⟩
  · intro s hs hfl
    rw [hsegs] at hs
    have h1 := hN1.open_newest s hs hfl W hW
    have h2' := hmax s hs
    have : s = W := nodup_map_inj hN1.seqs hs hW (by omega)
    rw [hcur, hWc, this]
  · intro s hs hc y hy
    rw [hsegs] at hs hy
    rw [hcur, hWc] at hc
    have : s = W := eq_of_id hids1 hs hW (Option.some.inj hc).symm
    rw [this]; exact hmax y hy

theorem init_curTop (maxSeg : Nat) (seed : UInt32) : (MState.init maxSeg seed).CurTop := by
  have hsegs : (MState.init maxSeg seed).segs = [⟨0, 1, [], false⟩] := rfl
  have hcur : (MState.init maxSeg seed).cur = some 0 := rfl
  refine ⟨?_, ?_, ?_⟩
  · intro c hc
    rw [hcur] at hc
    exact ⟨_, by rw [hsegs]; exact List.mem_singleton.2 rfl, Option.some.inj hc⟩
  · intro s hs _
    rw [hsegs] at hs
    rw [List.mem_singleton.1 hs, hcur]
  · intro s hs _ y hy
    rw [hsegs] at hs hy
    rw [List.mem_singleton.1 hs, List.mem_singleton.1 hy]
    exact Nat.le_refl _

end MState

/-- Every step of the interleaved model is, on the segment files, one of the three kinds; only `cend`
unlinks. -/
theorem XState.step_kind (x : XState) (h : x.XInv) (op : XOp) (hop : x.OpOK op) :
    SameStep x.st (x.step op).1.st ∨ WriteStep x.st (x.step op).1.st ∨
    (op = .cend ∧ RemoveStep x.st (x.step op).1.st) := by
  have h2 := h.wf2
  cases op with
  | user o =>
    by_cases hu : isUserOp o = true
    · rw [XState.step_user x o hu]
      show SameStep x.st (x.st.stepOp o).1 ∨ WriteStep x.st (x.st.stepOp o).1 ∨ _
      cases o with
      | put k v =>
        show SameStep x.st (x.st.put k v).1 ∨ WriteStep x.st (x.st.put k v).1 ∨ _
        by_cases hb : k.length ≤ maxKeyLength ∧ v.length ≤ maxValueLength
        · right; left
          have hk' : ¬ k.length > maxKeyLength := by omega
          have hv' : ¬ v.length > maxValueLength := by omega
          have hf : (⟨false, k, v⟩ : Rec).Fits := by
            have h1 := hb.1; have h2 := hb.2
            unfold maxKeyLength at h1; unfold maxValueLength at h2
            constructor <;> dsimp only <;> omega
          refine ⟨⟨false, k, v⟩, hf, ?_, ?_⟩
          · unfold MState.put; rw [if_neg hk', if_neg hv']
          · unfold MState.put; rw [if_neg hk', if_neg hv']
        · left
          have hb' : maxKeyLength < k.length ∨ maxValueLength < v.length := by
            by_cases h1 : k.length ≤ maxKeyLength
            · right; have : ¬ v.length ≤ maxValueLength := fun h2 => hb ⟨h1, h2⟩; omega
            · left; omega
          exact SameStep.of_eq (MState.put_rejects x.st k v hb').1
      | del k =>
        show SameStep x.st (x.st.delete k) ∨ WriteStep x.st (x.st.delete k) ∨ _
        rw [MState.delete_eq]
        cases hg : x.st.idx.get (x.st.hashOf k) (x.st.matchKey k) with
        | none => exact Or.inl (SameStep.refl _)
        | some sl =>
          right; left
          have hk : k.length ≤ maxKeyLength := hop
          have hf : (⟨true, k, []⟩ : Rec).Fits := by
            unfold maxKeyLength at hk
            constructor <;> dsimp only [List.length_nil] <;> omega
          exact ⟨⟨true, k, []⟩, hf, rfl, rfl⟩
      | get k => exact Or.inl (SameStep.refl _)
      | has k => exact Or.inl (SameStep.refl _)
      | count => exact Or.inl (SameStep.refl _)
      | reopen => cases hu
      | recover seed => cases hu
      | compact id => cases hu
    · rw [XState.step_user_not x o hu]; exact Or.inl (SameStep.refl _)
  | cbegin id =>
    cases hcomp : x.comp with
    | some c => rw [XState.step_cbegin_busy x id c hcomp]; exact Or.inl (SameStep.refl _)
    | none =>
      cases hseg : x.st.seg? id with
      | none => rw [XState.step_cbegin_absent x id hseg]; exact Or.inl (SameStep.refl _)
      | some s =>
        rw [XState.step_cbegin x id s hcomp hseg]
        left
        refine ⟨fun s => if [id].contains s.id then { s with full := true } else s, rfl, ?_, ?_, ?_, ?_, rfl⟩
        · intro s; dsimp only; split <;> rfl
        · intro s; dsimp only; split <;> rfl
        · intro s; dsimp only; split <;> rfl
        · intro s hf
          dsimp only at hf
          split at hf
          · cases hf
          · exact hf
  | crecord =>
    cases hcomp : x.comp with
    | none => rw [XState.step_none x hcomp _ (Or.inl rfl)]; exact Or.inl (SameStep.refl _)
    | some c =>
      rw [XState.step_crecord x c hcomp]
      show SameStep x.st (x.st.compactRecord c).1 ∨ WriteStep x.st (x.st.compactRecord c).1 ∨ _
      obtain ⟨sid, S, hcur⟩ := h.2 c hcomp
      have hreal := hcur.real h2.1.ids
      have hs := hcur.source
      cases ht : c.todo with
      | nil => exact Or.inl (SameStep.of_eq (compactRecord_nil x.st c sid hs ht))
      | cons p rest =>
        obtain ⟨off, r⟩ := p
        have hrec : ∀ s ∈ x.st.segs, s.id = sid →
            ∃ done rest', recsWithOffsets s.data = done ++ (off, r) :: rest' := by
          intro s hs' hid
          obtain ⟨done, hd⟩ := hreal sid hs s hs' hid
          rw [ht] at hd
          exact ⟨done, rest, hd⟩
        rcases compactRecord_step' x.st c sid off r rest hs ht with
          ⟨_, e⟩ | ⟨_, _, e⟩ | ⟨_, ⟨i0, h0⟩, _, e⟩ | ⟨_, ⟨i0, h0⟩, idx', _, e⟩
        · exact Or.inl (SameStep.of_eq e)
        · exact Or.inl (SameStep.of_eq e)
        · right; left
          exact ⟨r, (live_abs h2 h0 hrec).2.1, by rw [e], by rw [e]⟩
        · right; left
          exact ⟨r, (live_abs h2 h0 hrec).2.1, by rw [e], by rw [e]⟩
  | cend =>
    cases hcomp : x.comp with
    | none => rw [XState.step_none x hcomp _ (Or.inr rfl)]; exact Or.inl (SameStep.refl _)
    | some c =>
      obtain ⟨sid, S, hcur⟩ := h.2 c hcomp
      cases ht : c.todo with
      | cons p rest =>
        rw [XState.step_cend_not x c hcomp (Or.inr (by rw [ht]; exact List.cons_ne_nil _ _))]
        exact Or.inl (SameStep.refl _)
      | nil =>
        rw [XState.step_cend x c hcomp sid hcur.source ht]
        exact Or.inr (Or.inr ⟨rfl, sid, rfl, rfl⟩)

/-- `CurTop` is kept by every step. -/
theorem XState.step_curTop (x : XState) (h : x.XInv) (ht : x.st.CurTop) (op : XOp) (hop : x.OpOK op) :
    (x.step op).1.st.CurTop := by
  rcases x.step_kind h op hop with hs | hs | ⟨_, hs⟩
  · exact ht.same hs
  · exact ht.write h.wf2 h.curOrd hs
  · exact ht.remove hs

end Pogreb
