/-
  Segment-level facts about the executable model used by Props/M01:
  what `writeRecord` does to the segment contents, in terms of `segData`.
-/
import Pogreb.Model
import Pogreb.RecordThms
import Pogreb.Lemmas.Reopen
namespace Pogreb
namespace MState

/-- Content of the segment with a given id. -/
def segData (st : MState) (id : Nat) : Option Bytes := (st.seg? id).map (·.data)

theorem readAt_eq (st : MState) (id off len : Nat) :
    st.readAt id off len = (st.segData id).bind fun d =>
      if off < headerSize then none
      else if off - headerSize + len ≤ d.length then some ((d.drop (off - headerSize)).take len)
      else none := by
  unfold readAt segData
  cases st.seg? id <;> rfl

theorem seg?_some {st : MState} {id : Nat} {s : MSeg} (h : st.seg? id = some s) :
    s ∈ st.segs ∧ s.id = id := by
  refine ⟨List.mem_of_find?_eq_some h, ?_⟩
  simpa using List.find?_some h

theorem find_id_of_mem : ∀ (segs : List MSeg), (segs.map (·.id)).Nodup → ∀ s ∈ segs,
    segs.find? (·.id == s.id) = some s
  | [], _, s, h => by cases h
  | x :: xs, hnd, s, h => by
    rw [List.map_cons, List.nodup_cons] at hnd
    rcases List.mem_cons.1 h with rfl | h'
    · simp
    · have hne : x.id ≠ s.id := by
        intro e
        apply hnd.1
        rw [e]
        exact List.mem_map.2 ⟨s, h', rfl⟩
      have : (x.id == s.id) = false := by simpa using hne
      rw [List.find?_cons, this]
      exact find_id_of_mem xs hnd.2 s h'

theorem seg?_of_mem {st : MState} (hids : (st.segs.map (·.id)).Nodup) {s : MSeg} (hs : s ∈ st.segs) :
    st.seg? s.id = some s := find_id_of_mem _ hids s hs

/-! ### setSeg -/

theorem setSeg_ids (st : MState) (s : MSeg) : (st.setSeg s).segs.map (·.id) = st.segs.map (·.id) := by
  simp only [setSeg, List.map_map]
  apply List.map_congr_left
  intro x _
  simp only [Function.comp]
  by_cases h : (x.id == s.id) = true
  · rw [if_pos h]; exact (by simpa using h : x.id = s.id).symm
  · rw [if_neg h]

theorem find_setSeg (segs : List MSeg) (s : MSeg) (id : Nat) :
    (segs.map (fun x => if x.id == s.id then s else x)).find? (·.id == id) =
      if s.id = id then (segs.find? (·.id == id)).map (fun _ => s) else segs.find? (·.id == id) := by
  induction segs with
  | nil => simp
  | cons x xs ih =>
    rw [List.map_cons, List.find?_cons, List.find?_cons]
    by_cases hx : x.id = s.id
    · have h1 : (x.id == s.id) = true := by simpa using hx
      rw [if_pos h1]
      by_cases hs : s.id = id
      · have h2 : (s.id == id) = true := by simpa using hs
        have h3 : (x.id == id) = true := by simpa using hx.trans hs
        rw [h2, h3, if_pos hs]; rfl
      · have h2 : (s.id == id) = false := by simpa using hs
        have h3 : (x.id == id) = false := by
          have : x.id ≠ id := by rw [hx]; exact hs
          simpa using this
        rw [h2, h3, ih]
    · have h1 : ¬ (x.id == s.id) = true := by simpa using hx
      rw [if_neg h1]
      by_cases hxi : x.id = id
      · have h3 : (x.id == id) = true := by simpa using hxi
        have hs : ¬ s.id = id := by intro e; exact hx (hxi.trans e.symm)
        rw [h3, if_neg hs]
      · have h3 : (x.id == id) = false := by simpa using hxi
        rw [h3, ih]

theorem seg?_setSeg (st : MState) (s : MSeg) (id : Nat) :
    (st.setSeg s).seg? id = if s.id = id then (st.seg? id).map (fun _ => s) else st.seg? id :=
  find_setSeg st.segs s id

theorem segData_setSeg (st : MState) (s : MSeg) (id : Nat) :
    (st.setSeg s).segData id = if s.id = id then (st.segData id).map (fun _ => s.data) else st.segData id := by
  unfold segData
  rw [seg?_setSeg]
  split
  · cases st.seg? id <;> rfl
  · rfl

/-! ### insertSeg / swapSegment -/

theorem insertSeg_perm (segs : List MSeg) (s : MSeg) : (insertSeg segs s).Perm (s :: segs) := by
  induction segs with
  | nil => simp [insertSeg]
  | cons x xs ih =>
    simp only [insertSeg]
    split
    · exact List.Perm.refl _
    · exact (List.Perm.cons x ih).trans (List.Perm.swap s x xs)

theorem find_insertSeg_self (segs : List MSeg) (s : MSeg) (h : ∀ x ∈ segs, x.id ≠ s.id) :
    (insertSeg segs s).find? (·.id == s.id) = some s := by
  induction segs with
  | nil => simp [insertSeg]
  | cons x xs ih =>
    simp only [insertSeg]
    split
    · simp
    · have hne : (x.id == s.id) = false := by simpa using h x (List.mem_cons_self ..)
      rw [List.find?_cons, hne]
      exact ih (fun y hy => h y (List.mem_cons_of_mem _ hy))

theorem find_none_of_fresh (segs : List MSeg) (id : Nat) (h : ∀ x ∈ segs, x.id ≠ id) :
    segs.find? (·.id == id) = none := by
  rw [List.find?_eq_none]
  intro x hx
  simpa using h x hx

theorem swap_ids (st : MState) (h : (st.segs.map (·.id)).Nodup) :
    (st.swapSegment.segs.map (·.id)).Nodup := by
  unfold swapSegment
  split
  · exact h
  · dsimp only
    have hp := (insertSeg_perm st.segs ⟨freeId st.segs (st.segs.length + 1) 0, st.maxSeq + 1, [], false⟩).map (·.id)
    rw [hp.nodup_iff, List.map_cons, List.nodup_cons]
    refine ⟨?_, h⟩
    intro hmem
    obtain ⟨x, hx, hxe⟩ := List.mem_map.1 hmem
    exact freeId_fresh' st.segs x hx hxe

theorem swap_segData (st : MState) (id : Nat) :
    st.swapSegment.segData id = st.segData id ∨
      (st.segData id = none ∧ st.swapSegment.segData id = some []) := by
  unfold swapSegment
  split
  · exact Or.inl rfl
  · by_cases hid : freeId st.segs (st.segs.length + 1) 0 = id
    · right
      have hfresh : ∀ x ∈ st.segs, x.id ≠ id := by
        intro x hx; rw [← hid]; exact freeId_fresh' st.segs x hx
      constructor
      · simp only [segData, seg?]
        rw [find_none_of_fresh _ _ hfresh]; rfl
      · simp only [segData, seg?]
        have := find_insertSeg_self st.segs ⟨freeId st.segs (st.segs.length + 1) 0, st.maxSeq + 1, [], false⟩
          (by intro x hx; exact freeId_fresh' st.segs x hx)
        dsimp only at this
        rw [hid] at this
        rw [hid, this]; rfl
    · left
      simp only [segData, seg?]
      rw [find_insertSeg_ne _ _ _ hid]

/-! ### writeRecord -/

theorem wrPre_spec (st : MState) (data : Bytes) (hids : (st.segs.map (·.id)).Nodup) :
    ((st.wrPre data).segs.map (·.id)).Nodup ∧ (st.wrPre data).idx = st.idx ∧
    (st.wrPre data).seed = st.seed ∧
    ∀ id, (st.wrPre data).segData id = st.segData id ∨
      (st.segData id = none ∧ (st.wrPre data).segData id = some []) := by
  unfold wrPre
  dsimp only
  cases hcur : st.cur.bind st.seg? with
  | none =>
    simp only [if_true]
    exact ⟨swap_ids st hids, swap_idx st, swap_seed st, swap_segData st⟩
  | some s =>
    dsimp only
    by_cases hn : (s.full || decide (s.size + data.length > st.cfg.maxSeg)) = true
    · rw [if_pos hn]
      have hs : st.seg? s.id = some s := by
        cases hc : st.cur with
        | none => simp [hc] at hcur
        | some c =>
          rw [hc] at hcur
          have hcs : st.seg? c = some s := hcur
          rw [(seg?_some hcs).2]; exact hcs
      have hd : ∀ id, (st.setSeg { s with full := true }).segData id = st.segData id := by
        intro id
        rw [segData_setSeg]
        split
        · rename_i he
          have he' : s.id = id := he
          rw [← he']
          simp [segData, hs]
        · rfl
      refine ⟨swap_ids _ (by rw [setSeg_ids]; exact hids), by rw [swap_idx]; rfl, by rw [swap_seed]; rfl, ?_⟩
      intro id
      have := swap_segData (st.setSeg { s with full := true }) id
      rw [hd id] at this
      exact this
    · rw [if_neg hn]
      exact ⟨hids, rfl, rfl, fun _ => Or.inl rfl⟩

/-- What `writeRecord` does: the record lands at the end of one segment (an old one, or a new
empty one); every other segment keeps its content. -/
theorem writeRecord_spec (st : MState) (data : Bytes) (hids : (st.segs.map (·.id)).Nodup) :
    ∃ old : Bytes,
      ((st.writeRecord data).1.segs.map (·.id)).Nodup ∧
      (st.writeRecord data).1.idx = st.idx ∧ (st.writeRecord data).1.seed = st.seed ∧
      (st.writeRecord data).2.2 = headerSize + old.length ∧
      (st.writeRecord data).1.segData (st.writeRecord data).2.1 = some (old ++ data) ∧
      (st.segData (st.writeRecord data).2.1 = some old ∨
        (st.segData (st.writeRecord data).2.1 = none ∧ old = [])) ∧
      ∀ id, id ≠ (st.writeRecord data).2.1 →
        ((st.writeRecord data).1.segData id = st.segData id ∨
          (st.segData id = none ∧ (st.writeRecord data).1.segData id = some [])) := by
  obtain ⟨hids', hidx, hseed, hdata⟩ := wrPre_spec st data hids
  obtain ⟨c, s, hc, hs⟩ := wrPre_live st data
  have hsid : s.id = c := (seg?_some hs).2
  rw [writeRecord_eq, hc, Option.bind_some, hs]
  dsimp only
  refine ⟨s.data, ?_, hidx, hseed, rfl, ?_, ?_, ?_⟩
  · rw [setSeg_ids]; exact hids'
  · rw [segData_setSeg]
    dsimp only
    rw [if_pos rfl]
    have : (st.wrPre data).segData s.id = some s.data := by
      rw [hsid]; simp [segData, hs]
    rw [this]; rfl
  · have h1 : (st.wrPre data).segData s.id = some s.data := by
      rw [hsid]; simp [segData, hs]
    rcases hdata s.id with h | ⟨h, h'⟩
    · left; rw [← h, h1]
    · right; refine ⟨h, ?_⟩
      rw [h1] at h'
      exact Option.some.inj h'
  · intro id hne
    rw [segData_setSeg]
    dsimp only
    rw [if_neg (fun e => hne e.symm)]
    exact hdata id

/-! ### reading inside the old extent / reading the appended bytes -/

theorem take_drop_append_left {α} (a b : List α) (n len : Nat) (h : n + len ≤ a.length) :
    ((a ++ b).drop n).take len = (a.drop n).take len := by
  rw [List.drop_append_of_le_length (by omega), List.take_append_of_le_length (by simp; omega)]

end MState
end Pogreb
