/-
  Helper lemmas on logs for compaction (used by Props/C05).
-/
import Pogreb.Log
namespace Pogreb

variable {K V : Type} [DecidableEq K]

theorem lastRec_key {log : List (Ent K V)} {k : K} {e : Ent K V} (h : lastRec log k = some e) :
    e ∈ log ∧ e.key = k := by
  obtain ⟨hm, hk⟩ := lastOf_some_mem h
  exact ⟨hm, by simpa using hk⟩

theorem lastRec_eq_none {log : List (Ent K V)} {k : K} :
    lastRec log k = none ↔ ∀ e ∈ log, e.key ≠ k := by
  unfold lastRec
  rw [lastOf_eq_none]
  simp

theorem lastRec_append_singleton (d : List (Ent K V)) (e : Ent K V) (k : K) :
    lastRec (d ++ [e]) k = if e.key = k then some e else lastRec d k := by
  unfold lastRec
  rw [lastOf_append]
  by_cases h : e.key = k <;> simp [lastOf, h]

/-- Sharper variant of `contents_remove`: only the LAST record of each key in the removed block
`S` has to be shadowed by `post` (or be a delete record with nothing older of that key). -/
theorem contents_remove_last (pre S post : List (Ent K V))
    (h : ∀ k e, lastRec S k = some e →
      (∃ e' ∈ post, e'.key = k) ∨ (e.val = none ∧ ∀ e' ∈ pre, e'.key ≠ k)) :
    contents (pre ++ post) = contents (pre ++ S ++ post) := by
  funext k
  rw [contents_append, contents_append (pre ++ S) post]
  cases hp : lastRec post k with
  | some e => rfl
  | none =>
    simp only
    rw [contents_append]
    cases hs : lastRec S k with
    | none => rfl
    | some e =>
      simp only
      rcases h k e hs with ⟨e', he', hkk⟩ | ⟨hv, hpre⟩
      · exact absurd hkk (lastRec_eq_none.mp hp e' he')
      · rw [hv]
        have : lastRec pre k = none := lastRec_eq_none.mpr hpre
        simp [contents, this]

/-- The value of a key whose last record is `e`, followed only by records of other keys. -/
theorem contents_at_last (a : List (Ent K V)) (e : Ent K V) (rest : List (Ent K V))
    (h : ∀ e' ∈ rest, e'.key ≠ e.key) :
    contents (a ++ e :: rest) e.key = e.val := by
  have : a ++ e :: rest = (a ++ [e]) ++ rest := by simp
  rw [this, contents_append_of_absent _ _ _ h, contents_append]
  simp [lastRec, lastOf]

end Pogreb
