/-
  Helper lemmas for M09 (sessions): the in-flight append `writePartial` (a `writeRecord` that dies after
  `n` bytes), recovery from ANY segment table with distinct ids and distinct sequence ids (the state in
  the middle of an append is not `WF2`: its last segment is not clean), and the replay log of the state
  with the partial tail.
-/
import Pogreb.Props.M06
namespace Pogreb
open MState
namespace MState

/-! ### the in-flight append -/

/-- `writeRecord` that dies inside the append: the rollover (seal + `swapSegment`) is performed exactly
as `writeRecord` does, then only the first `n` bytes of `data` reach the file. No index update, no
acknowledgement. (A copy of `writeRecord` with `s.data ++ data` replaced by `s.data ++ data.take n`.) -/
def writePartial (st : MState) (data : Bytes) (n : Nat) : MState :=
  let curSeg := st.cur.bind st.seg?
  let need := match curSeg with
    | none => true
    | some s => s.full || s.size + data.length > st.cfg.maxSeg
  let st := if need then
      let st := match curSeg with
        | some s => st.setSeg { s with full := true }
        | none => st
      st.swapSegment
    else st
  match st.cur.bind st.seg? with
  | none => st   -- unreachable: swapSegment always sets a live current segment
  | some s => st.setSeg { s with data := s.data ++ data.take n }

theorem writePartial_eq (st : MState) (data : Bytes) (n : Nat) :
    st.writePartial data n =
      match (st.wrPre data).cur.bind (st.wrPre data).seg? with
      | none => st.wrPre data
      | some s => (st.wrPre data).setSeg { s with data := s.data ++ data.take n } := rfl

/-- All bytes written: the state of `writeRecord` (the caller has not yet updated the index). -/
theorem writePartial_full (st : MState) (data : Bytes) :
    st.writePartial data data.length = (st.writeRecord data).1 := by
  rw [writePartial_eq, writeRecord_eq, List.take_length]
  cases (st.wrPre data).cur.bind (st.wrPre data).seg? <;> rfl

/-- No byte written: only the rollover happened. -/
theorem writePartial_zero (st : MState) (data : Bytes) (hids : (st.segs.map (·.id)).Nodup) :
    (st.writePartial data 0).segs = (st.wrPre data).segs := by
  obtain ⟨c, s, hc, hs⟩ := wrPre_live st data
  have hids' := (wrPre_spec st data hids).1
  rw [writePartial_eq, hc, Option.bind_some, hs]
  show List.map _ _ = _
  rw [List.take_zero, List.append_nil]
  conv => rhs; rw [← List.map_id (st.wrPre data).segs]
  apply List.map_congr_left
  intro x hx
  by_cases he : x.id = s.id
  · have := eq_of_id hids' hx (seg?_some hs).1 he
    subst this
    simp
  · simp [he]

/-! ### the log under an edit that keeps sequence ids and valid records -/

theorem slog_map_mem (f : MSeg → MSeg) (segs : List MSeg) (hseq : ∀ x ∈ segs, (f x).seq = x.seq)
    (hents : ∀ x ∈ segs, segEnts (f x) = segEnts x) : slog (segs.map f) = slog segs := by
  classical
  have hg : segs.map f = segs.map (fun x => if x ∈ segs then f x else x) :=
    List.map_congr_left (fun x hx => by rw [if_pos hx])
  rw [hg]
  apply slog_map
  · intro x
    by_cases h : x ∈ segs
    · rw [if_pos h]; exact hseq x h
    · rw [if_neg h]
  · intro x
    by_cases h : x ∈ segs
    · rw [if_pos h]; exact hents x h
    · rw [if_neg h]

/-- A proper prefix of an encoding after whole records is ignored by the reader. -/
theorem segEnts_torn {s : MSeg} (hc : CleanD s.data) (r : Rec) (hf : r.Fits) (n : Nat)
    (hn : n < r.encode.length) :
    segEnts ({ s with data := s.data ++ r.encode.take n } : MSeg) = segEnts s := by
  unfold segEnts
  dsimp only
  have hd := cleanD_eq hc
  have h := scan_torn (scan s.data).1 r n (scan_fits s.data) hf hn
  rw [hd] at h
  rw [h]

/-! ### the state with the partial tail -/

/-- What `writePartial` leaves on disk: segment ids and sequence ids stay distinct (so recovery
works), and the replay log is the old one (a proper prefix of the record is not replayed) or the old
one plus the whole record. -/
theorem writePartial_log {st : MState} (hids : (st.segs.map (·.id)).Nodup) (hN : st.CurOrd)
    (hc : st.SegsClean) (r : Rec) (hf : r.Fits) (n : Nat) (hn : n ≤ r.encode.length) :
    ((st.writePartial r.encode n).segs.map (·.id)).Nodup ∧
    ((st.writePartial r.encode n).segs.map (·.seq)).Nodup ∧
    (st.writePartial r.encode n).cfg = st.cfg ∧
    slog (st.writePartial r.encode n).segs =
      if n = r.encode.length then slog st.segs ++ [r.toEnt] else slog st.segs := by
  obtain ⟨hN0, hlog0, hc0, hcfg0, s, htgt, hsm, _⟩ := wrPre_ord hids hN hc r.encode
  have hids0 := (wrPre_spec st r.encode hids).1
  have hsegs : (st.writePartial r.encode n).segs =
      (st.wrPre r.encode).segs.map
        (fun x => if x.id == s.id then { s with data := s.data ++ r.encode.take n } else x) := by
    rw [writePartial_eq, htgt]; rfl
  have hcfg : (st.writePartial r.encode n).cfg = (st.wrPre r.encode).cfg := by
    rw [writePartial_eq, htgt]; rfl
  have hfx : ∀ x ∈ (st.wrPre r.encode).segs,
      (if x.id == s.id then ({ s with data := s.data ++ r.encode.take n } : MSeg) else x) =
        if x.id == s.id then ({ x with data := x.data ++ r.encode.take n } : MSeg) else x := by
    intro x hx
    by_cases he : x.id = s.id
    · have := eq_of_id hids0 hx hsm he
      subst this; rfl
    · simp [he]
  refine ⟨?_, ?_, hcfg.trans hcfg0, ?_⟩
  · rw [hsegs, List.map_map]
    have : (st.wrPre r.encode).segs.map ((fun x : MSeg => x.id) ∘
        fun x => if x.id == s.id then { s with data := s.data ++ r.encode.take n } else x) =
        (st.wrPre r.encode).segs.map (·.id) := by
      apply List.map_congr_left
      intro x hx
      show (if x.id == s.id then ({ s with data := s.data ++ r.encode.take n } : MSeg) else x).id = x.id
      rw [hfx x hx]; split <;> rfl
    rw [this]; exact hids0
  · rw [hsegs, List.map_map]
    have : (st.wrPre r.encode).segs.map ((fun x : MSeg => x.seq) ∘
        fun x => if x.id == s.id then { s with data := s.data ++ r.encode.take n } else x) =
        (st.wrPre r.encode).segs.map (·.seq) := by
      apply List.map_congr_left
      intro x hx
      show (if x.id == s.id then ({ s with data := s.data ++ r.encode.take n } : MSeg) else x).seq = x.seq
      rw [hfx x hx]; split <;> rfl
    rw [this]; exact hN0.seqs
  · by_cases hfull : n = r.encode.length
    · rw [if_pos hfull, hfull, writePartial_full]
      exact (writeRecord_ord hids hN hc r hf).2.1
    · rw [if_neg hfull, hsegs, ← hlog0]
      apply slog_map_mem
      · intro x hx
        rw [hfx x hx]; split <;> rfl
      · intro x hx
        rw [hfx x hx]
        split
        · exact segEnts_torn (hc0 x hx) r hf n (by omega)
        · rfl

/-! ### recovery from any segment table with distinct ids and distinct sequence ids

`recover_wf3c` and `recover_segLast` (M05) are stated for a `WF3` state; their proofs only use that
segment ids and sequence ids are distinct (recovery discards the index, the flags and the metadata,
and truncates every file to its valid prefix). The state in the middle of an append is not `WF2`
(its last segment is not clean), so the general form is needed here. -/

theorem recover0_seqs {st : MState} (hseqs : (st.segs.map (·.seq)).Nodup) (seed : UInt32) :
    ((recover0 st seed).segs.map (·.seq)).Nodup ∧
    (∀ s ∈ (recover0 st seed).segs, s.seq ≤ (recover0 st seed).maxSeq) := by
  cases h : st.segs with
  | nil =>
    have hs : (recover0 st seed).segs = [⟨freeId [] 1 0, 0 + 1, [], false⟩] ∧
        (recover0 st seed).maxSeq = 0 + 1 := by
      unfold recover0 swapSegment recoverPre
      simp [h, insertSeg]
    rw [hs.1, hs.2]
    exact ⟨by simp, by simp⟩
  | cons x xs =>
    have hx : clearSeg x ∈ (recoverPre st seed).segs := by
      show clearSeg x ∈ st.segs.map _
      rw [h]; exact List.mem_map.2 ⟨x, List.mem_cons_self, rfl⟩
    have hsegs : (recover0 st seed).segs = st.segs.map clearSeg :=
      swap_of_nonfull (recoverPre st seed) (clearSeg x) hx rfl
    have hmax : (recover0 st seed).maxSeq = (st.segs.map clearSeg).foldl (fun m s => max m s.seq) 0 :=
      swap_maxSeq_of_nonfull (recoverPre st seed) (clearSeg x) hx rfl
    rw [hsegs, hmax]
    refine ⟨?_, (foldl_max_ge _ 0).2⟩
    rw [List.map_map]; exact hseqs

/-- **Recovery from any files**: distinct segment ids and sequence ids suffice for the recovered state
to satisfy the full run invariant `WF3`; its contents are the replay of the files. -/
theorem recover_any (st : MState) (hids : (st.segs.map (·.id)).Nodup)
    (hseqs : (st.segs.map (·.seq)).Nodup) (seed : UInt32) :
    (st.reopenRecover seed).WF3 ∧ (st.reopenRecover seed).abs = contents (slog st.segs) := by
  obtain ⟨_, habs⟩ := M02_recover_refines st hids seed
  have hfiles : recovered (st.reopenRecover seed).files = recovered st.files := by
    obtain ⟨newest, hsegs⟩ := MState.recover_segs st hids seed
    unfold recovered
    rw [files_eq, files_eq, hsegs, MState.recoverLog_filesOf_map _ (fun _ => by simp)
      (fun x => by
        rw [← MState.segEnts_trunc x]
        unfold MState.segEnts
        simp),
      MState.recoverLog_recover0]
  obtain ⟨l, hl, hlmax, hsegs, hmaxs, _⟩ := recover_segs' st hids seed
  obtain ⟨r1, r2⟩ := recover0_seqs hseqs seed
  obtain ⟨hwf0, habs0, hsl0⟩ := recover0_wf st hids seed
  have hidsR : ((recover0 st seed).segs.map (·.id)).Nodup := hwf0.ids
  refine ⟨⟨M04_recover st hids seed, ?_, ?_, ?_⟩, by rw [habs, recovered_files]⟩
  · unfold LogCoupled; rw [hfiles, habs]
  · show SegsNewest _ _
    rw [hsegs, hmaxs]
    refine ⟨?_, ?_, ?_⟩
    · rw [List.map_map]
      have : ((fun x : MSeg => x.seq) ∘ fun s => sealSeg (some l.id) (truncSeg s)) = fun x => x.seq := by
        funext x; simp
      rw [this]; exact r1
    · intro s hs
      obtain ⟨a, ha, rfl⟩ := List.mem_map.1 hs
      simp only [sealSeg_seq, truncSeg_seq]; exact r2 a ha
    · intro s hs hf y hy
      obtain ⟨a, ha, rfl⟩ := List.mem_map.1 hs
      obtain ⟨b, hb, rfl⟩ := List.mem_map.1 hy
      simp only [sealSeg_seq, truncSeg_seq]
      have hal : a.id = l.id := by
        unfold sealSeg at hf
        split at hf
        · rename_i he; simpa using he
        · cases hf
      rw [eq_of_id hidsR ha hl hal]; exact hlmax b hb
  · -- `SegLast`: the replay fold (proof of `recover_segLast`)
    have hperm := sortBySeq_perm (recover0 st seed).segs
    have hJ := recover_fold_keys (sortBySeq (recover0 st seed).segs) (recover0 st seed) [] []
      hwf0 (fun s hs => hperm.mem_iff.1 hs)
      ((hperm.map (·.id)).nodup_iff.2 hwf0.ids)
      (fun _ _ _ h => by cases h) (sorted_strict r1) (fun _ h => by cases h) habs0
      (by intro a ha; rw [hsl0] at ha; cases ha)
    rw [List.nil_append] at hJ
    obtain ⟨hwfG, _, _⟩ := recover_main st hids seed
    intro a ha
    have haG : a ∈ ((sortBySeq (recover0 st seed).segs).foldl recoverStep (recover0 st seed)).idx.slots := by
      rw [reopenRecover_eq, swap_idx] at ha; exact ha
    have hkof : (st.reopenRecover seed).kof a =
        ((sortBySeq (recover0 st seed).segs).foldl recoverStep (recover0 st seed)).kof a := by
      apply kof_congr
      obtain ⟨d, hd, _⟩ := hwfG.pts haG
      rw [reopenRecover_eq]
      rcases swap_segData (sealAll ((sortBySeq (recover0 st seed).segs).foldl recoverStep (recover0 st seed))
        ((sortBySeq (recover0 st seed).segs).getLast?.map (·.id))) a.seg with h | ⟨h, _⟩
      · rw [h, sealAll_segData]
      · rw [sealAll_segData, hd] at h; cases h
    rw [hkof]
    obtain ⟨d, hd, hdid, hD⟩ := hJ a haG
    have hdR : d ∈ (recover0 st seed).segs := hperm.mem_iff.1 hd
    intro s' hs' hid y' hy' hlt e he
    rw [hsegs] at hs' hy'
    obtain ⟨x, hx, rfl⟩ := List.mem_map.1 hs'
    obtain ⟨y, hy, rfl⟩ := List.mem_map.1 hy'
    simp only [sealSeg_id, truncSeg_id, sealSeg_seq, truncSeg_seq] at hid hlt
    have hxd : x = d := eq_of_id hwf0.ids hx hdR (hid.trans hdid.symm)
    rw [hxd] at hlt
    have hents : segEnts (sealSeg (some l.id) (truncSeg y)) = segEnts y := by
      rw [← segEnts_trunc y]
      unfold segEnts
      rw [sealSeg_data]
    rw [hents] at he
    exact hD y (hperm.mem_iff.2 hy) hlt e he

/-- The entry of a record, applied to the contents. -/
theorem contents_toEnt (log : List E) (r : Rec) :
    contents (log ++ [r.toEnt]) =
      if r.del then (contents log).del r.key else (contents log).put r.key r.val := by
  unfold Rec.toEnt
  cases r.del with
  | true => exact contents_del log r.key
  | false => exact contents_put log r.key r.val

/-- **A crash inside an append, then recovery**: the recovered state satisfies `WF3`, and the in-flight
record is applied completely (all its bytes reached the file) or not at all. -/
theorem crashTorn_wf3 {st : MState} (h : st.WF3) (seed : UInt32) (r : Rec) (hf : r.Fits) (n : Nat)
    (hn : n ≤ r.encode.length) :
    ((st.writePartial r.encode n).reopenRecover seed).WF3 ∧
    ((st.writePartial r.encode n).reopenRecover seed).abs =
      if n = r.encode.length then (if r.del then st.abs.del r.key else st.abs.put r.key r.val)
      else st.abs := by
  obtain ⟨h2, hlc, hN, _⟩ := h
  obtain ⟨hids, hseqs, _, hlog⟩ := writePartial_log h2.1.ids hN.ord h2.2.2 r hf n hn
  obtain ⟨hw, habs⟩ := recover_any (st.writePartial r.encode n) hids hseqs seed
  refine ⟨hw, ?_⟩
  rw [habs, hlog, ← (logCoupled_iff st).1 hlc]
  by_cases hfull : n = r.encode.length
  · rw [if_pos hfull, if_pos hfull]; exact contents_toEnt _ r
  · rw [if_neg hfull, if_neg hfull]

/-- The rollover alone (no byte of the record written) is invisible to recovery. -/
theorem crashTorn_zero {st : MState} (h : st.WF3) (seed : UInt32) (r : Rec) (hf : r.Fits) :
    ((st.writePartial r.encode 0).reopenRecover seed).abs = st.abs := by
  have := (crashTorn_wf3 h seed r hf 0 (Nat.zero_le _)).2
  rw [if_neg (by rw [Rec.encode_length]; omega)] at this
  exact this

end MState
end Pogreb
