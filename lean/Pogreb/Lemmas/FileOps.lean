/-
  Helper lemmas for Props/F01: the single-bucket rewrites (replace / delete / insert into a
  bucket with room) and the append of a fresh overflow bucket.
-/
import Pogreb.Lemmas.FileSearch
namespace Pogreb
namespace FIndex

/-! ### fields that do not matter -/

theorem chainFrom_congr {fi fi' : FIndex} (hm : fi'.main = fi.main) (ho : fi'.ovf = fi.ovf) :
    ∀ (fuel : Nat) (r : Ref), fi'.chainFrom fuel r = fi.chainFrom fuel r
  | 0, _ => rfl
  | fuel + 1, r => by
    have hr : ∀ r, fi'.read r = fi.read r := by
      intro r; cases r <;> simp [read, hm, ho]
    simp only [chainFrom, hr, chainFrom_congr hm ho fuel]

theorem chainRefs_congr {fi fi' : FIndex} (hm : fi'.main = fi.main) (ho : fi'.ovf = fi.ovf) (i : Nat) :
    fi'.chainRefs i = fi.chainRefs i := by
  simp only [chainRefs, ho, chainFrom_congr hm ho]

theorem linked_congr {fi fi' : FIndex} (hm : fi'.main = fi.main) (ho : fi'.ovf = fi.ovf) :
    fi'.linked = fi.linked := by
  simp only [linked, hm, chainRefs_congr hm ho]

theorem AllocInv.congr {fi fi' : FIndex} (h : fi.AllocInv) (hm : fi'.main = fi.main) (ho : fi'.ovf = fi.ovf)
    (hf : fi'.free = fi.free) : fi'.AllocInv := by
  simpa only [AllocInv, linked_congr hm ho, hm, ho, hf] using h

theorem parse_congr {fi fi' : FIndex} (hm : fi'.main = fi.main) (ho : fi'.ovf = fi.ovf) :
    fi'.parse = ⟨fi'.level, fi'.split, fi.parse.chains, fi'.numKeys⟩ := by
  simp only [parse, hm, chainRefs_congr hm ho]

theorem parse_chain (fi : FIndex) {i : Nat} (hi : i < fi.main.length) :
    fi.parse.chain i = (fi.chainRefs i).map (·.2.slots) := by
  simp [Index.chain, parse, List.getD_eq_getElem?_getD, hi]

theorem parse_chains_length (fi : FIndex) : fi.parse.chains.length = fi.main.length := by
  simp [parse]

/-! ### rewriting the slots of one bucket -/

section
variable {fi : FIndex} {P : Nat → List Nat}

theorem Good.rewrite (g : Good fi P) {i : Nat} (hi : i < fi.main.length)
    {pre post : List (Ref × FBucket)} {r : Ref} {b : FBucket}
    (hw : fi.chainRefs i = pre ++ (r, b) :: post) (s' : List Slot) (hs' : s'.length ≤ slotsPerBucket) :
    Good (fi.write r { b with slots := s' }) P ∧
    (fi.write r { b with slots := s' }).parse =
      ⟨fi.level, fi.split, fi.parse.chains.set i (pre.map (·.2.slots) ++ s' :: post.map (·.2.slots)), fi.numKeys⟩ := by
  rw [g.chainRefs hi] at hw
  have hmemw : (r, b) ∈ fi.walk (.main i) (P i) := by rw [hw]; simp
  have hb : b = fi.read r := walk_mem hmemw
  have hr : r ∈ refs (.main i) (P i) := by
    rw [← walk_map_fst fi]; exact List.mem_map.2 ⟨(r, b), hmemw, rfl⟩
  have hin := g.inRange hi hr
  have hrd : ∀ r', (fi.write r { b with slots := s' }).read r' =
      if r' = r then { b with slots := s' } else fi.read r' := by
    intro r'
    by_cases he : r' = r
    · subst he; simp [read_write_same _ _ _ hin]
    · simp [he, read_write_ne _ _ _ _ he]
  have g' : Good (fi.write r { b with slots := s' }) P := by
    apply g.congr (by simp) (by simp) (by simp) (by simpa using g.fnd)
    · intro r'
      rw [hrd]; split
      · next he => subst he; rw [hb]
      · rfl
    · intro j hj r' hr'
      rw [hrd]; split
      · exact hs'
      · exact g.sm j hj r' hr'
  refine ⟨g', ?_⟩
  rw [g'.parse, g.parse]
  simp only [write_level, write_split, write_numKeys, write_main_length, Index.mk.injEq, true_and, and_true]
  rw [map_range_set]
  apply List.map_congr_left
  intro j hj
  have hj := List.mem_range.1 hj
  split
  · next he =>
    subst he
    exact chain_rewrite (g.refs_nodup hi) hw hrd
  · next hne =>
    apply List.map_congr_left
    intro r' hr'
    have : r' ≠ r := by
      rintro rfl
      exact g.refs_disjoint hj hi hne hr' hr
    rw [hrd, if_neg this]

end

/-! ### installing a whole chain -/

theorem linked_of_list (fi : FIndex) : ∀ (U : List Nat) (r0 : Ref) (l : List (Ref × FBucket)),
    l.map (·.1) = refs r0 U → l.map (·.2.next) = U ++ [0] → (∀ n ∈ U, n ≠ 0) →
    (∀ p ∈ l, fi.read p.1 = p.2) → Linked fi r0 U
  | [], r0, l, h1, h2, _, h4 => by
    match l, h1, h2, h4 with
    | [p], h1, h2, h4 =>
      simp only [refs, List.map_cons, List.map_nil, List.cons.injEq, and_true, List.nil_append] at h1 h2
      simp only [Linked]
      rw [← h1, h4 p (by simp), h2]
  | n :: U, r0, l, h1, h2, h3, h4 => by
    match l, h1, h2, h4 with
    | p :: l', h1, h2, h4 =>
      simp only [refs_cons, List.map_cons, List.cons.injEq, List.cons_append] at h1 h2
      simp only [Linked]
      refine ⟨by rw [← h1.1, h4 p (by simp), h2.1], h3 n (by simp), ?_⟩
      exact linked_of_list fi U _ l' h1.2 h2.2 (fun k hk => h3 k (List.mem_cons_of_mem _ hk))
        (fun q hq => h4 q (List.mem_cons_of_mem _ hq))

theorem ovf_pred_inj {a b : Nat} (ha : 1 ≤ a) (hb : 1 ≤ b) (h : Ref.ovf (a - 1) = Ref.ovf (b - 1)) : a = b := by
  injection h with h; omega

section
variable {fi : FIndex} {P : Nat → List Nat}

/-- Replace chain `i` by the bucket list `l` (pointers `U`); only the free-list-independent part of
`Good fi P` is used, the new free list is described separately. -/
theorem Good.install (g : Good fi P) {i : Nat} (hi : i < fi.main.length) (l : List (Ref × FBucket)) (U : List Nat)
    (hl1 : l.map (·.1) = refs (.main i) U) (hl2 : l.map (·.2.next) = U ++ [0])
    (hl3 : ∀ p ∈ l, p.2.slots.length ≤ slotsPerBucket)
    (hU1 : U.Nodup) (hU2 : ∀ n ∈ U, 1 ≤ n ∧ n ≤ fi.ovf.length)
    (hU4 : ∀ n ∈ U, ∀ j, j < fi.main.length → j ≠ i → n ∉ P j)
    {fi' : FIndex} (hm : fi'.main.length = fi.main.length) (ho : fi'.ovf.length = fi.ovf.length)
    (hr1 : ∀ p ∈ l, fi'.read p.1 = p.2) (hr2 : ∀ r', r' ∉ refs (.main i) U → fi'.read r' = fi.read r')
    (hf1 : fi'.free.Nodup) (hf2 : ∀ n ∈ fi'.free, 1 ≤ n ∧ n ≤ fi.ovf.length)
    (hf3 : ∀ n ∈ fi'.free, n ∉ U ∧ ∀ j, j < fi.main.length → j ≠ i → n ∉ P j) :
    Good fi' (fun j => if j = i then U else P j) ∧
    fi'.parse = ⟨fi'.level, fi'.split, fi.parse.chains.set i (l.map (·.2.slots)), fi'.numKeys⟩ := by
  have hother : ∀ j, j < fi.main.length → j ≠ i → ∀ r' ∈ refs (.main j) (P j), r' ∉ refs (.main i) U := by
    intro j hj hji r' hr' hr''
    rcases mem_refs_main.1 hr' with rfl | ⟨n, hn, rfl⟩
    · rcases mem_refs_main.1 hr'' with h | ⟨n, hn, h⟩
      · injection h with h; exact hji h
      · cases h
    · rcases mem_refs_main.1 hr'' with h | ⟨n', hn', h⟩
      · cases h
      · have := ovf_pred_inj (g.rng j hj n hn).1 (hU2 n' hn').1 h
        subst this
        exact hU4 n hn' j hj hji hn
  have g' : Good fi' (fun j => if j = i then U else P j) := by
    refine ⟨?_, ?_, ?_, ?_, ?_, hf1, ?_, ?_, ?_⟩
    · intro j hj; rw [hm] at hj
      by_cases hji : j = i
      · subst hji
        simp only [if_true]
        exact linked_of_list fi' U _ l hl1 hl2 (fun n hn => by have := (hU2 n hn).1; omega) hr1
      · simp only [hji, if_false]
        exact Linked.congr _ _ (fun r' hr' => by rw [hr2 r' (hother j hj hji r' hr')]) (g.lk j hj)
    · intro j hj; rw [hm] at hj; rw [ho]
      by_cases hji : j = i
      · subst hji; simpa using hU2
      · simpa [hji] using g.rng j hj
    · intro j hj; rw [hm] at hj
      by_cases hji : j = i
      · subst hji; simpa using hU1
      · simpa [hji] using g.nd j hj
    · intro j1 hj1 j2 hj2 hne n hn; rw [hm] at hj1 hj2
      by_cases h1 : j1 = i
      · subst h1
        have h2 : ¬ j2 = j1 := fun h => hne h.symm
        simp only [if_true] at hn
        simp only [h2, if_false]
        exact hU4 n hn j2 hj2 h2
      · simp only [h1, if_false] at hn
        by_cases h2 : j2 = i
        · subst h2
          simp only [if_true]
          intro hn'
          exact hU4 n hn' j1 hj1 h1 hn
        · simp only [h2, if_false]
          exact g.dj j1 hj1 j2 hj2 hne n hn
    · rw [ho]; exact hf2
    · intro n hn j hj; rw [hm] at hj
      by_cases hji : j = i
      · subst hji; simpa using (hf3 n hn).1
      · simpa [hji] using (hf3 n hn).2 j hj hji
    · intro j hj r hr; rw [hm] at hj
      by_cases hji : j = i
      · subst hji
        simp only [if_true] at hr
        rw [← hl1] at hr
        obtain ⟨p, hp, rfl⟩ := List.mem_map.1 hr
        rw [hr1 p hp]; exact hl3 p hp
      · simp only [hji, if_false] at hr
        rw [hr2 r (hother j hj hji r hr)]
        exact g.sm j hj r hr
    · rw [hm]; exact g.ne
  refine ⟨g', ?_⟩
  rw [g'.parse, g.parse]
  simp only [Index.mk.injEq, true_and, and_true]
  rw [map_range_set, hm]
  apply List.map_congr_left
  intro j hj
  have hj := List.mem_range.1 hj
  by_cases hji : j = i
  · subst hji
    simp only [if_true]
    rw [← hl1, List.map_map]
    apply List.map_congr_left
    intro p hp
    simp only [Function.comp_apply, hr1 p hp]
  · simp only [hji, if_false]
    apply List.map_congr_left
    intro r' hr'
    rw [hr2 r' (hother j hj hji r' hr')]

end

end FIndex
end Pogreb
