/-
  Helper lemmas for Props/F01: `createOverflow` and the insertion of a new slot (without split).
-/
import Pogreb.Lemmas.FileOps
namespace Pogreb
namespace FIndex

theorem walk_next (fi : FIndex) : ∀ (ps : List Nat) (r : Ref), Linked fi r ps →
    (fi.walk r ps).map (·.2.next) = ps ++ [0]
  | [], r, h => by
    simp only [Linked] at h
    simp [walk, refs, h]
  | p :: ps, r, h => by
    simp only [Linked] at h
    have ih := walk_next fi ps _ h.2.2
    simp only [walk, refs_cons, List.map_cons, List.cons_append, List.cons.injEq] at ih ⊢
    exact ⟨h.1, ih⟩

theorem refs_append (r : Ref) (ps : List Nat) (n : Nat) : refs r (ps ++ [n]) = refs r ps ++ [.ovf (n - 1)] := by
  simp [refs]

/-! ### createOverflow -/

structure CO (fi : FIndex) (P : Nat → List Nat) (fi0 : FIndex) (n : Nat) : Prop where
  good : Good fi0 P
  main : fi0.main = fi.main
  level : fi0.level = fi.level
  split : fi0.split = fi.split
  numKeys : fi0.numKeys = fi.numKeys
  read : ∀ r, fi0.read r = fi.read r
  n1 : 1 ≤ n
  n2 : n ≤ fi0.ovf.length
  ovf_le : fi.ovf.length ≤ fi0.ovf.length
  nfree : n ∉ fi0.free
  free_sub : ∀ x ∈ fi0.free, x ∈ fi.free
  nP : ∀ j, j < fi.main.length → n ∉ P j
  norig : n ∈ fi.free ∨ fi.ovf.length < n

theorem Good.createOverflow {fi : FIndex} {P : Nat → List Nat} (g : Good fi P) :
    CO fi P fi.createOverflow.1 fi.createOverflow.2 := by
  unfold FIndex.createOverflow
  cases hfr : fi.free with
  | cons n rest =>
    simp only
    have hrd : ∀ r, ({ fi with free := rest } : FIndex).read r = fi.read r := by
      intro r; cases r <;> rfl
    have hnd := g.fnd
    rw [hfr, List.nodup_cons] at hnd
    have hsub : ∀ x ∈ rest, x ∈ fi.free := by
      intro x hx; rw [hfr]; exact List.mem_cons_of_mem _ hx
    have hn : n ∈ fi.free := by rw [hfr]; exact List.mem_cons_self
    refine ⟨?_, rfl, rfl, rfl, rfl, hrd, (g.frng n hn).1, (g.frng n hn).2, Nat.le_refl _, hnd.1, hsub,
      fun j hj => g.fdj n hn j hj, Or.inl hn⟩
    apply g.congr (fi' := { fi with free := rest }) rfl (Nat.le_refl _) hsub hnd.2
    · intro r; rw [hrd]
    · intro i hi r hr; rw [hrd]; exact g.sm i hi r hr
  | nil =>
    simp only
    have hrd : ∀ r, ({ fi with ovf := fi.ovf ++ [FBucket.empty], free := [] } : FIndex).read r = fi.read r := by
      intro r
      cases r with
      | main i => rfl
      | ovf j =>
        simp only [FIndex.read, List.getD_eq_getElem?_getD]
        by_cases hj : j < fi.ovf.length
        · rw [List.getElem?_append_left hj]
        · rw [List.getElem?_append_right (by omega)]
          have : fi.ovf[j]? = none := by simp; omega
          rw [this]
          cases j - fi.ovf.length <;> simp
    refine ⟨?_, rfl, rfl, rfl, rfl, hrd, by omega, by simp, by simp, by simp, by simp [hfr], ?_, Or.inr (by omega)⟩
    · apply g.congr (fi' := { fi with ovf := fi.ovf ++ [FBucket.empty], free := [] }) rfl (by simp) (by simp) (by simp)
      · intro r; rw [hrd]
      · intro i hi r hr; rw [hrd]; exact g.sm i hi r hr
    · intro j hj hn
      have := (g.rng j hj _ hn).2
      omega

theorem parse_chains_of_read {fi fi0 : FIndex} {P : Nat → List Nat} (g : Good fi P) (g0 : Good fi0 P)
    (hm : fi0.main.length = fi.main.length) (hr : ∀ r, fi0.read r = fi.read r) :
    fi0.parse.chains = fi.parse.chains := by
  rw [g.parse, g0.parse]
  simp only [hm, hr]

/-! ### inserting a new slot -/

/-- The `none` branch of `put`, before the key count and the split. -/
def insertNew (fi : FIndex) (ns : Slot) : FIndex :=
  let c := fi.chainRefs (bucketIdx fi.level fi.split ns.hash)
  match firstFree c with
  | some (r, b) => fi.write r { b with slots := b.slots ++ [ns] }
  | none =>
    match c.getLast? with
    | some (r, b) =>
      let (f, w) := swInsert fi ⟨r, b, []⟩ ns
      swWrite f w
    | none => fi

theorem put_eq (policy : Nat → Nat → Bool) (fi : FIndex) (ns : Slot) (m : Slot → Bool) :
    fi.put policy ns m =
      match findMatch ns.hash m (fi.chainRefs (bucketIdx fi.level fi.split ns.hash)) with
      | some (r, b, i) => fi.write r { b with slots := b.slots.set i ns }
      | none =>
        let fi2 : FIndex := { fi.insertNew ns with numKeys := (fi.insertNew ns).numKeys + 1 }
        if policy fi2.numKeys fi2.numBuckets then fi2.doSplit else fi2 := rfl

theorem forall_map_slots' {l : List (Ref × FBucket)} {Q : List Slot → Prop} (h : ∀ p ∈ l, Q p.2.slots) :
    ∀ x ∈ l.map (·.2.slots), Q x := by
  intro x hx
  obtain ⟨p, hp, rfl⟩ := List.mem_map.1 hx
  exact h p hp

theorem insertNew_spec {fi : FIndex} {P : Nat → List Nat} (g : Good fi P) (ns : Slot)
    (hi : bucketIdx fi.level fi.split ns.hash < fi.main.length) :
    (∃ P', Good (fi.insertNew ns) P') ∧
    (fi.insertNew ns).parse = ⟨fi.level, fi.split,
      fi.parse.chains.set (bucketIdx fi.level fi.split ns.hash)
        (Chain.insertFree ns (fi.parse.chain (bucketIdx fi.level fi.split ns.hash))), fi.numKeys⟩ := by
  generalize hidef : bucketIdx fi.level fi.split ns.hash = i at hi
  rw [parse_chain fi hi]
  unfold insertNew
  rw [hidef]
  cases hff : firstFree (fi.chainRefs i) with
  | some x =>
    obtain ⟨r, b⟩ := x
    obtain ⟨pre, post, h1, h2, h3⟩ := firstFree_some hff
    simp only [hff]
    obtain ⟨g', hp⟩ := g.rewrite hi h1 (b.slots ++ [ns]) (by simp; omega)
    refine ⟨⟨P, g'⟩, ?_⟩
    rw [hp, h1]
    simp only [List.map_append, List.map_cons]
    rw [Chain.insertFree_at ns (forall_map_slots' h2) h3]
  | none =>
    have hfull := firstFree_none hff
    simp only [hff]
    have hcw := g.chainRefs hi
    have hne : fi.chainRefs i ≠ [] := by rw [hcw]; simp [walk, refs]
    cases hgl : (fi.chainRefs i).getLast? with
    | none => exact absurd (List.getLast?_eq_none_iff.1 hgl) hne
    | some x =>
      obtain ⟨r, b⟩ := x
      obtain ⟨pre, hpre⟩ := List.getLast?_eq_some_iff.1 hgl
      simp only
      -- facts about the last bucket
      have hw : fi.walk (.main i) (P i) = pre ++ [(r, b)] := by rw [← hcw, hpre]
      have hmemw : (r, b) ∈ fi.walk (.main i) (P i) := by rw [hw]; simp
      have hb : b = fi.read r := walk_mem hmemw
      have hrefs : refs (.main i) (P i) = pre.map (·.1) ++ [r] := by
        rw [← walk_map_fst fi, hw]; simp
      have hr : r ∈ refs (.main i) (P i) := by rw [hrefs]; simp
      have hnext := walk_next fi _ _ (g.lk i hi)
      rw [hw, List.map_append] at hnext
      obtain ⟨hpn, hbn⟩ := List.append_inj' hnext (by simp)
      simp only [List.map_cons, List.map_nil, List.cons.injEq, and_true] at hbn
      have hb31 : b.slots.length = slotsPerBucket := by
        have h1 := g.sm i hi r hr
        rw [← hb] at h1
        have h2 := hfull (r, b) (by rw [hpre]; simp)
        simp only at h2
        omega
      -- the allocation
      have hsw : swInsert fi ⟨r, b, []⟩ ns =
          (fi.createOverflow.1, ⟨.ovf (fi.createOverflow.2 - 1), ⟨[ns], 0⟩, [(r, { b with next := fi.createOverflow.2 })]⟩) := by
        simp [swInsert, hb31]
      rw [hsw]
      simp only [swWrite, List.foldl_cons, List.foldl_nil]
      have co := g.createOverflow
      generalize fi.createOverflow.1 = fi0 at co ⊢
      generalize fi.createOverflow.2 = n at co ⊢
      have hi0 : i < fi0.main.length := by rw [co.main]; exact hi
      have hrn : r ≠ .ovf (n - 1) := by
        intro he
        rw [he] at hr
        rcases mem_refs_main.1 hr with h | ⟨n', hn', h⟩
        · cases h
        · have := ovf_pred_inj co.n1 (g.rng i hi n' hn').1 h
          subst this
          exact co.nP i hi hn'
      have hin_r : fi0.InRange r := co.good.inRange hi0 hr
      have hin_n : (fi0.write r { b with next := n }).InRange (.ovf (n - 1)) := by
        show n - 1 < (fi0.write r { b with next := n }).ovf.length
        have := co.n1; have := co.n2
        simp only [write_ovf_length]; omega
      generalize hA : (fi0.write r { b with next := n }).write (.ovf (n - 1)) ⟨[ns], 0⟩ = fiA
      have hAr1 : fiA.read (.ovf (n - 1)) = ⟨[ns], 0⟩ := by
        rw [← hA]; exact read_write_same _ _ _ hin_n
      have hAr2 : fiA.read r = { b with next := n } := by
        rw [← hA, read_write_ne _ _ _ _ hrn, read_write_same _ _ _ hin_r]
      have hAr3 : ∀ r', r' ≠ r → r' ≠ .ovf (n - 1) → fiA.read r' = fi.read r' := by
        intro r' h1 h2
        rw [← hA, read_write_ne _ _ _ _ h2, read_write_ne _ _ _ _ h1, co.read]
      have hpre_mem : ∀ p ∈ pre, p.1 ∈ refs (.main i) (P i) ∧ p.1 ≠ r ∧ p.2 = fi.read p.1 := by
        intro p hp
        have hnd := g.refs_nodup hi
        rw [hrefs, List.nodup_append] at hnd
        refine ⟨by rw [hrefs]; exact List.mem_append_left _ (List.mem_map.2 ⟨p, hp, rfl⟩), ?_, walk_mem (by rw [hw]; simp [hp])⟩
        intro he
        exact hnd.2.2 p.1 (List.mem_map.2 ⟨p, hp, rfl⟩) r (by simp) he
      have hne_n : ∀ r' ∈ refs (.main i) (P i), r' ≠ .ovf (n - 1) := by
        intro r' hr' he
        rw [he] at hr'
        rcases mem_refs_main.1 hr' with h | ⟨n', hn', h⟩
        · cases h
        · have := ovf_pred_inj co.n1 (g.rng i hi n' hn').1 h
          subst this
          exact co.nP i hi hn'
      obtain ⟨g', hp⟩ := co.good.install hi0
        (pre ++ [(r, { b with next := n }), (.ovf (n - 1), ⟨[ns], 0⟩)]) (P i ++ [n]) (fi' := fiA)
        (by rw [refs_append, hrefs]; simp)
        (by simp [hpn])
        (by
          intro p hp
          simp only [List.mem_append, List.mem_cons, List.not_mem_nil, or_false] at hp
          rcases hp with hp | rfl | rfl
          · obtain ⟨h1, _, h3⟩ := hpre_mem p hp
            rw [h3]; exact g.sm i hi _ h1
          · simp [hb31]
          · simp [slotsPerBucket])
        (by
          rw [List.nodup_append]
          refine ⟨g.nd i hi, by simp, ?_⟩
          intro a ha c hc
          simp only [List.mem_cons, List.not_mem_nil, or_false] at hc
          subst hc
          intro he; subst he
          exact co.nP i hi ha)
        (by
          intro n' hn'
          simp only [List.mem_append, List.mem_cons, List.not_mem_nil, or_false] at hn'
          rcases hn' with hn' | rfl
          · exact co.good.rng i hi0 n' hn'
          · exact ⟨co.n1, co.n2⟩)
        (by
          intro n' hn' j hj hji
          simp only [List.mem_append, List.mem_cons, List.not_mem_nil, or_false] at hn'
          rcases hn' with hn' | rfl
          · exact co.good.dj i hi0 j hj (fun h => hji h.symm) n' hn'
          · exact co.nP j (by rw [← co.main]; exact hj))
        (by rw [← hA]; simp)
        (by rw [← hA]; simp)
        (by
          intro p hp
          simp only [List.mem_append, List.mem_cons, List.not_mem_nil, or_false] at hp
          rcases hp with hp | rfl | rfl
          · obtain ⟨h1, h2, h3⟩ := hpre_mem p hp
            rw [hAr3 _ h2 (hne_n _ h1), h3]
          · exact hAr2
          · exact hAr1)
        (by
          intro r' hr'
          rw [refs_append, List.mem_append, List.mem_singleton] at hr'
          rw [hAr3 r' (fun he => hr' (Or.inl (he ▸ hr))) (fun he => hr' (Or.inr he)), co.read])
        (by rw [← hA]; simpa using co.good.fnd)
        (by rw [← hA]; simpa using co.good.frng)
        (by
          rw [← hA]
          simp only [write_free]
          intro n' hn'
          refine ⟨?_, fun j hj _ => co.good.fdj n' hn' j hj⟩
          simp only [List.mem_append, List.mem_cons, List.not_mem_nil, or_false]
          rintro (h | rfl)
          · exact co.good.fdj n' hn' i hi0 h
          · exact co.nfree hn')
      refine ⟨⟨_, g'⟩, ?_⟩
      rw [hp, parse_chains_of_read g co.good (by rw [co.main]) co.read]
      have hl : fiA.level = fi.level := by rw [← hA]; simp [co.level]
      have hsp : fiA.split = fi.split := by rw [← hA]; simp [co.split]
      have hnk : fiA.numKeys = fi.numKeys := by rw [← hA]; simp [co.numKeys]
      rw [hl, hsp, hnk, Chain.insertFree_full ns (forall_map_slots' hfull), hpre]
      simp

end FIndex
end Pogreb
