/-
  Helper lemmas: masks, signed comparison and bit 31 of bit vectors in terms of `toNat`.
-/

namespace Pogreb
set_option linter.unusedSimpArgs false

theorem shl_one_toNat (n : Nat) : ((1#32) <<< n).toNat = 2 ^ n % 2 ^ 32 := by
  simp only [BitVec.toNat_shiftLeft, BitVec.toNat_ofNat, Nat.shiftLeft_eq]
  simp

theorem mask_toNat (n : Nat) : (((1#32) <<< n) - (1#32)).toNat = 2 ^ (min n 32) - 1 := by
  have h1 := shl_one_toNat n
  by_cases hn : n < 32
  · have hp : 2 ^ n < 2 ^ 32 := Nat.pow_lt_pow_right (by omega) hn
    have hpos : 0 < 2 ^ n := Nat.pow_pos (by omega)
    rw [Nat.mod_eq_of_lt hp] at h1
    rw [Nat.min_eq_left (by omega)]
    bv_omega
  · have : 2 ^ n = 2 ^ 32 * 2 ^ (n - 32) := by rw [← Nat.pow_add]; congr 1; omega
    rw [this, Nat.mul_mod_right] at h1
    rw [Nat.min_eq_right (by omega)]
    bv_omega

theorem and_of_mask (h m : BitVec 32) (k : Nat) (hm : m.toNat = 2 ^ k - 1) :
    (h &&& m).toNat = h.toNat % 2 ^ k ∧ (m &&& h).toNat = h.toNat % 2 ^ k := by
  rw [BitVec.toNat_and, BitVec.toNat_and, hm, Nat.and_comm (2 ^ k - 1), Nat.and_two_pow_sub_one_eq_mod]
  exact ⟨rfl, rfl⟩

theorem and_mask_toNat (h : BitVec 32) (n : Nat) :
    (h &&& (((1#32) <<< n) - (1#32))).toNat = h.toNat % 2 ^ n := by
  rw [(and_of_mask h _ _ (mask_toNat n)).1]
  by_cases hn : n < 32
  · rw [Nat.min_eq_left (by omega)]
  · have hge : 2 ^ 32 ≤ 2 ^ n := Nat.pow_le_pow_right (by omega) (by omega)
    have := h.isLt
    rw [Nat.min_eq_right (by omega), Nat.mod_eq_of_lt this, Nat.mod_eq_of_lt (by omega)]

/-- Same with the operands of `&&&` swapped (harmless rewrite of the source). -/
theorem mask_and_toNat (h : BitVec 32) (n : Nat) :
    ((((1#32) <<< n) - (1#32)) &&& h).toNat = h.toNat % 2 ^ n := by
  rw [BitVec.and_comm]; exact and_mask_toNat h n

/-- Signed comparison of two non-negative `int64`s is comparison of their values. -/
theorem slt_toNat (a b : BitVec 64) (ha : a.toNat < 2 ^ 63) (hb : b.toNat < 2 ^ 63) :
    BitVec.slt a b = decide (a.toNat < b.toNat) := by
  have ea : a.toInt = a.toNat := by rw [BitVec.toInt_eq_toNat_cond, if_pos (by omega)]
  have eb : b.toInt = b.toNat := by rw [BitVec.toInt_eq_toNat_cond, if_pos (by omega)]
  unfold BitVec.slt
  rw [decide_eq_decide, ea, eb]
  omega

theorem and_bit31_toNat (vs : BitVec 32) :
    (vs &&& 2147483648#32).toNat = if 2 ^ 31 ≤ vs.toNat then 2 ^ 31 else 0 := by
  have e : (2147483648#32) = BitVec.twoPow 32 31 := by decide
  have hm : vs.getLsbD 31 = decide (2 ^ 31 ≤ vs.toNat) := by
    rw [← BitVec.msb_eq_decide vs, BitVec.msb_eq_getLsbD_last]
  rw [e, BitVec.and_twoPow, hm]
  by_cases h : 2 ^ 31 ≤ vs.toNat
  · simp [h]
  · simp [h]

end Pogreb
