/-
  Helper lemmas about segment files and recovery (used by Props/C03, Props/C05).
-/
import Pogreb.SegFS
namespace Pogreb

theorem decode_nil : ∀ r s, decode ([] : Bytes) ≠ .ok r s := by
  intro r s h
  obtain ⟨h6, _⟩ := decode_ok_elim h
  simp at h6

theorem scan_nil : scan ([] : Bytes) = ([], 0) := scan_stop decode_nil

theorem scan_encodeAll' (rs : List Rec) (hf : ∀ r ∈ rs, r.Fits) :
    scan (encodeAll rs) = (rs, (encodeAll rs).length) := by
  have := scan_encodeAll rs [] hf
  simpa [scan_nil] using this

/-- Every record the reader accepts fits the size fields. -/
theorem scan_fits (bs : Bytes) : ∀ r ∈ (scan bs).1, r.Fits := by
  generalize hn : bs.length = n
  induction n using Nat.strongRecOn generalizing bs with
  | _ n ih =>
    rcases decode_cases bs with ⟨r, s, h⟩ | h
    · obtain ⟨h10, hle⟩ := decode_ok_size_le h
      rw [scan_ok h (by omega)]
      have := ih (bs.drop s).length (by simp; omega) (bs.drop s) rfl
      intro r' hr'
      simp only [List.mem_cons] at hr'
      rcases hr' with rfl | hr'
      · exact (decode_ok_encode h).2
      · exact this r' hr'
    · rw [scan_stop h]; simp

theorem encodeAll_append (a b : List Rec) : encodeAll (a ++ b) = encodeAll a ++ encodeAll b := by
  simp [encodeAll]

theorem ents_of_clean (seq : Nat) (rs : List Rec) (hf : ∀ r ∈ rs, r.Fits) :
    (SegFile.mk seq (encodeAll rs)).ents = rs.map Rec.toEnt := by
  simp [SegFile.ents, scan_encodeAll' rs hf]

theorem ents_torn (seq : Nat) (rs : List Rec) (hf : ∀ r ∈ rs, r.Fits) (r : Rec) (hr : r.Fits)
    (n : Nat) (hn : n < r.encode.length) :
    (SegFile.mk seq (encodeAll rs ++ r.encode.take n)).ents = rs.map Rec.toEnt := by
  simp [SegFile.ents, scan_torn rs r n hf hr hn]

theorem recoverLog_append (a b : SegFS) : recoverLog (a ++ b) = recoverLog a ++ recoverLog b := by
  simp [recoverLog]

theorem recoverLog_single (f : SegFile) : recoverLog [f] = f.ents := by
  simp [recoverLog]

theorem truncated_ents (f : SegFile) : f.truncated.ents = f.ents := by
  have h : f.truncated.bytes = encodeAll (scan f.bytes).1 := by
    simp [SegFile.truncated, scan_prefix]
  simp only [SegFile.ents]
  rw [h, scan_encodeAll' _ (scan_fits f.bytes)]

theorem truncated_clean (f : SegFile) : f.truncated.Clean :=
  ⟨(scan f.bytes).1, scan_fits f.bytes, by simp [SegFile.truncated, scan_prefix]⟩

/-- Replacing files by files with the same valid record prefix does not change the log. -/
theorem recoverLog_map_congr (fs : SegFS) (g : SegFile → SegFile) (h : ∀ f, (g f).ents = f.ents) :
    recoverLog (fs.map g) = recoverLog fs := by
  induction fs with
  | nil => rfl
  | cons f fs ih =>
    simp only [recoverLog, List.map_cons, List.flatMap_cons] at ih ⊢
    rw [ih, h]

theorem toEnt_op (log : List E) (r : Rec) :
    contents (log ++ [r.toEnt]) = (r.op).apply (contents log) := by
  unfold Rec.toEnt Rec.op
  cases r.del
  · simp [WOp.apply, contents_put]
  · simp [WOp.apply, contents_del]

end Pogreb
