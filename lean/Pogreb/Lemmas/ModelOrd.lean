/-
  M05's write-path machinery restated for the three-field order invariant `SegsOrd` (sequence ids
  distinct and bounded by `maxSeq`, every writable segment is the newest), used by the interleaved
  model (M06/M08).
  HISTORY: `SegsNewest` used to have a fourth clause `empty_open` ("only writable segments are empty"),
  needed for the OLD clean reopen only, kept by Put/Delete only under the model precondition `RecFits`,
  and FALSE in the intermediate states of a compaction of an empty segment; `SegsOrd` was `SegsNewest`
  without it. Since fix F13 (`reopenClean` keeps `Full` on empty segments) `empty_open` and `RecFits` are
  gone, and `SegsOrd` and `SegsNewest` are the same invariant (`SegsOrd.newest`, `SegsNewest.ord`,
  `curOrd_iff_curNewest`, `wf3x_iff_wf3`). The `…O`/`…o`/`…x` names are kept for the clients.
-/
import Pogreb.Props.M05
namespace Pogreb
open MState

/-- The same three clauses as `SegsNewest` (historically: `SegsNewest` without `empty_open`). -/
structure SegsOrd (segs : List MSeg) (maxSeq : Nat) : Prop where
  seqs        : (segs.map (·.seq)).Nodup
  le_max      : ∀ s ∈ segs, s.seq ≤ maxSeq
  open_newest : ∀ s ∈ segs, s.full = false → ∀ y ∈ segs, y.seq ≤ s.seq

/-- `writeRecord` always appends to the segment with the largest sequence id. -/
def MState.CurOrd (st : MState) : Prop := SegsOrd st.segs st.maxSeq

theorem SegsNewest.ord {segs : List MSeg} {m : Nat} (h : SegsNewest segs m) : SegsOrd segs m :=
  ⟨h.seqs, h.le_max, h.open_newest⟩

theorem SegsOrd.newest {segs : List MSeg} {m : Nat} (h : SegsOrd segs m) : SegsNewest segs m :=
  ⟨h.seqs, h.le_max, h.open_newest⟩

theorem MState.curOrd_iff_curNewest (st : MState) : st.CurOrd ↔ st.CurNewest :=
  ⟨SegsOrd.newest, SegsNewest.ord⟩

namespace MState

/-- `WF3c` with `CurOrd` for `CurNewest`. -/
def WF3o (st : MState) : Prop := st.WF2 ∧ st.LogCoupled ∧ st.CurOrd

theorem SegsOrd.map {segs : List MSeg} {m : Nat} (h : SegsOrd segs m) (g : MSeg → MSeg)
    (hseq : ∀ x ∈ segs, (g x).seq = x.seq)
    (hflag : ∀ x ∈ segs, (g x).full = false → x.full = false) : SegsOrd (segs.map g) m := by
  refine ⟨?_, ?_, ?_⟩
  · rw [List.map_map]
    have : segs.map ((fun x : MSeg => x.seq) ∘ g) = segs.map fun x => x.seq :=
      List.map_congr_left (fun x hx => hseq x hx)
    rw [this]; exact h.seqs
  · intro s hs
    obtain ⟨x, hx, rfl⟩ := List.mem_map.1 hs
    rw [hseq x hx]; exact h.le_max x hx
  · intro s hs hf y hy
    obtain ⟨x, hx, rfl⟩ := List.mem_map.1 hs
    obtain ⟨z, hz, rfl⟩ := List.mem_map.1 hy
    rw [hseq x hx, hseq z hz]; exact h.open_newest x hx (hflag x hx hf) z hz

theorem SegsOrd.insert {segs : List MSeg} {m : Nat} (h : SegsOrd segs m)
    (hfull : ∀ x ∈ segs, x.full = true) (id : Nat) :
    SegsOrd (insertSeg segs ⟨id, m + 1, [], false⟩) (m + 1) := by
  have hmem : ∀ x, x ∈ insertSeg segs ⟨id, m + 1, [], false⟩ ↔ x = ⟨id, m + 1, [], false⟩ ∨ x ∈ segs := by
    intro x; rw [(insertSeg_perm segs _).mem_iff, List.mem_cons]
  refine ⟨?_, ?_, ?_⟩
  · rw [((insertSeg_perm segs _).map _).nodup_iff, List.map_cons, List.nodup_cons]
    refine ⟨?_, h.seqs⟩
    intro hm
    obtain ⟨x, hx, he⟩ := List.mem_map.1 hm
    have := h.le_max x hx
    dsimp only at he
    omega
  · intro s hs
    rcases (hmem s).1 hs with e | hs'
    · rw [e]; exact Nat.le_refl _
    · have := h.le_max s hs'; omega
  · intro s hs hf y hy
    rcases (hmem s).1 hs with e | hs'
    · rw [e]
      rcases (hmem y).1 hy with e' | hy'
      · rw [e']; exact Nat.le_refl _
      · have := h.le_max y hy'; dsimp only; omega
    · rw [hfull s hs'] at hf; cases hf

theorem SegsOrd.filter {segs : List MSeg} {m : Nat} (h : SegsOrd segs m) (p : MSeg → Bool) :
    SegsOrd (segs.filter p) m := by
  refine ⟨?_, ?_, ?_⟩
  · exact h.seqs.sublist ((List.filter_sublist (l := segs) (p := p)).map _)
  · intro s hs; exact h.le_max s (List.mem_filter.1 hs).1
  · intro s hs hf y hy
    exact h.open_newest s (List.mem_filter.1 hs).1 hf y (List.mem_filter.1 hy).1

theorem swap_ord {st : MState} (h : st.CurOrd) :
    st.swapSegment.CurOrd ∧ slog st.swapSegment.segs = slog st.segs := by
  unfold swapSegment
  split
  · exact ⟨h, rfl⟩
  · rename_i hf
    have hfull : ∀ x ∈ st.segs, x.full = true := by
      intro x hx; have := List.find?_eq_none.1 hf x hx; simpa using this
    refine ⟨SegsOrd.insert h hfull _, slog_insert h.seqs _ ?_ rfl⟩
    intro x hx; have := h.le_max x hx; show x.seq < st.maxSeq + 1; omega

theorem wrPre_ord {st : MState} (hids : (st.segs.map (·.id)).Nodup) (hN : st.CurOrd)
    (hc : st.SegsClean) (data : Bytes) :
    (st.wrPre data).CurOrd ∧ slog (st.wrPre data).segs = slog st.segs ∧ (st.wrPre data).SegsClean ∧
    (st.wrPre data).cfg = st.cfg ∧
    ∃ s, (st.wrPre data).cur.bind (st.wrPre data).seg? = some s ∧ s ∈ (st.wrPre data).segs ∧
      s.full = false := by
  unfold wrPre
  dsimp only
  cases hcur : st.cur.bind st.seg? with
  | none =>
    simp only [if_true]
    obtain ⟨h1, h2⟩ := swap_ord hN
    obtain ⟨c, s0, hc0, hs0, hf0⟩ := swap_sealed hids
    exact ⟨h1, h2, swap_clean hc, swap_cfg st, s0, by rw [hc0]; exact hs0, (seg?_some hs0).1, hf0⟩
  | some s =>
    dsimp only
    have hs : st.seg? s.id = some s := by
      cases hc' : st.cur with
      | none => simp [hc'] at hcur
      | some c =>
        rw [hc'] at hcur
        have hcs : st.seg? c = some s := hcur
        rw [(seg?_some hcs).2]; exact hcs
    have hsm : s ∈ st.segs := (seg?_some hs).1
    by_cases hn : (s.full || decide (s.size + data.length > st.cfg.maxSeg)) = true
    · rw [if_pos hn]
      have hsegs := setSeg_full_segs hids hsm
      have hN1 : (st.setSeg { s with full := true }).CurOrd := by
        show SegsOrd (st.setSeg { s with full := true }).segs st.maxSeq
        rw [hsegs]
        refine SegsOrd.map hN _ (fun _ _ => rfl) ?_
        · intro x _ hf
          dsimp only at hf
          cases hx : x.full
          · rfl
          · rw [hx] at hf; simp at hf
      have hlog1 : slog (st.setSeg { s with full := true }).segs = slog st.segs := by
        rw [hsegs]
        exact slog_map (fun x => { x with full := x.full || x.id == s.id }) (fun _ => rfl) (fun _ => rfl) _
      have hc1 : (st.setSeg { s with full := true }).SegsClean := by
        intro x hx
        rw [hsegs] at hx
        obtain ⟨y, hy, rfl⟩ := List.mem_map.1 hx
        exact hc y hy
      have hids1 : ((st.setSeg { s with full := true }).segs.map (·.id)).Nodup := by
        rw [setSeg_ids]; exact hids
      obtain ⟨h1, h2⟩ := swap_ord hN1
      obtain ⟨c, s0, hc0, hs0, hf0⟩ := swap_sealed hids1
      exact ⟨h1, h2.trans hlog1, swap_clean hc1, by rw [swap_cfg]; rfl, s0, by rw [hc0]; exact hs0,
        (seg?_some hs0).1, hf0⟩
    · rw [if_neg hn]
      refine ⟨hN, rfl, hc, rfl, s, hcur, hsm, ?_⟩
      cases hx : s.full
      · rfl
      · rw [hx] at hn; simp at hn

theorem writeRecord_ord {st : MState} (hids : (st.segs.map (·.id)).Nodup) (hN : st.CurOrd)
    (hc : st.SegsClean) (r : Rec) (hf : r.Fits) :
    (st.writeRecord r.encode).1.CurOrd ∧
    slog (st.writeRecord r.encode).1.segs = slog st.segs ++ [r.toEnt] ∧
    (st.writeRecord r.encode).1.cfg = st.cfg := by
  obtain ⟨hN0, hlog0, hc0, hcfg0, s, htgt, hsm, hsf⟩ := wrPre_ord hids hN hc r.encode
  have hids0 := (wrPre_spec st r.encode hids).1
  rw [writeRecord_eq, htgt]
  dsimp only
  refine ⟨?_, ?_, hcfg0⟩
  · show SegsOrd ((st.wrPre r.encode).segs.map _) (st.wrPre r.encode).maxSeq
    refine SegsOrd.map hN0 _ ?_ ?_
    · intro x hx
      by_cases he : x.id = s.id
      · have := eq_of_id hids0 hx hsm he; subst this; simp
      · simp [he]
    · intro x hx hfl
      by_cases he : x.id = s.id
      · have := eq_of_id hids0 hx hsm he; subst this; exact hsf
      · simpa [he] using hfl
  · rw [← hlog0]
    exact slog_setSeg_newest hids0 hN0.seqs hsm (hN0.open_newest s hsm hsf)
      { s with data := s.data ++ r.encode } rfl rfl r.toEnt (by
      unfold segEnts
      rw [scan_append_rec (hc0 s hsm) hf, List.map_append]; rfl)

theorem writeRecord_extO {st : MState} (hids : (st.segs.map (·.id)).Nodup) (hN : st.CurOrd)
    (hc : st.SegsClean) (r : Rec) (hf : r.Fits) :
    Ext [r.toEnt] st.segs (st.writeRecord r.encode).1.segs ∧
    Cover st.segs (st.writeRecord r.encode).1.segs ∧
    ∃ w ∈ (st.writeRecord r.encode).1.segs, w.id = (st.writeRecord r.encode).2.1 ∧
      ∀ y ∈ (st.writeRecord r.encode).1.segs, y.seq ≤ w.seq := by
  obtain ⟨hN0, _, hc0, _, s, htgt, hsm, hsf⟩ := wrPre_ord hids hN hc r.encode
  obtain ⟨hx0, hcov0⟩ := wrPre_ext hids r.encode
  have hids0 := (wrPre_spec st r.encode hids).1
  rw [writeRecord_eq, htgt]
  dsimp only
  have hents : segEnts ({ s with data := s.data ++ r.encode } : MSeg) = segEnts s ++ [r.toEnt] := by
    unfold segEnts
    rw [scan_append_rec (hc0 s hsm) hf, List.map_append]; rfl
  have hmem : ∀ y', y' ∈ ((st.wrPre r.encode).setSeg { s with data := s.data ++ r.encode }).segs →
      ∃ y ∈ (st.wrPre r.encode).segs, (y = s ∧ y' = { s with data := s.data ++ r.encode }) ∨
        (y.id ≠ s.id ∧ y' = y) := by
    intro y' hy'
    obtain ⟨y, hy, rfl⟩ := List.mem_map.1 (show y' ∈ (st.wrPre r.encode).segs.map _ from hy')
    refine ⟨y, hy, ?_⟩
    by_cases he : y.id = s.id
    · left; exact ⟨eq_of_id hids0 hy hsm he, by simp [he]⟩
    · right; exact ⟨he, by simp [he]⟩
  have hx1 : Ext [r.toEnt] (st.wrPre r.encode).segs
      ((st.wrPre r.encode).setSeg { s with data := s.data ++ r.encode }).segs := by
    intro y' hy'
    obtain ⟨y, hy, h | h⟩ := hmem y' hy'
    · obtain ⟨rfl, rfl⟩ := h
      exact Or.inl ⟨y, hy, rfl, rfl, Or.inr hents⟩
    · obtain ⟨_, rfl⟩ := h
      exact Or.inl ⟨y', hy, rfl, rfl, Or.inl rfl⟩
  have hcov1 : Cover (st.wrPre r.encode).segs
      ((st.wrPre r.encode).setSeg { s with data := s.data ++ r.encode }).segs := by
    intro x hx
    refine ⟨_, List.mem_map_of_mem (f := fun x => if x.id == s.id then { s with data := s.data ++ r.encode } else x) hx, ?_⟩
    split
    · rename_i he
      have he' : x.id = s.id := by simpa using he
      exact he'.symm
    · rfl
  refine ⟨ext_nil_trans hx0 hcov0 hx1, cover_trans hcov0 hcov1, { s with data := s.data ++ r.encode }, ?_, rfl, ?_⟩
  · show _ ∈ List.map _ _
    refine List.mem_map.2 ⟨s, hsm, by simp⟩
  · intro y' hy'
    obtain ⟨y, hy, h | h⟩ := hmem y' hy'
    · rw [h.2]; exact Nat.le_refl _
    · rw [h.2]; exact hN0.open_newest s hsm hsf y hy

theorem put_wf3o {st : MState} (h : st.WF3o) (k v : Bytes)
    (hk : k.length ≤ maxKeyLength) (hv : v.length ≤ maxValueLength) : (st.put k v).1.WF3o := by
  obtain ⟨h2, hlc, hN⟩ := h
  obtain ⟨_, _, habs⟩ := M01_put_refines st h2.1 k v hk hv
  have hk' : ¬ k.length > maxKeyLength := by omega
  have hv' : ¬ v.length > maxValueLength := by omega
  have hf : (⟨false, k, v⟩ : Rec).Fits := by
    unfold maxKeyLength at hk; unfold maxValueLength at hv
    constructor <;> dsimp only <;> omega
  obtain ⟨hN1, hlog1, _⟩ := writeRecord_ord h2.1.ids hN h2.2.2 ⟨false, k, v⟩ hf
  have hsegs : (st.put k v).1.segs = (st.writeRecord (Rec.encode ⟨false, k, v⟩)).1.segs := by
    unfold MState.put; rw [if_neg hk', if_neg hv']
  have hmax : (st.put k v).1.maxSeq = (st.writeRecord (Rec.encode ⟨false, k, v⟩)).1.maxSeq := by
    unfold MState.put; rw [if_neg hk', if_neg hv']
  refine ⟨M04_put st h2 k v hk hv, ?_, ?_⟩
  · rw [logCoupled_iff, hsegs, hlog1, habs, ← (logCoupled_iff st).1 hlc]
    exact contents_put _ k v
  · show SegsOrd _ _
    rw [hsegs, hmax]; exact hN1

theorem delete_wf3o {st : MState} (h : st.WF3o) (k : Bytes) (hk : k.length ≤ maxKeyLength) :
    (st.delete k).WF3o := by
  obtain ⟨h2, hlc, hN⟩ := h
  have habs := (M01_delete_refines st h2.1 k).2
  have hwf2 := M04_delete st h2 k hk
  have hf : (⟨true, k, []⟩ : Rec).Fits := by
    unfold maxKeyLength at hk
    constructor <;> dsimp only [List.length_nil] <;> omega
  obtain ⟨hN1, hlog1, _⟩ := writeRecord_ord h2.1.ids hN h2.2.2 ⟨true, k, []⟩ hf
  rw [MState.delete_eq] at habs hwf2 ⊢
  cases hg : st.idx.get (st.hashOf k) (st.matchKey k) with
  | none => exact ⟨h2, hlc, hN⟩
  | some sl =>
    rw [hg] at habs hwf2
    dsimp only at habs hwf2 ⊢
    refine ⟨hwf2, ?_, hN1⟩
    rw [logCoupled_iff, habs]
    show contents (slog (st.writeRecord (Rec.encode ⟨true, k, []⟩)).1.segs) = _
    rw [hlog1, ← (logCoupled_iff st).1 hlc]
    exact contents_del _ k

theorem write_segLastO {st : MState} (h2 : st.WF2) (hN : st.CurOrd)
    (hSL : st.SegLast) (r : Rec) (hf : r.Fits) (idx' : Index)
    (hslots : ∀ sl ∈ idx'.slots, sl.seg = (st.writeRecord r.encode).2.1 ∨
      (sl ∈ st.idx.slots ∧ st.kof sl ≠ r.key)) :
    ({ (st.writeRecord r.encode).1 with idx := idx' } : MState).SegLast := by
  obtain ⟨hwf1, _, _, hreads, _⟩ := writeRecord_wf h2.1 r.encode
  obtain ⟨hext, _, w, hw, hwid, hwmax⟩ := writeRecord_extO h2.1.ids hN h2.2.2 r hf
  intro sl hsl
  show NoNewer (st.writeRecord r.encode).1.segs sl.seg ((st.writeRecord r.encode).1.kof sl)
  rcases hslots sl hsl with hseg | ⟨hold, hne⟩
  · intro s' hs' hid y' hy' hlt
    have := eq_of_id hwf1.ids hs' hw (hid.trans (hseg.trans hwid.symm))
    rw [this] at hlt
    have := hwmax y' hy'
    omega
  · have hk : (st.writeRecord r.encode).1.kof sl = st.kof sl := by
      unfold kof; rw [(hreads sl hold).1]
    rw [hk]
    obtain ⟨s0, hs0, hs0id, _⟩ := h2.1.points sl hold
    refine noNewer_ext hext ⟨s0, hs0, hs0id⟩ (hSL sl hold) ?_
    intro e he
    rw [List.mem_singleton.1 he]
    exact fun e' => hne e'.symm

theorem put_segLastO {st : MState} (h2 : st.WF2) (hN : st.CurOrd)
    (hSL : st.SegLast) (k v : Bytes) (hk : k.length ≤ maxKeyLength) (hv : v.length ≤ maxValueLength) :
    (st.put k v).1.SegLast := by
  have hk' : ¬ k.length > maxKeyLength := by omega
  have hv' : ¬ v.length > maxValueLength := by omega
  have hkl : k.length % 65536 = k.length := by
    apply Nat.mod_eq_of_lt; unfold maxKeyLength at hk; omega
  have hvl : v.length % 4294967296 = v.length := by
    apply Nat.mod_eq_of_lt; unfold maxValueLength at hv; omega
  have hf : (⟨false, k, v⟩ : Rec).Fits := by
    unfold maxKeyLength at hk; unfold maxValueLength at hv
    constructor <;> dsimp only <;> omega
  have hput : (st.put k v).1 =
      { (st.writeRecord (Rec.encode ⟨false, k, v⟩)).1 with
          idx := (st.writeRecord (Rec.encode ⟨false, k, v⟩)).1.idx.put loadPolicy
            ⟨st.hashOf k, (st.writeRecord (Rec.encode ⟨false, k, v⟩)).2.1, k.length, v.length,
              (st.writeRecord (Rec.encode ⟨false, k, v⟩)).2.2⟩
            ((st.writeRecord (Rec.encode ⟨false, k, v⟩)).1.matchKey k) } := by
    unfold MState.put
    rw [if_neg hk', if_neg hv', hkl, hvl]
  rw [hput]
  obtain ⟨hwf1, hidx, hseed, hreads, _⟩ := writeRecord_wf h2.1 (Rec.encode ⟨false, k, v⟩)
  obtain ⟨old, _, _, _, hoff, hnew, _, _⟩ := writeRecord_spec st (Rec.encode ⟨false, k, v⟩) h2.1.ids
  have hnew' : (st.writeRecord (Rec.encode ⟨false, k, v⟩)).1.segData
      (st.writeRecord (Rec.encode ⟨false, k, v⟩)).2.1 = some (old ++ (Rec.encode ⟨false, k, v⟩) ++ []) := by
    rw [List.append_nil]; exact hnew
  have hkey := (reads_at_record (st := (st.writeRecord (Rec.encode ⟨false, k, v⟩)).1)
    (sl := ⟨st.hashOf k, (st.writeRecord (Rec.encode ⟨false, k, v⟩)).2.1, k.length, v.length,
      (st.writeRecord (Rec.encode ⟨false, k, v⟩)).2.2⟩) (r := ⟨false, k, v⟩) hnew' hoff rfl).1
  have hh : (⟨st.hashOf k, (st.writeRecord (Rec.encode ⟨false, k, v⟩)).2.1, k.length, v.length,
      (st.writeRecord (Rec.encode ⟨false, k, v⟩)).2.2⟩ : Slot).hash =
      (st.writeRecord (Rec.encode ⟨false, k, v⟩)).1.hashOf k := by
    unfold hashOf; rw [hseed]
  apply write_segLastO h2 hN hSL ⟨false, k, v⟩ hf
  intro sl hsl
  rcases put_idx_slots' hwf1 k _ hkey hh sl hsl with e | ⟨hold, hne⟩
  · left; rw [e]
  · right
    rw [hidx] at hold
    refine ⟨hold, ?_⟩
    have hkf : (st.writeRecord (Rec.encode ⟨false, k, v⟩)).1.kof sl = st.kof sl := by
      unfold kof; rw [(hreads sl hold).1]
    rw [← hkf]; exact hne

theorem delete_segLastO {st : MState} (h2 : st.WF2) (hN : st.CurOrd)
    (hSL : st.SegLast) (k : Bytes) (hk : k.length ≤ maxKeyLength) : (st.delete k).SegLast := by
  have hf : (⟨true, k, []⟩ : Rec).Fits := by
    unfold maxKeyLength at hk
    constructor <;> dsimp only [List.length_nil] <;> omega
  rw [MState.delete_eq]
  cases hg : st.idx.get (st.hashOf k) (st.matchKey k) with
  | none => exact hSL
  | some sl0 =>
    dsimp only
    obtain ⟨hwf1, hidx, hseed, hreads, _⟩ := writeRecord_wf h2.1 (Rec.encode ⟨true, k, []⟩)
    have hh : st.hashOf k = (st.writeRecord (Rec.encode ⟨true, k, []⟩)).1.hashOf k := by
      unfold hashOf; rw [hseed]
    rw [hh]
    apply write_segLastO h2 hN hSL ⟨true, k, []⟩ hf
    intro sl hsl
    obtain ⟨hold, hne⟩ := delete_idx_slots' hwf1 k sl hsl
    right
    rw [hidx] at hold
    refine ⟨hold, ?_⟩
    have hkf : (st.writeRecord (Rec.encode ⟨true, k, []⟩)).1.kof sl = st.kof sl := by
      unfold kof; rw [(hreads sl hold).1]
    rw [← hkf]; exact hne

theorem compactRecord_segLastO {st : MState} (h2 : st.WF2) (hN : st.CurOrd)
    (hSL : st.SegLast) (c : CompState)
    (hreal : ∀ src, c.source = some src → ∀ s ∈ st.segs, s.id = src →
      ∃ done, recsWithOffsets s.data = done ++ c.todo) : (st.compactRecord c).1.SegLast := by
  cases hs : c.source with
  | none => rw [compactRecord_none st c hs]; exact hSL
  | some src =>
    cases ht : c.todo with
    | nil => rw [compactRecord_nil st c src hs ht]; exact hSL
    | cons p rest =>
      obtain ⟨off, r⟩ := p
      have hrec : ∀ s ∈ st.segs, s.id = src →
          ∃ done rest', recsWithOffsets s.data = done ++ (off, r) :: rest' := by
        intro s hs' hid
        obtain ⟨done, hd⟩ := hreal src hs s hs' hid
        rw [ht] at hd
        exact ⟨done, rest, hd⟩
      obtain ⟨hwf1, hidx, _, _, _⟩ := writeRecord_wf h2.1 r.encode
      rcases compactRecord_step' st c src off r rest hs ht with
        ⟨_, e⟩ | ⟨_, _, e⟩ | ⟨_, ⟨i0, h0⟩, hnone, _⟩ | ⟨_, ⟨i0, h0⟩, idx', hr, e⟩
      · rw [e]; exact hSL
      · rw [e]; exact hSL
      · exfalso
        obtain ⟨s0, hs0, hh, ho, hsg, _⟩ := Index.repoint_some h2.1.inv h0
        exact Index.repoint_none hwf1.inv hnone s0 (by rw [hidx]; exact hs0) ⟨hh, ho, hsg⟩
      · rw [e]
        obtain ⟨_, hfits, _⟩ := live_abs h2 h0 hrec
        have hfr := writeRecord_fresh h2.1 r.encode
        obtain ⟨s0, hs0, _, ho, hsg, _, hsub⟩ := repoint_slots hwf1 hr (fun a ha hseg => by
          rw [hidx] at ha
          have := hfr a ha hseg
          omega)
        rw [hidx] at hs0
        obtain ⟨hk0, _, _, _⟩ := slot_at_record h2 hs0 (r := r)
          (fun s hs' hid => by rw [ho]; exact hrec s hs' (hid.trans hsg))
        have hkof0 : st.kof s0 = r.key := by unfold kof; rw [hk0]; rfl
        apply write_segLastO h2 hN hSL r hfits
        intro sl hsl
        rcases hsub sl hsl with ⟨hold, hne⟩ | e'
        · right
          rw [hidx] at hold
          refine ⟨hold, fun hk => hne ?_⟩
          exact nodup_map_inj h2.1.inv.nodup hold hs0 (hk.trans hkof0.symm)
        · left; rw [e']

theorem compactRecord_wf3o {st : MState} (h : st.WF3o) (c : CompState)
    (hreal : ∀ src, c.source = some src → ∀ s ∈ st.segs, s.id = src →
      ∃ done, recsWithOffsets s.data = done ++ c.todo) : (st.compactRecord c).1.WF3o := by
  obtain ⟨h2, hlc, hN⟩ := h
  obtain ⟨hwf2', habs'⟩ := M04_compactRecord st h2 c hreal
  cases hs : c.source with
  | none => rw [compactRecord_none st c hs]; exact ⟨h2, hlc, hN⟩
  | some src =>
    cases ht : c.todo with
    | nil => rw [compactRecord_nil st c src hs ht]; exact ⟨h2, hlc, hN⟩
    | cons p rest =>
      obtain ⟨off, r⟩ := p
      have hrec : ∀ s ∈ st.segs, s.id = src →
          ∃ done rest', recsWithOffsets s.data = done ++ (off, r) :: rest' := by
        intro s hs' hid
        obtain ⟨done, hd⟩ := hreal src hs s hs' hid
        rw [ht] at hd
        exact ⟨done, rest, hd⟩
      have hwrite : ∀ i0, st.idx.repoint (st.hashOf r.key) src off src off = some i0 →
          ∀ st' : MState, st'.segs = (st.writeRecord r.encode).1.segs →
            st'.maxSeq = (st.writeRecord r.encode).1.maxSeq →
            st'.WF2 → st'.abs = st.abs → st'.WF3o := by
        intro i0 h0 st' e1 e2 hw ha
        obtain ⟨hlive, hfits, hdel⟩ := live_abs h2 h0 hrec
        obtain ⟨hN1, hlog1, _⟩ := writeRecord_ord h2.1.ids hN h2.2.2 r hfits
        refine ⟨hw, ?_, ?_⟩
        · rw [logCoupled_iff, e1, hlog1, ha]
          have : r.toEnt = ⟨r.key, some r.val⟩ := by simp [Rec.toEnt, hdel]
          rw [this, contents_copy _ _ _ (by rw [(logCoupled_iff st).1 hlc]; exact hlive)]
          exact (logCoupled_iff st).1 hlc
        · show SegsOrd _ _
          rw [e1, e2]; exact hN1
      rcases compactRecord_step' st c src off r rest hs ht with
        ⟨_, e⟩ | ⟨_, _, e⟩ | ⟨_, ⟨i0, h0⟩, _, e⟩ | ⟨_, ⟨i0, h0⟩, idx', _, e⟩
      · rw [e]; exact ⟨h2, hlc, hN⟩
      · rw [e]; exact ⟨h2, hlc, hN⟩
      · rw [e] at hwf2' habs' ⊢
        exact hwrite i0 h0 _ rfl rfl hwf2' habs'
      · rw [e] at hwf2' habs' ⊢
        exact hwrite i0 h0 _ rfl rfl hwf2' habs'

/-- `WF3` with `CurOrd` for `CurNewest`: what every step of an interleaved compaction keeps.
(Since fix F13 equivalent to `WF3`: `wf3x_iff_wf3`.) -/
def WF3x (st : MState) : Prop := st.WF2 ∧ st.LogCoupled ∧ st.CurOrd ∧ st.SegLast

theorem WF3.x {st : MState} (h : st.WF3) : st.WF3x := ⟨h.1, h.2.1, h.2.2.1.ord, h.2.2.2⟩
theorem WF3x.core {st : MState} (h : st.WF3x) : st.WF3o := ⟨h.1, h.2.1, h.2.2.1⟩
theorem wf3x_intro {st : MState} (h : st.WF3o) (hSL : st.SegLast) : st.WF3x :=
  ⟨h.1, h.2.1, h.2.2, hSL⟩
theorem WF3x.wf3 {st : MState} (h : st.WF3x) (hN : st.CurNewest) : st.WF3 :=
  ⟨h.1, h.2.1, hN, h.2.2.2⟩
/-- `WF3x` is `WF3` (no extra `CurNewest` hypothesis needed any more). -/
theorem WF3x.wf3' {st : MState} (h : st.WF3x) : st.WF3 := h.wf3 h.2.2.1.newest
theorem wf3x_iff_wf3 (st : MState) : st.WF3x ↔ st.WF3 := ⟨WF3x.wf3', WF3.x⟩

theorem put_wf3x {st : MState} (h : st.WF3x) (k v : Bytes)
    (hk : k.length ≤ maxKeyLength) (hv : v.length ≤ maxValueLength) : (st.put k v).1.WF3x :=
  wf3x_intro (put_wf3o h.core k v hk hv) (put_segLastO h.1 h.2.2.1 h.2.2.2 k v hk hv)

theorem delete_wf3x {st : MState} (h : st.WF3x) (k : Bytes) (hk : k.length ≤ maxKeyLength) :
    (st.delete k).WF3x :=
  wf3x_intro (delete_wf3o h.core k hk) (delete_segLastO h.1 h.2.2.1 h.2.2.2 k hk)

end MState
end Pogreb
