/-
  Lemmas about `swapSegment`, `insertSeg`, `freeId`, `reopenClean`, `writeRecord` of the model (C02/C15).
-/
import Pogreb.Model
import Pogreb.IndexThms
namespace Pogreb
namespace MState

theorem find?_congr' {α} {l : List α} {p q : α → Bool} (h : ∀ x ∈ l, p x = q x) : l.find? p = l.find? q := by
  induction l with
  | nil => rfl
  | cons x xs ih =>
    simp only [List.find?_cons, h x List.mem_cons_self]
    rw [ih (fun y hy => h y (List.mem_cons_of_mem _ hy))]

theorem filterMap_congr' {α β} {l : List α} {f g : α → Option β} (h : ∀ x ∈ l, f x = g x) :
    l.filterMap f = l.filterMap g := by
  induction l with
  | nil => rfl
  | cons x xs ih =>
    simp only [List.filterMap_cons, h x List.mem_cons_self]
    rw [ih (fun y hy => h y (List.mem_cons_of_mem _ hy))]

/-! ### insertSeg / freeId -/

theorem mem_insertSeg_self (segs : List MSeg) (s : MSeg) : s ∈ insertSeg segs s := by
  induction segs with
  | nil => simp [insertSeg]
  | cons x xs ih =>
    simp only [insertSeg]; split
    · exact List.mem_cons_self
    · exact List.mem_cons_of_mem _ ih

theorem mem_insertSeg_of_mem (segs : List MSeg) (s x : MSeg) (h : x ∈ segs) : x ∈ insertSeg segs s := by
  induction segs with
  | nil => cases h
  | cons y ys ih =>
    simp only [insertSeg]; split
    · exact List.mem_cons_of_mem _ h
    · rcases List.mem_cons.mp h with rfl | h
      · exact List.mem_cons_self
      · exact List.mem_cons_of_mem _ (ih h)

/-- Lookups of other ids are not affected by `insertSeg`. -/
theorem find_insertSeg_ne (segs : List MSeg) (s : MSeg) (id : Nat) (hne : s.id ≠ id) :
    (insertSeg segs s).find? (·.id == id) = segs.find? (·.id == id) := by
  induction segs with
  | nil => simp [insertSeg, hne]
  | cons x xs ih =>
    simp only [insertSeg]; split
    · simp [List.find?_cons, hne]
    · simp only [List.find?_cons, ih]

theorem countP_id_split (segs : List MSeg) (c : Nat) :
    segs.countP (fun s => decide (c ≤ s.id)) =
      segs.countP (fun s => decide (c + 1 ≤ s.id)) + segs.countP (fun s => s.id == c) := by
  induction segs with
  | nil => rfl
  | cons x xs ih =>
    simp only [List.countP_cons, ih]
    by_cases h1 : c + 1 ≤ x.id
    · have h2 : c ≤ x.id := by omega
      have h3 : ¬ x.id = c := by omega
      simp [h1, h2, h3]; omega
    · by_cases h3 : x.id = c
      · subst h3
        have h4 : ¬ x.id + 1 ≤ x.id := by omega
        simp [h4]; omega
      · have h2 : ¬ c ≤ x.id := by omega
        simp [h1, h2, h3]

/-- `freeId` returns an unused id when the fuel exceeds the number of ids at or above the candidate. -/
theorem freeId_fresh (segs : List MSeg) (fuel cand : Nat)
    (hf : segs.countP (fun s => decide (cand ≤ s.id)) < fuel) :
    segs.any (·.id == freeId segs fuel cand) = false := by
  induction fuel generalizing cand with
  | zero => omega
  | succ f ih =>
    simp only [freeId]
    split
    · rename_i hany
      apply ih
      have hpos : 0 < segs.countP (fun s => s.id == cand) := by
        rw [List.countP_pos_iff]
        simpa using hany
      have := countP_id_split segs cand
      omega
    · rename_i hany
      simpa using hany

theorem freeId_fresh' (segs : List MSeg) : ∀ x ∈ segs, x.id ≠ freeId segs (segs.length + 1) 0 := by
  have h := freeId_fresh segs (segs.length + 1) 0 (by
    have := List.countP_le_length (p := fun s : MSeg => decide (0 ≤ s.id)) (l := segs); omega)
  intro x hx he
  have : segs.any (·.id == freeId segs (segs.length + 1) 0) = true := by
    rw [List.any_eq_true]; exact ⟨x, hx, by simp [he]⟩
  rw [h] at this; cases this

/-! ### swapSegment -/

theorem swap_idx (st : MState) : st.swapSegment.idx = st.idx := by
  unfold swapSegment; split <;> rfl
theorem swap_seed (st : MState) : st.swapSegment.seed = st.seed := by
  unfold swapSegment; split <;> rfl
theorem swap_cfg (st : MState) : st.swapSegment.cfg = st.cfg := by
  unfold swapSegment; split <;> rfl

theorem swap_mem (st : MState) (x : MSeg) (h : x ∈ st.segs) : x ∈ st.swapSegment.segs := by
  unfold swapSegment; split
  · exact h
  · exact mem_insertSeg_of_mem _ _ _ h

/-- Lookups of ids that exist are unchanged by `swapSegment`. -/
theorem swap_seg?_old (st : MState) (id : Nat) (h : (st.seg? id).isSome) :
    st.swapSegment.seg? id = st.seg? id := by
  unfold swapSegment; split
  · rfl
  · simp only [seg?]
    apply find_insertSeg_ne
    simp only [seg?, List.find?_isSome] at h
    obtain ⟨x, hx, hid⟩ := h
    simp only [beq_iff_eq] at hid
    intro he
    exact freeId_fresh' st.segs x hx (by rw [hid]; exact he.symm)

/-- After `swapSegment` the current segment exists. -/
theorem swap_live (st : MState) : ∃ c s, st.swapSegment.cur = some c ∧ st.swapSegment.seg? c = some s := by
  unfold swapSegment; split
  · rename_i s hs
    have hmem := List.mem_of_find?_eq_some hs
    have : (st.segs.find? (·.id == s.id)).isSome := by
      rw [List.find?_isSome]; exact ⟨s, hmem, by simp⟩
    obtain ⟨s', hs'⟩ := Option.isSome_iff_exists.mp this
    exact ⟨s.id, s', rfl, hs'⟩
  · have : ((insertSeg st.segs ⟨freeId st.segs (st.segs.length + 1) 0, st.maxSeq + 1, [], false⟩).find?
        (·.id == freeId st.segs (st.segs.length + 1) 0)).isSome := by
      rw [List.find?_isSome]; exact ⟨_, mem_insertSeg_self _ _, by simp⟩
    obtain ⟨s', hs'⟩ := Option.isSome_iff_exists.mp this
    exact ⟨_, s', rfl, hs'⟩

/-! ### reopenClean -/

/-- The state `reopenClean` hands to `swapSegment`: the segments are untouched (since fix F13 an empty
segment keeps its `Full` flag as well), only `cur` and `maxSeq` are recomputed. -/
def reopenPre (st : MState) : MState :=
  { st with maxSeq := st.segs.foldl (fun m s => max m s.seq) 0, cur := none }

theorem reopenClean_eq (st : MState) : st.reopenClean = st.reopenPre.swapSegment := rfl

@[simp] theorem reopenPre_segs (st : MState) : st.reopenPre.segs = st.segs := rfl

theorem reopenPre_seg? (st : MState) (id : Nat) : st.reopenPre.seg? id = st.seg? id := rfl

theorem reopenClean_seg?_old (st : MState) (id : Nat) (h : (st.seg? id).isSome) :
    st.reopenClean.seg? id = st.seg? id := by
  rw [reopenClean_eq, swap_seg?_old, reopenPre_seg?]
  rw [reopenPre_seg?]; exact h

/-! ### reads -/

theorem readAt_congr (st st' : MState) (id off len : Nat)
    (h : (st'.seg? id).map (·.data) = (st.seg? id).map (·.data)) :
    st'.readAt id off len = st.readAt id off len := by
  unfold readAt
  cases h1 : st'.seg? id <;> cases h2 : st.seg? id <;> simp [h1, h2] at h ⊢
  rw [h]

theorem reopenClean_readAt (st : MState) (id off len : Nat) (h : (st.seg? id).isSome) :
    st.reopenClean.readAt id off len = st.readAt id off len := by
  apply readAt_congr
  rw [reopenClean_seg?_old st id h]

theorem mem_slots_of_chain (idx : Index) (i : Nat) (sl : Slot) (h : sl ∈ (idx.chain i).flatten) : sl ∈ idx.slots := by
  by_cases hi : i < idx.chains.length
  · exact (mem_slots idx sl).mpr ⟨i, hi, h⟩
  · have : idx.chain i = [] := by
      simp only [Index.chain, List.getD_eq_getElem?_getD]
      rw [List.getElem?_eq_none (by omega)]; rfl
    rw [this] at h; cases h

theorem index_get_congr (idx : Index) (h : Nat) (m m' : Slot → Bool) (hm : ∀ sl ∈ idx.slots, m sl = m' sl) :
    idx.get h m = idx.get h m' := by
  unfold Index.get Chain.get
  apply find?_congr'
  intro x hx
  rw [hm x (mem_slots_of_chain idx _ x hx)]

theorem index_get_mem (idx : Index) (h : Nat) (m : Slot → Bool) (sl : Slot) (hg : idx.get h m = some sl) :
    sl ∈ idx.slots :=
  mem_slots_of_chain idx _ sl (List.mem_of_find?_eq_some hg)

/-- No index slot points at a segment that does not exist. -/
def NoDangling (st : MState) : Prop := ∀ sl ∈ st.idx.slots, (st.seg? sl.seg).isSome

theorem reopenClean_reads (st : MState) (hidx : st.NoDangling) (k : Bytes) :
    st.reopenClean.get k = st.get k ∧ st.reopenClean.has k = st.has k ∧ st.reopenClean.count = st.count ∧
    st.reopenClean.items = st.items := by
  have hi : st.reopenClean.idx = st.idx := by rw [reopenClean_eq, swap_idx]; rfl
  have hs : st.reopenClean.seed = st.seed := by rw [reopenClean_eq, swap_seed]; rfl
  have hhash : st.reopenClean.hashOf k = st.hashOf k := by simp only [hashOf, hs]
  have hrk : ∀ sl ∈ st.idx.slots, st.reopenClean.readKey sl = st.readKey sl := fun sl hsl =>
    reopenClean_readAt st _ _ _ (hidx sl hsl)
  have hrv : ∀ sl ∈ st.idx.slots, st.reopenClean.readVal sl = st.readVal sl := fun sl hsl =>
    reopenClean_readAt st _ _ _ (hidx sl hsl)
  have hmk : ∀ sl ∈ st.idx.slots, st.reopenClean.matchKey k sl = st.matchKey k sl := fun sl hsl => by
    simp only [matchKey, hrk sl hsl]
  have hget : st.reopenClean.idx.get (st.reopenClean.hashOf k) (st.reopenClean.matchKey k) =
      st.idx.get (st.hashOf k) (st.matchKey k) := by
    rw [hi, hhash]; exact index_get_congr _ _ _ _ hmk
  refine ⟨?_, ?_, ?_, ?_⟩
  · unfold get
    rw [hget]
    cases hg : st.idx.get (st.hashOf k) (st.matchKey k) with
    | none => rfl
    | some sl => exact hrv sl (index_get_mem _ _ _ _ hg)
  · unfold has; rw [hget]
  · unfold count; rw [hi]
  · unfold items
    rw [hi]
    apply filterMap_congr'
    intro sl hsl
    rw [hrk sl hsl, hrv sl hsl]

/-! ### idempotence -/

theorem reopenClean_of_find (st : MState) (s0 : MSeg)
    (hf : st.segs.find? (fun s => !s.full) = some s0) :
    st.reopenClean = { st with maxSeq := st.segs.foldl (fun m s => max m s.seq) 0,
                               cur := some s0.id } := by
  rw [reopenClean_eq]
  unfold swapSegment
  have : st.reopenPre.segs = st.segs := rfl
  rw [this, hf]
  rfl

/-- A clean reopen is idempotent as soon as some segment is writable (no longer only a non-empty one:
the segments are not changed by the reopen). -/
theorem reopenClean_idem (st : MState) (h : ∃ s ∈ st.segs, s.full = false) :
    st.reopenClean.reopenClean = st.reopenClean := by
  obtain ⟨s, hs, hfull⟩ := h
  have hsome : (st.segs.find? (fun s => !s.full)).isSome := by
    rw [List.find?_isSome]
    exact ⟨s, hs, by rw [hfull]; rfl⟩
  obtain ⟨s0, hs0⟩ := Option.isSome_iff_exists.mp hsome
  have h1 := reopenClean_of_find st s0 hs0
  rw [h1]
  exact reopenClean_of_find
    { st with maxSeq := st.segs.foldl (fun m s => max m s.seq) 0, cur := some s0.id } s0 hs0

theorem foldl_maxSeq_max (l : List MSeg) (m a : Nat) :
    l.foldl (fun m s => max m s.seq) (max m a) = max (l.foldl (fun m s => max m s.seq) m) a := by
  induction l generalizing m with
  | nil => rfl
  | cons x xs ih =>
    simp only [List.foldl_cons]
    rw [show max (max m a) x.seq = max (max m x.seq) a by omega]
    exact ih _

theorem foldl_maxSeq_insertSeg (segs : List MSeg) (s : MSeg) (m : Nat) :
    (insertSeg segs s).foldl (fun m s => max m s.seq) m =
      max (segs.foldl (fun m s => max m s.seq) m) s.seq := by
  induction segs generalizing m with
  | nil => rfl
  | cons x xs ih =>
    simp only [insertSeg]; split
    · simp only [List.foldl_cons]
      rw [foldl_maxSeq_max, foldl_maxSeq_max, foldl_maxSeq_max]
      omega
    · simp only [List.foldl_cons]; exact ih _

theorem find?_insertSeg_allFull (segs : List MSeg) (s : MSeg) (hs : s.full = false)
    (hfull : ∀ x ∈ segs, x.full = true) : (insertSeg segs s).find? (fun x => !x.full) = some s := by
  induction segs with
  | nil => simp [insertSeg, hs]
  | cons x xs ih =>
    simp only [insertSeg]; split
    · simp [List.find?_cons, hs]
    · rw [List.find?_cons, hfull x List.mem_cons_self]
      exact ih (fun y hy => hfull y (List.mem_cons_of_mem _ hy))

/-- A clean reopen is idempotent, unconditionally (since fix F13: the reopen does not change any
segment; if none is writable it appends a fresh one, which the second reopen finds). -/
theorem reopenClean_idem' (st : MState) : st.reopenClean.reopenClean = st.reopenClean := by
  cases hf : st.segs.find? (fun s => !s.full) with
  | some s0 =>
    have hm := List.mem_of_find?_eq_some hf
    have hb := List.find?_some hf
    exact reopenClean_idem st ⟨s0, hm, by simpa using hb⟩
  | none =>
    have hfull : ∀ x ∈ st.segs, x.full = true := by
      intro x hx; have := List.find?_eq_none.1 hf x hx; simpa using this
    have h1 : st.reopenClean =
        { st with segs := insertSeg st.segs ⟨freeId st.segs (st.segs.length + 1) 0,
                    st.segs.foldl (fun m s => max m s.seq) 0 + 1, [], false⟩,
                  cur := some (freeId st.segs (st.segs.length + 1) 0),
                  maxSeq := st.segs.foldl (fun m s => max m s.seq) 0 + 1 } := by
      rw [reopenClean_eq]
      unfold swapSegment
      have : st.reopenPre.segs = st.segs := rfl
      rw [this, hf]
      rfl
    rw [h1]
    rw [reopenClean_of_find _ _ (find?_insertSeg_allFull st.segs _ rfl hfull)]
    dsimp only
    rw [foldl_maxSeq_insertSeg]
    have : max (st.segs.foldl (fun m s => max m s.seq) 0) (st.segs.foldl (fun m s => max m s.seq) 0 + 1)
        = st.segs.foldl (fun m s => max m s.seq) 0 + 1 := by omega
    rw [this]

/-! ### writeRecord -/

theorem setSeg_cur (st : MState) (s : MSeg) : (st.setSeg s).cur = st.cur := rfl

/-- The state of `writeRecord` just before the append (after a possible roll-over). -/
def wrPre (st : MState) (data : Bytes) : MState :=
  let curSeg := st.cur.bind st.seg?
  let need := match curSeg with
    | none => true
    | some s => s.full || s.size + data.length > st.cfg.maxSeg
  if need then
    let st := match curSeg with
      | some s => st.setSeg { s with full := true }
      | none => st
    st.swapSegment
  else st

theorem writeRecord_eq (st : MState) (data : Bytes) :
    st.writeRecord data =
      match (st.wrPre data).cur.bind (st.wrPre data).seg? with
      | none => (st.wrPre data, 0, 0)
      | some s => ((st.wrPre data).setSeg { s with data := s.data ++ data }, s.id, s.size) := rfl

theorem wrPre_live (st : MState) (data : Bytes) :
    ∃ c s, (st.wrPre data).cur = some c ∧ (st.wrPre data).seg? c = some s := by
  unfold wrPre
  dsimp only
  cases hcur : st.cur.bind st.seg? with
  | none => simp only [if_true]; exact swap_live st
  | some s =>
    dsimp only
    by_cases hn : (s.full || decide (s.size + data.length > st.cfg.maxSeg)) = true
    · rw [if_pos hn]; exact swap_live _
    · rw [if_neg hn]
      cases hc : st.cur with
      | none => simp [hc] at hcur
      | some c =>
        rw [hc] at hcur
        exact ⟨c, s, rfl, hcur⟩

theorem writeRecord_live (st : MState) (data : Bytes) :
    ∃ id, (st.writeRecord data).1.cur = some id ∧ ∃ s ∈ (st.writeRecord data).1.segs, s.id = id := by
  -- the state just before the append has a live current segment
  have key : ∀ st2 : MState, ∀ c s, st2.cur = some c → st2.seg? c = some s →
      ∃ id, (st2.setSeg { s with data := s.data ++ data }).cur = some id ∧
        ∃ x ∈ (st2.setSeg { s with data := s.data ++ data }).segs, x.id = id := by
    intro st2 c s hc hs
    have hmem := List.mem_of_find?_eq_some hs
    have hid : s.id = c := by simpa using List.find?_some hs
    refine ⟨c, hc, { s with data := s.data ++ data }, ?_, hid⟩
    simp only [setSeg, List.mem_map]
    exact ⟨s, hmem, by simp⟩
  obtain ⟨c, s, hc, hs⟩ := wrPre_live st data
  rw [writeRecord_eq, hc, Option.bind_some, hs]
  exact key _ c s hc hs

end MState
end Pogreb
