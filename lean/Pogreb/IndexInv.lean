/-
  Invariant and abstraction of the chain-level index model.
  `kof` gives the key a slot denotes (in the full system: the key bytes of the log record the
  slot points at), `hf` is the hash function. Theorems hold for every `kof`, `hf`, split policy.
-/
import Pogreb.Index
namespace Pogreb

variable {K : Type} [DecidableEq K]

structure Index.Inv (kof : Slot → K) (hf : K → Nat) (idx : Index) : Prop where
  /-- every slot sits in the chain its hash selects -/
  placed : ∀ i, i < idx.chains.length → ∀ sl ∈ (idx.chain i).flatten, idx.bucketIndex sl.hash = i
  /-- the stored hash is the hash of the key -/
  hashed : ∀ sl ∈ idx.slots, sl.hash = hf (kof sl)
  /-- no key has two slots -/
  nodup  : (idx.slots.map kof).Nodup
  /-- the key counter is exact -/
  count  : idx.numKeys = idx.slots.length
  /-- linear-hashing shape -/
  shape  : idx.chains.length = 2 ^ idx.level + idx.split ∧ idx.split < 2 ^ idx.level
  /-- chains are non-empty lists of buckets holding at most 31 slots -/
  small  : ∀ c ∈ idx.chains, c ≠ [] ∧ ∀ b ∈ c, b.length ≤ slotsPerBucket

/-- Abstraction: the slot of a key, if any. -/
def Index.abs (kof : Slot → K) (idx : Index) (k : K) : Option Slot :=
  idx.slots.find? (fun sl => decide (kof sl = k))

/-- Slots only ever stay in their chain or move to the chain appended by a split. -/
def Index.MovesForward (idx idx' : Index) (keep : Slot → Prop) : Prop :=
  idx.numBuckets ≤ idx'.numBuckets ∧
  ∀ i, i < idx.numBuckets → ∀ sl ∈ (idx.chain i).flatten, keep sl →
    sl ∈ (idx'.chain i).flatten ∨
      (idx.numBuckets < idx'.numBuckets ∧ sl ∈ (idx'.chain idx.numBuckets).flatten)

end Pogreb
