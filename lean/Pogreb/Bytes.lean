/-
  Layer 0: bytes and little-endian integers.
  Core Lean only (no Mathlib) so that the driver can be compiled.
-/
namespace Pogreb

abbrev Bytes := List UInt8

/-- `w`-byte little-endian encoding of `n` (truncating, like Go's `uintN(n)` conversion
followed by `binary.LittleEndian.PutUintN`). -/
def leN : Nat → Nat → Bytes
  | 0, _ => []
  | w + 1, n => UInt8.ofNat (n % 256) :: leN w (n / 256)

/-- Little-endian value of a byte string. -/
def rdLE : Bytes → Nat
  | [] => 0
  | b :: bs => b.toNat + 256 * rdLE bs

@[simp] theorem leN_length (w n : Nat) : (leN w n).length = w := by
  induction w generalizing n with
  | zero => rfl
  | succ w ih => simp [leN, ih]

theorem rdLE_leN (w n : Nat) : rdLE (leN w n) = n % 256 ^ w := by
  induction w generalizing n with
  | zero => simp [leN, rdLE, Nat.mod_one]
  | succ w ih =>
    simp only [leN, rdLE, ih]
    have h1 : (UInt8.ofNat (n % 256)).toNat = n % 256 := by
      simp [UInt8.toNat_ofNat']
    rw [h1, Nat.pow_succ, Nat.mul_comm (256 ^ w) 256, Nat.mod_mul]

theorem rdLE_leN_of_lt {w n : Nat} (h : n < 256 ^ w) : rdLE (leN w n) = n := by
  rw [rdLE_leN, Nat.mod_eq_of_lt h]

theorem rdLE_lt (bs : Bytes) : rdLE bs < 256 ^ bs.length := by
  induction bs with
  | nil => simp [rdLE]
  | cons b bs ih =>
    simp only [rdLE, List.length_cons, Nat.pow_succ]
    have := UInt8.toNat_lt b
    omega

/-- `rdLE` is injective on byte strings of equal length. -/
theorem rdLE_inj : ∀ {a b : Bytes}, a.length = b.length → rdLE a = rdLE b → a = b
  | [], [], _, _ => rfl
  | [], _ :: _, h, _ => by simp at h
  | _ :: _, [], h, _ => by simp at h
  | x :: xs, y :: ys, hl, hv => by
    simp only [rdLE] at hv
    have hx := UInt8.toNat_lt x
    have hy := UInt8.toNat_lt y
    have h1 : x.toNat = y.toNat := by omega
    have h2 : rdLE xs = rdLE ys := by omega
    have hl' : xs.length = ys.length := by simpa using hl
    rw [rdLE_inj hl' h2, UInt8.toNat_inj.mp h1]

def le16 (n : Nat) : Bytes := leN 2 n
def le32 (n : Nat) : Bytes := leN 4 n
def le64 (n : Nat) : Bytes := leN 8 n

@[simp] theorem le16_length (n : Nat) : (le16 n).length = 2 := leN_length 2 n
@[simp] theorem le32_length (n : Nat) : (le32 n).length = 4 := leN_length 4 n
@[simp] theorem le64_length (n : Nat) : (le64 n).length = 8 := leN_length 8 n

/-- `n` zero bytes. -/
def zeros (n : Nat) : Bytes := List.replicate n 0

@[simp] theorem zeros_length (n : Nat) : (zeros n).length = n := by simp [zeros]

end Pogreb
