/-
  Theorems about the WAL record reader (`decode`, `scan`).
-/
import Pogreb.Record
namespace Pogreb

def encodeAll (rs : List Rec) : Bytes := rs.flatMap Rec.encode

@[simp] theorem encodeAll_nil : encodeAll [] = [] := rfl
@[simp] theorem encodeAll_cons (r : Rec) (rs : List Rec) :
    encodeAll (r :: rs) = r.encode ++ encodeAll rs := by
  simp [encodeAll]

/-! ### Helpers -/

theorem take_split {α} (l : List α) (a b : Nat) :
    l.take (a + b) = l.take a ++ (l.drop a).take b := by
  induction a generalizing l with
  | zero => simp
  | succ a ih =>
    cases l with
    | nil => simp
    | cons x xs =>
      have : a + 1 + b = (a + b) + 1 := by omega
      rw [this]
      simp [ih]

theorem leN_rdLE (bs : Bytes) : leN bs.length (rdLE bs) = bs := by
  induction bs with
  | nil => rfl
  | cons b bs ih =>
    simp only [List.length_cons, leN, rdLE]
    have hb := UInt8.toNat_lt b
    have h1 : (b.toNat + 256 * rdLE bs) % 256 = b.toNat := by omega
    have h2 : (b.toNat + 256 * rdLE bs) / 256 = rdLE bs := by omega
    rw [h1, h2, ih]
    simp

theorem leN_rdLE' {w : Nat} {bs : Bytes} (h : bs.length = w) : leN w (rdLE bs) = bs := by
  subst h; exact leN_rdLE bs

/-- Everything `decode` guarantees when it accepts. -/
theorem decode_ok_elim {bs : Bytes} {r : Rec} {size : Nat} (h : decode bs = .ok r size) :
    6 ≤ bs.length ∧ size = claimedSize bs ∧ size ≤ bs.length ∧
    rdLE ((bs.drop (size - 4)).take 4) = crc32 (bs.take (size - 4)) ∧
    r = ⟨decide (2 ^ 31 ≤ rdLE ((bs.drop 2).take 4)), (bs.drop 6).take (rdLE (bs.take 2)),
         (bs.drop (6 + rdLE (bs.take 2))).take (rdLE ((bs.drop 2).take 4) % 2 ^ 31)⟩ := by
  unfold decode at h
  split at h <;> try contradiction
  split at h <;> try contradiction
  simp only at h
  split at h <;> try contradiction
  split at h <;> try contradiction
  rename_i h1 h2 h3 h4
  injection h with hr hsz
  subst hsz
  refine ⟨by omega, rfl, by omega, ?_, hr.symm⟩
  exact Decidable.of_not_not h4

/-- `decode` reports corruption when the size is plausible but the checksum is wrong. -/
theorem decode_corrupt {bs : Bytes} (h6 : 6 ≤ bs.length) (hsz : claimedSize bs ≤ bs.length)
    (hc : rdLE ((bs.drop (claimedSize bs - 4)).take 4) ≠ crc32 (bs.take (claimedSize bs - 4))) :
    decode bs = .corrupt := by
  unfold claimedSize at hsz hc
  unfold decode
  rw [if_neg (by omega), if_neg (by omega)]
  simp only
  rw [if_neg (by omega), if_pos hc]

theorem claimedSize_congr {a b : Bytes} (h : a.take 6 = b.take 6) : claimedSize a = claimedSize b := by
  have h2 : ∀ l : Bytes, l.take 2 = (l.take 6).take 2 := by
    intro l; rw [List.take_take]; rfl
  have h4 : ∀ l : Bytes, (l.drop 2).take 4 = (l.take 6).drop 2 := by
    intro l; rw [List.drop_take]
  unfold claimedSize
  rw [h2 a, h2 b, h4 a, h4 b, h]

theorem claimedSize_encode (r : Rec) (rest : Bytes) (hf : r.Fits) :
    claimedSize (r.encode ++ rest) = r.encode.length :=
  ((decode_ok_elim (decode_encode r rest hf)).2.1).symm

theorem rdLE_crc (b : Bytes) : rdLE (le32 (crc32 b)) = crc32 b :=
  rdLE_leN_of_lt (crc32_lt _)

/-! ### Unfolding `scan` -/

theorem scan_ok {bs : Bytes} {r : Rec} {size : Nat} (h : decode bs = .ok r size) (hs : size ≠ 0) :
    scan bs = (r :: (scan (bs.drop size)).1, size + (scan (bs.drop size)).2) := by
  rw [scan]
  split
  · rename_i r' size' h'
    rw [h] at h'
    injection h' with h1 h2
    subst h1 h2
    rw [dif_neg hs]
  · rename_i hne
    exact absurd h (hne r size)

theorem scan_stop {bs : Bytes} (h : ∀ r s, decode bs ≠ .ok r s) : scan bs = ([], 0) := by
  rw [scan]
  split
  · rename_i r' size' h'
    exact absurd h' (h r' size')
  · rfl

/-! ### Size bounds -/

theorem decode_ok_size_le {bs : Bytes} {r : Rec} {size : Nat} (h : decode bs = .ok r size) :
    10 ≤ size ∧ size ≤ bs.length := by
  obtain ⟨_, h2, h3, _, _⟩ := decode_ok_elim h
  refine ⟨?_, h3⟩
  rw [h2]; unfold claimedSize; omega

theorem decode_cases (bs : Bytes) :
    (∃ r s, decode bs = .ok r s) ∨ (∀ r s, decode bs ≠ .ok r s) := by
  cases hd : decode bs with
  | ok r s => exact Or.inl ⟨r, s, rfl⟩
  | _ => right; intro r s h; cases h

theorem scan_len_le (bs : Bytes) : (scan bs).2 ≤ bs.length := by
  generalize hn : bs.length = n
  induction n using Nat.strongRecOn generalizing bs with
  | _ n ih =>
    rcases decode_cases bs with ⟨r, s, h⟩ | h
    · obtain ⟨h10, hle⟩ := decode_ok_size_le h
      rw [scan_ok h (by omega)]
      have := ih (bs.drop s).length (by simp; omega) (bs.drop s) rfl
      simp at this ⊢
      omega
    · rw [scan_stop h]; simp

/-! ### Accepted records are really in the file -/

theorem decode_ok_encode {bs : Bytes} {r : Rec} {size : Nat} (h : decode bs = .ok r size) :
    r.encode = bs.take size ∧ r.Fits := by
  obtain ⟨h6, hsz, hle, hcrc, hr⟩ := decode_ok_elim h
  unfold claimedSize at hsz
  have hk : rdLE (bs.take 2) < 2 ^ 16 := by
    have := rdLE_lt (bs.take 2)
    have hl : (bs.take 2).length = 2 := by simp; omega
    rw [hl] at this; exact this
  have hv : rdLE ((bs.drop 2).take 4) < 2 ^ 32 := by
    have := rdLE_lt ((bs.drop 2).take 4)
    have hl : ((bs.drop 2).take 4).length = 4 := by simp; omega
    rw [hl] at this; exact this
  generalize hkd : rdLE (bs.take 2) = k at *
  generalize hvd : rdLE ((bs.drop 2).take 4) = vraw at *
  have hkl : r.key.length = k := by rw [hr]; simp; omega
  have hvl : r.val.length = vraw % 2 ^ 31 := by rw [hr]; simp; omega
  have hdel : r.del = decide (2 ^ 31 ≤ vraw) := by rw [hr]
  have hfits : r.Fits := by
    unfold Rec.Fits; rw [hkl, hvl]; omega
  refine ⟨?_, hfits⟩
  have e16 : le16 r.key.length = bs.take 2 := by
    rw [hkl, ← hkd]; exact leN_rdLE' (by simp; omega)
  have hvv : r.val.length + (if r.del then 2 ^ 31 else 0) = vraw := by
    rw [hvl, hdel]
    by_cases hc : 2 ^ 31 ≤ vraw
    · simp [hc]; omega
    · simp [hc]; omega
  have e32 : le32 (r.val.length + (if r.del then 2 ^ 31 else 0)) = (bs.drop 2).take 4 := by
    rw [hvv, ← hvd]; exact leN_rdLE' (by simp; omega)
  have ekey : r.key = (bs.drop 6).take k := by rw [hr]
  have eval : r.val = (bs.drop (6 + k)).take (vraw % 2 ^ 31) := by rw [hr]
  have hbody : r.body = bs.take (size - 4) := by
    unfold Rec.body
    rw [e16, e32, ekey, eval]
    have : size - 4 = 2 + 4 + k + vraw % 2 ^ 31 := by omega
    rw [this, take_split _ (2 + 4 + k), take_split _ (2 + 4), take_split _ 2]
  have hsum : le32 (crc32 r.body) = (bs.drop (size - 4)).take 4 := by
    rw [hbody, ← hcrc]; exact leN_rdLE' (by simp; omega)
  unfold Rec.encode
  rw [hsum, hbody]
  have : size = (size - 4) + 4 := by omega
  conv => rhs; rw [this]
  rw [take_split]

theorem scan_prefix (bs : Bytes) : encodeAll (scan bs).1 = bs.take (scan bs).2 := by
  generalize hn : bs.length = n
  induction n using Nat.strongRecOn generalizing bs with
  | _ n ih =>
    rcases decode_cases bs with ⟨r, s, h⟩ | h
    · obtain ⟨h10, hle⟩ := decode_ok_size_le h
      rw [scan_ok h (by omega)]
      have := ih (bs.drop s).length (by simp; omega) (bs.drop s) rfl
      simp only [encodeAll_cons]
      rw [this, take_split, (decode_ok_encode h).1]
    · rw [scan_stop h]; simp

/-! ### Writer/reader agreement -/

theorem scan_encodeAll (rs : List Rec) (tail : Bytes) (hf : ∀ r ∈ rs, r.Fits) :
    scan (encodeAll rs ++ tail) = (rs ++ (scan tail).1, (encodeAll rs).length + (scan tail).2) := by
  induction rs with
  | nil => simp
  | cons r rs ih =>
    have hr : r.Fits := hf r (by simp)
    have ih' := ih (fun r' h' => hf r' (by simp [h']))
    have hd := decode_encode r (encodeAll rs ++ tail) hr
    rw [encodeAll_cons, List.append_assoc, scan_ok hd (by simp)]
    rw [drop_append_len _ _ _ rfl, ih']
    simp [Nat.add_assoc]

theorem decode_strict_prefix (r : Rec) (hf : r.Fits) (n : Nat) (hn : n < r.encode.length) :
    ∀ r' s, decode (r.encode.take n) ≠ .ok r' s := by
  intro r' s h
  obtain ⟨h6, hsz, hle, _, _⟩ := decode_ok_elim h
  have hlen : (r.encode.take n).length = n := by
    rw [List.length_take]; omega
  rw [hlen] at h6 hle
  have hc : claimedSize (r.encode.take n) = claimedSize r.encode := by
    apply claimedSize_congr
    rw [List.take_take, Nat.min_eq_left h6]
  have := claimedSize_encode r [] hf
  rw [List.append_nil] at this
  omega

theorem scan_torn (rs : List Rec) (r : Rec) (n : Nat) (hf : ∀ r ∈ rs, r.Fits) (hr : r.Fits)
    (hn : n < r.encode.length) :
    scan (encodeAll rs ++ r.encode.take n) = (rs, (encodeAll rs).length) := by
  rw [scan_encodeAll rs _ hf, scan_stop (decode_strict_prefix r hr n hn)]
  simp

/-! ### Zero fill -/

theorem crc32_zeros6 : crc32 [0, 0, 0, 0, 0, 0] ≠ 0 := by decide +kernel

theorem decode_zeros (n : Nat) : ∀ r s, decode (zeros n) ≠ .ok r s := by
  intro r s h
  obtain ⟨h6, hsz, hle, hcrc, _⟩ := decode_ok_elim h
  simp only [zeros_length] at h6 hle
  obtain ⟨m, rfl⟩ : ∃ m, n = m + 6 := ⟨n - 6, by omega⟩
  have hz : zeros (m + 6) = [0, 0, 0, 0, 0, 0] ++ zeros m := rfl
  have hs10 : s = 10 := by
    rw [hsz, hz]; simp [claimedSize, rdLE]
  subst hs10
  obtain ⟨m', rfl⟩ : ∃ m', m = m' + 4 := ⟨m - 4, by omega⟩
  have hz' : zeros (m' + 4 + 6) = [0, 0, 0, 0, 0, 0] ++ ([0, 0, 0, 0] ++ zeros m') := rfl
  rw [hz'] at hcrc
  simp [rdLE] at hcrc
  exact crc32_zeros6 hcrc.symm

theorem scan_zeros (rs : List Rec) (n : Nat) (hf : ∀ r ∈ rs, r.Fits) :
    scan (encodeAll rs ++ zeros n) = (rs, (encodeAll rs).length) := by
  rw [scan_encodeAll rs _ hf, scan_stop (decode_zeros n)]
  simp

/-! ### Single-byte damage -/

theorem decode_flip (r : Rec) (hf : r.Fits) (p s : Bytes) (x y : UInt8) (rest : Bytes)
    (he : r.encode = p ++ x :: s) (hp : 6 ≤ p.length) (hxy : x ≠ y) :
    decode (p ++ y :: s ++ rest) = .corrupt := by
  have hL : r.encode.length = p.length + 1 + s.length := by rw [he]; simp; omega
  have hbl : r.body.length + 4 = p.length + 1 + s.length := by
    rw [← hL]; simp [Rec.encode]
  have hcs : claimedSize (p ++ y :: s ++ rest) = p.length + 1 + s.length := by
    rw [← hL, ← claimedSize_encode r [] hf, List.append_nil]
    apply claimedSize_congr
    rw [he, List.append_assoc, List.take_append_of_le_length hp, List.take_append_of_le_length hp]
  apply decode_corrupt
  · simp; omega
  · rw [hcs]; simp; omega
  · rw [hcs]
    have hbl' : p.length + 1 + s.length - 4 = r.body.length := by omega
    rw [hbl']
    by_cases hcase : 4 ≤ s.length
    · -- the changed byte is inside the checksummed body
      have hs : s = s.take (s.length - 4) ++ s.drop (s.length - 4) := (List.take_append_drop _ _).symm
      generalize s.take (s.length - 4) = s1 at hs
      generalize hs2 : s.drop (s.length - 4) = s2 at hs
      have hs2l : s2.length = 4 := by rw [← hs2]; simp; omega
      subst hs
      have he' : r.body ++ le32 (crc32 r.body) = (p ++ x :: s1) ++ s2 := by
        rw [← Rec.encode, he]; simp
      have hbl2 : r.body.length = (p ++ x :: s1).length := by
        simp at hbl ⊢; omega
      obtain ⟨hb, hc⟩ := List.append_inj he' hbl2
      have hre : p ++ y :: (s1 ++ s2) ++ rest = (p ++ y :: s1) ++ (s2 ++ rest) := by simp
      rw [hre, take_append_len _ _ _ (by rw [hbl2]; simp),
        drop_append_len _ _ _ (by rw [hbl2]; simp), take_append_len _ _ _ hs2l.symm]
      rw [← hc, rdLE_crc, hb]
      exact crc32_one_byte p s1 x y hxy
    · -- the changed byte is inside the stored checksum
      have hpl : r.body.length ≤ p.length := by omega
      have hpp : p = p.take r.body.length ++ p.drop r.body.length := (List.take_append_drop _ _).symm
      generalize hp1 : p.take r.body.length = p1 at hpp
      generalize p.drop r.body.length = p2 at hpp
      have hp1l : p1.length = r.body.length := by rw [← hp1, List.length_take]; omega
      subst hpp
      have he' : r.body ++ le32 (crc32 r.body) = p1 ++ (p2 ++ x :: s) := by
        rw [← Rec.encode, he]; simp
      obtain ⟨hb, hc⟩ := List.append_inj he' hp1l.symm
      have hre : p1 ++ p2 ++ y :: s ++ rest = p1 ++ ((p2 ++ y :: s) ++ rest) := by simp
      have h4 : (p2 ++ y :: s).length = 4 := by
        have := congrArg List.length hc
        simp at this ⊢; omega
      rw [hre, take_append_len _ _ _ hp1l.symm, drop_append_len _ _ _ hp1l.symm,
        take_append_len _ _ _ h4.symm]
      rw [← hb, ← rdLE_crc r.body, hc]
      intro heq
      have := rdLE_inj (by simp) heq
      have := List.append_cancel_left this
      injection this with hyx _
      exact hxy hyx.symm

end Pogreb
