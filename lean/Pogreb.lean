-- Root of the `Pogreb` library.
import Pogreb.Bytes
import Pogreb.Crc32
import Pogreb.Record
import Pogreb.RecordThms
import Pogreb.Spec
import Pogreb.Log
import Pogreb.Index
import Pogreb.IndexInv
import Pogreb.IndexThms
import Pogreb.Murmur
import Pogreb.Model
