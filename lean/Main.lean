/-
  Line-protocol driver: re-executes a harness trace on the executable model (`Pogreb.Model`)
  and on the specification (`Pogreb.AList`), and compares every observation of the real
  implementation with both.

  Verdict lines:
    FAIL <class> case=<name> line=<n> <detail>
      class SPEC  : the implementation's observable behaviour contradicts the specification
                    (a concrete failing input of the property itself)
      class INV   : the real index/log violates the model invariant (Inv / AllocInv / abs = spec)
      class MODEL : the implementation and the model disagree on something the theorems are
                    about (segment bytes, current segment, sizes, pick rule, directory)
    INFO ...      : informational differences (exact bucket layout)
    SUMMARY ...   : counters for the evidence file
-/
import Pogreb.Model
import Pogreb.Spec
import Pogreb.BucketCodec
import Pogreb.Lock
import Pogreb.FileIndex
open Pogreb

abbrev SpecMap := AList Bytes Bytes

structure D where
  metaStale : Bool := false
  caseName : String := ""
  lineNo   : Nat := 0
  st       : MState := default
  spec     : SpecMap := AList.empty
  specPrev : SpecMap := AList.empty
  syncSpec : SpecMap := AList.empty
  since    : List (Bytes × Option Bytes) := []   -- writes issued since the last sync point
  comp     : Option MState.CompState := none
  isOpen   : Bool := false
  ambiguous : Bool := false    -- the last write was in flight when the process died
  noLayout : Bool := false     -- the model does not know the index layout (golden directory)
  fidx : FIndex := FIndex.empty      -- file-level shadow of the model index (overflow allocator, free list)
  fidxValid : Bool := false
  flayoutAgree : Nat := 0
  flayoutTotal : Nat := 0
  lockSys : Pogreb.Lock.Sys := Pogreb.Lock.Sys.init
  lockProcs : Nat := 0
  lockSteps : Nat := 0
  concChecks : Nat := 0
  aliasChecks : Nat := 0
  fsdiffChecks : Nat := 0
  inScan : Bool := false
  scanStart : SpecMap := AList.empty
  scanWrites : List (Bytes × Option Bytes) := []
  scanReturned : List (Bytes × Bytes) := []
  scans : Nat := 0
  scansWithWriters : Nat := 0
  inBackup : Bool := false
  backupSpecs : List SpecMap := []
  backups : Nat := 0
  goldenKind : String := ""
  goldenSeed : Nat := 0
  goldens : Nat := 0
  maxSeg   : Nat := 0
  -- counters
  fails    : Nat := 0
  specFails : Nat := 0
  invFails : Nat := 0
  modelFails : Nat := 0
  cases    : Nat := 0
  lines    : Nat := 0
  images   : Nat := 0
  imagesInflightAfter : Nat := 0
  imagesInflightBefore : Nat := 0
  dumps    : Nat := 0
  layoutAgree : Nat := 0
  layoutTotal : Nat := 0
  segChecks : Nat := 0
  maxChain : Nat := 0
  maxBuckets : Nat := 0
  rollovers : Nat := 0
  compactions : Nat := 0
  recoveries : Nat := 0
  holes : Nat := 0
  allocChecks : Nat := 0
  maxAllocRatio : Nat := 0
  tailChecks : Nat := 0
  durChecks : Nat := 0

def hexVal (c : Char) : Option Nat :=
  if '0' ≤ c ∧ c ≤ '9' then some (c.toNat - '0'.toNat)
  else if 'a' ≤ c ∧ c ≤ 'f' then some (c.toNat - 'a'.toNat + 10)
  else if 'A' ≤ c ∧ c ≤ 'F' then some (c.toNat - 'A'.toNat + 10)
  else none

partial def unhexL : List Char → Bytes → Option Bytes
  | [], acc => some acc.reverse
  | a :: b :: rest, acc =>
    match hexVal a, hexVal b with
    | some x, some y => unhexL rest (UInt8.ofNat (16 * x + y) :: acc)
    | _, _ => none
  | _, _ => none

def unhex (s : String) : Option Bytes :=
  if s == "-" then some [] else unhexL s.toList []

def hexDigit (n : Nat) : Char := if n < 10 then Char.ofNat (48 + n) else Char.ofNat (87 + n)

def hex (b : Bytes) : String :=
  if b.isEmpty then "-" else String.ofList (b.flatMap fun x => [hexDigit (x.toNat / 16), hexDigit (x.toNat % 16)])

/-- `k=v` field lookup in a token list. -/
def field (toks : List String) (name : String) : Option String :=
  toks.findSome? fun t =>
    let pre := name ++ "="
    if t.startsWith pre then some ((t.drop pre.length).toString) else none

def fieldNat (toks : List String) (name : String) : Option Nat := (field toks name).bind String.toNat?

def parseItems (s : String) : Option (List (Bytes × Bytes)) :=
  if s == "-" then some [] else
  (s.splitOn ",").mapM fun kv =>
    match kv.splitOn "=" with
    | [k, v] => do let k ← unhex k; let v ← unhex v; pure (k, v)
    | _ => none

def bytesLt : Bytes → Bytes → Bool
  | [], [] => false
  | [], _ :: _ => true
  | _ :: _, [] => false
  | a :: as, b :: bs => if a < b then true else if b < a then false else bytesLt as bs

def sameItems (a b : List (Bytes × Bytes)) : Bool :=
  a.length == b.length && a.all fun (k, v) => (b.find? (·.1 == k)).map (·.2) == some v

def fail (d : D) (cls : String) (msg : String) : IO D := do
  IO.println s!"FAIL {cls} case={d.caseName} line={d.lineNo} {msg}"
  let d := { d with fails := d.fails + 1 }
  pure <| match cls with
    | "SPEC" => { d with specFails := d.specFails + 1 }
    | "INV" => { d with invFails := d.invFails + 1 }
    | _ => { d with modelFails := d.modelFails + 1 }

/-- Parsed observation of an opened image / state. -/
structure Obs where
  err   : Option String
  count : Nat
  n     : Nat
  items : List (Bytes × Bytes)
  dups  : Bool
  bad   : Option String

def parseObs (toks : List String) : Option Obs :=
  match field toks "openerr", field toks "itemserr" with
  | some e, _ => some ⟨some ("openerr=" ++ e), 0, 0, [], false, none⟩
  | _, some e => some ⟨some ("itemserr=" ++ e), 0, 0, [], false, none⟩
  | none, none => do
    let c ← fieldNat toks "count"
    let n ← fieldNat toks "n"
    let its ← (field toks "items").bind parseItems
    pure ⟨none, c, n, its, (field toks "dups").isSome, field toks "bad"⟩

/-- Internal agreement of one observation: Items, Count, Get and Has tell the same story. -/
def obsCoherent (o : Obs) : Option String :=
  match o.err with
  | some e => some e
  | none =>
    if o.dups then some "Items returned a key twice"
    else if o.bad.isSome then some s!"Get/Has disagree with Items ({o.bad.getD ""})"
    else if o.count != o.items.length then some s!"Count={o.count} but Items yields {o.items.length}"
    else none

def checkState (d : D) (toks : List String) (what : String) : IO D := do
  match parseObs toks with
  | none => fail d "MODEL" s!"unparseable observation in {what}"
  | some o =>
    match obsCoherent o with
    | some e => fail d "SPEC" s!"{what}: {e}"
    | none =>
      let mut d := d
      if d.ambiguous then
        -- all-or-nothing of the write that was in flight: adopt whichever the recovery shows
        if !sameItems o.items d.spec.items && sameItems o.items d.specPrev.items then
          d := { d with spec := d.specPrev, since := d.since.drop 1 }
        d := { d with ambiguous := false }
      if !sameItems o.items d.spec.items then
        d ← fail d "SPEC" s!"{what}: contents differ from the specification map (impl {o.items.length} keys, spec {d.spec.items.length})"
      let mi := d.st.items
      if !sameItems mi d.spec.items then
        d ← fail d "MODEL" s!"{what}: model contents differ from the specification map"
      if d.st.count != d.spec.count then
        d ← fail d "MODEL" s!"{what}: model count {d.st.count} vs spec {d.spec.count}"
      pure d

def checkImage (d : D) (toks : List String) : IO D := do
  let d := { d with images := d.images + 1 }
  let kind := toks.getD 1 ""
  let at_ := (field toks "at").getD "?"
  match parseObs toks with
  | none => fail d "MODEL" "unparseable image line"
  | some o =>
    match obsCoherent o with
    | some e => fail d "SPEC" s!"{kind} image at={at_}: {e}"
    | none =>
      if kind == "crash" then
        let mode := (field toks "mode").getD "stable"
        if sameItems o.items d.spec.items then
          pure { d with imagesInflightAfter := d.imagesInflightAfter + (if mode == "inflight" then 1 else 0) }
        else if mode == "inflight" && sameItems o.items d.specPrev.items then
          pure { d with imagesInflightBefore := d.imagesInflightBefore + 1 }
        else
          fail d "SPEC" s!"crash image at={at_} mode={mode}: recovered contents ({o.items.length} keys) are neither the acknowledged state nor acknowledged+in-flight"
      else
        -- power loss: every key holds its value as of the last sync point or one written since
        let keys := (o.items.map (·.1)) ++ (d.syncSpec.items.map (·.1)) ++ (d.since.map (·.1))
        let badKey := keys.find? fun k =>
          let got := (o.items.find? (·.1 == k)).map (·.2)
          let ok := got == d.syncSpec.get k || d.since.any (fun (k', v) => k' == k && v == got)
          !ok
        match badKey with
        | none => pure d
        | some k => fail d "SPEC" s!"power-loss image at={at_}: key {hex k} holds a value that is neither its synced value nor one written since"

/-! ### Index dump -/

/-- Follow one chain; returns buckets, overflow offsets used, and an error. -/
partial def parseChain (main ovf : Bytes) (i : Nat) : List Bucket × List Nat × Option String :=
  let (b0, next, packed) := parseBucket (main.drop (512 * i))
  let rec go (next : Nat) (fuel : Nat) (acc : List Bucket) (offs : List Nat) (err : Option String) :
      List Bucket × List Nat × Option String :=
    if next == 0 then (acc.reverse, offs.reverse, err)
    else if fuel == 0 then (acc.reverse, offs.reverse, some "overflow chain has a cycle")
    else if next % 512 != 0 || next < 512 || next + 512 > 512 + ovf.length then
      (acc.reverse, offs.reverse, some s!"overflow pointer {next} out of range")
    else
      let (b, nx, pk) := parseBucket (ovf.drop (next - 512))
      go nx (fuel - 1) (b :: acc) (next :: offs) (if pk then err else some "bucket not packed")
  go next (ovf.length / 512 + 2) [b0] [] (if packed then none else some "bucket not packed")

def checkDump (d : D) (toks : List String) : IO D := do
  let some level := fieldNat toks "level" | fail d "MODEL" "dump: bad level"
  let some split := fieldNat toks "split" | fail d "MODEL" "dump: bad split"
  let some nb := fieldNat toks "nb" | fail d "MODEL" "dump: bad nb"
  let some nk := fieldNat toks "nk" | fail d "MODEL" "dump: bad nk"
  let some main := (field toks "main").bind unhex | fail d "MODEL" "dump: bad main"
  let some ovf := (field toks "overflow").bind unhex | fail d "MODEL" "dump: bad overflow"
  let free : List Nat := match field toks "free" with
    | some "-" => []
    | some s => (s.splitOn ",").filterMap String.toNat?
    | none => []
  let mut d := { d with dumps := d.dumps + 1 }
  if main.length != 512 * nb then
    d ← fail d "INV" s!"dump: main index holds {main.length} bytes for {nb} buckets"
    return d
  let parsed := (List.range nb).map fun i => parseChain main ovf i
  for (p, i) in parsed.zip (List.range nb) do
    if let some e := p.2.2 then
      d ← fail d "INV" s!"dump: chain {i}: {e}"
  let chains : List Chain := parsed.map (·.1)
  let linked : List Nat := parsed.flatMap (·.2.1)
  let idx : Index := ⟨level, split, chains, nk⟩
  -- AllocInv
  if !(linked.eraseDups.length == linked.length) then
    d ← fail d "INV" "dump: an overflow bucket is linked twice"
  if free.any (fun o => linked.contains o) then
    d ← fail d "INV" "dump: a linked overflow bucket is on the free list"
  if !(free.eraseDups.length == free.length) then
    d ← fail d "INV" "dump: free list holds a bucket twice"
  if free.any (fun o => o % 512 != 0 || o < 512 || o + 512 > 512 + ovf.length) then
    d ← fail d "INV" "dump: free list entry out of range"
  -- Inv
  if !(nb == 2 ^ level + split && split < 2 ^ level) then
    d ← fail d "INV" s!"dump: shape nb={nb} level={level} split={split}"
  let slots := idx.slots
  if slots.length != nk then
    d ← fail d "INV" s!"dump: numKeys={nk} but {slots.length} slots"
  let keyed := slots.map fun sl => (sl, d.st.readKey sl, d.st.readVal sl)
  for (i, c) in (List.range nb).zip chains do
    for sl in c.flatten do
      if idx.bucketIndex sl.hash != i then
        d ← fail d "INV" s!"dump: slot with hash {sl.hash} sits in chain {i}"
  for (sl, k, v) in keyed do
    match k, v with
    | some k, some v =>
      if (murmur32 k d.st.seed).toNat != sl.hash then
        d ← fail d "INV" s!"dump: slot hash {sl.hash} is not the hash of its key {hex k}"
      if d.spec.get k != some v then
        d ← fail d "INV" s!"dump: slot of key {hex k} points at a record whose value is not the specified one"
    | _, _ => d ← fail d "INV" s!"dump: slot points outside the log (seg {sl.seg} off {sl.off})"
  let keys := keyed.filterMap (·.2.1)
  if keys.eraseDups.length != keys.length then
    d ← fail d "INV" "dump: two slots for one key"
  if keys.length != d.spec.count then
    d ← fail d "INV" s!"dump: index holds {keys.length} keys, specification {d.spec.count}"
  -- layout (informational)
  let agree := d.noLayout || (decide (chains = d.st.idx.chains) && level == d.st.idx.level && split == d.st.idx.split)
  if !agree then
    IO.println s!"INFO layout case={d.caseName} line={d.lineNo} real index layout differs from the model's"
  -- file-level layout (informational): overflow placement and free list as the model's allocator predicts
  let fagree := d.fidxValid && !d.noLayout &&
    decide (d.fidx.free = free.map (· / 512)) && d.fidx.ovf.length * 512 == ovf.length &&
    decide (d.fidx.parse.chains = chains)
  let linkedModel := d.fidx.linked
  let fagree := fagree && decide (linkedModel = linked.map (· / 512))
  if d.fidxValid && !d.noLayout && !fagree then
    IO.println s!"INFO flayout case={d.caseName} line={d.lineNo} overflow allocation / free list differ from the file-level model (model free {d.fidx.free}, real {free.map (· / 512)})"
  if d.fidxValid && !d.noLayout then
    d := { d with flayoutAgree := d.flayoutAgree + (if fagree then 1 else 0), flayoutTotal := d.flayoutTotal + 1 }
  let mc := chains.foldl (fun m c => max m c.length) 0
  let holes := chains.foldl (fun n c => n + (c.dropLast.filter (fun b => b.length < 31)).length) 0
  pure { d with layoutAgree := d.layoutAgree + (if agree then 1 else 0), layoutTotal := d.layoutTotal + 1,
                maxChain := max d.maxChain mc, maxBuckets := max d.maxBuckets nb, holes := d.holes + holes }

/-! ### Segments and directory -/

def checkSegs (d : D) (toks : List String) : IO D := do
  let real : List (List Nat) := (toks.drop 1).filterMap fun t =>
    if t == "-" then none else some ((t.splitOn ":").filterMap String.toNat?)
  let model := MState.sortBySeq d.st.segs
  let mut d := { d with segChecks := d.segChecks + 1 }
  if real.length != model.length then
    d ← fail d "MODEL" s!"segs: implementation has {real.length} segments, model {model.length}"
    return d
  for (r0, m) in real.zip model do
    if r0.length == 9 then
      match r0 with
      | [id, _, _, flen, _, _, cur, _, dur] =>
        d := { d with durChecks := d.durChecks + 1 }
        if cur == 0 && dur < flen then
          d ← fail d "MODEL" s!"segs: segment {id} is not current but only {dur} of its {flen} bytes are durable (a full segment must be synced before the log moves on)"
      | _ => pure ()
    let r := r0.take 8
    match r with
    | [id, seq, size, flen, crc, full, cur, dels] =>
      -- MetaInv: the pick rule reads DeleteRecords; it must say whether delete records are present
      if (dels > 0) != MState.hasDelete m then
        d ← fail d "MODEL" s!"segs: segment {id} has DeleteRecords={dels} but {if MState.hasDelete m then "holds" else "holds no"} delete records"
      if size != flen then
        d ← fail d "SPEC" s!"segs: segment {id} in-memory size {size} differs from file length {flen}"
      if id != m.id || seq != m.seq then
        d ← fail d "MODEL" s!"segs: segment id/seq {id}/{seq} vs model {m.id}/{m.seq}"
      else if flen != m.size then
        d ← fail d "MODEL" s!"segs: segment {id} length {flen} vs model {m.size}"
      else if crc != crc32 m.data then
        d ← fail d "MODEL" s!"segs: segment {id} bytes differ from the model's"
      else if (full == 1) != m.full then
        d ← fail d "MODEL" s!"segs: segment {id} full={full} vs model {m.full}"
      else if (cur == 1) != (d.st.cur == some m.id) then
        d ← fail d "MODEL" s!"segs: segment {id} current={cur} vs model cur={d.st.cur}"
      -- independent reader of the documented format accepts the whole file (C18)
      if (scan m.data).2 != m.data.length then
        d ← fail d "MODEL" s!"segs: model segment {id} is not a sequence of valid records"
    | _ => d ← fail d "MODEL" "segs: malformed entry"
  pure d

/-- Garbage of a segment as the model sees it: bytes / number of put records no index slot points at,
plus the bytes of its delete records (`DeletedBytes` / `DeletedKeys` of the segment's metadata). -/
def garbageOf (st : MState) (s : MSeg) : Nat × Nat :=
  (MState.recsWithOffsets s.data).foldl (fun (acc : Nat × Nat) (p : Nat × Rec) =>
    if p.2.del then (acc.1 + p.2.encode.length, acc.2)
    else if st.idx.slots.any (fun sl => sl.seg == s.id && sl.off == p.1) then acc
    else (acc.1 + p.2.encode.length, acc.2 + 1)) (0, 0)

/-- `segmeta id:DeletedBytes:DeletedKeys …` (outside compactions): the statistics that decide which
segments Compact picks must be the garbage actually present (C15: space is reclaimed). -/
def checkSegMeta (d : D) (toks : List String) : IO D := do
  let mut d := d
  if d.comp.isSome || d.metaStale then return d
  for t in toks.drop 1 do
    match (t.splitOn ":").filterMap String.toNat? with
    | [id, db, dk, pr, dr] =>
      match d.st.seg? id with
      | none => pure ()
      | some s =>
        let g := garbageOf d.st s
        if db != g.1 || dk != g.2 then
          d ← fail d "INV" s!"segment {id}: metadata says {db} deleted bytes / {dk} deleted keys, the segment holds {g.1} bytes of garbage / {g.2} dead put records (compaction eligibility is computed from wrong statistics)"
        let recs := (scan s.data).1
        let nDel := (recs.filter (·.del)).length
        if pr != recs.length - nDel || dr != nDel then
          d ← fail d "INV" s!"segment {id}: metadata says {pr} put / {dr} delete records, the segment holds {recs.length - nDel} / {nDel}"
    | _ => d ← fail d "MODEL" "segmeta: malformed entry"
  pure d

def segName (id seq : Nat) : String :=
  let s := toString id
  String.ofList (List.replicate (5 - s.length) '0') ++ s ++ "-" ++ toString seq ++ ".psg"

def checkDir (d : D) (toks : List String) : IO D := do
  let names := match toks.getD 1 "-" with
    | "-" => []
    | s => s.splitOn ","
  let segNames := d.st.segs.map fun s => segName s.id s.seq
  let allowed := ["lock", "main.pix", "overflow.pix", "db.pmt", "index.pmt"] ++ segNames ++ segNames.map (· ++ ".pmt")
  let mut d := d
  for n in names do
    if !allowed.contains n then
      d ← fail d "SPEC" s!"dir: file {n} belongs to no live segment, index, metadata or lock"
  for n in segNames do
    if !names.contains n then
      d ← fail d "SPEC" s!"dir: live segment {n} has no file"
  if d.isOpen && !names.contains "lock" then
    d ← fail d "SPEC" "dir: database open but no lock file"
  if !d.isOpen && names.contains "lock" then
    d ← fail d "SPEC" "dir: database closed but lock file present"
  match fieldNat toks "handles" with
  | some h =>
    let want := if d.isOpen then 2 + d.st.segs.length else 0
    if h != want then
      d ← fail d "SPEC" s!"dir: {h} open file handles, expected {want}"
  | none => pure ()
  pure d

/-! ### Operations -/

def noteWrite (d : D) (k : Bytes) (v : Option Bytes) : D :=
  let d := { d with since := (k, v) :: d.since }
  let d := if d.inScan then { d with scanWrites := (k, v) :: d.scanWrites } else d
  if d.inBackup then { d with backupSpecs := d.spec :: d.backupSpecs } else d

def countRollover (before after : MState) (d : D) : D :=
  if after.segs.length > before.segs.length then { d with rollovers := d.rollovers + 1 } else d

/-- File-level shadow: repoint the slot (hash, seg, off) like `promoteRecord`. -/
def FIndex.repoint (fi : FIndex) (h seg off seg' off' : Nat) : FIndex :=
  let c := fi.chainRefs (bucketIdx fi.level fi.split h)
  match FIndex.findMatch h (fun s => s.off == off && s.seg == seg) c with
  | some (r, b, i) =>
    match b.slots[i]? with
    | some s => fi.write r { b with slots := b.slots.set i { s with seg := seg', off := off' } }
    | none => fi
  | none => fi

/-- Replay of the model's segments into a fresh file-level index (mirrors `reopenRecover`). -/
def shadowRecover (st : MState) : FIndex :=
  (MState.sortBySeq st.segs).foldl (fun fi s =>
    (MState.recsWithOffsets s.data).foldl (fun fi (off, r) =>
      if r.del then fi.delete (st.hashOf r.key) (st.matchKey r.key)
      else
        let sl : Slot := ⟨st.hashOf r.key, s.id, r.key.length % 65536, r.val.length % 4294967296, off⟩
        fi.put loadPolicy sl (st.matchKey r.key)) fi) FIndex.empty

def doPut (d : D) (toks : List String) : IO D := do
  let some k := (toks[1]?).bind unhex | fail d "MODEL" "put: bad key"
  let some v := (toks[2]?).bind unhex | fail d "MODEL" "put: bad value"
  let res := toks.getD 3 ""
  let (st', r) := d.st.put k v
  let want := match r with | .ok => "ok" | .keyTooLarge => "keyTooLarge" | .valueTooLarge => "valueTooLarge"
  let d := countRollover d.st st' d
  let mut d := { d with st := st' }
  if r == .ok then
    d := match st'.idx.get (st'.hashOf k) (st'.matchKey k) with
      | some sl => { d with fidx := d.fidx.put loadPolicy sl (st'.matchKey k) }
      | none => { d with fidxValid := false }
    d := noteWrite { d with specPrev := d.spec, spec := d.spec.put k v } k (some v)
  else
    d := { d with specPrev := d.spec }
  if res != want then
    d ← fail d "SPEC" s!"put {hex k}: implementation returned {res}, specification {want}"
  pure d

def doDel (d : D) (toks : List String) : IO D := do
  let some k := (toks[1]?).bind unhex | fail d "MODEL" "del: bad key"
  let res := toks.getD 2 ""
  let st' := d.st.delete k
  let d := if d.st.has k then { d with fidx := d.fidx.delete (d.st.hashOf k) (d.st.matchKey k) } else d
  let d := countRollover d.st st' d
  let mut d := noteWrite { d with st := st', specPrev := d.spec, spec := d.spec.del k } k none
  if res != "ok" then
    d ← fail d "SPEC" s!"del {hex k}: implementation returned {res}"
  pure d

def doGet (d : D) (toks : List String) (append : Bool) : IO D := do
  let some k := (toks[1]?).bind unhex | fail d "MODEL" "get: bad key"
  let (buf, rest) := if append then ((toks[2]?).bind unhex |>.getD [], toks.drop 3) else ([], toks.drop 2)
  let got : Option (Option Bytes) := match rest with
    | ["none"] => some none
    | ["some", v] => (unhex v).map some
    | _ => none
  let want := (d.spec.get k).map (buf ++ ·)
  let mwant := (d.st.get k).map (buf ++ ·)
  let mut d := d
  match got with
  | none => d ← fail d "SPEC" s!"get {hex k}: implementation returned {rest}"
  | some g =>
    if g != want then
      d ← fail d "SPEC" s!"get {hex k}: implementation returned {g.map hex}, specification {want.map hex}"
  if mwant != want then
    d ← fail d "MODEL" s!"get {hex k}: model returned {mwant.map hex}, specification {want.map hex}"
  pure d

def doHas (d : D) (toks : List String) : IO D := do
  let some k := (toks[1]?).bind unhex | fail d "MODEL" "has: bad key"
  let want := (d.spec.get k).isSome
  let mut d := d
  if toks.getD 2 "" != (if want then "1" else "0") then
    d ← fail d "SPEC" s!"has {hex k}: implementation returned {toks.getD 2 ""}, specification {want}"
  if d.st.has k != want then
    d ← fail d "MODEL" s!"has {hex k}: model {d.st.has k}, specification {want}"
  pure d

def finishCompaction (d : D) : D :=
  match d.comp with
  | none => d
  | some c =>
    let (st, c) := d.st.compactAdvance c
    { d with st := st, comp := some c }

def step (d : D) (line : String) : IO D := do
  let d := { d with lineNo := d.lineNo + 1, lines := d.lines + 1 }
  let toks := (line.splitOn " ").filter (· != "")
  match toks with
  | [] => pure d
  | "case" :: name :: _ =>
    pure { d with caseName := name, cases := d.cases + 1, spec := AList.empty, specPrev := AList.empty,
                  syncSpec := AList.empty, since := [], comp := none, isOpen := false, noLayout := false, ambiguous := false, metaStale := false }
  | "cfg" :: rest =>
    let ms := (fieldNat rest "maxseg").getD 0
    pure { d with maxSeg := ms, st := { (default : MState) with cfg := ⟨ms⟩ } }
  | "tail" :: _ => pure d
  | "panic" :: rest => fail d "SPEC" ("the implementation panicked: " ++ " ".intercalate rest)
  | "concfail" :: rest => fail d "SPEC" (" ".intercalate rest)
  | "concsum" :: rest => pure { d with concChecks := d.concChecks + (fieldNat rest "checks").getD 0 }
  | "aliasfail" :: rest => fail d "SPEC" (" ".intercalate rest)
  | "aliassum" :: rest => pure { d with aliasChecks := d.aliasChecks + (fieldNat rest "checks").getD 0 }
  | "fsdifffail" :: rest => fail d "SPEC" (" ".intercalate rest)
  | "fsdiffsum" :: rest => pure { d with fsdiffChecks := d.fsdiffChecks + (fieldNat rest "checks").getD 0 }
  | "bigvalue" :: rest =>
    -- C16 at the 512 MiB limit (values too large for the Lean driver to hold): lengths and outcomes only
    let len := (fieldNat rest "len").getD 0
    let res := (field rest "res").getD ""
    let want := if len > maxValueLength then "valueTooLarge" else "ok"
    if res != want then fail d "SPEC" s!"put of a {len}-byte value returned {res}, specification {want}"
    else if res == "ok" && (field rest "roundtrip").getD "" != "1" then fail d "SPEC" s!"{len}-byte value does not round-trip"
    else if res != "ok" && (field rest "unchanged").getD "" != "1" then fail d "SPEC" s!"rejected {len}-byte Put changed files or count"
    else pure d
  | "lockinit" :: rest => pure { d with lockSys := Pogreb.Lock.Sys.init, lockProcs := (fieldNat rest "procs").getD 0 }
  | "lk" :: act :: ps :: "->" :: status :: rest =>
    let p := ps.toNat?.getD 0
    let a : Option Pogreb.Lock.Action := match act with
      | "start" => some (.start p) | "sys" => some (.sys p) | "release" => some (.release p) | "crash" => some (.crash p) | _ => none
    match a with
    | none => fail d "MODEL" s!"lk: unknown action {act}"
    | some a =>
      let lockPrev := d.lockSys
      let sys := Pogreb.Lock.step true d.lockSys a
      let want := match sys.pc p with
        | .idle => "idle" | .exclFailed => "parked:lock.stat" | .again => "parked:lock.retry" | .opened _ _ => "parked:lock.open"
        | .locked _ _ => "parked:lock.flock" | .holding e _ => if e then "holding:1" else "holding:0"
        | .failed => "failed" | .unlinked _ => "parked:unlock.remove"
      let mut d := { d with lockSys := sys, lockSteps := d.lockSteps + 1 }
      match lockPrev.pc p, sys.pc p with
      | .locked _ _, .holding e _ =>
        -- `dirty` before the step: the last session did not complete Close
        if lockPrev.dirty && !e then
          d ← fail d "SPEC" s!"lock: process {p} acquired the lock after a session that did not complete Close, but reports acquiredExisting=false (no recovery)"
        else if !lockPrev.dirty && e then
          d ← fail d "SPEC" s!"lock: process {p} reports acquiredExisting=true on a directory whose last session completed Close (spurious recovery: it opened a lock file another opener had just created)"
      | _, _ => pure ()
      match field rest "holders" with
      | some "-" => pure ()
      | some hs =>
        let hn := hs.toNat?.getD 0
        if hn > 1 then
          d ← fail d "SPEC" s!"{hn} openers hold the lock of one directory at once"
        let mh := ((List.range (d.lockProcs + 1)).filter fun q => Pogreb.Lock.isHolding sys q).length
        if hn != mh then
          d ← fail d "MODEL" s!"lock: {hn} holders, model {mh}"
      | none => pure ()
      match field rest "path" with
      | some "1" => if !sys.path.isSome then d ← fail d "MODEL" "lock: path exists, model says it does not"
      | some "0" => if sys.path.isSome then d ← fail d "MODEL" "lock: path missing, model says it exists"
      | _ => pure ()
      if status != want then
        let cls := if status.startsWith "holding" || want.startsWith "holding" then "SPEC" else "MODEL"
        d ← fail d cls s!"lock: process {p} after {act} is {status}, the protocol model says {want}"
      pure d
  | "scanbegin" :: _ =>
    pure { d with inScan := true, scanStart := d.spec, scanWrites := [], scanReturned := [], scans := d.scans + 1 }
  | "next" :: rest =>
    match rest with
    | [kh, vh] =>
      match unhex kh, unhex vh with
      | some k, some v =>
        let truthful := d.scanStart.get k == some v || d.scanWrites.any (fun (k', v') => k' == k && v' == some v)
        let d := { d with scanReturned := (k, v) :: d.scanReturned }
        if !truthful then fail d "SPEC" s!"scan returned {hex k}={hex v}, a value that key never had during the scan"
        else pure d
      | _, _ => fail d "MODEL" "next: bad hex"
    | _ => fail d "SPEC" s!"scan: Next failed: {rest}"
  | "scanend" :: rest =>
    let mut d := { d with inScan := false }
    if d.scanWrites.length > 0 then d := { d with scansWithWriters := d.scansWithWriters + 1 }
    if fieldNat rest "donesticky" != some 1 then
      d ← fail d "SPEC" "scan: Next after ErrIterationDone returned something else"
    for (k, v) in d.scanStart.items do
      if !(d.scanWrites.any (·.1 == k)) then
        let hits := d.scanReturned.filter (·.1 == k)
        if hits.isEmpty then
          d ← fail d "SPEC" s!"scan missed key {hex k}, present and unchanged during the whole scan"
        else if hits.any (·.2 != v) then
          d ← fail d "SPEC" s!"scan returned a wrong value for the unchanged key {hex k}"
        else if d.scanWrites.isEmpty && hits.length != 1 then
          d ← fail d "SPEC" s!"quiescent scan returned key {hex k} {hits.length} times"
    if d.scanWrites.isEmpty && d.scanReturned.length != d.scanStart.count then
      d ← fail d "SPEC" s!"quiescent scan returned {d.scanReturned.length} pairs for {d.scanStart.count} live keys"
    pure d
  | "bbegin" :: _ => pure { d with inBackup := true, backupSpecs := [d.spec], backups := d.backups + 1 }
  | "bend" :: res :: _ =>
    let d := { d with inBackup := false }
    if res != "ok" then fail d "SPEC" s!"backup returned {res}" else pure d
  | "bstate" :: rest =>
    match parseObs rest with
    | none => fail d "MODEL" "unparseable bstate"
    | some o =>
      match obsCoherent o with
      | some e => fail d "SPEC" s!"backup directory: {e}"
      | none =>
        if d.backupSpecs.any (fun m => sameItems o.items m.items) then pure d
        else fail d "SPEC" s!"backup holds {o.items.length} keys: not the contents at any instant between Backup's call and return"
  | "failedopen" :: _ => pure d
  | "failedclose" :: rest =>
    -- a Close that returned an error did not complete: the session is unclean, the lock file stays
    let d := { d with isOpen := false, specPrev := d.spec }
    if (field rest "lock").getD "" != "1" then
      fail d "SPEC" "a failed Close removed the lock file: the unclean shutdown will not be detected by the next Open"
    else pure d
  | "bcompact" :: res :: _ =>
    -- Compact called while Backup runs: the maintenance lock must refuse it
    if res == "busy" then pure d
    else fail d "MODEL" s!"Compact returned {res} while a Backup was in progress (maintenance tasks must exclude each other)"
  | "gexpect" :: rest =>
    match (field rest "items").bind parseItems with
    | none => fail d "MODEL" "gexpect: bad items"
    | some its =>
      pure { d with spec := ⟨its⟩, specPrev := ⟨its⟩, goldenKind := (field rest "kind").getD "", goldenSeed := (fieldNat rest "seed").getD 0,
                    noLayout := true, goldens := d.goldens + 1 }
  | "gopen" :: rest =>
    let res := (field rest "res").getD ""
    if res != "ok" then fail d "SPEC" s!"golden directory ({d.goldenKind}) written by the pinned version does not open: {res}"
    else
      let seed := (fieldNat rest "seed").getD 0
      if d.goldenKind == "clean" then
        let d := { d with st := { d.st with seed := UInt32.ofNat seed }, isOpen := true }
        if seed != d.goldenSeed then
          fail d "SPEC" "cleanly closed golden directory was not opened as such (hash seed differs: recovery ran or metadata lost)"
        else pure d
      else
        pure { d with st := d.st.reopenRecover (UInt32.ofNat seed), isOpen := true, noLayout := false, recoveries := d.recoveries + 1 }
  | "gstate" :: rest =>
    match parseObs rest with
    | none => fail d "MODEL" "unparseable gstate"
    | some o =>
      match obsCoherent o with
      | some e => fail d "SPEC" s!"golden directory: {e}"
      | none =>
        if !sameItems o.items d.spec.items then
          fail d "SPEC" s!"golden directory opens with {o.items.length} keys / different values, expected {d.spec.items.length}"
        else pure d
  | "gput" :: res :: _ => if res != "ok" then fail d "SPEC" s!"put into golden directory: {res}" else pure d
  | "gclose" :: res :: _ => if res != "ok" then fail d "SPEC" s!"close of golden directory: {res}" else pure { d with isOpen := false }
  | "gopen2" :: rest =>
    if (field rest "res").getD "" != "ok" then fail d "SPEC" "golden directory does not reopen after a write"
    else if fieldNat rest "count" != some (d.spec.count + 1) || (field rest "after").getD "" != "31" then
      fail d "SPEC" "golden directory: contents wrong after write, close, reopen"
    else pure d
  | "goldenerr" :: _ => fail d "MODEL" "golden corpus unreadable"
  | "alloc" :: rest =>
    -- C19: memory requested by the recovering Open is bounded by the bytes on disk
    let bytes := (fieldNat rest "bytes").getD 0
    let fb := (fieldNat rest "filebytes").getD 0
    let d := { d with allocChecks := d.allocChecks + 1, maxAllocRatio := max d.maxAllocRatio (bytes / (fb + 1)) }
    if bytes > 16 * fb + 16 * 1024 * 1024 then
      fail d "SPEC" s!"recovery allocated {bytes} bytes for {fb} bytes on disk"
    else pure d
  | "rstate" :: rest =>
    -- recovered state of a damaged image: the oracle is the model's validating reader
    match parseObs rest with
    | none => fail d "MODEL" "unparseable rstate"
    | some o =>
      match obsCoherent o with
      | some e => fail d "SPEC" s!"recovered state: {e}"
      | none =>
        let mi := d.st.items
        let d := { d with spec := ⟨mi⟩, specPrev := ⟨mi⟩, syncSpec := ⟨mi⟩, since := [], ambiguous := false, tailChecks := d.tailChecks + 1 }
        if !sameItems o.items mi then
          fail d "SPEC" s!"recovery replayed {o.items.length} keys, the validating reader of the documented format accepts {mi.length}"
        else pure d
  | "open" :: rest =>
    let kind := (field rest "kind").getD ""
    let res := (field rest "res").getD ""
    if res != "ok" then
      fail d "SPEC" s!"open kind={kind} failed: {res}"
    else
      let seed := UInt32.ofNat ((fieldNat rest "seed").getD 0)
      let st := match kind with
        | "fresh" => MState.init d.maxSeg seed
        | "clean" => { d.st.reopenClean with seed := seed }
        | _ => d.st.reopenRecover seed
      let d := if kind == "recover" then { d with recoveries := d.recoveries + 1, metaStale := false } else d
      let d := if kind == "fresh" then { d with metaStale := false } else d
      let d := match kind with
        | "fresh" => { d with fidx := FIndex.empty, fidxValid := true }
        | "clean" => d
        | _ => { d with fidx := shadowRecover st, fidxValid := true }
      let mut d := { d with st := st, isOpen := true, specPrev := if d.ambiguous then d.specPrev else d.spec }
      if kind == "clean" && seed != d.st.seed then
        d ← fail d "MODEL" "open: hash seed changed across a clean restart"
      pure d
  | "put" :: _ => doPut d toks
  | "del" :: _ => doDel d toks
  | "get" :: _ => doGet d toks false
  | "getappend" :: _ => doGet d toks true
  | "has" :: _ => doHas d toks
  | "count" :: n :: _ =>
    let mut d := d
    if n.toNat? != some d.spec.count then
      d ← fail d "SPEC" s!"count: implementation {n}, specification {d.spec.count}"
    if d.st.count != d.spec.count then
      d ← fail d "MODEL" s!"count: model {d.st.count}, specification {d.spec.count}"
    pure d
  | "state" :: rest => checkState d rest "state"
  | "sync" :: res :: _ =>
    let d := { d with specPrev := d.spec }
    if res != "ok" then fail d "SPEC" s!"sync returned {res}" else pure d
  | "syncpoint" :: _ => pure { d with syncSpec := d.spec, since := [] }
  | "close" :: res :: _ =>
    let d := { d with isOpen := false, specPrev := d.spec }
    if res != "ok" then fail d "SPEC" s!"close returned {res}" else pure d
  | "kill" :: rest => pure { d with isOpen := false, comp := none, ambiguous := rest.contains "torn" }
  | "adopt" :: files =>
    -- continue from a crash image: the model takes over the segment files as they are
    let segs := files.filterMap fun t =>
      match t.splitOn ":" with
      | [name, hx] =>
        match name.splitOn "-", unhex hx with
        | [a, b], some data =>
          match a.toNat?, b.toNat? with
          | some id, some seq => some (⟨id, seq, data, false⟩ : MSeg)
          | _, _ => none
        | _, _ => none
      | _ => none
    let sorted := segs.foldl (fun acc s => MState.insertSeg acc s) []
    pure { d with st := { d.st with segs := sorted, cur := none }, fidxValid := false }
  | "cbegin" :: rest =>
    let picked : List Nat := match field rest "pick" with
      | some "-" => []
      | some s => (s.splitOn ",").filterMap String.toNat?
      | none => []
    let mut d := { d with specPrev := d.spec }
    if !d.st.pickOK picked then
      d ← fail d "MODEL" s!"compaction picked {picked}: not oldest-first / a segment with delete records without all older ones"
    let (st, c) := d.st.compactBegin picked
    pure { d with st := st, comp := some c, compactions := d.compactions + (if picked.isEmpty then 0 else 1) }
  | "yield" :: point :: _ =>
    match d.comp with
    | none => pure d
    | some c =>
      if point == "compact.sealed" then
        pure (finishCompaction d)
      else if point == "compact.record" then
        let (st, c') := d.st.compactRecord c
        -- shadow: if the record was promoted, the slot that pointed at (src, off) now points elsewhere
        let d := match c.source, c.todo with
          | some src, (off, r) :: _ =>
            if r.del then d else
            match st.idx.get (st.hashOf r.key) (st.matchKey r.key) with
            | some sl =>
              if (d.st.idx.repoint (d.st.hashOf r.key) src off src off).isSome then
                { d with fidx := FIndex.repoint d.fidx (d.st.hashOf r.key) src off sl.seg sl.off }
              else d
            | none => d
          | _, _ => d
        pure { d with st := st, comp := some c' }
      else pure d
  | "cend" :: res :: rest =>
    let d := finishCompaction d
    let n := (fieldNat rest "n").getD 0
    let mut d := { d with comp := none, specPrev := d.spec }
    if res != "ok" then
      d ← fail d "SPEC" s!"compact returned {res}"
    let _ := n
    pure d
  | "staleclose" :: res :: _ =>
    if res == "ok" || res == "panic" then fail d "SPEC" s!"a second Close of a closed handle returned {res}" else pure d
  | "afterclose" :: rest =>
    -- operations on a closed handle (C10): no success for writers, no panic, no trace in the directory
    let put := (field rest "put").getD ""
    let del := (field rest "del").getD ""
    let mut d := d
    if put == "ok" || del == "ok" then
      d ← fail d "SPEC" s!"a write on a closed database succeeded (put={put} del={del})"
    if rest.any (fun t => (t.splitOn "=").getD 1 "" |>.startsWith "panic") then
      d ← fail d "SPEC" s!"an operation on a closed database panicked: {" ".intercalate rest}"
    if (field rest "dirsame").getD "" != "1" || (fieldNat rest "handles").getD 0 != 0 then
      d ← fail d "SPEC" s!"operations that failed on a closed database changed its directory or left files open: {" ".intercalate rest}"
    pure d
  | "caborted" :: _ =>
    -- Close won the race with this compaction: it stops where it was (whatever it returns). The records it
    -- had copied are garbage in the source now without the source's statistics knowing (until a recovery)
    pure { d with comp := none, specPrev := d.spec, metaStale := true }
  | "segs" :: _ => checkSegs d toks
  | "segmeta" :: _ => checkSegMeta d toks
  | "dir" :: _ => checkDir d toks
  | "dump" :: rest => checkDump d rest
  | "image" :: _ => checkImage d toks
  | "end" :: _ => pure d
  | "stats" :: _ => do IO.println s!"HARNESS {line}"; pure d
  | _ => fail d "MODEL" s!"unknown line: {(line.take 60).toString}"

partial def loop (h : IO.FS.Stream) (d : D) : IO D := do
  let line ← h.getLine
  if line.isEmpty then return d
  let d ← step d (line.trimAscii.toString)
  loop h d

def main : IO UInt32 := do
  let d ← loop (← IO.getStdin) {}
  IO.println s!"SUMMARY cases={d.cases} lines={d.lines} fails={d.fails} spec_fails={d.specFails} inv_fails={d.invFails} model_fails={d.modelFails} images={d.images} inflight_after={d.imagesInflightAfter} inflight_before={d.imagesInflightBefore} dumps={d.dumps} layout_agree={d.layoutAgree}/{d.layoutTotal} flayout_agree={d.flayoutAgree}/{d.flayoutTotal} seg_checks={d.segChecks} max_chain={d.maxChain} max_buckets={d.maxBuckets} rollovers={d.rollovers} compactions={d.compactions} recoveries={d.recoveries} holes={d.holes} alloc_checks={d.allocChecks} max_alloc_ratio={d.maxAllocRatio} tail_checks={d.tailChecks} dur_checks={d.durChecks} goldens={d.goldens} scans={d.scans} scans_with_writers={d.scansWithWriters} backups={d.backups} lock_steps={d.lockSteps} conc_checks={d.concChecks} alias_checks={d.aliasChecks} fsdiff_checks={d.fsdiffChecks}"
  return (if d.fails == 0 then 0 else 1)
