#!/bin/bash
# usage: collect_round.sh <worktree-root> <round-number> <id>...  -- copy MUTATION.diff/demo/notes of finished agents into seeded/, verify
root=$1; rnd=$2; shift 2
for id in "$@"; do
  w=$root/$id; d=/verif/seeded/agent-$id-$rnd
  [ -f $w/MUTATION.diff ] && [ -f $w/zz_demo_test.go ] || { echo "$id: not ready"; continue; }
  mkdir -p $d; cp $w/MUTATION.diff $d/patch.diff; cp $w/zz_demo_test.go $d/; cp $w/NOTES.md $d/ 2>/dev/null
  /verif/tools/verify_seed.sh $d | tail -1
done
