#!/bin/bash
# usage: run_all_quick.sh [tier] [parallel] [seed]  -- every check on the current tree, summary lines only
tier=${1:-quick}; par=${2:-4}; seed=${3:-}
cd "$(dirname "$(readlink -f "$0")")/.."
O=out/sweep_${tier}${seed:+_$seed}; mkdir -p $O evidence
[ -n "$seed" ] && export VERIF_SEED=$seed
printf '%s\n' C01 C02 C03 C04 C05 C06 C07 C08 C09 C10 C11 C12 C13 C14 C15 C16 C17 C18 C19 | \
  xargs -P $par -I{} sh -c "./check {} $tier > $O/{}.out 2>&1; echo \"{} rc=\$? \$(grep -E '^(OK|VIOLATION|KNOWN-FINDING)' $O/{}.out | head -3 | tr '\n' ' ')\""
