#!/bin/bash
# usage: run_seeded.sh <seed-dir> [prop] [tier]
# Applies the patch to a scratch worktree of /repo, runs the check from a scratch copy of /verif
# against it (VERIF_REPO), removes both. /repo and /verif are not touched.
d=$(readlink -f "$1"); name=$(basename $d)
prop=${2:-$(python3 -c "import json;print(json.load(open('$d/meta.json'))['property'])")}
tier=${3:-quick}
S=/tmp/sr_$name; rm -rf $S; mkdir -p $S
git -C /repo worktree remove --force $S/repo 2>/dev/null
git -C /repo worktree add -q --detach $S/repo HEAD || exit 2
git -C $S/repo apply $d/patch.diff || { echo "$name: patch does not apply"; git -C /repo worktree remove --force $S/repo; exit 2; }
rsync -a --exclude .git --exclude out --exclude evidence --exclude seeded /verif/ $S/verif/
sed -i "s#=> /repo#=> $S/repo#" $S/verif/go/go.mod
rm -f $S/verif/go/bin/harness $S/verif/go/bin/harness.fp
(cd $S/verif && VERIF_REPO=$S/repo timeout 3000 ./check $prop $tier > /tmp/seed_$name.out 2>&1); rc=$?
mkdir -p /verif/out/seeded_replays; cp $S/verif/out/replay/$prop-* /verif/out/seeded_replays/ 2>/dev/null
git -C /repo worktree remove --force $S/repo; rm -rf $S
echo "$name prop=$prop rc=$rc $(grep -c VIOLATION /tmp/seed_$name.out) violation(s): $(grep -m1 '^# ' /tmp/seed_$name.out | cut -c1-200) $(grep -m1 -o 'no-failing-input-found' /tmp/seed_$name.out)"
