#!/bin/bash
# usage: run_seeded.sh <seed-dir> [prop] [tier]  -- applies the patch to /repo, runs the check, restores /repo
d=$(readlink -f "$1"); name=$(basename $d)
prop=${2:-$(python3 -c "import json;print(json.load(open('$d/meta.json'))['property'])")}
tier=${3:-quick}
cd /repo && git diff --quiet || { echo "/repo dirty"; exit 2; }
git -C /repo apply $d/patch.diff || exit 2
cd /verif && timeout 3000 ./check $prop $tier > /tmp/seed_$name.out 2>&1; rc=$?
git -C /repo checkout -- . 
echo "$name prop=$prop rc=$rc $(grep -c VIOLATION /tmp/seed_$name.out) violation(s): $(grep -m1 '^# ' /tmp/seed_$name.out | cut -c1-200)"
