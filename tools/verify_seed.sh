#!/bin/bash
# usage: verify_seed.sh <seeded-dir>   -- confirms (a) suite passes with patch, (b) demo fails with patch, (c) demo passes without
set -u
d=$(readlink -f "$1"); name=$(basename "$d")
export GOFLAGS=-mod=mod GOPROXY=off GOSUMDB=off
wt=/tmp/vs_$name
git -C /repo worktree remove --force $wt 2>/dev/null
git -C /repo worktree add -q --detach $wt HEAD || exit 2
cd $wt
tags=""; grep -q 'go:build verif' $d/zz_demo_test.go && tags="-tags verif"
cp $d/zz_demo_test.go .
c=$(go test $tags -vet=off -count=1 -run 'TestZZDemo' . >/tmp/vs_$name.c.log 2>&1; echo $?)
git apply $d/patch.diff || { echo "$name: patch does not apply"; exit 2; }
b=$(go test $tags -vet=off -count=1 -run 'TestZZDemo' . >/tmp/vs_$name.b.log 2>&1; echo $?)
rm zz_demo_test.go
go build ./... && go build -tags verif ./... || { echo "$name: build fails"; }
a=$(go test -vet=off -count=1 ./... >/tmp/vs_$name.a.log 2>&1; echo $?)
cd /; git -C /repo worktree remove --force $wt
echo "$name: suite_with_patch=$a (want 0) demo_with_patch=$b (want 1) demo_without=$c (want 0)"
