#!/bin/bash
# builds /verif/seeded/revert-<F>/ from the fix commits of /repo: patch.diff = the reverse of the fix
set -e
cd /repo
declare -A T=( [F1]="index put must search" [F2]="recovery must update the segment size" [F3]="removeSegment must remove" [F4]="Sync must not fail after compaction" [F5]="do not allocate a record buffer" [F6]="seal segments picked" [F7]="sync a full segment before switching" [F8]="sync the current segment before compaction removes" [F9]="Close must sync the index" [F11]="make the newest segment current" )
declare -A P=( [F1]=C01 [F2]=C04 [F3]=C15 [F4]=C15 [F5]=C19 [F6]=C05 [F7]=C06 [F8]=C06 [F9]=C09 [F11]=C06 )
for f in "${!T[@]}"; do
  c=$(git log --format=%h --grep="fix: ${T[$f]}" | head -1)
  [ -n "$c" ] || { echo "no commit for $f"; exit 1; }
  d=/verif/seeded/revert-$f; mkdir -p $d
  git diff $c $c~1 > $d/patch.diff
  git apply --check $d/patch.diff
  t=$(grep -o "func Test${f}_[A-Za-z]*" /verif/go/demos/defects_test.go | sed 's/func //')
  cat > $d/meta.json <<EOT
{"id": "revert-$f", "property": "${P[$f]}", "origin": "reverse of fix commit $c ($(git log --format=%s -1 $c | sed 's/"/\\"/g'))",
 "needs": "see the test $t in /verif/go/demos/defects_test.go (the history that exposed the defect on the pinned tree)",
 "demo": "cd /verif/go && go test -tags verif -count=1 -run '^$t\$' ./demos/   (module replace => tree under test)",
 "confirmed": "tools/verify_revert.sh: suite passes with patch, demo fails with patch, demo passes without"}
EOT
done
ls /verif/seeded
