#!/bin/bash
# usage: verify_revert.sh <seeded/revert-Fx>
set -u
d=$(readlink -f "$1"); name=$(basename "$d"); f=${name#revert-}
export GOFLAGS=-mod=mod GOPROXY=off GOSUMDB=off
wt=/tmp/vr_$name
git -C /repo worktree remove --force $wt 2>/dev/null
git -C /repo worktree add -q --detach $wt HEAD || exit 2
t=$(grep -oh "func Test${f}_[A-Za-z]*" /verif/go/demos/*_test.go | sed 's/func //')
sed "s#=> /repo#=> $wt#" /verif/go/go.mod > /tmp/vr_$name.mod; : > /tmp/vr_$name.sum
cd /verif/go
c=$(go test -modfile=/tmp/vr_$name.mod -tags verif -count=1 -run "^$t\$" ./demos/ >/tmp/vr_$name.c.log 2>&1; echo $?)
git -C $wt apply $d/patch.diff || { echo "$name: patch does not apply"; exit 2; }
b=$(go test -modfile=/tmp/vr_$name.mod -tags verif -count=1 -run "^$t\$" ./demos/ >/tmp/vr_$name.b.log 2>&1; echo $?)
a=$(cd $wt && go build ./... && go build -tags verif ./... && go test -vet=off -count=1 ./... >/tmp/vr_$name.a.log 2>&1; echo $?)
cd /; git -C /repo worktree remove --force $wt; rm -f /tmp/vr_$name.mod /tmp/vr_$name.sum
echo "$name ($t): suite_with_patch=$a (want 0) demo_with_patch=$b (want 1) demo_without=$c (want 0)"
