#!/bin/bash
# usage: [HL_PROPS="C02 C17"] run_harmless.sh <n>   -- runs every quick check against /repo + harmless/<n>.diff (scratch copies)
n=$1; S=/tmp/hl_$n; rm -rf $S; mkdir -p $S
git -C /repo worktree add -q --detach $S/repo HEAD || exit 2
git -C $S/repo apply /verif/harmless/$n.diff || { echo "harmless $n: patch does not apply"; git -C /repo worktree remove --force $S/repo; exit 2; }
rsync -a --exclude .git --exclude out --exclude evidence --exclude seeded /verif/ $S/verif/
sed -i "s#=> /repo#=> $S/repo#" $S/verif/go/go.mod
rm -f $S/verif/go/bin/harness $S/verif/go/bin/harness.fp
res=""
for p in ${HL_PROPS:-C01 C02 C03 C04 C05 C06 C07 C08 C09 C10 C11 C12 C13 C14 C15 C16 C17 C18 C19}; do
  (cd $S/verif && VERIF_REPO=$S/repo timeout 3000 ./check $p quick > $S/$p.out 2>&1); rc=$?
  if [ $rc -ne 0 ]; then res="$res $p[$(grep -m1 '^# ' $S/$p.out | cut -c1-160)]"; fi
done
git -C /repo worktree remove --force $S/repo; rm -rf $S
echo "harmless $n: alarms:${res:- none}"
