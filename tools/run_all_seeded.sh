#!/bin/bash
# runs every seeded mutation through its property's quick check; results in out/seeded_results.txt
cd /verif; mkdir -p out; : > out/seeded_results.txt
for d in seeded/*/; do
  tools/run_seeded.sh $d >> out/seeded_results.txt 2>&1
done
echo done >> out/seeded_results.txt
