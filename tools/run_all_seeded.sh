#!/bin/bash
# runs every seeded mutation (or those matching $1) through its property's quick check, 4 at a time
cd /verif; mkdir -p out; : > out/seeded_results.txt
ls -d seeded/*${1:-}*/ | xargs -P 4 -I{} sh -c 'tools/run_seeded.sh {} >> out/seeded_results.txt 2>&1'
echo done >> out/seeded_results.txt
