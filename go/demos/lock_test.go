//go:build verif

package demos

import (
	"os"
	"path/filepath"
	"testing"

	"github.com/akrylysov/pogreb"
	"github.com/akrylysov/pogreb/fs"
)

// F10 (C13): an opener that opened the lock file before the owner released it must not end up
// holding a lock on the unlinked file while a third opener locks a fresh one.
func TestF10_LockOnUnlinkedInode(t *testing.T) {
	dir := t.TempDir()
	name := filepath.Join(dir, "lock")
	l1, _, err := fs.OS.CreateLockFile(name, 0644)
	if err != nil {
		t.Fatal(err)
	}
	parked := make(chan struct{})
	resume := make(chan struct{})
	first := true
	fs.VerifSetYield(func(p string) {
		if p == "lock.open" && first {
			first = false
			close(parked)
			<-resume
		}
	})
	defer fs.VerifSetYield(nil)
	type res struct {
		l        fs.LockFile
		existing bool
		err      error
	}
	done := make(chan res)
	go func() {
		l, e, err := fs.OS.CreateLockFile(name, 0644) // P2: stat, open, (parked), flock
		done <- res{l, e, err}
	}()
	<-parked
	if err := l1.Unlock(); err != nil { // P1 completes a clean Close
		t.Fatal(err)
	}
	close(resume)
	r2 := <-done
	l3, _, err3 := fs.OS.CreateLockFile(name, 0644) // P3
	holders := 0
	if r2.err == nil {
		holders++
	}
	if err3 == nil {
		holders++
	}
	if holders > 1 {
		t.Errorf("two openers hold the lock of %s at once (P2 err=%v, P3 err=%v)", name, r2.err, err3)
	}
	if r2.err == nil && r2.existing {
		t.Errorf("P2 acquired the lock after a clean release but reports acquiredExisting=true")
	}
	if r2.err == nil {
		if _, err := os.Stat(name); err != nil {
			t.Errorf("P2 holds the lock but the lock file does not exist: %v", err)
		}
		_ = r2.l.Unlock()
	}
	if err3 == nil {
		_ = l3.Unlock()
	}
}

// F12 (C10): FileSize / Backup running alongside writers on fs.Mem must not race
// (run with -race; without the fix the race detector fails this test).
func TestF12_MemFSConcurrentUse(t *testing.T) {
	db, err := pogreb.Open("f12-"+t.Name(), &pogreb.Options{FileSystem: fs.Mem})
	if err != nil {
		t.Fatal(err)
	}
	defer db.Close()
	done := make(chan struct{})
	go func() {
		defer close(done)
		for i := 0; i < 2000; i++ {
			_ = db.Put([]byte{byte(i), byte(i >> 8)}, make([]byte, 100))
		}
	}()
	for i := 0; i < 200; i++ {
		if _, err := db.FileSize(); err != nil {
			t.Fatal(err)
		}
	}
	<-done
}
