//go:build verif

package demos

import (
	"os"
	"path/filepath"
	"sync"
	"sync/atomic"
	"testing"

	"github.com/akrylysov/pogreb"
	"github.com/akrylysov/pogreb/fs"
)

// F17 (C13): whether the lock file "existed already" (= the previous session was not closed) must not be
// decided by a stat taken before the file is opened. An opener parked inside its acquisition while
// another process runs a whole session and dies must still report the unclean shutdown.
func TestF17_UncleanSessionDuringAnAcquisitionIsDetected(t *testing.T) {
	dir := t.TempDir()
	path := filepath.Join(dir, "lock")
	parked := make(chan struct{})
	resume := make(chan struct{})
	var first int32
	fs.VerifSetYield(func(point string) {
		if atomic.CompareAndSwapInt32(&first, 0, 1) { // first yield point of the first acquisition, whatever it is called
			close(parked)
			<-resume
		}
	})
	defer fs.VerifSetYield(nil)
	type res struct {
		existed bool
		err     error
	}
	done := make(chan res, 1)
	go func() {
		lk, existed, err := fs.OS.CreateLockFile(path, 0640)
		_ = lk
		done <- res{existed, err}
	}()
	<-parked
	// another process: acquires the lock, works, and dies (descriptor closed by the OS, file stays)
	lk2, _, err := fs.OS.CreateLockFile(path, 0640)
	if err != nil {
		close(resume)
		<-done
		t.Skipf("the second opener did not get the lock at this yield point: %v", err)
	}
	if c, ok := lk2.(interface{ Close() error }); ok {
		c.Close()
	}
	close(resume)
	r := <-done
	if r.err == nil && !r.existed {
		t.Errorf("a session ended without Unlock while this acquisition was in progress, but it reports acquiredExisting=false: no recovery would run")
	}
}

// F18 (C13): releasing the lock on fs.Mem is one step; an opener must not be able to take over a lock
// entry that is about to be removed.
func TestF18_MemUnlockIsAtomic(t *testing.T) {
	for round := 0; round < 300; round++ {
		name := filepath.Join("f18", "lock")
		lk, _, err := fs.Mem.CreateLockFile(name, 0640)
		if err != nil {
			t.Fatal(err)
		}
		var wg sync.WaitGroup
		got := make(chan fs.LockFile, 8)
		stop := make(chan struct{})
		for i := 0; i < 4; i++ {
			wg.Add(1)
			go func() {
				defer wg.Done()
				for {
					select {
					case <-stop:
						return
					default:
					}
					if l, _, err := fs.Mem.CreateLockFile(name, 0640); err == nil {
						got <- l
						return
					}
				}
			}()
		}
		if err := lk.Unlock(); err != nil {
			t.Fatal(err)
		}
		first := <-got
		// while `first` holds the lock nobody else may get it
		select {
		case second := <-got:
			close(stop)
			wg.Wait()
			_ = second
			t.Fatalf("round %d: two holders of the fs.Mem lock at the same time", round)
		default:
		}
		if _, _, err := fs.Mem.CreateLockFile(name, 0640); err == nil {
			close(stop)
			wg.Wait()
			t.Fatalf("round %d: the lock was acquired while another holder has it", round)
		}
		close(stop)
		wg.Wait()
		for len(got) > 0 {
			<-got
		}
		if err := first.Unlock(); err != nil && !os.IsNotExist(err) {
			t.Fatalf("round %d: Unlock of the holder: %v", round, err)
		}
	}
}

// F19 (C10): a Close that comes second (a deferred Close after an explicit one) must not rewrite the
// metadata in a directory that already belongs to a new owner.
func TestF19_SecondCloseLeavesTheNewOwnerAlone(t *testing.T) {
	dir := filepath.Join(t.TempDir(), "db")
	o := &pogreb.Options{FileSystem: fs.OS}
	db1, err := pogreb.Open(dir, o)
	if err != nil {
		t.Fatal(err)
	}
	if err := db1.Put([]byte("old"), []byte("1")); err != nil {
		t.Fatal(err)
	}
	if err := db1.Delete([]byte("old")); err != nil {
		t.Fatal(err)
	}
	if err := db1.Close(); err != nil {
		t.Fatal(err)
	}
	db2, err := pogreb.Open(dir, o) // empty index: a new hash seed is drawn
	if err != nil {
		t.Fatal(err)
	}
	for i := 0; i < 50; i++ {
		if err := db2.Put([]byte{byte(i)}, []byte("v")); err != nil {
			t.Fatal(err)
		}
	}
	if err := db2.Close(); err != nil {
		t.Fatal(err)
	}
	_ = db1.Close() // stale handle
	db3, err := pogreb.Open(dir, o)
	if err != nil {
		t.Fatal(err)
	}
	defer db3.Close()
	lost := 0
	for i := 0; i < 50; i++ {
		if v, _ := db3.Get([]byte{byte(i)}); string(v) != "v" {
			lost++
		}
	}
	if lost > 0 {
		t.Errorf("%d of 50 keys of the new owner are unreadable after a second Close of the previous handle", lost)
	}
}
