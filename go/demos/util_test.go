//go:build verif

package demos

import (
	"fmt"
	"io"
	"log"
	"sort"
	"testing"

	"github.com/akrylysov/pogreb"
	"verif/simfs"
)

const dir = "db"

func init() { pogreb.SetLogger(log.New(io.Discard, "", 0)) }

func opts(fsys *simfs.FS, maxSeg, minSeg uint32, frag float32, syncEvery bool) *pogreb.Options {
	o := &pogreb.Options{FileSystem: fsys}
	if syncEvery {
		o.BackgroundSyncInterval = -1
	}
	pogreb.VerifSetThresholds(o, maxSeg, minSeg, frag)
	return o
}

func mustOpen(t *testing.T, fsys *simfs.FS, o *pogreb.Options) *pogreb.DB {
	t.Helper()
	db, err := pogreb.Open(dir, o)
	if err != nil {
		t.Fatalf("open: %v", err)
	}
	return db
}

func contents(t *testing.T, db *pogreb.DB) map[string]string {
	t.Helper()
	m := map[string]string{}
	it := db.Items()
	for {
		k, v, err := it.Next()
		if err == pogreb.ErrIterationDone {
			break
		}
		if err != nil {
			t.Fatalf("next: %v", err)
		}
		m[string(k)] = string(v)
	}
	return m
}

func show(m map[string]string) string {
	var ks []string
	for k := range m {
		ks = append(ks, k)
	}
	sort.Strings(ks)
	s := ""
	for _, k := range ks {
		v := m[k]
		if len(v) > 8 {
			v = fmt.Sprintf("%s..(%d)", v[:8], len(v))
		}
		s += fmt.Sprintf("%s=%s ", k, v)
	}
	return s
}

// collidingKeys returns n distinct keys whose hashes agree in the low `bits` bits.
func collidingKeys(db *pogreb.DB, n int, bits uint) [][]byte {
	var out [][]byte
	var want uint32
	mask := uint32(1)<<bits - 1
	for i := 0; len(out) < n; i++ {
		k := []byte(fmt.Sprintf("key-%08d", i))
		h := db.VerifHash(k) & mask
		if len(out) == 0 {
			want = h
		}
		if h == want {
			out = append(out, k)
		}
	}
	return out
}
