//go:build verif

package demos

import (
	"bytes"
	"fmt"
	"path/filepath"
	"runtime"
	"strings"
	"testing"

	"github.com/akrylysov/pogreb"
	"github.com/akrylysov/pogreb/fs"
	"verif/simfs"
)

// F1 (C01): re-put of a key stored in an overflow bucket after a delete opened a
// hole in an earlier bucket of the same chain must not create a second slot.
func TestF1_DuplicateSlotAfterHole(t *testing.T) {
	fsys := simfs.New()
	db := mustOpen(t, fsys, opts(fsys, 1<<20, 1<<30, 0.5, false))
	if !db.VerifSetHashSeed(1) {
		t.Fatal("seed")
	}
	ks := collidingKeys(db, 40, 12)
	for _, k := range ks {
		if err := db.Put(k, []byte("old")); err != nil {
			t.Fatal(err)
		}
	}
	if err := db.Delete(ks[0]); err != nil {
		t.Fatal(err)
	}
	if err := db.Put(ks[35], []byte("new")); err != nil {
		t.Fatal(err)
	}
	if c := db.Count(); c != 39 {
		t.Errorf("Count = %d, want 39", c)
	}
	if err := db.Delete(ks[35]); err != nil {
		t.Fatal(err)
	}
	if v, _ := db.Get(ks[35]); v != nil {
		t.Errorf("deleted key reads %q", v)
	}
}

// F2 (C04/C12): after a recovery that truncated a torn tail, later acknowledged
// writes must survive the next recovery.
func TestF2_AppendAfterTruncatingRecovery(t *testing.T) {
	fsys := simfs.New()
	db := mustOpen(t, fsys, opts(fsys, 1<<20, 1<<30, 0.5, false))
	if err := db.Put([]byte("k0"), []byte("v0")); err != nil {
		t.Fatal(err)
	}
	base := len(fsys.Journal())
	if err := db.Put([]byte("torn"), bytes.Repeat([]byte("x"), 1500)); err != nil {
		t.Fatal(err)
	}
	j := fsys.Journal()
	wi := -1
	for i := base; i < len(j); i++ {
		if j[i].Kind == simfs.KWrite && strings.HasSuffix(j[i].Name, ".psg") {
			wi = i
			break
		}
	}
	if wi < 0 {
		t.Fatal("no segment write found")
	}
	cuts := simfs.TearCuts(j[wi])
	img := simfs.CrashImage(simfs.NewImage(), j, wi, cuts[len(cuts)-1])
	fs2 := simfs.FromImage(img)
	db2 := mustOpen(t, fs2, opts(fs2, 1<<20, 1<<30, 0.5, false))
	for i := 0; i < 10; i++ {
		if err := db2.Put([]byte{'a' + byte(i)}, []byte("v")); err != nil {
			t.Fatal(err)
		}
	}
	// Unclean end of the second session: the process dies right here.
	fs3 := simfs.FromImage(fs2.Snapshot())
	db3 := mustOpen(t, fs3, opts(fs3, 1<<20, 1<<30, 0.5, false))
	if c := db3.Count(); c != 11 {
		t.Errorf("Count after second recovery = %d, want 11 (%s)", c, show(contents(t, db3)))
	}
}

func names(fsys *simfs.FS) string { return strings.Join(fsys.Snapshot().Names(), " ") }

// F3 (C15): the metadata side file of a compacted segment must be removed.
func TestF3_SegmentMetaLeak(t *testing.T) {
	fsys := simfs.New()
	o := opts(fsys, 1024, 1, 0.01, false)
	db := mustOpen(t, fsys, o)
	for i := 0; i < 40; i++ {
		if err := db.Put([]byte("k"), bytes.Repeat([]byte{byte(i)}, 100)); err != nil {
			t.Fatal(err)
		}
	}
	if err := db.Close(); err != nil {
		t.Fatal(err)
	}
	db = mustOpen(t, fsys, o)
	cr, err := db.Compact()
	if err != nil || cr.CompactedSegments == 0 {
		t.Fatalf("compact: %+v %v", cr, err)
	}
	segs := map[string]bool{}
	for _, s := range db.VerifSegments() {
		segs[dir+"/"+s.Name] = true
	}
	for _, n := range fsys.Snapshot().Names() {
		if strings.HasSuffix(n, ".psg.pmt") && !segs[strings.TrimSuffix(n, ".pmt")] {
			t.Errorf("orphan side file %s (dir: %s)", n, names(fsys))
		}
	}
}

// F4 (C15): the database stays usable when compaction removed the active segment.
func TestF4_SyncAfterCompactionRemovedActive(t *testing.T) {
	fsys := simfs.New()
	db := mustOpen(t, fsys, opts(fsys, 1<<20, 1, 0.01, false))
	if err := db.Put([]byte("k"), bytes.Repeat([]byte("x"), 1000)); err != nil {
		t.Fatal(err)
	}
	if err := db.Delete([]byte("k")); err != nil {
		t.Fatal(err)
	}
	cr, err := db.Compact()
	if err != nil || cr.CompactedSegments != 1 {
		t.Fatalf("compact: %+v %v", cr, err)
	}
	if err := db.Sync(); err != nil {
		t.Errorf("Sync after compaction: %v", err)
	}
	if err := db.Put([]byte("k2"), []byte("v2")); err != nil {
		t.Errorf("Put after compaction: %v", err)
	}
	if err := db.Close(); err != nil {
		t.Errorf("Close after compaction: %v", err)
	}
}

// F5 (C19): a garbage header claiming a huge value must not make recovery allocate it.
func TestF5_RecoveryAllocBoundedByFile(t *testing.T) {
	fsys := simfs.New()
	db := mustOpen(t, fsys, opts(fsys, 1<<20, 1<<30, 0.5, false))
	if err := db.Put([]byte("k"), []byte("v")); err != nil {
		t.Fatal(err)
	}
	img := fsys.Snapshot()
	for n, id := range img.Dir {
		if strings.HasSuffix(n, ".psg") {
			// key size 1, value size 256 MiB, then three bytes.
			img.Files[id] = append(img.Files[id], 1, 0, 0, 0, 0, 0x10, 'a', 'b', 'c')
		}
	}
	fs2 := simfs.FromImage(img)
	var before, after runtime.MemStats
	runtime.GC()
	runtime.ReadMemStats(&before)
	db2 := mustOpen(t, fs2, opts(fs2, 1<<20, 1<<30, 0.5, false))
	runtime.ReadMemStats(&after)
	if d := after.TotalAlloc - before.TotalAlloc; d > 32<<20 {
		t.Errorf("recovery allocated %d MiB for a %d byte segment", d>>20, 512+20)
	}
	if c := db2.Count(); c != 1 {
		t.Errorf("Count = %d", c)
	}
}

// F6 (C05): a delete that lands between compaction's pick and its processing of
// the picked segment must not be dropped.
func TestF6_StalePickDropsDelete(t *testing.T) {
	fsys := simfs.New()
	o := opts(fsys, 2048, 1, 0.3, false)
	db := mustOpen(t, fsys, o)
	// Segment A: distinct live keys, fills up.
	for i := 0; i < 30; i++ {
		if err := db.Put([]byte{'A', byte(i)}, bytes.Repeat([]byte("a"), 40)); err != nil {
			t.Fatal(err)
		}
	}
	// Segment B (current): overwrites of one key => fragmented, no delete records.
	for i := 0; i < 12; i++ {
		if err := db.Put([]byte("b"), bytes.Repeat([]byte{byte(i)}, 40)); err != nil {
			t.Fatal(err)
		}
	}
	victim := []byte{'A', 3}
	fired := false
	pogreb.VerifSetYield(func(p string) {
		if p == "compact.picked" && !fired {
			fired = true
			if err := db.Delete(victim); err != nil {
				t.Errorf("delete: %v", err)
			}
		}
	})
	defer pogreb.VerifSetYield(nil)
	if _, err := db.Compact(); err != nil {
		t.Fatal(err)
	}
	if !fired {
		t.Fatal("yield hook did not fire")
	}
	if v, _ := db.Get(victim); v != nil {
		t.Errorf("deleted key visible before crash")
	}
	fs2 := simfs.FromImage(fsys.Snapshot())
	db2 := mustOpen(t, fs2, o2(fs2, o))
	if v, _ := db2.Get(victim); v != nil {
		t.Errorf("deleted key came back after recovery with %d bytes", len(v))
	}
}

func allDurableLost(fsys *simfs.FS) *simfs.Image {
	j := fsys.Journal()
	return simfs.PowerLossImage(simfs.NewImage(), j, len(j), nil)
}

// F7 (C06): Sync must make the writes of sealed (rolled-over) segments durable too.
func TestF7_SyncAfterRollover(t *testing.T) {
	fsys := simfs.New()
	o := opts(fsys, 512+40, 1<<30, 0.5, false)
	db := mustOpen(t, fsys, o)
	if err := db.Put([]byte("a"), []byte("0123456789")); err != nil {
		t.Fatal(err)
	}
	if err := db.Put([]byte("b"), []byte("0123456789")); err != nil { // rolls over
		t.Fatal(err)
	}
	if err := db.Sync(); err != nil {
		t.Fatal(err)
	}
	fs2 := simfs.FromImage(allDurableLost(fsys))
	db2 := mustOpen(t, fs2, o2(fs2, o))
	if got := show(contents(t, db2)); got != "a=01234567..(10) b=01234567..(10) " {
		t.Errorf("after power loss: %q", got)
	}
}

// F8 (C06): compaction must not unlink a durable source while its copies are volatile.
func TestF8_CompactionUnlinksDurableSource(t *testing.T) {
	fsys := simfs.New()
	o := opts(fsys, 1<<20, 1, 0.3, true)
	db := mustOpen(t, fsys, o)
	if err := db.Put([]byte("a"), []byte("va")); err != nil {
		t.Fatal(err)
	}
	for i := 0; i < 50; i++ {
		if err := db.Put([]byte("b"), []byte{byte(i)}); err != nil {
			t.Fatal(err)
		}
	}
	if cr, err := db.Compact(); err != nil || cr.CompactedSegments == 0 {
		t.Fatalf("compact: %+v %v", cr, err)
	}
	fs2 := simfs.FromImage(allDurableLost(fsys))
	db2 := mustOpen(t, fs2, o2(fs2, o))
	m := contents(t, db2)
	if m["a"] != "va" || m["b"] != string([]byte{49}) {
		t.Errorf("after power loss: %q", show(m))
	}
}

// F9 (C09): Close must leave nothing volatile behind.
func TestF9_CloseIsDurable(t *testing.T) {
	for _, syncEvery := range []bool{false, true} {
		fsys := simfs.New()
		o := opts(fsys, 1<<20, 1<<30, 0.5, syncEvery)
		db := mustOpen(t, fsys, o)
		_ = db.Put([]byte("a"), []byte("va"))
		_ = db.Put([]byte("b"), []byte("vb"))
		if err := db.Close(); err != nil {
			t.Fatal(err)
		}
		fs2 := simfs.FromImage(allDurableLost(fsys))
		db2, err := pogreb.Open(dir, o2(fs2, o))
		if err != nil {
			t.Errorf("syncEvery=%v: open after power loss: %v", syncEvery, err)
			continue
		}
		if got := show(contents(t, db2)); got != "a=va b=vb " || db2.Count() != 2 {
			t.Errorf("syncEvery=%v: after power loss: %q count=%d", syncEvery, got, db2.Count())
		}
	}
}

func o2(fsys *simfs.FS, o *pogreb.Options) *pogreb.Options {
	c := *o
	c.FileSystem = fsys
	return &c
}

// F11 (C06): after a recovery, Sync must reach the segment that holds the unsynced tail
// of the previous session (the newest one), not the lowest-numbered segment.
func TestF11_SyncAfterRecovery(t *testing.T) {
	fsys := simfs.New()
	o := opts(fsys, 512+40, 1<<30, 0.5, false)
	db := mustOpen(t, fsys, o)
	_ = db.Put([]byte("a"), []byte("0123456789"))
	_ = db.Put([]byte("b"), []byte("0123456789")) // rolls over: "b" sits in the second segment, unsynced
	fsys.Kill()                                   // the process dies; the page cache survives
	db2 := mustOpen(t, fsys, o)                   // recovery
	if got := show(contents(t, db2)); got != "a=01234567..(10) b=01234567..(10) " {
		t.Fatalf("after recovery: %q", got)
	}
	if err := db2.Sync(); err != nil {
		t.Fatal(err)
	}
	fs3 := simfs.FromImage(allDurableLost(fsys))
	db3 := mustOpen(t, fs3, o2(fs3, o))
	if got := show(contents(t, db3)); got != "a=01234567..(10) b=01234567..(10) " {
		t.Errorf("after Sync and power loss: %q", got)
	}
}

// F13 (C16/C03): a record larger than a whole segment (only possible with shrunken thresholds) must
// not leave an empty sealed segment behind: after a clean reopen that segment became current again
// and later writes were replayed BEFORE older ones by the next recovery.
func TestF13_OversizedRecordThenRestartAndCrash(t *testing.T) {
	fsys := simfs.New()
	o := opts(fsys, 600, 1<<30, 0.5, false)
	db := mustOpen(t, fsys, o)
	if err := db.Put([]byte("k"), bytes.Repeat([]byte("1"), 100)); err != nil { // does not fit an empty 600-byte segment
		t.Fatal(err)
	}
	if err := db.Close(); err != nil {
		t.Fatal(err)
	}
	db = mustOpen(t, fsys, o)
	if err := db.Put([]byte("k"), []byte("2")); err != nil {
		t.Fatal(err)
	}
	if v, _ := db.Get([]byte("k")); string(v) != "2" {
		t.Fatalf("before the crash: %q", v)
	}
	fsys.Kill()
	db2 := mustOpen(t, fsys, o)
	if v, _ := db2.Get([]byte("k")); string(v) != "2" {
		t.Errorf("after crash recovery the acknowledged overwrite is lost: k = %d bytes (%q...)", len(v), string(v[:1]))
	}
}

// F13, second route (C08/C03): recovery truncates an older segment to nothing (its only record is
// damaged) and seals it; after a clean restart the empty segment must not become current again.
func TestF13_EmptiedSegmentStaysSealed(t *testing.T) {
	fsys := simfs.New()
	o := opts(fsys, 600, 1<<30, 0.5, false)
	db := mustOpen(t, fsys, o)
	val := bytes.Repeat([]byte("1"), 70)
	if err := db.Put([]byte("a"), val); err != nil { // 81 bytes of the 88 a segment holds
		t.Fatal(err)
	}
	if err := db.Put([]byte("b"), val); err != nil { // next segment
		t.Fatal(err)
	}
	im := fsys.Snapshot()
	var first string
	for _, n := range im.Names() {
		if strings.HasSuffix(n, ".psg") && (first == "" || n < first) {
			first = n
		}
	}
	im.Files[im.Dir[first]][512+20] ^= 1 // damage the only record of the older segment
	fs2 := simfs.FromImage(im)
	o2 := opts(fs2, 600, 1<<30, 0.5, false)
	db = mustOpen(t, fs2, o2) // recovery
	if err := db.Close(); err != nil {
		t.Fatal(err)
	}
	db = mustOpen(t, fs2, o2)
	if err := db.Put([]byte("b"), []byte("2")); err != nil {
		t.Fatal(err)
	}
	fs2.Kill()
	db = mustOpen(t, fs2, o2)
	if v, _ := db.Get([]byte("b")); string(v) != "2" {
		t.Errorf("after crash recovery the acknowledged overwrite of b is lost: %d bytes", len(v))
	}
}

// F14 (C12): Backup into a directory that already holds an older backup must not keep segment files of
// that older backup which the database has compacted away since: a deleted key came back in the backup.
func TestF14_BackupIntoExistingBackupDirectory(t *testing.T) {
	fsys := simfs.New()
	o := opts(fsys, 1024, 1, 0.01, false)
	db := mustOpen(t, fsys, o)
	val := bytes.Repeat([]byte("v"), 200)
	for i := 0; i < 4; i++ { // fills the first segment
		if err := db.Put([]byte{'a' + byte(i)}, val); err != nil {
			t.Fatal(err)
		}
	}
	if err := db.Backup("bk"); err != nil { // first backup: holds the put records of a..d
		t.Fatal(err)
	}
	for i := 0; i < 4; i++ { // the keys are deleted afterwards
		if err := db.Delete([]byte{'a' + byte(i)}); err != nil {
			t.Fatal(err)
		}
	}
	if err := db.Put([]byte("keep"), val); err != nil {
		t.Fatal(err)
	}
	for i := 0; i < 6; i++ { // roll over so that the segments above are sealed, then compact them away
		if err := db.Put([]byte("keep"), val); err != nil {
			t.Fatal(err)
		}
	}
	if _, err := db.Compact(); err != nil {
		t.Fatal(err)
	}
	want := contents(t, db)
	if err := db.Backup("bk"); err != nil { // same destination as before
		t.Fatal(err)
	}
	o2 := *o
	bdb, err := pogreb.Open("bk", &o2)
	if err != nil {
		t.Fatal(err)
	}
	if got := contents(t, bdb); show(got) != show(want) {
		t.Errorf("backup into an existing backup directory: contents %s, the database held %s", show(got), show(want))
	}
}

// F15 (C17): DB.FileSize must work on fs.Mem as it does on the OS file systems; memFile.Info() failed
// for every file that is not open at the moment (metadata files after a restart).
func TestF15_FileSizeOnMemAfterRestart(t *testing.T) {
	for _, tc := range []struct {
		name string
		fsys fs.FileSystem
		dir  string
	}{{"os", fs.OS, filepath.Join(t.TempDir(), "db")}, {"mem", fs.Mem, "f15-mem-db"}} {
		o := &pogreb.Options{FileSystem: tc.fsys}
		db, err := pogreb.Open(tc.dir, o)
		if err != nil {
			t.Fatal(err)
		}
		if err := db.Put([]byte("k"), []byte("v")); err != nil {
			t.Fatal(err)
		}
		if err := db.Close(); err != nil {
			t.Fatal(err)
		}
		db, err = pogreb.Open(tc.dir, o)
		if err != nil {
			t.Fatal(err)
		}
		if n, err := db.FileSize(); err != nil || n <= 0 {
			t.Errorf("%s: FileSize after a clean restart = %d, %v", tc.name, n, err)
		}
		db.Close()
	}
}

// F16 (C10): an operation that loses the race with Close must fail WITHOUT an effect. After a compaction
// had removed every segment, a Put issued after Close created a new segment file and appended its record
// before failing on the closed index; a later recovery made the failed Put visible.
func TestF16_PutAfterCloseLeavesNoTrace(t *testing.T) {
	fsys := simfs.New()
	o := opts(fsys, 1024, 1, 0.01, false)
	db := mustOpen(t, fsys, o)
	val := bytes.Repeat([]byte("v"), 100)
	for i := 0; i < 3; i++ {
		if err := db.Put([]byte("a"), val); err != nil {
			t.Fatal(err)
		}
	}
	if err := db.Delete([]byte("a")); err != nil {
		t.Fatal(err)
	}
	if _, err := db.Compact(); err != nil { // every record is dead: all segments go away
		t.Fatal(err)
	}
	before := fsys.Snapshot().Names()
	if err := db.Close(); err != nil {
		t.Fatal(err)
	}
	closed := fsys.Snapshot().Names()
	err := func() (err error) {
		defer func() {
			if e := recover(); e != nil {
				err = fmt.Errorf("panic: %v", e)
			}
		}()
		return db.Put([]byte("late"), []byte("x"))
	}()
	if err == nil {
		t.Fatalf("Put after Close succeeded")
	}
	after := fsys.Snapshot().Names()
	if fmt.Sprint(after) != fmt.Sprint(closed) {
		t.Errorf("a Put that failed after Close (%v) changed the directory:\n open:   %v\n closed: %v\n after:  %v", err, before, closed, after)
	}
}

// F20 (C04): recovery may crash any number of times. Each attempt renamed the files the previous attempt
// had already moved aside (x.bac -> x.bac.bac -> ...), so after enough crashed recoveries the names
// exceeded the file system's limit and no Open succeeded any more.
func TestF20_ManyCrashedRecoveries(t *testing.T) {
	fsys := simfs.New()
	o := opts(fsys, 4096, 1<<30, 0.5, false)
	db := mustOpen(t, fsys, o)
	for i := 0; i < 30; i++ {
		if err := db.Put([]byte{byte(i)}, []byte("v")); err != nil {
			t.Fatal(err)
		}
	}
	if err := db.Close(); err != nil {
		t.Fatal(err)
	}
	db = mustOpen(t, fsys, o)
	if err := db.Put([]byte("last"), []byte("v")); err != nil {
		t.Fatal(err)
	}
	fsys.Kill() // unclean: index.pmt, db.pmt, the segment's .pmt and the index files are in the directory
	for i := 0; i < 70; i++ {
		// the recovering Open dies after it has moved the non-segment files aside
		fsys.ResetFailBudget(6)
		if d, err := pogreb.Open("db", o); err == nil {
			d.Close()
			t.Fatalf("attempt %d: the failure budget did not stop the recovery", i)
		}
		fsys.ResetFailBudget(-1)
		fsys.Kill()
	}
	db, err := pogreb.Open("db", o)
	if err != nil {
		t.Fatalf("after 70 crashed recoveries Open fails: %v", err)
	}
	if n := db.Count(); n != 31 {
		t.Errorf("Count = %d, want 31", n)
	}
}
