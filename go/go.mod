module verif

go 1.18

require github.com/akrylysov/pogreb v0.0.0

replace github.com/akrylysov/pogreb => /repo
