package main

// Funcs.lean: the pure integer functions of the code, TRANSLATED statement by statement into Lean
// definitions over fixed-width bit vectors (Go's uintN/intN arithmetic is arithmetic modulo 2^N,
// shifts by a count >= N give 0, conversions truncate or extend). The theorems of Props/G01.lean
// state that these generated definitions compute what the hand-written model computes; they are
// re-checked on every run against whatever the source says now.
//
// Supported shape: parameters and receiver fields of integer type; a body made of `x := e`, `x = e`,
// `x op= e`, `if c { ...return } [else { ...return }]` and `return e`; expressions over integer
// literals and constants, + - * & | ^ &^ << >>, comparisons, && || !, integer conversions and calls
// of other translated functions. Anything else makes the function "untranslated": no definition is
// emitted, `<name>_translated` is `false`, and the obligations that mention it fail.

import (
	"fmt"
	"go/ast"
	"go/constant"
	"go/token"
	"go/types"
	"strings"
)

type pureFn struct {
	recv, name string
}

var pureFns = []pureFn{
	{"", "encodedRecordSize"},
	{"", "bucketOffset"},
	{"slot", "kvSize"},
	{"index", "bucketIndex"},
}

type untranslatable struct{ why string }

func bail(format string, a ...interface{}) { panic(untranslatable{fmt.Sprintf(format, a...)}) }

type fnTr struct {
	p      *pkgInfo
	recv   string   // receiver identifier
	params []string // lean binders in order
	seen   map[string]bool
	known  map[string]bool // translated function names
	free   bool            // guard mode: every variable and field path is a parameter
	bound  map[string]bool
}

func intWidth(t types.Type) (int, bool) {
	b, ok := t.Underlying().(*types.Basic)
	if !ok {
		bail("non-basic type %s", t)
	}
	switch b.Kind() {
	case types.Uint8:
		return 8, false
	case types.Uint16:
		return 16, false
	case types.Uint32:
		return 32, false
	case types.Uint64, types.Uint, types.Uintptr:
		return 64, false
	case types.Int8:
		return 8, true
	case types.Int16:
		return 16, true
	case types.Int32:
		return 32, true
	case types.Int64, types.Int:
		return 64, true
	}
	bail("unsupported basic type %s", t)
	return 0, false
}

var leanKeywords = map[string]bool{"at": true, "end": true, "from": true, "fun": true, "do": true, "then": true, "else": true,
	"if": true, "let": true, "in": true, "have": true, "show": true, "match": true, "with": true, "where": true, "open": true, "by": true}

func leanIdent(s string) string {
	if leanKeywords[s] {
		return s + "_"
	}
	return s
}

func (t *fnTr) typeOf(e ast.Expr) types.Type {
	tv, ok := t.p.info.Types[e]
	if !ok || tv.Type == nil {
		bail("no type for %s", t.p.src(e))
	}
	return tv.Type
}

func lit(v constant.Value, w int) string {
	i := constant.ToInt(v)
	if i.Kind() != constant.Int {
		bail("non-integer constant %s", v)
	}
	s := i.ExactString()
	if strings.HasPrefix(s, "-") {
		return fmt.Sprintf("(BitVec.ofInt %d (%s))", w, s)
	}
	return fmt.Sprintf("(%s#%d)", s, w)
}

func (t *fnTr) expr(e ast.Expr) string {
	tv := t.p.info.Types[e]
	if tv.Value != nil && tv.Type != nil {
		if b, ok := tv.Type.Underlying().(*types.Basic); ok && b.Info()&types.IsInteger != 0 {
			if b.Info()&types.IsUntyped != 0 {
				bail("untyped constant %s with no final type", t.p.src(e))
			}
			w, _ := intWidth(tv.Type)
			return lit(tv.Value, w)
		}
	}
	switch x := e.(type) {
	case *ast.ParenExpr:
		return t.expr(x.X)
	case *ast.Ident:
		if _, ok := t.p.info.Uses[x].(*types.Var); ok {
			w, _ := intWidth(t.typeOf(x))
			if t.free && !t.bound[x.Name] {
				t.param(leanIdent(x.Name), fmt.Sprintf("BitVec %d", w))
			}
			return leanIdent(x.Name)
		}
		bail("identifier %s", x.Name)
	case *ast.SelectorExpr:
		if name, ok := t.path(x); ok {
			w, _ := intWidth(t.typeOf(x))
			t.param(name, fmt.Sprintf("BitVec %d", w))
			return name
		}
		bail("selector %s", t.p.src(x))
	case *ast.UnaryExpr:
		switch x.Op {
		case token.XOR:
			return "(~~~" + t.expr(x.X) + ")"
		case token.SUB:
			return "(-" + t.expr(x.X) + ")"
		}
		bail("unary %s", x.Op)
	case *ast.BinaryExpr:
		a, b := t.expr(x.X), t.expr(x.Y)
		_, signed := intWidth(t.typeOf(x))
		switch x.Op {
		case token.ADD:
			return "(" + a + " + " + b + ")"
		case token.SUB:
			return "(" + a + " - " + b + ")"
		case token.MUL:
			return "(" + a + " * " + b + ")"
		case token.AND:
			return "(" + a + " &&& " + b + ")"
		case token.OR:
			return "(" + a + " ||| " + b + ")"
		case token.XOR:
			return "(" + a + " ^^^ " + b + ")"
		case token.AND_NOT:
			return "(" + a + " &&& ~~~" + b + ")"
		case token.SHL, token.SHR:
			if _, cs := intWidth(t.typeOf(x.Y)); cs {
				if t.p.info.Types[x.Y].Value == nil {
					bail("signed non-constant shift count in %s", t.p.src(x))
				}
			}
			if x.Op == token.SHL {
				return "(" + a + " <<< (" + b + ").toNat)"
			}
			if signed {
				return "(BitVec.sshiftRight " + a + " (" + b + ").toNat)"
			}
			return "(" + a + " >>> (" + b + ").toNat)"
		}
		bail("binary %s", x.Op)
	case *ast.CallExpr:
		// conversion
		if ftv, ok := t.p.info.Types[x.Fun]; ok && ftv.IsType() && len(x.Args) == 1 {
			w2, _ := intWidth(ftv.Type)
			w1, s1 := intWidth(t.typeOf(x.Args[0]))
			a := t.expr(x.Args[0])
			if w2 > w1 && s1 {
				return fmt.Sprintf("(BitVec.signExtend %d %s)", w2, a)
			}
			return fmt.Sprintf("(BitVec.setWidth %d %s)", w2, a)
		}
		if id, ok := x.Fun.(*ast.Ident); ok && id.Name == "len" && len(x.Args) == 1 && t.free {
			if _, isB := t.p.info.Uses[id].(*types.Builtin); isB {
				if a, ok := x.Args[0].(*ast.Ident); ok {
					name := "len_" + a.Name
					t.param(name, "BitVec 64")
					return name
				}
			}
		}
		if id, ok := x.Fun.(*ast.Ident); ok && t.known[id.Name] {
			var args []string
			for _, a := range x.Args {
				args = append(args, t.expr(a))
			}
			return "(" + id.Name + " " + strings.Join(args, " ") + ")"
		}
		bail("call %s", t.p.src(x))
	}
	bail("expression %s", t.p.src(e))
	return ""
}

// path names a selector chain rooted at the receiver (function mode) or at any variable (guard mode).
func (t *fnTr) path(x *ast.SelectorExpr) (string, bool) {
	var parts []string
	var e ast.Expr = x
	for {
		switch y := e.(type) {
		case *ast.SelectorExpr:
			if sel := t.p.info.Selections[y]; sel == nil || sel.Kind() != types.FieldVal {
				return "", false
			}
			parts = append([]string{y.Sel.Name}, parts...)
			e = y.X
			continue
		case *ast.Ident:
			if _, ok := t.p.info.Uses[y].(*types.Var); !ok {
				return "", false
			}
			if !t.free && (t.recv == "" || y.Name != t.recv) {
				return "", false
			}
			parts = append([]string{y.Name}, parts...)
			return strings.Join(parts, "_"), true
		}
		return "", false
	}
}

func (t *fnTr) param(name, typ string) {
	if !t.seen[name] {
		t.seen[name] = true
		t.params = append(t.params, fmt.Sprintf("(%s : %s)", name, typ))
	}
}

func (t *fnTr) cond(e ast.Expr) string {
	if b, ok := t.typeOf(e).Underlying().(*types.Basic); ok && b.Info()&types.IsBoolean != 0 {
		if x, ok := e.(*ast.SelectorExpr); ok {
			if name, ok := t.path(x); ok {
				t.param(name, "Bool")
				return "(" + name + " = true)"
			}
		}
		if x, ok := e.(*ast.Ident); ok && t.free {
			if _, ok := t.p.info.Uses[x].(*types.Var); ok {
				t.param(leanIdent(x.Name), "Bool")
				return "(" + leanIdent(x.Name) + " = true)"
			}
		}
	}
	switch x := e.(type) {
	case *ast.ParenExpr:
		return t.cond(x.X)
	case *ast.UnaryExpr:
		if x.Op == token.NOT {
			return "(¬ " + t.cond(x.X) + ")"
		}
	case *ast.BinaryExpr:
		switch x.Op {
		case token.LAND:
			return "(" + t.cond(x.X) + " ∧ " + t.cond(x.Y) + ")"
		case token.LOR:
			return "(" + t.cond(x.X) + " ∨ " + t.cond(x.Y) + ")"
		case token.EQL, token.NEQ, token.LSS, token.LEQ, token.GTR, token.GEQ:
			a, b := t.expr(x.X), t.expr(x.Y)
			_, signed := intWidth(t.typeOf(x.X))
			switch x.Op {
			case token.EQL:
				return "(" + a + " = " + b + ")"
			case token.NEQ:
				return "(" + a + " ≠ " + b + ")"
			}
			if signed {
				switch x.Op {
				case token.LSS:
					return "(BitVec.slt " + a + " " + b + " = true)"
				case token.LEQ:
					return "(BitVec.sle " + a + " " + b + " = true)"
				case token.GTR:
					return "(BitVec.slt " + b + " " + a + " = true)"
				case token.GEQ:
					return "(BitVec.sle " + b + " " + a + " = true)"
				}
			}
			op := map[token.Token]string{token.LSS: "<", token.LEQ: "≤", token.GTR: ">", token.GEQ: "≥"}[x.Op]
			return "(" + a + " " + op + " " + b + ")"
		}
	}
	bail("condition %s", t.p.src(e))
	return ""
}

func returns(stmts []ast.Stmt) bool {
	if len(stmts) == 0 {
		return false
	}
	switch s := stmts[len(stmts)-1].(type) {
	case *ast.ReturnStmt:
		return true
	case *ast.IfStmt:
		if s.Else == nil {
			return false
		}
		eb, ok := s.Else.(*ast.BlockStmt)
		return ok && returns(s.Body.List) && returns(eb.List)
	}
	return false
}

func (t *fnTr) block(stmts []ast.Stmt, ind string) string {
	if len(stmts) == 0 {
		bail("control reaches the end of the function")
	}
	rest := stmts[1:]
	switch s := stmts[0].(type) {
	case *ast.ReturnStmt:
		if len(s.Results) != 1 {
			bail("return with %d results", len(s.Results))
		}
		return ind + t.expr(s.Results[0])
	case *ast.AssignStmt:
		if len(s.Lhs) != 1 || len(s.Rhs) != 1 {
			bail("multi-assignment")
		}
		id, ok := s.Lhs[0].(*ast.Ident)
		if !ok {
			bail("assignment to %s", t.p.src(s.Lhs[0]))
		}
		var obj types.Object
		if s.Tok == token.DEFINE {
			obj = t.p.info.Defs[id]
		} else {
			obj = t.p.info.Uses[id]
		}
		if obj == nil {
			bail("unresolved %s", id.Name)
		}
		w, _ := intWidth(obj.Type())
		var rhs string
		switch s.Tok {
		case token.DEFINE, token.ASSIGN:
			rhs = t.expr(s.Rhs[0])
		default:
			ops := map[token.Token]token.Token{token.ADD_ASSIGN: token.ADD, token.SUB_ASSIGN: token.SUB, token.MUL_ASSIGN: token.MUL,
				token.AND_ASSIGN: token.AND, token.OR_ASSIGN: token.OR, token.XOR_ASSIGN: token.XOR, token.AND_NOT_ASSIGN: token.AND_NOT,
				token.SHL_ASSIGN: token.SHL, token.SHR_ASSIGN: token.SHR}
			op, ok := ops[s.Tok]
			if !ok {
				bail("assignment operator %s", s.Tok)
			}
			be := &ast.BinaryExpr{X: id, Op: op, Y: s.Rhs[0]}
			t.p.info.Types[be] = types.TypeAndValue{Type: obj.Type()}
			rhs = t.expr(be)
		}
		return fmt.Sprintf("%slet %s : BitVec %d := %s\n%s", ind, leanIdent(id.Name), w, rhs, t.block(rest, ind))
	case *ast.IfStmt:
		if s.Init != nil {
			bail("if with init statement")
		}
		if !returns(s.Body.List) {
			bail("if body falls through")
		}
		var els string
		if s.Else != nil {
			eb, ok := s.Else.(*ast.BlockStmt)
			if !ok || !returns(eb.List) {
				bail("else shape")
			}
			els = t.block(eb.List, ind+"  ")
		} else {
			els = t.block(rest, ind+"  ")
		}
		return fmt.Sprintf("%sif %s then\n%s\n%selse\n%s", ind, t.cond(s.Cond), t.block(s.Body.List, ind+"  "), ind, els)
	}
	bail("statement %s", t.p.src(stmts[0]))
	return ""
}

func (p *pkgInfo) translateFn(f pureFn, known map[string]bool) (def string, err string) {
	defer func() {
		if e := recover(); e != nil {
			if u, ok := e.(untranslatable); ok {
				def, err = "", u.why
				return
			}
			panic(e)
		}
	}()
	fd := p.funcDecl(f.recv, f.name)
	if fd == nil || fd.Body == nil {
		return "", "not found"
	}
	t := &fnTr{p: p, seen: map[string]bool{}, known: known, bound: map[string]bool{}}
	if fd.Recv != nil && len(fd.Recv.List) == 1 && len(fd.Recv.List[0].Names) == 1 {
		t.recv = fd.Recv.List[0].Names[0].Name
	}
	var own []string
	for _, fl := range fd.Type.Params.List {
		for _, n := range fl.Names {
			w, _ := intWidth(p.info.Defs[n].Type())
			own = append(own, fmt.Sprintf("(%s : BitVec %d)", leanIdent(n.Name), w))
		}
	}
	if fd.Type.Results == nil || len(fd.Type.Results.List) != 1 || len(fd.Type.Results.List[0].Names) > 0 {
		bail("result list")
	}
	rw, _ := intWidth(p.info.Types[fd.Type.Results.List[0].Type].Type)
	body := t.block(fd.Body.List, "  ")
	binders := strings.Join(append(append([]string{}, t.params...), own...), " ")
	return fmt.Sprintf("/-- `%s` -/\ndef %s %s : BitVec %d :=\n%s\n", p.src(fd.Type), f.name, binders, rw, body), ""
}

// A guard is the condition of one `if` statement, located by what its body does.
type guardSpec struct {
	recv, fn, name string
	anchor         string // source text that the body of the if statement must contain
}

var guards = []guardSpec{
	{"datalog", "writeRecord", "rolloverGuard", "dl.swapSegment()"},
	{"segmentIterator", "next", "recordFitsGuard", "io.ErrUnexpectedEOF"},
	{"segmentIterator", "next", "deleteBitGuard", "recordTypeDelete"},
	{"index", "put", "indexFullGuard", "errFull"},
}

func (p *pkgInfo) translateGuard(g guardSpec, known map[string]bool) (def string, err string) {
	defer func() {
		if e := recover(); e != nil {
			if u, ok := e.(untranslatable); ok {
				def, err = "", u.why
				return
			}
			panic(e)
		}
	}()
	fd := p.funcDecl(g.recv, g.fn)
	if fd == nil || fd.Body == nil {
		return "", "function not found"
	}
	var hits []*ast.IfStmt
	ast.Inspect(fd.Body, func(n ast.Node) bool {
		if is, ok := n.(*ast.IfStmt); ok && is.Init == nil && strings.Contains(p.src(is.Body), g.anchor) {
			// innermost match only
			inner := false
			ast.Inspect(is.Body, func(m ast.Node) bool {
				if js, ok := m.(*ast.IfStmt); ok && js.Init == nil && strings.Contains(p.src(js.Body), g.anchor) {
					inner = true
				}
				return true
			})
			if !inner {
				hits = append(hits, is)
			}
		}
		return true
	})
	if len(hits) != 1 {
		return "", fmt.Sprintf("%d if statements whose body contains %q", len(hits), g.anchor)
	}
	t := &fnTr{p: p, seen: map[string]bool{}, known: known, free: true, bound: map[string]bool{}}
	c := t.cond(hits[0].Cond)
	return fmt.Sprintf("/-- `%s.%s`: `if %s` -/\ndef %s %s : Bool :=\n  decide %s\n", g.recv, g.fn, p.src(hits[0].Cond), g.name, strings.Join(t.params, " "), c), ""
}

func genFuncs(root *pkgInfo) {
	var sb strings.Builder
	sb.WriteString("namespace Pogreb.Generated.Funcs\n\n")
	known := map[string]bool{}
	for _, f := range pureFns {
		def, why := root.translateFn(f, known)
		if def == "" {
			fmt.Fprintf(&sb, "-- %s: NOT TRANSLATED (%s)\ndef %s_translated : Bool := false\n\n", f.name, why, f.name)
			continue
		}
		known[f.name] = true
		fmt.Fprintf(&sb, "%sdef %s_translated : Bool := true\n\n", def, f.name)
	}
	for _, g := range guards {
		def, why := root.translateGuard(g, known)
		if def == "" {
			fmt.Fprintf(&sb, "-- %s: NOT TRANSLATED (%s)\ndef %s_translated : Bool := false\n\n", g.name, why, g.name)
			continue
		}
		fmt.Fprintf(&sb, "%sdef %s_translated : Bool := true\n\n", def, g.name)
	}
	sb.WriteString("end Pogreb.Generated.Funcs\n")
	write("Funcs.lean", sb.String())
}
