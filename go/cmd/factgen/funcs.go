package main

// Funcs.lean: the pure integer functions of the code, TRANSLATED statement by statement into Lean
// definitions over fixed-width bit vectors (Go's uintN/intN arithmetic is arithmetic modulo 2^N,
// shifts by a count >= N give 0, conversions truncate or extend), and the conditions of selected
// guards. The theorems of Props/G01*.lean state that these generated definitions compute what the
// hand-written model computes; they are re-checked on every run against what the source says now.
//
// Functions: parameters (positional, in declaration order) and receiver fields (named `f_<path>`,
// sorted) of integer type; a body made of `x := e`, `x = e`, `x op= e`,
// `if c { ...return } [else { ...return }]` and `return e`.
// Guards: the condition of the one `if` statement whose body contains an anchor text. The run of pure
// `x := e` statements directly in front of that `if` is inlined; every other variable is a parameter
// (`f_<field path without its root variable>`, `p<i>` for the i-th parameter of the enclosing
// function, `len_p<i>`, `v_<local>`), sorted by name - so renaming a receiver or a parameter, naming
// a sub-expression or swapping operands does not change the generated signature.
// Expressions: integer literals and constants, + - * & | ^ &^ << >>, comparisons, && || !, integer
// conversions, calls of other translated functions, and calls of parameterless methods whose body
// is a single `return e` (inlined). Anything else makes the item "untranslated": no definition is
// emitted, `<name>_translated` is `false`, and the obligations that mention it fail.

import (
	"fmt"
	"go/ast"
	"go/constant"
	"go/token"
	"go/types"
	"sort"
	"strings"
)

type pureFn struct {
	recv, name string
}

var pureFns = []pureFn{
	{"", "encodedRecordSize"},
	{"", "bucketOffset"},
	{"slot", "kvSize"},
	{"index", "bucketIndex"},
}

type untranslatable struct{ why string }

func bail(format string, a ...interface{}) { panic(untranslatable{fmt.Sprintf(format, a...)}) }

type pathT struct {
	root   types.Object
	fields []string
}

type fnTr struct {
	p       *pkgInfo
	fd      *ast.FuncDecl
	recvObj types.Object
	guard   bool                    // guard mode: every variable / field path is a parameter
	own     []string                // positional binders (function mode)
	named   map[string]string       // named binders: name -> Lean type
	owner   map[string]types.Object // field-path name -> root object (ambiguity check)
	known   map[string]bool         // translated function names
	inline  map[types.Object]ast.Expr
	subst   map[types.Object]pathT // receiver of an inlined method -> path at the call site
	depth   int
}

func intWidth(t types.Type) (int, bool) {
	b, ok := t.Underlying().(*types.Basic)
	if !ok {
		bail("non-basic type %s", t)
	}
	switch b.Kind() {
	case types.Uint8:
		return 8, false
	case types.Uint16:
		return 16, false
	case types.Uint32:
		return 32, false
	case types.Uint64, types.Uint, types.Uintptr:
		return 64, false
	case types.Int8:
		return 8, true
	case types.Int16:
		return 16, true
	case types.Int32:
		return 32, true
	case types.Int64, types.Int:
		return 64, true
	}
	bail("unsupported basic type %s", t)
	return 0, false
}

func isBool(t types.Type) bool {
	b, ok := t.Underlying().(*types.Basic)
	return ok && b.Info()&types.IsBoolean != 0
}

var leanKeywords = map[string]bool{"at": true, "end": true, "from": true, "fun": true, "do": true, "then": true, "else": true,
	"if": true, "let": true, "in": true, "have": true, "show": true, "match": true, "with": true, "where": true, "open": true, "by": true}

func leanIdent(s string) string {
	if leanKeywords[s] {
		return s + "_"
	}
	return s
}

func (t *fnTr) typeOf(e ast.Expr) types.Type {
	tv, ok := t.p.info.Types[e]
	if !ok || tv.Type == nil {
		bail("no type for %s", t.p.src(e))
	}
	return tv.Type
}

func lit(v constant.Value, w int) string {
	i := constant.ToInt(v)
	if i.Kind() != constant.Int {
		bail("non-integer constant %s", v)
	}
	s := i.ExactString()
	if strings.HasPrefix(s, "-") {
		return fmt.Sprintf("(BitVec.ofInt %d (%s))", w, s)
	}
	return fmt.Sprintf("(%s#%d)", s, w)
}

func (t *fnTr) leanType(ty types.Type) string {
	if isBool(ty) {
		return "Bool"
	}
	w, _ := intWidth(ty)
	return fmt.Sprintf("BitVec %d", w)
}

func (t *fnTr) param(name, typ string) {
	if old, ok := t.named[name]; ok && old != typ {
		bail("parameter %s used at two types", name)
	}
	t.named[name] = typ
}

func (t *fnTr) paramIndex(obj types.Object) int {
	i := 0
	for _, fl := range t.fd.Type.Params.List {
		for _, n := range fl.Names {
			if t.p.info.Defs[n] == obj {
				return i
			}
			i++
		}
	}
	return -1
}

// path resolves a selector chain of struct fields down to its root variable.
func (t *fnTr) path(x *ast.SelectorExpr) (pathT, bool) {
	var fields []string
	var e ast.Expr = x
	for {
		switch y := e.(type) {
		case *ast.ParenExpr:
			e = y.X
			continue
		case *ast.SelectorExpr:
			if sel := t.p.info.Selections[y]; sel == nil || sel.Kind() != types.FieldVal {
				return pathT{}, false
			}
			fields = append([]string{y.Sel.Name}, fields...)
			e = y.X
			continue
		case *ast.Ident:
			obj, ok := t.p.info.Uses[y].(*types.Var)
			if !ok {
				return pathT{}, false
			}
			if sub, ok := t.subst[obj]; ok {
				return pathT{sub.root, append(append([]string{}, sub.fields...), fields...)}, true
			}
			return pathT{obj, fields}, true
		}
		return pathT{}, false
	}
}

func (t *fnTr) fieldParam(x *ast.SelectorExpr) (string, bool) {
	pt, ok := t.path(x)
	if !ok {
		return "", false
	}
	if !t.guard && pt.root != t.recvObj {
		return "", false
	}
	name := "f_" + strings.Join(pt.fields, "_")
	if o, seen := t.owner[name]; seen && o != pt.root {
		bail("field path %s reached from two different variables", name)
	}
	t.owner[name] = pt.root
	t.param(name, t.leanType(t.typeOf(x)))
	return name, true
}

// variable names a plain identifier that is not let-bound: inlined definition, or a parameter.
func (t *fnTr) variable(x *ast.Ident, asCond bool) (string, bool) {
	obj, ok := t.p.info.Uses[x].(*types.Var)
	if !ok {
		return "", false
	}
	if def, ok := t.inline[obj]; ok {
		if s, ok := t.tryInline(def, asCond); ok {
			return s, true
		}
		// the definition is not translatable (a call, a slice ...): the variable is a parameter
		delete(t.inline, obj)
	}
	if !t.guard {
		// function mode: declared parameters and let-bound locals keep their names
		t.leanType(obj.Type())
		return leanIdent(x.Name), true
	}
	name := "v_" + x.Name
	if i := t.paramIndex(obj); i >= 0 {
		name = fmt.Sprintf("p%d", i)
	}
	t.param(name, t.leanType(obj.Type()))
	return name, true
}

// tryInline translates the defining expression of a local; on failure nothing is kept.
func (t *fnTr) tryInline(def ast.Expr, asCond bool) (out string, ok bool) {
	if t.depth > 8 {
		return "", false
	}
	savedNamed, savedOwner := map[string]string{}, map[string]types.Object{}
	for k, v := range t.named {
		savedNamed[k] = v
	}
	for k, v := range t.owner {
		savedOwner[k] = v
	}
	t.depth++
	defer func() {
		t.depth--
		if e := recover(); e != nil {
			if _, is := e.(untranslatable); !is {
				panic(e)
			}
			t.named, t.owner = savedNamed, savedOwner
			out, ok = "", false
		}
	}()
	if asCond {
		return t.cond(def), true
	}
	return t.expr(def), true
}

func (t *fnTr) expr(e ast.Expr) string {
	tv := t.p.info.Types[e]
	if tv.Value != nil && tv.Type != nil {
		if b, ok := tv.Type.Underlying().(*types.Basic); ok && b.Info()&types.IsInteger != 0 {
			if b.Info()&types.IsUntyped != 0 {
				bail("untyped constant %s with no final type", t.p.src(e))
			}
			w, _ := intWidth(tv.Type)
			return lit(tv.Value, w)
		}
	}
	switch x := e.(type) {
	case *ast.ParenExpr:
		return t.expr(x.X)
	case *ast.Ident:
		intWidth(t.typeOf(x))
		if s, ok := t.variable(x, false); ok {
			return s
		}
		bail("identifier %s", x.Name)
	case *ast.SelectorExpr:
		intWidth(t.typeOf(x))
		if name, ok := t.fieldParam(x); ok {
			return name
		}
		bail("selector %s", t.p.src(x))
	case *ast.UnaryExpr:
		switch x.Op {
		case token.XOR:
			return "(~~~" + t.expr(x.X) + ")"
		case token.SUB:
			return "(-" + t.expr(x.X) + ")"
		}
		bail("unary %s", x.Op)
	case *ast.BinaryExpr:
		a, b := t.expr(x.X), t.expr(x.Y)
		_, signed := intWidth(t.typeOf(x))
		switch x.Op {
		case token.ADD:
			return "(" + a + " + " + b + ")"
		case token.SUB:
			return "(" + a + " - " + b + ")"
		case token.MUL:
			return "(" + a + " * " + b + ")"
		case token.AND:
			return "(" + a + " &&& " + b + ")"
		case token.OR:
			return "(" + a + " ||| " + b + ")"
		case token.XOR:
			return "(" + a + " ^^^ " + b + ")"
		case token.AND_NOT:
			return "(" + a + " &&& ~~~" + b + ")"
		case token.SHL, token.SHR:
			if _, cs := intWidth(t.typeOf(x.Y)); cs {
				if t.p.info.Types[x.Y].Value == nil {
					bail("signed non-constant shift count in %s", t.p.src(x))
				}
			}
			if x.Op == token.SHL {
				return "(" + a + " <<< (" + b + ").toNat)"
			}
			if signed {
				return "(BitVec.sshiftRight " + a + " (" + b + ").toNat)"
			}
			return "(" + a + " >>> (" + b + ").toNat)"
		}
		bail("binary %s", x.Op)
	case *ast.CallExpr:
		// conversion
		if ftv, ok := t.p.info.Types[x.Fun]; ok && ftv.IsType() && len(x.Args) == 1 {
			w2, _ := intWidth(ftv.Type)
			w1, s1 := intWidth(t.typeOf(x.Args[0]))
			a := t.expr(x.Args[0])
			if w2 > w1 && s1 {
				return fmt.Sprintf("(BitVec.signExtend %d %s)", w2, a)
			}
			return fmt.Sprintf("(BitVec.setWidth %d %s)", w2, a)
		}
		if id, ok := x.Fun.(*ast.Ident); ok && id.Name == "len" && len(x.Args) == 1 && t.guard {
			if _, isB := t.p.info.Uses[id].(*types.Builtin); isB {
				if a, ok := x.Args[0].(*ast.Ident); ok {
					if obj, ok := t.p.info.Uses[a].(*types.Var); ok {
						name := "len_v_" + a.Name
						if i := t.paramIndex(obj); i >= 0 {
							name = fmt.Sprintf("len_p%d", i)
						}
						t.param(name, "BitVec 64")
						return name
					}
				}
			}
		}
		if id, ok := x.Fun.(*ast.Ident); ok && t.known[id.Name] {
			if _, isFn := t.p.info.Uses[id].(*types.Func); isFn {
				var args []string
				for _, a := range x.Args {
					args = append(args, t.expr(a))
				}
				return "(" + id.Name + " " + strings.Join(args, " ") + ")"
			}
		}
		if body, done := t.enterMethod(x); body != nil {
			defer done()
			return t.expr(body)
		}
		bail("call %s", t.p.src(x))
	}
	bail("expression %s", t.p.src(e))
	return ""
}

// enterMethod: a call `path.m()` of a parameterless method of this package whose body is a single
// `return e` is inlined; the method's receiver stands for `path`.
func (t *fnTr) enterMethod(x *ast.CallExpr) (ast.Expr, func()) {
	sel, ok := x.Fun.(*ast.SelectorExpr)
	if !ok || len(x.Args) != 0 {
		return nil, nil
	}
	s := t.p.info.Selections[sel]
	if s == nil || s.Kind() != types.MethodVal {
		return nil, nil
	}
	fn, ok := s.Obj().(*types.Func)
	if !ok || fn.Pkg() != t.p.pkg {
		return nil, nil
	}
	var fd *ast.FuncDecl
	for _, f := range t.p.files {
		for _, d := range f.Decls {
			if g, ok := d.(*ast.FuncDecl); ok && t.p.info.Defs[g.Name] == fn {
				fd = g
			}
		}
	}
	if fd == nil || fd.Body == nil || len(fd.Body.List) != 1 || fd.Recv == nil || len(fd.Recv.List) != 1 || len(fd.Recv.List[0].Names) != 1 {
		return nil, nil
	}
	ret, ok := fd.Body.List[0].(*ast.ReturnStmt)
	if !ok || len(ret.Results) != 1 {
		return nil, nil
	}
	// the receiver expression at the call site must be a variable or a field path
	var at pathT
	switch r := sel.X.(type) {
	case *ast.Ident:
		obj, ok := t.p.info.Uses[r].(*types.Var)
		if !ok {
			return nil, nil
		}
		at = pathT{obj, nil}
		if sub, ok := t.subst[obj]; ok {
			at = sub
		}
	case *ast.SelectorExpr:
		pt, ok := t.path(r)
		if !ok {
			return nil, nil
		}
		at = pt
	default:
		return nil, nil
	}
	if t.depth > 8 {
		bail("inlining too deep at %s", t.p.src(x))
	}
	robj := t.p.info.Defs[fd.Recv.List[0].Names[0]]
	old, had := t.subst[robj]
	t.subst[robj] = at
	t.depth++
	return ret.Results[0], func() {
		t.depth--
		if had {
			t.subst[robj] = old
		} else {
			delete(t.subst, robj)
		}
	}
}

func (t *fnTr) cond(e ast.Expr) string {
	if isBool(t.typeOf(e)) {
		switch x := e.(type) {
		case *ast.SelectorExpr:
			if name, ok := t.fieldParam(x); ok {
				return "(" + name + " = true)"
			}
		case *ast.Ident:
			if obj, ok := t.p.info.Uses[x].(*types.Var); ok {
				if def, inl := t.inline[obj]; inl {
					if s, ok := t.tryInline(def, true); ok {
						return s
					}
					delete(t.inline, obj)
				}
				if s, ok := t.variable(x, true); ok {
					return "(" + s + " = true)"
				}
			}
		case *ast.CallExpr:
			if body, done := t.enterMethod(x); body != nil {
				defer done()
				return t.cond(body)
			}
		}
	}
	switch x := e.(type) {
	case *ast.ParenExpr:
		return t.cond(x.X)
	case *ast.UnaryExpr:
		if x.Op == token.NOT {
			return "(¬ " + t.cond(x.X) + ")"
		}
	case *ast.BinaryExpr:
		switch x.Op {
		case token.LAND:
			return "(" + t.cond(x.X) + " ∧ " + t.cond(x.Y) + ")"
		case token.LOR:
			return "(" + t.cond(x.X) + " ∨ " + t.cond(x.Y) + ")"
		case token.EQL, token.NEQ, token.LSS, token.LEQ, token.GTR, token.GEQ:
			a, b := t.expr(x.X), t.expr(x.Y)
			_, signed := intWidth(t.typeOf(x.X))
			switch x.Op {
			case token.EQL:
				return "(" + a + " = " + b + ")"
			case token.NEQ:
				return "(" + a + " ≠ " + b + ")"
			}
			if signed {
				switch x.Op {
				case token.LSS:
					return "(BitVec.slt " + a + " " + b + " = true)"
				case token.LEQ:
					return "(BitVec.sle " + a + " " + b + " = true)"
				case token.GTR:
					return "(BitVec.slt " + b + " " + a + " = true)"
				case token.GEQ:
					return "(BitVec.sle " + b + " " + a + " = true)"
				}
			}
			op := map[token.Token]string{token.LSS: "<", token.LEQ: "≤", token.GTR: ">", token.GEQ: "≥"}[x.Op]
			return "(" + a + " " + op + " " + b + ")"
		}
	}
	bail("condition %s", t.p.src(e))
	return ""
}

func returns(stmts []ast.Stmt) bool {
	if len(stmts) == 0 {
		return false
	}
	switch s := stmts[len(stmts)-1].(type) {
	case *ast.ReturnStmt:
		return true
	case *ast.IfStmt:
		if s.Else == nil {
			return false
		}
		eb, ok := s.Else.(*ast.BlockStmt)
		return ok && returns(s.Body.List) && returns(eb.List)
	}
	return false
}

func (t *fnTr) block(stmts []ast.Stmt, ind string) string {
	if len(stmts) == 0 {
		bail("control reaches the end of the function")
	}
	rest := stmts[1:]
	switch s := stmts[0].(type) {
	case *ast.ReturnStmt:
		if len(s.Results) != 1 {
			bail("return with %d results", len(s.Results))
		}
		return ind + t.expr(s.Results[0])
	case *ast.AssignStmt:
		if len(s.Lhs) != 1 || len(s.Rhs) != 1 {
			bail("multi-assignment")
		}
		id, ok := s.Lhs[0].(*ast.Ident)
		if !ok {
			bail("assignment to %s", t.p.src(s.Lhs[0]))
		}
		var obj types.Object
		if s.Tok == token.DEFINE {
			obj = t.p.info.Defs[id]
		} else {
			obj = t.p.info.Uses[id]
		}
		if obj == nil {
			bail("unresolved %s", id.Name)
		}
		w, _ := intWidth(obj.Type())
		var rhs string
		switch s.Tok {
		case token.DEFINE, token.ASSIGN:
			rhs = t.expr(s.Rhs[0])
		default:
			ops := map[token.Token]token.Token{token.ADD_ASSIGN: token.ADD, token.SUB_ASSIGN: token.SUB, token.MUL_ASSIGN: token.MUL,
				token.AND_ASSIGN: token.AND, token.OR_ASSIGN: token.OR, token.XOR_ASSIGN: token.XOR, token.AND_NOT_ASSIGN: token.AND_NOT,
				token.SHL_ASSIGN: token.SHL, token.SHR_ASSIGN: token.SHR}
			op, ok := ops[s.Tok]
			if !ok {
				bail("assignment operator %s", s.Tok)
			}
			be := &ast.BinaryExpr{X: id, Op: op, Y: s.Rhs[0]}
			t.p.info.Types[be] = types.TypeAndValue{Type: obj.Type()}
			rhs = t.expr(be)
		}
		return fmt.Sprintf("%slet %s : BitVec %d := %s\n%s", ind, leanIdent(id.Name), w, rhs, t.block(rest, ind))
	case *ast.IfStmt:
		if s.Init != nil {
			bail("if with init statement")
		}
		if !returns(s.Body.List) {
			bail("if body falls through")
		}
		var els string
		if s.Else != nil {
			eb, ok := s.Else.(*ast.BlockStmt)
			if !ok || !returns(eb.List) {
				bail("else shape")
			}
			els = t.block(eb.List, ind+"  ")
		} else {
			els = t.block(rest, ind+"  ")
		}
		return fmt.Sprintf("%sif %s then\n%s\n%selse\n%s", ind, t.cond(s.Cond), t.block(s.Body.List, ind+"  "), ind, els)
	}
	bail("statement %s", t.p.src(stmts[0]))
	return ""
}

func (t *fnTr) namedBinders() string {
	var names []string
	for n := range t.named {
		names = append(names, n)
	}
	sort.Strings(names)
	var out []string
	for _, n := range names {
		out = append(out, fmt.Sprintf("(%s : %s)", n, t.named[n]))
	}
	return strings.Join(out, " ")
}

func newTr(p *pkgInfo, fd *ast.FuncDecl, known map[string]bool, guard bool) *fnTr {
	t := &fnTr{p: p, fd: fd, guard: guard, named: map[string]string{}, owner: map[string]types.Object{}, known: known,
		inline: map[types.Object]ast.Expr{}, subst: map[types.Object]pathT{}}
	if fd.Recv != nil && len(fd.Recv.List) == 1 && len(fd.Recv.List[0].Names) == 1 {
		t.recvObj = p.info.Defs[fd.Recv.List[0].Names[0]]
	}
	return t
}

func (p *pkgInfo) translateFn(f pureFn, known map[string]bool) (def string, err string) {
	defer func() {
		if e := recover(); e != nil {
			if u, ok := e.(untranslatable); ok {
				def, err = "", u.why
				return
			}
			panic(e)
		}
	}()
	fd := p.funcDecl(f.recv, f.name)
	if fd == nil || fd.Body == nil {
		return "", "not found"
	}
	t := newTr(p, fd, known, false)
	var own []string
	for _, fl := range fd.Type.Params.List {
		for _, n := range fl.Names {
			w, _ := intWidth(p.info.Defs[n].Type())
			own = append(own, fmt.Sprintf("(%s : BitVec %d)", leanIdent(n.Name), w))
		}
	}
	if fd.Type.Results == nil || len(fd.Type.Results.List) != 1 || len(fd.Type.Results.List[0].Names) > 0 {
		bail("result list")
	}
	rw, _ := intWidth(p.info.Types[fd.Type.Results.List[0].Type].Type)
	body := t.block(fd.Body.List, "  ")
	binders := strings.TrimSpace(strings.Join(own, " ") + " " + t.namedBinders())
	return fmt.Sprintf("/-- `%s` -/\ndef %s %s : BitVec %d :=\n%s\n", p.src(fd.Type), f.name, binders, rw, body), ""
}

// A guard is the condition of one `if` statement, located by what its body does.
type guardSpec struct {
	recv, fn, name string
	anchor         string // source text that the body of the if statement must contain
}

var guards = []guardSpec{
	{"datalog", "writeRecord", "rolloverGuard", "dl.swapSegment()"},
	{"segmentIterator", "next", "recordFitsGuard", "io.ErrUnexpectedEOF"},
	{"segmentIterator", "next", "deleteBitGuard", "recordTypeDelete"},
	{"index", "put", "indexFullGuard", "errFull"},
	{"DB", "Put", "keyTooLargeGuard", "errKeyTooLarge"},
	{"DB", "Put", "valueTooLargeGuard", "errValueTooLarge"},
}

// pureDefine: `x := e` (or `x, y := e1, e2`), the e free of calls other than conversions, len and
// translated functions (checked when it is translated; here only the statement shape).
func pureDefine(s ast.Stmt) ([]*ast.Ident, []ast.Expr, bool) {
	as, ok := s.(*ast.AssignStmt)
	if !ok || as.Tok != token.DEFINE || len(as.Lhs) != len(as.Rhs) {
		return nil, nil, false
	}
	var ids []*ast.Ident
	for _, l := range as.Lhs {
		id, ok := l.(*ast.Ident)
		if !ok || id.Name == "_" {
			return nil, nil, false
		}
		ids = append(ids, id)
	}
	impure := false
	for _, r := range as.Rhs {
		ast.Inspect(r, func(n ast.Node) bool {
			switch n.(type) {
			case *ast.FuncLit, *ast.UnaryExpr:
				if u, ok := n.(*ast.UnaryExpr); ok && (u.Op == token.ARROW || u.Op == token.AND) {
					impure = true
				}
				if _, ok := n.(*ast.FuncLit); ok {
					impure = true
				}
			}
			return true
		})
	}
	return ids, as.Rhs, !impure
}

// skippableGuard: `if c { return ... }` with a condition free of calls other than len and
// conversions - it changes nothing, definitions in front of it still hold behind it.
func skippableGuard(s ast.Stmt) bool {
	is, ok := s.(*ast.IfStmt)
	if !ok || is.Init != nil || is.Else != nil || len(is.Body.List) != 1 {
		return false
	}
	ret, ok := is.Body.List[0].(*ast.ReturnStmt)
	if !ok {
		return false
	}
	pure := true
	check := func(n ast.Node) bool {
		switch x := n.(type) {
		case *ast.CallExpr:
			id, ok := x.Fun.(*ast.Ident)
			if !ok || (id.Name != "len" && id.Name != "int" && id.Name != "int64" && id.Name != "uint32" && id.Name != "uint16" && id.Name != "uint64") {
				pure = false
			}
		case *ast.FuncLit:
			pure = false
		case *ast.UnaryExpr:
			if x.Op == token.ARROW {
				pure = false
			}
		}
		return true
	}
	ast.Inspect(is.Cond, check)
	for _, r := range ret.Results {
		ast.Inspect(r, check)
	}
	return pure
}

func (p *pkgInfo) translateGuard(g guardSpec, known map[string]bool) (def string, err string) {
	defer func() {
		if e := recover(); e != nil {
			if u, ok := e.(untranslatable); ok {
				def, err = "", u.why
				return
			}
			panic(e)
		}
	}()
	fd := p.funcDecl(g.recv, g.fn)
	if fd == nil || fd.Body == nil {
		return "", "function not found"
	}
	type hit struct {
		is    *ast.IfStmt
		block []ast.Stmt
		idx   int
	}
	var hits []hit
	var walk func(stmts []ast.Stmt)
	walkStmt := func(s ast.Stmt) {}
	contains := func(is *ast.IfStmt) bool { return is.Init == nil && strings.Contains(p.src(is.Body), g.anchor) }
	walk = func(stmts []ast.Stmt) {
		for i, s := range stmts {
			if is, ok := s.(*ast.IfStmt); ok && contains(is) {
				inner := false
				ast.Inspect(is.Body, func(m ast.Node) bool {
					if js, ok := m.(*ast.IfStmt); ok && contains(js) {
						inner = true
					}
					return true
				})
				if !inner {
					hits = append(hits, hit{is, stmts, i})
					continue
				}
			}
			walkStmt(s)
		}
	}
	walkStmt = func(s ast.Stmt) {
		switch x := s.(type) {
		case *ast.BlockStmt:
			walk(x.List)
		case *ast.IfStmt:
			walk(x.Body.List)
			if x.Else != nil {
				walkStmt(x.Else)
			}
		case *ast.ForStmt:
			walk(x.Body.List)
		case *ast.RangeStmt:
			walk(x.Body.List)
		case *ast.SwitchStmt:
			walk(x.Body.List)
		case *ast.CaseClause:
			walk(x.Body)
		case *ast.ExprStmt, *ast.AssignStmt, *ast.DeferStmt, *ast.GoStmt, *ast.ReturnStmt:
			ast.Inspect(x, func(n ast.Node) bool {
				if fl, ok := n.(*ast.FuncLit); ok {
					walk(fl.Body.List)
					return false
				}
				return true
			})
		}
	}
	walk(fd.Body.List)
	if len(hits) != 1 {
		return "", fmt.Sprintf("%d if statements whose body contains %q", len(hits), g.anchor)
	}
	h := hits[0]
	t := newTr(p, fd, known, true)
	// inline the run of pure definitions directly in front of the if statement
	for i := h.idx - 1; i >= 0; i-- {
		if skippableGuard(h.block[i]) {
			continue
		}
		ids, rhs, ok := pureDefine(h.block[i])
		if !ok {
			break
		}
		for j, id := range ids {
			if obj := p.info.Defs[id]; obj != nil {
				t.inline[obj] = rhs[j]
			}
		}
	}
	c := t.cond(h.is.Cond)
	return fmt.Sprintf("/-- `%s.%s`: `if %s` -/\ndef %s %s : Bool :=\n  decide %s\n", g.recv, g.fn, p.src(h.is.Cond), g.name, t.namedBinders(), c), ""
}


// A request is the value a method hands to one call ("anchor"), as a function of the receiver's
// integer fields at entry: `none` when the method returns before the call, `some v` otherwise.
// Body shape: `x := e`, `x = e`, `x op= e` on locals; `if c { ...return }`; `if c { assignments }
// [else { assignments }]` (one local assigned: becomes `let x := if c then .. else ..`); and
// `if err := call(...); err != nil { return err }`, which is the anchor or an opaque effect. The
// receiver fields an effect may write (assignments in the callee, transitively through methods of
// the same receiver) must not be read afterwards - otherwise the item is untranslated.
type requestSpec struct {
	recv, fn, name string
	anchor         string // method name of the anchor call
	arg            int
}

var requests = []requestSpec{
	{"osMMapFile", "mremap", "mremapRequest", "mmap", 1},
}

type reqTr struct {
	*fnTr
	spec      requestSpec
	clobbered map[string]bool
	width     int
}

// fieldsWritten: first-level receiver fields a method of this package assigns.
func (p *pkgInfo) fieldsWritten(fn *types.Func, seen map[*types.Func]bool, out map[string]bool) {
	if seen[fn] {
		return
	}
	seen[fn] = true
	var fd *ast.FuncDecl
	for _, f := range p.files {
		for _, d := range f.Decls {
			if g, ok := d.(*ast.FuncDecl); ok && p.info.Defs[g.Name] == fn {
				fd = g
			}
		}
	}
	if fd == nil || fd.Body == nil || fd.Recv == nil || len(fd.Recv.List) != 1 || len(fd.Recv.List[0].Names) != 1 {
		out["*"] = true
		return
	}
	robj := p.info.Defs[fd.Recv.List[0].Names[0]]
	first := func(e ast.Expr) {
		var last string
		for {
			switch y := e.(type) {
			case *ast.ParenExpr:
				e = y.X
				continue
			case *ast.StarExpr:
				e = y.X
				continue
			case *ast.IndexExpr:
				e = y.X
				continue
			case *ast.SelectorExpr:
				last = y.Sel.Name
				e = y.X
				continue
			case *ast.Ident:
				if p.info.Uses[y] == robj {
					if last == "" {
						out["*"] = true
					} else {
						out[last] = true
					}
				}
			}
			return
		}
	}
	ast.Inspect(fd.Body, func(n ast.Node) bool {
		switch x := n.(type) {
		case *ast.AssignStmt:
			for _, l := range x.Lhs {
				first(l)
			}
		case *ast.IncDecStmt:
			first(x.X)
		case *ast.UnaryExpr:
			if x.Op == token.AND {
				first(x.X)
			}
		case *ast.CallExpr:
			if sel, ok := x.Fun.(*ast.SelectorExpr); ok {
				if s := p.info.Selections[sel]; s != nil && s.Kind() == types.MethodVal {
					if id, ok := sel.X.(*ast.Ident); ok && p.info.Uses[id] == robj {
						if callee, ok := s.Obj().(*types.Func); ok && callee.Pkg() == p.pkg {
							p.fieldsWritten(callee, seen, out)
						}
					}
				}
			}
		}
		return true
	})
}

// effectCall: `if err := X.m(args); err != nil { return err }`
func effectCall(s *ast.IfStmt) *ast.CallExpr {
	as, ok := s.Init.(*ast.AssignStmt)
	if !ok || len(as.Lhs) != 1 || len(as.Rhs) != 1 || s.Else != nil {
		return nil
	}
	call, ok := as.Rhs[0].(*ast.CallExpr)
	if !ok || len(s.Body.List) != 1 {
		return nil
	}
	if _, ok := s.Body.List[0].(*ast.ReturnStmt); !ok {
		return nil
	}
	return call
}

func (t *reqTr) checkReads(e ast.Expr) {
	ast.Inspect(e, func(n ast.Node) bool {
		if sel, ok := n.(*ast.SelectorExpr); ok {
			if pt, ok := t.path(sel); ok && pt.root == t.recvObj && len(pt.fields) > 0 {
				if t.clobbered["*"] || t.clobbered[pt.fields[0]] {
					bail("field %s read after a call that may write it", t.p.src(sel))
				}
			}
		}
		return true
	})
}

func (t *reqTr) effect(call *ast.CallExpr) {
	sel, ok := call.Fun.(*ast.SelectorExpr)
	if !ok {
		bail("effect %s", t.p.src(call))
	}
	s := t.p.info.Selections[sel]
	if s == nil || s.Kind() != types.MethodVal {
		bail("effect %s", t.p.src(call))
	}
	fn, ok := s.Obj().(*types.Func)
	if !ok || fn.Pkg() != t.p.pkg {
		t.clobbered["*"] = true
		return
	}
	t.p.fieldsWritten(fn, map[*types.Func]bool{}, t.clobbered)
}

func (t *reqTr) isAnchor(call *ast.CallExpr) bool {
	sel, ok := call.Fun.(*ast.SelectorExpr)
	return ok && sel.Sel.Name == t.spec.anchor
}

func (t *reqTr) assign(s *ast.AssignStmt) (name string, w int, rhs string, obj types.Object) {
	if len(s.Lhs) != 1 || len(s.Rhs) != 1 {
		bail("multi-assignment")
	}
	id, ok := s.Lhs[0].(*ast.Ident)
	if !ok {
		bail("assignment to %s before the request", t.p.src(s.Lhs[0]))
	}
	if s.Tok == token.DEFINE {
		obj = t.p.info.Defs[id]
	} else {
		obj = t.p.info.Uses[id]
	}
	if obj == nil {
		bail("unresolved %s", id.Name)
	}
	w, _ = intWidth(obj.Type())
	t.checkReads(s.Rhs[0])
	switch s.Tok {
	case token.DEFINE, token.ASSIGN:
		rhs = t.expr(s.Rhs[0])
	default:
		ops := map[token.Token]token.Token{token.ADD_ASSIGN: token.ADD, token.SUB_ASSIGN: token.SUB, token.MUL_ASSIGN: token.MUL,
			token.AND_ASSIGN: token.AND, token.OR_ASSIGN: token.OR, token.XOR_ASSIGN: token.XOR, token.AND_NOT_ASSIGN: token.AND_NOT,
			token.SHL_ASSIGN: token.SHL, token.SHR_ASSIGN: token.SHR}
		op, ok := ops[s.Tok]
		if !ok {
			bail("assignment operator %s", s.Tok)
		}
		be := &ast.BinaryExpr{X: id, Op: op, Y: s.Rhs[0]}
		t.p.info.Types[be] = types.TypeAndValue{Type: obj.Type()}
		rhs = t.expr(be)
	}
	return leanIdent(id.Name), w, rhs, obj
}

// assignedIn: locals assigned (not declared) in a statement list.
func (t *reqTr) assignedIn(stmts []ast.Stmt, out map[types.Object]*ast.Ident) {
	for _, s := range stmts {
		ast.Inspect(s, func(n ast.Node) bool {
			if as, ok := n.(*ast.AssignStmt); ok && as.Tok != token.DEFINE {
				for _, l := range as.Lhs {
					if id, ok := l.(*ast.Ident); ok {
						if obj := t.p.info.Uses[id]; obj != nil {
							out[obj] = id
						}
					}
				}
			}
			return true
		})
	}
}

// value: the statements as an expression for the final value of local `x`.
func (t *reqTr) value(stmts []ast.Stmt, x string) string {
	if len(stmts) == 0 {
		return x
	}
	rest := stmts[1:]
	switch s := stmts[0].(type) {
	case *ast.AssignStmt:
		name, w, rhs, _ := t.assign(s)
		return fmt.Sprintf("(let %s : BitVec %d := %s; %s)", name, w, rhs, t.value(rest, x))
	case *ast.IfStmt:
		if call := effectCall(s); call != nil {
			if t.isAnchor(call) {
				bail("request inside a branch")
			}
			t.effect(call)
			return t.value(rest, x)
		}
		return t.merge(s, func() string { return t.value(rest, x) })
	}
	bail("statement %s", t.p.src(stmts[0]))
	return ""
}

// merge: an if statement whose branches fall through and assign one local.
func (t *reqTr) merge(s *ast.IfStmt, rest func() string) string {
	if s.Init != nil {
		bail("if with init statement")
	}
	var els []ast.Stmt
	if s.Else != nil {
		eb, ok := s.Else.(*ast.BlockStmt)
		if !ok {
			bail("else shape")
		}
		els = eb.List
	}
	set := map[types.Object]*ast.Ident{}
	t.assignedIn(s.Body.List, set)
	t.assignedIn(els, set)
	if len(set) != 1 {
		bail("if statement assigning %d locals", len(set))
	}
	t.checkReads(s.Cond)
	c := t.cond(s.Cond)
	for obj, id := range set {
		w, _ := intWidth(obj.Type())
		x := leanIdent(id.Name)
		a := t.value(s.Body.List, x)
		b := t.value(els, x)
		return fmt.Sprintf("(let %s : BitVec %d := (if %s then %s else %s); %s)", x, w, c, a, b, rest())
	}
	return ""
}

func (t *reqTr) request(stmts []ast.Stmt) string {
	if len(stmts) == 0 {
		bail("the request is not reached")
	}
	rest := stmts[1:]
	switch s := stmts[0].(type) {
	case *ast.ReturnStmt:
		return "none"
	case *ast.AssignStmt:
		name, w, rhs, _ := t.assign(s)
		return fmt.Sprintf("(let %s : BitVec %d := %s;\n  %s)", name, w, rhs, t.request(rest))
	case *ast.IfStmt:
		if call := effectCall(s); call != nil {
			if t.isAnchor(call) {
				if t.spec.arg >= len(call.Args) {
					bail("anchor has %d arguments", len(call.Args))
				}
				for _, a := range call.Args {
					t.checkReads(a)
				}
				t.width, _ = intWidth(t.typeOf(call.Args[t.spec.arg]))
				return "some " + t.expr(call.Args[t.spec.arg])
			}
			t.effect(call)
			return t.request(rest)
		}
		if s.Init == nil && returns(s.Body.List) {
			t.checkReads(s.Cond)
			c := t.cond(s.Cond)
			var els string
			if s.Else != nil {
				eb, ok := s.Else.(*ast.BlockStmt)
				if !ok {
					bail("else shape")
				}
				els = t.request(eb.List)
			} else {
				els = t.request(rest)
			}
			return fmt.Sprintf("(if %s then %s else\n  %s)", c, t.request(s.Body.List), els)
		}
		return t.merge(s, func() string { return "\n  " + t.request(rest) })
	}
	bail("statement %s", t.p.src(stmts[0]))
	return ""
}

func (p *pkgInfo) translateRequest(r requestSpec) (def string, err string) {
	defer func() {
		if e := recover(); e != nil {
			if u, ok := e.(untranslatable); ok {
				def, err = "", u.why
				return
			}
			panic(e)
		}
	}()
	fd := p.funcDecl(r.recv, r.fn)
	if fd == nil || fd.Body == nil {
		return "", "function not found"
	}
	t := &reqTr{fnTr: newTr(p, fd, map[string]bool{}, false), spec: r, clobbered: map[string]bool{}}
	body := t.request(fd.Body.List)
	return fmt.Sprintf("/-- `%s.%s`: argument %d of the call of `%s` (`none`: returns before it) -/\ndef %s %s : Option (BitVec %d) :=\n  %s\n",
		r.recv, r.fn, r.arg, r.anchor, r.name, t.namedBinders(), t.width, body), ""
}

func genFuncs(root, fsp *pkgInfo) {
	var sb strings.Builder
	sb.WriteString("namespace Pogreb.Generated.Funcs\n\n")
	known := map[string]bool{}
	for _, f := range pureFns {
		def, why := root.translateFn(f, known)
		if def == "" {
			fmt.Fprintf(&sb, "-- %s: NOT TRANSLATED (%s)\ndef %s_translated : Bool := false\n\n", f.name, why, f.name)
			continue
		}
		known[f.name] = true
		fmt.Fprintf(&sb, "%sdef %s_translated : Bool := true\n\n", def, f.name)
	}
	for _, g := range guards {
		def, why := root.translateGuard(g, known)
		if def == "" {
			fmt.Fprintf(&sb, "-- %s: NOT TRANSLATED (%s)\ndef %s_translated : Bool := false\n\n", g.name, why, g.name)
			continue
		}
		fmt.Fprintf(&sb, "%sdef %s_translated : Bool := true\n\n", def, g.name)
	}
	for _, r := range requests {
		def, why := fsp.translateRequest(r)
		if def == "" {
			fmt.Fprintf(&sb, "-- %s: NOT TRANSLATED (%s)\ndef %s_translated : Bool := false\n\n", r.name, why, r.name)
			continue
		}
		fmt.Fprintf(&sb, "%sdef %s_translated : Bool := true\n\n", def, r.name)
	}
	sb.WriteString("end Pogreb.Generated.Funcs\n")
	write("Funcs.lean", sb.String())
}
